import WsVerif.Model.Smooth
import Mathlib.Tactic.Linarith
import Mathlib.Tactic.Ring
import Mathlib.Tactic.FieldSimp
import Mathlib.Tactic.Positivity
import Mathlib.Algebra.Order.Field.Rat
import Mathlib.Algebra.BigOperators.Group.List.Basic
import Mathlib.Algebra.Order.BigOperators.Group.List
import Mathlib.Data.List.Perm.Basic
import Mathlib.Data.List.Nodup
/-! Helper lemmas for the smoothing model (C16). -/
namespace WS.Smooth
open WS

/-! ### tabulated lists -/

theorem getD_tab {α : Type} (n : Nat) (f : Nat → α) (i : Nat) (d : α) :
    ((List.range n).map f).getD i d = if i < n then f i else d := by
  by_cases h : i < n <;> simp [List.getD_eq_getElem?_getD, h]

theorem getR_tab (n : Nat) (f : Nat → Rat) (i : Nat) :
    getR ((List.range n).map f) i = if i < n then f i else 0 := getD_tab n f i 0

theorem cellAt_tab (n m : Nat) (g : Nat → Nat → Rat) (i j : Nat) :
    cellAt ((List.range n).map fun i => (List.range m).map (g i)) i j = if i < n ∧ j < m then g i j else 0 := by
  unfold cellAt
  rw [getD_tab]
  by_cases hi : i < n
  · simp only [hi, if_true, true_and]; exact getR_tab m (g i) j
  · simp [hi, getR]

theorem ocell_tab (n m : Nat) (g : Nat → Nat → Option Rat) (i j : Nat) :
    ocell ((List.range n).map fun i => (List.range m).map (g i)) i j = if i < n ∧ j < m then g i j else none := by
  unfold ocell
  rw [getD_tab]
  by_cases hi : i < n
  · simp only [hi, if_true, true_and]; exact getD_tab m (g i) j none
  · simp [hi]

theorem map_getR_range (r : Vec) : (List.range r.length).map (getR r) = r := by
  apply List.ext_getElem
  · simp
  · intro i h1 h2
    simp [getR, List.getD_eq_getElem?_getD, h2]

/-- all rows have `nd` entries -/
def Rect (e : Mat) (nd : Nat) : Prop := ∀ r ∈ e, r.length = nd

instance (e : Mat) (nd : Nat) : Decidable (Rect e nd) := by unfold Rect; infer_instance

theorem takeCols_range (e : Mat) (nd : Nat) (h : Rect e nd) : takeCols (List.range nd) e = e := by
  unfold takeCols
  conv_rhs => rw [← List.map_id e]
  apply List.map_congr_left
  intro r hr
  rw [← h r hr]; exact map_getR_range r

theorem tab_cellAt (e : Mat) (nd : Nat) (h : Rect e nd) :
    ((List.range e.length).map fun i => (List.range nd).map fun k => cellAt e i k) = e := by
  apply List.ext_getElem
  · simp
  · intro i h1 h2
    simp only [List.getElem_map, List.getElem_range]
    have hr : (e[i]).length = nd := h _ (List.getElem_mem h2)
    have : ∀ k, cellAt e i k = getR e[i] k := by
      intro k; unfold cellAt; simp [List.getD_eq_getElem?_getD, h2]
    simp only [this]
    rw [← hr]; exact map_getR_range _

/-! ### the stable index sort -/

theorem insertIdx_perm (d : Vec) (i : Nat) (l : List Nat) : (insertIdx d i l).Perm (i :: l) := by
  induction l with
  | nil => simp [insertIdx]
  | cons j js ih =>
    unfold insertIdx
    split
    · exact List.Perm.refl _
    · exact (List.Perm.cons j ih).trans (List.Perm.swap i j js)

theorem sortPermAux_perm (d : Vec) (n : Nat) : (sortPermAux d n).Perm (List.range n) := by
  induction n with
  | zero => simp [sortPermAux]
  | succ n ih =>
    unfold sortPermAux
    refine (insertIdx_perm d n _).trans ?_
    rw [List.range_succ]
    exact ((List.Perm.cons n ih).trans (List.perm_append_singleton n (List.range n)).symm)

theorem sortPerm_perm (d : Vec) : (sortPerm d).Perm (List.range d.length) := sortPermAux_perm d _

theorem sortPerm_length (d : Vec) : (sortPerm d).length = d.length := by
  simpa using (sortPerm_perm d).length_eq

theorem sortPerm_lt (d : Vec) (x : Nat) (h : x ∈ sortPerm d) : x < d.length := by
  simpa using (sortPerm_perm d).mem_iff.mp h

theorem sortPerm_nodup (d : Vec) : (sortPerm d).Nodup :=
  (sortPerm_perm d).nodup_iff.mpr List.nodup_range

theorem sortPerm_mem (d : Vec) (k : Nat) (h : k < d.length) : k ∈ sortPerm d :=
  (sortPerm_perm d).mem_iff.mpr (by simpa using h)

theorem insertIdx_append (d : Vec) (i : Nat) (l : List Nat) (h : ∀ j ∈ l, ¬ getR d i < getR d j) :
    insertIdx d i l = l ++ [i] := by
  induction l with
  | nil => simp [insertIdx]
  | cons j js ih =>
    unfold insertIdx
    rw [if_neg (h j (by simp))]
    rw [ih (fun x hx => h x (by simp [hx]))]; simp

theorem sortPermAux_sorted_input (d : Vec) (n : Nat) (h : ∀ i j, i < j → j < n → getR d i ≤ getR d j) :
    sortPermAux d n = List.range n := by
  induction n with
  | zero => simp [sortPermAux]
  | succ n ih =>
    unfold sortPermAux
    rw [ih (fun i j hij hj => h i j hij (by omega)), List.range_succ]
    apply insertIdx_append
    intro j hj
    have hj' : j < n := by simpa using hj
    exact not_lt.mpr (h j n hj' (by omega))

theorem pairwise_getR {r : Rat → Rat → Prop} (d : Vec) (h : d.Pairwise r) (i j : Nat) (hij : i < j) (hj : j < d.length) :
    r (getR d i) (getR d j) := by
  have hi : i < d.length := by omega
  have := List.pairwise_iff_getElem.mp h i j hi hj hij
  simpa [getR, List.getD_eq_getElem?_getD, hi, hj] using this

/-- sorted storage: `sortby` changes nothing -/
theorem sortPerm_of_sorted (d : Vec) (h : d.Pairwise (· < ·)) : sortPerm d = List.range d.length :=
  sortPermAux_sorted_input d _ fun i j hij hj => le_of_lt (pairwise_getR d h i j hij hj)

theorem mem_insertIdx (d : Vec) (i x : Nat) (l : List Nat) : x ∈ insertIdx d i l ↔ x = i ∨ x ∈ l := by
  simpa using (insertIdx_perm d i l).mem_iff (a := x)

theorem insertIdx_pairwise (d : Vec) (i : Nat) (l : List Nat)
    (h : l.Pairwise fun a b => getR d a ≤ getR d b) :
    (insertIdx d i l).Pairwise fun a b => getR d a ≤ getR d b := by
  induction l with
  | nil => simp [insertIdx]
  | cons j js ih =>
    unfold insertIdx
    have hj := List.pairwise_cons.mp h
    split
    · rename_i hlt
      refine List.pairwise_cons.mpr ⟨?_, h⟩
      intro x hx
      rcases List.mem_cons.mp hx with rfl | hx
      · exact le_of_lt hlt
      · exact le_trans (le_of_lt hlt) (hj.1 x hx)
    · rename_i hnlt
      refine List.pairwise_cons.mpr ⟨?_, ih hj.2⟩
      intro x hx
      rcases (mem_insertIdx d i x js).mp hx with rfl | hx
      · exact not_lt.mp hnlt
      · exact hj.1 x hx

theorem sortPermAux_pairwise (d : Vec) (n : Nat) :
    (sortPermAux d n).Pairwise fun a b => getR d a ≤ getR d b := by
  induction n with
  | zero => simp [sortPermAux]
  | succ n ih => exact insertIdx_pairwise d n _ ih

theorem sortPerm_pairwise (d : Vec) : (sortPerm d).Pairwise fun a b => getR d a ≤ getR d b :=
  sortPermAux_pairwise d _


/-! ### circular padding -/

theorem padRow_length {α : Type} (w : Nat) (r : List α) (hw : w ≤ r.length) : (padRow w r).length = r.length + 2 * w := by
  unfold padRow; simp; omega

theorem getD_padRow {α : Type} (w : Nat) (r : List α) (hw : w ≤ r.length) (c : Nat) (d : α)
    (hc : c < r.length + 2 * w) : (padRow w r).getD c d = r.getD ((c + r.length - w) % r.length) d := by
  have hn : 0 < r.length := by omega
  unfold padRow
  simp only [List.getD_eq_getElem?_getD]
  by_cases h1 : c < w
  · have e1 : (c + r.length - w) % r.length = r.length - w + c := by
      rw [Nat.mod_eq_of_lt (by omega)]; omega
    rw [List.append_assoc, List.getElem?_append_left (by simp; omega), List.getElem?_drop, e1]
  · by_cases h2 : c < w + r.length
    · have e1 : (c + r.length - w) % r.length = c - w := by
        have : c + r.length - w = (c - w) + r.length := by omega
        rw [this, Nat.add_mod_right, Nat.mod_eq_of_lt (by omega)]
      rw [List.append_assoc, List.getElem?_append_right (by simp; omega),
        List.getElem?_append_left (by simp; omega), e1]
      congr 2; simp; omega
    · have e1 : (c + r.length - w) % r.length = c - w - r.length := by
        have : c + r.length - w = (c - w - r.length) + r.length + r.length := by omega
        rw [this, Nat.add_mod_right, Nat.add_mod_right, Nat.mod_eq_of_lt (by omega)]
      rw [List.getElem?_append_right (by simp; omega), List.getElem?_take, e1]
      have : c - (List.drop (r.length - w) r ++ r).length = c - w - r.length := by simp; omega
      rw [this, if_pos (by omega)]

theorem padLabels_length (w : Nat) (l : Vec) (hw : w ≤ l.length) : (padLabels w l).length = l.length + 2 * w := by
  unfold padLabels; simp; omega

/-! ### the circularity test -/

theorem le_foldr_maxR (l : Vec) (init x : Rat) (h : x ∈ l) : x ≤ l.foldr maxR init := by
  induction l with
  | nil => simp at h
  | cons a t ih =>
    simp only [List.foldr]
    unfold maxR
    rcases List.mem_cons.mp h with rfl | h
    · split <;> [exact le_of_lt ‹_›; exact le_refl _]
    · have := ih h
      split <;> [exact this; exact le_trans this (not_lt.mp ‹_›)]

theorem foldr_minR_le (l : Vec) (init x : Rat) (h : x ∈ l) : l.foldr minR init ≤ x := by
  induction l with
  | nil => simp at h
  | cons a t ih =>
    simp only [List.foldr]
    unfold minR
    rcases List.mem_cons.mp h with rfl | h
    · split <;> [exact le_of_lt ‹_›; exact le_refl _]
    · have := ih h
      split <;> [exact this; exact le_trans (not_lt.mp ‹_›) this]

theorem le_maxL (l : Vec) (x : Rat) (h : x ∈ l) : x ≤ maxL l := le_foldr_maxR l _ x h
theorem minL_le (l : Vec) (x : Rat) (h : x ∈ l) : minL l ≤ x := foldr_minR_le l _ x h

theorem absR_nonneg (x : Rat) : 0 ≤ absR x := by
  unfold absR; split <;> linarith

theorem le_absR (x : Rat) : x ≤ absR x := by
  unfold absR; split <;> linarith

theorem tenth_lt_one : tenth < 1 := by unfold tenth; norm_num
theorem tenth_pos : 0 < tenth := by unfold tenth; norm_num

/-- what the code's test guarantees: the labels span less than a whole turn -/
theorem isCircular_span (lab : Vec) (h : isCircular lab = true) : maxL lab - minL lab < 360 := by
  unfold isCircular at h
  split at h
  · simp at h
  · rename_i d ds hd
    simp only [Bool.and_eq_true, decide_eq_true_eq] at h
    have h2 := h.2
    have hpos : 0 < tenth * d := lt_of_le_of_lt (absR_nonneg _) h2
    have hd0 : 0 < d := by
      by_contra hn
      have : tenth * d ≤ 0 := mul_nonpos_of_nonneg_of_nonpos (le_of_lt tenth_pos) (not_lt.mp hn)
      linarith
    have := lt_of_le_of_lt (le_absR _) h2
    have h3 : tenth * d < d := by
      have := mul_lt_mul_of_pos_right tenth_lt_one hd0
      linarith
    linarith

theorem isCircular_two (lab : Vec) (h : isCircular lab = true) : 2 ≤ lab.length := by
  unfold isCircular at h
  match lab, h with
  | [], h => simp [diffs] at h
  | [_], h => simp [diffs] at h
  | _ :: _ :: _, _ => simp

theorem circ_no_collision (lab : Vec) (h : isCircular lab = true) (x y : Rat) (hx : x ∈ lab) (hy : y ∈ lab) :
    x - 360 ≠ y ∧ x + 360 ≠ y := by
  have hs := isCircular_span lab h
  have := le_maxL lab x hx; have := minL_le lab x hx
  have := le_maxL lab y hy; have := minL_le lab y hy
  constructor <;> intro he <;> linarith

/-! ### means -/

theorem sum_bounds (l : List Rat) (lo hi : Rat) (h : ∀ x ∈ l, lo ≤ x ∧ x ≤ hi) :
    (l.length : Rat) * lo ≤ l.sum ∧ l.sum ≤ (l.length : Rat) * hi := by
  induction l with
  | nil => simp
  | cons a t ih =>
    have ha := h a (by simp)
    have := ih (fun x hx => h x (by simp [hx]))
    simp only [List.sum_cons, List.length_cons, Nat.cast_succ]
    constructor <;> nlinarith [this.1, this.2, ha.1, ha.2]

theorem winSum_bounds (e : Mat) (i0 j0 fw dw : Nat) (lo hi : Rat)
    (h : ∀ a < fw, ∀ b < dw, lo ≤ cellAt e (i0 + a) (j0 + b) ∧ cellAt e (i0 + a) (j0 + b) ≤ hi) :
    ((fw * dw : Nat) : Rat) * lo ≤ winSum e i0 j0 fw dw ∧ winSum e i0 j0 fw dw ≤ ((fw * dw : Nat) : Rat) * hi := by
  unfold winSum
  have hrow : ∀ a < fw, (dw : Rat) * lo ≤ ((List.range dw).map fun b => cellAt e (i0 + a) (j0 + b)).sum ∧
      ((List.range dw).map fun b => cellAt e (i0 + a) (j0 + b)).sum ≤ (dw : Rat) * hi := by
    intro a ha
    have := sum_bounds ((List.range dw).map fun b => cellAt e (i0 + a) (j0 + b)) lo hi (by
      intro x hx
      obtain ⟨b, hb, rfl⟩ := List.mem_map.mp hx
      exact h a ha b (by simpa using hb))
    simpa using this
  have := sum_bounds ((List.range fw).map fun a => ((List.range dw).map fun b => cellAt e (i0 + a) (j0 + b)).sum)
    ((dw : Rat) * lo) ((dw : Rat) * hi) (by
      intro x hx
      obtain ⟨a, ha, rfl⟩ := List.mem_map.mp hx
      exact hrow a (by simpa using ha))
  simp only [List.length_map, List.length_range] at this
  push_cast
  constructor <;> nlinarith [this.1, this.2]

theorem div_bounds (s lo hi : Rat) (n : Nat) (hn : 0 < n) (h : (n : Rat) * lo ≤ s ∧ s ≤ (n : Rat) * hi) :
    lo ≤ s / (n : Rat) ∧ s / (n : Rat) ≤ hi := by
  have hp : (0 : Rat) < n := by exact_mod_cast hn
  constructor
  · rw [le_div_iff₀ hp]; linarith [h.1]
  · rw [div_le_iff₀ hp]; linarith [h.2]

/-- a rolling-mean cell, when defined, lies between any bounds of the cells of its window -/
theorem rollCell_bounds (e : Mat) (nf nc fw dw i j : Nat) (v lo hi : Rat) (hfw : 0 < fw) (hdw : 0 < dw)
    (hv : rollCell e nf nc fw dw i j = some v)
    (h : ∀ a < fw, ∀ b < dw, lo ≤ cellAt e (i - fw / 2 + a) (j - dw / 2 + b) ∧ cellAt e (i - fw / 2 + a) (j - dw / 2 + b) ≤ hi) :
    lo ≤ v ∧ v ≤ hi := by
  unfold rollCell at hv
  split at hv
  · simp only [Option.some.injEq] at hv
    rw [← hv]
    have := div_bounds _ lo hi (fw * dw) (Nat.mul_pos hfw hdw) (winSum_bounds e _ _ fw dw lo hi h)
    simpa using this
  · simp at hv


/-! ### cells of the intermediate arrays -/

theorem cellAt_eq_getR (e : Mat) (i j : Nat) (hi : i < e.length) : cellAt e i j = getR e[i] j := by
  unfold cellAt; simp [List.getD_eq_getElem?_getD, hi]

theorem cellAt_oob (e : Mat) (i j : Nat) (hi : e.length ≤ i) : cellAt e i j = 0 := by
  unfold cellAt; simp [List.getD_eq_getElem?_getD, hi, getR]

theorem cellAt_takeCols (p : List Nat) (e : Mat) (i j : Nat) :
    cellAt (takeCols p e) i j = if j < p.length then cellAt e i (p.getD j 0) else 0 := by
  by_cases hi : i < e.length
  · rw [cellAt_eq_getR _ _ _ (by simpa [takeCols] using hi), cellAt_eq_getR e _ _ hi]
    simp only [takeCols, List.getElem_map]
    unfold getR
    by_cases hj : j < p.length <;> simp [List.getD_eq_getElem?_getD, hj]
  · rw [cellAt_oob _ _ _ (by simpa [takeCols] using hi), cellAt_oob e _ _ (by omega)]; simp

theorem rect_takeCols (p : List Nat) (e : Mat) : Rect (takeCols p e) p.length := by
  intro r hr
  obtain ⟨r0, _, rfl⟩ := List.mem_map.mp hr
  simp

theorem takeCols_length (p : List Nat) (e : Mat) : (takeCols p e).length = e.length := by simp [takeCols]

theorem cellAt_padRow (s : Mat) (n w : Nat) (hs : Rect s n) (hw : w ≤ n) (i c : Nat) (hi : i < s.length)
    (hc : c < n + 2 * w) : cellAt (s.map (padRow w)) i c = cellAt s i ((c + n - w) % n) := by
  rw [cellAt_eq_getR _ _ _ (by simpa using hi), cellAt_eq_getR s _ _ hi]
  have hr : (s[i]).length = n := hs _ (List.getElem_mem hi)
  simp only [List.getElem_map]
  unfold getR
  rw [getD_padRow w _ (by omega) c 0 (by omega), hr]

/-! ### label lookup -/

theorem selCols_ok (labels want : Vec) (r : OMat) (h : ∀ d ∈ want, d ∈ labels) :
    selCols labels want r = .ok (r.map fun row => want.map fun d => row.getD (labels.idxOf d) none) := by
  unfold selCols
  rw [if_pos]
  simpa [List.all_eq_true] using h

theorem selCols_err (labels want : Vec) (r : OMat) (h : ¬ ∀ d ∈ want, d ∈ labels) :
    selCols labels want r = .error .keyError := by
  unfold selCols
  rw [if_neg]
  simpa [List.all_eq_true] using h

theorem ocell_oob_row (r : OMat) (i j : Nat) (hi : r.length ≤ i) : ocell r i j = none := by
  unfold ocell; simp [List.getD_eq_getElem?_getD, hi]

theorem ocell_sel (labels want : Vec) (r : OMat) (i k : Nat) (hk : k < want.length) :
    ocell (r.map fun row => want.map fun d => row.getD (labels.idxOf d) none) i k
      = ocell r i (labels.idxOf (getR want k)) := by
  by_cases hi : i < r.length
  · unfold ocell getR
    simp [List.getD_eq_getElem?_getD, hi, hk]
  · rw [ocell_oob_row _ _ _ (by simpa using hi), ocell_oob_row r _ _ (by omega)]

theorem ocell_rolling (fw dw nc : Nat) (e : Mat) (i j : Nat) :
    ocell (rolling fw dw nc e) i j = if i < e.length ∧ j < nc then rollCell e e.length nc fw dw i j else none :=
  ocell_tab _ _ _ i j

theorem cellAt_fill (r : OMat) (e : Mat) (nd i k : Nat) :
    cellAt (fill r e nd) i k = if i < e.length ∧ k < nd then
      (match ocell r i k with | some v => v | none => cellAt e i k) else 0 :=
  cellAt_tab _ _ _ i k

theorem fill_length (r : OMat) (e : Mat) (nd : Nat) : (fill r e nd).length = e.length := by simp [fill]

theorem rect_fill (r : OMat) (e : Mat) (nd : Nat) : Rect (fill r e nd) nd := by
  intro row hrow
  obtain ⟨i, _, rfl⟩ := List.mem_map.mp hrow
  simp

/-! ### the pipeline in named pieces -/

def lab2Of (b : Bool) (dirs dirs32 : Vec) (dw : Nat) : Vec :=
  if isCircular (labelsOf b dirs dirs32) then padLabels (min dw dirs.length) (labelsOf b dirs dirs32)
  else labelsOf b dirs dirs32

def s2Of (b : Bool) (dirs dirs32 : Vec) (e : Mat) (dw : Nat) : Mat :=
  if isCircular (labelsOf b dirs dirs32) then (takeCols (sortPerm dirs) e).map (padRow (min dw dirs.length))
  else takeCols (sortPerm dirs) e

def rolledOf (b : Bool) (dirs dirs32 : Vec) (e : Mat) (fw dw : Nat) : OMat :=
  rolling fw dw (lab2Of b dirs dirs32 dw).length (s2Of b dirs dirs32 e dw)

def selOf (b : Bool) (dirs dirs32 : Vec) (e : Mat) (fw dw : Nat) : Except Err OMat :=
  if lab2Of b dirs dirs32 dw = dirs then .ok (rolledOf b dirs dirs32 e fw dw)
  else selCols (lab2Of b dirs dirs32 dw) dirs32 (rolledOf b dirs dirs32 e fw dw)

theorem smoothWith_unfold (b : Bool) (dirs dirs32 : Vec) (e : Mat) (fw dw : Nat) (hf : fw % 2 = 1) (hd : dw % 2 = 1) :
    smoothWith b dirs dirs32 e fw dw =
      match selOf b dirs dirs32 e fw dw with
      | .ok r' => .ok (dirs, fill r' e dirs.length)
      | .error err => .error err := by
  unfold smoothWith selOf rolledOf lab2Of s2Of
  have : ¬ (fw % 2 = 0 ∨ dw % 2 = 0) := by omega
  simp only [this, if_false]
  rfl

theorem smoothWith_ok (b : Bool) (dirs dirs32 : Vec) (e : Mat) (fw dw : Nat) (res : Vec × Mat)
    (h : smoothWith b dirs dirs32 e fw dw = .ok res) :
    fw % 2 = 1 ∧ dw % 2 = 1 ∧ ∃ r', selOf b dirs dirs32 e fw dw = .ok r' ∧ res = (dirs, fill r' e dirs.length) := by
  have hodd : ¬ (fw % 2 = 0 ∨ dw % 2 = 0) := by
    intro hh; unfold smoothWith at h; simp [hh] at h
  have hf : fw % 2 = 1 := by omega
  have hd : dw % 2 = 1 := by omega
  refine ⟨hf, hd, ?_⟩
  rw [smoothWith_unfold b dirs dirs32 e fw dw hf hd] at h
  split at h
  · rename_i r' hr'
    exact ⟨r', hr', by simpa using h.symm⟩
  · simp at h


/-! ### bounds that hold for every storage order and both label variants -/

theorem labelsOf_length (b : Bool) (dirs dirs32 : Vec) (hlen : dirs32.length = dirs.length) :
    (labelsOf b dirs dirs32).length = dirs.length := by
  unfold labelsOf
  cases b <;> simp [hlen, sortPerm_length]

theorem getD_lt_of_forall_mem (p : List Nat) (n j : Nat) (h : ∀ x ∈ p, x < n) (hj : j < p.length) : p.getD j 0 < n := by
  have : p.getD j 0 = p[j] := by simp [List.getD_eq_getElem?_getD, hj]
  rw [this]; exact h _ (List.getElem_mem hj)

theorem rollCell_fits (e : Mat) (nf nc fw dw i j : Nat) (v : Rat) (hv : rollCell e nf nc fw dw i j = some v) :
    fw / 2 ≤ i ∧ i + fw / 2 < nf ∧ dw / 2 ≤ j ∧ j + dw / 2 < nc := by
  unfold rollCell at hv
  split at hv
  · assumption
  · simp at hv

theorem rollCell_bounds_inrange (e : Mat) (nf nc fw dw i j : Nat) (v lo hi : Rat) (hfw : 0 < fw) (hdw : 0 < dw)
    (hv : rollCell e nf nc fw dw i j = some v)
    (h : ∀ i' < nf, ∀ j' < nc, lo ≤ cellAt e i' j' ∧ cellAt e i' j' ≤ hi) : lo ≤ v ∧ v ≤ hi := by
  have hfit := rollCell_fits e nf nc fw dw i j v hv
  refine rollCell_bounds e nf nc fw dw i j v lo hi hfw hdw hv ?_
  intro a ha b hb
  exact h _ (by omega) _ (by omega)

theorem s2_length (b : Bool) (dirs dirs32 : Vec) (e : Mat) (dw : Nat) : (s2Of b dirs dirs32 e dw).length = e.length := by
  unfold s2Of; split <;> simp [takeCols_length]

theorem sorted_cell_inrange (dirs : Vec) (e : Mat) (lo hi : Rat)
    (h : ∀ i < e.length, ∀ j < dirs.length, lo ≤ cellAt e i j ∧ cellAt e i j ≤ hi) (i j : Nat) (hi' : i < e.length)
    (hj : j < dirs.length) :
    lo ≤ cellAt (takeCols (sortPerm dirs) e) i j ∧ cellAt (takeCols (sortPerm dirs) e) i j ≤ hi := by
  rw [cellAt_takeCols, if_pos (by rw [sortPerm_length]; exact hj)]
  exact h i hi' _ (getD_lt_of_forall_mem _ _ _ (sortPerm_lt dirs) (by rw [sortPerm_length]; exact hj))

theorem s2_inrange (b : Bool) (dirs dirs32 : Vec) (e : Mat) (dw : Nat) (lo hi : Rat) (hlen : dirs32.length = dirs.length)
    (h : ∀ i < e.length, ∀ j < dirs.length, lo ≤ cellAt e i j ∧ cellAt e i j ≤ hi) :
    ∀ i < e.length, ∀ c < (lab2Of b dirs dirs32 dw).length,
      lo ≤ cellAt (s2Of b dirs dirs32 e dw) i c ∧ cellAt (s2Of b dirs dirs32 e dw) i c ≤ hi := by
  intro i hi' c hc
  have hl := labelsOf_length b dirs dirs32 hlen
  unfold lab2Of at hc
  unfold s2Of
  by_cases hcirc : isCircular (labelsOf b dirs dirs32) = true
  · simp only [hcirc, if_true] at hc ⊢
    have hw : min dw dirs.length ≤ dirs.length := Nat.min_le_right _ _
    rw [padLabels_length _ _ (by rw [hl]; exact hw), hl] at hc
    have hrect : Rect (takeCols (sortPerm dirs) e) dirs.length := by
      have := rect_takeCols (sortPerm dirs) e
      rwa [sortPerm_length] at this
    rw [cellAt_padRow _ dirs.length _ hrect hw i c (by rw [takeCols_length]; exact hi') hc]
    have hn : 0 < dirs.length := by omega
    exact sorted_cell_inrange dirs e lo hi h i _ hi' (Nat.mod_lt _ hn)
  · simp only [hcirc] at hc ⊢
    simp only [Bool.false_eq_true, if_false] at hc ⊢
    rw [hl] at hc
    exact sorted_cell_inrange dirs e lo hi h i c hi' hc

/-- every selected cell is one of the rolling-mean cells (or NaN) -/
theorem selOf_cell (b : Bool) (dirs dirs32 : Vec) (e : Mat) (fw dw : Nat) (r' : OMat)
    (h : selOf b dirs dirs32 e fw dw = .ok r') (i k : Nat) :
    ocell r' i k = none ∨ ∃ j, ocell r' i k = ocell (rolledOf b dirs dirs32 e fw dw) i j := by
  unfold selOf at h
  split at h
  · simp only [Except.ok.injEq] at h
    right; exact ⟨k, by rw [h]⟩
  · by_cases hall : ∀ d ∈ dirs32, d ∈ lab2Of b dirs dirs32 dw
    · rw [selCols_ok _ _ _ hall] at h
      simp only [Except.ok.injEq] at h
      by_cases hk : k < dirs32.length
      · right; exact ⟨_, by rw [← h]; exact ocell_sel _ _ _ i k hk⟩
      · left
        rw [← h]
        unfold ocell
        by_cases hi : i < (rolledOf b dirs dirs32 e fw dw).length
        · simp [List.getD_eq_getElem?_getD, hi, hk]
        · simp [List.getD_eq_getElem?_getD, hi]
    · rw [selCols_err _ _ _ hall] at h
      simp at h

theorem smoothWith_hull (b : Bool) (dirs dirs32 : Vec) (e : Mat) (fw dw : Nat) (res : Vec × Mat) (lo hi : Rat)
    (hlen : dirs32.length = dirs.length) (hres : smoothWith b dirs dirs32 e fw dw = .ok res)
    (h : ∀ i < e.length, ∀ j < dirs.length, lo ≤ cellAt e i j ∧ cellAt e i j ≤ hi) :
    ∀ i < e.length, ∀ k < dirs.length, lo ≤ cellAt res.2 i k ∧ cellAt res.2 i k ≤ hi := by
  obtain ⟨hf, hd, r', hsel, rfl⟩ := smoothWith_ok b dirs dirs32 e fw dw res hres
  intro i hi' k hk
  simp only
  rw [cellAt_fill, if_pos ⟨hi', hk⟩]
  rcases hcell : ocell r' i k with _ | v
  · exact h i hi' k hk
  · simp only
    rcases selOf_cell b dirs dirs32 e fw dw r' hsel i k with hnone | ⟨j, hj⟩
    · rw [hcell] at hnone; simp at hnone
    · rw [hcell] at hj
      unfold rolledOf at hj
      rw [ocell_rolling] at hj
      split at hj
      · rename_i hin
        rw [s2_length] at hin hj
        exact rollCell_bounds_inrange _ _ _ fw dw i j v lo hi (by omega) (by omega) hj.symm
          (s2_inrange b dirs dirs32 e dw lo hi hlen h)
      · simp at hj


/-! ### sorted storage: closed form of the result -/

theorem labelsOf_sorted (b : Bool) (dirs dirs32 : Vec) (hs : dirs.Pairwise (· < ·)) (hlen : dirs32.length = dirs.length) :
    labelsOf b dirs dirs32 = dirs32 := by
  unfold labelsOf
  cases b
  · simp
  · simp only [if_true]
    rw [sortPerm_of_sorted dirs hs, ← hlen]; exact map_getR_range dirs32

theorem getR_mem (l : Vec) (k : Nat) (hk : k < l.length) : getR l k ∈ l := by
  have : getR l k = l[k] := by simp [getR, List.getD_eq_getElem?_getD, hk]
  rw [this]; exact List.getElem_mem hk

theorem idxOf_getR (l : Vec) (hn : l.Nodup) (k : Nat) (hk : k < l.length) : l.idxOf (getR l k) = k := by
  have : getR l k = l[k] := by simp [getR, List.getD_eq_getElem?_getD, hk]
  rw [this]; exact hn.idxOf_getElem k hk

/-- position of an original label inside the padded label vector -/
theorem idxOf_padLabels (w : Nat) (l : Vec) (hw : w ≤ l.length) (_hn : l.Nodup) (hc : isCircular l = true)
    (x : Rat) (hx : x ∈ l) : (padLabels w l).idxOf x = w + l.idxOf x := by
  unfold padLabels
  have hnot : x ∉ (l.drop (l.length - w)).map (· - 360) := by
    intro hm
    obtain ⟨y, hy, hyx⟩ := List.mem_map.mp hm
    exact (circ_no_collision l hc y x (List.mem_of_mem_drop hy) hx).1 hyx
  rw [List.append_assoc, List.idxOf_append, if_neg hnot, List.idxOf_append, if_pos hx]
  simp; omega

theorem mem_padLabels (w : Nat) (l : Vec) (x : Rat) (hx : x ∈ l) : x ∈ padLabels w l := by
  unfold padLabels; simp [hx]

/-- cell of the closed form for sorted storage -/
def sortedCell (circ : Bool) (e : Mat) (nd fw dw i k : Nat) : Rat :=
  if circ then
    match rollCell (e.map (padRow (min dw nd))) e.length (nd + 2 * min dw nd) fw dw i (min dw nd + k) with
    | some v => v
    | none => cellAt e i k
  else
    match rollCell e e.length nd fw dw i k with
    | some v => v
    | none => cellAt e i k

theorem selOf_sorted (b : Bool) (dirs dirs32 : Vec) (e : Mat) (fw dw : Nat) (hd : dw % 2 = 1)
    (hs : dirs.Pairwise (· < ·)) (hs32 : dirs32.Pairwise (· < ·)) (hlen : dirs32.length = dirs.length)
    (hrect : Rect e dirs.length) :
    ∃ r', selOf b dirs dirs32 e fw dw = .ok r' ∧ ∀ i < e.length, ∀ k < dirs.length,
      ocell r' i k = if isCircular dirs32 then
        rollCell (e.map (padRow (min dw dirs.length))) e.length (dirs.length + 2 * min dw dirs.length) fw dw i (min dw dirs.length + k)
      else rollCell e e.length dirs.length fw dw i k := by
  have hlab := labelsOf_sorted b dirs dirs32 hs hlen
  have hsort := sortPerm_of_sorted dirs hs
  have hnd : dirs32.Nodup := hs32.nodup
  have hw : min dw dirs.length ≤ dirs32.length := by rw [hlen]; exact Nat.min_le_right _ _
  unfold selOf rolledOf lab2Of s2Of
  rw [hlab, hsort, takeCols_range e _ hrect]
  by_cases hc : isCircular dirs32 = true
  · simp only [hc, if_true]
    have h2 := isCircular_two dirs32 hc
    have hne : padLabels (min dw dirs.length) dirs32 ≠ dirs := by
      intro he
      have := congrArg List.length he
      rw [padLabels_length _ _ hw, hlen] at this
      have : 0 < min dw dirs.length := by
        rw [Nat.lt_min]; constructor <;> omega
      omega
    rw [if_neg hne, selCols_ok _ _ _ (fun d hd' => mem_padLabels _ _ d hd')]
    refine ⟨_, rfl, ?_⟩
    intro i hi k hk
    rw [ocell_sel _ _ _ i k (by omega), idxOf_padLabels _ _ hw hnd hc _ (getR_mem _ _ (by omega)),
      idxOf_getR _ hnd _ (by omega), ocell_rolling, padLabels_length _ _ hw, hlen]
    rw [if_pos]
    · simp
    · simp only [List.length_map]
      exact ⟨hi, by omega⟩
  · simp only [hc]
    simp only [Bool.false_eq_true, if_false]
    by_cases he : dirs32 = dirs
    · rw [if_pos he]
      refine ⟨_, rfl, ?_⟩
      intro i hi k hk
      rw [ocell_rolling, hlen, if_pos ⟨hi, hk⟩]
    · rw [if_neg he, selCols_ok _ _ _ (fun d hd' => hd')]
      refine ⟨_, rfl, ?_⟩
      intro i hi k hk
      rw [ocell_sel _ _ _ i k (by omega), idxOf_getR _ hnd _ (by omega), ocell_rolling, hlen, if_pos ⟨hi, hk⟩]

/-- **sorted storage**: the result in closed form (both label variants coincide) -/
theorem smoothWith_sorted (b : Bool) (dirs dirs32 : Vec) (e : Mat) (fw dw : Nat) (hf : fw % 2 = 1) (hd : dw % 2 = 1)
    (hs : dirs.Pairwise (· < ·)) (hs32 : dirs32.Pairwise (· < ·)) (hlen : dirs32.length = dirs.length)
    (hrect : Rect e dirs.length) :
    smoothWith b dirs dirs32 e fw dw = .ok (dirs, (List.range e.length).map fun i => (List.range dirs.length).map fun k =>
      sortedCell (isCircular dirs32) e dirs.length fw dw i k) := by
  obtain ⟨r', hsel, hcell⟩ := selOf_sorted b dirs dirs32 e fw dw hd hs hs32 hlen hrect
  rw [smoothWith_unfold b dirs dirs32 e fw dw hf hd, hsel]
  simp only
  congr 2
  unfold fill
  apply List.map_congr_left
  intro i hi
  apply List.map_congr_left
  intro k hk
  rw [hcell i (by simpa using hi) k (by simpa using hk)]
  unfold sortedCell
  by_cases hc : isCircular dirs32 = true
  · simp only [hc, if_true]; rfl
  · simp only [hc]; simp only [Bool.false_eq_true, if_false]; rfl


/-! ### window means in closed form -/

/-- sum of the block of rows `i0 .. i0+fw-1` and columns `col 0 .. col (dw-1)` -/
def blockSum (e : Mat) (i0 fw dw : Nat) (col : Nat → Nat) : Rat :=
  ((List.range fw).map fun a => ((List.range dw).map fun b => cellAt e (i0 + a) (col b)).sum).sum

/-- mean of that block -/
def blockMean (e : Mat) (i0 fw dw : Nat) (col : Nat → Nat) : Rat :=
  blockSum e i0 fw dw col / (((fw * dw : Nat) : Int) : Rat)

/-- column of the `b`-th window entry around direction bin `k`, wrapping across the ends -/
def circCol (nd dw k b : Nat) : Nat := (k + nd - dw / 2 + b) % nd
/-- column of the `b`-th window entry around direction bin `k`, no wrapping -/
def flatCol (dw k b : Nat) : Nat := k - dw / 2 + b

theorem blockSum_congr (e1 e2 : Mat) (i0 fw dw : Nat) (c1 c2 : Nat → Nat)
    (h : ∀ a < fw, ∀ b < dw, cellAt e1 (i0 + a) (c1 b) = cellAt e2 (i0 + a) (c2 b)) :
    blockSum e1 i0 fw dw c1 = blockSum e2 i0 fw dw c2 := by
  unfold blockSum
  congr 1
  apply List.map_congr_left
  intro a ha
  congr 1
  apply List.map_congr_left
  intro b hb
  exact h a (by simpa using ha) b (by simpa using hb)

theorem winSum_eq_blockSum (e : Mat) (i0 j0 fw dw : Nat) : winSum e i0 j0 fw dw = blockSum e i0 fw dw (fun b => j0 + b) := rfl

theorem blockSum_bounds (e : Mat) (i0 fw dw : Nat) (col : Nat → Nat) (lo hi : Rat)
    (h : ∀ a < fw, ∀ b < dw, lo ≤ cellAt e (i0 + a) (col b) ∧ cellAt e (i0 + a) (col b) ≤ hi) :
    ((fw * dw : Nat) : Rat) * lo ≤ blockSum e i0 fw dw col ∧ blockSum e i0 fw dw col ≤ ((fw * dw : Nat) : Rat) * hi := by
  unfold blockSum
  have hrow : ∀ a < fw, (dw : Rat) * lo ≤ ((List.range dw).map fun b => cellAt e (i0 + a) (col b)).sum ∧
      ((List.range dw).map fun b => cellAt e (i0 + a) (col b)).sum ≤ (dw : Rat) * hi := by
    intro a ha
    have := sum_bounds ((List.range dw).map fun b => cellAt e (i0 + a) (col b)) lo hi (by
      intro x hx
      obtain ⟨b, hb, rfl⟩ := List.mem_map.mp hx
      exact h a ha b (by simpa using hb))
    simpa using this
  have := sum_bounds ((List.range fw).map fun a => ((List.range dw).map fun b => cellAt e (i0 + a) (col b)).sum)
    ((dw : Rat) * lo) ((dw : Rat) * hi) (by
      intro x hx
      obtain ⟨a, ha, rfl⟩ := List.mem_map.mp hx
      exact hrow a (by simpa using ha))
  simp only [List.length_map, List.length_range] at this
  push_cast
  constructor <;> nlinarith [this.1, this.2]

theorem blockMean_bounds (e : Mat) (i0 fw dw : Nat) (col : Nat → Nat) (lo hi : Rat) (hfw : 0 < fw) (hdw : 0 < dw)
    (h : ∀ a < fw, ∀ b < dw, lo ≤ cellAt e (i0 + a) (col b) ∧ cellAt e (i0 + a) (col b) ≤ hi) :
    lo ≤ blockMean e i0 fw dw col ∧ blockMean e i0 fw dw col ≤ hi := by
  unfold blockMean
  have := div_bounds _ lo hi (fw * dw) (Nat.mul_pos hfw hdw) (blockSum_bounds e i0 fw dw col lo hi h)
  simpa using this

/-- sorted storage, no wrap: value where the whole window fits -/
theorem sortedCell_flat_fits (e : Mat) (nd fw dw i k : Nat)
    (h : fw / 2 ≤ i ∧ i + fw / 2 < e.length ∧ dw / 2 ≤ k ∧ k + dw / 2 < nd) :
    sortedCell false e nd fw dw i k = blockMean e (i - fw / 2) fw dw (flatCol dw k) := by
  unfold sortedCell rollCell
  simp only [Bool.false_eq_true, if_false, h, and_self, if_true]
  rfl

theorem sortedCell_flat_edge (e : Mat) (nd fw dw i k : Nat)
    (h : ¬ (fw / 2 ≤ i ∧ i + fw / 2 < e.length ∧ dw / 2 ≤ k ∧ k + dw / 2 < nd)) :
    sortedCell false e nd fw dw i k = cellAt e i k := by
  unfold sortedCell rollCell
  simp only [Bool.false_eq_true, if_false, h]

/-- sorted storage, full circle, window not larger than the grid: value where the frequency window fits -/
theorem sortedCell_circ_fits (e : Mat) (nd fw dw i k : Nat) (hrect : Rect e nd) (hdw : 0 < dw) (hle : dw ≤ nd) (hk : k < nd)
    (h : fw / 2 ≤ i ∧ i + fw / 2 < e.length) :
    sortedCell true e nd fw dw i k = blockMean e (i - fw / 2) fw dw (circCol nd dw k) := by
  have hmin : min dw nd = dw := Nat.min_eq_left hle
  unfold sortedCell rollCell
  rw [hmin]
  have hfit : fw / 2 ≤ i ∧ i + fw / 2 < e.length ∧ dw / 2 ≤ dw + k ∧ dw + k + dw / 2 < nd + 2 * dw := by
    refine ⟨h.1, h.2, by omega, by omega⟩
  simp only [if_true, hfit, and_self]
  unfold blockMean
  congr 1
  rw [winSum_eq_blockSum]
  apply blockSum_congr
  intro a ha b hb
  rw [cellAt_padRow e nd dw hrect hle _ _ (by omega) (by omega)]
  unfold circCol
  congr 2
  omega

theorem sortedCell_circ_edge (e : Mat) (nd fw dw i k : Nat) (h : ¬ (fw / 2 ≤ i ∧ i + fw / 2 < e.length)) :
    sortedCell true e nd fw dw i k = cellAt e i k := by
  unfold sortedCell rollCell
  have : ¬ (fw / 2 ≤ i ∧ i + fw / 2 < e.length ∧ dw / 2 ≤ min dw nd + k ∧ min dw nd + k + dw / 2 < nd + 2 * min dw nd) := by
    intro hh; exact h ⟨hh.1, hh.2.1⟩
  simp only [if_true, this, if_false]

/-! ### circular shift of the direction axis -/

/-- `np.roll(e, -s, axis=dir)`: column `j` of the result is column `(j + s) mod n` of the input -/
def rollCols (s : Nat) (e : Mat) : Mat := e.map fun r => (List.range r.length).map fun j => getR r ((j + s) % r.length)

theorem rollCols_length (s : Nat) (e : Mat) : (rollCols s e).length = e.length := by simp [rollCols]

theorem rect_rollCols (s : Nat) (e : Mat) (nd : Nat) (h : Rect e nd) : Rect (rollCols s e) nd := by
  intro r hr
  obtain ⟨r0, hr0, rfl⟩ := List.mem_map.mp hr
  simp [h r0 hr0]

theorem cellAt_rollCols (s : Nat) (e : Mat) (nd : Nat) (h : Rect e nd) (i j : Nat) (hi : i < e.length) (hj : j < nd) :
    cellAt (rollCols s e) i j = cellAt e i ((j + s) % nd) := by
  rw [cellAt_eq_getR _ _ _ (by rw [rollCols_length]; exact hi), cellAt_eq_getR e _ _ hi]
  have hr : (e[i]).length = nd := h _ (List.getElem_mem hi)
  simp only [rollCols, List.getElem_map]
  rw [getR_tab, hr, if_pos hj]

theorem rollCols_tab (s nf nd : Nat) (g : Nat → Nat → Rat) :
    rollCols s ((List.range nf).map fun i => (List.range nd).map (g i)) =
      (List.range nf).map fun i => (List.range nd).map fun k => g i ((k + s) % nd) := by
  unfold rollCols
  rw [List.map_map]
  apply List.map_congr_left
  intro i _
  simp only [Function.comp, List.length_map, List.length_range]
  apply List.map_congr_left
  intro k hk
  have hk' : k < nd := by simpa using hk
  rw [getR_tab, if_pos (Nat.mod_lt _ (by omega))]

theorem circCol_shift (nd dw k s b : Nat) (hle : dw ≤ nd) :
    (circCol nd dw k b + s) % nd = circCol nd dw ((k + s) % nd) b := by
  unfold circCol
  have h2 : dw / 2 ≤ nd := by omega
  rw [Nat.mod_add_mod]
  have e1 : k + nd - dw / 2 + b + s = (k + s) + (nd - dw / 2 + b) := by omega
  have e2 : (k + s) % nd + nd - dw / 2 + b = (k + s) % nd + (nd - dw / 2 + b) := by omega
  rw [e1, e2, Nat.mod_add_mod]

theorem sortedCell_circ_shift (e : Mat) (nd fw dw i k s : Nat) (hrect : Rect e nd) (hdw : 0 < dw) (hle : dw ≤ nd)
    (hi : i < e.length) (hk : k < nd) :
    sortedCell true (rollCols s e) nd fw dw i k = sortedCell true e nd fw dw i ((k + s) % nd) := by
  have hn : 0 < nd := by omega
  by_cases hfit : fw / 2 ≤ i ∧ i + fw / 2 < e.length
  · rw [sortedCell_circ_fits _ nd fw dw i k (rect_rollCols s e nd hrect) hdw hle hk (by rw [rollCols_length]; exact hfit),
      sortedCell_circ_fits e nd fw dw i _ hrect hdw hle (Nat.mod_lt _ hn) hfit]
    unfold blockMean
    congr 1
    apply blockSum_congr
    intro a ha b hb
    rw [cellAt_rollCols s e nd hrect _ _ (by omega) (by unfold circCol; exact Nat.mod_lt _ hn), circCol_shift nd dw k s b hle]
  · rw [sortedCell_circ_edge _ nd fw dw i k (by rw [rollCols_length]; exact hfit), sortedCell_circ_edge e nd fw dw i _ hfit,
      cellAt_rollCols s e nd hrect i k hi hk]


/-! ### the repaired labelling (`sortedLabels = true`): any storage order reduces to sorted storage -/

theorem idxOf_map_injOn {α β : Type} [BEq α] [LawfulBEq α] [BEq β] [LawfulBEq β] (f : α → β) (l : List α) (x : α)
    (hinj : ∀ y ∈ l, f y = f x → y = x) : (l.map f).idxOf (f x) = l.idxOf x := by
  induction l with
  | nil => simp
  | cons a t ih =>
    simp only [List.map_cons, List.idxOf_cons]
    by_cases hax : a = x
    · subst hax; simp
    · have hfa : f a ≠ f x := fun h => hax (hinj a (by simp) h)
      have h1 : (f a == f x) = false := by simpa using hfa
      have h2 : (a == x) = false := by simpa using hax
      rw [h1, h2]
      simp only [cond_false]
      rw [ih (fun y hy => hinj y (by simp [hy]))]

theorem getR_inj (d : Vec) (hn : d.Nodup) (i j : Nat) (hi : i < d.length) (hj : j < d.length) (h : getR d i = getR d j) : i = j := by
  have hi' : getR d i = d[i] := by simp [getR, List.getD_eq_getElem?_getD, hi]
  have hj' : getR d j = d[j] := by simp [getR, List.getD_eq_getElem?_getD, hj]
  rw [hi', hj'] at h
  exact (hn.getElem_inj_iff).mp h

/-- the labels in sorted order -/
def sortedDirs (dirs : Vec) : Vec := (sortPerm dirs).map (getR dirs)

theorem sortedDirs_length (dirs : Vec) : (sortedDirs dirs).length = dirs.length := by simp [sortedDirs, sortPerm_length]

theorem sortedDirs_nodup (dirs : Vec) (hn : dirs.Nodup) : (sortedDirs dirs).Nodup := by
  unfold sortedDirs
  refine List.Nodup.map_on ?_ (sortPerm_nodup dirs)
  intro x hx y hy h
  exact getR_inj dirs hn x y (sortPerm_lt dirs x hx) (sortPerm_lt dirs y hy) h

theorem sortedDirs_pairwise (dirs : Vec) (hn : dirs.Nodup) : (sortedDirs dirs).Pairwise (· < ·) := by
  have h1 : (sortedDirs dirs).Pairwise (· ≤ ·) := by
    unfold sortedDirs; rw [List.pairwise_map]; exact sortPerm_pairwise dirs
  have h2 : (sortedDirs dirs).Pairwise (· ≠ ·) := sortedDirs_nodup dirs hn
  exact (h1.and h2).imp fun ⟨hle, hne⟩ => lt_of_le_of_ne hle hne

theorem idxOf_sortedDirs (dirs : Vec) (hn : dirs.Nodup) (k : Nat) (hk : k < dirs.length) :
    (sortedDirs dirs).idxOf (getR dirs k) = (sortPerm dirs).idxOf k := by
  unfold sortedDirs
  apply idxOf_map_injOn
  intro y hy h
  exact getR_inj dirs hn y k (sortPerm_lt dirs y hy) hk h

theorem idxOf_sortPerm_lt (dirs : Vec) (k : Nat) (hk : k < dirs.length) : (sortPerm dirs).idxOf k < dirs.length := by
  have := List.idxOf_lt_length_iff.mpr (sortPerm_mem dirs k hk)
  rwa [sortPerm_length] at this

theorem getD_idxOf_sortPerm (dirs : Vec) (k : Nat) (hk : k < dirs.length) :
    (sortPerm dirs).getD ((sortPerm dirs).idxOf k) 0 = k := by
  have h := List.idxOf_lt_length_iff.mpr (sortPerm_mem dirs k hk)
  simp [List.getD_eq_getElem?_getD, h]

theorem mem_sortedDirs (dirs : Vec) (k : Nat) (hk : k < dirs.length) : getR dirs k ∈ sortedDirs dirs := by
  unfold sortedDirs
  exact List.mem_map.mpr ⟨k, sortPerm_mem dirs k hk, rfl⟩

/-- selection step of the repaired code for ANY storage order: stored column `k` receives the rolling-mean
    column that sits at the sorted position of `k` -/
theorem selOf_repaired (dirs : Vec) (e : Mat) (fw dw : Nat) (hd : dw % 2 = 1) (hn : dirs.Nodup) :
    ∃ r', selOf true dirs dirs e fw dw = .ok r' ∧ ∀ i < e.length, ∀ k < dirs.length,
      ocell r' i k = if isCircular (sortedDirs dirs) then
        rollCell ((takeCols (sortPerm dirs) e).map (padRow (min dw dirs.length))) e.length (dirs.length + 2 * min dw dirs.length)
          fw dw i (min dw dirs.length + (sortPerm dirs).idxOf k)
      else rollCell (takeCols (sortPerm dirs) e) e.length dirs.length fw dw i ((sortPerm dirs).idxOf k) := by
  have hlab : labelsOf true dirs dirs = sortedDirs dirs := by simp [labelsOf, sortedDirs]
  have hsl := sortedDirs_length dirs
  have hsn := sortedDirs_nodup dirs hn
  have hw : min dw dirs.length ≤ (sortedDirs dirs).length := by rw [hsl]; exact Nat.min_le_right _ _
  unfold selOf rolledOf lab2Of s2Of
  rw [hlab]
  by_cases hc : isCircular (sortedDirs dirs) = true
  · simp only [hc, if_true]
    have h2 := isCircular_two _ hc
    have hne : padLabels (min dw dirs.length) (sortedDirs dirs) ≠ dirs := by
      intro he
      have := congrArg List.length he
      rw [padLabels_length _ _ hw, hsl] at this
      have : 0 < min dw dirs.length := by
        rw [Nat.lt_min]; constructor <;> omega
      omega
    have hall : ∀ d ∈ dirs, d ∈ padLabels (min dw dirs.length) (sortedDirs dirs) := by
      intro d hd'
      obtain ⟨k, hk, rfl⟩ := List.mem_iff_getElem.mp hd'
      have : dirs[k] = getR dirs k := by simp [getR, List.getD_eq_getElem?_getD, hk]
      rw [this]; exact mem_padLabels _ _ _ (mem_sortedDirs dirs k hk)
    rw [if_neg hne, selCols_ok _ _ _ hall]
    refine ⟨_, rfl, ?_⟩
    intro i hi k hk
    rw [ocell_sel _ _ _ i k hk, idxOf_padLabels _ _ hw hsn hc _ (mem_sortedDirs dirs k hk),
      idxOf_sortedDirs dirs hn k hk, ocell_rolling, padLabels_length _ _ hw, hsl]
    have hp := idxOf_sortPerm_lt dirs k hk
    rw [if_pos]
    · simp [takeCols_length]
    · simp only [List.length_map, takeCols_length]
      exact ⟨hi, by omega⟩
  · simp only [hc]
    simp only [Bool.false_eq_true, if_false]
    by_cases he : sortedDirs dirs = dirs
    · rw [if_pos he]
      refine ⟨_, rfl, ?_⟩
      intro i hi k hk
      have hs : dirs.Pairwise (· < ·) := by rw [← he]; exact sortedDirs_pairwise dirs hn
      have hperm := sortPerm_of_sorted dirs hs
      have hidx : (sortPerm dirs).idxOf k = k := by
        rw [hperm]
        have := (List.nodup_range (n := dirs.length)).idxOf_getElem k (by simpa using hk)
        simpa using this
      rw [ocell_rolling, hidx, hsl, takeCols_length, if_pos ⟨hi, hk⟩]
    · have hall : ∀ d ∈ dirs, d ∈ sortedDirs dirs := by
        intro d hd'
        obtain ⟨k, hk, rfl⟩ := List.mem_iff_getElem.mp hd'
        have : dirs[k] = getR dirs k := by simp [getR, List.getD_eq_getElem?_getD, hk]
        rw [this]; exact mem_sortedDirs dirs k hk
      rw [if_neg he, selCols_ok _ _ _ hall]
      refine ⟨_, rfl, ?_⟩
      intro i hi k hk
      have hp := idxOf_sortPerm_lt dirs k hk
      rw [ocell_sel _ _ _ i k hk, idxOf_sortedDirs dirs hn k hk, ocell_rolling, hsl, takeCols_length, if_pos ⟨hi, hp⟩]

/-- **repaired code, any storage order**: the result is the sorted-storage result read back in stored order -/
theorem smoothWith_repaired (dirs : Vec) (e : Mat) (fw dw : Nat) (hf : fw % 2 = 1) (hd : dw % 2 = 1) (hn : dirs.Nodup) :
    smoothWith true dirs dirs e fw dw = .ok (dirs, (List.range e.length).map fun i => (List.range dirs.length).map fun k =>
      sortedCell (isCircular (sortedDirs dirs)) (takeCols (sortPerm dirs) e) dirs.length fw dw i ((sortPerm dirs).idxOf k)) := by
  obtain ⟨r', hsel, hcell⟩ := selOf_repaired dirs e fw dw hd hn
  rw [smoothWith_unfold true dirs dirs e fw dw hf hd, hsel]
  simp only
  congr 2
  unfold fill
  apply List.map_congr_left
  intro i hi
  apply List.map_congr_left
  intro k hk
  have hk' : k < dirs.length := by simpa using hk
  rw [hcell i (by simpa using hi) k hk']
  have hcellE : cellAt e i k = cellAt (takeCols (sortPerm dirs) e) i ((sortPerm dirs).idxOf k) := by
    rw [cellAt_takeCols, if_pos (by rw [sortPerm_length]; exact idxOf_sortPerm_lt dirs k hk'), getD_idxOf_sortPerm dirs k hk']
  unfold sortedCell
  rw [hcellE]
  by_cases hc : isCircular (sortedDirs dirs) = true
  · simp only [hc, if_true, takeCols_length]; rfl
  · simp only [hc]; simp only [Bool.false_eq_true, if_false, takeCols_length]; rfl


/-! ### odds and ends used by the property theorems -/

theorem getR_le_sum_abs (r : Vec) (j : Nat) : getR r j ≤ (r.map absR).sum := by
  induction r generalizing j with
  | nil => simp [getR]
  | cons a t ih =>
    have hs : 0 ≤ (t.map absR).sum := List.sum_nonneg (by intro x hx; obtain ⟨y, _, rfl⟩ := List.mem_map.mp hx; exact absR_nonneg y)
    cases j with
    | zero => simp only [getR, List.getD_cons_zero, List.map_cons, List.sum_cons]; linarith [le_absR a]
    | succ j =>
      have := ih j
      simp only [getR, List.getD_cons_succ, List.map_cons, List.sum_cons] at this ⊢
      linarith [absR_nonneg a]

/-- every matrix has an upper bound for all its cells (also the out-of-range ones, which read as 0) -/
theorem exists_upper (e : Mat) : ∃ hi, ∀ i j, cellAt e i j ≤ hi := by
  refine ⟨(e.map fun r => (r.map absR).sum).sum, ?_⟩
  induction e with
  | nil => intro i j; simp [cellAt, getR]
  | cons r t ih =>
    intro i j
    have hr : 0 ≤ (r.map absR).sum := List.sum_nonneg (by intro x hx; obtain ⟨y, _, rfl⟩ := List.mem_map.mp hx; exact absR_nonneg y)
    have ht : 0 ≤ (t.map fun r => (r.map absR).sum).sum := List.sum_nonneg (by
      intro x hx; obtain ⟨y, _, rfl⟩ := List.mem_map.mp hx
      exact List.sum_nonneg (by intro z hz; obtain ⟨u, _, rfl⟩ := List.mem_map.mp hz; exact absR_nonneg u))
    cases i with
    | zero =>
      have := getR_le_sum_abs r j
      simp only [cellAt, List.getD_cons_zero, List.map_cons, List.sum_cons]
      linarith
    | succ i =>
      have := ih i j
      simp only [cellAt, List.getD_cons_succ, List.map_cons, List.sum_cons] at this ⊢
      linarith

theorem exists_lower (e : Mat) : ∃ lo, ∀ i j, lo ≤ cellAt e i j := by
  obtain ⟨hi, h⟩ := exists_upper (e.map fun r => r.map fun x => -x)
  refine ⟨-hi, fun i j => ?_⟩
  have := h i j
  have hneg : cellAt (e.map fun r => r.map fun x => -x) i j = - cellAt e i j := by
    unfold cellAt getR
    by_cases hi' : i < e.length
    · by_cases hj : j < (e[i]).length <;> simp [List.getD_eq_getElem?_getD, hi', hj]
    · simp [List.getD_eq_getElem?_getD, hi']
  rw [hneg] at this
  linarith

/-- windows `(1, 1)`: every cell of the sorted-storage closed form is the input cell -/
theorem sortedCell_one (circ : Bool) (e : Mat) (nd i k : Nat) (hrect : Rect e nd) (hi : i < e.length) (hk : k < nd)
    (h2 : circ = true → 2 ≤ nd) : sortedCell circ e nd 1 1 i k = cellAt e i k := by
  cases circ
  · rw [sortedCell_flat_fits e nd 1 1 i k (by omega)]
    simp [blockMean, blockSum, flatCol]
  · have := h2 rfl
    rw [sortedCell_circ_fits e nd 1 1 i k hrect (by omega) (by omega) hk (by omega)]
    simp [blockMean, blockSum, circCol, Nat.mod_eq_of_lt hk]

theorem takeCols_tab (p : List Nat) (nf nd : Nat) (g : Nat → Nat → Rat) (hp : ∀ x ∈ p, x < nd) :
    takeCols p ((List.range nf).map fun i => (List.range nd).map (g i)) =
      (List.range nf).map fun i => p.map fun x => g i x := by
  unfold takeCols
  rw [List.map_map]
  apply List.map_congr_left
  intro i _
  simp only [Function.comp]
  apply List.map_congr_left
  intro x hx
  rw [getR_tab, if_pos (hp x hx)]


/-! ### circular shift in label space, for any storage order -/

/-- the spectrum moved by `s` bins round the direction circle (labels unchanged), for any storage order:
    the bin labelled with the `r`-th smallest direction receives the value of the `(r+s)`-th -/
def rollSorted (s : Nat) (dirs : Vec) (e : Mat) : Mat :=
  e.map fun r => (List.range dirs.length).map fun k =>
    getR r ((sortPerm dirs).getD (((sortPerm dirs).idxOf k + s) % dirs.length) 0)

/-- cells of `rollSorted` -/
theorem cellAt_rollSorted (s : Nat) (dirs : Vec) (e : Mat) (i k : Nat) (hi : i < e.length) (hk : k < dirs.length) :
    cellAt (rollSorted s dirs e) i k =
      cellAt e i ((sortPerm dirs).getD (((sortPerm dirs).idxOf k + s) % dirs.length) 0) := by
  rw [cellAt_eq_getR _ _ _ (by simpa [rollSorted] using hi), cellAt_eq_getR e _ _ hi]
  simp only [rollSorted, List.getElem_map]
  rw [getR_tab, if_pos hk]


end WS.Smooth

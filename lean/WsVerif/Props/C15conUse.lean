import WsVerif.Props.C15
import WsVerif.Props.C15con
/-!
# C15 — the property theorems read on the regenerated constructors

Because the bridges of `Props/C15con.lean` are equalities, the theorems of `Props/C15.lean` (about the hand model)
transfer to the text regenerated from the repository.
-/
namespace WS.C15
open WS WS.Stats WS.Construct WS.ConBridge

/-- the property theorem `jonswap_hs` read on the regenerated text: built with `hs = h` from positive tables on a good
    grid, the regenerated JONSWAP exists and has exactly that height (radicand `h²/16`) -/
theorem gencon_jonswap_hs (pi g : ℚ) (sqrt : ℚ → ℚ) (f : Vec) (fp alpha gamma sa sb h : ℚ) (ex pw : Vec)
    (hg : GoodGrid Consts.quarter f) (h1 : ∀ x ∈ f.map (phillips pi g alpha), 0 < x) (h2 : ∀ x ∈ ex, 0 < x)
    (h3 : ∀ x ∈ pw, 0 < x) (l2 : ex.length = f.length) (l3 : pw.length = f.length)
    (hs : SqrtAt sqrt (H f (jonswapRaw (f.map (phillips pi g alpha)) ex pw))) :
    ∃ E', Gen.conJonswap pi g sqrt f fp alpha gamma sa sb (some h) ex pw = some E' ∧
      hsE Consts.thr Consts.quarter true f E' = h ^ 2 / 16 ∧ (∀ x ∈ E', 0 ≤ x) := by
  rw [gencon_jonswap_eq pi g sqrt f fp alpha gamma sa sb (some h) ex pw hg.1 (fun _ _ => hs)]
  obtain ⟨E', a, b, c, _, _⟩ := jonswap_hs Consts.thr Consts.quarter h f _ ex pw hg h1 h2 h3 (by simp) l2 l3
  exact ⟨E', a, b, c⟩

theorem gencon_pm_hs (pi g : ℚ) (sqrt : ℚ → ℚ) (f : Vec) (fp alpha h : ℚ) (ex : Vec)
    (hg : GoodGrid Consts.quarter f) (h1 : ∀ x ∈ f.map (phillips pi g alpha), 0 < x) (h2 : ∀ x ∈ ex, 0 < x)
    (l2 : ex.length = f.length) (hs : SqrtAt sqrt (H f (pmRaw (f.map (phillips pi g alpha)) ex))) :
    ∃ E', Gen.conPm pi g sqrt f fp alpha (some h) ex = some E' ∧
      hsE Consts.thr Consts.quarter true f E' = h ^ 2 / 16 ∧ (∀ x ∈ E', 0 ≤ x) := by
  rw [gencon_pm_eq pi g sqrt f fp alpha (some h) ex hg.1 (fun _ _ => hs)]
  exact pm_hs Consts.thr Consts.quarter h f _ ex hg h1 h2 (by simp) l2

end WS.C15

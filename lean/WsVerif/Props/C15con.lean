import WsVerif.Model.Construct
import WsVerif.Model.ConstructArgs
import WsVerif.Model.Consts
import WsVerif.Gen.ConKernels
import WsVerif.Lemmas.ConBridge
import Mathlib.Tactic.Ring
import Mathlib.Tactic.NormNum
/-!
# C15 — T-tier: the parametric constructors are the model (`gencon_*`)

`Gen/ConKernels.lean` is regenerated on every run by `harness/translate_con.py` from the bodies of
`pierson_moskowitz`, `jonswap`, `tma`, `gaussian`, `conditional` (`wavespectra/construct/frequency.py`), `cartwright`,
`asymmetric` (`construct/direction.py`), `construct_partition` (`construct/__init__.py`) and `scaled` (`core/utils.py`).
Each theorem below identifies one regenerated definition with the hand-written model — `Model/Construct.lean` (what the
code does with the transcendental tables) and `Model/ConstructArgs.lean` (what each table is a table of) — for ALL inputs:
every frequency / direction vector, every scalar parameter, every oracle table, symbolic `pi`, `g`.

The only hypotheses: the frequency axis is non-empty (the accessor's `df`), the oracle `sqrt` is a square root at the
radicand of `hs` where a spectrum is rescaled (`SqrtAt`: the model is in pre-image form `(h / 4√H)² = h² / 16H`), and
the `cos^{2s}` table has one column per direction (the code normalises with `dir.size`, the model with the row length).
Literals, signatures, defaults, the untranslated plumbing statements and the unguarded divisors are pinned at the end.
-/
namespace WS.C15
open WS WS.Stats WS.Construct WS.ConBridge

/-! ## `core.utils.scaled` and the hs-conditional rescale -/

theorem gencon_scaled_eq (sqrt : ℚ → ℚ) (f E : Vec) (h : ℚ) (hf : f ≠ []) (hs : SqrtAt sqrt (H f E)) :
    Gen.conScaled sqrt f E h = Construct.scaled Consts.thr Consts.quarter h f E := by
  unfold Gen.conScaled
  rw [xrHs_1d sqrt f E hf]
  exact scaled_core sqrt f E h hs

/-! ## Pierson–Moskowitz -/

theorem gencon_pm_args (f fp alpha : ℚ) :
    Gen.conPm_ex_fn = "np.exp(·0)" ∧ Gen.conPm_ex_arg0 f fp alpha = pmExpArg fp f := by
  refine ⟨by decide +kernel, ?_⟩
  unfold Gen.conPm_ex_arg0 pmExpArg
  rw [one_div, ← inv_pow, inv_div]

theorem gencon_pm_eq (pi g : ℚ) (sqrt : ℚ → ℚ) (f : Vec) (fp alpha : ℚ) (h : Option ℚ) (ex : Vec) (hf : f ≠ [])
    (hs : ∀ hv, h = some hv → SqrtAt sqrt (H f (pmRaw (f.map (phillips pi g alpha)) ex))) :
    Gen.conPm pi g sqrt f fp alpha h ex = Construct.pm Consts.thr Consts.quarter h f (f.map (phillips pi g alpha)) ex := by
  have key : List.map (fun freq => alpha * g ^ 2 / (2 * pi) ^ 4 / freq ^ 5) f = f.map (phillips pi g alpha) := by
    apply List.map_congr_left
    intro x _
    unfold phillips
    ring
  unfold Gen.conPm Construct.pm
  simp only [key]
  cases h with
  | none => rfl
  | some hv => exact gencon_scaled_eq sqrt f _ hv hf (hs hv rfl)

/-! ## JONSWAP -/

theorem gencon_jonswap_args (f fp alpha gamma sa sb : ℚ) :
    Gen.conJonswap_ex_fn = "np.exp(·0)" ∧ Gen.conJonswap_pw_fn = "·0 ** np.exp(·1)" ∧
    Gen.conJonswap_ex_arg0 f fp alpha gamma sa sb = pmExpArg fp f ∧
    Gen.conJonswap_pw_arg0 f fp alpha gamma sa sb = gamma ∧
    Gen.conJonswap_pw_arg1 f fp alpha gamma sa sb = peakExpArg fp (sigmaSel fp sa sb f) f := by
  refine ⟨rfl, rfl, ?_, rfl, ?_⟩
  · unfold Gen.conJonswap_ex_arg0 pmExpArg
    rw [one_div, ← inv_pow, inv_div]
  · unfold Gen.conJonswap_pw_arg1 peakExpArg sigmaSel
    rw [neg_div]

theorem gencon_jonswap_eq (pi g : ℚ) (sqrt : ℚ → ℚ) (f : Vec) (fp alpha gamma sa sb : ℚ) (h : Option ℚ) (ex pw : Vec)
    (hf : f ≠ []) (hs : ∀ hv, h = some hv → SqrtAt sqrt (H f (jonswapRaw (f.map (phillips pi g alpha)) ex pw))) :
    Gen.conJonswap pi g sqrt f fp alpha gamma sa sb h ex pw =
      Construct.jonswap Consts.thr Consts.quarter h f (f.map (phillips pi g alpha)) ex pw := by
  have key : List.map (fun freq => alpha * g ^ 2 * (1 / (2 * pi) ^ 4) * (1 / freq ^ 5)) f = f.map (phillips pi g alpha) := by
    apply List.map_congr_left
    intro x _
    unfold phillips
    ring
  unfold Gen.conJonswap Construct.jonswap
  simp only [key]
  cases h with
  | none => rfl
  | some hv => exact gencon_scaled_eq sqrt f _ hv hf (hs hv rfl)

/-! ## TMA -/

theorem gencon_tma_args (pi : ℚ) (sqrt : ℚ → ℚ) (f fp dep alpha gamma sa sb : ℚ) :
    Gen.conTma_ex_fn = "np.exp(·0)" ∧ Gen.conTma_pw_fn = "·0 ** np.exp(·1)" ∧
    Gen.conTma_th_fn = "np.tanh(·0)" ∧ Gen.conTma_sh_fn = "np.sinh(·0)" ∧
    Gen.conTma_ex_arg0 f fp dep alpha gamma sa sb = pmExpArg fp f ∧
    Gen.conTma_pw_arg0 f fp dep alpha gamma sa sb = gamma ∧
    Gen.conTma_pw_arg1 f fp dep alpha gamma sa sb = peakExpArg fp (sigmaSel fp sa sb f) f ∧
    Gen.conTma_th_arg0 pi sqrt f fp dep alpha gamma sa sb = kd pi sqrt dep f ∧
    Gen.conTma_sh_arg0 pi sqrt f fp dep alpha gamma sa sb = 2 * kd pi sqrt dep f := by
  refine ⟨rfl, rfl, rfl, rfl, ?_, rfl, ?_, ?_, ?_⟩
  · unfold Gen.conTma_ex_arg0 pmExpArg
    rw [one_div, ← inv_pow, inv_div]
  · unfold Gen.conTma_pw_arg1 peakExpArg sigmaSel
    rw [neg_div]
  · unfold Gen.conTma_th_arg0 kd
    rw [C01.gen_wavenuma_eq]
  · unfold Gen.conTma_sh_arg0 kd
    rw [C01.gen_wavenuma_eq]
    ring

/-- the depth factor computed by the regenerated `tma` from the tables `th = tanh(k·d)`, `sh = sinh(2·k·d)` -/
abbrev genPhi (pi : ℚ) (sqrt : ℚ → ℚ) (dep : ℚ) (f th sh : Vec) : Vec := tmaPhi (f.map (kd pi sqrt dep)) th sh

theorem gencon_tma_eq (pi g : ℚ) (sqrt : ℚ → ℚ) (f : Vec) (fp dep alpha gamma sa sb : ℚ) (h : Option ℚ)
    (ex pw th sh : Vec) (hf : f ≠ [])
    (hs1 : ∀ hv, h = some hv → SqrtAt sqrt (H f (jonswapRaw (f.map (phillips pi g alpha)) ex pw)))
    (hs2 : ∀ hv j, h = some hv →
      Construct.jonswap Consts.thr Consts.quarter h f (f.map (phillips pi g alpha)) ex pw = some j →
      SqrtAt sqrt (H f (mulV j (genPhi pi sqrt dep f th sh)))) :
    Gen.conTma pi g sqrt f fp dep alpha gamma sa sb h ex pw th sh =
      Construct.tma Consts.thr Consts.quarter h f (f.map (phillips pi g alpha)) ex pw (genPhi pi sqrt dep f th sh) := by
  have key : List.map (fun freq => 2 * Gen.wavenuma pi sqrt freq dep * dep) f
      = List.map (fun x => 2 * kd pi sqrt dep x) f := by
    apply List.map_congr_left
    intro x _
    unfold kd
    rw [C01.gen_wavenuma_eq]
    ring
  unfold Gen.conTma Construct.tma
  simp only [key, phi_gen, gencon_jonswap_eq pi g sqrt f fp alpha gamma sa sb h ex pw hf hs1]
  cases hj : Construct.jonswap Consts.thr Consts.quarter h f (f.map (phillips pi g alpha)) ex pw with
  | none => cases h <;> rfl
  | some j =>
    cases h with
    | none => rfl
    | some hv => exact gencon_scaled_eq sqrt f _ hv hf (hs2 hv j rfl hj)

/-! ## Gaussian -/

theorem gencon_gaussian_args (f hs fp gw : ℚ) :
    Gen.conGaussian_ex_fn = "np.exp(·0)" ∧ Gen.conGaussian_ex_arg0 f hs fp gw = gaussExpArg fp gw f := by
  refine ⟨rfl, ?_⟩
  unfold Gen.conGaussian_ex_arg0 gaussExpArg
  ring

theorem gencon_gaussian_eq (pi : ℚ) (sqrt : ℚ → ℚ) (f : Vec) (hs fp gw : ℚ) (ex : Vec) (hf : f ≠ [])
    (hsq : SqrtAt sqrt (H f (gaussTable pi sqrt hs gw ex))) :
    Gen.conGaussian pi sqrt f hs fp gw ex =
      Construct.gaussian Consts.thr Consts.quarter hs f (gaussTable pi sqrt hs gw ex) := by
  unfold Gen.conGaussian Construct.gaussian
  exact gencon_scaled_eq sqrt f _ hs hf hsq

/-! ## `conditional` -/

theorem gencon_conditional_args (f hs fp alpha gamma sa sb gw : ℚ) :
    Gen.conConditional_ex_fn = "np.exp(·0)" ∧ Gen.conConditional_pw_fn = "·0 ** np.exp(·1)" ∧
    Gen.conConditional_ex2_fn = "np.exp(·0)" ∧
    Gen.conConditional_ex_arg0 f hs fp alpha gamma sa sb gw = pmExpArg fp f ∧
    Gen.conConditional_pw_arg0 f hs fp alpha gamma sa sb gw = gamma ∧
    Gen.conConditional_pw_arg1 f hs fp alpha gamma sa sb gw = peakExpArg fp (sigmaSel fp sa sb f) f ∧
    Gen.conConditional_ex2_arg0 f hs fp alpha gamma sa sb gw = gaussExpArg fp gw f := by
  refine ⟨rfl, rfl, rfl, ?_, rfl, ?_, ?_⟩
  · unfold Gen.conConditional_ex_arg0 pmExpArg
    rw [one_div, ← inv_pow, inv_div]
  · unfold Gen.conConditional_pw_arg1 peakExpArg sigmaSel
    rw [neg_div]
  · unfold Gen.conConditional_ex2_arg0 gaussExpArg
    ring

/-- the regenerated `conditional` is the elementwise choice between the two regenerated shapes, both built with the
    same `hs` (JONSWAP where `cond`, Gaussian elsewhere) -/
theorem gencon_conditional_select (pi g : ℚ) (sqrt : ℚ → ℚ) (f : Vec) (hs fp : ℚ) (cond : List Bool)
    (alpha gamma sa sb gw : ℚ) (ex pw ex2 : Vec) :
    Gen.conConditional pi g sqrt f hs fp cond alpha gamma sa sb gw ex pw ex2 =
      (Gen.conJonswap pi g sqrt f fp alpha gamma sa sb (some hs) ex pw).bind fun a =>
        (Gen.conGaussian pi sqrt f hs fp gw ex2).map fun b => selectV cond a b := by
  unfold Gen.conConditional
  simp only [select_gen]

theorem gencon_conditional_eq (pi g : ℚ) (sqrt : ℚ → ℚ) (f : Vec) (hs fp : ℚ) (cond : List Bool)
    (alpha gamma sa sb gw : ℚ) (ex pw ex2 : Vec) (hf : f ≠ [])
    (h1 : SqrtAt sqrt (H f (jonswapRaw (f.map (phillips pi g alpha)) ex pw)))
    (h2 : SqrtAt sqrt (H f (gaussTable pi sqrt hs gw ex2))) :
    Gen.conConditional pi g sqrt f hs fp cond alpha gamma sa sb gw ex pw ex2 =
      Construct.conditional Consts.thr Consts.quarter hs f cond (f.map (phillips pi g alpha)) ex pw
        (gaussTable pi sqrt hs gw ex2) := by
  rw [gencon_conditional_select, gencon_gaussian_eq pi sqrt f hs fp gw ex2 hf h2,
    gencon_jonswap_eq pi g sqrt f fp alpha gamma sa sb (some hs) ex pw hf (fun _ _ => h1)]
  rfl

/-! ## cos-2s spreading (`cartwright`) -/

theorem gencon_cartwright_args (pi d dm dspr : ℚ) :
    Gen.conCartwright_pw_fn = "np.cos(·0) ** ·1" ∧
    Gen.conCartwright_pw_arg0 pi d dm dspr = cosArg pi d dm ∧
    Gen.conCartwright_pw_arg1 pi d dm dspr = cosExp pi dspr := by
  refine ⟨rfl, ?_, ?_⟩
  · simp only [Gen.conCartwright_pw_arg0, cosArg, deg2rad, dth]
    ring
  · simp only [Gen.conCartwright_pw_arg1, cosExp, deg2rad]
    ring

theorem gencon_mask_eq (dirs : Vec) (dm : ℚ) (t : Vec) :
    List.zipWith (fun a b => if a = true then b else (0 : ℚ))
      (List.map (fun dir => decide (absR (if absR (dir - dm) ≤ 180 then absR (dir - dm) else 360 - absR (dir - dm)) ≤ 90)) dirs) t
      = mask90 dirs dm t := by
  simp [mask90, dth, List.zipWith_map_left]
  rfl

theorem gencon_cartwright_eq (pi : ℚ) (dirs : Vec) (dm dspr : ℚ) (u : Bool) (pw : Vec) (hl : pw.length = dirs.length) :
    Gen.conCartwright pi dirs dm dspr u pw = Construct.cartwright pi u dirs dm pw := by
  unfold Gen.conCartwright Construct.cartwright
  simp only [gencon_mask_eq]
  cases u with
  | false => exact cartwrightRow_gen pi pw dirs.length hl
  | true =>
    refine cartwrightRow_gen pi (mask90 dirs dm pw) dirs.length ?_
    simp [mask90, hl]

theorem gencon_maskF_eq (dirs dms : Vec) (T : Mat) :
    List.zipWith (fun ra rb => List.zipWith (fun a b => if a = true then b else (0 : ℚ)) ra rb)
      (List.map (fun dm => List.map (fun dir =>
        decide (absR (if absR (dir - dm) ≤ 180 then absR (dir - dm) else 360 - absR (dir - dm)) ≤ 90)) dirs) dms) T
      = List.zipWith (fun m t => mask90 dirs m t) dms T := by
  rw [List.zipWith_map_left]
  congr 1
  funext m t
  exact gencon_mask_eq dirs m t

/-- with per-frequency parameters (`asymmetric` calls it with `under_90=False`) -/
theorem gencon_cartwrightF_eq (pi : ℚ) (dirs dms dsprs : Vec) (u : Bool) (T : Mat) (hl : ∀ t ∈ T, t.length = dirs.length) :
    Gen.conCartwrightF pi dirs dms dsprs u T = Construct.cartwrightF pi u dirs dms T := by
  unfold Gen.conCartwrightF Construct.cartwrightF spreadRows
  simp only [gencon_maskF_eq]
  cases u with
  | false =>
    simp only [Bool.false_eq_true, if_false, List.map_map, List.zipWith_map_right, List.zipWith_self, Function.comp_def]
    apply List.map_congr_left
    intro t ht
    exact cartwrightRow_gen pi t dirs.length (hl t ht)
  | true =>
    simp only [if_true, List.map_map, List.zipWith_map_right, List.zipWith_self, Function.comp_def]
    apply List.map_congr_left
    intro t ht
    exact cartwrightRow_gen pi t dirs.length (mask_rows_length dirs dms T hl t ht)

/-! ## asymmetric spreading -/

theorem gencon_asymmetric_args (pi d f dm dpm dspr dpspr fm fp : ℚ) :
    Gen.conAsymmetric_pw_fn = "np.cos(·0) ** ·1" ∧
    Gen.conAsymmetric_pw_arg0 pi d f dm dpm dspr dpspr fm fp = cosArg pi d (asymThetaAt dm dpm fm fp f) ∧
    Gen.conAsymmetric_pw_arg1 pi d f dm dpm dspr dpspr fm fp = cosExp pi (asymSigmaAt dspr dpspr fm fp f) := by
  refine ⟨rfl, ?_, ?_⟩
  · simp only [Gen.conAsymmetric_pw_arg0, cosArg, deg2rad, dth, asymThetaAt, asymTheta, asymDd, K.lo, K.hi, K.dfmin,
      List.map_cons, List.map_nil, getR, List.getD_cons_zero]
    ring
  · simp only [Gen.conAsymmetric_pw_arg1, cosExp, deg2rad, asymSigmaAt, asymSigma, K.lo, K.hi, K.dfmin, K.smin,
      List.map_cons, List.map_nil, getR, List.getD_cons_zero, ge_iff_le, mul_div_assoc]
    rfl

/-- the per-frequency mean direction and spread handed to `cartwright` are the model's `asymTheta` / `asymSigma` -/
theorem gencon_asymmetric_params (pi : ℚ) (dirs f : Vec) (dm dpm dspr dpspr fm fp : ℚ) (T : Mat) :
    Gen.conAsymmetric pi dirs f dm dpm dspr dpspr fm fp T =
      Gen.conCartwrightF pi dirs (asymTheta K.lo K.hi K.dfmin dm dpm fm fp f)
        (asymSigma K.lo K.hi K.dfmin K.smin dspr dpspr fm fp f) false T := by
  simp only [Gen.conAsymmetric, asymTheta, asymSigma, asymDd, K.lo, K.hi, K.dfmin, K.smin, ge_iff_le]
  rfl

theorem gencon_asymmetric_eq (pi : ℚ) (dirs f : Vec) (dm dpm dspr dpspr fm fp : ℚ) (T : Mat)
    (hl : ∀ t ∈ T, t.length = dirs.length) :
    Gen.conAsymmetric pi dirs f dm dpm dspr dpspr fm fp T = spreadRows pi T := by
  rw [gencon_asymmetric_params, gencon_cartwrightF_eq pi dirs _ _ false T hl]
  simp [Construct.cartwrightF]

/-! ## `construct_partition`: shape ⊗ spreading, NaN rows filled with zeros -/

theorem gencon_construct_eq (nd : ℕ) (shape : Vec) (G : List (Option Vec)) :
    Gen.conConstructPartition nd shape G = outerRows nd shape G := by
  unfold Gen.conConstructPartition outerRows
  simp only [List.map_zipWith]
  congr 1
  funext a r
  cases r <;> simp

/-- the same spreading for every frequency (`cartwright` with scalar `dm`, `dspr`) -/
theorem gencon_constructD_eq (nd : ℕ) (shape : Vec) (g : Option Vec) :
    Gen.conConstructPartitionD nd shape g = outerRows nd shape (constRows shape.length g) := by
  unfold Gen.conConstructPartitionD outerRows constRows
  rw [zipWith_replicate_right, List.map_map]
  apply List.map_congr_left
  intro a _
  cases g <;> simp

/-! ## composition -/

/-- regenerated shape ⊗ regenerated cos-2s spreading through the regenerated `construct_partition` -/
theorem gencon_construct_cartwright (nd : ℕ) (shape : Vec) (pi : ℚ) (dirs : Vec) (dm dspr : ℚ) (u : Bool) (pw : Vec)
    (hl : pw.length = dirs.length) :
    Gen.conConstructPartitionD nd shape (Gen.conCartwright pi dirs dm dspr u pw) =
      outerRows nd shape (constRows shape.length (Construct.cartwright pi u dirs dm pw)) := by
  rw [gencon_cartwright_eq pi dirs dm dspr u pw hl, gencon_constructD_eq]

/-- regenerated shape ⊗ regenerated asymmetric spreading -/
theorem gencon_construct_asymmetric (nd : ℕ) (shape : Vec) (pi : ℚ) (dirs f : Vec) (dm dpm dspr dpspr fm fp : ℚ) (T : Mat)
    (hl : ∀ t ∈ T, t.length = dirs.length) :
    Gen.conConstructPartition nd shape (Gen.conAsymmetric pi dirs f dm dpm dspr dpspr fm fp T) =
      outerRows nd shape (spreadRows pi T) := by
  rw [gencon_asymmetric_eq pi dirs f dm dpm dspr dpspr fm fp T hl, gencon_construct_eq]

/-! ## pins: signatures, defaults, literals, untranslated statements (as source text), unguarded divisors -/

theorem gencon_untranslatable_none : Gen.conUntranslatable = [] := rfl

theorem gencon_signatures :
    Gen.conScaled_sig = "spec, hs" ∧
    Gen.conPm_sig = "freq, fp, alpha=0.0081, hs=None, **kwargs" ∧
    Gen.conJonswap_sig = "freq, fp, alpha=0.0081, gamma=3.3, sigma_a=0.07, sigma_b=0.09, hs=None, **kwargs" ∧
    Gen.conTma_sig = "freq, fp, dep, alpha=0.0081, gamma=3.3, sigma_a=0.07, sigma_b=0.09, hs=None, **kwargs" ∧
    Gen.conGaussian_sig = "freq, hs, fp, gw, **kwargs" ∧
    Gen.conConditional_sig = "freq, hs, fp, cond, when_true='jonswap', when_false='gaussian', **kwargs" ∧
    Gen.conCartwright_sig = "dir, dm, dspr, under_90=False, **kwargs" ∧
    Gen.conCartwrightF_sig = "dir, dm, dspr, under_90=False, **kwargs" ∧
    Gen.conAsymmetric_sig = "dir, freq, dm, dpm, dspr, dpspr, fm, fp, **kwargs" ∧
    Gen.conConstructPartition_sig = "freq_name='jonswap', dir_name='cartwright', freq_kwargs={}, dir_kwargs={}" ∧
    Gen.conConstructPartitionD_sig = "freq_name='jonswap', dir_name='cartwright', freq_kwargs={}, dir_kwargs={}" := by
  refine ⟨rfl, rfl, rfl, rfl, rfl, rfl, rfl, rfl, rfl, rfl, rfl⟩

/-- `alpha=0.0081, gamma=3.3, sigma_a=0.07, sigma_b=0.09, hs=None` wherever they occur -/
theorem gencon_defaults_frequency :
    Gen.conPm_alpha_default = K.alpha ∧ Gen.conPm_hs_default = none ∧
    Gen.conJonswap_alpha_default = K.alpha ∧ Gen.conJonswap_gamma_default = K.gamma ∧
    Gen.conJonswap_sigma_a_default = K.sigmaA ∧ Gen.conJonswap_sigma_b_default = K.sigmaB ∧
    Gen.conJonswap_hs_default = none ∧
    Gen.conTma_alpha_default = K.alpha ∧ Gen.conTma_gamma_default = K.gamma ∧
    Gen.conTma_sigma_a_default = K.sigmaA ∧ Gen.conTma_sigma_b_default = K.sigmaB ∧ Gen.conTma_hs_default = none := by
  decide +kernel

/-- the constants of the model are the doubles nearest to the decimal numbers of the signatures -/
theorem gencon_defaults_values :
    |K.alpha - 81 / 10000| * 2 ^ 52 < 1 ∧ |K.gamma - 33 / 10| * 2 ^ 50 < 1 ∧
    |K.sigmaA - 7 / 100| * 2 ^ 52 < 1 ∧ |K.sigmaB - 9 / 100| * 2 ^ 52 < 1 := by
  norm_num [K.alpha, K.gamma, K.sigmaA, K.sigmaB, abs_lt]

theorem gencon_defaults_other :
    Gen.conConditional_when_true_default = "jonswap" ∧ Gen.conConditional_when_false_default = "gaussian" ∧
    Gen.conCartwright_under_90_default = false ∧
    Gen.conConstructPartition_freq_name_default = "jonswap" ∧ Gen.conConstructPartition_dir_name_default = "cartwright" ∧
    Gen.conConstructPartition_freq_kwargs_default = "{}" ∧ Gen.conConstructPartition_dir_kwargs_default = "{}" := by
  refine ⟨rfl, rfl, rfl, rfl, rfl, rfl, rfl⟩

/-- the statements that are NOT translated (coordinate checks, `to_coords`, names/attributes, `xr.broadcast` of two
    arrays over the same dimension, the `inspect` idiom of `conditional`), pinned as source text -/
theorem gencon_plumbing :
    Gen.conScaled_plumbing = [] ∧
    Gen.conPm_plumbing = ["check_same_coordinates(fp, alpha)",
      "if not isinstance(freq, xr.DataArray): freq = to_coords(freq, 'freq')", "dsout.name = attrs.SPECNAME"] ∧
    Gen.conJonswap_plumbing = ["check_same_coordinates(fp, alpha, gamma, sigma_a, sigma_b, hs)",
      "if not isinstance(freq, xr.DataArray): freq = to_coords(freq, 'freq')", "dsout.name = attrs.SPECNAME"] ∧
    Gen.conTma_plumbing = ["check_same_coordinates(fp, dep, alpha, gamma, sigma_a, sigma_b, hs)",
      "if not isinstance(freq, xr.DataArray): freq = to_coords(freq, 'freq')", "dsout.name = attrs.SPECNAME"] ∧
    Gen.conGaussian_plumbing = ["check_same_coordinates(hs, fp, gw)",
      "if not isinstance(freq, xr.DataArray): freq = to_coords(freq, 'freq')", "dsout.name = attrs.SPECNAME"] ∧
    Gen.conConditional_plumbing = ["check_same_coordinates(hs, fp, cond)",
      "if not isinstance(freq, xr.DataArray): freq = to_coords(freq, 'freq')", "import inspect",
      "arg_vals = inspect.getargvalues(inspect.currentframe())",
      "arguments = {a: arg_vals.locals[a] for a in arg_vals.args}", "arguments.update(arg_vals.locals['kwargs'])",
      "dsout.name = attrs.SPECNAME"] ∧
    Gen.conCartwright_plumbing = ["check_same_coordinates(dm, dspr)",
      "if not isinstance(dir, xr.DataArray): dir = to_coords(dir, 'dir')"] ∧
    Gen.conCartwrightF_plumbing = Gen.conCartwright_plumbing ∧
    Gen.conAsymmetric_plumbing = ["check_same_coordinates(dm, dpm, dspr, dpspr, fm, fp)",
      "if not isinstance(freq, xr.DataArray): freq = to_coords(freq, 'freq')",
      "if not isinstance(dir, xr.DataArray): dir = to_coords(dir, 'dir')", "theta, sigma = xr.broadcast(theta, sigma)"] ∧
    Gen.conConstructPartition_plumbing = ["set_spec_attributes(dset)"] ∧
    Gen.conConstructPartitionD_plumbing = ["set_spec_attributes(dset)"] := by
  refine ⟨rfl, rfl, rfl, rfl, rfl, rfl, rfl, rfl, rfl, rfl, rfl⟩

/-- `construct_partition` loads the two functions by name from exactly these modules and calls them with the two
    keyword dictionaries; their results are the parameters `efth1d`, `spread` of the regenerated definition -/
theorem gencon_construct_calls :
    Gen.conConstructPartition_calls =
      ["efth1d = load_function('wavespectra.construct.frequency', freq_name)(**freq_kwargs)",
       "spread = load_function('wavespectra.construct.direction', dir_name)(**dir_kwargs)"] ∧
    Gen.conConstructPartitionD_calls = Gen.conConstructPartition_calls := ⟨rfl, rfl⟩

/-- the divisors that are divided by with total rational division (every other division is guarded): parameters and
    coordinates, and the `sinh` table of `tma`; where one of them vanishes numpy yields inf/nan and nothing is claimed -/
theorem gencon_divisors :
    Gen.conScaled_divisors = [] ∧
    Gen.conPm_divisors = ["(2 * pi) ** 4", "freq ** 5", "fp", "(freq / fp) ** 4"] ∧
    Gen.conJonswap_divisors = ["(2 * pi) ** 4", "freq ** 5", "fp", "(freq / fp) ** 4", "2 * sigma ** 2 * fp ** 2"] ∧
    Gen.conTma_divisors = ["jonswap: (2 * pi) ** 4", "jonswap: freq ** 5", "jonswap: fp", "jonswap: (freq / fp) ** 4",
      "jonswap: 2 * sigma ** 2 * fp ** 2", "dep", "np.sinh(2 * k * dep)", "1 + 2 * k * dep / np.sinh(2 * k * dep)"] ∧
    Gen.conGaussian_divisors = ["gw * np.sqrt(2 * pi)", "gw"] ∧
    Gen.conCartwright_divisors = ["np.deg2rad(dspr) ** 2", "dir.size", "R2D"] ∧
    Gen.conCartwrightF_divisors = Gen.conCartwright_divisors ∧
    Gen.conAsymmetric_divisors = ["df", "cartwright: np.deg2rad(dspr) ** 2", "cartwright: dir.size", "cartwright: R2D"] ∧
    Gen.conConstructPartition_divisors = [] ∧ Gen.conConstructPartitionD_divisors = [] := by
  refine ⟨rfl, rfl, rfl, rfl, rfl, rfl, rfl, rfl, rfl, rfl⟩

/-- the literals of the formulas, through the bridges above: each equation fails if the corresponding literal of the
    source changes (`1.25`/`5/4`, `-4`, `-5`, `2`, `0.5`, `4`, `180`, `360`, `90`, `0.001`, `0.14`, `0.5`, `1.5`) -/
theorem gencon_literals :
    pmExpArg 1 2 = -(5 / 64) ∧ phillips 1 1 1 2 = 1 / 512 ∧ peakExpArg 1 1 3 = -2 ∧ gaussExpArg 1 1 3 = -2 ∧
    gaussCoef 1 (fun _ => 1) 8 1 = 4 ∧ cosArg 180 350 10 = 10 ∧ cosExp 180 1 = 2 ∧ phiElem 1 3 2 = 9 / 2 ∧
    mask90 [0, 90, 91, 271] 0 [1, 1, 1, 1] = [1, 1, 0, 1] ∧
    K.lo = 1 / 2 ∧ K.hi = 3 / 2 := by
  decide +kernel

theorem gencon_limiter_values :
    |K.dfmin - 1 / 1000| * 2 ^ 52 < 1 ∧ |K.smin - 14 / 100| * 2 ^ 52 < 1 := by
  norm_num [K.dfmin, K.smin, abs_lt]

/-! ## non-vacuity: the hypotheses of the bridges are satisfiable -/

/-- a 3-bin spectrum whose radicand is the perfect square `4`, with an oracle that is a square root there -/
example : ([1/8, 1/4, 3/8] : Vec) ≠ [] ∧ SqrtAt (fun x => if x = 4 then 2 else 0) (H [1/8, 1/4, 3/8] [32, 0, 0]) := by
  unfold SqrtAt
  decide +kernel

example : Gen.conScaled (fun x => if x = 4 then 2 else 0) [1/8, 1/4, 3/8] [32, 0, 0] 8 = some [32, 0, 0] := by
  decide +kernel

/-- four directions, a table of the right length: `den = 2·(2π/4)` with `π := 3`, each entry `x/3/60` -/
example : ([1, 1/2, 0, 1/2] : Vec).length = ([0, 90, 180, 270] : Vec).length ∧
    Gen.conCartwright 3 [0, 90, 180, 270] 0 30 false [1, 1/2, 0, 1/2] = some [1/180, 1/360, 0, 1/360] ∧
    Gen.conCartwright 3 [0, 90, 180, 270] 0 30 true [1, 1/2, 1/4, 1/2] = some [1/180, 1/360, 0, 1/360] ∧
    Gen.conConstructPartitionD 4 [2, 0] (some [1/180, 1/360, 0, 1/360]) = [[1/90, 1/180, 0, 1/180], [0, 0, 0, 0]] ∧
    Gen.conConstructPartition 2 [2, 3] [some [1, 2], none] = [[2, 4], [0, 0]] := by
  decide +kernel

end WS.C15

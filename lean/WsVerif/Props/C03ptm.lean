import WsVerif.Gen.PtmKernels
import WsVerif.Lemmas.PtmBridge
/-!
# C03 — the assembly model is the source, regenerated (T-tier, statement level)

`harness/translate_ptm.py` reads the bodies of `np_ptm1`, `np_ptm2`, `np_ptm3` (`wavespectra/partition/partition.py`)
statement by statement on every run and writes them as `Gen.np_ptm1/2/3` (`Gen/PtmKernels.lean`): folds over
`List.range nparts` carrying the tuple of re-assigned variables, in-place `+=` on list slots, `np.argsort` + fancy
indexing, `is None` as a `match`, the truncate / append-zeros branches.  The theorems below identify these generated
functions, **for all inputs**, with the hand-written model `Model/Assembly.lean` that every C03 theorem
(`Props/C03.lean`, `Props/C03chain.lean`) is about:

* `genptm_np_ptm3_eq`, `genptm_np_ptm1_eq`, `genptm_np_ptm2_eq`: on the three per-bin arrays of any list of bins
  (`bE` = spectrum, `bL` = watershed map, `bW` = wind-sea mask), any sort key, any cutoff, any requested count including
  `None`, whatever `spectrum_smooth` is, the generated function returns exactly the arrays (`Part.vals`) of
  `Assembly.ptm1/2/3`;  `…_eq_lists`: the same for any three lists of one length (they are the arrays of `mkBins`);
  `…_hs`: instantiated with the sort key of the source, `Assembly.npHsKey f dirs`;
* `genptm_*_sig/_defaults/_watershed_src/_windseamask_src/_key_src`, `genptm_bindings`: every default, the argument
  order, and the source text of what the translator turns into a parameter (the watershed call, the wind-sea mask, the
  sort-key call) are pinned.

`Props/C03ptmUse.lean` restates C03 theorems (lengths, conservation) as statements about the regenerated functions.

The structural differences (fold with slot update vs. `map` over labels, `argsort` + `take` vs. stable `mergeSort`,
append loop vs. `replicate`, select-then-sum vs. sum of `where`) are proved by induction in `Lemmas/PtmBridge.lean`.
-/
namespace WS.C03
open WS WS.Assembly WS.PtmBridge

/-! ## PTM3 -/

theorem genptm_np_ptm3_eq (key : Vec → Rat) (bins : List Bin) (smooth : List Rat) (parts : Option Nat) :
    Gen.np_ptm3 key (bE bins) smooth (bL bins) parts = vals (ptm3 key bins parts) := by
  unfold Gen.np_ptm3
  simp only [maxNat_bL, ← zeros_vals, foldl_append_map, range2_one, List.nil_append, ptm3_slots_bridge, sort_bridge]
  cases parts with
  | none => rfl
  | some s =>
    simp only [List.map_const', List.length_range, decide_eq_true_eq, fit_bridge]
    rfl

/-- any spectrum and label map of one length -/
theorem genptm_np_ptm3_eq_lists (key : Vec → Rat) (E smooth : List Rat) (labs : List Nat) (parts : Option Nat)
    (h : labs.length = E.length) :
    Gen.np_ptm3 key E smooth labs parts = vals (ptm3 key (mkBins E labs (E.map fun _ => false)) parts) := by
  have h2 : (E.map fun _ => false).length = E.length := by simp
  rw [← genptm_np_ptm3_eq, bE_mkBins E labs _ h h2, bL_mkBins E labs _ h h2]

/-- with the sort key of the source: `npstats.hs(swell, freq, dir)`, up to the monotone `4·sqrt` -/
theorem genptm_np_ptm3_hs (f dirs : Vec) (bins : List Bin) (smooth : List Rat) (parts : Option Nat) :
    Gen.np_ptm3 (npHsKey f dirs) (bE bins) smooth (bL bins) parts = vals (ptm3 (npHsKey f dirs) bins parts) :=
  genptm_np_ptm3_eq _ _ _ _

theorem genptm_np_ptm3_sig : Gen.np_ptm3_sig = ["spectrum", "spectrum_smooth", "freq", "dir", "parts", "ihmax"] := by decide

theorem genptm_np_ptm3_defaults : Gen.np_ptm3_default_parts = some 3 ∧ Gen.np_ptm3_default_ihmax = 100 := ⟨rfl, rfl⟩

theorem genptm_np_ptm3_watershed_src : Gen.np_ptm3_watershed_src
    = "specpart.partition(np.ascontiguousarray(spectrum_smooth, dtype=np.float32), ihmax)" := by decide

theorem genptm_np_ptm3_key_src : Gen.np_ptm3_key_src = ["npstats.hs(swell, freq, dir)"] := by decide

/-! ## PTM1 -/

theorem genptm_np_ptm1_eq (key : Vec → Rat) (wscut : Rat) (bins : List Bin) (smooth : List Rat) (swells : Option Nat) :
    Gen.np_ptm1 key (bE bins) smooth (bL bins) (bW bins) wscut swells = vals (ptm1 key wscut bins swells) := by
  unfold Gen.np_ptm1
  simp only [maxNat_bL, ← basin_vals, ← zeros_vals, windsea_test, List.map_const', List.length_range]
  rw [ptm1_loop_bridge wscut bins _ (by intro st i; cases isWindSea wscut bins (i + 1) <;> rfl)]
  simp only [sort_bridge]
  cases swells with
  | none =>
    simp only [dropNull_bridge]
    rfl
  | some s =>
    simp only [foldl_append_const, decide_eq_true_eq, fit_bridge]
    rfl

theorem genptm_np_ptm1_eq_lists (key : Vec → Rat) (wscut : Rat) (E smooth : List Rat) (labs : List Nat) (ws : List Bool)
    (swells : Option Nat) (h1 : labs.length = E.length) (h2 : ws.length = E.length) :
    Gen.np_ptm1 key E smooth labs ws wscut swells = vals (ptm1 key wscut (mkBins E labs ws) swells) := by
  rw [← genptm_np_ptm1_eq, bE_mkBins E labs ws h1 h2, bL_mkBins E labs ws h1 h2, bW_mkBins E labs ws h1 h2]

theorem genptm_np_ptm1_hs (f dirs : Vec) (wscut : Rat) (bins : List Bin) (smooth : List Rat) (swells : Option Nat) :
    Gen.np_ptm1 (npHsKey f dirs) (bE bins) smooth (bL bins) (bW bins) wscut swells
      = vals (ptm1 (npHsKey f dirs) wscut bins swells) :=
  genptm_np_ptm1_eq _ _ _ _ _

theorem genptm_np_ptm1_sig : Gen.np_ptm1_sig
    = ["spectrum", "spectrum_smooth", "freq", "dir", "wspd", "wdir", "dpt", "agefac", "wscut", "swells", "ihmax"] := by decide

/-- `agefac=1.7`, `wscut=0.3333` (the doubles, exactly), `swells=3`, `ihmax=100` -/
theorem genptm_np_ptm1_defaults :
    Gen.np_ptm1_default_agefac = (7656119366529843 : Rat) / 4503599627370496
    ∧ Gen.np_ptm1_default_wscut = (6004199023210345 : Rat) / 18014398509481984
    ∧ Gen.np_ptm1_default_swells = some 3 ∧ Gen.np_ptm1_default_ihmax = 100 := ⟨rfl, rfl, rfl, rfl⟩

theorem genptm_np_ptm1_watershed_src : Gen.np_ptm1_watershed_src
    = "specpart.partition(np.ascontiguousarray(spectrum_smooth, dtype=np.float32), ihmax)" := by decide

/-- the wave-age wind-sea mask (a parameter of the generated function): its source, and its literals -/
theorem genptm_np_ptm1_windseamask_src : Gen.np_ptm1_windseamask_src
    = ["up = np.tile(agefac * wspd * np.cos(D2R * (dir - wdir)), (freq.size, 1))",
       "windseamask = up > np.tile(celerity(freq, dpt)[:, np.newaxis], (1, dir.size))"]
    ∧ Gen.np_ptm1_windseamask_lits = [1, 1] := by decide

theorem genptm_np_ptm1_key_src : Gen.np_ptm1_key_src = ["npstats.hs(swell, freq, dir)"] := by decide

/-! ## PTM2 -/

theorem genptm_np_ptm2_eq (key : Vec → Rat) (wscut : Rat) (bins : List Bin) (smooth : List Rat) (swells : Option Nat) :
    Gen.np_ptm2 key (bE bins) smooth (bL bins) (bW bins) wscut swells = vals (ptm2 key wscut bins swells) := by
  unfold Gen.np_ptm2
  simp only [maxNat_bL, ← basin_vals, ← zeros_vals, ← whereWs_vals, ← whereNotWs_vals, windsea_test, List.map_const',
    List.length_range]
  rw [ptm2_loop_bridge wscut bins _ (by intro st i; cases isWindSea wscut bins (i + 1) <;> rfl)]
  simp only [sort_bridge]
  cases swells with
  | none =>
    simp only [dropNull_bridge]
    rfl
  | some s =>
    simp only [foldl_append_const, decide_eq_true_eq, fit_bridge]
    rfl

theorem genptm_np_ptm2_eq_lists (key : Vec → Rat) (wscut : Rat) (E smooth : List Rat) (labs : List Nat) (ws : List Bool)
    (swells : Option Nat) (h1 : labs.length = E.length) (h2 : ws.length = E.length) :
    Gen.np_ptm2 key E smooth labs ws wscut swells = vals (ptm2 key wscut (mkBins E labs ws) swells) := by
  rw [← genptm_np_ptm2_eq, bE_mkBins E labs ws h1 h2, bL_mkBins E labs ws h1 h2, bW_mkBins E labs ws h1 h2]

theorem genptm_np_ptm2_hs (f dirs : Vec) (wscut : Rat) (bins : List Bin) (smooth : List Rat) (swells : Option Nat) :
    Gen.np_ptm2 (npHsKey f dirs) (bE bins) smooth (bL bins) (bW bins) wscut swells
      = vals (ptm2 (npHsKey f dirs) wscut bins swells) :=
  genptm_np_ptm2_eq _ _ _ _ _

theorem genptm_np_ptm2_sig : Gen.np_ptm2_sig
    = ["spectrum", "spectrum_smooth", "freq", "dir", "wspd", "wdir", "dpt", "agefac", "wscut", "swells", "ihmax"] := by decide

theorem genptm_np_ptm2_defaults :
    Gen.np_ptm2_default_agefac = (7656119366529843 : Rat) / 4503599627370496
    ∧ Gen.np_ptm2_default_wscut = (6004199023210345 : Rat) / 18014398509481984
    ∧ Gen.np_ptm2_default_swells = some 3 ∧ Gen.np_ptm2_default_ihmax = 100 := ⟨rfl, rfl, rfl, rfl⟩

theorem genptm_np_ptm2_watershed_src : Gen.np_ptm2_watershed_src
    = "specpart.partition(np.ascontiguousarray(spectrum_smooth, dtype=np.float32), ihmax)" := by decide

theorem genptm_np_ptm2_windseamask_src : Gen.np_ptm2_windseamask_src
    = ["up = np.tile(agefac * wspd * np.cos(D2R * (dir - wdir)), (freq.size, 1))",
       "windseamask = up > np.tile(celerity(freq, dpt)[:, np.newaxis], (1, dir.size))"]
    ∧ Gen.np_ptm2_windseamask_lits = [1, 1] := by decide

theorem genptm_np_ptm2_key_src : Gen.np_ptm2_key_src = ["npstats.hs(swell, freq, dir)"] := by decide

/-! ## the free names of the three functions -/

/-- `np`, `specpart`, `npstats`, `D2R`, `celerity` are bound once, by these imports; `D2R = π/180` as written;
    `npstats.hs` takes `(spectrum, freq, dir, tail=True)`: the three-argument call of the sort key fits the tail -/
theorem genptm_bindings : Gen.ptm_bindings
    = ["np: import numpy as np", "specpart: from wavespectra.partition import specpart",
       "npstats: from wavespectra.core import npstats", "D2R: from wavespectra.core.utils import D2R",
       "celerity: from wavespectra.core.utils import celerity"]
    ∧ Gen.ptm_D2R_src = ["D2R = np.pi / 180.0"]
    ∧ Gen.ptm_hs_sig = ["hs(spectrum, freq, dir=None, tail=True)"] := by decide

end WS.C03

import WsVerif.Model.Track
import WsVerif.Lemmas.Track
import WsVerif.Gen.Lits
import Mathlib.Tactic.Linarith
import Mathlib.Algebra.Order.Field.Basic
import Mathlib.Algebra.Order.Field.Rat
import WsVerif.Gen.NpKernels
/-!
# C19 — partition tracking assigns consistent wave-system identifiers over time

Property theorems only.  `WS.Track.track s0 steps` is the model of `np_track_partitions` on abstract inputs:
`s0` = which slots of step 0 are non-empty, and for every later step its thresholded distance matrix
`dist cur prev : Option ℚ` (`none` = the 999 sentinel = outside the sea/swell thresholds or NaN) and its
slots.  Every statement below holds for **every** number of time steps `T ≥ 1` (`steps` is any list),
every number of partitions (rows may even be ragged) and every distance matrix — hence for every threshold
parameter, wind speed, frequency and direction value.  `trackData` instantiates the matrices with the
code's own threshold computation; the `_data` theorems restate the threshold clause on the raw numbers.

Rows of `(track s0 steps).1` are time steps; entries are `none` (the `-999` marker) or `some id`.
-/
namespace WS.C19
open WS WS.Track

/-! ## the property -/

/-- **marker**: at every step, exactly the non-empty partitions carry an identifier (`some k`, i.e. `≥ 0`);
    the empty ones carry the missing marker (`none`, i.e. `-999`). -/
theorem ids_marker (s0 : List Slot) (steps : List (Dist × List Slot)) :
    (track s0 steps).1.map (fun row => row.map Option.isSome) = s0 :: steps.map (·.2) := by
  have h := allStates_slots steps (init s0)
  simp only [track, List.map_map]
  have : (init s0).slots = s0 := rfl
  rw [this] at h
  rw [← h]
  apply List.map_congr_left
  intro a ha
  obtain ⟨t, ht⟩ := List.mem_iff_getElem?.1 ha
  exact (allStates_inv steps _ (inv_init s0).1 t a ht).marker

/-- **marker, pointwise**: slot `i` of step `t` has an identifier iff it is non-empty. -/
theorem ids_marker_get (s0 : List Slot) (steps : List (Dist × List Slot)) (t i : Nat) :
    (((track s0 steps).1[t]?).bind (·[i]?)).map Option.isSome = ((s0 :: steps.map (·.2))[t]?).bind (·[i]?) := by
  rw [← ids_marker s0 steps]
  simp only [List.getElem?_map]
  cases (track s0 steps).1[t]? with
  | none => simp
  | some row => simp [List.getElem?_map]

/-- **unique per step**: within a time step no identifier is used twice. -/
theorem ids_unique_per_step (s0 : List Slot) (steps : List (Dist × List Slot)) :
    ∀ row ∈ (track s0 steps).1, (present row).Nodup := by
  intro row hrow
  obtain ⟨t, ht⟩ := List.mem_iff_getElem?.1 hrow
  obtain ⟨a, _, rfl, hI⟩ := rows_get ht
  exact hI.nodup

/-- **issued in order**: scanning the result in time order, then partition index, every identifier met is
    either one already issued or exactly the next unused integer; the scan ends at the reported count. -/
theorem ids_issued_in_order (s0 : List Slot) (steps : List (Dist × List Slot)) :
    InOrder 0 ((track s0 steps).1.flatMap present) (track s0 steps).2 := by
  have := allStates_inOrder steps (init s0) 0 (inv_init s0).1 (inv_init s0).2
  simpa [track, List.flatMap_map] using this

/-- **exact range**: the identifiers in use, listed in order of first appearance (time, then partition
    index), are exactly `0, 1, …, N-1` with `N` the reported count. -/
theorem ids_exact_range (s0 : List Slot) (steps : List (Dist × List Slot)) :
    firstOcc ((track s0 steps).1.flatMap present) = List.range (track s0 steps).2 := by
  have h := (ids_issued_in_order s0 steps).firstOcc
  simp only [Nat.zero_le, decide_true, List.filter_true, Nat.sub_zero] at h
  rw [h, List.range_eq_range']

/-- **exact range, membership form**: `k` is used somewhere iff `k < N`. -/
theorem ids_mem_iff_lt_count (s0 : List Slot) (steps : List (Dist × List Slot)) (k : Nat) :
    (∃ row ∈ (track s0 steps).1, some k ∈ row) ↔ k < (track s0 steps).2 := by
  have h := ids_issued_in_order s0 steps
  constructor
  · rintro ⟨row, hrow, hk⟩
    exact h.lt_of_mem k (List.mem_flatMap.2 ⟨row, hrow, mem_present.2 hk⟩)
  · intro hk
    obtain ⟨row, hrow, hk'⟩ := List.mem_flatMap.1 (h.mem_of_lt k (Nat.zero_le _) hk)
    exact ⟨row, hrow, mem_present.1 hk'⟩

/-- **carried only within thresholds**: if identifier `k` sits in slot `p` at step `t` and in slot `c` at
    step `t+1`, then the entry `(c, p)` of the distance matrix of step `t+1` is inside the thresholds. -/
theorem carry_within_thresholds (s0 : List Slot) (steps : List (Dist × List Slot)) (t c p k : Nat)
    (rowPrev rowCur : List (Option Nat)) (d : Dist) (s : List Slot)
    (hprev : (track s0 steps).1[t]? = some rowPrev) (hcur : (track s0 steps).1[t + 1]? = some rowCur)
    (hstep : steps[t]? = some (d, s))
    (hp : rowPrev[p]? = some (some k)) (hc : rowCur[c]? = some (some k)) :
    ∃ x, d c p = some x := by
  obtain ⟨a, ha, rfl, hIa⟩ := rows_get hprev
  obtain ⟨b, hb, rfl, _⟩ := rows_get hcur
  obtain ⟨d', s', hds, rfl⟩ := allStates_consec steps _ t a b ha hb
  rw [hstep] at hds
  simp only [Option.some.injEq, Prod.mk.injEq] at hds
  obtain ⟨rfl, rfl⟩ := hds
  rcases (step_spec d a s hIa).2.origin c k hc with h | ⟨p', hp', x, hx⟩
  · have := hIa.bound k (mem_present.2 (mem_of_getElem? hp)); omega
  · have : p' = p := present_nodup_inj hIa.nodup hp' hp
    subst this
    exact ⟨x, hx⟩

/-- **a new identifier is really new**: an identifier of step `t+1` that was not in use at step `t` had never
    been issued before (it is `≥` every identifier seen up to step `t`). -/
theorem fresh_is_new (s0 : List Slot) (steps : List (Dist × List Slot)) (t t0 c k j : Nat)
    (rowPrev rowCur row0 : List (Option Nat))
    (hprev : (track s0 steps).1[t]? = some rowPrev) (hcur : (track s0 steps).1[t + 1]? = some rowCur)
    (h0 : (track s0 steps).1[t0]? = some row0) (ht0 : t0 ≤ t)
    (hc : rowCur[c]? = some (some k)) (hnot : some k ∉ rowPrev) (hj : some j ∈ row0) : j < k := by
  obtain ⟨a, ha, rfl, hIa⟩ := rows_get hprev
  obtain ⟨b, hb, rfl, _⟩ := rows_get hcur
  obtain ⟨a0, ha0, rfl, hI0⟩ := rows_get h0
  obtain ⟨d, s, _, rfl⟩ := allStates_consec steps _ t a b ha hb
  have hj' : j < a0.next := hI0.bound j (mem_present.2 hj)
  have hmono : a0.next ≤ a.next := by
    have hs := allStates_suffix steps _ t0 a0 ha0 (t - t0)
    have e : t0 + (t - t0) = t := by omega
    rw [e, ha] at hs
    exact next_mono _ a0 hI0 (t - t0) a hs.symm
  rcases (step_spec d a s hIa).2.origin c k hc with h | ⟨p', hp', _⟩
  · omega
  · exact absurd (mem_of_getElem? hp') hnot

/-- **each previous partition is continued at most once** (match level): the local matches of a step never
    name the same predecessor twice, and only name non-empty slots of the previous step. -/
theorem match_injective (dist : Dist) (prev cur : List Slot) :
    (prevs (matchConsecutive dist prev cur)).Nodup ∧
    ∀ p ∈ prevs (matchConsecutive dist prev cur), prev[p]? = some true := by
  obtain ⟨h1, h2⟩ := matchLoop_prevs dist prev.length cur 0 (availOf prev) (availOf_nodup prev)
  exact ⟨h1, fun p hp => mem_availOf.1 (h2 p hp)⟩

/-- **each previous partition is continued at most once** (identifier level): an identifier of step `t` is
    found in at most one slot of step `t+1`. -/
theorem prev_continued_at_most_once (s0 : List Slot) (steps : List (Dist × List Slot)) (t c₁ c₂ p k : Nat)
    (rowPrev rowCur : List (Option Nat))
    (_hprev : (track s0 steps).1[t]? = some rowPrev) (hcur : (track s0 steps).1[t + 1]? = some rowCur)
    (_hp : rowPrev[p]? = some (some k))
    (h1 : rowCur[c₁]? = some (some k)) (h2 : rowCur[c₂]? = some (some k)) : c₁ = c₂ := by
  obtain ⟨b, _, rfl, hIb⟩ := rows_get hcur
  exact present_nodup_inj hIb.nodup h1 h2

/-- **no resurrection**: an identifier that was in use at some step `t0 ≤ t` and is not in use at step `t`
    is not in use at any later step `t' ≥ t`. -/
theorem no_resurrection (s0 : List Slot) (steps : List (Dist × List Slot)) (t0 t t' k : Nat)
    (r0 r r' : List (Option Nat))
    (h0 : (track s0 steps).1[t0]? = some r0) (h : (track s0 steps).1[t]? = some r)
    (h' : (track s0 steps).1[t']? = some r')
    (h01 : t0 ≤ t) (h12 : t ≤ t') (hin : some k ∈ r0) (hout : some k ∉ r) : some k ∉ r' := by
  obtain ⟨a0, ha0, rfl, hI0⟩ := rows_get h0
  obtain ⟨a, ha, rfl, hIa⟩ := rows_get h
  obtain ⟨a', ha', rfl, _⟩ := rows_get h'
  have hk : k < a0.next := hI0.bound k (mem_present.2 hin)
  have hmono : a0.next ≤ a.next := by
    have hs := allStates_suffix steps _ t0 a0 ha0 (t - t0)
    have e : t0 + (t - t0) = t := by omega
    rw [e, ha] at hs
    exact next_mono _ a0 hI0 (t - t0) a hs.symm
  have hs := allStates_suffix steps _ t a ha (t' - t)
  have e : t + (t' - t) = t' := by omega
  rw [e, ha'] at hs
  have := absent_persists k _ a hIa (by omega) (fun hh => hout (mem_present.1 hh)) (t' - t) a' hs.symm
  exact fun hh => this.1 (mem_present.2 hh)

/-- **greedy choice**: the first non-empty current slot is matched to the nearest available in-threshold
    predecessor (and, the sort being stable, to the first of the equally near ones — `argminFirst`). -/
theorem first_match_is_nearest (dist : Dist) (prev : List Slot) (rest : List Slot) (p : Nat)
    (h : (matchConsecutive dist prev (true :: rest))[0]? = some (Match.prev p)) :
    ∃ d, dist 0 p = some d ∧
      ∀ q d', prev[q]? = some true → dist 0 q = some d' → d ≤ d' := by
  obtain ⟨d, hd, hmin⟩ := matchLoop_head_nearest dist prev.length rest 0 (availOf prev) p h
  refine ⟨d, hd, fun q d' hq hd' => hmin q d' ?_ (mem_availOf.2 hq) hd'⟩
  by_contra hc
  rw [List.getElem?_eq_none (by omega)] at hq
  simp at hq

/-- a slot that gets a fresh identifier although a predecessor is non-empty: no non-empty predecessor was
    within the thresholds for the *first* current slot (later slots may also lose predecessors to earlier ones) -/
theorem first_unmatched_has_no_candidate (dist : Dist) (prev : List Slot) (rest : List Slot)
    (h : (matchConsecutive dist prev (true :: rest))[0]? = some Match.fresh) :
    ∀ q, prev[q]? = some true → dist 0 q = none := by
  intro q hq
  refine matchLoop_head_fresh dist prev.length rest 0 (availOf prev) h q ?_ (mem_availOf.2 hq)
  by_contra hc
  rw [List.getElem?_eq_none (by omega)] at hq
  simp at hq

/-- **a new identifier is started only when nothing is left to continue**: a current slot is left unmatched
    (and so receives a fresh identifier) only if every non-empty in-threshold predecessor has been taken by an
    earlier current slot (docstring: "partitions are matched with the closest partition of the previous step"). -/
theorem unmatched_only_if_candidates_taken (dist : Dist) (prev cur : List Slot) (i : Nat)
    (h : (matchConsecutive dist prev cur)[i]? = some Match.fresh) (q : Nat) (d : Rat)
    (hq : prev[q]? = some true) (hd : dist i q = some d) :
    ∃ j, j < i ∧ (matchConsecutive dist prev cur)[j]? = some (Match.prev q) := by
  have hlt : q < prev.length := by
    by_contra hc
    rw [List.getElem?_eq_none (by omega)] at hq
    simp at hq
  exact matchLoop_fresh dist prev.length cur 0 (availOf prev) i h q d hlt (mem_availOf.2 hq) (by simpa using hd)

/-- **sites are independent**: the result at site `i` is the single-site result on site `i`'s own data. -/
theorem sites_independent (sites : List (Step × List (Thr × Step))) (i : Nat) :
    (trackSites sites)[i]? = (sites[i]?).map fun s => trackData s.1 s.2 := by
  simp [trackSites]

/-- changing, adding or removing *other* sites does not change the result at a site -/
theorem sites_unaffected_by_other_sites (sites sites' : List (Step × List (Thr × Step))) (i j : Nat)
    (h : sites[i]? = sites'[j]?) : (trackSites sites)[i]? = (trackSites sites')[j]? := by
  rw [sites_independent, sites_independent, h]

/-! ## the threshold clause on the raw numbers (`trackData`) -/

/-- an entry of the code's distance matrix is not the sentinel only if all four statistics and the
    frequency threshold are numbers (not NaN) and the three strict inequalities hold, with the sea/swell
    thresholds selected by the index `p` of the previous partition -/
theorem distEntry_some (thr : Thr) (p : Nat) (fcur dcur fprev dprev : Option Rat) (x : Rat)
    (h : distEntry thr p fcur dcur fprev dprev = some x) :
    ∃ fc dc fp dp lo, fcur = some fc ∧ dcur = some dc ∧ fprev = some fp ∧ dprev = some dp ∧
      dfpMin thr p = some lo ∧
      ddpmOf dc dp < ddpmMax thr p ∧ fc - fp < dfpMax thr p ∧ lo < fc - fp ∧
      x = distVal thr p lo (ddpmOf dc dp) (fc - fp) := by
  unfold distEntry at h
  split at h
  · rename_i fc dc fp dp lo hlo
    split at h
    · rename_i hw
      simp only [Option.some.injEq] at h
      exact ⟨fc, dc, fp, dp, lo, rfl, rfl, rfl, rfl, hlo, hw.1, hw.2.1, hw.2.2, h.symm⟩
    · simp at h
  · simp at h

/-- **carried only within thresholds, on the data**: if identifier `k` goes from slot `p` of step `t` to slot
    `c` of step `t+1`, both partitions have a peak frequency and direction, and their changes satisfy
    `Δdir < ddpm_max[p]`, `dfp_min[p] < Δfp < dfp_max[p]` (strict), where
    `Δdir = |((d_cur − d_prev + 180) mod 360) − 180|` and the sea thresholds apply iff `p = 0`. -/
theorem carry_within_thresholds_data (s0 : Step) (rest : List (Thr × Step)) (t c p k : Nat)
    (rowPrev rowCur : List (Option Nat)) (thr : Thr) (prevStep cur : Step)
    (hprev : (trackData s0 rest).1[t]? = some rowPrev) (hcur : (trackData s0 rest).1[t + 1]? = some rowCur)
    (hstep : rest[t]? = some (thr, cur)) (hps : (s0 :: rest.map (·.2))[t]? = some prevStep)
    (hp : rowPrev[p]? = some (some k)) (hc : rowCur[c]? = some (some k)) :
    ∃ fc dc fp dp lo, cur.fp[c]? = some (some fc) ∧ cur.dpm[c]? = some (some dc) ∧
      prevStep.fp[p]? = some (some fp) ∧ prevStep.dpm[p]? = some (some dp) ∧ dfpMin thr p = some lo ∧
      ddpmOf dc dp < ddpmMax thr p ∧ fc - fp < dfpMax thr p ∧ lo < fc - fp := by
  obtain ⟨x, hx⟩ := carry_within_thresholds (slotsOf s0) (mkSteps s0 rest) t c p k rowPrev rowCur _ _
    hprev hcur (mkSteps_get rest s0 t thr prevStep cur hstep hps) hp hc
  obtain ⟨fc, dc, fp, dp, lo, h1, h2, h3, h4, h5, h6, h7, h8, _⟩ := distEntry_some _ _ _ _ _ _ _ hx
  have conv : ∀ (l : List (Option Rat)) (i : Nat) (v : Rat), l.getD i none = some v → l[i]? = some (some v) := by
    intro l i v hv
    rw [List.getD_eq_getElem?_getD] at hv
    cases hl : l[i]? with
    | none => simp [hl] at hv
    | some w => simp [hl] at hv; simp [hv]
  exact ⟨fc, dc, fp, dp, lo, conv _ _ _ h1, conv _ _ _ h2, conv _ _ _ h3, conv _ _ _ h4, h5, h6, h7, h8⟩

/-! ## the `999` sentinel and the guarded divisions

The model represents "outside the thresholds" by `none` where the code stores the number 999 and later tests
`d != 999`.  This is faithful because a genuine distance is always in `[0, 2)`; and the two divisions of the
distance formula are never by zero where the condition holds (`x/0` is never evaluated). -/

theorem absR_nonneg (x : ℚ) : 0 ≤ absR x := by
  unfold absR; split <;> linarith

theorem le_absR (x : ℚ) : x ≤ absR x ∧ -x ≤ absR x := by
  unfold absR; split <;> constructor <;> linarith

theorem le_maxR (a b : ℚ) : a ≤ maxR a b ∧ b ≤ maxR a b := by
  unfold maxR; split <;> constructor <;> linarith

/-- the direction change is never negative -/
theorem ddpmOf_nonneg (dcur dprev : ℚ) : 0 ≤ ddpmOf dcur dprev := absR_nonneg _

/-- inside the thresholds both denominators are positive and the distance lies in `[0, 2)`, so it can
    never be mistaken for the sentinel 999 -/
theorem dist_lt_two (thr : Thr) (p : Nat) (lo ddpm dfp : ℚ) (hdd : 0 ≤ ddpm) (h : within thr p lo ddpm dfp) :
    0 < maxR (dfpMax thr p) (absR lo) ∧ 0 < ddpmMax thr p ∧
    0 ≤ distVal thr p lo ddpm dfp ∧ distVal thr p lo ddpm dfp < 2 := by
  obtain ⟨h1, h2, h3⟩ := h
  have hM := le_maxR (dfpMax thr p) (absR lo)
  have hlo := le_absR lo
  have hdf := le_absR dfp
  have habs : absR dfp < maxR (dfpMax thr p) (absR lo) := by
    have e : absR dfp = -dfp ∨ absR dfp = dfp := by
      unfold absR; split
      · exact Or.inl rfl
      · exact Or.inr rfl
    rcases e with e | e <;> rw [e] <;> linarith [hM.1, hM.2, hlo.1, hlo.2]
  have hMpos : 0 < maxR (dfpMax thr p) (absR lo) := lt_of_le_of_lt (absR_nonneg dfp) habs
  have hDpos : 0 < ddpmMax thr p := lt_of_le_of_lt hdd h1
  have a1 : absR dfp / maxR (dfpMax thr p) (absR lo) < 1 := (div_lt_one hMpos).2 habs
  have a0 : 0 ≤ absR dfp / maxR (dfpMax thr p) (absR lo) := div_nonneg (absR_nonneg _) (le_of_lt hMpos)
  have b1 : ddpm / ddpmMax thr p < 1 := (div_lt_one hDpos).2 h1
  have b0 : 0 ≤ ddpm / ddpmMax thr p := div_nonneg hdd (le_of_lt hDpos)
  refine ⟨hMpos, hDpos, ?_, ?_⟩ <;> unfold distVal <;> linarith

/-- every non-sentinel entry of the code's distance matrix lies in `[0, 2)` -/
theorem distEntry_lt_two (thr : Thr) (p : Nat) (fcur dcur fprev dprev : Option Rat) (x : Rat)
    (h : distEntry thr p fcur dcur fprev dprev = some x) : 0 ≤ x ∧ x < 2 := by
  obtain ⟨fc, dc, fp, dp, lo, _, _, _, _, _, h6, h7, h8, rfl⟩ := distEntry_some _ _ _ _ _ _ _ h
  exact (dist_lt_two thr p lo _ _ (ddpmOf_nonneg dc dp) ⟨h6, h7, h8⟩).2.2

/-! ## tie to the source text (T-tier): numeric literals regenerated from `tracking.py` on every run

`Gen.lits_*` list the numeric literals of the functions in source order; index/shape literals `0`, `1` are
dropped.  What remains are the markers, the wrap constants, the sentinel and the defaults; a changed
literal in the repository breaks these obligations. -/

theorem lits_match_consecutive :
    Gen.lits_tracking_match.filter (fun x => decide (1 < x)) =
      [((-emptyMarker : Int) : ℚ), halfTurn, fullTurn, halfTurn, farSentinel, farSentinel,
       ((-unmatchedMarker : Int) : ℚ)] := by decide +kernel

/-- defaults `ddpm_sea_max=30, ddpm_swell_max=20, dfp_swell_source_distance=1e6`, `times[:2]`, markers -/
theorem lits_np_track :
    Gen.lits_tracking_np_track.filter (fun x => decide (1 < x)) =
      [30, 20, 1000000, 2, ((-emptyMarker : Int) : ℚ), ((-unmatchedMarker : Int) : ℚ),
       ((-emptyMarker : Int) : ℚ)] := by decide +kernel

/-- `dfp_swell = dt·g / (4·π·distance)`, default distance `1e6` -/
theorem lits_dfp_swell : Gen.lits_tracking_dfp_swell = [1000000, 4] := by decide +kernel

/-! ## non-vacuity: the hypotheses of the theorems above are satisfiable on a concrete history

Two partitions, three steps.  Step 1 keeps system 0 (slot 0 → slot 0) and loses system 1; at step 2 a
new system appears in slot 1: ids `[[0,1],[0,-],[0,2]]`, `N = 3`. -/

/-- same slot index ⇒ distance 0; different slots are outside the thresholds -/
def exDist : Dist := fun c p => if c = p then some 0 else none
def exSteps : List (Dist × List Slot) := [(exDist, [true, false]), (exDist, [true, true])]

example : (track [true, true] exSteps).1 = [[some 0, some 1], [some 0, none], [some 0, some 2]] ∧
    (track [true, true] exSteps).2 = 3 := by decide

/-- hypotheses of `carry_within_thresholds` / `prev_continued_at_most_once` (id 0, slot 0 → slot 0, t = 0) -/
example : ∃ rowPrev rowCur d s, (track [true, true] exSteps).1[0]? = some rowPrev ∧
    (track [true, true] exSteps).1[0 + 1]? = some rowCur ∧ exSteps[0]? = some (d, s) ∧
    rowPrev[0]? = some (some 0) ∧ rowCur[0]? = some (some 0) :=
  ⟨[some 0, some 1], [some 0, none], exDist, [true, false], by decide, by decide, rfl, rfl, rfl⟩

/-- hypotheses of `no_resurrection` (id 1: present at t0 = 0, absent at t = 1, t' = 2) and of `fresh_is_new` -/
example : ∃ r0 r r', (track [true, true] exSteps).1[0]? = some r0 ∧ (track [true, true] exSteps).1[1]? = some r ∧
    (track [true, true] exSteps).1[2]? = some r' ∧ 0 ≤ 1 ∧ 1 ≤ 2 ∧ some 1 ∈ r0 ∧ some 1 ∉ r :=
  ⟨[some 0, some 1], [some 0, none], [some 0, some 2], by decide, by decide, by decide, by decide, by decide,
    by decide, by decide⟩

example : ∃ rowPrev rowCur row0, (track [true, true] exSteps).1[1]? = some rowPrev ∧
    (track [true, true] exSteps).1[1 + 1]? = some rowCur ∧ (track [true, true] exSteps).1[0]? = some row0 ∧ 0 ≤ 1 ∧
    rowCur[1]? = some (some 2) ∧ some 2 ∉ rowPrev ∧ some 1 ∈ row0 :=
  ⟨[some 0, none], [some 0, some 2], [some 0, some 1], by decide, by decide, by decide, by decide, by decide,
    by decide, by decide⟩

/-- hypotheses of `first_match_is_nearest` and `first_unmatched_has_no_candidate` -/
example : (matchConsecutive exDist [true, true] (true :: [false]))[0]? = some (Match.prev 0) := by decide
example : (matchConsecutive (fun _ _ => none) [true, true] (true :: [false]))[0]? = some Match.fresh := by decide

/-- hypotheses of `unmatched_only_if_candidates_taken`: both current slots are near predecessor 0 only -/
example : (matchConsecutive (fun _ p => if p = 0 then some 0 else none) [true, false] [true, true])[1]? = some Match.fresh ∧
    ([true, false] : List Slot)[0]? = some true := by decide

/-- hypotheses of `distEntry_some`: sea thresholds (-1/100, 1/200), 30°/20°; 355° → 5° is a 10° change -/
def exThr : Thr := ⟨some (-1 / 100), 1 / 200, 30, 20⟩
example : ∃ x, distEntry exThr 0 (some (1 / 10)) (some 5) (some (13 / 125)) (some 355) = some x :=
  Option.isSome_iff_exists.1 (by decide +kernel)

/-- hypotheses of `dist_lt_two` -/
example : (0 : ℚ) ≤ 10 ∧ within exThr 0 (-1 / 100) 10 (1 / 10 - 13 / 125) := by decide +kernel

/-- hypotheses of `carry_within_thresholds_data` on a two-step data history -/
def exS0 : Step := ⟨[some (13 / 125), none], [some 355, none]⟩
def exS1 : Step := ⟨[some (1 / 10), some (1 / 5)], [some 5, some 90]⟩
example : ∃ rowPrev rowCur, (trackData exS0 [(exThr, exS1)]).1[0]? = some rowPrev ∧
    (trackData exS0 [(exThr, exS1)]).1[0 + 1]? = some rowCur ∧
    [(exThr, exS1)][0]? = some (exThr, exS1) ∧ (exS0 :: [(exThr, exS1)].map (·.2))[0]? = some exS0 ∧
    rowPrev[0]? = some (some 0) ∧ rowCur[0]? = some (some 0) :=
  ⟨[some 0, none], [some 0, some 1], by decide +kernel, by decide +kernel, rfl, rfl, rfl, rfl⟩

/-- hypothesis of `sites_unaffected_by_other_sites` -/
example : ([(exS0, [(exThr, exS1)]), (exS1, [])] : List (Step × List (Thr × Step)))[0]? =
    ([(exS1, []), (exS0, [(exThr, exS1)])] : List (Step × List (Thr × Step)))[1]? := rfl

/-! ## T-tier: regenerated kernels

`tracking.dfp_swell` and the arithmetic of the thresholded distance matrix of `match_consecutive_partitions`
(`ddpm` wrap, `dfp`, the three threshold vectors, the `np.where` condition and value, the sentinel that the
candidate filter tests) are regenerated entry by entry into `Gen/NpKernels.lean` (`Gen.matchDist`) and identified
with `distEntry` for all finite operands. -/

theorem gen_dfp_swell_eq (pi g dt distance : ℚ) :
    Gen.dfpSwell pi g dt distance = Track.dfpSwell pi g dt distance ∧
    Gen.dfpSwell_distance_default = Track.swellDistanceDefault := ⟨rfl, by decide +kernel⟩

/-- `partition_distance[c, p]` of `match_consecutive_partitions`, regenerated entry by entry, is `distEntry` on
    finite operands -/
theorem gen_dist_eq (thr : Thr) (lo : ℚ) (hlo : thr.dfpSea = some lo) (p : Nat) (fc dc fp dp : ℚ) :
    Gen.matchDist lo thr.dfpSwell thr.ddpmSea thr.ddpmSwell p fc dc fp dp =
      distEntry thr p (some fc) (some dc) (some fp) (some dp) := by
  unfold Gen.matchDist distEntry
  by_cases hp : p = 0
  · subst hp
    simp only [dfpMin, hlo, if_true, within, distVal, ddpmMax, dfpMax, ddpmOf, halfTurn, fullTurn, gt_iff_lt,
      Bool.and_eq_true, decide_eq_true_eq]
  · simp only [dfpMin, hp, if_false, within, distVal, ddpmMax, dfpMax, ddpmOf, halfTurn, fullTurn, gt_iff_lt,
      Bool.and_eq_true, decide_eq_true_eq]

theorem gen_dist_sentinel : Gen.matchDist_sentinel = farSentinel := by decide +kernel

/-- swell predecessors (`p ≠ 0`) do not read the sea threshold at all (it may be NaN) -/
theorem gen_dist_swell_eq (thr : Thr) (lo : ℚ) (p : Nat) (hp : p ≠ 0) (fc dc fp dp : ℚ) :
    Gen.matchDist lo thr.dfpSwell thr.ddpmSea thr.ddpmSwell p fc dc fp dp =
      distEntry thr p (some fc) (some dc) (some fp) (some dp) := by
  unfold Gen.matchDist distEntry
  simp only [dfpMin, hp, if_false, within, distVal, ddpmMax, dfpMax, ddpmOf, halfTurn, fullTurn, gt_iff_lt,
    Bool.and_eq_true, decide_eq_true_eq]

/-- hypotheses of `gen_dist_eq` / `gen_dist_swell_eq` are satisfiable; the generated kernel on the 355° → 5° case -/
example : exThr.dfpSea = some (-1 / 100) ∧ (1 : Nat) ≠ 0 ∧
    (Gen.matchDist (-1 / 100) (1 / 200) 30 20 0 (1 / 10) 5 (13 / 125) 355).isSome = true := by decide +kernel

end WS.C19

import WsVerif.Model.IO.Instruments
import WsVerif.Lemmas.Sums
import WsVerif.Lemmas.Instruments
import WsVerif.Gen.Lits
import WsVerif.Gen.NpKernels
import WsVerif.Props.C10
import Mathlib.Data.Rat.Floor
import Mathlib.Tactic.NormNum
import Mathlib.Tactic.FieldSimp
import Mathlib.Tactic.Ring
import Mathlib.Tactic.Linarith
import Mathlib.Data.List.Perm.Basic
/-!
# C13 — instrument file readers: the numeric contract

Property theorems only, on `Model/IO/Instruments.lean`.  Tokenisation and number/time parsing are not
decided here (DESIGN §1.5-3; carried by the differential check with reference encoders).  `pi` is a
symbolic parameter; trig/power tables are quantified over, with the hypotheses they need stated.
-/
namespace WS.C13
open WS WS.Instr

/-! ## Cartwright normalisation, Spotter / Datawell -/

/-- `Σ_j G_j Δθ = 1` for every table `g` with non-zero sum, any number `n` of directions with
    `n·Δθ = 360`, any non-zero `π` -/
theorem cartwright_normalised (pi dd : ℚ) (g : Vec) (hpi : pi ≠ 0) (hsum : g.sum ≠ 0)
    (hn : (g.length : ℚ) * dd = 360) :
    ∃ G, cartwrightRow pi g = some G ∧ integ dd G = 1 := by
  have hlen : (g.length : ℚ) ≠ 0 := by
    intro h; rw [h] at hn; norm_num at hn
  have htot : g.sum * (2 * pi / (g.length : ℚ)) ≠ 0 := by
    apply mul_ne_zero hsum
    apply div_ne_zero _ hlen
    exact mul_ne_zero (by norm_num) hpi
  refine ⟨g.map fun x => x * (1 / (g.sum * (2 * pi / (g.length : ℚ)))) / r2d pi, ?_, ?_⟩
  · unfold cartwrightRow; simp only [htot, if_false]
  · unfold integ r2d
    rw [sum_map_affine]
    have hdd : dd = 360 / (g.length : ℚ) := by field_simp; linarith
    rw [hdd]; field_simp; norm_num

/-- the normalised spreading function is non-negative when the table is -/
theorem cartwright_nonneg (pi : ℚ) (g G : Vec) (hpi : 0 < pi) (hg : ∀ x ∈ g, 0 ≤ x)
    (h : cartwrightRow pi g = some G) : ∀ y ∈ G, 0 ≤ y := by
  unfold cartwrightRow at h
  by_cases ht : g.sum * (2 * pi / (g.length : ℚ)) = 0
  · simp [ht] at h
  · simp only [ht, if_false, Option.some.injEq] at h
    subst h
    intro y hy
    rw [List.mem_map] at hy
    obtain ⟨x, hx, rfl⟩ := hy
    have hs : 0 ≤ g.sum := List.sum_nonneg hg
    have hl : (0 : ℚ) ≤ (g.length : ℚ) := Nat.cast_nonneg _
    have htot : 0 ≤ g.sum * (2 * pi / (g.length : ℚ)) :=
      mul_nonneg hs (div_nonneg (by linarith) hl)
    have : 0 ≤ r2d pi := by unfold r2d; exact div_nonneg (by norm_num) (le_of_lt hpi)
    exact div_nonneg (mul_nonneg (hg x hx) (div_nonneg (by norm_num) htot)) this

/-- one frequency of a Spotter/Datawell record: integrating `efth_i·G_i(θ)` over direction gives back
    `efth_i` -/
theorem spreadRow_integrates (pi dd ef : ℚ) (g : Vec) (hpi : pi ≠ 0) (hsum : g.sum ≠ 0)
    (hn : (g.length : ℚ) * dd = 360) :
    (spreadRow pi ef g).map (integ dd) = some ef := by
  obtain ⟨G, hG, hint⟩ := cartwright_normalised pi dd g hpi hsum hn
  unfold spreadRow
  rw [hG]
  simp only [Option.map_some]
  unfold integ at *
  rw [sum_map_lmul]
  have : dd * (ef * G.sum) = ef * (dd * G.sum) := by ring
  rw [this, hint, mul_one]

/-- **Spotter**: for every record, integrating the constructed 2-D spectrum over direction gives back
    the file's frequency spectrum, at every frequency -/
theorem spotter_integrates_back (pi dd : ℚ) (efs : Vec) (gs : Mat) (hpi : pi ≠ 0)
    (hlen : gs.length = efs.length)
    (hrows : ∀ g ∈ gs, g.sum ≠ 0 ∧ (g.length : ℚ) * dd = 360) :
    (build2d pi efs gs).map (Option.map (integ dd)) = efs.map some := by
  unfold build2d
  induction efs generalizing gs with
  | nil => simp
  | cons e es ih =>
    cases gs with
    | nil => simp at hlen
    | cons g gt =>
      simp only [List.zipWith_cons_cons, List.map_cons]
      have hg := hrows g (by simp)
      rw [spreadRow_integrates pi dd e g hpi hg.1 hg.2]
      rw [ih gt (by simpa using hlen) (fun g' hg' => hrows g' (by simp [hg']))]

/-- **Datawell**: same with `efth = relative psd · smax` -/
theorem datawell_integrates_back (pi dd smax : ℚ) (rel : Vec) (gs : Mat) (hpi : pi ≠ 0)
    (hlen : gs.length = rel.length)
    (hrows : ∀ g ∈ gs, g.sum ≠ 0 ∧ (g.length : ℚ) * dd = 360) :
    (build2d pi (datawellEf smax rel) gs).map (Option.map (integ dd)) =
      (rel.map fun x => some (x * smax)) := by
  rw [spotter_integrates_back pi dd (datawellEf smax rel) gs hpi
    (by unfold datawellEf; simpa using hlen) hrows]
  unfold datawellEf; simp

/-- requesting the 1-D form (`dd=None`) returns the file's frequency spectrum itself -/
theorem oned_request_unchanged (pi : ℚ) (efs : Vec) (gs : Mat) :
    spotterRead pi none efs gs = .oneD efs := rfl

theorem oned_request_unchanged_datawell (pi smax : ℚ) (rel : Vec) (gs : Mat) :
    datawellRead pi none smax rel gs = .oneD (rel.map fun x => x * smax) := rfl

/-- and the 2-D request is the constructed spectrum whose direction integral is that 1-D form -/
theorem twod_consistent_with_oned (pi dd : ℚ) (efs : Vec) (gs : Mat) (hpi : pi ≠ 0)
    (hlen : gs.length = efs.length)
    (hrows : ∀ g ∈ gs, g.sum ≠ 0 ∧ (g.length : ℚ) * dd = 360) :
    ∃ rows, spotterRead pi (some dd) efs gs = .twoD rows ∧
      rows.map (Option.map (integ dd)) = efs.map some ∧ spotterRead pi none efs gs = .oneD efs :=
  ⟨build2d pi efs gs, rfl, spotter_integrates_back pi dd efs gs hpi hlen hrows, rfl⟩

/-! ## NDBC ASCII -/

/-- **NDBC ASCII**: `Σ_j S(f,θ_j) Δθ = spden(f)` whenever the first- and second-harmonic tables sum to
    zero over the direction bins (true on every uniform full circle with at least three bins) and
    `n·Δθ = 360` -/
theorem ndbc_ascii_integrates (pi dd spden r1 r2 : ℚ) (c1 c2 : Vec) (hpi : pi ≠ 0)
    (hlen : c1.length = c2.length) (h1 : c1.sum = 0) (h2 : c2.sum = 0)
    (hn : (c1.length : ℚ) * dd = 360) :
    integ dd (ndbcRow pi spden r1 r2 c1 c2) = spden := by
  unfold integ ndbcRow ndbcD d2r
  have e : (fun a b : ℚ => spden * (1 / pi * (1 / 2 + r1 * a + r2 * b) * (pi / 180))) =
      fun a b => (spden / 180) * (1 / 2 + r1 * a + r2 * b) := by
    funext a b; field_simp
  rw [e, sum_zipWith_affine _ _ _ _ c1 c2 hlen, h1, h2]
  have hl : (c1.length : ℚ) ≠ 0 := by intro h; rw [h] at hn; norm_num at hn
  have hdd : dd = 360 / (c1.length : ℚ) := by field_simp; linarith
  rw [hdd]; field_simp; ring

/-- without the trig-sum hypotheses the integral is off by exactly the harmonic sums (what the
    check sees when the caller passes fewer than three direction bins) -/
theorem ndbc_ascii_integral_general (pi dd spden r1 r2 : ℚ) (c1 c2 : Vec) (hpi : pi ≠ 0)
    (hlen : c1.length = c2.length) :
    integ dd (ndbcRow pi spden r1 r2 c1 c2) =
      spden * dd / 180 * ((c1.length : ℚ) / 2 + r1 * c1.sum + r2 * c2.sum) := by
  unfold integ ndbcRow ndbcD d2r
  have e : (fun a b : ℚ => spden * (1 / pi * (1 / 2 + r1 * a + r2 * b) * (pi / 180))) =
      fun a b => (spden / 180) * (1 / 2 + r1 * a + r2 * b) := by
    funext a b; field_simp
  rw [e, sum_zipWith_affine _ _ _ _ c1 c2 hlen]; ring

/-! ## NDBC: `r1`, `r2` of the history format -/

/-- the reader uses the file's `r1`/`r2`: printed·0.01 in the history format (hundredths), the printed
    value in the realtime format -/
theorem ndbc_r_from_file (history : Bool) (printed : ℚ) :
    ndbcR history printed = if history then printed * rHundredth else printed := rfl

/-- the code's double `0.01` is 1/100 to 2·10⁻¹⁹ -/
theorem rHundredth_close : 1 / 100 - 1 / 10 ^ 18 < rHundredth ∧ rHundredth < 1 / 100 + 1 / 10 ^ 18 := by
  unfold rHundredth; constructor <;> norm_num

/-- the direction integral does not see the scale of `r1`, `r2` (why the suite's 1-D/2-D `hs`
    comparison could not see the history-format defect repaired by abaf99d): it is `spden` for every `r1`, `r2` -/
theorem ndbc_integral_blind_to_r (pi dd spden r1 r2 r1' r2' : ℚ) (c1 c2 : Vec) (hpi : pi ≠ 0)
    (hlen : c1.length = c2.length) (h1 : c1.sum = 0) (h2 : c2.sum = 0) (hn : (c1.length : ℚ) * dd = 360) :
    integ dd (ndbcRow pi spden r1 r2 c1 c2) = integ dd (ndbcRow pi spden r1' r2' c1 c2) := by
  rw [ndbc_ascii_integrates pi dd spden r1 r2 c1 c2 hpi hlen h1 h2 hn,
    ndbc_ascii_integrates pi dd spden r1' r2' c1 c2 hpi hlen h1 h2 hn]

/-! ## WW3 station files -/

/-- **WW3 station**: `extract_direction` maps a going-to angle of `x` radians to the coming-from
    direction `(x·180/π + 180) mod 360` in degrees, for every positive `π`; the result is in `[0, 360)` -/
theorem ww3station_direction (pi x : ℚ) (hpi : 0 < pi) :
    ww3Dir pi x = pmod (x * (180 / pi) + 180) 360 ∧ 0 ≤ ww3Dir pi x ∧ ww3Dir pi x < 360 := by
  have hpi' : pi ≠ 0 := ne_of_gt hpi
  have h2pi : 0 < 2 * pi := by linarith
  have key : ww3Dir pi x = pmod (x * (180 / pi) + 180) 360 := by
    unfold ww3Dir r2d
    have hnn : 0 ≤ pmod (x - 5 / 2 * pi) (2 * pi) := (C10.pmod_range _ _ h2pi).1
    have habs : absR (pmod (x - 5 / 2 * pi) (2 * pi)) = pmod (x - 5 / 2 * pi) (2 * pi) := by
      unfold absR; rw [if_neg (not_lt.mpr hnn)]
    rw [habs]
    have hscale : pmod (x - 5 / 2 * pi) (2 * pi) * (180 / pi) = pmod (x * (180 / pi) - 450) 360 := by
      have h := pmod_mul_left (180 / pi) (x - 5 / 2 * pi) (2 * pi) (div_ne_zero (by norm_num) hpi')
        (ne_of_gt h2pi)
      have e1 : 180 / pi * (x - 5 / 2 * pi) = x * (180 / pi) - 450 := by field_simp; ring
      have e2 : 180 / pi * (2 * pi) = 360 := by field_simp; norm_num
      rw [e1, e2] at h
      rw [mul_comm, ← h]
    rw [hscale, C10.pmod_add_pmod _ _ _ (by norm_num)]
    have : x * (180 / pi) - 450 + 270 = (x * (180 / pi) + 180) - 360 := by ring
    rw [this, pmod_sub_period _ _ (by norm_num)]
  refine ⟨key, ?_⟩
  rw [key]; exact C10.pmod_range _ _ (by norm_num)

/-- the same in turns: a going-to angle of `t` turns (`x = 2π t`) is reported as `(360 t + 180) mod 360` -/
theorem ww3station_direction_turns (pi t : ℚ) (hpi : 0 < pi) :
    ww3Dir pi (2 * pi * t) = pmod (360 * t + 180) 360 := by
  rw [(ww3station_direction pi (2 * pi * t) hpi).1]
  have : 2 * pi * t * (180 / pi) = 360 * t := by field_simp; ring
  rw [this]

/-- reversing the sense is a bijection of the bins: applying the `+180` map twice is the identity mod 360 -/
theorem ww3station_direction_involutive (d : ℚ) :
    pmod (pmod (d + 180) 360 + 180) 360 = pmod d 360 := by
  rw [C10.pmod_add_pmod _ _ _ (by norm_num)]
  have : d + 180 + 180 = d + 360 := by ring
  rw [this, pmod_add_period _ _ (by norm_num)]

/-- **WW3 station** units and layout: entry `(freq i, dir j)` of the returned spectrum is the file's
    value number `i` of direction block `j`, times `π/180` (m²/Hz/rad → m²/Hz/deg) -/
theorem ww3station_transpose_units (pi : ℚ) (nf : Nat) (raw : Mat) (i j : Nat) (hi : i < nf)
    (hj : j < raw.length) :
    ((ww3Spec pi nf raw).getD i []).getD j 0 = ((raw.getD j []).getD i 0) * (pi / 180) := by
  have h1 : (ww3Spec pi nf raw).getD i [] = ((transpose nf raw).getD i []).map fun x => x * d2r pi := by
    unfold ww3Spec
    simp [List.getD_eq_getElem?_getD, transpose, hi]
  rw [h1, getD_transpose nf raw i hi]
  simp [List.getD_eq_getElem?_getD, hj, d2r]

/-- shape: `nf` rows of one value per direction block -/
theorem ww3station_shape (pi : ℚ) (nf : Nat) (raw : Mat) :
    (ww3Spec pi nf raw).length = nf ∧ ∀ r ∈ ww3Spec pi nf raw, r.length = raw.length := by
  unfold ww3Spec transpose
  constructor
  · simp
  · intro r hr
    simp only [List.mem_map, List.mem_range] at hr
    obtain ⟨a, ⟨k, _, rfl⟩, rfl⟩ := hr
    simp

/-- the variance of a WW3 station record is kept: integrating the result over direction in degrees
    equals integrating the file's values in radians -/
theorem ww3station_units_integral (pi dd : ℚ) (row : Vec) :
    integ dd (row.map fun x => x * d2r pi) = integ (dd * (pi / 180)) row := by
  unfold integ d2r
  have : (row.map fun x => x * (pi / 180)) = row.map fun x => x * pi / 180 := by
    congr 1; funext x; ring
  rw [this, sum_map_affine]; ring

/-! ## Obscape, XWaves -/

/-- **Obscape**: values are the file's times `π/180`, so that the integral over direction in degrees
    equals the file's integral in radians -/
theorem obscape_units (pi dd : ℚ) (row : Vec) :
    obscapeRow pi row = row.map (fun x => x * pi / 180) ∧
      integ dd (obscapeRow pi row) = integ (dd * (pi / 180)) row := by
  refine ⟨rfl, ?_⟩
  unfold integ obscapeRow
  rw [sum_map_affine]; ring

/-- **XWaves**: dividing by `R2D` is the same conversion -/
theorem xwaves_units (pi dd : ℚ) (row : Vec) (hpi : pi ≠ 0) :
    xwavesRow pi row = obscapeRow pi row ∧ integ dd (xwavesRow pi row) = integ (dd * (pi / 180)) row := by
  have e : xwavesRow pi row = obscapeRow pi row := by
    unfold xwavesRow obscapeRow r2d
    congr 1; funext x; field_simp
  refine ⟨e, ?_⟩
  rw [e]; exact (obscape_units pi dd row).2

/-! ## sorting: by time, and SWAN's `dirorder` -/


/-- **sorted by time**: the records come out in non-decreasing time order and are exactly the input
    records (as a multiset: nothing dropped, duplicated or altered) -/
theorem sorted_by_time {α : Type} (recs : List (Int × α)) :
    (sortByTime recs).Perm recs ∧ (sortByTime recs).Pairwise (fun a b => a.1 ≤ b.1) :=
  ⟨sortBy_perm _ recs, sortBy_sorted (fun a b => le_total a b) (fun _ _ _ => le_trans) _ recs⟩

/-! ## SWAN ASCII -/

/-- **SWAN `dirorder`**: with `d = dirs % 360`, the returned labels are `d` re-ordered by
    `σ = argsort d`; `σ` is a permutation of the bins, the labels come out sorted and in `[0,360)`,
    and every row of every FACTOR block is re-ordered by the same `σ`, so each (direction, value) pair
    of the file survives -/
theorem swan_dirorder_consistent (d0 : Vec) (row : Vec) (hlen : row.length = d0.length) :
    ∃ σ, swanDirmap true d0 = some σ ∧ σ.Perm (List.range d0.length) ∧
      swanDirs true d0 = takeIdx (d0.map fun x => pmod x 360) σ ∧
      (swanDirs true d0).Pairwise (· ≤ ·) ∧ (∀ x ∈ swanDirs true d0, 0 ≤ x ∧ x < 360) ∧
      (List.zip (swanDirs true d0) (takeIdx row σ)).Perm (List.zip (d0.map fun x => pmod x 360) row) := by
  let d := d0.map fun x => pmod x 360
  have hd : d.length = d0.length := by simp [d]
  have hdirs : swanDirs true d0 = takeIdx d (argsort d) := by
    unfold swanDirs swanDirmap takeIdx
    simp only [if_true, List.map_map]
    apply List.map_congr_left
    intro k _
    simp [d, List.getD_eq_getElem?_getD]
    cases h : d0[k]? with
    | none =>
      simp only [Option.map_none, Option.getD_none, pmod]
      have : ((0 : ℚ) / 360).floor = 0 := by rw [zero_div]; exact Int.floor_zero (R := ℚ)
      rw [this]; simp
    | some v => simp
  refine ⟨argsort d, by simp [swanDirmap, d], ?_, hdirs, ?_, ?_, ?_⟩
  · have := argsort_perm d; rwa [hd] at this
  · rw [hdirs]; exact argsort_sorted d
  · intro x hx
    rw [hdirs] at hx
    unfold takeIdx at hx
    rw [List.mem_map] at hx
    obtain ⟨k, hk, rfl⟩ := hx
    have hkl : k < d.length := by
      have := (argsort_perm d).mem_iff.mp hk
      simpa using this
    have hmem : d.getD k 0 ∈ d := by
      simp [List.getD_eq_getElem?_getD, hkl]
    simp only [d, List.mem_map] at hmem
    obtain ⟨y, _, hy⟩ := hmem
    have := C10.pmod_range y 360 (by norm_num)
    simp only [d] at *
    rw [← hy]; exact this
  · rw [hdirs]; exact argsort_pairs d row (by rw [hlen, hd])

/-- without `dirorder` nothing is re-ordered: labels as in the header, rows as in the file -/
theorem swan_no_dirorder (d0 : Vec) : swanDirmap false d0 = none ∧ swanDirs false d0 = d0 := ⟨rfl, rfl⟩

/-- `to_nautical` (CDIR headers): result in `[0,360)`, and the map is an involution mod 360 -/
theorem swan_to_nautical (a : ℚ) :
    0 ≤ toNautical a ∧ toNautical a < 360 ∧ toNautical (toNautical a) = pmod a 360 := by
  unfold toNautical
  refine ⟨(C10.pmod_range _ _ (by norm_num)).1, (C10.pmod_range _ _ (by norm_num)).2, ?_⟩
  have h1 : (270 : ℚ) - pmod (270 - a) 360 = -(pmod (270 - a) 360) + 270 := by ring
  -- pmod (270 - pmod (270 - a) 360) 360 = pmod a 360
  unfold pmod
  have hfl : ((270 - (270 - a - 360 * (((270 - a) / 360).floor : ℚ))) / 360).floor =
      (a / 360).floor + ((270 - a) / 360).floor := by
    have e : (270 - (270 - a - 360 * (((270 - a) / 360).floor : ℚ))) / 360 =
        a / 360 + ((((270 - a) / 360).floor : ℤ) : ℚ) := by ring
    rw [e]; exact Int.floor_add_intCast (a / 360) ((270 - a) / 360).floor
  rw [hfl]; push_cast; ring

/-- **SWAN blocks**: a FACTOR block decodes to `int·factor` (divided by the unit factor), ZERO to all
    zeros, NODATA to all missing; the shapes are those of the header -/
theorem swan_factor_block (nf nd : Nat) (uf fac : ℚ) (vals : List (List Int)) :
    decodeBlock nf nd none uf (.factor fac vals) =
        vals.map (fun row => row.map fun (v : Int) => some ((v : ℚ) * fac / uf)) ∧
      decodeBlock nf nd none uf .zero = List.replicate nf (List.replicate nd (some 0)) ∧
      decodeBlock nf nd none uf .nodata = List.replicate nf (List.replicate nd none) := by
  refine ⟨?_, ?_, rfl⟩
  · unfold decodeBlock; simp [List.map_map, Function.comp]
  · unfold decodeBlock; simp

/-- with `dirorder`, column `p` of a decoded FACTOR row is the file's column `σ p`, times the factor -/
theorem swan_factor_block_dirorder (nf nd : Nat) (uf fac : ℚ) (σ : List Nat) (vals : List (List Int)) :
    decodeBlock nf nd (some σ) uf (.factor fac vals) =
      vals.map (fun row => σ.map fun k => some ((row.map fun (v : Int) => (v : ℚ) * fac).getD k 0 / uf)) := by
  unfold decodeBlock takeIdx; simp [List.map_map, Function.comp]

/-- ENERGY units (`J/m2/Hz/degr`): every decoded value is the VaDens decoding divided by `E2V` -/
theorem swan_energy_units (nf nd : Nat) (e2v fac : ℚ) (dirmap : Option (List Nat)) (vals : List (List Int)) :
    decodeBlock nf nd dirmap (swanUnitsFactor e2v true) (.factor fac vals) =
      (decodeBlock nf nd dirmap (swanUnitsFactor e2v false) (.factor fac vals)).map
        (fun row => row.map (Option.map (· / e2v))) := by
  unfold decodeBlock swanUnitsFactor
  simp [List.map_map, Function.comp]

/-! ## TRIAXYS grids -/

/-- **TRIAXYS frequencies**: exactly the header's `nf` entries `f0 + i·df` -/
theorem triaxys_grid (f0 df : ℚ) (nf : Nat) :
    triaxysFreqs f0 df nf = (List.range nf).map (fun (i : Nat) => f0 + (i : ℚ) * df) ∧
      (triaxysFreqs f0 df nf).length = nf := by
  unfold triaxysFreqs
  refine ⟨?_, by simp⟩
  apply List.map_congr_left; intro i _; ring

/-- **TRIAXYS directions**: with `k·ddir = 360` the direction axis is `0, ddir, …, 360` (`k+1` columns,
    the file's `0.00 TO 360.00 DEG`) -/
theorem triaxys_dirs (ddir : ℚ) (k : Nat) (hd : 0 < ddir) (hk : (k : ℚ) * ddir = 360) :
    triaxysDirs ddir = (List.range (k + 1)).map fun (i : Nat) => (i : ℚ) * ddir := by
  unfold triaxysDirs arange arangeLen
  rw [if_neg (ne_of_gt hd), if_neg (not_le.mpr hd)]
  have : (360 + ddir - 0) / ddir = ((k + 1 : Nat) : ℚ) := by
    rw [← hk]; field_simp; push_cast; ring
  rw [this, neg_floor_neg_nat]
  simp

/-! ## sorted by time, every reader -/

/-- the property's clause for one reader and one list of files (in visiting order): the records come
    back sorted by time, none lost, duplicated or relabelled -/
def SortedByTime {α : Type} (fmt : Fmt) (files : List (List (Int × α))) : Prop :=
  (readerOrder fmt files).Perm files.flatten ∧ (readerOrder fmt files).Pairwise (fun a b => a.1 ≤ b.1)

theorem flatten_map_sort_perm {α : Type} (fs : List (List (Int × α))) :
    ((fs.map sortByTime).flatten).Perm fs.flatten := by
  induction fs with
  | nil => simp
  | cons f t ih =>
    simp only [List.map_cons, List.flatten_cons]
    exact List.Perm.append (sorted_by_time f).1 ih

/-- **sorted by time, all readers**: every reader, every order of records and files -/
theorem sorted_by_time_all {α : Type} (fmt : Fmt) (files : List (List (Int × α))) : SortedByTime fmt files := by
  cases fmt
  case spotter =>
    exact ⟨(sorted_by_time _).1.trans (flatten_map_sort_perm files), (sorted_by_time _).2⟩
  all_goals exact ⟨(sorted_by_time files.flatten).1, (sorted_by_time files.flatten).2⟩

/-! ## SWAN: positions of a gridded file -/

/-- **SWAN grid positions**: whatever the order in which the file lists the grid nodes, a spectrum
    shown at (lat `a`, lon `b`) is one the file gives for the node `(b, a)` -/
theorem swan_grid_positions (locs : List (Nat × Nat)) (a b k : Nat) (h : swanGridAt locs a b = some k) :
    locs[k]? = some (b, a) := by
  unfold swanGridAt at h
  rw [Option.map_eq_some_iff] at h
  obtain ⟨p, hp, rfl⟩ := h
  have hm := List.mem_of_getLast? hp
  rw [List.mem_filter] at hm
  have h1 := List.mem_zipIdx_iff_getElem?.mp hm.1
  have h2 : p.1 = (b, a) := by simpa using hm.2
  rw [h1, h2]

/-- and every location listed once is shown at its own node: nothing is lost or displaced -/
theorem swan_grid_positions_complete (locs : List (Nat × Nat)) (hnd : locs.Nodup) (k : Nat) (hk : k < locs.length) :
    swanGridAt locs (locs[k]).2 (locs[k]).1 = some k := by
  unfold swanGridAt
  have hmem : (locs[k], k) ∈ locs.zipIdx.filter fun p => p.1 = ((locs[k]).1, (locs[k]).2) := by
    rw [List.mem_filter]
    refine ⟨List.mem_zipIdx_iff_getElem?.mpr (by simp [hk]), by simp⟩
  cases hl : (locs.zipIdx.filter fun p => p.1 = ((locs[k]).1, (locs[k]).2)).getLast? with
  | none =>
    rw [List.getLast?_eq_none_iff] at hl
    rw [hl] at hmem; simp at hmem
  | some p =>
    have hm := List.mem_of_getLast? hl
    rw [List.mem_filter] at hm
    have h1 := List.mem_zipIdx_iff_getElem?.mp hm.1
    have h2 : p.1 = locs[k] := by simpa using hm.2
    have hp2 : p.2 < locs.length := by
      rcases Nat.lt_or_ge p.2 locs.length with h | h
      · exact h
      · rw [List.getElem?_eq_none h] at h1; simp at h1
    rw [List.getElem?_eq_getElem hp2, Option.some.injEq, h2] at h1
    have := (List.Nodup.getElem_inj_iff hnd).mp h1
    simp [this]

/-! ## code as found (before the repairs): the statements that were false, kept for the record -/

/-- NDBC history `r1`/`r2` (before abaf99d): a history file printing `59` (r1 = 0.59) was used as `59` -/
theorem asfound_ndbc_r_fails :
    ¬ ∀ (history : Bool) (printed : ℚ), ndbcRAsFound history printed = if history then printed / 100 else printed := by
  intro h
  have := h true 59
  simp only [ndbcRAsFound, if_true] at this
  norm_num at this

/-- TRIAXYS (before 56dc430): `arange(f0, f0+df·nf, df)` is the same list in exact arithmetic — the
    defect (`nf+1` entries) was one of floating point only -/
theorem asfound_triaxys_grid (f0 df : ℚ) (nf : Nat) (hdf : 0 < df) :
    triaxysFreqsAsFound f0 df nf = triaxysFreqs f0 df nf := by
  unfold triaxysFreqsAsFound triaxysFreqs arange arangeLen
  rw [if_neg (not_le.mpr hdf)]
  have : (f0 + df * (nf : ℚ) - f0) / df = (nf : ℚ) := by field_simp; ring
  rw [this, neg_floor_neg_nat]
  apply List.map_congr_left; intro i _; ring

def SortedByTimeAsFound {α : Type} (fmt : Fmt) (files : List (List (Int × α))) : Prop :=
  ∃ out, readerOrderAsFound fmt files = .ok out ∧ out.Perm files.flatten ∧ out.Pairwise (fun a b => a.1 ≤ b.1)

/-- before the repairs the clause held for every reader only on records already in increasing order -/
theorem asfound_sorted_by_time_partial {α : Type} (fmt : Fmt) (files : List (List (Int × α)))
    (h : files.flatten.Pairwise (fun a b => a.1 < b.1)) :
    SortedByTimeAsFound fmt files := by
  have hle : files.flatten.Pairwise (fun a b => a.1 ≤ b.1) := h.imp (fun h => le_of_lt h)
  have hsort : SortedByTimeAsFound (α := α) .ndbc files ∧ True :=
    ⟨⟨_, rfl, (sorted_by_time files.flatten).1, (sorted_by_time files.flatten).2⟩, trivial⟩
  cases fmt
  case ndbc => exact hsort.1
  case datawell => exact ⟨_, rfl, (sorted_by_time files.flatten).1, (sorted_by_time files.flatten).2⟩
  case obscape => exact ⟨_, rfl, (sorted_by_time files.flatten).1, (sorted_by_time files.flatten).2⟩
  case triaxys => exact ⟨_, rfl, List.Perm.refl _, hle⟩
  case swan => exact ⟨_, rfl, List.Perm.refl _, hle⟩
  case xwaves => exact ⟨_, rfl, List.Perm.refl _, hle⟩
  case spotter =>
    refine ⟨_, rfl, flatten_map_sort_perm files, ?_⟩
    have hs : ∀ fs : List (List (Int × α)), fs.flatten.Pairwise (fun a b => a.1 ≤ b.1) →
        (fs.map sortByTime) = fs := by
      intro fs hfs
      induction fs with
      | nil => rfl
      | cons f t ih =>
        simp only [List.flatten_cons, List.pairwise_append] at hfs
        simp only [List.map_cons]
        rw [ih hfs.2.1]
        congr 1
        exact sortBy_of_sorted _ f hfs.1
    rw [hs files hle]; exact hle
  case ww3station =>
    have hts : (files.flatten.map (·.1)).Pairwise (· < ·) := List.pairwise_map.mpr h
    have hts' : (files.flatten.map (·.1)).Pairwise (fun a b => (fun t : Int => t) a ≤ (fun t : Int => t) b) :=
      hts.imp (fun h => le_of_lt h)
    refine ⟨files.flatten, ?_, List.Perm.refl _, hle⟩
    unfold readerOrderAsFound
    dsimp only
    rw [sortBy_of_sorted (fun t : Int => t) _ hts', dedupAdj_of_strict _ hts]
    rw [if_pos (List.length_map _), zip_fst_snd]

/-- and failed otherwise: SWAN kept `(2,"a"), (1,"b")` as they were -/
theorem asfound_sorted_by_time_all_fails :
    ¬ ∀ (fmt : Fmt) (files : List (List (Int × String))), SortedByTimeAsFound fmt files := by
  intro h
  obtain ⟨out, h1, _, h3⟩ := h .swan [[(2, "a"), (1, "b")]]
  simp only [readerOrderAsFound, List.flatten_cons, List.flatten_nil, List.append_nil, Except.ok.injEq] at h1
  subst h1
  simp at h3

/-- the WW3 station reader re-labelled: `(2,"a"), (1,"b")` came back as `(1,"a"), (2,"b")` -/
theorem asfound_ww3station_relabels :
    readerOrderAsFound .ww3station [[((2 : Int), "a"), (1, "b")]] = .ok [(1, "a"), (2, "b")] ∧
      ¬ ([((1 : Int), "a"), (2, "b")]).Perm [(2, "a"), (1, "b")] := by
  constructor
  · decide +kernel
  · intro h
    have := h.mem_iff (a := ((1 : Int), "a"))
    simp at this

/-- SWAN grid (before 1f147c9): right for longitude-major listings … -/
theorem asfound_swan_grid_positions_partial (nlat : Nat) (a b : Nat) (ha : a < nlat) :
    (fun k => (k / nlat, k % nlat)) (swanGridPosAsFound nlat a b) = (b, a) := by
  unfold swanGridPosAsFound
  have hn : 0 < nlat := Nat.lt_of_le_of_lt (Nat.zero_le _) ha
  simp only [Prod.mk.injEq]
  constructor
  · rw [Nat.mul_comm, Nat.mul_add_div hn, Nat.div_eq_of_lt ha, Nat.add_zero]
  · rw [Nat.mul_comm, Nat.mul_add_mod, Nat.mod_eq_of_lt ha]

/-- … wrong for latitude-major ones (as SWAN and `to_swan` write them): on a 2×2 grid the spectrum shown
    at (lat 0, lon 1) was the file's location 2, which is node (lon 0, lat 1) -/
theorem asfound_swan_grid_positions_fails :
    ¬ ∀ (nlat nlon : Nat) (loc : Nat → Nat × Nat),
        (∀ a < nlat, ∀ b < nlon, ∃ k < nlat * nlon, loc k = (b, a)) →
        ∀ a < nlat, ∀ b < nlon, loc (swanGridPosAsFound nlat a b) = (b, a) := by
  intro h
  have := h 2 2 (fun k => (k % 2, k / 2)) (by decide) 0 (by decide) 1 (by decide)
  simp [swanGridPosAsFound] at this

/-! ## the integral when `n·Δθ ≠ 360` (readers called with a `dd` that does not divide 360) -/

/-- general form: the direction integral of a constructed row is `efth · n·Δθ/360` -/
theorem spreadRow_integral_general (pi dd ef : ℚ) (g : Vec) (hpi : pi ≠ 0) (hsum : g.sum ≠ 0)
    (hlen : g.length ≠ 0) :
    (spreadRow pi ef g).map (integ dd) = some (ef * ((g.length : ℚ) * dd / 360)) := by
  have hl : (g.length : ℚ) ≠ 0 := Nat.cast_ne_zero.mpr hlen
  have htot : g.sum * (2 * pi / (g.length : ℚ)) ≠ 0 :=
    mul_ne_zero hsum (div_ne_zero (mul_ne_zero (by norm_num) hpi) hl)
  unfold spreadRow cartwrightRow
  simp only [htot, if_false, Option.map_some]
  unfold integ r2d
  rw [sum_map_lmul, sum_map_affine]
  congr 1; field_simp; ring

/-- full statement over every `dd` the readers accept (`dir = arange(0, 360, dd)`) -/
def IntegratesBackAnyDd : Prop :=
  ∀ (pi dd ef : ℚ) (g : Vec), pi ≠ 0 → g.sum ≠ 0 → 0 < dd → g.length = arangeLen 0 360 dd →
    (spreadRow pi ef g).map (integ dd) = some ef

/-- refuted: `dd = 7` gives 52 bins covering 364°, the integral is `efth·364/360` -/
theorem integrates_back_any_dd_fails : ¬ IntegratesBackAnyDd := by
  intro h
  have h1 := h 3 7 1 (List.replicate 52 1) (by norm_num) (by decide +kernel) (by norm_num) (by decide +kernel)
  have h2 := spreadRow_integral_general 3 7 1 (List.replicate 52 1) (by norm_num) (by decide +kernel)
    (by decide +kernel)
  rw [h2] at h1
  simp only [List.length_replicate, Option.some.injEq] at h1
  norm_num at h1

/-- partial = `spotter_integrates_back`: `dd` divides 360 (`arange(0,360,dd)` then has `360/dd` bins) -/
theorem integrates_back_partial (pi dd ef : ℚ) (g : Vec) (k : Nat) (hpi : pi ≠ 0) (hsum : g.sum ≠ 0)
    (hk : (k : ℚ) * dd = 360) (hdd : 0 < dd) (hlen : g.length = arangeLen 0 360 dd) :
    (spreadRow pi ef g).map (integ dd) = some ef := by
  apply spreadRow_integrates pi dd ef g hpi hsum
  have : arangeLen 0 360 dd = k := by
    unfold arangeLen
    rw [if_neg (not_le.mpr hdd)]
    have : ((360 : ℚ) - 0) / dd = (k : ℚ) := by rw [← hk]; field_simp; ring
    rw [this]; exact neg_floor_neg_nat k
  rw [hlen, this]; exact hk

/-! ## T-tier: the constants of the readers, regenerated from the repository source on every run -/

/-- `extract_direction`: `2.5·π`, `2.0·π`, `+270`, `% 360` -/
theorem lits_extract_direction : Gen.lits_ww3station_extract_direction = [5 / 2, 2, 270, 360] := by
  decide +kernel

/-- `construct_spectra`: reshape `(1, 1, -1)` (the `-1` is a unary minus on the literal 1), `0.5`, `2` -/
theorem lits_construct_spectra : Gen.lits_ndbc_ascii_construct_spectra = [1, 1, 1, 1 / 2, 2] := by
  decide +kernel

/-- `read_ndbc_ascii`: default `arange(0, 360, 10)`, 5 files, …, `rscale = 1.0 … else 0.01` -/
theorem lits_read_ndbc_ascii :
    Gen.lits_ndbc_ascii_read_ndbc_ascii = [0, 360, 10, 5, 0, 1, 1, 0, 1, 2, 3, 4, 1, rHundredth] := by decide +kernel

/-- `cartwright`: wrap at `180`/`360`, `s = 2/σ² − 1`, exponent `2s` of `cos(0.5·Δθ)`, `2π/n` -/
theorem lits_cartwright :
    Gen.lits_direction_cartwright = [180, 360, 2, 2, 1, 1 / 2, 2, 90, 0, 1, 2] := by decide +kernel

/-- `to_nautical`: `np.mod(270 − ang, 360)` -/
theorem lits_to_nautical : Gen.lits_utils_to_nautical = [270, 360] := by decide +kernel

/-- `Triaxys.dirs`: `np.arange(0.0, 360.0 + ddir, ddir)`, else `[0.0]` -/
theorem lits_triaxys_dirs : Gen.lits_triaxys_dirs = [0, 360, 0] := by decide +kernel

/-! ## non-vacuity: every hypothesis above is satisfiable on a concrete non-trivial input -/
section Examples

-- Cartwright / Spotter / Datawell on 4 directions (Δθ = 90), π := 22/7
example : cartwrightRow (22/7) [1, 1/2, 0, 1/2] = some [1/180, 1/360, 0, 1/360] := by decide +kernel
example := cartwright_normalised (22/7) 90 [1, 1/2, 0, 1/2] (by norm_num) (by decide +kernel) (by norm_num)
example := cartwright_nonneg (22/7) [1, 1/2, 0, 1/2] _ (by norm_num) (by decide +kernel)
  (by decide +kernel : cartwrightRow (22/7) [1, 1/2, 0, 1/2] = some [1/180, 1/360, 0, 1/360])
example := spotter_integrates_back (22/7) 90 [2, 3] [[1, 1/2, 0, 1/2], [0, 1, 1, 0]] (by norm_num)
  (by decide) (by decide +kernel)
example : (build2d (22/7) [2, 3] [[1, 1/2, 0, 1/2], [0, 1, 1, 0]]).map (Option.map (integ 90)) =
    [some 2, some 3] := by decide +kernel
example := datawell_integrates_back (22/7) 90 (1/2) [4, 6] [[1, 1/2, 0, 1/2], [0, 1, 1, 0]] (by norm_num)
  (by decide) (by decide +kernel)
example := twod_consistent_with_oned (22/7) 90 [2, 3] [[1, 1/2, 0, 1/2], [0, 1, 1, 0]] (by norm_num)
  (by decide) (by decide +kernel)
example := integrates_back_partial (22/7) 90 5 [1, 1/2, 0, 1/2] 4 (by norm_num) (by decide +kernel)
  (by norm_num) (by norm_num) (by decide +kernel)
example := spreadRow_integral_general (22/7) 7 5 [1, 1/2, 0, 1/2] (by norm_num) (by decide +kernel) (by decide)

-- NDBC on θ = 0, 90, 180, 270 with α1 = α2 = 0: cos = 1,0,−1,0 and cos 2θ = 1,−1,1,−1
example := ndbc_ascii_integrates (22/7) 90 5 (3/10) (1/5) [1, 0, -1, 0] [1, -1, 1, -1] (by norm_num)
  (by decide) (by decide +kernel) (by decide +kernel) (by norm_num)
example : integ 90 (ndbcRow (22/7) 5 (3/10) (1/5) [1, 0, -1, 0] [1, -1, 1, -1]) = 5 := by decide +kernel
example := ndbc_ascii_integral_general (22/7) 180 5 (3/10) (1/5) [1, -1] [1, 1] (by norm_num) (by decide)
example : ndbcR true 59 = 59 * rHundredth ∧ ndbcR false (59/100) = 59/100 := by decide +kernel
example := ndbc_integral_blind_to_r (22/7) 90 5 (3/10) (1/5) 30 20 [1, 0, -1, 0] [1, -1, 1, -1] (by norm_num)
  (by decide) (by decide +kernel) (by decide +kernel) (by norm_num)

-- WW3 station: going-to 3π/2 rad (towards west) is coming-from 90°
example := ww3station_direction (22/7) (33/7) (by norm_num)
example : ww3Dir (22/7) (33/7) = 90 := by decide +kernel
example := ww3station_direction_turns (22/7) (3/4) (by norm_num)
example := ww3station_transpose_units (22/7) 2 [[1, 2], [3, 4], [5, 6]] 1 2 (by norm_num) (by decide)
example : ww3Spec 180 2 [[1, 2], [3, 4], [5, 6]] = [[1, 3, 5], [2, 4, 6]] := by decide +kernel

-- sorting
example : sortByTime [((3 : Int), "c"), (1, "a"), (2, "b")] = [(1, "a"), (2, "b"), (3, "c")] := by
  decide +kernel
example : sortPerm [30, 10, 20] = [1, 2, 0] := by decide +kernel
example := asfound_sorted_by_time_partial (α := String) .ww3station [[(1, "a"), (2, "b")], [(5, "c")]]
  (by decide +kernel)
example := asfound_sorted_by_time_partial (α := String) .spotter [[(1, "a"), (2, "b")], [(5, "c")]]
  (by decide +kernel)
example : readerOrder .ww3station [[((2 : Int), "a"), (1, "b")]] = [(1, "b"), (2, "a")] := by decide +kernel
example : readerOrder .spotter [[((3 : Int), "c")], [(2, "b"), (1, "a")]] = [(1, "a"), (2, "b"), (3, "c")] := by
  decide +kernel
-- SWAN grid listed latitude-major (x fastest): every node gets its own spectrum
example : swanGridAt [(0, 0), (1, 0), (0, 1), (1, 1)] 0 1 = some 1 ∧ swanGridAt [(0, 0), (1, 0), (0, 1), (1, 1)] 1 0 = some 2 := by
  decide +kernel
example := swan_grid_positions_complete [(0, 0), (1, 0), (0, 1), (1, 1)] (by decide) 2 (by decide)

-- SWAN dirorder on CDIR-style descending directions with a negative entry
example : swanDirs true [265, 175, 85, -5] = [85, 175, 265, 355] ∧
    swanDirmap true [265, 175, 85, -5] = some [2, 1, 0, 3] := by decide +kernel
example := swan_dirorder_consistent [265, 175, 85, -5] [1, 2, 3, 4] (by decide)
example : decodeBlock 1 4 (some [2, 1, 0, 3]) 1 (.factor (1/2) [[2, 4, 6, 8]]) =
    [[some 3, some 2, some 1, some 4]] := by decide +kernel
example : swanDirs0 true [0, 90, 180, 270] = [270, 180, 90, 0] := by decide +kernel

-- TRIAXYS
example : triaxysFreqs 0 (1/100) 5 = [0, 1/100, 2/100, 3/100, 4/100] := by decide +kernel
example := asfound_triaxys_grid (3/100) (1/200) 7 (by norm_num)
example := triaxys_dirs 90 4 (by norm_num) (by norm_num)
example : triaxysDirs 90 = [0, 90, 180, 270, 360] := by decide +kernel

end Examples

/-! ## T-tier: regenerated kernels

`utils.to_nautical` (used by the SWAN reader for `CDIR` headers) is regenerated in full by
`harness/translate_np.py` and identified with the model. -/

theorem gen_to_nautical_eq (a : ℚ) : Gen.toNautical a = toNautical a := rfl

end WS.C13

import WsVerif.Model.Frame
import WsVerif.Model.FrameIR
import WsVerif.Gen.FrameKernels
/-!
# C17 — the REGENERATED frame analysis (T-tier)

`Gen/FrameKernels.lean` holds, for every operation anchored by C17, a `FrameIR` program regenerated from the current
source by `harness/translate_frm.py`.  This file pins the computed may-write set of each on the cells of its parameters
(`genfrm_<op>_writes`), instantiates the frame theorem `FrameIR.frame_ir` of the IR (proved for ALL programs in
`Model/FrameIR.lean`), checks that every call summary used by the translator IS the computed write-set of the callee
(`genfrm_calls_*`), pins the names the walker could not classify (`genfrm_unknown_*`) and connects to the declared table
`Frame.writesNew` (`genfrm_table`).  Residual (non-empty) sets are explained in tools/NOTES-translate_frm.md.
-/
namespace WS.C17
open WS.FrameIR WS.Gen

/-- `a` and `b` have the same elements -/
def sameSet (a b : List (Nat × Cell)) : Bool := a.all b.contains && b.all a.contains

/-- computed write-set of a translated operation, by its generated name -/
def summaryOf : String → List (Nat × Cell)
  | "set_spec_attributes" => writes frm_set_spec_attributes_params prog_set_spec_attributes
  | "unique_indices" => writes frm_unique_indices_params prog_unique_indices
  | "scaled" => writes frm_scaled_params prog_scaled
  | "regrid_spec" => writes frm_regrid_spec_params prog_regrid_spec
  | "smooth_spec" => writes frm_smooth_spec_params prog_smooth_spec
  | "coords_swap" => writes frm_coords_swap_params prog_coords_swap
  | "coords_init" => writes frm_coords_init_params prog_coords_init
  | "sel_nearest" => writes frm_sel_nearest_params prog_sel_nearest
  | "sel_idw" => writes frm_sel_idw_params prog_sel_idw
  | "sel_bbox" => writes frm_sel_bbox_params prog_sel_bbox
  | "to_netcdf" => writes frm_to_netcdf_params prog_to_netcdf
  | "to_ww3" => writes frm_to_ww3_params prog_to_ww3
  | "to_funwave" => writes frm_to_funwave_params prog_to_funwave
  | "from_ww3" => writes frm_from_ww3_params prog_from_ww3
  | "from_ncswan" => writes frm_from_ncswan_params prog_from_ncswan
  | "sa_split" => writes frm_sa_split_params prog_sa_split
  | "sa_scale_by_hs" => writes frm_sa_scale_by_hs_params prog_sa_scale_by_hs
  | "sa_rotate" => writes frm_sa_rotate_params prog_sa_rotate
  | "sa_stats" => writes frm_sa_stats_params prog_sa_stats
  | "part_ptm4" => writes frm_part_ptm4_params prog_part_ptm4
  | "part_ptm5" => writes frm_part_ptm5_params prog_part_ptm5
  | "part_bbox" => writes frm_part_bbox_params prog_part_bbox
  | _ => top [0, 1, 2, 3, 4, 5, 6, 7, 8, 9]

/-- every summary the translator inlined at a call site is the write-set Lean computes for the callee -/
def callsOk (calls : List (String × List (Nat × Cell))) : Bool := calls.all fun c => sameSet c.2 (summaryOf c.1)

theorem genfrm_translated : frm_translated = ["set_spec_attributes", "unique_indices", "scaled", "regrid_spec", "smooth_spec", "coords_swap", "coords_init", "sel_nearest", "sel_idw", "sel_bbox", "to_netcdf", "to_ww3", "to_funwave", "from_ww3", "from_ncswan", "sa_split", "sa_scale_by_hs", "sa_rotate", "sa_stats", "part_ptm4", "part_ptm5", "part_bbox", "from_wwm", "from_era5", "from_ndbc"] := by decide

/-- `set_spec_attributes`: computed may-write set on the parameters' cells -/
theorem genfrm_set_spec_attributes_writes : writes frm_set_spec_attributes_params prog_set_spec_attributes = [(0, .attrs), (0, .held)] := by decide +kernel
theorem genfrm_calls_set_spec_attributes : callsOk frm_set_spec_attributes_calls = true := by decide +kernel
theorem genfrm_unknown_set_spec_attributes : frm_set_spec_attributes_unknown = [] := by decide
/-- frame outside the residual set -/
theorem genfrm_set_spec_attributes_frame_partial (h : Loc → Nat) (tr : List Stmt) (hsub : ∀ s ∈ tr, s ∈ prog_set_spec_attributes) (v : Var)
    (hv : v ∈ frm_set_spec_attributes_params) (c : Cell) (hn : (v, c) ∉ ([(0, .attrs), (0, .held)] : List (Var × Cell))) :
    (exec tr (init frm_set_spec_attributes_params h)).heap (Loc.param v c) = h (Loc.param v c) :=
  frame_ir_general _ _ h tr hsub v hv c (by rw [genfrm_set_spec_attributes_writes]; exact hn)
example : ∀ s ∈ prog_set_spec_attributes.take 1, s ∈ prog_set_spec_attributes := fun _ hs => List.mem_of_mem_take hs
example : (0 : Var) ∈ frm_set_spec_attributes_params ∧ ((0 : Var), Cell.encoding) ∉ ([(0, .attrs), (0, .held)] : List (Var × Cell)) := by decide

/-- `unique_indices`: computed may-write set on the parameters' cells -/
theorem genfrm_unique_indices_writes : writes frm_unique_indices_params prog_unique_indices = [] := by decide +kernel
theorem genfrm_calls_unique_indices : callsOk frm_unique_indices_calls = true := by decide +kernel
theorem genfrm_unknown_unique_indices : frm_unique_indices_unknown = [] := by decide
/-- frame: whatever statements of `unique_indices` execute, in whatever order, no cell of any argument changes -/
theorem genfrm_unique_indices_frame (h : Loc → Nat) (tr : List Stmt) (hsub : ∀ s ∈ tr, s ∈ prog_unique_indices) (v : Var)
    (hv : v ∈ frm_unique_indices_params) (c : Cell) : (exec tr (init frm_unique_indices_params h)).heap (Loc.param v c) = h (Loc.param v c) :=
  frame_ir _ _ genfrm_unique_indices_writes h tr hsub v hv c
example : ∀ s ∈ prog_unique_indices.take 1, s ∈ prog_unique_indices := fun _ hs => List.mem_of_mem_take hs
example : (0 : Var) ∈ frm_unique_indices_params := by decide

/-- `scaled`: computed may-write set on the parameters' cells -/
theorem genfrm_scaled_writes : writes frm_scaled_params prog_scaled = [] := by decide +kernel
theorem genfrm_calls_scaled : callsOk frm_scaled_calls = true := by decide +kernel
theorem genfrm_unknown_scaled : frm_scaled_unknown = [] := by decide
/-- frame: whatever statements of `scaled` execute, in whatever order, no cell of any argument changes -/
theorem genfrm_scaled_frame (h : Loc → Nat) (tr : List Stmt) (hsub : ∀ s ∈ tr, s ∈ prog_scaled) (v : Var)
    (hv : v ∈ frm_scaled_params) (c : Cell) : (exec tr (init frm_scaled_params h)).heap (Loc.param v c) = h (Loc.param v c) :=
  frame_ir _ _ genfrm_scaled_writes h tr hsub v hv c
example : ∀ s ∈ prog_scaled.take 1, s ∈ prog_scaled := fun _ hs => List.mem_of_mem_take hs
example : (0 : Var) ∈ frm_scaled_params := by decide

/-- `regrid_spec`: computed may-write set on the parameters' cells -/
theorem genfrm_regrid_spec_writes : writes frm_regrid_spec_params prog_regrid_spec = [] := by decide +kernel
theorem genfrm_calls_regrid_spec : callsOk frm_regrid_spec_calls = true := by decide +kernel
theorem genfrm_unknown_regrid_spec : frm_regrid_spec_unknown = [] := by decide
/-- frame: whatever statements of `regrid_spec` execute, in whatever order, no cell of any argument changes -/
theorem genfrm_regrid_spec_frame (h : Loc → Nat) (tr : List Stmt) (hsub : ∀ s ∈ tr, s ∈ prog_regrid_spec) (v : Var)
    (hv : v ∈ frm_regrid_spec_params) (c : Cell) : (exec tr (init frm_regrid_spec_params h)).heap (Loc.param v c) = h (Loc.param v c) :=
  frame_ir _ _ genfrm_regrid_spec_writes h tr hsub v hv c
example : ∀ s ∈ prog_regrid_spec.take 1, s ∈ prog_regrid_spec := fun _ hs => List.mem_of_mem_take hs
example : (0 : Var) ∈ frm_regrid_spec_params := by decide

/-- `smooth_spec`: computed may-write set on the parameters' cells -/
theorem genfrm_smooth_spec_writes : writes frm_smooth_spec_params prog_smooth_spec = [] := by decide +kernel
theorem genfrm_calls_smooth_spec : callsOk frm_smooth_spec_calls = true := by decide +kernel
theorem genfrm_unknown_smooth_spec : frm_smooth_spec_unknown = ["slice"] := by decide
/-- frame: whatever statements of `smooth_spec` execute, in whatever order, no cell of any argument changes -/
theorem genfrm_smooth_spec_frame (h : Loc → Nat) (tr : List Stmt) (hsub : ∀ s ∈ tr, s ∈ prog_smooth_spec) (v : Var)
    (hv : v ∈ frm_smooth_spec_params) (c : Cell) : (exec tr (init frm_smooth_spec_params h)).heap (Loc.param v c) = h (Loc.param v c) :=
  frame_ir _ _ genfrm_smooth_spec_writes h tr hsub v hv c
example : ∀ s ∈ prog_smooth_spec.take 1, s ∈ prog_smooth_spec := fun _ hs => List.mem_of_mem_take hs
example : (0 : Var) ∈ frm_smooth_spec_params := by decide

/-- `coords_swap`: computed may-write set on the parameters' cells -/
theorem genfrm_coords_swap_writes : writes frm_coords_swap_params prog_coords_swap = [(1, .values), (1, .coords), (1, .dims)] := by decide +kernel
theorem genfrm_calls_coords_swap : callsOk frm_coords_swap_calls = true := by decide +kernel
theorem genfrm_unknown_coords_swap : frm_coords_swap_unknown = ["._is_180", "._is_360"] := by decide
/-- frame outside the residual set -/
theorem genfrm_coords_swap_frame_partial (h : Loc → Nat) (tr : List Stmt) (hsub : ∀ s ∈ tr, s ∈ prog_coords_swap) (v : Var)
    (hv : v ∈ frm_coords_swap_params) (c : Cell) (hn : (v, c) ∉ ([(1, .values), (1, .coords), (1, .dims)] : List (Var × Cell))) :
    (exec tr (init frm_coords_swap_params h)).heap (Loc.param v c) = h (Loc.param v c) :=
  frame_ir_general _ _ h tr hsub v hv c (by rw [genfrm_coords_swap_writes]; exact hn)
example : ∀ s ∈ prog_coords_swap.take 1, s ∈ prog_coords_swap := fun _ hs => List.mem_of_mem_take hs
example : (0 : Var) ∈ frm_coords_swap_params ∧ ((0 : Var), Cell.encoding) ∉ ([(1, .values), (1, .coords), (1, .dims)] : List (Var × Cell)) := by decide

/-- `coords_init`: computed may-write set on the parameters' cells -/
theorem genfrm_coords_init_writes : writes frm_coords_init_params prog_coords_init = [(0, .attrs)] := by decide +kernel
theorem genfrm_calls_coords_init : callsOk frm_coords_init_calls = true := by decide +kernel
theorem genfrm_unknown_coords_init : frm_coords_init_unknown = ["._validate", "._is_360"] := by decide
/-- frame outside the residual set -/
theorem genfrm_coords_init_frame_partial (h : Loc → Nat) (tr : List Stmt) (hsub : ∀ s ∈ tr, s ∈ prog_coords_init) (v : Var)
    (hv : v ∈ frm_coords_init_params) (c : Cell) (hn : (v, c) ∉ ([(0, .attrs)] : List (Var × Cell))) :
    (exec tr (init frm_coords_init_params h)).heap (Loc.param v c) = h (Loc.param v c) :=
  frame_ir_general _ _ h tr hsub v hv c (by rw [genfrm_coords_init_writes]; exact hn)
example : ∀ s ∈ prog_coords_init.take 1, s ∈ prog_coords_init := fun _ hs => List.mem_of_mem_take hs
example : (0 : Var) ∈ frm_coords_init_params ∧ ((0 : Var), Cell.encoding) ∉ ([(0, .attrs)] : List (Var × Cell)) := by decide

/-- `sel_nearest`: computed may-write set on the parameters' cells -/
theorem genfrm_sel_nearest_writes : writes frm_sel_nearest_params prog_sel_nearest = [(0, .values), (1, .values), (2, .values), (6, .values), (7, .values)] := by decide +kernel
theorem genfrm_calls_sel_nearest : callsOk frm_sel_nearest_calls = true := by decide +kernel
theorem genfrm_unknown_sel_nearest : frm_sel_nearest_unknown = [".nearest"] := by decide
/-- frame outside the residual set -/
theorem genfrm_sel_nearest_frame_partial (h : Loc → Nat) (tr : List Stmt) (hsub : ∀ s ∈ tr, s ∈ prog_sel_nearest) (v : Var)
    (hv : v ∈ frm_sel_nearest_params) (c : Cell) (hn : (v, c) ∉ ([(0, .values), (1, .values), (2, .values), (6, .values), (7, .values)] : List (Var × Cell))) :
    (exec tr (init frm_sel_nearest_params h)).heap (Loc.param v c) = h (Loc.param v c) :=
  frame_ir_general _ _ h tr hsub v hv c (by rw [genfrm_sel_nearest_writes]; exact hn)
example : ∀ s ∈ prog_sel_nearest.take 1, s ∈ prog_sel_nearest := fun _ hs => List.mem_of_mem_take hs
example : (0 : Var) ∈ frm_sel_nearest_params ∧ ((0 : Var), Cell.encoding) ∉ ([(0, .values), (1, .values), (2, .values), (6, .values), (7, .values)] : List (Var × Cell)) := by decide

/-- `sel_idw`: computed may-write set on the parameters' cells -/
theorem genfrm_sel_idw_writes : writes frm_sel_idw_params prog_sel_idw = [(0, .dims), (0, .values), (1, .values), (2, .values), (5, .values), (6, .values)] := by decide +kernel
theorem genfrm_calls_sel_idw : callsOk frm_sel_idw_calls = true := by decide +kernel
theorem genfrm_unknown_sel_idw : frm_sel_idw_unknown = [".nearer"] := by decide
/-- frame outside the residual set -/
theorem genfrm_sel_idw_frame_partial (h : Loc → Nat) (tr : List Stmt) (hsub : ∀ s ∈ tr, s ∈ prog_sel_idw) (v : Var)
    (hv : v ∈ frm_sel_idw_params) (c : Cell) (hn : (v, c) ∉ ([(0, .dims), (0, .values), (1, .values), (2, .values), (5, .values), (6, .values)] : List (Var × Cell))) :
    (exec tr (init frm_sel_idw_params h)).heap (Loc.param v c) = h (Loc.param v c) :=
  frame_ir_general _ _ h tr hsub v hv c (by rw [genfrm_sel_idw_writes]; exact hn)
example : ∀ s ∈ prog_sel_idw.take 1, s ∈ prog_sel_idw := fun _ hs => List.mem_of_mem_take hs
example : (0 : Var) ∈ frm_sel_idw_params ∧ ((0 : Var), Cell.encoding) ∉ ([(0, .dims), (0, .values), (1, .values), (2, .values), (5, .values), (6, .values)] : List (Var × Cell)) := by decide

/-- `sel_bbox`: computed may-write set on the parameters' cells -/
theorem genfrm_sel_bbox_writes : writes frm_sel_bbox_params prog_sel_bbox = [(0, .values)] := by decide +kernel
theorem genfrm_calls_sel_bbox : callsOk frm_sel_bbox_calls = true := by decide +kernel
theorem genfrm_unknown_sel_bbox : frm_sel_bbox_unknown = [] := by decide
/-- frame outside the residual set -/
theorem genfrm_sel_bbox_frame_partial (h : Loc → Nat) (tr : List Stmt) (hsub : ∀ s ∈ tr, s ∈ prog_sel_bbox) (v : Var)
    (hv : v ∈ frm_sel_bbox_params) (c : Cell) (hn : (v, c) ∉ ([(0, .values)] : List (Var × Cell))) :
    (exec tr (init frm_sel_bbox_params h)).heap (Loc.param v c) = h (Loc.param v c) :=
  frame_ir_general _ _ h tr hsub v hv c (by rw [genfrm_sel_bbox_writes]; exact hn)
example : ∀ s ∈ prog_sel_bbox.take 1, s ∈ prog_sel_bbox := fun _ hs => List.mem_of_mem_take hs
example : (0 : Var) ∈ frm_sel_bbox_params ∧ ((0 : Var), Cell.encoding) ∉ ([(0, .values)] : List (Var × Cell)) := by decide

/-- `to_netcdf`: computed may-write set on the parameters' cells -/
theorem genfrm_to_netcdf_writes : writes frm_to_netcdf_params prog_to_netcdf = [] := by decide +kernel
theorem genfrm_calls_to_netcdf : callsOk frm_to_netcdf_calls = true := by decide +kernel
theorem genfrm_unknown_to_netcdf : frm_to_netcdf_unknown = [] := by decide
/-- frame: whatever statements of `to_netcdf` execute, in whatever order, no cell of any argument changes -/
theorem genfrm_to_netcdf_frame (h : Loc → Nat) (tr : List Stmt) (hsub : ∀ s ∈ tr, s ∈ prog_to_netcdf) (v : Var)
    (hv : v ∈ frm_to_netcdf_params) (c : Cell) : (exec tr (init frm_to_netcdf_params h)).heap (Loc.param v c) = h (Loc.param v c) :=
  frame_ir _ _ genfrm_to_netcdf_writes h tr hsub v hv c
example : ∀ s ∈ prog_to_netcdf.take 1, s ∈ prog_to_netcdf := fun _ hs => List.mem_of_mem_take hs
example : (0 : Var) ∈ frm_to_netcdf_params := by decide

/-- `to_ww3`: computed may-write set on the parameters' cells -/
theorem genfrm_to_ww3_writes : writes frm_to_ww3_params prog_to_ww3 = [] := by decide +kernel
theorem genfrm_calls_to_ww3 : callsOk frm_to_ww3_calls = true := by decide +kernel
theorem genfrm_unknown_to_ww3 : frm_to_ww3_unknown = ["MAPPING.items", "VAR_ATTRIBUTES.items"] := by decide
/-- frame: whatever statements of `to_ww3` execute, in whatever order, no cell of any argument changes -/
theorem genfrm_to_ww3_frame (h : Loc → Nat) (tr : List Stmt) (hsub : ∀ s ∈ tr, s ∈ prog_to_ww3) (v : Var)
    (hv : v ∈ frm_to_ww3_params) (c : Cell) : (exec tr (init frm_to_ww3_params h)).heap (Loc.param v c) = h (Loc.param v c) :=
  frame_ir _ _ genfrm_to_ww3_writes h tr hsub v hv c
example : ∀ s ∈ prog_to_ww3.take 1, s ∈ prog_to_ww3 := fun _ hs => List.mem_of_mem_take hs
example : (0 : Var) ∈ frm_to_ww3_params := by decide

/-- `to_funwave`: computed may-write set on the parameters' cells -/
theorem genfrm_to_funwave_writes : writes frm_to_funwave_params prog_to_funwave = [] := by decide +kernel
theorem genfrm_calls_to_funwave : callsOk frm_to_funwave_calls = true := by decide +kernel
theorem genfrm_unknown_to_funwave : frm_to_funwave_unknown = ["slice", "funwave_spectrum"] := by decide
/-- frame: whatever statements of `to_funwave` execute, in whatever order, no cell of any argument changes -/
theorem genfrm_to_funwave_frame (h : Loc → Nat) (tr : List Stmt) (hsub : ∀ s ∈ tr, s ∈ prog_to_funwave) (v : Var)
    (hv : v ∈ frm_to_funwave_params) (c : Cell) : (exec tr (init frm_to_funwave_params h)).heap (Loc.param v c) = h (Loc.param v c) :=
  frame_ir _ _ genfrm_to_funwave_writes h tr hsub v hv c
example : ∀ s ∈ prog_to_funwave.take 1, s ∈ prog_to_funwave := fun _ hs => List.mem_of_mem_take hs
example : (0 : Var) ∈ frm_to_funwave_params := by decide

/-- `from_ww3`: computed may-write set on the parameters' cells -/
theorem genfrm_from_ww3_writes : writes frm_from_ww3_params prog_from_ww3 = [] := by decide +kernel
theorem genfrm_calls_from_ww3 : callsOk frm_from_ww3_calls = true := by decide +kernel
theorem genfrm_unknown_from_ww3 : frm_from_ww3_unknown = ["MAPPING.items"] := by decide
/-- frame: whatever statements of `from_ww3` execute, in whatever order, no cell of any argument changes -/
theorem genfrm_from_ww3_frame (h : Loc → Nat) (tr : List Stmt) (hsub : ∀ s ∈ tr, s ∈ prog_from_ww3) (v : Var)
    (hv : v ∈ frm_from_ww3_params) (c : Cell) : (exec tr (init frm_from_ww3_params h)).heap (Loc.param v c) = h (Loc.param v c) :=
  frame_ir _ _ genfrm_from_ww3_writes h tr hsub v hv c
example : ∀ s ∈ prog_from_ww3.take 1, s ∈ prog_from_ww3 := fun _ hs => List.mem_of_mem_take hs
example : (0 : Var) ∈ frm_from_ww3_params := by decide

/-- `from_ncswan`: computed may-write set on the parameters' cells -/
theorem genfrm_from_ncswan_writes : writes frm_from_ncswan_params prog_from_ncswan = [] := by decide +kernel
theorem genfrm_calls_from_ncswan : callsOk frm_from_ncswan_calls = true := by decide +kernel
theorem genfrm_unknown_from_ncswan : frm_from_ncswan_unknown = ["MAPPING.items", "uv_to_spddir"] := by decide
/-- frame: whatever statements of `from_ncswan` execute, in whatever order, no cell of any argument changes -/
theorem genfrm_from_ncswan_frame (h : Loc → Nat) (tr : List Stmt) (hsub : ∀ s ∈ tr, s ∈ prog_from_ncswan) (v : Var)
    (hv : v ∈ frm_from_ncswan_params) (c : Cell) : (exec tr (init frm_from_ncswan_params h)).heap (Loc.param v c) = h (Loc.param v c) :=
  frame_ir _ _ genfrm_from_ncswan_writes h tr hsub v hv c
example : ∀ s ∈ prog_from_ncswan.take 1, s ∈ prog_from_ncswan := fun _ hs => List.mem_of_mem_take hs
example : (0 : Var) ∈ frm_from_ncswan_params := by decide

/-- `sa_split`: computed may-write set on the parameters' cells -/
theorem genfrm_sa_split_writes : writes frm_sa_split_params prog_sa_split = [] := by decide +kernel
theorem genfrm_calls_sa_split : callsOk frm_sa_split_calls = true := by decide +kernel
theorem genfrm_unknown_sa_split : frm_sa_split_unknown = ["slice", "._interp_freq"] := by decide
/-- frame: whatever statements of `sa_split` execute, in whatever order, no cell of any argument changes -/
theorem genfrm_sa_split_frame (h : Loc → Nat) (tr : List Stmt) (hsub : ∀ s ∈ tr, s ∈ prog_sa_split) (v : Var)
    (hv : v ∈ frm_sa_split_params) (c : Cell) : (exec tr (init frm_sa_split_params h)).heap (Loc.param v c) = h (Loc.param v c) :=
  frame_ir _ _ genfrm_sa_split_writes h tr hsub v hv c
example : ∀ s ∈ prog_sa_split.take 1, s ∈ prog_sa_split := fun _ hs => List.mem_of_mem_take hs
example : (0 : Var) ∈ frm_sa_split_params := by decide

/-- `sa_scale_by_hs`: computed may-write set on the parameters' cells -/
theorem genfrm_sa_scale_by_hs_writes : writes frm_sa_scale_by_hs_params prog_sa_scale_by_hs = [] := by decide +kernel
theorem genfrm_calls_sa_scale_by_hs : callsOk frm_sa_scale_by_hs_calls = true := by decide +kernel
theorem genfrm_unknown_sa_scale_by_hs : frm_sa_scale_by_hs_unknown = ["eval"] := by decide
/-- frame: whatever statements of `sa_scale_by_hs` execute, in whatever order, no cell of any argument changes -/
theorem genfrm_sa_scale_by_hs_frame (h : Loc → Nat) (tr : List Stmt) (hsub : ∀ s ∈ tr, s ∈ prog_sa_scale_by_hs) (v : Var)
    (hv : v ∈ frm_sa_scale_by_hs_params) (c : Cell) : (exec tr (init frm_sa_scale_by_hs_params h)).heap (Loc.param v c) = h (Loc.param v c) :=
  frame_ir _ _ genfrm_sa_scale_by_hs_writes h tr hsub v hv c
example : ∀ s ∈ prog_sa_scale_by_hs.take 1, s ∈ prog_sa_scale_by_hs := fun _ hs => List.mem_of_mem_take hs
example : (0 : Var) ∈ frm_sa_scale_by_hs_params := by decide

/-- `sa_rotate`: computed may-write set on the parameters' cells -/
theorem genfrm_sa_rotate_writes : writes frm_sa_rotate_params prog_sa_rotate = [] := by decide +kernel
theorem genfrm_calls_sa_rotate : callsOk frm_sa_rotate_calls = true := by decide +kernel
theorem genfrm_unknown_sa_rotate : frm_sa_rotate_unknown = [] := by decide
/-- frame: whatever statements of `sa_rotate` execute, in whatever order, no cell of any argument changes -/
theorem genfrm_sa_rotate_frame (h : Loc → Nat) (tr : List Stmt) (hsub : ∀ s ∈ tr, s ∈ prog_sa_rotate) (v : Var)
    (hv : v ∈ frm_sa_rotate_params) (c : Cell) : (exec tr (init frm_sa_rotate_params h)).heap (Loc.param v c) = h (Loc.param v c) :=
  frame_ir _ _ genfrm_sa_rotate_writes h tr hsub v hv c
example : ∀ s ∈ prog_sa_rotate.take 1, s ∈ prog_sa_rotate := fun _ hs => List.mem_of_mem_take hs
example : (0 : Var) ∈ frm_sa_rotate_params := by decide

/-- `sa_stats`: computed may-write set on the parameters' cells -/
theorem genfrm_sa_stats_writes : writes frm_sa_stats_params prog_sa_stats = [] := by decide +kernel
theorem genfrm_calls_sa_stats : callsOk frm_sa_stats_calls = true := by decide +kernel
theorem genfrm_unknown_sa_stats : frm_sa_stats_unknown = [".split", "<local>stats_func"] := by decide
/-- frame: whatever statements of `sa_stats` execute, in whatever order, no cell of any argument changes -/
theorem genfrm_sa_stats_frame (h : Loc → Nat) (tr : List Stmt) (hsub : ∀ s ∈ tr, s ∈ prog_sa_stats) (v : Var)
    (hv : v ∈ frm_sa_stats_params) (c : Cell) : (exec tr (init frm_sa_stats_params h)).heap (Loc.param v c) = h (Loc.param v c) :=
  frame_ir _ _ genfrm_sa_stats_writes h tr hsub v hv c
example : ∀ s ∈ prog_sa_stats.take 1, s ∈ prog_sa_stats := fun _ hs => List.mem_of_mem_take hs
example : (0 : Var) ∈ frm_sa_stats_params := by decide

/-- `part_ptm4`: computed may-write set on the parameters' cells -/
theorem genfrm_part_ptm4_writes : writes frm_part_ptm4_params prog_part_ptm4 = [(0, .attrs)] := by decide +kernel
theorem genfrm_calls_part_ptm4 : callsOk frm_part_ptm4_calls = true := by decide +kernel
theorem genfrm_unknown_part_ptm4 : frm_part_ptm4_unknown = ["waveage", "._set_metadata"] := by decide
/-- frame outside the residual set -/
theorem genfrm_part_ptm4_frame_partial (h : Loc → Nat) (tr : List Stmt) (hsub : ∀ s ∈ tr, s ∈ prog_part_ptm4) (v : Var)
    (hv : v ∈ frm_part_ptm4_params) (c : Cell) (hn : (v, c) ∉ ([(0, .attrs)] : List (Var × Cell))) :
    (exec tr (init frm_part_ptm4_params h)).heap (Loc.param v c) = h (Loc.param v c) :=
  frame_ir_general _ _ h tr hsub v hv c (by rw [genfrm_part_ptm4_writes]; exact hn)
example : ∀ s ∈ prog_part_ptm4.take 1, s ∈ prog_part_ptm4 := fun _ hs => List.mem_of_mem_take hs
example : (0 : Var) ∈ frm_part_ptm4_params ∧ ((0 : Var), Cell.encoding) ∉ ([(0, .attrs)] : List (Var × Cell)) := by decide

/-- `part_ptm5`: computed may-write set on the parameters' cells -/
theorem genfrm_part_ptm5_writes : writes frm_part_ptm5_params prog_part_ptm5 = [(0, .attrs)] := by decide +kernel
theorem genfrm_calls_part_ptm5 : callsOk frm_part_ptm5_calls = true := by decide +kernel
theorem genfrm_unknown_part_ptm5 : frm_part_ptm5_unknown = [".union", "._set_metadata"] := by decide
/-- frame outside the residual set -/
theorem genfrm_part_ptm5_frame_partial (h : Loc → Nat) (tr : List Stmt) (hsub : ∀ s ∈ tr, s ∈ prog_part_ptm5) (v : Var)
    (hv : v ∈ frm_part_ptm5_params) (c : Cell) (hn : (v, c) ∉ ([(0, .attrs)] : List (Var × Cell))) :
    (exec tr (init frm_part_ptm5_params h)).heap (Loc.param v c) = h (Loc.param v c) :=
  frame_ir_general _ _ h tr hsub v hv c (by rw [genfrm_part_ptm5_writes]; exact hn)
example : ∀ s ∈ prog_part_ptm5.take 1, s ∈ prog_part_ptm5 := fun _ hs => List.mem_of_mem_take hs
example : (0 : Var) ∈ frm_part_ptm5_params ∧ ((0 : Var), Cell.encoding) ∉ ([(0, .attrs)] : List (Var × Cell)) := by decide

/-- `part_bbox`: computed may-write set on the parameters' cells -/
theorem genfrm_part_bbox_writes : writes frm_part_bbox_params prog_part_bbox = [(0, .attrs)] := by decide +kernel
theorem genfrm_calls_part_bbox : callsOk frm_part_bbox_calls = true := by decide +kernel
theorem genfrm_unknown_part_bbox : frm_part_bbox_unknown = ["combinations", "is_overlap", "._set_metadata"] := by decide
/-- frame outside the residual set -/
theorem genfrm_part_bbox_frame_partial (h : Loc → Nat) (tr : List Stmt) (hsub : ∀ s ∈ tr, s ∈ prog_part_bbox) (v : Var)
    (hv : v ∈ frm_part_bbox_params) (c : Cell) (hn : (v, c) ∉ ([(0, .attrs)] : List (Var × Cell))) :
    (exec tr (init frm_part_bbox_params h)).heap (Loc.param v c) = h (Loc.param v c) :=
  frame_ir_general _ _ h tr hsub v hv c (by rw [genfrm_part_bbox_writes]; exact hn)
example : ∀ s ∈ prog_part_bbox.take 1, s ∈ prog_part_bbox := fun _ hs => List.mem_of_mem_take hs
example : (0 : Var) ∈ frm_part_bbox_params ∧ ((0 : Var), Cell.encoding) ∉ ([(0, .attrs)] : List (Var × Cell)) := by decide

/-- FrameIR cell → cell of the declared table of `Model/Frame.lean` -/
def toFrame : Cell → WS.Frame.Cell
  | .values => .values | .coords => .coords | .attrs => .attrs | .encoding => .encoding | .dims => .dimOrder
  | .name => .attrs | .held => .attrs

/-- `from_wwm` (added in round 8): computed may-write set on the parameters' cells -/
theorem genfrm_from_wwm_writes : writes frm_from_wwm_params prog_from_wwm = [] := by decide +kernel
theorem genfrm_calls_from_wwm : callsOk frm_from_wwm_calls = true := by decide +kernel
theorem genfrm_unknown_from_wwm : frm_from_wwm_unknown = ["MAPPING.items", "uv_to_spddir"] := by decide
/-- frame: whatever statements of `from_wwm` execute, in whatever order, no cell of any argument changes -/
theorem genfrm_from_wwm_frame (h : Loc → Nat) (tr : List Stmt) (hsub : ∀ s ∈ tr, s ∈ prog_from_wwm) (v : Var)
    (hv : v ∈ frm_from_wwm_params) (c : Cell) : (exec tr (init frm_from_wwm_params h)).heap (Loc.param v c) = h (Loc.param v c) :=
  frame_ir _ _ genfrm_from_wwm_writes h tr hsub v hv c
example : ∀ s ∈ prog_from_wwm.take 1, s ∈ prog_from_wwm := fun _ hs => List.mem_of_mem_take hs
example : (0 : Var) ∈ frm_from_wwm_params := by decide

/-- `from_era5` (added in round 8): computed may-write set on the parameters' cells -/
theorem genfrm_from_era5_writes : writes frm_from_era5_params prog_from_era5 = [] := by decide +kernel
theorem genfrm_calls_from_era5 : callsOk frm_from_era5_calls = true := by decide +kernel
theorem genfrm_unknown_from_era5 : frm_from_era5_unknown = [] := by decide
/-- frame: whatever statements of `from_era5` execute, in whatever order, no cell of any argument changes -/
theorem genfrm_from_era5_frame (h : Loc → Nat) (tr : List Stmt) (hsub : ∀ s ∈ tr, s ∈ prog_from_era5) (v : Var)
    (hv : v ∈ frm_from_era5_params) (c : Cell) : (exec tr (init frm_from_era5_params h)).heap (Loc.param v c) = h (Loc.param v c) :=
  frame_ir _ _ genfrm_from_era5_writes h tr hsub v hv c
example : ∀ s ∈ prog_from_era5.take 1, s ∈ prog_from_era5 := fun _ hs => List.mem_of_mem_take hs
example : (0 : Var) ∈ frm_from_era5_params := by decide

/-- `from_ndbc` (added in round 8): computed may-write set on the parameters' cells -/
theorem genfrm_from_ndbc_writes : writes frm_from_ndbc_params prog_from_ndbc = [] := by decide +kernel
theorem genfrm_calls_from_ndbc : callsOk frm_from_ndbc_calls = true := by decide +kernel
theorem genfrm_unknown_from_ndbc : frm_from_ndbc_unknown = ["_construct_spectra", "MAPPING.items"] := by decide
/-- frame: whatever statements of `from_ndbc` execute, in whatever order, no cell of any argument changes -/
theorem genfrm_from_ndbc_frame (h : Loc → Nat) (tr : List Stmt) (hsub : ∀ s ∈ tr, s ∈ prog_from_ndbc) (v : Var)
    (hv : v ∈ frm_from_ndbc_params) (c : Cell) : (exec tr (init frm_from_ndbc_params h)).heap (Loc.param v c) = h (Loc.param v c) :=
  frame_ir _ _ genfrm_from_ndbc_writes h tr hsub v hv c
example : ∀ s ∈ prog_from_ndbc.take 1, s ∈ prog_from_ndbc := fun _ hs => List.mem_of_mem_take hs
example : (0 : Var) ∈ frm_from_ndbc_params := by decide

/-- the translated operations whose regenerated write-set is empty: (name in the declared table, parameters, program) -/
def translatedOps : List (String × List Var × Prog) := [
  ("unique_indices", frm_unique_indices_params, prog_unique_indices),
  ("scaled", frm_scaled_params, prog_scaled),
  ("regrid_spec", frm_regrid_spec_params, prog_regrid_spec),
  ("smooth_spec", frm_smooth_spec_params, prog_smooth_spec),
  ("to_netcdf", frm_to_netcdf_params, prog_to_netcdf),
  ("to_ww3", frm_to_ww3_params, prog_to_ww3),
  ("to_funwave", frm_to_funwave_params, prog_to_funwave),
  ("from_ww3", frm_from_ww3_params, prog_from_ww3),
  ("from_ncswan", frm_from_ncswan_params, prog_from_ncswan),
  ("sa_split", frm_sa_split_params, prog_sa_split),
  ("sa_scale_by_hs", frm_sa_scale_by_hs_params, prog_sa_scale_by_hs),
  ("sa_rotate", frm_sa_rotate_params, prog_sa_rotate),
  ("sa_stats", frm_sa_stats_params, prog_sa_stats)]

/-- the declared table agrees with the regenerated sets on every translated operation with an empty set -/
theorem genfrm_table : ∀ op ∈ translatedOps, (WS.Frame.writesNew op.1).map id = (writes op.2.1 op.2.2).map (fun t => toFrame t.2) := by
  decide +kernel

/-- the historic defect (`from_ww3` / `from_ncswan` as found): `dset[efth] *= D2R` on the parameter is flagged.
    0 = dset, 1 = the object read by `dset[efth]` -/
def prog_historic : Prog := [.assign 1 (allOf 0), .store 1 .values, .store 0 .coords, .store 0 .dims]
theorem genfrm_historic_flagged : writes [0] prog_historic = [(0, .values), (0, .coords), (0, .dims)] := by decide +kernel
/-- … also through a shallow copy (`d = dset.copy(); d[efth] *= c`), and not through a deep one -/
theorem genfrm_historic_shallow : writes [0] [.assign 1 (cellsOf 0 [.values]), .assign 2 (allOf 1), .store 2 .values] = [(0, .values)] := by
  decide +kernel
theorem genfrm_historic_deep : writes [0] [.assign 1 [], .assign 2 (allOf 1), .store 2 .values] = [] := by decide +kernel
/-- the write is real in the semantics: executing the historic program bumps the caller's `values` -/
theorem genfrm_historic_exec (h : Loc → Nat) :
    (exec prog_historic (init [0] h)).heap (Loc.param 0 .values) = h (Loc.param 0 .values) + 1 := by
  simp [exec, prog_historic, step, init, allOf, gather, Cell.all]

end WS.C17

import WsVerif.Props.C03
import WsVerif.Props.C04sound
/-!
# C03 ∘ C04 — the watershed model feeds the assembly model: end-to-end conservation

`Props/C03.lean` proves conservation for `ptm1/2/3` under the hypothesis "every bin carries a label `≥ 1`" on an
**arbitrary** label map; `Props/C04sound.lean` proves that the label array returned by the transliteration of
`specpart.c` carries labels `1..K` at every bin as soon as it contains no `0`.  Here the two models are connected:

* `labelsOf nk nth r` — the returned label array `r.labels : Array Int` (row-major `[ifreq][iang]`, the order in which
  the assembly flattens the spectrum) read as the `List Nat` the assembly model takes; `binsOf E labs ws` zips a flattened
  spectrum, a label list and a wind-sea mask into the `List Bin` of `Model/Assembly.lean` (the same zip as
  `Ops/Assembly.lean`);
* `watershed_labels_cover`: `partition_sound.range/used` ⇒ every bin of `binsOf E (labelsOf …) ws` has a label `≥ 1` and
  `nparts = K` (the assembly's `watershed_map.max()` **is** the number of basins of C04);
* **`ptm3_conserves_with_watershed`, `ptm1_…`, `ptm2_…`**: for all `nk, nth, ihmax ≥ 1`, every non-constant integer
  spectrum handed to the watershed, every rational spectrum `E` on the same grid (no sign condition is needed for a
  requested count; `swells=None` of PTM1/2 needs `E ≥ 0`), every wind-sea mask, cutoff, sort key and every requested
  count `≥ K`: if the watershed leaves no bin at label `0`, the partitions add to `E` bin for bin;
* `ptm_constant_spectrum_loses_all`: a constant spectrum takes the early return of `partition` (all labels `0`), so
  `nparts = 0` and every partition of PTM1/2/3 is all-zero whatever `E` is — finding F04-constant, as a theorem about the
  composed model;
* `ptm_masks_from_smoothed_spectrum`: the label map may come from a *different* spectrum (the smoothed one): soundness,
  disjointness and conservation are statements about the original `E`;
* `partition_deterministic`: the watershed model has no hidden state.

The spectrum given to the watershed (`spec`, integers, see `Model/Specpart.lean`) and the spectrum that is split (`E`,
rationals) are independent arguments throughout.
-/
namespace WS.C03
open WS WS.Assembly

/-! ## the conversion watershed output → assembly input -/

/-- the returned label array (row-major `[ifreq][iang]`) as the label list of the assembly: entry `i = ifreq·nth + iang`
    is `labels[i]` (labels are never negative; `toNat` is the identity on them) -/
def labelsOf (nk nth : Nat) (r : SP.Result) : List Nat :=
  (List.range (nk * nth)).map fun i => (r.labels[i]!).toNat

/-- flattened spectrum, label list and wind-sea mask zipped into the assembly's bins (as `Ops/Assembly.lean` does) -/
def binsOf (E : Vec) (labs : List Nat) (ws : List Bool) : List Bin :=
  List.zipWith (fun (x : Rat) (lw : Nat × Bool) => (⟨x, lw.1, lw.2⟩ : Bin)) E (List.zip labs ws)

theorem labelsOf_length (nk nth : Nat) (r : SP.Result) : (labelsOf nk nth r).length = nk * nth := by
  simp [labelsOf]

/-- when the array has the grid's size (it always has), `labelsOf` is just the array as a list -/
theorem labelsOf_eq_toList (nk nth : Nat) (r : SP.Result) (h : r.labels.size = nk * nth) :
    labelsOf nk nth r = r.labels.toList.map Int.toNat := by
  apply List.ext_getElem
  · simp [labelsOf, h]
  · intro i h1 h2
    have hi : i < r.labels.size := by simpa using h2
    simp [labelsOf, getElem!_pos r.labels i hi]

section size
open Std.Do WS.SP WS.Fld
set_option mvcgen.warning false

/-- the returned label array always has one entry per bin (Hoare triple over the bounds-checking monad; the proof is the
    one of `Fld.partitionM_spec` with the size of `out` kept in the postcondition) -/
theorem partitionM_labels_size (nk nth ihmax : Nat) (spec : Array Int) (iqFill : Int) (tr : Bool)
    (hk : 1 ≤ nk) (ht : 1 ≤ nth) (hi : 1 ≤ ihmax) (hs : spec.size = nk * nth) :
    ⦃fun o => ⌜o = false⌝⦄ partitionM nk nth ihmax (Neigh.table nk nth) spec iqFill tr
    ⦃⇓ r o => ⌜o = false ∧ r.labels.size = nk * nth⌝⦄ := by
  have hnb := table_ok nk nth
  have hpos : 1 ≤ nk * nth := Nat.mul_pos hk ht
  have s1 := @ptsort_spec ihmax (nk * nth)
  have s2 := @ptFld_spec (nk * nth) (Neigh.table nk nth)
  mvcgen [partitionM, s1, s2]
  case inv1 => exact ⇓⟨_, z⟩ o => ⌜o = false ∧ z.size = nk * nth⌝
  case inv2 => exact ⇓⟨_, z⟩ o => ⌜o = false ∧ z.size = nk * nth⌝
  case inv3 => exact ⇓⟨_, zmin, zmax⟩ o => ⌜o = false ∧ (nk * nth ≤ 1 → zmax = zmin)⌝
  case inv4 => exact ⇓⟨_, out⟩ o => ⌜o = false ∧ out.size = nk * nth⌝
  case inv5 => exact ⇓⟨_, out⟩ o => ⌜o = false ∧ out.size = nk * nth⌝
  all_goals vcr; vcp
  all_goals try rfl
  all_goals try vco
  all_goals try (simp [*]; done)
  all_goals try (have h1 := idx_mk (mk := nk) (mth := nth) ‹_ < nk› ‹_ < nth›
                 have h2 := idx_km (mk := nk) (mth := nth) ‹_ < nk› ‹_ < nth›
                 omega)
  case vc18 | vc19 | vc20 => exact ⟨rfl, fun h => by omega⟩
  case vc25 =>
    exact map_level_bound _ hi _ _ _ _ (by omega)
  case vc31 =>
    have hne := ‹¬(_ == _) = true›
    apply Classical.byContradiction
    intro hlt
    have := ‹nk * nth ≤ 1 → _› (by omega)
    simp [this] at hne

/-- for all inputs `partition` returns `nk·nth` labels -/
theorem partition_labels_size (nk nth ihmax : Nat) (hk : 1 ≤ nk) (ht : 1 ≤ nth) (hi : 1 ≤ ihmax) (spec : Array Int)
    (hs : spec.size = nk * nth) (iqFill : Int) (tr : Bool) :
    (partition nk nth ihmax (Neigh.table nk nth) spec iqFill tr).labels.size = nk * nth :=
  ((triple_iff _ _ _).mp (partitionM_labels_size nk nth ihmax spec iqFill tr hk ht hi hs) false rfl).2

end size

/-- so for the watershed's output `labelsOf` **is** the returned array, entry for entry, in the order of the flattened
    spectrum -/
theorem labelsOf_partition (nk nth ihmax : Nat) (hk : 1 ≤ nk) (ht : 1 ≤ nth) (hi : 1 ≤ ihmax) (spec : Array Int)
    (hs : spec.size = nk * nth) (iqFill : Int) (tr : Bool) :
    labelsOf nk nth (SP.partition nk nth ihmax (Neigh.table nk nth) spec iqFill tr) =
      (SP.partition nk nth ihmax (Neigh.table nk nth) spec iqFill tr).labels.toList.map Int.toNat :=
  labelsOf_eq_toList nk nth _ (partition_labels_size nk nth ihmax hk ht hi spec hs iqFill tr)

theorem binsOf_length (E : Vec) (labs : List Nat) (ws : List Bool) (n : Nat) (hE : E.length = n)
    (hl : labs.length = n) (hw : ws.length = n) : (binsOf E labs ws).length = n := by
  simp [binsOf, hE, hl, hw]

theorem binsOf_getElem (E : Vec) (labs : List Nat) (ws : List Bool) (i : Nat) (h : i < (binsOf E labs ws).length) :
    (binsOf E labs ws)[i] =
      ⟨E[i]'(by simp [binsOf] at h; omega), labs[i]'(by simp [binsOf] at h; omega), ws[i]'(by simp [binsOf] at h; omega)⟩ := by
  simp [binsOf]

/-- the energies of the bins are the spectrum that is split -/
theorem binsOf_e (E : Vec) (labs : List Nat) (ws : List Bool) (n : Nat) (hE : E.length = n)
    (hl : labs.length = n) (hw : ws.length = n) : (binsOf E labs ws).map (·.e) = E := by
  apply List.ext_getElem
  · simp [binsOf, hE, hl, hw]
  · intro i h1 h2
    simp [binsOf]

/-- every bin's label is an entry of the label list (whatever the lengths) -/
theorem binsOf_lab_mem (E : Vec) (labs : List Nat) (ws : List Bool) : ∀ b ∈ binsOf E labs ws, b.lab ∈ labs := by
  intro b hb
  obtain ⟨i, hi, rfl⟩ := List.mem_iff_getElem.mp hb
  rw [binsOf_getElem]
  exact List.getElem_mem _

theorem nparts_le_of_forall (bins : List Bin) (K : Nat) (h : ∀ b ∈ bins, b.lab ≤ K) : nparts bins ≤ K := by
  induction bins with
  | nil => simp [nparts]
  | cons b t ih =>
    simp only [nparts]
    exact max_le (h b (by simp)) (ih fun x hx => h x (by simp [hx]))

/-! ## the watershed's labels cover the grid and `nparts` is the number of basins -/

/-- row-major index `i = f·nth + t` ↔ the C's pixel `p = f + nk·t`: the label the assembly sees at `i` is the label
    `labelAt` of `LabelSound` at `p` -/
theorem labelAt_rowmajor (nk nth : Nat) (labels : Array Int) (i : Nat) (hi : i < nk * nth) :
    i / nth + nk * (i % nth) < nk * nth ∧ C04.labelAt nk nth labels (i / nth + nk * (i % nth)) = labels[i]! := by
  have hnth : 0 < nth := by
    rcases Nat.eq_zero_or_pos nth with h | h
    · subst h; simp at hi
    · exact h
  have hf : i / nth < nk := Nat.div_lt_of_lt_mul (by rwa [Nat.mul_comm] at hi)
  have ht : i % nth < nth := Nat.mod_lt _ hnth
  refine ⟨NeighL.lin_lt hf ht, ?_⟩
  unfold C04.labelAt
  rw [NeighL.lin_mod nk _ _ hf, NeighL.lin_div nk _ _ hf, Nat.div_add_mod' i nth]

/-- **the bridge**: a label map that is `LabelSound` with `K` basins (what `partition_sound` delivers) gives the assembly
    bins that all carry a label `≥ 1`, and `nparts` (= `watershed_map.max()`) is exactly `K` -/
theorem labelSound_cover (nk nth : Nat) (hk : 1 ≤ nk) (ht : 1 ≤ nth) (r : SP.Result) (imi : Array Int) (K : Nat)
    (hS : C04.LabelSound (SP.graphOf nk nth (Neigh.rows nk nth) imi) (C04.labelAt nk nth r.labels) K)
    (E : Vec) (ws : List Bool) (hE : E.length = nk * nth) (hws : ws.length = nk * nth) :
    (∀ b ∈ binsOf E (labelsOf nk nth r) ws, 1 ≤ b.lab) ∧ nparts (binsOf E (labelsOf nk nth r) ws) = K := by
  have hn : (SP.graphOf nk nth (Neigh.rows nk nth) imi).n = nk * nth := rfl
  have hmem : ∀ l ∈ labelsOf nk nth r, 1 ≤ l ∧ l ≤ K := by
    intro l hl
    unfold labelsOf at hl
    obtain ⟨i, hi, rfl⟩ := List.mem_map.mp hl
    have hi : i < nk * nth := List.mem_range.mp hi
    obtain ⟨hp, e⟩ := labelAt_rowmajor nk nth r.labels i hi
    have := hS.range _ (by rw [hn]; exact hp)
    rw [e] at this
    omega
  have hlen := binsOf_length E (labelsOf nk nth r) ws (nk * nth) hE (labelsOf_length nk nth r) hws
  refine ⟨fun b hb => (hmem _ (binsOf_lab_mem _ _ _ b hb)).1, le_antisymm ?_ ?_⟩
  · exact nparts_le_of_forall _ K fun b hb => (hmem _ (binsOf_lab_mem _ _ _ b hb)).2
  · -- label `K` is in use
    have hpos : 0 < nk * nth := Nat.mul_pos hk ht
    have hK1 : 1 ≤ K := by
      have := hS.range 0 (by rw [hn]; exact hpos)
      omega
    obtain ⟨p, hp, hLp, -⟩ := hS.used K hK1 le_rfl
    rw [hn] at hp
    have hidx := (Fld.pix_decomp hp).2.2.2
    have hb : (binsOf E (labelsOf nk nth r) ws)[(p % nk) * nth + p / nk]'(by rw [hlen]; exact hidx) ∈
        binsOf E (labelsOf nk nth r) ws := List.getElem_mem _
    have hlab : ((binsOf E (labelsOf nk nth r) ws)[(p % nk) * nth + p / nk]'(by rw [hlen]; exact hidx)).lab = K := by
      rw [binsOf_getElem]
      unfold C04.labelAt at hLp
      simp only [labelsOf, List.getElem_map, List.getElem_range, hLp, Int.toNat_natCast]
    have := lab_le_nparts hb
    rw [hlab] at this
    exact this

/-- `K` of `LabelSound` is determined by the label map (so "the number of basins" is well defined) -/
theorem labelSound_K_unique (g : Flood.Graph) (L : Nat → Int) (K K' : Nat) (hn : 0 < g.n)
    (h : C04.LabelSound g L K) (h' : C04.LabelSound g L K') : K = K' := by
  have key : ∀ A B : Nat, C04.LabelSound g L A → C04.LabelSound g L B → A ≤ B := by
    intro A B hA hB
    have hA1 : 1 ≤ A := by have := hA.range 0 hn; omega
    obtain ⟨p, hp, hLp, -⟩ := hA.used A hA1 le_rfl
    have := (hB.range p hp).2
    omega
  exact le_antisymm (key K K' h h') (key K' K h' h)

/-- the composed statement about the watershed model's output: non-constant spectrum, no `0` left ⇒ there is `K` with
    `LabelSound … K`, every assembly bin carries a label `≥ 1`, and `nparts = K` -/
theorem watershed_labels_cover (nk nth ihmax : Nat) (hk : 1 ≤ nk) (ht : 1 ≤ nth) (hi : 1 ≤ ihmax) (spec : Array Int)
    (hs : spec.size = nk * nth) (iqFill : Int) (E : Vec) (ws : List Bool) (hE : E.length = nk * nth)
    (hws : ws.length = nk * nth) :
    let r := SP.partition nk nth ihmax (Neigh.table nk nth) spec iqFill true
    let bins := binsOf E (labelsOf nk nth r) ws
    r.const = false → (∀ i, i < nk * nth → r.labels[i]! ≠ 0) →
      ∃ K, C04.LabelSound (SP.graphOf nk nth (Neigh.rows nk nth) r.imi) (C04.labelAt nk nth r.labels) K ∧
        (∀ b ∈ bins, 1 ≤ b.lab) ∧ nparts bins = K ∧ bins.length = nk * nth := by
  intro r bins hc h0
  obtain ⟨K, hS⟩ := C04.partition_sound nk nth ihmax hk ht hi spec hs iqFill hc h0
  obtain ⟨h1, h2⟩ := labelSound_cover nk nth hk ht r r.imi K hS E ws hE hws
  exact ⟨K, hS, h1, h2, binsOf_length E _ ws _ hE (labelsOf_length nk nth r) hws⟩

/-! ## end-to-end conservation -/

/-- **PTM3 on the watershed's own label map conserves energy bin for bin.**  For every grid, level count, non-constant
    integer spectrum `spec` and queue filling: if the watershed leaves no bin at label `0`, then with `K` the number of
    basins (`LabelSound … K`, and `K = nparts`), for every spectrum `E` on the grid, every sort key and every requested
    count `s ≥ K` the `s` partitions of PTM3 add to `E` at every bin; so do the `K` partitions of `parts=None`. -/
theorem ptm3_conserves_with_watershed (nk nth ihmax : Nat) (hk : 1 ≤ nk) (ht : 1 ≤ nth) (hi : 1 ≤ ihmax)
    (spec : Array Int) (hs : spec.size = nk * nth) (iqFill : Int) (E : Vec) (ws : List Bool)
    (hE : E.length = nk * nth) (hws : ws.length = nk * nth) (key : Vec → Rat) :
    let r := SP.partition nk nth ihmax (Neigh.table nk nth) spec iqFill true
    let bins := binsOf E (labelsOf nk nth r) ws
    r.const = false → (∀ i, i < nk * nth → r.labels[i]! ≠ 0) →
      ∃ K, C04.LabelSound (SP.graphOf nk nth (Neigh.rows nk nth) r.imi) (C04.labelAt nk nth r.labels) K ∧
        nparts bins = K ∧
        (∀ s, K ≤ s → ∀ (i : Nat) (h : i < E.length), colSum (ptm3 key bins (some s)) i = E[i]) ∧
        (∀ (i : Nat) (h : i < E.length), colSum (ptm3 key bins none) i = E[i]) := by
  intro r bins hc h0
  obtain ⟨K, hS, hcov, hK, hlen⟩ := watershed_labels_cover nk nth ihmax hk ht hi spec hs iqFill E ws hE hws hc h0
  refine ⟨K, hS, hK, ?_, ?_⟩
  · intro s hKs i h
    have hib : i < bins.length := by rw [hlen, ← hE]; exact h
    rw [sum_exact_ptm3 key bins s hcov (by rw [hK]; exact hKs) i hib, binsOf_getElem]
  · intro i h
    have hib : i < bins.length := by rw [hlen, ← hE]; exact h
    rw [sum_exact_ptm3_none key bins hcov i hib, binsOf_getElem]

/-- **PTM1 on the watershed's label map conserves energy bin for bin**, for every wind-sea mask and cutoff: wind sea +
    `s ≥ K` swells add to `E`; with `swells=None` they do for a non-negative `E` -/
theorem ptm1_conserves_with_watershed (nk nth ihmax : Nat) (hk : 1 ≤ nk) (ht : 1 ≤ nth) (hi : 1 ≤ ihmax)
    (spec : Array Int) (hs : spec.size = nk * nth) (iqFill : Int) (E : Vec) (ws : List Bool)
    (hE : E.length = nk * nth) (hws : ws.length = nk * nth) (key : Vec → Rat) (wscut : Rat) :
    let r := SP.partition nk nth ihmax (Neigh.table nk nth) spec iqFill true
    let bins := binsOf E (labelsOf nk nth r) ws
    r.const = false → (∀ i, i < nk * nth → r.labels[i]! ≠ 0) →
      ∃ K, C04.LabelSound (SP.graphOf nk nth (Neigh.rows nk nth) r.imi) (C04.labelAt nk nth r.labels) K ∧
        nparts bins = K ∧
        (∀ s, K ≤ s → ∀ (i : Nat) (h : i < E.length), colSum (ptm1 key wscut bins (some s)) i = E[i]) ∧
        ((∀ e ∈ E, 0 ≤ e) → ∀ (i : Nat) (h : i < E.length), colSum (ptm1 key wscut bins none) i = E[i]) := by
  intro r bins hc h0
  obtain ⟨K, hS, hcov, hK, hlen⟩ := watershed_labels_cover nk nth ihmax hk ht hi spec hs iqFill E ws hE hws hc h0
  refine ⟨K, hS, hK, ?_, ?_⟩
  · intro s hKs i h
    have hib : i < bins.length := by rw [hlen, ← hE]; exact h
    rw [sum_exact_ptm1 key wscut bins s hcov (by rw [hK]; exact hKs) i hib, binsOf_getElem]
  · intro hnn i h
    have hib : i < bins.length := by rw [hlen, ← hE]; exact h
    have hnn' : ∀ b ∈ bins, 0 ≤ b.e := by
      intro b hb
      obtain ⟨j, hj, rfl⟩ := List.mem_iff_getElem.mp hb
      rw [binsOf_getElem]
      exact hnn _ (List.getElem_mem _)
    rw [(sum_exact_none key wscut bins hcov hnn' i hib).1, binsOf_getElem]

/-- **PTM2 on the watershed's label map conserves energy bin for bin**: primary + secondary wind sea + `s ≥ K` swells -/
theorem ptm2_conserves_with_watershed (nk nth ihmax : Nat) (hk : 1 ≤ nk) (ht : 1 ≤ nth) (hi : 1 ≤ ihmax)
    (spec : Array Int) (hs : spec.size = nk * nth) (iqFill : Int) (E : Vec) (ws : List Bool)
    (hE : E.length = nk * nth) (hws : ws.length = nk * nth) (key : Vec → Rat) (wscut : Rat) :
    let r := SP.partition nk nth ihmax (Neigh.table nk nth) spec iqFill true
    let bins := binsOf E (labelsOf nk nth r) ws
    r.const = false → (∀ i, i < nk * nth → r.labels[i]! ≠ 0) →
      ∃ K, C04.LabelSound (SP.graphOf nk nth (Neigh.rows nk nth) r.imi) (C04.labelAt nk nth r.labels) K ∧
        nparts bins = K ∧
        (∀ s, K ≤ s → ∀ (i : Nat) (h : i < E.length), colSum (ptm2 key wscut bins (some s)) i = E[i]) ∧
        ((∀ e ∈ E, 0 ≤ e) → ∀ (i : Nat) (h : i < E.length), colSum (ptm2 key wscut bins none) i = E[i]) := by
  intro r bins hc h0
  obtain ⟨K, hS, hcov, hK, hlen⟩ := watershed_labels_cover nk nth ihmax hk ht hi spec hs iqFill E ws hE hws hc h0
  refine ⟨K, hS, hK, ?_, ?_⟩
  · intro s hKs i h
    have hib : i < bins.length := by rw [hlen, ← hE]; exact h
    rw [sum_exact_ptm2 key wscut bins s hcov (by rw [hK]; exact hKs) i hib, binsOf_getElem]
  · intro hnn i h
    have hib : i < bins.length := by rw [hlen, ← hE]; exact h
    have hnn' : ∀ b ∈ bins, 0 ≤ b.e := by
      intro b hb
      obtain ⟨j, hj, rfl⟩ := List.mem_iff_getElem.mp hb
      rw [binsOf_getElem]
      exact hnn _ (List.getElem_mem _)
    rw [(sum_exact_none key wscut bins hcov hnn' i hib).2, binsOf_getElem]

/-! ## a constant spectrum loses everything (finding F04-constant, composed) -/

theorem colSum_all_zeros (bins : List Bin) (ps : List Part) (h : ∀ p ∈ ps, p = zeros bins) (i : Nat) :
    colSum ps i = 0 := by
  induction ps with
  | nil => simp [colSum]
  | cons p t ih =>
    rw [colSum_cons, ih fun q hq => h q (by simp [hq]), h p (by simp), zeros_vals_getD]
    simp

/-- **constant spectrum ⇒ nothing is returned.**  A constant spectrum handed to the watershed takes the early return of
    `partition` (`partition_constant`: every label `0`), so the assembly sees `nparts = 0` and, for **every** spectrum
    `E` (however much energy it holds), every wind-sea mask, cutoff, key and requested count, every partition of
    PTM1/2/3 is the all-zero array: all the energy is lost (compare `sum_exact_full_fails_constant`). -/
theorem ptm_constant_spectrum_loses_all (nk nth ihmax : Nat) (hk : 1 ≤ nk) (ht : 1 ≤ nth) (spec : Array Int)
    (hs : spec.size = nk * nth) (hconst : ∀ i, i < nk * nth → spec[i]! = spec[0]!) (iqFill : Int) (tr : Bool)
    (E : Vec) (ws : List Bool) (key : Vec → Rat) (wscut : Rat) (cnt : Option Nat) :
    let r := SP.partition nk nth ihmax (Neigh.table nk nth) spec iqFill tr
    let bins := binsOf E (labelsOf nk nth r) ws
    r.const = true ∧ nparts bins = 0 ∧
      (∀ p ∈ ptm1 key wscut bins cnt, p = zeros bins) ∧ (∀ p ∈ ptm2 key wscut bins cnt, p = zeros bins) ∧
      (∀ p ∈ ptm3 key bins cnt, p = zeros bins) ∧
      ∀ i, colSum (ptm1 key wscut bins cnt) i = 0 ∧ colSum (ptm2 key wscut bins cnt) i = 0 ∧
        colSum (ptm3 key bins cnt) i = 0 := by
  intro r bins
  obtain ⟨hc, hl, -⟩ := C04.partition_constant nk nth ihmax hk ht spec hs hconst iqFill tr
  have hlab : ∀ l ∈ labelsOf nk nth r, l = 0 := by
    intro l hl'
    unfold labelsOf at hl'
    obtain ⟨i, hi, rfl⟩ := List.mem_map.mp hl'
    have hi : i < nk * nth := List.mem_range.mp hi
    show (r.labels[i]!).toNat = 0
    rw [hl, getElem!_pos _ i (by simpa using hi)]
    simp
  have hn : nparts bins = 0 :=
    Nat.le_zero.mp (nparts_le_of_forall bins 0 fun b hb => by
      have := hlab _ (binsOf_lab_mem _ _ _ b hb)
      omega)
  obtain ⟨h1, h2, h3⟩ := constant_gives_nothing key wscut bins cnt hn
  exact ⟨hc, hn, h1, h2, h3, fun i =>
    ⟨colSum_all_zeros bins _ h1 i, colSum_all_zeros bins _ h2 i, colSum_all_zeros bins _ h3 i⟩⟩

/-! ## masks from another (smoothed) spectrum, no hidden state -/

/-- **the label map may come from a different spectrum.**  `specSm` (e.g. the smoothed spectrum, discretised) goes to the
    watershed, `Eorig` is what is split.  Unconditionally every output partition is `where(mask, Eorig, 0)` — its values
    are bins of the ORIGINAL spectrum or `0`, never of `specSm` — and no bin is in two partitions; when the watershed of
    `specSm` leaves no `0`, the partitions add to `Eorig` bin for bin for every requested count `≥ nparts`. -/
theorem ptm_masks_from_smoothed_spectrum (nk nth ihmax : Nat) (hk : 1 ≤ nk) (ht : 1 ≤ nth) (hi : 1 ≤ ihmax)
    (specSm : Array Int) (hs : specSm.size = nk * nth) (iqFill : Int) (Eorig : Vec) (ws : List Bool)
    (hE : Eorig.length = nk * nth) (hws : ws.length = nk * nth) (key : Vec → Rat) (wscut : Rat) :
    let r := SP.partition nk nth ihmax (Neigh.table nk nth) specSm iqFill true
    let bins := binsOf Eorig (labelsOf nk nth r) ws
    bins.map (·.e) = Eorig ∧
    (∀ cnt, (∀ p ∈ ptm1 key wscut bins cnt, BinSound bins p) ∧ (∀ p ∈ ptm2 key wscut bins cnt, BinSound bins p) ∧
      (∀ p ∈ ptm3 key bins cnt, BinSound bins p)) ∧
    (∀ cnt i, colCount (ptm1 key wscut bins cnt) i ≤ 1 ∧ colCount (ptm2 key wscut bins cnt) i ≤ 1 ∧
      colCount (ptm3 key bins cnt) i ≤ 1) ∧
    (r.const = false → (∀ i, i < nk * nth → r.labels[i]! ≠ 0) →
      ∀ s, nparts bins ≤ s → ∀ (i : Nat) (h : i < Eorig.length),
        colSum (ptm1 key wscut bins (some s)) i = Eorig[i] ∧ colSum (ptm2 key wscut bins (some s)) i = Eorig[i] ∧
          colSum (ptm3 key bins (some s)) i = Eorig[i]) := by
  intro r bins
  refine ⟨binsOf_e Eorig _ ws _ hE (labelsOf_length nk nth r) hws, ?_, ?_, ?_⟩
  · exact fun cnt => ⟨bin_sound_ptm1 key wscut bins cnt, bin_sound_ptm2 key wscut bins cnt, bin_sound_ptm3 key bins cnt⟩
  · exact fun cnt i => ⟨masks_disjoint_ptm1 key wscut bins cnt i, masks_disjoint_ptm2 key wscut bins cnt i,
      masks_disjoint_ptm3 key bins cnt i⟩
  · intro hc h0 s hs' i h
    obtain ⟨K1, -, hK1, h1, -⟩ :=
      ptm1_conserves_with_watershed nk nth ihmax hk ht hi specSm hs iqFill Eorig ws hE hws key wscut hc h0
    obtain ⟨K2, -, hK2, h2, -⟩ :=
      ptm2_conserves_with_watershed nk nth ihmax hk ht hi specSm hs iqFill Eorig ws hE hws key wscut hc h0
    obtain ⟨K3, -, hK3, h3, -⟩ :=
      ptm3_conserves_with_watershed nk nth ihmax hk ht hi specSm hs iqFill Eorig ws hE hws key hc h0
    exact ⟨h1 s (by rw [← hK1]; exact hs') i h, h2 s (by rw [← hK2]; exact hs') i h, h3 s (by rw [← hK3]; exact hs') i h⟩

/-- **no hidden state**: `partition` is a function of its arguments alone (grid, level count, neighbour table, spectrum,
    initial queue filling, trace flag) — equal inputs give the equal result record (labels, levels, order, trace, flags);
    in particular it reads no spectrum but `spec` -/
theorem partition_deterministic (nk nth ihmax : Nat) (nb nb' spec spec' : Array Int) (iqFill iqFill' : Int)
    (tr tr' : Bool) (hnb : nb = nb') (hspec : spec = spec') (hq : iqFill = iqFill') (htr : tr = tr') :
    SP.partition nk nth ihmax nb spec iqFill tr = SP.partition nk nth ihmax nb' spec' iqFill' tr' := by
  subst hnb hspec hq htr; rfl

/-! ## the hypotheses are satisfiable; concrete numbers -/

/-- the 2×4 two-peak spectrum of `C04sound`: not constant, no `0` left, label map `[1,2,2,1,1,2,2,1]` -/
def demoSpec : Array Int := #[9, 0, 7, 0, 1, 0, 1, 0]
/-- a spectrum to split that is *not* the one given to the watershed -/
def demoE : Vec := [1, 2, 3, 4, 5, 6, 7, 9]
def demoWs : List Bool := [true, false, false, false, true, false, false, false]

theorem demo_labels : (SP.partition 2 4 4 (Neigh.table 2 4) demoSpec 0 true).labels = #[1, 2, 2, 1, 1, 2, 2, 1] := by
  decide +kernel

theorem demo_hyps : (SP.partition 2 4 4 (Neigh.table 2 4) demoSpec 0 true).const = false ∧
    ∀ i, i < 2 * 4 → (SP.partition 2 4 4 (Neigh.table 2 4) demoSpec 0 true).labels[i]! ≠ 0 := by
  refine ⟨by decide +kernel, ?_⟩
  intro i hi
  rw [demo_labels]
  have : i = 0 ∨ i = 1 ∨ i = 2 ∨ i = 3 ∨ i = 4 ∨ i = 5 ∨ i = 6 ∨ i = 7 := by omega
  rcases this with rfl | rfl | rfl | rfl | rfl | rfl | rfl | rfl <;> decide

example : demoSpec.size = 2 * 4 ∧ demoE.length = 2 * 4 ∧ demoWs.length = 2 * 4 ∧ (∀ e ∈ demoE, 0 ≤ e) := by
  decide +kernel

example : labelsOf 2 4 (SP.partition 2 4 4 (Neigh.table 2 4) demoSpec 0 true) = [1, 2, 2, 1, 1, 2, 2, 1] := by
  decide +kernel

/-- the three theorems apply to it (all hypotheses hold together) … -/
example : ∃ K, nparts (binsOf demoE (labelsOf 2 4 (SP.partition 2 4 4 (Neigh.table 2 4) demoSpec 0 true)) demoWs) = K ∧
    ∀ s, K ≤ s → ∀ (i : Nat) (h : i < demoE.length),
      colSum (ptm3 (fun v => v.sum)
        (binsOf demoE (labelsOf 2 4 (SP.partition 2 4 4 (Neigh.table 2 4) demoSpec 0 true)) demoWs) (some s)) i = demoE[i] := by
  obtain ⟨K, -, hK, h, -⟩ := ptm3_conserves_with_watershed 2 4 4 (by decide) (by decide) (by decide) demoSpec rfl 0
    demoE demoWs rfl rfl (fun v => v.sum) demo_hyps.1 demo_hyps.2
  exact ⟨K, hK, h⟩

/-- … and this is what the composed model computes (the slots before the sort by `key`, which the kernel cannot unfold):
    two basins; PTM3 splits `demoE` into two complementary arrays; PTM2 (cutoff 1/3) into an empty primary wind sea, a
    secondary wind sea and two swells — adding to `demoE` at every bin -/
example : (ptm3Slots
      (binsOf demoE (labelsOf 2 4 (SP.partition 2 4 4 (Neigh.table 2 4) demoSpec 0 true)) demoWs)).map (·.vals) =
    [[1, 0, 0, 4, 5, 0, 0, 9], [0, 2, 3, 0, 0, 6, 7, 0]] := by decide +kernel
example :
    let bins := binsOf demoE (labelsOf 2 4 (SP.partition 2 4 4 (Neigh.table 2 4) demoSpec 0 true)) demoWs
    (ptm1Wsea (1/3) bins :: ptm2Wsea2 (1/3) bins :: ptm2Slots (1/3) bins).map (·.vals) =
      [[0, 0, 0, 0, 0, 0, 0, 0], [1, 0, 0, 0, 5, 0, 0, 0], [0, 0, 0, 4, 0, 0, 0, 9], [0, 2, 3, 0, 0, 6, 7, 0]] := by
  decide +kernel
example :
    let bins := binsOf demoE (labelsOf 2 4 (SP.partition 2 4 4 (Neigh.table 2 4) demoSpec 0 true)) demoWs
    (List.range 8).map (colSum (ptm1Wsea (1/3) bins :: ptm2Wsea2 (1/3) bins :: ptm2Slots (1/3) bins)) = demoE := by
  decide +kernel

/-- constant spectrum: the hypothesis of `ptm_constant_spectrum_loses_all` holds for `[3,3,3,3]`, and the composed model
    sees no basin (`nparts = 0`) for the spectrum `[3,3,3,3]` itself -/
example : ∀ i, i < 2 * 2 → (#[3, 3, 3, 3] : Array Int)[i]! = (#[3, 3, 3, 3] : Array Int)[0]! := by
  intro i hi
  have : i = 0 ∨ i = 1 ∨ i = 2 ∨ i = 3 := by omega
  rcases this with rfl | rfl | rfl | rfl <;> rfl
example : labelsOf 2 2 (SP.partition 2 2 4 (Neigh.table 2 2) #[3, 3, 3, 3] 0 false) = [0, 0, 0, 0] ∧
    nparts (binsOf [3, 3, 3, 3] (labelsOf 2 2 (SP.partition 2 2 4 (Neigh.table 2 2) #[3, 3, 3, 3] 0 false))
      [false, false, false, false]) = 0 := by decide +kernel

/-- `labelSound_cover`, `labelSound_K_unique`: a `LabelSound` label map exists (`partition_sound` on the demo) -/
example : ∃ K, C04.LabelSound (SP.graphOf 2 4 (Neigh.rows 2 4) (SP.partition 2 4 4 (Neigh.table 2 4) demoSpec 0 true).imi)
    (C04.labelAt 2 4 (SP.partition 2 4 4 (Neigh.table 2 4) demoSpec 0 true).labels) K :=
  C04.partition_sound 2 4 4 (by decide) (by decide) (by decide) demoSpec rfl 0 demo_hyps.1 demo_hyps.2
example : 0 < (SP.graphOf 2 4 (Neigh.rows 2 4) #[]).n := by decide
example : ∀ b ∈ ([⟨1, 2, false⟩, ⟨3, 1, true⟩] : List Bin), b.lab ≤ 2 := by decide
example : ∀ p ∈ [zeros C03.demo], p = zeros C03.demo := by simp
/-- `ptm_masks_from_smoothed_spectrum` on the demo: `demoSpec` plays the smoothed spectrum, `demoE` the original -/
example : ∀ s, nparts (binsOf demoE (labelsOf 2 4 (SP.partition 2 4 4 (Neigh.table 2 4) demoSpec 0 true)) demoWs) ≤ s →
    ∀ (i : Nat) (h : i < demoE.length), colSum (ptm1 (fun v => v.sum) (1/3)
      (binsOf demoE (labelsOf 2 4 (SP.partition 2 4 4 (Neigh.table 2 4) demoSpec 0 true)) demoWs) (some s)) i = demoE[i] :=
  fun s hs i h => ((ptm_masks_from_smoothed_spectrum 2 4 4 (by decide) (by decide) (by decide) demoSpec rfl 0 demoE demoWs
    rfl rfl (fun v => v.sum) (1/3)).2.2.2 demo_hyps.1 demo_hyps.2 s hs i h).1
/-- `partition_deterministic`: equal inputs exist -/
example : SP.partition 2 4 4 (Neigh.table 2 4) demoSpec 0 true = SP.partition 2 4 4 (Neigh.table 2 4) #[9, 0, 7, 0, 1, 0, 1, 0] 0 true :=
  partition_deterministic 2 4 4 _ _ _ _ 0 0 true true rfl rfl rfl rfl

end WS.C03

import WsVerif.Model.Stats
import WsVerif.Model.Consts
import WsVerif.Model.NpTwins
import WsVerif.Model.XrTwins
import WsVerif.Gen.XrKernels
import WsVerif.Lemmas.Sums
import WsVerif.Lemmas.XrBridge
import WsVerif.Lemmas.NpBridge
/-!
# C01 — T-tier, xarray level: the accessor methods of `SpecArray` are the model

`Gen/XrKernels.lean` is regenerated on every run by `harness/translate_xr.py` from the bodies of the accessor methods in
`wavespectra/specarray.py` (labelled-array grammar: broadcasting by dimension name, `.sum(dim=…)`, `x[{dim: -1}]`,
`.where`, method calls, guarded division).  Each theorem below identifies one generated definition with the hand-written
model (`Model/Stats.lean`, twins in `Model/XrTwins.lean`) for ALL inputs: every frequency / direction vector, every
matrix, every oracle table, every oracle `sqrt`.  `self.df` / `self.dd` are parameters of the method kernels; the
bridges instantiate them with the model's `Stats.df f` and an arbitrary `ddv` (as the model does), and
`genxr_df_eq` / `genxr_dd_eq` identify the regenerated properties themselves.
-/
namespace WS.C01
open WS WS.Stats

/-! ### coordinates, bin widths -/

theorem genxr_coords_src :
    Gen.xrFreq_src = "(self) return self._obj.freq" ∧
    Gen.xrDir_src = "(self) if attrs.DIRNAME in self._obj.dims:     return self._obj[attrs.DIRNAME] else:     return None" := by
  decide +kernel

/-- `SpecArray.dd` on a spectrum with a direction dimension -/
theorem genxr_dd_eq (d : Vec) : Gen.xrDd d = Stats.dd (some d) := by
  rcases d with _ | ⟨a, _ | ⟨b, rest⟩⟩ <;> simp [Gen.xrDd, Stats.dd, getR]

/-- `SpecArray.df` (`np.gradient`, or `[1.0]` for a single frequency) on a non-empty frequency axis -/
theorem genxr_df_eq (f : Vec) (h : f ≠ []) : Gen.xrDf f = Stats.df f := by
  rcases f with _ | ⟨a, _ | ⟨b, rest⟩⟩
  · exact absurd rfl h
  · simp [Gen.xrDf, Stats.df]
  · simp [Gen.xrDf, npGradient_eq_df]

example : ([1/8, 1/4, 1/2] : Vec) ≠ [] ∧ Gen.xrDf [1/8, 1/4, 1/2] = [1/8, 3/16, 1/4] := by decide +kernel

/-- `np.gradient` as read from numpy's documentation (slices) is the model's recursion -/
theorem genxr_gradient_eq (a b : ℚ) (rest : Vec) : XrT.npGradient (a :: b :: rest) = Stats.df (a :: b :: rest) :=
  npGradient_eq_df a b rest

theorem genxr_dd_guards : Gen.xrDd_guards = [("self.dir is not None", "and")] := by decide +kernel

/-! ### `oned`, `to_energy`, `hs`, `hrms` -/

theorem genxr_oned_eq (f d : Vec) (E : Mat) (dfv : Vec) (ddv : ℚ) : Gen.xrOned f d E dfv ddv = oned ddv E := by
  simp [Gen.xrOned, oned, List.map_map, Function.comp_def]

theorem genxr_oned_guards :
    Gen.xrOned_guards = [("self.dir is not None", "dsout = self._obj.copy(deep=True)")] := by decide +kernel

theorem genxr_to_energy_eq (f d : Vec) (E : Mat) (ddv : ℚ) :
    Gen.xrToEnergy f d E (df f) ddv = toEnergy ddv f E := by
  simp [Gen.xrToEnergy, toEnergy, List.map_zipWith, List.map_map, Function.comp_def]

/-- `hs = 4·sqrt(E)`: the radicand is the model's `hsE` with the property's constants -/
theorem genxr_hs_eq (f d : Vec) (E : Mat) (ddv : ℚ) (tail : Bool) :
    Gen.xrHsRad f d E (df f) ddv tail = hsE Consts.thr Consts.quarter tail f (oned ddv E) := by
  simp only [Gen.xrHsRad, genxr_oned_eq, hsE, m0E, dot, mulV, Consts.thr, Consts.quarter, gt_iff_lt]
  cases tail <;> by_cases h : (5998794703657501 : ℚ) / 18014398509481984 < lastD f <;> simp [h]

theorem genxr_hs_factor : Gen.xrHsFactor = 4 := by decide +kernel

/-- the defaults of the accessor signatures (`hs(tail=True)`, `hrms(tail=True)`, `momf(mom=0)`, `momd(mom=0, theta=90.0)`,
    `crsd(theta=90.0)`) -/
theorem genxr_defaults :
    Gen.xrHs_tail_default = true ∧ Gen.xrHrms_tail_default = true ∧ Gen.xrMomf_mom_default = 0 ∧
    Gen.xrMomd_mom_default = 0 ∧ Gen.xrMomd_theta_default = 90 ∧ Gen.xrCrsd_theta_default = 90 := by decide +kernel

theorem genxr_hs_full (sqrt : ℚ → ℚ) (f d : Vec) (E : Mat) (ddv : ℚ) (tail : Bool) :
    Gen.xrHs sqrt f d E (df f) ddv tail = 4 * sqrt (hsE Consts.thr Consts.quarter tail f (oned ddv E)) := by
  simp only [Gen.xrHs, genxr_hs_eq, genxr_hs_factor]

/-- `hrms = sqrt(8·E)` with the same `E` -/
theorem genxr_hrms_eq (f d : Vec) (E : Mat) (ddv : ℚ) (tail : Bool) :
    Gen.xrHrmsRad f d E (df f) ddv tail = hsE Consts.thr Consts.quarter tail f (oned ddv E) * 8 := by
  simp only [Gen.xrHrmsRad, genxr_oned_eq, hsE, m0E, dot, mulV, Consts.thr, Consts.quarter, gt_iff_lt]
  cases tail <;> by_cases h : (5998794703657501 : ℚ) / 18014398509481984 < lastD f <;> simp [h]

theorem genxr_hrms_full (sqrt : ℚ → ℚ) (f d : Vec) (E : Mat) (ddv : ℚ) (tail : Bool) :
    Gen.xrHrms sqrt f d E (df f) ddv tail = sqrt (hsE Consts.thr Consts.quarter tail f (oned ddv E) * 8) := by
  simp only [Gen.xrHrms, genxr_hrms_eq]

/-! ### frequency moments and the periods -/

theorem genxr_momf_eq (f d : Vec) (E : Mat) (ddv : ℚ) (k : Nat) :
    Gen.xrMomf f d E (df f) ddv k = momf k f (oned ddv E) := by
  simp only [Gen.xrMomf, genxr_oned_eq, momf, List.zipWith_map_right]

theorem genxr_tm01_eq (f d : Vec) (E : Mat) (ddv : ℚ) :
    Gen.xrTm01 f d E (df f) ddv = tm01 f (oned ddv E) := by
  simp only [Gen.xrTm01, genxr_momf_eq, tm01]

/-- `tm02 = sqrt(m0/m2)`: the radicand is the model's `tm02Sq` -/
theorem genxr_tm02_eq (f d : Vec) (E : Mat) (ddv : ℚ) :
    Gen.xrTm02Rad f d E (df f) ddv = tm02Sq f (oned ddv E) := by
  simp only [Gen.xrTm02Rad, genxr_momf_eq, tm02Sq]

theorem genxr_tm02_full (sqrt : ℚ → ℚ) (f d : Vec) (E : Mat) (ddv : ℚ) :
    Gen.xrTm02 sqrt f d E (df f) ddv = (tm02Sq f (oned ddv E)).map sqrt := by
  simp only [Gen.xrTm02, genxr_tm02_eq]

/-! ### directional moments, `dm`, `dspr`, `crsd` -/

/-- `momd(mom, theta)`: per-frequency sums against the `mom`-th powers of the sin / cos tables -/
theorem genxr_momd_eq (f d : Vec) (E : Mat) (dfv : Vec) (ddv : ℚ) (k : Nat) (theta : ℚ) (c s : Vec) :
    Gen.xrMomd f d E dfv ddv k theta c s =
      (momdRow ddv (s.map (· ^ k)) E, momdRow ddv (c.map (· ^ k)) E) := by
  simp only [Gen.xrMomd, mom1_rows]

/-- `momd(1)` (what `dm`, `dspr` use) is the model's pair of `momdRow`s -/
theorem genxr_momd1_eq (f d : Vec) (E : Mat) (dfv : Vec) (ddv : ℚ) (theta : ℚ) (c s : Vec) :
    Gen.xrMomd f d E dfv ddv 1 theta c s = (momdRow ddv s E, momdRow ddv c E) := by
  simp only [genxr_momd_eq, pow_one, List.map_id']

theorem genxr_momd_tables :
    Gen.xrMomd_cp_fn = "np.cos(np.radians(·))" ∧ Gen.xrMomd_sp_fn = "np.sin(np.radians(·))" ∧
    Gen.xrMomd_theta_default = 90 ∧
    Gen.xrMomd_guards = [("self.dir is None", "raise ValueError('Cannot calculate momd from 1d, frequency spectra.')")] := by
  decide +kernel

/-- the tables are `cos / sin` of `270° − θ_j` with the default `theta` -/
theorem genxr_momd_arg_eq (d : ℚ) :
    Gen.xrMomd_cp_arg Gen.xrMomd_theta_default d = Stats.momArg d ∧
    Gen.xrMomd_sp_arg Gen.xrMomd_theta_default d = Stats.momArg d := by
  unfold Gen.xrMomd_cp_arg Gen.xrMomd_sp_arg Gen.xrMomd_theta_default Stats.momArg
  constructor <;> ring

/-- `dm`: the arguments of `arctan2` are the model's unweighted frequency sums -/
theorem genxr_dm_eq (f d : Vec) (E : Mat) (dfv : Vec) (ddv : ℚ) (c s : Vec) :
    Gen.xrDmVec f d E dfv ddv c s = dmVec ddv s c E := by
  simp only [Gen.xrDmVec, genxr_momd1_eq, dmVec]

theorem genxr_dm_post_eq (pi a : ℚ) : Gen.xrDmPost pi a = Stats.dirOfAtan pi a := rfl

theorem genxr_dm_guards :
    Gen.xrDm_guards = [("self.dir is None", "raise ValueError('Cannot calculate dm from 1d, frequency spectra.')")] := by
  decide +kernel

/-- `dspr = sqrt(2·R2D²·(1 − sqrt(a²+b²)/e))`: the radicand, on the model's ingredients `(a, b, e)` -/
theorem genxr_dspr_eq (pi : ℚ) (sqrt : ℚ → ℚ) (f d : Vec) (E : Mat) (ddv : ℚ) (c s : Vec) :
    Gen.xrDsprRad pi sqrt f d E (df f) ddv c s = XrT.dsprRad pi sqrt (dsprABE ddv s c f E) := by
  simp only [Gen.xrDsprRad, genxr_momd1_eq, genxr_oned_eq, XrT.dsprRad, dsprABE, dot, mulV, Option.map_map,
    Function.comp_def]

theorem genxr_dspr_full (pi : ℚ) (sqrt : ℚ → ℚ) (f d : Vec) (E : Mat) (ddv : ℚ) (c s : Vec) :
    Gen.xrDspr pi sqrt f d E (df f) ddv c s = (XrT.dsprRad pi sqrt (dsprABE ddv s c f E)).map sqrt := by
  simp only [Gen.xrDspr, genxr_dspr_eq]

theorem genxr_dspr_guards :
    Gen.xrDspr_guards = [("self.dir is None", "raise ValueError('Cannot calculate dspr from 1d, frequency spectra.')")] := by
  decide +kernel

/-- `crsd`: per-frequency `Σ_j Δθ·E_ij·cos_j·sin_j` -/
theorem genxr_crsd_eq (f d : Vec) (E : Mat) (dfv : Vec) (ddv theta : ℚ) (c s : Vec) :
    Gen.xrCrsd f d E dfv ddv theta c s = XrT.crsdRow ddv c s E := by
  simp only [Gen.xrCrsd, XrT.crsdRow, List.map_map, Function.comp_def, crsd_row]

/-- … which is the first directional moment against the product table -/
theorem genxr_crsd_momd (f d : Vec) (E : Mat) (dfv : Vec) (ddv theta : ℚ) (c s : Vec) :
    Gen.xrCrsd f d E dfv ddv theta c s = momdRow ddv (mulV c s) E := by
  rw [genxr_crsd_eq, crsdRow_eq_momdRow]

theorem genxr_crsd_tables (pi d : ℚ) :
    Gen.xrCrsd_cp_fn = "np.cos(D2R * ·)" ∧ Gen.xrCrsd_sp_fn = "np.sin(D2R * ·)" ∧ Gen.xr_D2R pi = pi / 180 ∧
    Gen.xrCrsd_theta_default = 90 ∧
    Gen.xrCrsd_cp_arg Gen.xrCrsd_theta_default d = Stats.momArg d ∧
    Gen.xrCrsd_sp_arg Gen.xrCrsd_theta_default d = Stats.momArg d := by
  refine ⟨by decide +kernel, by decide +kernel, rfl, by decide +kernel, ?_, ?_⟩
  · unfold Gen.xrCrsd_cp_arg Gen.xrCrsd_theta_default Stats.momArg; ring
  · unfold Gen.xrCrsd_sp_arg Gen.xrCrsd_theta_default Stats.momArg; ring

/-! ### spectral widths -/

/-- `swe = sqrt(1 − m2²/(m0·m4))`, then `swe.where(swe >= 0.001, 1.0)` -/
theorem genxr_swe_eq (sqrt : ℚ → ℚ) (f d : Vec) (E : Mat) (ddv : ℚ) :
    Gen.xrSwe sqrt f d E (df f) ddv = XrT.sweFull sqrt XrT.milli 1 (sweSq f (oned ddv E)) := by
  simp only [Gen.xrSwe, genxr_momf_eq]
  exact where_ge_eq sqrt XrT.milli 1 (sweSq f (oned ddv E))

/-- `swe` is never NaN: the `where` replaces NaN (and values below the cut) by 1 -/
theorem genxr_swe_some (sqrt : ℚ → ℚ) (f d : Vec) (E : Mat) (ddv : ℚ) :
    ∃ v, Gen.xrSwe sqrt f d E (df f) ddv = some v := by
  rw [genxr_swe_eq]
  unfold XrT.sweFull
  split
  · split <;> exact ⟨_, rfl⟩
  · exact ⟨_, rfl⟩

/-- `sw = sqrt(m0·m2/m1² − 1)`, then `sw.where(hs >= 0.001)` with `hs = 4·sqrt(hsE)` (tail on) -/
theorem genxr_sw_eq (sqrt : ℚ → ℚ) (f d : Vec) (E : Mat) (ddv : ℚ) :
    Gen.xrSw sqrt f d E (df f) ddv =
      XrT.swFull sqrt XrT.milli 4 (hsE Consts.thr Consts.quarter true f (oned ddv E)) (swSq f (oned ddv E)) := by
  simp only [Gen.xrSw, Gen.xrHs_tail_default, genxr_momf_eq, genxr_hs_full, XrT.swFull, swSq, XrT.milli, ge_iff_le, decide_eq_true_eq]
  rfl

/-- `gw = sqrt(m0h/tm02² − m0h²/tm01²)`, `m0h = (hs/4)²`: the radicand is the model's `gwSq` for every oracle `sqrt` that
    squares back on the two radicands it is applied to (`hsE` and `tm02Sq`) -/
theorem genxr_gw_eq (sqrt : ℚ → ℚ) (f d : Vec) (E : Mat) (ddv : ℚ)
    (h1 : sqrt (hsE Consts.thr Consts.quarter true f (oned ddv E)) ^ 2 = hsE Consts.thr Consts.quarter true f (oned ddv E))
    (h2 : (tm02Sq f (oned ddv E)).map (fun t => sqrt t ^ 2) = tm02Sq f (oned ddv E)) :
    Gen.xrGwRad sqrt f d E (df f) ddv = gwSq Consts.thr Consts.quarter f (oned ddv E) := by
  simp only [Gen.xrGwRad, Gen.xrHs_tail_default, genxr_hs_full, genxr_tm02_full, genxr_tm01_eq]
  exact gw_core sqrt _ _ _ h1 h2

theorem genxr_gw_full (sqrt : ℚ → ℚ) (f d : Vec) (E : Mat) (ddv : ℚ)
    (h1 : sqrt (hsE Consts.thr Consts.quarter true f (oned ddv E)) ^ 2 = hsE Consts.thr Consts.quarter true f (oned ddv E))
    (h2 : (tm02Sq f (oned ddv E)).map (fun t => sqrt t ^ 2) = tm02Sq f (oned ddv E)) :
    Gen.xrGw sqrt f d E (df f) ddv = (gwSq Consts.thr Consts.quarter f (oned ddv E)).map sqrt := by
  simp only [Gen.xrGw, genxr_gw_eq sqrt f d E ddv h1 h2]

/-- the twin `gwCore` is the arithmetic of the model's `gwSq` -/
theorem gwSq_eq_gwCore (thr quarter : ℚ) (f S : Vec) :
    gwSq thr quarter f S = XrT.gwCore (hsE thr quarter true f S) (tm02Sq f S) (tm01 f S) := rfl

/-- the hypotheses of `genxr_gw_eq` are satisfiable: one frequency `f = 1`, `S = 5`: `hsE = 5 + 5/4 = (5/2)²`, `tm02² = 1` -/
example : let sqrt : ℚ → ℚ := fun x => if x = 25 / 4 then 5 / 2 else 1
    sqrt (hsE Consts.thr Consts.quarter true [1] (oned 1 [[5]])) ^ 2 = hsE Consts.thr Consts.quarter true [1] (oned 1 [[5]]) ∧
    (tm02Sq [1] (oned 1 [[5]])).map (fun t => sqrt t ^ 2) = tm02Sq [1] (oned 1 [[5]]) ∧
    Gen.xrGwRad sqrt [1] [0] [[5]] (df [1]) 1 = some (25 / 4 - (25 / 4) ^ 2) := by
  decide +kernel

/-- Goda peakedness -/
theorem genxr_goda_eq (f d : Vec) (E : Mat) (ddv : ℚ) :
    Gen.xrGoda f d E (df f) ddv = goda f (oned ddv E) := by
  simp only [Gen.xrGoda, genxr_oned_eq, goda, m0E, dot, mulV, divOpt, List.zipWith_map_left]
  split <;> simp_all

/-! ### the accessors that only delegate -/

theorem genxr_peak_delegates :
    Gen.xrDp_src = "(self) return xrstats.peak_wave_direction(self._obj)" ∧
    Gen.xrDpm_src = "(self) return xrstats.mean_direction_at_peak_wave_period(self._obj)" := by decide +kernel

/-! ### the properties and the methods together -/

/-- with the regenerated `df` / `dd` as the bin widths the radicand of `hs` is the model's, on the model's own widths -/
theorem genxr_hs_composed (f d : Vec) (E : Mat) (tail : Bool) (h : f ≠ []) :
    Gen.xrHsRad f d E (Gen.xrDf f) (Gen.xrDd d) tail =
      hsE Consts.thr Consts.quarter tail f (oned (Stats.dd (some d)) E) := by
  rw [genxr_df_eq f h, genxr_dd_eq, genxr_hs_eq]

/-- non-vacuity: 3×2 spectrum, `Δθ = min(340, 20) = 20`, tail active (0.5 > 0.333) -/
example : Gen.xrHsRad [1/8, 1/4, 1/2] [350, 10] [[1, 2], [0, 3], [4, 1]] (Gen.xrDf [1/8, 1/4, 1/2]) (Gen.xrDd [350, 10]) true =
    (20 * 3) * (1/8) + (20 * 3) * (3/16) + (20 * 5) * (1/4) + (1/4) * (20 * 5) * (1/2) := by decide +kernel

end WS.C01

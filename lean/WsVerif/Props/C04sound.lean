import WsVerif.Props.C04
import WsVerif.Props.C20fld
import WsVerif.Lemmas.Fld.GSound
import WsVerif.Lemmas.Fld.GConst
/-!
# C04, end to end on the model: the label map returned by `partition` is a correct watershed

`Props/C04.lean` proves the postcondition of the **abstract** flooding machine for every valid complete trace
(`flood_sound_full`); `Props/C20fld.lean` proves that the transliteration of `specpart.c` always emits a valid trace whose
abstract labels are the returned label map (`partition_trace_valid`, `partition_abstract_final`).  Here the two are
composed into a statement about the **returned label array** alone:

* `partition_complete`: a returned label map without `0` entry means the abstract run is `Flood.Complete`;
* **`partition_sound`**: for all `nk, nth, ihmax ≥ 1`, every non-constant spectrum and every filling of the queue buffer,
  if the returned label map has no `0` entry then it satisfies `LabelSound` on the cylinder graph with the discretised
  level map: (a) every bin carries a label in `1..K`; (b) every label `1..K` is used, basin `k` contains a regional
  minimum of the level map (= regional maximum of the discretised spectrum) together with its whole plateau, and it is
  the only one it contains; every regional minimum lies, with its whole plateau, in one basin — basins ↔ regional
  minima one-to-one; (c) every basin is connected under the 8-neighbour cylinder adjacency (`graphOf_is_cylinder`);
* the hypothesis "no `0` entry" is needed: `C04.five_sweeps_complete_fails` (finding F04-thick-wshed) is a spectrum on
  which label `0` survives the five clean-up sweeps (`no_zero_hypothesis_needed` restates it next to the theorem);
* `partition_constant`: a constant spectrum takes the early-return branch: all labels `0`, no trace.

These are theorems about the Lean transliteration (`Model/Specpart.lean`, run with its ghost trace); the tie to the real C
is the exact comparison of label maps in `harness/checks/c04.py`.
-/
namespace WS.C04
open WS.Neigh WS.NeighL WS.Flood WS.FloodL WS.SP WS.Fld

/-- returned label of pixel `p = ifreq + nk·iang` (the C's internal numbering): entry `[ifreq][iang]` of the row-major
    label map -/
def labelAt (nk nth : Nat) (labels : Array Int) (p : Nat) : Int := labels[(p % nk) * nth + p / nk]!

/-- the C04 postcondition for a label map `L` on a graph `g` with `K` basins -/
structure LabelSound (g : Graph) (L : Nat → Int) (K : Nat) : Prop where
  /-- (a) every vertex carries one label in `1..K` -/
  range : ∀ p, p < g.n → 1 ≤ L p ∧ L p ≤ K
  /-- (b) every label `k` in `1..K` is used: basin `k` contains a regional minimum `p` of the level map with its whole
      plateau, and every regional minimum inside basin `k` lies on that plateau -/
  used : ∀ k : Nat, 1 ≤ k → k ≤ K → ∃ p, p < g.n ∧ L p = k ∧ RegMin g p ∧ (∀ x, Plateau g p x → L x = k) ∧
    ∀ p', RegMin g p' → L p' = k → Plateau g p p'
  /-- (b) every regional minimum lies with its whole plateau inside one basin -/
  minima : ∀ x0, RegMin g x0 → ∀ x, Plateau g x0 x → L x = L x0
  /-- (c) two vertices with the same label are joined by a path of adjacent vertices carrying that label -/
  connected : ∀ p p', p < g.n → p' < g.n → L p = L p' → Conn g (fun x => x < g.n ∧ L x = L p) p p'

/-- the graph of the statement is the 8-adjacency of the frequency × direction cylinder (frequency bounded, direction
    circular): `y` is adjacent to `i + nk·j` iff `y = a + nk·b` for a neighbour `(a, b)` of `(i, j)` in the sense of
    `neigh_is_cylinder_8adjacency`; its level map is the discretised spectrum -/
theorem graphOf_is_cylinder (nk nth : Nat) (imi : Array Int) (i j : Nat) (hi : i < nk) (hj : j < nth) (y : Nat) :
    y ∈ (graphOf nk nth (rows nk nth) imi).adj (i + nk * j) ↔ ∃ a b, (a, b) ∈ neighIJ nk nth i j ∧ y = a + nk * b := by
  rw [graphOf_adj nk nth imi (lin_lt hi hj), NeighL.neigh_spec nk nth i j hi hj, List.mem_map]
  constructor
  · rintro ⟨⟨a, b⟩, h, rfl⟩; exact ⟨a, b, h, rfl⟩
  · rintro ⟨a, b, h, rfl⟩; exact ⟨(a, b), h, rfl⟩

/-- a returned label map without `0` means that the abstract run is `Complete` (and ends on the returned labels) -/
theorem partition_complete (nk nth ihmax : Nat) (hk : 1 ≤ nk) (ht : 1 ≤ nth) (hi : 1 ≤ ihmax) (spec : Array Int)
    (hs : spec.size = nk * nth) (iqFill : Int) :
    let r := partition nk nth ihmax (table nk nth) spec iqFill true
    let g := graphOf nk nth (rows nk nth) r.imi
    r.const = false → (∀ i, i < nk * nth → r.labels[i]! ≠ 0) →
      ∃ s, run g r.trace.toList = some s ∧ Complete g s ∧
        ∀ p, p < nk * nth → s.labOf p = labC (labelAt nk nth r.labels p) := by
  intro r g hc h0
  obtain ⟨s, hrun, hph, hh, hlab⟩ := C20fld.partition_abstract_final nk nth ihmax hk ht hi spec hs iqFill hc
  have hL : ∀ p, p < nk * nth → s.labOf p = labC (labelAt nk nth r.labels p) := by
    intro p hp
    obtain ⟨h1, h2, h3, -⟩ := pix_decomp hp
    have := hlab (p % nk) (p / nk) h1 h2
    rw [← h3] at this
    exact this
  refine ⟨s, hrun, ?_, hL⟩
  unfold Complete completeB
  rw [Bool.and_eq_true, List.all_eq_true]
  refine ⟨by rcases hph with h | h <;> simp [h], ?_⟩
  intro x hx
  have hx : x < nk * nth := List.mem_range.mp hx
  rw [Bool.and_eq_true]
  refine ⟨by simpa using hh x hx, ?_⟩
  rw [bne_iff_ne, hL x hx]
  intro e
  exact h0 _ (pix_decomp hx).2.2.2 ((labC_wshed_iff _).mp e)

/-- **C04 for the transliteration of `specpart.c`, end to end.**  For every grid, every level count, every non-constant
    integer spectrum and every filling of the queue buffer: if the returned label map contains no `0` (no
    watershed-line pixel is left after the five sweeps), then it is a correct watershed of the discretised spectrum on
    the cylinder: labels `1..K`, all used, basins ↔ regional minima of the level map one-to-one with each basin
    containing the whole plateau of its minimum, every basin connected.  (`K` is determined by the label map: it is
    its largest label.) -/
theorem partition_sound (nk nth ihmax : Nat) (hk : 1 ≤ nk) (ht : 1 ≤ nth) (hi : 1 ≤ ihmax) (spec : Array Int)
    (hs : spec.size = nk * nth) (iqFill : Int) :
    let r := partition nk nth ihmax (table nk nth) spec iqFill true
    r.const = false → (∀ i, i < nk * nth → r.labels[i]! ≠ 0) →
      ∃ K, LabelSound (graphOf nk nth (rows nk nth) r.imi) (labelAt nk nth r.labels) K := by
  intro r hc h0
  obtain ⟨s, hrun, hcomp, hL⟩ := partition_complete nk nth ihmax hk ht hi spec hs iqFill hc h0
  generalize hg : graphOf nk nth (rows nk nth) r.imi = g at *
  have hgn : g.n = nk * nth := by rw [← hg]; rfl
  have wf : WF g := by rw [← hg]; exact graphOf_wf nk nth r.imi
  generalize hLd : labelAt nk nth r.labels = L at *
  have hL : ∀ p, p < g.n → s.labOf p = labC (L p) := fun p hp => hL p (by rw [← hgn]; exact hp)
  obtain ⟨P, hseed, hmin⟩ := flood_sound_full g wf _ s hrun hcomp
  have I := run_inv hrun
  have hlt : ∀ x k, s.labOf x = .basin k → x < g.n := by
    intro x k hl
    have := getD_lt_of_ne s.lab x .init (by unfold St.labOf at hl; rw [hl]; intro hc; cases hc)
    rw [I.szLab] at this; exact this
  -- decoding: abstract label `basin k` ↔ returned label `k`
  have hdec : ∀ x k, 1 ≤ k → (s.labOf x = .basin k ↔ x < g.n ∧ L x = (k : Int)) := by
    intro x k hk1
    constructor
    · intro hl
      have hx := hlt x k hl
      rw [hL x hx] at hl
      exact ⟨hx, labC_basin hl hk1⟩
    · rintro ⟨hx, hl⟩
      rw [hL x hx, hl, labC_pos (by omega), Int.toNat_natCast]
  refine ⟨s.K, ?_, ?_, ?_, ?_⟩
  · intro p hp
    obtain ⟨k, h1, h2, hl⟩ := P.labelled p hp
    have := ((hdec p k h1).mp hl).2
    omega
  · intro k h1 h2
    obtain ⟨p, hp, hsd, hl⟩ := P.allUsed k h1 h2
    obtain ⟨hrm, hpl⟩ := hseed k p hsd
    refine ⟨p, hp, ((hdec p k h1).mp hl).2, hrm, fun x hx => ((hdec x k h1).mp (hpl x hx)).2, ?_⟩
    intro p' hr' hl'
    obtain ⟨k', p'', hs'', hpl'', hall⟩ := hmin p' hr'
    have hk' : 1 ≤ k' := (I.range p'' k' (I.seedFB k' p'' hs'').2).1
    have hself := hall p' (.refl ⟨hr'.1, rfl⟩)
    have := ((hdec p' k' hk').mp hself).2
    have hkk : k' = k := by omega
    subst hkk
    rw [hsd] at hs''
    injection hs'' with hs''
    subst hs''
    exact hpl''.swap wf
  · intro x0 hr x hx
    obtain ⟨k, p, hsd, hpl, hall⟩ := hmin x0 hr
    have hk1 : 1 ≤ k := (I.range p k (I.seedFB k p hsd).2).1
    rw [((hdec x k hk1).mp (hall x hx)).2, ((hdec x0 k hk1).mp (hall x0 (.refl ⟨hr.1, rfl⟩))).2]
  · intro p p' hp hp' he
    obtain ⟨k, h1, h2, hl⟩ := P.labelled p hp
    have hLp := ((hdec p k h1).mp hl).2
    have hl' : s.labOf p' = .basin k := (hdec p' k h1).mpr ⟨hp', by rw [← he]; exact hLp⟩
    have := basin_connected g wf.symm _ s hrun hcomp p p' k hl hl'
    exact Conn_mono (fun x hx => by
      have := (hdec x k h1).mp hx
      exact ⟨this.1, by rw [this.2, hLp]⟩) this

/-- non-vacuity: a 2×4 spectrum with two peaks (9 and 7) is partitioned into two basins without watershed pixel … -/
example :
    let r := partition 2 4 4 (table 2 4) #[9, 0, 7, 0, 1, 0, 1, 0] 0 true
    r.const = false ∧ (∀ i, i < 2 * 4 → r.labels[i]! ≠ 0) ∧ r.labels = #[1, 2, 2, 1, 1, 2, 2, 1] := by
  refine ⟨by decide +kernel, ?_, by decide +kernel⟩
  have h : (partition 2 4 4 (table 2 4) #[9, 0, 7, 0, 1, 0, 1, 0] 0 true).labels = #[1, 2, 2, 1, 1, 2, 2, 1] := by
    decide +kernel
  intro i hi
  rw [h]
  have : i = 0 ∨ i = 1 ∨ i = 2 ∨ i = 3 ∨ i = 4 ∨ i = 5 ∨ i = 6 ∨ i = 7 := by omega
  rcases this with rfl | rfl | rfl | rfl | rfl | rfl | rfl | rfl <;> decide

/-- … so `partition_sound` applies to it -/
example : ∃ K, LabelSound (graphOf 2 4 (rows 2 4) (partition 2 4 4 (table 2 4) #[9, 0, 7, 0, 1, 0, 1, 0] 0 true).imi)
    (labelAt 2 4 (partition 2 4 4 (table 2 4) #[9, 0, 7, 0, 1, 0, 1, 0] 0 true).labels) K := by
  have h : (partition 2 4 4 (table 2 4) #[9, 0, 7, 0, 1, 0, 1, 0] 0 true).labels = #[1, 2, 2, 1, 1, 2, 2, 1] := by
    decide +kernel
  refine partition_sound 2 4 4 (by decide) (by decide) (by decide) _ rfl 0 (by decide +kernel) ?_
  intro i hi
  rw [h]
  have : i = 0 ∨ i = 1 ∨ i = 2 ∨ i = 3 ∨ i = 4 ∨ i = 5 ∨ i = 6 ∨ i = 7 := by omega
  rcases this with rfl | rfl | rfl | rfl | rfl | rfl | rfl | rfl <;> decide

/-- **the hypothesis "no `0` entry" cannot be dropped** (finding F04-thick-wshed, `five_sweeps_complete_fails`): on the
    8×4 corridor spectrum the returned label map keeps label `0` on its last row, so clause (a) of `LabelSound` fails
    for it whatever `K` -/
theorem no_zero_hypothesis_needed :
    let r := partition 8 4 9 (table 8 4) thickWshedGrid 0 true
    r.const = false ∧ ¬ ∃ K, LabelSound (graphOf 8 4 (rows 8 4) r.imi) (labelAt 8 4 r.labels) K := by
  intro r
  refine ⟨by decide +kernel, ?_⟩
  rintro ⟨K, hS⟩
  have h28 : r.labels[28]! = 0 := by decide +kernel
  have := (hS.range 7 (by decide)).1
  have e : labelAt 8 4 r.labels 7 = r.labels[28]! := rfl
  rw [e, h28] at this
  omega

/-! ## the constant-spectrum branch -/

/-- a constant spectrum (`zmax = zmin`) takes the early return of `partition`: every label is `0` (no partition at
    all: the caller sees `npart = 0`), no flooding step is performed, no array is accessed out of range -/
theorem partition_constant (nk nth ihmax : Nat) (hk : 1 ≤ nk) (ht : 1 ≤ nth) (spec : Array Int)
    (hs : spec.size = nk * nth) (hconst : ∀ i, i < nk * nth → spec[i]! = spec[0]!) (iqFill : Int) (tr : Bool) :
    let r := partition nk nth ihmax (table nk nth) spec iqFill tr
    r.const = true ∧ r.labels = Array.replicate (nk * nth) 0 ∧ r.trace = #[] ∧ r.oob = false ∧ r.fuelOut = false := by
  intro r
  have h := (triple_iff _ _ _).mp (partitionM_const nk nth ihmax spec iqFill tr hk ht hs hconst) false rfl
  exact ⟨h.2.1, h.2.2.1, h.2.2.2.1, h.1, h.2.2.2.2⟩

example : ∀ i, i < 2 * 2 → (#[3, 3, 3, 3] : Array Int)[i]! = (#[3, 3, 3, 3] : Array Int)[0]! := by
  intro i hi
  have : i = 0 ∨ i = 1 ∨ i = 2 ∨ i = 3 := by omega
  rcases this with rfl | rfl | rfl | rfl <;> rfl

/-- conversely a non-constant spectrum does not take that branch (so `partition_sound` speaks about it) -/
example : (partition 2 4 4 (table 2 4) #[9, 0, 7, 0, 1, 0, 1, 0] 0 true).const = false := by decide +kernel

end WS.C04

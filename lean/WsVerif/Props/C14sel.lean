import WsVerif.Lemmas.SelBridge
import WsVerif.Gen.LonConv
import WsVerif.Gen.SelKernels
/-!
# C14, T-tier: the decision logic of `wavespectra/core/select.py` regenerated from the source

`harness/translate_sel.py` translates `Coordinates.__init__/_validate/_swap_longitude_convention/lons/distance/nearer/
nearest` and the decision parts of `sel_nearest`, `sel_idw`, `sel_bbox` into `Gen/SelKernels.lean` on every run
(vocabulary `Model/SelRt.lean`).  The theorems below identify each generated definition with the hand-written model
(`Model/Select.lean` with the repaired distance / box of `Model/SelectFixed.lean` — the code as it is now) **for all
inputs**.  Every property theorem of `Props/C14.lean` (section `Fixed`) is about that model, so with these bridges it
is a theorem about what the source says *now*; an edit of the source changes the generated text and a bridge stops
compiling.

Square roots: the generated kernels take the oracle `sqrt : ℚ → ℚ` as their first parameter and return
`np.abs(np.sqrt(·))`; the model applies its oracle `sq` bare.  The bridges are stated with the model's oracle
`fun x => absR (sqrt x)` (no hypothesis), and `gensel_oracle_nonneg` removes the `absR` for an oracle that is
non-negative — which the driver checks for every table entry (`Ops/Select.lean`, `sqEntryOk`) and `SqrtOn` states.
-/
namespace WS.C14
open WS WS.Select WS.Sel WS.SelBridge

/-- for a non-negative oracle the `np.abs` around `np.sqrt` is the identity -/
theorem gensel_oracle_nonneg (sqrt : ℚ → ℚ) (h : ∀ x, 0 ≤ sqrt x) : absSq sqrt = sqrt := by
  funext x; exact absR_of_nonneg (h x)

/-- an exact square-root oracle stays one under `np.abs` -/
theorem gensel_oracle_sqrtOn (sqrt : ℚ → ℚ) (S : List ℚ) (h : SqrtOn sqrt S) : SqrtOn (absSq sqrt) S := by
  intro x hx
  obtain ⟨h0, h1⟩ := h x hx
  unfold absSq
  rw [absR_of_nonneg h0]
  exact ⟨h0, h1⟩

/-! ## longitude conventions -/

/-- `_is_180` / `_is_360` (scalar kernels of `translate.py`, `Gen/LonConv.lean`; the same statements as `C14.is180_bridge`,
    `C14.is360_bridge`, repeated here so that this file does not depend on `Props/C14.lean`) -/
theorem gensel_is180_eq : Gen.is180 = Select.is180 := by
  funext a
  unfold Gen.is180 Select.is180
  cases h : (decide (arrMin a < (0 : ℚ)) && decide (arrMax a ≤ (180 : ℚ))) <;> simp

theorem gensel_is360_eq : Gen.is360 = Select.is360 := by
  funext a
  unfold Gen.is360 Select.is360
  cases h : (decide (arrMin a ≥ (0 : ℚ)) && decide (arrMax a ≤ (360 : ℚ))) <;> simp

/-- `_swap_longitude_convention` -/
theorem gensel_swap_eq (a : Vec) : Gen.selSwap a = swapConv a := by
  unfold Gen.selSwap swapConv
  rw [gensel_is180_eq, gensel_is360_eq]
  have h : maskSet a (vgtS a 180) (vsubS (maskGet a (vgtS a 180)) 360) = a.map to180 := by
    show maskSet a (a.map fun x => decide (x > 180)) ((maskGet a (a.map fun x => decide (x > 180))).map fun x => x - 360) = _
    rw [maskSet_map]
    apply List.map_congr_left
    intro x _
    simp [to180]
  simp only [h]
  rfl

/-- the `consistent` flag of `__init__` -/
theorem gensel_consistent_eq (ql dl : Vec) : Gen.selConsistent ql dl = consistent ql dl := by
  unfold Gen.selConsistent consistent
  rw [gensel_is360_eq]
  cases (Select.is360 ql == Select.is360 dl) <;> rfl

/-- `Coordinates.__init__` + `_validate`: same exceptions in the same order (`AssertionError` for unequal lengths, then
    `ValueError` for an empty query or dataset), otherwise the `consistent` flag -/
theorem gensel_init_eq (ql qla dl dla : Vec) :
    Gen.selInit ql qla dl dla = (validate dl ql qla).map fun _ => consistent ql dl := by
  unfold Gen.selInit validate
  rw [gensel_consistent_eq]
  simp only [List.isEmpty_iff]
  split_ifs <;> simp_all [Except.map]

/-- the property `Coordinates.lons` -/
theorem gensel_lons_eq (ql dl : Vec) : Gen.selLons ql dl = lonsQ ql dl := by
  unfold Gen.selLons lonsQ consistent
  rw [gensel_is360_eq, gensel_swap_eq]

/-! ## distance -/

/-- **distance**: the generated `Coordinates.distance` is the model's distance row with the longitude difference taken
    the SHORT way round (`ldShort`), for stations and query in any convention -/
theorem gensel_distance_eq (sqrt : ℚ → ℚ) (dl dla : Vec) (lon lat : ℚ) :
    Gen.selDistance sqrt dl dla lon lat = distRow (absSq sqrt) ldShort dl dla lon lat := by
  unfold Gen.selDistance distRow distSqRow distSq ldShort mod360 absSq
  simp only [vabs, vmap, vadd, vpow, vmin, ssubV, vsubS, vmodS, List.map_map, List.zipWith_map_right,
    List.zipWith_self, List.zipWith_map_left, List.map_zipWith, Function.comp_def]

/-! ## nearest -/

/-- **nearest**: the generated `Coordinates.nearest` returns the FIRST index of the smallest short-way distance and
    that distance — the `argminFirst` of the model's distance row -/
theorem gensel_nearest_eq (sqrt : ℚ → ℚ) (dl dla : Vec) (lon lat : ℚ) :
    Gen.selNearest sqrt dl dla lon lat =
      (argminFirst (distRow (absSq sqrt) ldShort dl dla lon lat),
        (distRow (absSq sqrt) ldShort dl dla lon lat).getD (argminFirst (distRow (absSq sqrt) ldShort dl dla lon lat)) 0) := by
  unfold Gen.selNearest
  simp only [gensel_distance_eq, argmin_eq]
  rfl

/-- the generated loop body of `sel_nearest` is one iteration of the model's `nearestLoop` on the distance row of the
    query: strict `closest_dist > tolerance`, `missing == "raise"` → `AssertionError`, `"ignore"` → skip, any other string
    falls through; `exact and closest_dist > 0` → `AssertionError`; `unique and closest_id in station_ids` → skip -/
theorem gensel_nearest_step_eq (sqrt : ℚ → ℚ) (tol : ℚ) (unique exact : Bool) (dl dla : Vec) (missing : String)
    (acc : List Nat) (q : ℚ × ℚ) :
    Gen.selNearestIds_loop1 sqrt tol unique exact dl dla missing acc q =
      nearestStep tol unique exact (missingOf missing) acc (distRow (absSq sqrt) ldShort dl dla q.1 q.2) := by
  unfold Gen.selNearestIds_loop1 nearestStep missingOf
  simp only [gensel_nearest_eq]
  generalize distRow (absSq sqrt) ldShort dl dla q.1 q.2 = d
  generalize d.getD (argminFirst d) 0 = x
  generalize argminFirst d = i
  by_cases hgt : x > tol <;> by_cases he : exact = true <;> by_cases hp : x > 0 <;> by_cases hu : unique = true <;>
    by_cases hm : i ∈ acc <;> by_cases h1 : missing = "raise" <;> by_cases h2 : missing = "ignore" <;>
    simp [hgt, he, hp, hu, hm, h1, h2]

/-- **sel_nearest**: the generated function returns the model's station list (repaired distance) or raises the same
    exception, for every query / dataset convention, tolerance, `unique`, `exact` and `missing` string -/
theorem gensel_sel_nearest_eq (sqrt : ℚ → ℚ) (ql qla : Vec) (tol : ℚ) (unique exact : Bool) (dl dla : Vec) (missing : String) :
    Gen.selNearestIds sqrt ql qla tol unique exact dl dla missing =
      selNearestIdsFixed (absSq sqrt) dl dla ql qla tol unique exact (missingOf missing) := by
  unfold Gen.selNearestIds selNearestIdsFixed selNearestIds
  rw [gensel_init_eq, gensel_lons_eq]
  cases hv : validate dl ql qla with
  | error e => rfl
  | ok u =>
    have hloop : List.foldlM (Gen.selNearestIds_loop1 sqrt tol unique exact dl dla missing) [] (List.zip (lonsQ ql dl) qla) =
        nearestLoop tol unique exact (missingOf missing) (distRows (absSq sqrt) ldShort dl dla ql qla) [] := by
      rw [nearestLoop_eq_foldlM, distRows, ← List.map_uncurry_zip_eq_zipWith, List.foldlM_map]
      congr 1
      funext acc q
      exact gensel_nearest_step_eq sqrt tol unique exact dl dla missing acc q
    simp only [Except.map, Except.bind, bind, hloop]
    cases nearestLoop tol unique exact (missingOf missing) (distRows (absSq sqrt) ldShort dl dla ql qla) [] with
    | error e => rfl
    | ok ids => cases ids <;> rfl

/-! ## nearer, inverse-distance weighting -/

/-- **nearer**: the generated `Coordinates.nearer` keeps the model's neighbours — stations sorted by distance (stable:
    equal distances in index order, the tie order recorded in `Model/SelRt.lean`), those with `distance <= tolerance`
    (non-strict), the first `max_sites` (`None`: all) — and returns their distances -/
theorem gensel_nearer_eq (sqrt : ℚ → ℚ) (dl dla : Vec) (lon lat tol : ℚ) (ms : Option Int) :
    Gen.selNearer sqrt dl dla lon lat tol ms =
      ((nearer (distRow (absSq sqrt) ldShort dl dla lon lat) tol ms).map (fun p => p.2),
       (nearer (distRow (absSq sqrt) ldShort dl dla lon lat) tol ms).map (fun p => p.1)) := by
  unfold Gen.selNearer
  simp only [gensel_distance_eq]
  exact nearer_vocab _ tol ms

/-- the generated loop bodies are the restatements used in `Lemmas/SelBridge.lean` -/
theorem gensel_idw_loops_shape : Gen.selIdw_loop2 = cStep ∧ Gen.selIdw_loop3 = wStep := ⟨rfl, rfl⟩

/-- **idw, one query**: the generated loop body appends the model's `idwRow` of the query's distance row: `none` (masked)
    when no station is within the tolerance or only one that is not at distance 0; one station with weight 1 at distance 0
    (exact-station rule, the collection stops there); otherwise weights `(1/d_i) · (1 / Σ_j 1/d_j)` in order of distance -/
theorem gensel_idw_step_eq (sqrt : ℚ → ℚ) (tol : ℚ) (ms : Option Int) (dl dla : Vec) (acc : List (Option LC)) (q : ℚ × ℚ) :
    Gen.selIdw_loop1 sqrt tol ms dl dla none acc q =
      acc ++ [idwRow (distRow (absSq sqrt) ldShort dl dla q.1 q.2) tol ms] := by
  unfold Gen.selIdw_loop1
  simp only [gensel_nearer_eq, gensel_idw_loops_shape.1, gensel_idw_loops_shape.2]
  set d := distRow (absSq sqrt) ldShort dl dla q.1 q.2 with hd
  set N := nearer d tol ms with hN
  have hzip : List.zip (N.map fun p => p.2) (N.map fun p => p.1) = N.map fun p => (p.2, p.1) := by
    rw [List.zip_map']
  obtain ⟨b, hb⟩ := cStep_collect N [] [] 0
  rw [hzip, hb]
  have hnn : ∀ p ∈ N, 0 ≤ p.1 := by
    intro p hp
    obtain ⟨hi, hx⟩ := getD_of_getElem? (nearer_mem hp).1
    rw [← hx]
    exact absSq_row_nonneg sqrt dl dla q.1 q.2 _ (getD_mem_of_lt d p.2 hi)
  have hrow := rowOf_collect N hnn 0
  rw [idwRow_eq_rowM, ← hN, ← hrow]
  simp only [List.nil_append]
  unfold rowOf
  split_ifs <;> rfl

/-- **sel_idw**: the generated function returns, per query, the model's masked / weighted combination (repaired distance),
    or raises the same exception -/
theorem gensel_sel_idw_eq (sqrt : ℚ → ℚ) (ql qla : Vec) (tol : ℚ) (ms : Option Int) (dl dla : Vec) :
    Gen.selIdw sqrt ql qla tol ms dl dla = selIdwFixed (absSq sqrt) dl dla ql qla tol ms := by
  unfold Gen.selIdw selIdwFixed selIdw
  rw [gensel_init_eq, gensel_lons_eq]
  cases hv : validate dl ql qla with
  | error e => rfl
  | ok u =>
    have hloop : ∀ (l : List (ℚ × ℚ)) (acc : List (Option LC)),
        List.foldl (Gen.selIdw_loop1 sqrt tol ms dl dla none) acc l =
          acc ++ l.map fun q => idwRow (distRow (absSq sqrt) ldShort dl dla q.1 q.2) tol ms := by
      intro l
      induction l with
      | nil => intro acc; simp
      | cons q l ih => intro acc; rw [List.foldl_cons, gensel_idw_step_eq, ih]; simp
    simp only [Except.map, Except.bind, bind, hloop, List.nil_append]
    unfold distRows
    rw [← List.map_uncurry_zip_eq_zipWith, List.map_map]
    rfl

/-- **for a non-negative oracle** (what the driver checks of every table entry, what `SqrtOn` states) the `np.abs` around
    `np.sqrt` disappears: the generated selectors ARE the model's `selNearestIdsFixed` / `selIdwFixed` with the same oracle -/
theorem gensel_selectors_nonneg_oracle (sqrt : ℚ → ℚ) (h : ∀ x, 0 ≤ sqrt x) (ql qla : Vec) (tol : ℚ) (dl dla : Vec) :
    (∀ (unique exact : Bool) (missing : String),
      Gen.selNearestIds sqrt ql qla tol unique exact dl dla missing =
        selNearestIdsFixed sqrt dl dla ql qla tol unique exact (missingOf missing)) ∧
    (∀ ms : Option Int, Gen.selIdw sqrt ql qla tol ms dl dla = selIdwFixed sqrt dl dla ql qla tol ms) ∧
    (∀ lon lat, Gen.selDistance sqrt dl dla lon lat = distRow sqrt ldShort dl dla lon lat) := by
  refine ⟨fun u e m => ?_, fun ms => ?_, fun lon lat => ?_⟩
  · rw [gensel_sel_nearest_eq, gensel_oracle_nonneg sqrt h]
  · rw [gensel_sel_idw_eq, gensel_oracle_nonneg sqrt h]
  · rw [gensel_distance_eq, gensel_oracle_nonneg sqrt h]

/-- non-vacuity: a non-negative oracle that is an exact square root on the radicands of a Pythagorean layout -/
example : (∀ x : ℚ, 0 ≤ (fun x : ℚ => if x = 25 then (5 : ℚ) else 0) x) ∧
    Gen.selNearestIds (fun x => if x = 25 then 5 else 0) [13] [4] 5 false false [10, 16] [0, 8] "raise" = .ok [0] := by
  refine ⟨fun x => ?_, by decide +kernel⟩
  show (0 : ℚ) ≤ if x = 25 then (5 : ℚ) else 0
  split <;> norm_num

/-! ## bounding box -/

/-- **bbox membership**: the generated `sel_bbox` selects exactly the model's repaired (`Fixed`) station list — box in the
    query's own numbers widened by the tolerance, longitudes compared modulo 360 — and raises the same exceptions
    (`AssertionError` / `ValueError` of `Coordinates(...)`, `ValueError` for an empty selection) -/
theorem gensel_bbox_eq (ql qla : Vec) (tol : ℚ) (dl dla : Vec) :
    Gen.selBboxIds ql qla tol dl dla = selBboxIdsFixed dl dla ql qla tol := by
  unfold Gen.selBboxIds selBboxIdsFixed selBboxIdsRawFixed
  rw [gensel_init_eq]
  cases hv : validate dl ql qla with
  | error e => rfl
  | ok u =>
    simp only [Except.map, Except.bind, bind, amin_eq, amax_eq, bbox_where, List.length_eq_zero_iff, decide_eq_true_eq]

/-! ## convention of the reported longitudes

The statement `if coords.consistent is False: dsout.lon.values = coords._swap_longitude_convention(dsout.lon.values)` of
each selector is translated (`…Report`); what `dsout.lon.values` holds before it is xarray plumbing and pinned as text
(`…_tail_src`): the stored longitudes of the selected stations (`dset.isel(**{attrs.SITENAME: station_ids})`, read as
`Sel.take stored ids`) for `sel_nearest`/`sel_bbox`, `coords.lons` for `sel_idw`. -/

theorem gensel_report_nearest_eq (stored ql dl : Vec) (ids : List Nat) :
    Gen.selNearestIdsReport (Gen.selConsistent ql dl) (Sel.take stored ids) = reportStations stored ql dl ids := by
  unfold Gen.selNearestIdsReport reportStations Sel.take
  rw [gensel_consistent_eq, gensel_swap_eq]
  cases consistent ql dl <;> rfl

theorem gensel_report_bbox_eq (stored ql dl : Vec) (ids : List Nat) :
    Gen.selBboxIdsReport (Gen.selConsistent ql dl) (Sel.take stored ids) = reportStations stored ql dl ids := by
  unfold Gen.selBboxIdsReport reportStations Sel.take
  rw [gensel_consistent_eq, gensel_swap_eq]
  cases consistent ql dl <;> rfl

theorem gensel_report_idw_eq (ql dl : Vec) :
    Gen.selIdwReport (Gen.selConsistent ql dl) (Gen.selLons ql dl) = reportIdw ql dl := by
  unfold Gen.selIdwReport reportIdw
  rw [gensel_consistent_eq, gensel_swap_eq, gensel_lons_eq]
  cases consistent ql dl <;> rfl

/-! ## literals, defaults, and source text that is pinned instead of translated -/

/-- `distance`: `% 360` twice, `360 - dlon`, two squares; the `xr.DataArray` unwrapping is the identity (pinned text) -/
theorem gensel_pins_distance :
    Gen.selDistance_lits = [360, 360, 360, 2, 2] ∧ Gen.selDistance_defaults = [] ∧
    Gen.selDistance_unwrap_src = "if isinstance(dist, xr.DataArray):\n    dist = dist.values" := by
  exact ⟨by decide +kernel, rfl, rfl⟩

/-- `_swap_longitude_convention`: `% 360`, `> 180` twice, `- 360`; `nearest`, `lons`: no literal, no default -/
theorem gensel_pins_convention :
    Gen.selSwap_lits = [360, 180, 180, 360] ∧ Gen.selSwap_defaults = [] ∧ Gen.selLons_lits = [] ∧
    Gen.selLons_defaults = [] ∧ Gen.selNearest_lits = [] ∧ Gen.selNearest_defaults = [] := by
  exact ⟨by decide +kernel, rfl, rfl, rfl, rfl, rfl⟩

/-- `Coordinates.__init__`: where each field comes from (`np.array` is the identity; the dataset's own coordinate is the
    default of `dset_lons/dset_lats` — xarray plumbing, pinned), and the stations-only test of `_validate` (pinned) -/
theorem gensel_pins_init :
    Gen.selInit_fields = [("dset", "dset"), ("_lons", "np.array(lons)"), ("lats", "np.array(lats)"), ("dset_lons", "dset[attrs.LONNAME].values if dset_lons is None else dset_lons"), ("dset_lats", "dset[attrs.LATNAME].values if dset_lats is None else dset_lats"), ("consistent", "selConsistent")] ∧
    Gen.selInit_stations_only_src = "if attrs.LONNAME in self.dset.dims or attrs.LATNAME in self.dset.dims or attrs.SITENAME not in self.dset.dims:\n    raise NotImplementedError('sel only supports stations not gridded data.')" ∧
    Gen.selInit_lits = [] := by
  exact ⟨rfl, rfl, rfl⟩

/-- the names the translated text relies on (`np`, `xr`, `attrs`, `logging`) are bound by exactly these imports; the
    translator also checks that the module defines nothing else than `logger`, `Coordinates` (with its nine methods) and
    the three selectors, so that no builtin (`min`, `max`, `len`, `sum`, `zip`, `abs`, `float`) is shadowed -/
theorem gensel_pins_imports :
    Gen.sel_imports = ["import logging", "import numpy as np", "import xarray as xr",
      "from wavespectra.core.attributes import attrs, set_spec_attributes"] := rfl

/-- `SpecDataset.sel` (not translated: dictionary dispatch and `**kwargs`): `method="idw"`, `tolerance=2.0` by default; the
    table `idw/bbox/nearest/None → sel_idw/sel_bbox/sel_nearest/sel_nearest`, `ValueError` for any other method,
    `exact=True` for `method=None`, the dataset's own coordinates as default `dset_lons/dset_lats`, all passed by keyword -/
theorem gensel_pins_dispatch :
    Gen.selDispatch_defaults = [("method", "'idw'"), ("tolerance", "2.0"), ("dset_lons", "None"), ("dset_lats", "None")] ∧
    Gen.selDispatch_tolerance_default = 2 ∧
    Gen.selDispatch_args = ["self", "lons", "lats", "method", "tolerance", "dset_lons", "dset_lats"] ∧
    Gen.selDispatch_src = ["funcs = {'idw': sel_idw, 'bbox': sel_bbox, 'nearest': sel_nearest, None: sel_nearest}", "try:\n    func = funcs[method]\nexcept KeyError:\n    raise ValueError(f\"Method '{method}' not supported, valid ones are {list(funcs.keys())}\")", "if method is None:\n    kwargs.update({'exact': True})", "if dset_lons is None:\n    dset_lons = self.dset[attrs.LONNAME].values", "if dset_lats is None:\n    dset_lats = self.dset[attrs.LATNAME].values", "dsout = func(dset=self.dset, lons=lons, lats=lats, tolerance=tolerance, dset_lons=dset_lons, dset_lats=dset_lats, **kwargs)", "return dsout"] := by
  exact ⟨rfl, by decide +kernel, rfl, rfl⟩

/-- `nearer`: defaults `tolerance=np.inf`, `max_sites=None` (every caller in the module passes both) -/
theorem gensel_pins_nearer :
    Gen.selNearer_defaults = [("tolerance", "np.inf"), ("max_sites", "None")] ∧ Gen.selNearer_lits = [] := by
  exact ⟨rfl, rfl⟩

/-- `sel_nearest`: defaults (`tolerance=2.0`, `unique=False`, `exact=False`, `missing="raise"`), literals (`2.0`, `> 0`) and
    the xarray tail (pinned verbatim: `isel` of the selected stations, the reporting `if`, the new `site` index) -/
theorem gensel_pins_sel_nearest :
    Gen.selNearestIds_defaults = [("tolerance", "2.0"), ("unique", "False"), ("exact", "False"), ("dset_lons", "None"), ("dset_lats", "None"), ("missing", "'raise'")] ∧
    Gen.selNearestIds_tolerance_default = 2 ∧ Gen.selNearestIds_lits = [2, 0] ∧
    Gen.selNearestIds_tail_src = ["dsout = dset.isel(**{attrs.SITENAME: station_ids})", "if coords.consistent is False:\n    dsout.lon.values = coords._swap_longitude_convention(dsout.lon.values)", "dsout = dsout.assign_coords({attrs.SITENAME: np.arange(len(station_ids))})", "return dsout"] := by
  exact ⟨rfl, by decide +kernel, by decide +kernel, rfl⟩

/-- `sel_bbox`: default `tolerance=0.0`, literals (`0.0`, `% 360`, `[0]`, `size == 0`) and the xarray tail (pinned) -/
theorem gensel_pins_sel_bbox :
    Gen.selBboxIds_defaults = [("tolerance", "0.0"), ("dset_lons", "None"), ("dset_lats", "None")] ∧
    Gen.selBboxIds_tolerance_default = 0 ∧ Gen.selBboxIds_lits = [0, 360, 0, 0] ∧
    Gen.selBboxIds_tail_src = ["dsout = dset.isel(**{attrs.SITENAME: station_ids})", "if coords.consistent is False:\n    dsout.lon.values = coords._swap_longitude_convention(dsout.lon.values)", "dsout = dsout.assign_coords({attrs.SITENAME: np.arange(len(station_ids))})", "return dsout"] := by
  exact ⟨rfl, by decide +kernel, by decide +kernel, rfl⟩

/-- `sel_idw`: defaults `tolerance=2.0`, `max_sites=4`, literals and the xarray tail (pinned: concatenation, transposition,
    `site/lon/lat` from `coords.lons/lats`, the reporting `if`, attributes) -/
theorem gensel_pins_sel_idw :
    Gen.selIdw_defaults = [("tolerance", "2.0"), ("max_sites", "4"), ("dset_lons", "None"), ("dset_lats", "None")] ∧
    Gen.selIdw_tolerance_default = 2 ∧ Gen.selIdw_max_sites_default = 4 ∧
    Gen.selIdw_lits = [2, 4, 0, 0, 0, 1, 1, 0, 1, 0, 1, 0, 0, 0] ∧
    Gen.selIdw_tail_src = ["dsout = xr.concat(dsout, dim=attrs.SITENAME)", "for dvar in dsout.data_vars:\n    if set(dsout[dvar].dims) == set(dset[dvar].dims):\n        dsout[dvar] = dsout[dvar].transpose(*dset[dvar].dims)", "dsout[attrs.SITENAME] = np.arange(len(coords.lons))", "dsout[attrs.LONNAME] = (attrs.SITENAME, coords.lons)", "dsout[attrs.LATNAME] = (attrs.SITENAME, coords.lats)", "if coords.consistent is False:\n    dsout.lon.values = coords._swap_longitude_convention(dsout.lon.values)", "dsout.attrs = dset.attrs", "set_spec_attributes(dsout)", "return dsout"] := by
  exact ⟨rfl, by decide +kernel, by decide +kernel, by decide +kernel, rfl⟩

end WS.C14

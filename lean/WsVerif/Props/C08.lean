import WsVerif.Model.Regrid
import WsVerif.Lemmas.Regrid
import WsVerif.Props.C10
import WsVerif.Gen.Lits
/-!
# C08 — regridding is exact on grid nodes, conserves variance and respects the circle

Property theorems on the model `WS.Regrid` of `core.utils.regrid_spec` / `SpecArray.interp`, `interp_like`,
`rotate`.  Every statement holds for every number of frequencies and directions, every spectrum, every target
grid.  `none` entries of the output stand for NaN/inf of the implementation.
-/
namespace WS.C08
open WS WS.Stats WS.Regrid

/-- every row of the matrix has `n` entries -/
def Rect (e : Mat) (n : Nat) : Prop := ∀ r ∈ e, r.length = n

/-- non-negative spectrum -/
def MatNonneg (e : Mat) : Prop := ∀ r ∈ e, ∀ v ∈ r, 0 ≤ v

/-! ## A. the interpolant: exact on nodes, convex in between -/

/-- **interp_node** — on strictly increasing nodes (at least two) the interpolant at a node is the node value,
    whatever the values are -/
theorem interp_node (xs ys : Vec) (hs : xs.Pairwise (· < ·)) (hn : 2 ≤ xs.length) (k : Nat)
    (hk : k < xs.length) :
    (locate xs (getR xs k)).isSeg = true ∧ applyLoc ys (locate xs (getR xs k)) = getR ys k := by
  cases k with
  | zero => rw [locate_node_zero xs hs hn]; exact ⟨rfl, lerpT_zero _ _⟩
  | succ k => rw [locate_node_succ xs hs k hk]; exact ⟨rfl, lerpT_one _ _⟩

/-- **interp_convex** — whenever a target is located in a segment, it lies between the segment's two (distinct) nodes
    and the value is the convex combination of exactly those two node values with the linear weight -/
theorem interp_convex (xs ys : Vec) (x : ℚ) (j : Nat) (t : ℚ) (h : locate xs x = .seg j t) :
    j + 1 < xs.length ∧ 0 ≤ t ∧ t ≤ 1 ∧ x = (1 - t) * getR xs j + t * getR xs (j + 1) ∧
      applyLoc ys (locate xs x) = (1 - t) * getR ys j + t * getR ys (j + 1) := by
  obtain ⟨h0, h1, h2, h3, h4⟩ := locate_seg xs x j t h
  obtain ⟨w0, w1⟩ := locate_seg_weight xs x j t h
  refine ⟨h0, w0, w1, ?_, ?_⟩
  · have hne : getR xs (j + 1) - getR xs j ≠ 0 := ne_of_gt (sub_pos.mpr h3)
    rw [h4]; field_simp; ring
  · rw [h]; exact lerpT_convex _ _ _

/-- the value of the interpolant is never negative when the node values are not -/
theorem applyLoc_nonneg (xs ys : Vec) (x : ℚ) (hy : ∀ y ∈ ys, 0 ≤ y) : 0 ≤ applyLoc ys (locate xs x) := by
  cases h : locate xs x with
  | out => exact le_refl _
  | nan => exact le_refl _
  | seg j t =>
    obtain ⟨w0, w1⟩ := locate_seg_weight xs x j t h
    exact lerpT_nonneg _ _ _ (getR_nonneg' ys hy j) (getR_nonneg' ys hy (j + 1)) w0 w1

/-! ## B. non-negativity of the regridded spectrum -/

theorem lastD_nonneg (l : Vec) (h : ∀ y ∈ l, 0 ≤ y) : 0 ≤ lastD l := by
  unfold lastD
  cases l with
  | nil => simp
  | cons a t =>
    rw [List.getLastD_cons]
    exact h _ List.getLastD_mem_cons

theorem headD_nonneg (l : Vec) (h : ∀ y ∈ l, 0 ≤ y) : 0 ≤ l.headD 0 := by
  cases l with
  | nil => simp
  | cons a t => exact h a (by simp)

theorem dirYs_nonneg (rS : Vec) (lo hi : Bool) (h : ∀ y ∈ rS, 0 ≤ y) : ∀ y ∈ dirYs rS lo hi, 0 ≤ y := by
  intro y hy
  unfold dirYs at hy
  simp only [List.mem_append] at hy
  rcases hy with (hy | hy) | hy
  · split at hy
    · simp only [List.mem_singleton] at hy; rw [hy]; exact lastD_nonneg rS h
    · simp at hy
  · exact h y hy
  · split at hy
    · simp only [List.mem_singleton] at hy; rw [hy]; exact headD_nonneg rS h
    · simp at hy

theorem dirStage_nonneg (d : Vec) (e : Mat) (td : Vec) (he : MatNonneg e) : MatNonneg (dirStage d e td).vals := by
  intro r hr v hv
  unfold dirStage at hr
  simp only [List.mem_map] at hr
  obtain ⟨r0, hr0, rfl⟩ := hr
  simp only [List.mem_map] at hv
  obtain ⟨loc, ⟨θ, _, rfl⟩, rfl⟩ := hv
  apply applyLoc_nonneg
  apply dirYs_nonneg
  intro y hy
  simp only [List.mem_map] at hy
  obtain ⟨i, _, rfl⟩ := hy
  exact getR_nonneg' r0 (he r0 hr0) i

theorem mem_zipWith_exists {α β γ : Type} (g : α → β → γ) : ∀ (l1 : List α) (l2 : List β) (v : γ),
    v ∈ List.zipWith g l1 l2 → ∃ a ∈ l1, ∃ b ∈ l2, v = g a b := by
  intro l1
  induction l1 with
  | nil => intro l2 v h; simp at h
  | cons a l1 ih =>
    intro l2 v h
    cases l2 with
    | nil => simp at h
    | cons b l2 =>
      simp only [List.zipWith_cons_cons, List.mem_cons] at h
      rcases h with rfl | h
      · exact ⟨a, by simp, b, by simp, rfl⟩
      · obtain ⟨a', ha', b', hb', hv⟩ := ih l2 v h
        exact ⟨a', List.mem_cons_of_mem _ ha', b', List.mem_cons_of_mem _ hb', hv⟩

theorem getD_nonneg_row (rows : Mat) (h : MatNonneg rows) (j : Nat) : ∀ v ∈ rows.getD j [], 0 ≤ v := by
  intro v hv
  by_cases hj : j < rows.length
  · have : rows.getD j [] = rows[j] := by simp [List.getD_eq_getElem?_getD, hj]
    rw [this] at hv
    exact h _ (List.getElem_mem hj) v hv
  · have : rows.getD j [] = [] := by simp [List.getD_eq_getElem?_getD, List.getElem?_eq_none (not_lt.mp hj)]
    rw [this] at hv; simp at hv

theorem applyLocV_nonneg (nd : Nat) (fs : Vec) (rows : Mat) (x : ℚ) (h : MatNonneg rows) :
    ∀ v ∈ applyLocV nd rows (locate fs x), 0 ≤ v := by
  intro v hv
  cases hl : locate fs x with
  | out => rw [hl] at hv; simp only [applyLocV, List.mem_replicate] at hv; rw [hv.2]
  | nan => rw [hl] at hv; simp only [applyLocV, List.mem_replicate] at hv; rw [hv.2]
  | seg j t =>
    rw [hl] at hv
    obtain ⟨w0, w1⟩ := locate_seg_weight fs x j t hl
    obtain ⟨a, ha, b, hb, rfl⟩ := mem_zipWith_exists _ _ _ v hv
    exact lerpT_nonneg a b t (getD_nonneg_row rows h j a ha) (getD_nonneg_row rows h (j + 1) b hb) w0 w1

theorem freqStage_nonneg (f : Vec) (e : Mat) (tf : Vec) (he : MatNonneg e) : MatNonneg (freqStage f e tf).vals := by
  intro r hr v hv
  unfold freqStage at hr
  simp only [List.mem_map] at hr
  obtain ⟨loc, ⟨x, _, rfl⟩, rfl⟩ := hr
  refine applyLocV_nonneg _ _ _ x ?_ v hv
  intro row hrow w hw
  simp only [List.mem_map] at hrow
  obtain ⟨p, hp, rfl⟩ := hrow
  rw [mem_sortK] at hp
  simp only [List.mem_append] at hp
  rcases hp with hp | hp
  · split at hp
    · simp only [List.mem_singleton] at hp
      rw [hp] at hw; simp only [List.mem_replicate] at hw; rw [hw.2]
    · simp at hp
  · exact he p.2 (List.of_mem_zip hp).2 w hw

theorem core_ok (f : Vec) (d : Option Vec) (e : Mat) (tf td : Option Vec) (c : Core)
    (h : core f d e tf td = .ok c) : c = coreOk f d e tf td := by
  unfold core at h
  cases d <;> cases td <;> simp at h <;> exact h.symm

theorem coreOk_nonneg (f : Vec) (d : Option Vec) (e : Mat) (tf td : Option Vec) (he : MatNonneg e) :
    MatNonneg (coreOk f d e tf td).vals := by
  have h1 : MatNonneg (dirPart d e td).2.1 := by
    unfold dirPart
    cases d <;> cases td <;> first | exact he | exact dirStage_nonneg _ _ _ he
  unfold coreOk
  simp only
  unfold freqPart
  cases tf with
  | none => exact h1
  | some t => exact freqStage_nonneg _ _ _ h1

theorem scaleOf_some (a b : ℚ) (ok : Bool) (k : ℚ) (h : scaleOf a b ok = some k) :
    ok = true ∧ 0 ≤ a ∧ 0 < b ∧ k = a / b := by
  unfold scaleOf at h
  split at h
  · rename_i hc
    simp only [Bool.and_eq_true, decide_eq_true_eq] at hc
    injection h with h
    exact ⟨hc.1.1, hc.1.2, hc.2, h.symm⟩
  · cases h

theorem maskEntry_some (row : Loc) (ok : Bool) (v w : ℚ) (h : maskEntry row ok v = some w) : w = v := by
  unfold maskEntry at h
  cases row with
  | out => injection h with h; exact h.symm
  | nan => cases h
  | seg i t =>
    simp only at h
    split at h
    · injection h with h; exact h.symm
    · cases h

theorem finish_nonneg (c : Core) (m0 : Bool) (a b : ℚ) (hc : MatNonneg c.vals) :
    ∀ r ∈ finish c m0 (scaleOf a b c.allOK), ∀ x ∈ r, ∀ v, x = some v → 0 ≤ v := by
  intro r hr x hx v hv
  unfold finish at hr
  cases m0 with
  | true =>
    simp only [if_true] at hr
    cases hk : scaleOf a b c.allOK with
    | none =>
      rw [hk] at hr
      simp only [List.mem_map] at hr
      obtain ⟨r0, _, rfl⟩ := hr
      simp only [List.mem_map] at hx
      obtain ⟨_, _, rfl⟩ := hx
      cases hv
    | some k =>
      rw [hk] at hr
      obtain ⟨_, h1, h2, h3⟩ := scaleOf_some a b _ k hk
      have hk0 : 0 ≤ k := by rw [h3]; exact div_nonneg h1 (le_of_lt h2)
      simp only [List.mem_map] at hr
      obtain ⟨r0, hr0, rfl⟩ := hr
      simp only [List.mem_map] at hx
      obtain ⟨w, hw, rfl⟩ := hx
      injection hv with hv
      rw [← hv]; exact mul_nonneg hk0 (hc r0 hr0 w hw)
  | false =>
    simp only [Bool.false_eq_true, if_false] at hr
    obtain ⟨row, _, r0, hr0, rfl⟩ := mem_zipWith_exists _ _ _ r hr
    obtain ⟨ok, _, w, hw, rfl⟩ := mem_zipWith_exists _ _ _ x hx
    rw [maskEntry_some row ok w v hv]
    exact hc r0 hr0 w hw

/-- **regrid_nonneg** — every finite entry of the regridded spectrum is non-negative when the input is, for every
    source grid (sorted or not, with duplicates or not), every target grid and both settings of `maintain_m0` -/
theorem regrid_nonneg (thr q : ℚ) (f : Vec) (d : Option Vec) (e : Mat) (tf td : Option Vec) (m0 : Bool) (o : Out)
    (he : MatNonneg e) (h : regrid thr q f d e tf td m0 = .ok o) :
    ∀ r ∈ o.e, ∀ x ∈ r, ∀ v, x = some v → 0 ≤ v := by
  unfold regrid at h
  cases hc : core f d e tf td with
  | error er => rw [hc] at h; cases h
  | ok c =>
    rw [hc] at h
    simp only at h
    injection h with h
    rw [← h]
    have := core_ok f d e tf td c hc
    exact finish_nonneg c m0 _ _ (by rw [this]; exact coreOk_nonneg f d e tf td he)

/-! ## C. requested coordinates -/

theorem regrid_ok (thr q : ℚ) (f : Vec) (d : Option Vec) (e : Mat) (tf td : Option Vec) (m0 : Bool) (o : Out)
    (h : regrid thr q f d e tf td m0 = .ok o) :
    core f d e tf td = .ok (coreOk f d e tf td) ∧
      o = { freq := (coreOk f d e tf td).freq, dir := (coreOk f d e tf td).dir,
            e := finish (coreOk f d e tf td) m0
              (scaleOf (hsOf thr q f d e)
                (hsOf thr q (coreOk f d e tf td).freq (coreOk f d e tf td).dir (coreOk f d e tf td).vals)
                (coreOk f d e tf td).allOK) } := by
  unfold regrid at h
  cases hc : core f d e tf td with
  | error er => rw [hc] at h; cases h
  | ok c =>
    rw [hc] at h
    have hcc := core_ok f d e tf td c hc
    subst hcc
    simp only at h
    injection h with h
    exact ⟨rfl, h.symm⟩

/-- **coords_exact** — the output coordinates are the requested ones, in the requested order (the source's own where
    nothing was requested), and there is one output row per requested frequency -/
theorem coords_exact (thr q : ℚ) (f : Vec) (d : Option Vec) (e : Mat) (tf td : Option Vec) (m0 : Bool) (o : Out)
    (h : regrid thr q f d e tf td m0 = .ok o) :
    o.freq = tf.getD f ∧ o.dir = (match td with | some t => some t | none => d) ∧
      (∀ t, tf = some t → o.e.length = t.length) := by
  obtain ⟨hc, ho⟩ := regrid_ok thr q f d e tf td m0 o h
  subst ho
  refine ⟨?_, ?_, ?_⟩
  · cases tf <;> rfl
  · cases d <;> cases td <;> first | rfl | (simp [core] at hc)
  · intro t ht
    subst ht
    simp only [finish, coreOk, freqPart, freqStage]
    cases m0 with
    | true =>
      simp only [if_true]
      split <;> simp
    | false => simp

/-! ## D. variance conservation -/

theorem specS_smul (d : Option Vec) (k : ℚ) (e : Mat) : specS d (C10.scaleM k e) = scaleV k (specS d e) := by
  cases d with
  | some dv => exact C10.oned_smul _ k e
  | none =>
    unfold specS C10.scaleM scaleV
    simp only [List.map_map]
    apply List.map_congr_left
    intro r _
    cases r <;> simp

theorem hsOf_smul (thr q : ℚ) (f : Vec) (d : Option Vec) (k : ℚ) (e : Mat) :
    hsOf thr q f d (C10.scaleM k e) = k * hsOf thr q f d e := by
  unfold hsOf
  rw [specS_smul, C10.hsE_smul]

theorem finish_scaled (c : Core) (k : ℚ) : finish c true (some k) = (C10.scaleM k c.vals).map (·.map some) := by
  simp [finish, C10.scaleM, scaleV, List.map_map, Function.comp_def]

/-- **m0_exact** — with `maintain_m0` the result is finite exactly when the factor is (no NaN entry, `hs(in)` real,
    `hs(out) ≠ 0`), and then its `hs` radicand on the OUTPUT grid (own `df`, own `dd`, own tail rule) equals the
    radicand of the source on the SOURCE grid: `Hs` is reproduced exactly, per spectrum -/
theorem m0_exact (thr q : ℚ) (f : Vec) (d : Option Vec) (e : Mat) (tf td : Option Vec) (o : Out) (c : Core)
    (h : regrid thr q f d e tf td true = .ok o) (hc : core f d e tf td = .ok c)
    (hok : c.allOK = true) (hin : 0 ≤ hsOf thr q f d e) (hout : 0 < hsOf thr q c.freq c.dir c.vals) :
    ∃ vals : Mat, o.e = vals.map (·.map some) ∧ hsOf thr q o.freq o.dir vals = hsOf thr q f d e := by
  obtain ⟨_, ho⟩ := regrid_ok thr q f d e tf td true o h
  have hcc := core_ok f d e tf td c hc
  subst hcc
  subst ho
  have hk : scaleOf (hsOf thr q f d e)
      (hsOf thr q (coreOk f d e tf td).freq (coreOk f d e tf td).dir (coreOk f d e tf td).vals)
      (coreOk f d e tf td).allOK =
      some (hsOf thr q f d e / hsOf thr q (coreOk f d e tf td).freq (coreOk f d e tf td).dir (coreOk f d e tf td).vals) := by
    unfold scaleOf
    rw [hok]
    simp [hin, hout]
  refine ⟨C10.scaleM (hsOf thr q f d e /
      hsOf thr q (coreOk f d e tf td).freq (coreOk f d e tf td).dir (coreOk f d e tf td).vals)
      (coreOk f d e tf td).vals, ?_, ?_⟩
  · simp only [hk]; exact finish_scaled _ _
  · simp only [hsOf_smul]
    exact div_mul_cancel₀ _ (ne_of_gt hout)

/-- the degenerate case, as documented: no energy on the target grid (or a NaN entry, or an input without real `Hs`)
    gives an all-NaN result with `maintain_m0` -/
theorem m0_degenerate (thr q : ℚ) (f : Vec) (d : Option Vec) (e : Mat) (tf td : Option Vec) (o : Out) (c : Core)
    (h : regrid thr q f d e tf td true = .ok o) (hc : core f d e tf td = .ok c)
    (hdeg : c.allOK = false ∨ hsOf thr q f d e < 0 ∨ hsOf thr q c.freq c.dir c.vals ≤ 0) :
    ∀ r ∈ o.e, ∀ x ∈ r, x = none := by
  obtain ⟨_, ho⟩ := regrid_ok thr q f d e tf td true o h
  have hcc := core_ok f d e tf td c hc
  subst hcc
  subst ho
  have hk : scaleOf (hsOf thr q f d e)
      (hsOf thr q (coreOk f d e tf td).freq (coreOk f d e tf td).dir (coreOk f d e tf td).vals)
      (coreOk f d e tf td).allOK = none := by
    unfold scaleOf
    rcases hdeg with h1 | h1 | h1
    · rw [h1]; simp
    · simp [not_le.mpr h1]
    · simp [not_lt.mpr h1]
  intro r hr x hx
  simp only [hk, finish, if_true, List.mem_map] at hr
  obtain ⟨r0, _, rfl⟩ := hr
  simp only [List.mem_map] at hx
  obtain ⟨_, _, rfl⟩ := hx
  rfl

/-! ## E. zero energy above the highest source frequency -/

theorem getD_map_of_lt {α β : Type} (g : α → β) (l : List α) (i : Nat) (h : i < l.length) (d : β) :
    (l.map g).getD i d = g l[i] := by
  simp [List.getD_eq_getElem?_getD, h]

theorem getD_of_lt {α : Type} (l : List α) (i : Nat) (h : i < l.length) (d : α) : l.getD i d = l[i] := by
  simp [List.getD_eq_getElem?_getD, h]

theorem getD_of_ge {α : Type} (l : List α) (i : Nat) (h : l.length ≤ i) (d : α) : l.getD i d = d := by
  simp [List.getD_eq_getElem?_getD, List.getElem?_eq_none h]

/-- a target frequency above every source frequency is *filled*: the row is zero, whatever the directions did -/
theorem freqStage_above (f : Vec) (e : Mat) (tf : Vec) (i : Nat) (hi : i < tf.length)
    (hx : ∀ y ∈ f, y < getR tf i) (h0 : 0 < getR tf i) :
    (freqStage f e tf).locs.getD i .out = .out ∧
      (freqStage f e tf).vals.getD i [] = List.replicate (e.headD []).length 0 := by
  have hloc : ∀ (lo : Bool), locate ((sortK ((if lo then [((0 : ℚ), List.replicate (e.headD []).length (0 : ℚ))] else []) ++
      f.zip e)).map (·.1)) (getR tf i) = .out := by
    intro lo
    apply locate_out_above
    intro y hy
    simp only [List.mem_map] at hy
    obtain ⟨p, hp, rfl⟩ := hy
    rw [mem_sortK, List.mem_append] at hp
    rcases hp with hp | hp
    · split at hp
      · simp only [List.mem_singleton] at hp; rw [hp]; exact h0
      · simp at hp
    · exact hx p.1 (List.of_mem_zip hp).1
  unfold freqStage
  simp only
  have hi' : i < (tf.map (locate ((sortK ((if anchorLo f tf then
      [((0 : ℚ), List.replicate (e.headD []).length (0 : ℚ))] else []) ++ f.zip e)).map (·.1)))).length := by
    simpa using hi
  constructor
  · rw [getD_map_of_lt _ _ _ hi, ← getR_eq_getElem tf i hi, hloc]
  · rw [getD_map_of_lt _ _ _ hi', List.getElem_map, ← getR_eq_getElem tf i hi, hloc]
    rfl

/-- every finite output entry is the corresponding entry of the numeric pipeline, possibly times the factor -/
theorem finish_entry (c : Core) (m0 : Bool) (s : Option ℚ) (i : Nat) :
    ∀ x ∈ (finish c m0 s).getD i [], ∀ w, x = some w → ∃ v ∈ c.vals.getD i [], w = v ∨ ∃ k, w = k * v := by
  intro x hx w hw
  unfold finish at hx
  cases m0 with
  | true =>
    simp only [if_true] at hx
    by_cases hi : i < c.vals.length
    · cases s with
      | none =>
        simp only at hx
        rw [getD_map_of_lt _ _ _ hi, List.mem_map] at hx
        obtain ⟨_, _, rfl⟩ := hx
        cases hw
      | some k =>
        simp only at hx
        rw [getD_map_of_lt _ _ _ hi, List.mem_map] at hx
        obtain ⟨v, hv, rfl⟩ := hx
        injection hw with hw
        exact ⟨v, by rw [getD_of_lt _ _ hi]; exact hv, Or.inr ⟨k, hw.symm⟩⟩
    · cases s <;> simp only at hx <;> rw [getD_of_ge _ _ (by simpa using hi)] at hx <;> simp at hx
  | false =>
    simp only [Bool.false_eq_true, if_false] at hx
    by_cases hi : i < (List.zipWith (fun row r => List.zipWith (maskEntry row) c.colOK r) c.rowSt c.vals).length
    · rw [getD_of_lt _ _ hi, List.getElem_zipWith] at hx
      obtain ⟨ok, _, v, hv, rfl⟩ := mem_zipWith_exists _ _ _ x hx
      have hi2 : i < c.vals.length := by
        simp only [List.length_zipWith] at hi; omega
      refine ⟨v, by rw [getD_of_lt _ _ hi2]; exact hv, Or.inl (maskEntry_some _ ok v w hw)⟩
    · rw [getD_of_ge _ _ (not_lt.mp hi)] at hx; simp at hx

/-- **zero_above_fmax** — a requested frequency above the highest source frequency carries no energy, for every
    direction, with or without `maintain_m0` (entries are `0`, or NaN in the degenerate case) -/
theorem zero_above_fmax (thr q : ℚ) (f : Vec) (d : Option Vec) (e : Mat) (tf : Vec) (td : Option Vec) (m0 : Bool)
    (o : Out) (h : regrid thr q f d e (some tf) td m0 = .ok o) (i : Nat) (hi : i < tf.length)
    (hx : ∀ y ∈ f, y < getR tf i) (h0 : 0 < getR tf i) :
    ∀ x ∈ o.e.getD i [], ∀ w, x = some w → w = 0 := by
  obtain ⟨_, ho⟩ := regrid_ok thr q f d e (some tf) td m0 o h
  subst ho
  intro x hx' w hw
  obtain ⟨v, hv, hvw⟩ := finish_entry _ m0 _ i x hx' w hw
  have hvals : (coreOk f d e (some tf) td).vals = (freqStage f (dirPart d e td).2.1 tf).vals := rfl
  rw [hvals, (freqStage_above f _ tf i hi hx h0).2, List.mem_replicate] at hv
  rcases hvw with rfl | ⟨k, rfl⟩
  · exact hv.2
  · rw [hv.2, mul_zero]

/-! ## F. identity when the target grid is the source grid -/

theorem wrapLo_self (d : Vec) (hs : d.Pairwise (· < ·)) (hn : 2 ≤ d.length) : wrapLo d d = false := by
  unfold wrapLo
  have h1 : decide (minL d < d.headD 0) = false := by simpa using head_le_minL d hs
  have h2 : decide (d.length = 1) = false := by simp; omega
  rw [h1, h2]; rfl

theorem wrapHi_self (d : Vec) (hs : d.Pairwise (· < ·)) (hn : 2 ≤ d.length) : wrapHi d d = false := by
  unfold wrapHi
  have h1 : decide (lastD d < maxL d) = false := by simpa using maxL_le_last d hs
  have h2 : decide (d.length = 1) = false := by simp; omega
  rw [h1, h2]; rfl

theorem anchorLo_self (f : Vec) (hn : 2 ≤ f.length) : anchorLo f f = false := by
  unfold anchorLo
  have h2 : decide (f.length = 1) = false := by simp; omega
  rw [h2]; simp

theorem zipWith_lerp_zero : ∀ (l1 l2 : Vec), l1.length ≤ l2.length →
    List.zipWith (fun a b => lerpT a b 0) l1 l2 = l1 := by
  intro l1
  induction l1 with
  | nil => intro l2 _; simp
  | cons a l1 ih =>
    intro l2 h
    cases l2 with
    | nil => simp at h
    | cons b l2 =>
      rw [List.zipWith_cons_cons, lerpT_zero, ih l2 (by simpa using h)]

theorem zipWith_lerp_one : ∀ (l1 l2 : Vec), l2.length ≤ l1.length →
    List.zipWith (fun a b => lerpT a b 1) l1 l2 = l2 := by
  intro l1
  induction l1 with
  | nil => intro l2 h; cases l2 <;> simp at h ⊢
  | cons a l1 ih =>
    intro l2 h
    cases l2 with
    | nil => simp
    | cons b l2 =>
      rw [List.zipWith_cons_cons, lerpT_one, ih l2 (by simpa using h)]

/-- interpolating scalar node values back onto the nodes returns them -/
theorem interp_nodes_id (xs ys : Vec) (hs : xs.Pairwise (· < ·)) (hn : 2 ≤ xs.length) (hl : ys.length = xs.length) :
    (xs.map (locate xs)).map (applyLoc ys) = ys := by
  apply List.ext_getElem
  · simp [hl]
  · intro i h1 h2
    have hi : i < xs.length := by simpa using h1
    simp only [List.getElem_map]
    rw [← getR_eq_getElem xs i hi, (interp_node xs ys hs hn i hi).2, getR_eq_getElem ys i h2]

/-- interpolating rows on the nodes back onto the nodes returns them -/
theorem interp_rows_id (fs : Vec) (rows : Mat) (nd : Nat) (hs : fs.Pairwise (· < ·)) (hn : 2 ≤ fs.length)
    (hl : rows.length = fs.length) (hr : Rect rows nd) : (fs.map (locate fs)).map (applyLocV nd rows) = rows := by
  apply List.ext_getElem
  · simp [hl]
  · intro i h1 h2
    have hi : i < fs.length := by simpa using h1
    simp only [List.getElem_map]
    rw [← getR_eq_getElem fs i hi]
    cases i with
    | zero =>
      rw [locate_node_zero fs hs hn]
      have h1' : 1 < rows.length := by omega
      show List.zipWith (fun a b => lerpT a b 0) (rows.getD 0 []) (rows.getD (0 + 1) []) = rows[0]
      rw [getD_of_lt _ _ h2, getD_of_lt _ _ h1']
      apply zipWith_lerp_zero
      rw [hr _ (List.getElem_mem h2), hr _ (List.getElem_mem h1')]
    | succ k =>
      rw [locate_node_succ fs hs k hi]
      have hk : k < rows.length := by omega
      show List.zipWith (fun a b => lerpT a b 1) (rows.getD k []) (rows.getD (k + 1) []) = rows[k + 1]
      rw [getD_of_lt _ _ hk, getD_of_lt _ _ h2]
      apply zipWith_lerp_one
      rw [hr _ (List.getElem_mem h2), hr _ (List.getElem_mem hk)]

theorem map_pmod_id (d : Vec) (hr : ∀ x ∈ d, 0 ≤ x ∧ x < 360) : (d.map fun x => pmod x 360) = d := by
  have : ∀ x ∈ d, pmod x 360 = id x := fun x hx => pmod_of_range x 360 (by norm_num) (hr x hx).1 (hr x hx).2
  rw [List.map_congr_left this, List.map_id]

/-- sorted distinct directions in `[0, 360)`: `% 360`, `np.unique`, `sortby` change nothing -/
theorem dirNodes_sorted (d : Vec) (hs : d.Pairwise (· < ·)) (hr : ∀ x ∈ d, 0 ≤ x ∧ x < 360) :
    dirNodes d = d.zip (List.range d.length) := by
  unfold dirNodes
  rw [map_pmod_id d hr]
  have hk : ((d.zip (List.range d.length)).map (·.1)) = d := List.map_fst_zip (by simp)
  rw [sortK_sorted _ (by rw [hk]; exact hs.imp le_of_lt)]
  exact dedupK_strict _ (by rw [hk]; exact hs)

theorem locate_mem_isSeg (xs : Vec) (hs : xs.Pairwise (· < ·)) (hn : 2 ≤ xs.length) :
    ∀ l ∈ xs.map (locate xs), l.isSeg = true := by
  intro l hl
  simp only [List.mem_map] at hl
  obtain ⟨x, hx, rfl⟩ := hl
  obtain ⟨k, hk, rfl⟩ := List.getElem_of_mem hx
  rw [← getR_eq_getElem xs k hk]
  exact (interp_node xs [] hs hn k hk).1

theorem dirStage_id (d : Vec) (e : Mat) (hs : d.Pairwise (· < ·)) (hr : ∀ x ∈ d, 0 ≤ x ∧ x < 360)
    (hn : 2 ≤ d.length) (hrect : Rect e d.length) :
    dirStage d e d = { locs := d.map (locate d), vals := e } := by
  unfold dirStage
  rw [dirNodes_sorted d hs hr]
  have hk : ((d.zip (List.range d.length)).map (·.1)) = d := List.map_fst_zip (by simp)
  have hi : ((d.zip (List.range d.length)).map (·.2)) = List.range d.length := List.map_snd_zip (by simp)
  have hlo := wrapLo_self d hs hn
  have hhi := wrapHi_self d hs hn
  simp only [hk, hi, hlo, hhi, dirXs, dirYs, Bool.false_eq_true, if_false, List.nil_append, List.append_nil]
  congr 1
  have : ∀ r ∈ e, (d.map (locate d)).map (applyLoc ((List.range d.length).map (getR r))) = id r := by
    intro r hr'
    have hl := hrect r hr'
    rw [← hl, map_getR_range r]
    exact interp_nodes_id d r hs hn hl
  rw [List.map_congr_left this, List.map_id]

theorem freqStage_id (f : Vec) (e : Mat) (hs : f.Pairwise (· < ·)) (hn : 2 ≤ f.length) (hl : e.length = f.length)
    (hrect : Rect e (e.headD []).length) :
    freqStage f e f = { locs := f.map (locate f), vals := e } := by
  unfold freqStage
  have hlo := anchorLo_self f hn
  have hk : ((f.zip e).map (·.1)) = f := List.map_fst_zip (by omega)
  have hv : ((f.zip e).map (·.2)) = e := List.map_snd_zip (by omega)
  simp only [hlo, Bool.false_eq_true, if_false, List.nil_append]
  rw [sortK_sorted _ (by rw [hk]; exact hs.imp le_of_lt)]
  simp only [hk, hv]
  congr 1
  exact interp_rows_id f e _ hs hn hl hrect

theorem isSeg_exists (l : Loc) (h : l.isSeg = true) : ∃ a b, l = .seg a b := by
  cases l with
  | out => cases h
  | nan => cases h
  | seg a b => exact ⟨a, b, rfl⟩

theorem maskEntry_seg (l : Loc) (h : l.isSeg = true) (v : ℚ) : maskEntry l true v = some v := by
  obtain ⟨a, b, rfl⟩ := isSeg_exists l h
  rfl

/-- without `maintain_m0`, when no mask applies the output is the numeric pipeline -/
theorem finish_false_allSeg (c : Core) (s : Option ℚ) (h1 : ∀ l ∈ c.rowSt, l.isSeg = true)
    (h2 : ∀ b ∈ c.colOK, b = true) (h3 : c.rowSt.length = c.vals.length) (h4 : Rect c.vals c.colOK.length) :
    finish c false s = c.vals.map (·.map some) := by
  unfold finish
  simp only [Bool.false_eq_true, if_false]
  apply List.ext_getElem
  · simp [h3]
  · intro i hi1 hi2
    have hiv : i < c.vals.length := by simpa using hi2
    have hir : i < c.rowSt.length := by omega
    rw [List.getElem_zipWith, List.getElem_map]
    have hrow := h1 _ (List.getElem_mem hir)
    apply List.ext_getElem
    · simp [h4 _ (List.getElem_mem hiv)]
    · intro j hj1 hj2
      have hjv : j < (c.vals[i]).length := by simpa using hj2
      have hjc : j < c.colOK.length := by rw [← h4 _ (List.getElem_mem hiv)]; exact hjv
      rw [List.getElem_zipWith, List.getElem_map, h2 _ (List.getElem_mem hjc)]
      exact maskEntry_seg _ hrow _

theorem allOK_of (c : Core) (h1 : ∀ l ∈ c.rowSt, l.isSeg = true) (h2 : ∀ b ∈ c.colOK, b = true) : c.allOK = true := by
  unfold Core.allOK
  rw [Bool.and_eq_true, List.all_eq_true, List.all_eq_true]
  refine ⟨fun b hb => by rw [h2 b hb]; rfl, fun l hl => ?_⟩
  obtain ⟨a, b, rfl⟩ := isSeg_exists l (h1 l hl)
  rfl

/-- a single direction bin regridded onto itself: both wrap bins are added (repair 0802ffa), the bin is found at the
    right end of the first segment of `[x₀ − 360, x₀, x₀ + 360]` -/
theorem dirStage_id_single (x0 : ℚ) (e : Mat) (h0 : 0 ≤ x0 ∧ x0 < 360) (hrect : Rect e 1) :
    dirStage [x0] e [x0] = { locs := [Loc.seg 0 1], vals := e } := by
  have hnodes : dirNodes [x0] = [(x0, 0)] := by
    rw [dirNodes_sorted [x0] (by simp) (by intro x hx; simp only [List.mem_singleton] at hx; subst hx; exact h0)]
    rfl
  have hloc : locate [x0 - 360, x0, x0 + 360] x0 = .seg 0 1 := by
    rw [locate_first_seg (x0 - 360) x0 [x0 + 360] x0 (by linarith) (le_refl _) (by intro h; linarith)]
    have : x0 - (x0 - 360) = 360 := by ring
    rw [this]; norm_num
  unfold dirStage
  rw [hnodes]
  have hlo : wrapLo [x0] [x0] = true := by simp [wrapLo]
  have hhi : wrapHi [x0] [x0] = true := by simp [wrapHi]
  simp only [List.map_cons, List.map_nil, hlo, hhi, dirXs, dirYs, if_true, List.singleton_append, List.cons_append,
    List.nil_append, List.headD_cons, hloc]
  have hl1 : lastD [x0] = x0 := rfl
  rw [hl1, hloc]
  congr 1
  have : ∀ r ∈ e, [applyLoc (lastD [getR r 0] :: getR r 0 :: [getR r 0]) (Loc.seg 0 1)] = id r := by
    intro r hr
    have hlen := hrect r hr
    match r, hlen with
    | [v], _ => simp [applyLoc, lerpT, getR, lastD]
  rw [List.map_congr_left this, List.map_id]

/-- direction stage onto the source's own directions, any number (≥ 1) of sorted distinct directions in `[0, 360)` -/
theorem dirStage_id_facts (d : Vec) (e : Mat) (hs : d.Pairwise (· < ·)) (hr : ∀ x ∈ d, 0 ≤ x ∧ x < 360)
    (hne : d ≠ []) (hrect : Rect e d.length) :
    (dirStage d e d).vals = e ∧ (∀ l ∈ (dirStage d e d).locs, l.isSeg = true) ∧
      (dirStage d e d).locs.length = d.length := by
  by_cases hn : 2 ≤ d.length
  · rw [dirStage_id d e hs hr hn hrect]
    exact ⟨rfl, locate_mem_isSeg d hs hn, by simp⟩
  · match d, hne, hn with
    | [x0], _, _ =>
      rw [dirStage_id_single x0 e (hr x0 (by simp)) hrect]
      refine ⟨rfl, ?_, rfl⟩
      intro l hl
      simp only [List.mem_singleton] at hl
      rw [hl]; rfl
    | _ :: _ :: _, _, hn => simp at hn

/-- a single (positive) frequency regridded onto itself: the `f = 0` anchor is added (repair 0802ffa), the frequency is
    found at the right end of the segment `[0, f₀]` -/
theorem freqStage_id_single (f0 : ℚ) (r0 : Vec) (hpos : 0 < f0) :
    freqStage [f0] [r0] [f0] = { locs := [Loc.seg 0 1], vals := [r0] } := by
  have hloc : locate [0, f0] f0 = .seg 0 1 := by
    rw [locate_first_seg 0 f0 [] f0 (le_of_lt hpos) (le_refl _) (ne_of_lt hpos)]
    rw [sub_zero, div_self (ne_of_gt hpos)]
  have hlo : anchorLo [f0] [f0] = true := by simp [anchorLo]
  unfold freqStage
  simp only [hlo, if_true, List.headD_cons, List.zip_cons_cons, List.zip_nil_right, List.singleton_append]
  rw [sortK_sorted _ (by simp [le_of_lt hpos])]
  simp only [List.map_cons, List.map_nil, hloc]
  congr 1
  show [List.zipWith (fun a b => lerpT a b 1) (List.replicate r0.length 0) r0] = [r0]
  rw [zipWith_lerp_one _ _ (by simp)]

theorem freqStage_id_facts (f : Vec) (e : Mat) (hs : f.Pairwise (· < ·)) (hne : f ≠ [])
    (hpos : f.length = 1 → 0 < f.headD 0) (hl : e.length = f.length) (hrect : Rect e (e.headD []).length) :
    (freqStage f e f).vals = e ∧ (∀ l ∈ (freqStage f e f).locs, l.isSeg = true) ∧
      (freqStage f e f).locs.length = f.length := by
  by_cases hn : 2 ≤ f.length
  · rw [freqStage_id f e hs hn hl hrect]
    exact ⟨rfl, locate_mem_isSeg f hs hn, by simp⟩
  · match f, e, hne, hn, hl, hpos with
    | [f0], [r0], _, _, _, hpos =>
      rw [freqStage_id_single f0 r0 (hpos rfl)]
      refine ⟨rfl, ?_, rfl⟩
      intro l hl'
      simp only [List.mem_singleton] at hl'
      rw [hl']; rfl
    | _ :: _ :: _, _, _, hn, _, _ => simp at hn

/-- facts about the numeric pipeline when every requested coordinate array is the source's own -/
theorem coreOk_id (f d : Vec) (e : Mat) (hf : f.Pairwise (· < ·)) (hfne : f ≠ []) (hd : d.Pairwise (· < ·))
    (hdr : ∀ x ∈ d, 0 ≤ x ∧ x < 360) (hdne : d ≠ []) (hl : e.length = f.length) (hrect : Rect e d.length)
    (tf td : Option Vec) (hfpos : tf = some f → f.length = 1 → 0 < f.headD 0)
    (htf : tf = none ∨ tf = some f) (htd : td = none ∨ td = some d) :
    (coreOk f (some d) e tf td).freq = f ∧ (coreOk f (some d) e tf td).dir = some d ∧
      (coreOk f (some d) e tf td).vals = e ∧ (∀ l ∈ (coreOk f (some d) e tf td).rowSt, l.isSeg = true) ∧
      (∀ b ∈ (coreOk f (some d) e tf td).colOK, b = true) ∧
      (coreOk f (some d) e tf td).rowSt.length = f.length ∧ (coreOk f (some d) e tf td).colOK.length = d.length := by
  have he0 : e ≠ [] := by
    intro h; rw [h] at hl; exact hfne (List.length_eq_zero_iff.mp hl.symm)
  have hhead : (e.headD []).length = d.length := by
    cases e with
    | nil => exact absurd rfl he0
    | cons r t => exact hrect r (by simp)
  have hrect' : Rect e (e.headD []).length := by rw [hhead]; exact hrect
  have hdp : (dirPart (some d) e td).1 = some d ∧ (dirPart (some d) e td).2.1 = e ∧
      (∀ b ∈ (dirPart (some d) e td).2.2, b = true) ∧ (dirPart (some d) e td).2.2.length = d.length := by
    rcases htd with rfl | rfl
    · refine ⟨rfl, rfl, ?_, ?_⟩
      · intro b hb; simp only [dirPart, List.mem_map] at hb; obtain ⟨_, _, rfl⟩ := hb; rfl
      · change ((e.headD []).map fun _ => true).length = d.length
        rw [List.length_map]; exact hhead
    · obtain ⟨hv, hseg, hlen⟩ := dirStage_id_facts d e hd hdr hdne hrect
      refine ⟨rfl, hv, ?_, ?_⟩
      · intro b hb
        change b ∈ (dirStage d e d).locs.map Loc.isSeg at hb
        rw [List.mem_map] at hb
        obtain ⟨l, hl', rfl⟩ := hb
        exact hseg l hl'
      · change ((dirStage d e d).locs.map Loc.isSeg).length = d.length
        rw [List.length_map]; exact hlen
  obtain ⟨hd1, hd2, hd3, hd4⟩ := hdp
  rcases htf with rfl | rfl
  · refine ⟨rfl, hd1, hd2, ?_, hd3, ?_, hd4⟩
    · intro l hl'
      change l ∈ (f.map fun _ => Loc.seg 0 0) at hl'
      simp only [List.mem_map] at hl'
      obtain ⟨_, _, rfl⟩ := hl'
      rfl
    · change (f.map fun _ => Loc.seg 0 0).length = f.length
      simp
  · obtain ⟨hv, hseg, hlen⟩ := freqStage_id_facts f e hf hfne (hfpos rfl) hl hrect'
    refine ⟨rfl, hd1, ?_, ?_, hd3, ?_, hd4⟩
    · change (freqStage f (dirPart (some d) e td).2.1 f).vals = e
      rw [hd2]; exact hv
    · change ∀ l ∈ (freqStage f (dirPart (some d) e td).2.1 f).locs, l.isSeg = true
      rw [hd2]; exact hseg
    · change (freqStage f (dirPart (some d) e td).2.1 f).locs.length = f.length
      rw [hd2]; exact hlen

/-- **regrid_id** (full strength since repair 0802ffa) — when each requested coordinate array is the source's own
    (strictly increasing frequencies — positive if there is only one —, strictly increasing directions in `[0, 360)`,
    at least ONE of each) regridding is the identity: bin for bin, without `maintain_m0`, and with it as soon as the
    source has energy (the factor is then exactly 1) -/
theorem regrid_id (thr q : ℚ) (f d : Vec) (e : Mat) (hf : f.Pairwise (· < ·)) (hfne : f ≠ [])
    (hd : d.Pairwise (· < ·)) (hdr : ∀ x ∈ d, 0 ≤ x ∧ x < 360) (hdne : d ≠ []) (hl : e.length = f.length)
    (hrect : Rect e d.length) (tf td : Option Vec) (hfpos : tf = some f → f.length = 1 → 0 < f.headD 0)
    (htf : tf = none ∨ tf = some f) (htd : td = none ∨ td = some d) :
    regrid thr q f (some d) e tf td false = .ok { freq := f, dir := some d, e := e.map (·.map some) } ∧
      (0 < hsOf thr q f (some d) e →
        regrid thr q f (some d) e tf td true = .ok { freq := f, dir := some d, e := e.map (·.map some) }) := by
  obtain ⟨h1, h2, h3, h4, h5, h6, h7⟩ := coreOk_id f d e hf hfne hd hdr hdne hl hrect tf td hfpos htf htd
  have hcore : core f (some d) e tf td = .ok (coreOk f (some d) e tf td) := by
    unfold core; cases td <;> rfl
  constructor
  · unfold regrid
    rw [hcore]
    simp only [h1, h2]
    rw [finish_false_allSeg _ _ h4 h5 (by rw [h6, h3, hl]) (by rw [h3, h7]; exact hrect), h3]
  · intro hpos
    unfold regrid
    rw [hcore]
    simp only [h1, h2, h3, allOK_of _ h4 h5]
    have hk : scaleOf (hsOf thr q f (some d) e) (hsOf thr q f (some d) e) true = some 1 := by
      unfold scaleOf
      simp [le_of_lt hpos, hpos, div_self (ne_of_gt hpos)]
    rw [hk, finish_scaled, h3]
    congr 3
    unfold C10.scaleM scaleV
    have : ∀ r ∈ e, (r.map fun x => (1 : ℚ) * x) = id r := fun r _ => by simp
    rw [List.map_congr_left this, List.map_id]

/-- the single-bin grids on which the identity failed in the code as found (finding F27/F28, NaN everywhere) -/
example : regrid 0 0 [1 / 10] (some [10]) [[1]] (some [1 / 10]) (some [10]) false =
    .ok { freq := [1 / 10], dir := some [10], e := [[some 1]] } := by decide +kernel

/-! ## G. below the lowest source frequency: linear to zero energy at `f = 0` -/

theorem zipWith_replicate_zero (g : ℚ → ℚ → ℚ) : ∀ (r : Vec),
    List.zipWith g (List.replicate r.length 0) r = r.map (g 0) := by
  intro r
  induction r with
  | nil => rfl
  | cons a r ih => simp only [List.length_cons, List.replicate_succ, List.zipWith_cons_cons, List.map_cons, ih]

/-- **anchor_below_fmin** — a requested frequency `x` with `0 ≤ x <` lowest source frequency `f₀` gets the lowest
    source row multiplied by `x / f₀`: the straight line from zero energy at `f = 0` to the first row -/
theorem anchor_below_fmin (f : Vec) (e : Mat) (tf : Vec) (hs : f.Pairwise (· < ·)) (hpos : 0 < f.headD 0)
    (hne : f ≠ []) (hl : e.length = f.length) (i : Nat) (hi : i < tf.length) (h0 : 0 ≤ getR tf i)
    (h1 : getR tf i < f.headD 0) :
    (freqStage f e tf).locs.getD i .out = .seg 0 (getR tf i / f.headD 0) ∧
      (freqStage f e tf).vals.getD i [] = (e.headD []).map fun v => v * (getR tf i / f.headD 0) := by
  match f, e, hne, hl with
  | f0 :: fr, r0 :: er, _, hl =>
    simp only [List.headD_cons] at hpos h1 ⊢
    have hmem : getR tf i ∈ tf := getR_mem tf i hi
    have hlo : anchorLo (f0 :: fr) tf = true := by
      unfold anchorLo
      rw [Bool.or_eq_true]; left
      rw [decide_eq_true_eq]
      calc minL tf ≤ getR tf i := minL_le_mem tf _ hmem
        _ < f0 := h1
        _ ≤ minL (f0 :: fr) := head_le_minL (f0 :: fr) hs
    have hkeys : ((((0 : ℚ), List.replicate r0.length (0 : ℚ)) :: (f0 :: fr).zip (r0 :: er)).map (·.1)) = 0 :: f0 :: fr := by
      have : (((f0 :: fr).zip (r0 :: er)).map (·.1)) = f0 :: fr := List.map_fst_zip (by simp at hl ⊢; omega)
      rw [List.map_cons, this]
    have hsorted : (0 :: f0 :: fr).Pairwise (· ≤ ·) := by
      rw [List.pairwise_cons]
      refine ⟨fun y hy => ?_, hs.imp le_of_lt⟩
      exact le_trans (le_of_lt hpos) (pairwise_lt_bounds (f0 :: fr) hs y hy).1
    have hloc : locate (0 :: f0 :: fr) (getR tf i) = .seg 0 (getR tf i / f0) := by
      rw [locate_first_seg 0 f0 fr (getR tf i) h0 (le_of_lt h1) (ne_of_lt hpos)]
      simp
    unfold freqStage
    simp only [hlo, if_true, List.headD_cons, List.singleton_append]
    rw [sortK_sorted _ (by rw [hkeys]; exact hsorted), hkeys]
    have hi' : i < (tf.map (locate (0 :: f0 :: fr))).length := by simpa using hi
    constructor
    · rw [getD_map_of_lt _ _ _ hi, ← getR_eq_getElem tf i hi, hloc]
    · rw [getD_map_of_lt _ _ _ hi', List.getElem_map, ← getR_eq_getElem tf i hi, hloc]
      have hrows : ((((0 : ℚ), List.replicate r0.length (0 : ℚ)) :: (f0 :: fr).zip (r0 :: er)).map (·.2)) =
          List.replicate r0.length 0 :: r0 :: (fr.zip er).map (·.2) := by simp
      rw [hrows]
      show List.zipWith (fun a b => lerpT a b (getR tf i / f0)) (List.replicate r0.length 0) r0 = _
      rw [zipWith_replicate_zero]
      apply List.map_congr_left
      intro v _
      unfold lerpT; ring

/-! ## H. the 0/360 seam: neighbouring bins on both sides -/

theorem lastD_eq_getLast (l : Vec) (h : l ≠ []) : lastD l = l.getLast h := by
  unfold lastD
  rw [List.getLastD_eq_getLast?, List.getLast?_eq_some_getLast h]; rfl

theorem snoc_decomp (l : Vec) (h : l ≠ []) : l = l.dropLast ++ [lastD l] := by
  rw [lastD_eq_getLast l h, List.dropLast_concat_getLast h]

theorem append_snoc_two (pre l : Vec) (x : ℚ) (h : l ≠ []) :
    pre ++ l ++ [x] = (pre ++ l.dropLast) ++ [lastD l, x] := by
  have hd := snoc_decomp l h
  calc pre ++ l ++ [x] = pre ++ (l.dropLast ++ [lastD l]) ++ [x] := by rw [← hd]
    _ = (pre ++ l.dropLast) ++ [lastD l, x] := by simp

theorem lt_last_of_mem_dropLast (l : Vec) (hs : l.Pairwise (· < ·)) (h : l ≠ []) : ∀ y ∈ l.dropLast, y < lastD l := by
  intro y hy
  have hd := snoc_decomp l h
  rw [hd, List.pairwise_append] at hs
  exact hs.2.2 y hy (lastD l) (by simp)

theorem getR_map_of_lt {α : Type} (g : α → ℚ) (l : List α) (j : Nat) (h : j < l.length) :
    getR (l.map g) j = g l[j] := by
  simp [getR, List.getD_eq_getElem?_getD, h]

/-- value of the direction stage at one (row, target) position: the interpolant of that row at that target -/
theorem dirStage_entry (d : Vec) (e : Mat) (td : Vec) (hs : d.Pairwise (· < ·)) (hr : ∀ x ∈ d, 0 ≤ x ∧ x < 360)
    (hrect : Rect e d.length) (i : Nat) (hi : i < e.length) (j : Nat) (hj : j < td.length) :
    getR ((dirStage d e td).vals.getD i []) j =
      applyLoc (dirYs e[i] (wrapLo d td) (wrapHi d td)) (locate (dirXs d (wrapLo d td) (wrapHi d td)) (getR td j)) := by
  unfold dirStage
  rw [dirNodes_sorted d hs hr]
  have hk : ((d.zip (List.range d.length)).map (·.1)) = d := List.map_fst_zip (by simp)
  have hix : ((d.zip (List.range d.length)).map (·.2)) = List.range d.length := List.map_snd_zip (by simp)
  simp only [hk, hix]
  rw [getD_map_of_lt _ _ _ hi]
  have hlen := hrect _ (List.getElem_mem hi)
  rw [← hlen, map_getR_range]
  have hj' : j < (td.map (locate (dirXs d (wrapLo d td) (wrapHi d td)))).length := by
    simpa using hj
  rw [getR_map_of_lt _ _ _ hj', List.getElem_map, ← getR_eq_getElem td j hj]

/-- **seam_both_sides** — a requested direction `θ` beyond the last source direction (`last < θ < first + 360`), or
    before the first one (`last − 360 < θ < first`), gets the convex combination of exactly the LAST and the FIRST
    source bins, weighted by the distance from the last bin along the circle over the circular gap between them -/
theorem seam_both_sides (d : Vec) (e : Mat) (td : Vec) (hs : d.Pairwise (· < ·)) (hr : ∀ x ∈ d, 0 ≤ x ∧ x < 360)
    (hne : d ≠ []) (hrect : Rect e d.length) (i : Nat) (hi : i < e.length) (j : Nat) (hj : j < td.length) :
    (lastD d < getR td j → getR td j < d.headD 0 + 360 →
      getR ((dirStage d e td).vals.getD i []) j =
        lerpT (lastD e[i]) (e[i].headD 0) ((getR td j - lastD d) / (d.headD 0 + 360 - lastD d))) ∧
    (lastD d - 360 < getR td j → getR td j < d.headD 0 →
      getR ((dirStage d e td).vals.getD i []) j =
        lerpT (lastD e[i]) (e[i].headD 0) ((getR td j - (lastD d - 360)) / (d.headD 0 - (lastD d - 360)))) := by
  have hmem : getR td j ∈ td := getR_mem td j hj
  have hlen := hrect _ (List.getElem_mem hi)
  have hrne : e[i] ≠ [] := by
    intro h; rw [h] at hlen; exact hne (List.length_eq_zero_iff.mp hlen.symm)
  constructor
  · intro h1 h2
    rw [dirStage_entry d e td hs hr hrect i hi j hj]
    have hhi : wrapHi d td = true := by
      unfold wrapHi
      rw [Bool.or_eq_true]; left
      rw [decide_eq_true_eq]; exact lt_of_lt_of_le h1 (maxL_ge_mem td _ hmem)
    rw [hhi]
    generalize wrapLo d td = lo
    -- nodes: (pre ++ d.dropLast) ++ [last, first + 360]
    have hxs : dirXs d lo true = ((if lo then [lastD d - 360] else []) ++ d.dropLast) ++ [lastD d, d.headD 0 + 360] := by
      unfold dirXs
      simp only [if_true]
      exact append_snoc_two _ d _ hne
    have hys : dirYs e[i] lo true = ((if lo then [lastD e[i]] else []) ++ e[i].dropLast) ++ [lastD e[i], e[i].headD 0] := by
      unfold dirYs
      simp only [if_true]
      exact append_snoc_two _ e[i] _ hrne
    have hL : ((if lo then [lastD e[i]] else []) ++ e[i].dropLast).length =
        ((if lo then [lastD d - 360] else []) ++ d.dropLast).length := by
      cases lo <;> simp [hlen]
    rw [hxs, hys]
    rw [locate_last_seg _ (lastD d) (d.headD 0 + 360) (getR td j) ?_ h1 (le_of_lt h2)]
    · show lerpT (getR _ _) (getR _ _) _ = _
      rw [← hL]
      have e1 := getR_append_add ((if lo then [lastD e[i]] else []) ++ e[i].dropLast) [lastD e[i], e[i].headD 0] 0
      have e2 := getR_append_add ((if lo then [lastD e[i]] else []) ++ e[i].dropLast) [lastD e[i], e[i].headD 0] 1
      rw [Nat.add_zero] at e1
      rw [e1, e2]; rfl
    · intro y hy
      rw [List.mem_append] at hy
      rcases hy with hy | hy
      · cases lo
        · simp at hy
        · simp only [if_true, List.mem_singleton] at hy; rw [hy]; linarith
      · exact lt_trans (lt_last_of_mem_dropLast d hs hne y hy) h1
  · intro h1 h2
    rw [dirStage_entry d e td hs hr hrect i hi j hj]
    have hlo : wrapLo d td = true := by
      unfold wrapLo
      rw [Bool.or_eq_true]; left
      rw [decide_eq_true_eq]; exact lt_of_le_of_lt (minL_le_mem td _ hmem) h2
    rw [hlo]
    generalize wrapHi d td = hi'
    obtain ⟨d0, dr, rfl⟩ := List.exists_cons_of_ne_nil hne
    obtain ⟨r0, rr, hre⟩ := List.exists_cons_of_ne_nil hrne
    rw [hre]
    have hxs : dirXs (d0 :: dr) true hi' = (lastD (d0 :: dr) - 360) :: d0 :: (dr ++ if hi' then [d0 + 360] else []) := by
      simp [dirXs]
    have hys : dirYs (r0 :: rr) true hi' = lastD (r0 :: rr) :: r0 :: (rr ++ if hi' then [r0] else []) := by
      simp [dirYs]
    rw [hxs, hys, List.headD_cons, List.headD_cons]
    rw [locate_first_seg _ _ _ _ (le_of_lt h1) (le_of_lt (by simpa using h2)) (by
      have := (hr d0 (by simp)).1
      have hlast : lastD (d0 :: dr) < 360 := (hr _ (by rw [lastD_eq_getLast _ hne]; exact List.getLast_mem hne)).2
      linarith)]
    rfl

/-! ## I. rotation -/

/-- the interpolation of any row onto sorted target nodes `d`, once `np.unique` has produced exactly those nodes
    (`ix` = stored index of each): the row re-indexed by `ix` -/
theorem dirStage_onto_nodes (d' d : Vec) (ix : List Nat) (e : Mat) (hs : d.Pairwise (· < ·)) (hn : 2 ≤ d.length)
    (hnodes : (dirNodes d').map (·.1) = d) (hix : (dirNodes d').map (·.2) = ix) (hlen : ix.length = d.length) :
    dirStage d' e d = { locs := d.map (locate d), vals := e.map fun r => ix.map (getR r) } := by
  unfold dirStage
  have hlo := wrapLo_self d hs hn
  have hhi := wrapHi_self d hs hn
  simp only [hnodes, hix, hlo, hhi, dirXs, dirYs, Bool.false_eq_true, if_false, List.nil_append, List.append_nil]
  congr 1
  apply List.map_congr_left
  intro r _
  exact interp_nodes_id d (ix.map (getR r)) hs hn (by simp [hlen])

/-- directions stored as a rotation (as a sequence) of a sorted list: `np.unique` sorts them back and remembers where
    each one was stored -/
theorem dirNodes_rotated (d : Vec) (s : Nat) (hs : d.Pairwise (· < ·)) (hr : ∀ x ∈ d, 0 ≤ x ∧ x < 360)
    (hsn : s ≤ d.length) :
    dirNodes (d.rotate s) =
      (d.take s).zip ((List.range s).map fun x => d.length - s + x) ++ (d.drop s).zip (List.range (d.length - s)) := by
  unfold dirNodes
  have hr' : ∀ x ∈ d.rotate s, 0 ≤ x ∧ x < 360 := fun x hx => hr x (List.mem_rotate.mp hx)
  rw [map_pmod_id _ hr', List.length_rotate, List.rotate_eq_drop_append_take hsn]
  have hrange : List.range d.length =
      List.range (d.length - s) ++ (List.range s).map fun x => d.length - s + x := by
    conv_lhs => rw [show d.length = (d.length - s) + s by omega]
    exact List.range_add
  rw [hrange, List.zip_append (by simp)]
  have hkeys : (((d.take s).zip ((List.range s).map fun x => d.length - s + x) ++
      (d.drop s).zip (List.range (d.length - s))).map (·.1)) = d := by
    rw [List.map_append]
    have h1 : ((d.take s).zip ((List.range s).map fun x => d.length - s + x)).map (·.1) = d.take s :=
      List.map_fst_zip (by simp)
    have h2 : ((d.drop s).zip (List.range (d.length - s))).map (·.1) = d.drop s := List.map_fst_zip (by simp)
    rw [h1, h2, List.take_append_drop]
  rw [sortK_rotated _ _ (by rw [hkeys]; exact hs)]
  exact dedupK_strict _ (by rw [hkeys]; exact hs)

theorem map_getR_drop (r : Vec) (A s : Nat) (h : A + s = r.length) :
    ((List.range s).map fun x => A + x).map (getR r) = r.drop A := by
  apply List.ext_getElem
  · simp; omega
  · intro i h1 h2
    simp only [List.getElem_map, List.getElem_range, List.getElem_drop]
    exact getR_eq_getElem r (A + i) (by simp at h1; omega)

theorem map_getR_take (r : Vec) (A : Nat) (h : A ≤ r.length) : (List.range A).map (getR r) = r.take A := by
  apply List.ext_getElem
  · simp [h]
  · intro i h1 h2
    simp only [List.getElem_map, List.getElem_range, List.getElem_take]
    exact getR_eq_getElem r i (by simp at h1; omega)

/-- **regrid_rotated_storage** — when the source directions are stored as a rotation of the (sorted) target directions,
    regridding onto the target returns, bin for bin, the stored data rotated back: only the labels matter, not the
    storage order -/
theorem regrid_rotated_storage (d : Vec) (e : Mat) (s : Nat) (hs : d.Pairwise (· < ·))
    (hr : ∀ x ∈ d, 0 ≤ x ∧ x < 360) (hn : 2 ≤ d.length) (hsn : s ≤ d.length) (hrect : Rect e d.length) :
    dirStage (d.rotate s) e d = { locs := d.map (locate d), vals := e.map fun r => r.rotate (d.length - s) } := by
  have hnodes := dirNodes_rotated d s hs hr hsn
  have h1 : (dirNodes (d.rotate s)).map (·.1) = d := by
    rw [hnodes, List.map_append]
    have a1 : ((d.take s).zip ((List.range s).map fun x => d.length - s + x)).map (·.1) = d.take s :=
      List.map_fst_zip (by simp)
    have a2 : ((d.drop s).zip (List.range (d.length - s))).map (·.1) = d.drop s := List.map_fst_zip (by simp)
    rw [a1, a2, List.take_append_drop]
  have h2 : (dirNodes (d.rotate s)).map (·.2) =
      ((List.range s).map fun x => d.length - s + x) ++ List.range (d.length - s) := by
    rw [hnodes, List.map_append]
    have a1 : ((d.take s).zip ((List.range s).map fun x => d.length - s + x)).map (·.2) =
        (List.range s).map fun x => d.length - s + x := List.map_snd_zip (by simp [hsn])
    have a2 : ((d.drop s).zip (List.range (d.length - s))).map (·.2) = List.range (d.length - s) :=
      List.map_snd_zip (by simp)
    rw [a1, a2]
  rw [dirStage_onto_nodes (d.rotate s) d _ e hs hn h1 h2 (by simp; omega)]
  congr 1
  apply List.map_congr_left
  intro r hr'
  have hl := hrect r hr'
  rw [List.map_append, map_getR_drop r (d.length - s) s (by omega), map_getR_take r (d.length - s) (by omega),
    List.rotate_eq_drop_append_take (by omega)]

/-- uniform full-circle grid `d0, d0 + Δ, …, d0 + (n−1)Δ` -/
def uniformDirs (d0 Δ : ℚ) (n : Nat) : Vec := (List.range n).map fun (j : Nat) => d0 + (j : ℚ) * Δ

theorem uniformDirs_length (d0 Δ : ℚ) (n : Nat) : (uniformDirs d0 Δ n).length = n := by simp [uniformDirs]

theorem uniformDirs_getElem (d0 Δ : ℚ) (n j : Nat) (h : j < (uniformDirs d0 Δ n).length) :
    (uniformDirs d0 Δ n)[j] = d0 + (j : ℚ) * Δ := by simp [uniformDirs]

theorem step_pos (n : Nat) (Δ : ℚ) (_hn : 0 < n) (hΔ : (n : ℚ) * Δ = 360) : 0 < Δ := by
  by_contra h
  have hn' : (0 : ℚ) ≤ n := by exact_mod_cast Nat.zero_le n
  have : (n : ℚ) * Δ ≤ 0 := mul_nonpos_of_nonneg_of_nonpos hn' (not_lt.mp h)
  linarith

theorem uniformDirs_sorted (d0 Δ : ℚ) (n : Nat) (hΔ : 0 < Δ) : (uniformDirs d0 Δ n).Pairwise (· < ·) := by
  unfold uniformDirs
  rw [List.pairwise_map]
  refine (List.pairwise_lt_range (n := n)).imp ?_
  intro a b hab
  have : (a : ℚ) < b := by exact_mod_cast hab
  nlinarith

theorem uniformDirs_range (d0 Δ : ℚ) (n : Nat) (hn : 0 < n) (hΔ : (n : ℚ) * Δ = 360) (h0 : 0 ≤ d0) (h1 : d0 < Δ) :
    ∀ x ∈ uniformDirs d0 Δ n, 0 ≤ x ∧ x < 360 := by
  have hpos := step_pos n Δ hn hΔ
  intro x hx
  simp only [uniformDirs, List.mem_map, List.mem_range] at hx
  obtain ⟨j, hj, rfl⟩ := hx
  have hj0 : (0 : ℚ) ≤ j := by exact_mod_cast Nat.zero_le j
  have hj1 : (j : ℚ) + 1 ≤ n := by exact_mod_cast hj
  constructor
  · have := mul_nonneg hj0 (le_of_lt hpos); linarith
  · have : ((j : ℚ) + 1) * Δ ≤ n * Δ := mul_le_mul_of_nonneg_right hj1 (le_of_lt hpos)
    nlinarith

/-- relabelling a uniform full-circle grid by a whole number `k` of bins: the labels are the same set, stored rotated -/
theorem relabel_uniform (d0 Δ : ℚ) (n k : Nat) (hn : 0 < n) (hΔ : (n : ℚ) * Δ = 360) (h0 : 0 ≤ d0) (h1 : d0 < Δ) :
    relabel (uniformDirs d0 Δ n) ((k : ℚ) * Δ) = (uniformDirs d0 Δ n).rotate (k % n) := by
  have hpos := step_pos n Δ hn hΔ
  apply List.ext_getElem
  · simp [relabel, uniformDirs]
  · intro j hj1 hj2
    have hj : j < n := by simpa [relabel, uniformDirs] using hj1
    rw [List.getElem_rotate]
    simp only [relabel, List.getElem_map, uniformDirs_getElem, uniformDirs_length]
    rw [Nat.add_mod_mod]
    obtain ⟨qq, m, hqm, hmn, hm⟩ : ∃ qq m : ℕ, j + k = n * qq + m ∧ m < n ∧ (j + k) % n = m :=
      ⟨(j + k) / n, (j + k) % n, (Nat.div_add_mod (j + k) n).symm, Nat.mod_lt _ hn, rfl⟩
    rw [hm]
    have hdiv : ((j : ℚ) + k) = n * (qq : ℚ) + (m : ℚ) := by exact_mod_cast hqm
    have e : d0 + (j : ℚ) * Δ + (k : ℚ) * Δ = (d0 + (m : ℚ) * Δ) + 360 * ((qq : ℤ) : ℚ) := by
      have : d0 + (j : ℚ) * Δ + (k : ℚ) * Δ = d0 + ((j : ℚ) + k) * Δ := by ring
      rw [this, hdiv, ← hΔ]; push_cast; ring
    rw [e, pmod_add_mul_int _ 360 _ (by norm_num)]
    have hm0 : (0 : ℚ) ≤ (m : ℚ) := by exact_mod_cast Nat.zero_le _
    have hm1 : (m : ℚ) + 1 ≤ n := by exact_mod_cast hmn
    apply pmod_of_range _ 360 (by norm_num)
    · have := mul_nonneg hm0 (le_of_lt hpos); linarith
    · have : ((m : ℚ) + 1) * Δ ≤ n * Δ := mul_le_mul_of_nonneg_right hm1 (le_of_lt hpos)
      nlinarith

theorem oned_rotate_rows (ddv : ℚ) (e : Mat) (A : Nat) : oned ddv (e.map fun r => r.rotate A) = oned ddv e := by
  unfold oned
  rw [List.map_map]
  apply List.map_congr_left
  intro r _
  simp only [Function.comp]
  rw [(List.rotate_perm r A).sum_eq]

/-- **rotate_dd_kept** — relabelling the directions by any angle does not change the bin width the accessor uses
    (`min(|Δ|, 360 − |Δ|)` of the first two stored directions), also when the relabelled pair straddles 0/360 -/
theorem rotate_dd_kept (d : Vec) (a : ℚ) (hr : ∀ x ∈ d, 0 ≤ x ∧ x < 360) : dd (some (relabel d a)) = dd (some d) := by
  match d, hr with
  | [], _ => rfl
  | [_], _ => rfl
  | x :: y :: rest, hr =>
    have hx := hr x (by simp)
    have hy := hr y (by simp)
    have px := C10.dir_range (x + a)
    have py := C10.dir_range (y + a)
    have ex : pmod (x + a) 360 = x + a - 360 * (((x + a) / 360).floor : ℚ) := rfl
    have ey : pmod (y + a) 360 = y + a - 360 * (((y + a) / 360).floor : ℚ) := rfl
    rw [ex] at px
    rw [ey] at py
    simp only [relabel, List.map_cons]
    rw [ex, ey]
    apply C10.dd_relabel_inv x y a _ _ rest
    · unfold absR; split_ifs <;> linarith
    · unfold absR; split_ifs <;> linarith

theorem hsOf_relabel (thr q : ℚ) (f d : Vec) (a : ℚ) (e : Mat) (hr : ∀ x ∈ d, 0 ≤ x ∧ x < 360) :
    hsOf thr q f (some (relabel d a)) e = hsOf thr q f (some d) e := by
  unfold hsOf specS
  simp only [rotate_dd_kept d a hr]

/-- **rotate_bins** — on a uniform full-circle grid (`n ≥ 2` bins of width `Δ`, `nΔ = 360`) rotating by `k·Δ` is the
    circular shift of the data by `k` bins towards higher directions (`out[j] = in[(j − k) mod n]`), exactly, with the
    variance-conservation factor equal to 1 -/
theorem rotate_bins (thr q : ℚ) (f : Vec) (e : Mat) (n : Nat) (d0 Δ : ℚ) (k : Nat) (hn : 2 ≤ n)
    (hΔ : (n : ℚ) * Δ = 360) (h0 : 0 ≤ d0) (h1 : d0 < Δ) (hrect : Rect e n)
    (hpos : 0 < hsOf thr q f (some (uniformDirs d0 Δ n)) e) :
    rotate thr q f (uniformDirs d0 Δ n) e ((k : ℚ) * Δ) =
      .ok { freq := f, dir := some (uniformDirs d0 Δ n),
            e := (e.map fun r => r.rotate (n - k % n)).map (·.map some) } := by
  have hn0 : 0 < n := by omega
  have hpos' := step_pos n Δ hn0 hΔ
  have hs := uniformDirs_sorted d0 Δ n hpos'
  have hr := uniformDirs_range d0 Δ n hn0 hΔ h0 h1
  have hlen := uniformDirs_length d0 Δ n
  have hkn : k % n ≤ (uniformDirs d0 Δ n).length := by rw [hlen]; exact le_of_lt (Nat.mod_lt _ hn0)
  have hstage := regrid_rotated_storage (uniformDirs d0 Δ n) e (k % n) hs hr (by rw [hlen]; exact hn) hkn
    (by rw [hlen]; exact hrect)
  rw [hlen] at hstage
  have hin : hsOf thr q f (some (relabel (uniformDirs d0 Δ n) ((k : ℚ) * Δ))) e =
      hsOf thr q f (some (uniformDirs d0 Δ n)) e := hsOf_relabel thr q f _ _ e hr
  unfold rotate regrid
  have hcore : core f (some (relabel (uniformDirs d0 Δ n) ((k : ℚ) * Δ))) e none (some (uniformDirs d0 Δ n)) =
      .ok (coreOk f (some (relabel (uniformDirs d0 Δ n) ((k : ℚ) * Δ))) e none (some (uniformDirs d0 Δ n))) := rfl
  rw [hcore]
  have hvals : (coreOk f (some (relabel (uniformDirs d0 Δ n) ((k : ℚ) * Δ))) e none (some (uniformDirs d0 Δ n))).vals =
      e.map fun r => r.rotate (n - k % n) := by
    change (dirStage (relabel (uniformDirs d0 Δ n) ((k : ℚ) * Δ)) e (uniformDirs d0 Δ n)).vals = _
    rw [relabel_uniform d0 Δ n k hn0 hΔ h0 h1, hstage]
  have hcol : ∀ b ∈ (coreOk f (some (relabel (uniformDirs d0 Δ n) ((k : ℚ) * Δ))) e none (some (uniformDirs d0 Δ n))).colOK,
      b = true := by
    intro b hb
    change b ∈ (dirStage (relabel (uniformDirs d0 Δ n) ((k : ℚ) * Δ)) e (uniformDirs d0 Δ n)).locs.map Loc.isSeg at hb
    rw [relabel_uniform d0 Δ n k hn0 hΔ h0 h1, hstage, List.mem_map] at hb
    obtain ⟨l, hl, rfl⟩ := hb
    exact locate_mem_isSeg _ hs (by rw [hlen]; exact hn) l hl
  have hrow : ∀ l ∈ (coreOk f (some (relabel (uniformDirs d0 Δ n) ((k : ℚ) * Δ))) e none (some (uniformDirs d0 Δ n))).rowSt,
      l.isSeg = true := by
    intro l hl
    change l ∈ (f.map fun _ => Loc.seg 0 0) at hl
    simp only [List.mem_map] at hl
    obtain ⟨_, _, rfl⟩ := hl
    rfl
  have hfreq : (coreOk f (some (relabel (uniformDirs d0 Δ n) ((k : ℚ) * Δ))) e none (some (uniformDirs d0 Δ n))).freq = f := rfl
  have hdir : (coreOk f (some (relabel (uniformDirs d0 Δ n) ((k : ℚ) * Δ))) e none (some (uniformDirs d0 Δ n))).dir =
      some (uniformDirs d0 Δ n) := rfl
  have hout : hsOf thr q f (some (uniformDirs d0 Δ n)) (e.map fun r => r.rotate (n - k % n)) =
      hsOf thr q f (some (uniformDirs d0 Δ n)) e := by
    unfold hsOf specS
    simp only [oned_rotate_rows]
  simp only [hfreq, hdir, hvals, allOK_of _ hrow hcol, hin, hout]
  have hk : scaleOf (hsOf thr q f (some (uniformDirs d0 Δ n)) e) (hsOf thr q f (some (uniformDirs d0 Δ n)) e) true =
      some 1 := by
    unfold scaleOf
    simp [le_of_lt hpos, hpos, div_self (ne_of_gt hpos)]
  rw [hk, finish_scaled, hvals]
  congr 3
  unfold C10.scaleM scaleV
  have : ∀ r ∈ (e.map fun r => r.rotate (n - k % n)), (r.map fun x => (1 : ℚ) * x) = id r := fun r _ => by simp
  rw [List.map_congr_left this, List.map_id]

/-- the rotation angle only matters modulo 360 -/
theorem relabel_add_turns (d : Vec) (a : ℚ) (z : ℤ) : relabel d (a + 360 * z) = relabel d a := by
  unfold relabel
  apply List.map_congr_left
  intro x _
  have : x + (a + 360 * (z : ℚ)) = (x + a) + 360 * (z : ℚ) := by ring
  rw [this, pmod_add_mul_int _ 360 _ (by norm_num)]

theorem rotate_angle_mod (thr q : ℚ) (f d : Vec) (e : Mat) (a : ℚ) (z : ℤ) :
    rotate thr q f d e (a + 360 * z) = rotate thr q f d e a := by
  unfold rotate; rw [relabel_add_turns]

theorem relabel_turns (d : Vec) (z : ℤ) (hr : ∀ x ∈ d, 0 ≤ x ∧ x < 360) : relabel d (360 * z) = d := by
  have h := relabel_add_turns d 0 z
  rw [zero_add] at h
  rw [h]
  unfold relabel
  have : ∀ x ∈ d, pmod (x + 0) 360 = id x := fun x hx => by
    rw [add_zero]; exact pmod_of_range x 360 (by norm_num) (hr x hx).1 (hr x hx).2
  rw [List.map_congr_left this, List.map_id]

/-- **rotate_360_id** — rotating by 360° (by any whole number of turns, in either sense) is the identity, on every grid
    with sorted distinct directions in `[0, 360)` (one bin is enough since repair 0802ffa), uniform or not, as soon as the
    spectrum has energy -/
theorem rotate_360_id (thr q : ℚ) (f d : Vec) (e : Mat) (z : ℤ) (hf : f.Pairwise (· < ·)) (hnf : f ≠ [])
    (hd : d.Pairwise (· < ·)) (hdr : ∀ x ∈ d, 0 ≤ x ∧ x < 360) (hnd : d ≠ []) (hl : e.length = f.length)
    (hrect : Rect e d.length) (hpos : 0 < hsOf thr q f (some d) e) :
    rotate thr q f d e (360 * z) = .ok { freq := f, dir := some d, e := e.map (·.map some) } := by
  unfold rotate
  rw [relabel_turns d z hdr]
  exact (regrid_id thr q f d e hf hnf hd hdr hnd hl hrect none (some d) (fun h => by cases h) (Or.inl rfl)
    (Or.inr rfl)).2 hpos

/-- **rotate_coords_kept** — for every angle the rotated spectrum lives on the original frequencies and directions -/
theorem rotate_coords_kept (thr q : ℚ) (f d : Vec) (e : Mat) (a : ℚ) (o : Out)
    (h : rotate thr q f d e a = .ok o) : o.freq = f ∧ o.dir = some d :=
  let h' := coords_exact thr q f (some (relabel d a)) e none (some d) true o h
  ⟨h'.1, h'.2.1⟩

/-- **rotate_nonneg** — for every angle a non-negative spectrum stays non-negative -/
theorem rotate_nonneg (thr q : ℚ) (f d : Vec) (e : Mat) (a : ℚ) (o : Out) (he : MatNonneg e)
    (h : rotate thr q f d e a = .ok o) : ∀ r ∈ o.e, ∀ x ∈ r, ∀ v, x = some v → 0 ≤ v :=
  regrid_nonneg thr q f (some (relabel d a)) e none (some d) true o he h

/-- **rotate_hs_kept** — for every angle: whenever the rotated spectrum is finite (no NaN entry, energy on the output
    grid) its `hs` radicand equals the one of the ORIGINAL spectrum with its ORIGINAL direction labels -/
theorem rotate_hs_kept (thr q : ℚ) (f d : Vec) (e : Mat) (a : ℚ) (o : Out) (c : Core)
    (hr : ∀ x ∈ d, 0 ≤ x ∧ x < 360) (h : rotate thr q f d e a = .ok o)
    (hc : core f (some (relabel d a)) e none (some d) = .ok c) (hok : c.allOK = true)
    (hin : 0 ≤ hsOf thr q f (some d) e) (hout : 0 < hsOf thr q c.freq c.dir c.vals) :
    ∃ vals : Mat, o.e = vals.map (·.map some) ∧ hsOf thr q f (some d) vals = hsOf thr q f (some d) e := by
  have hrel := hsOf_relabel thr q f d a e hr
  obtain ⟨vals, h1, h2⟩ := m0_exact thr q f (some (relabel d a)) e none (some d) o c h hc hok (by rw [hrel]; exact hin) hout
  obtain ⟨h3, h4⟩ := rotate_coords_kept thr q f d e a o h
  exact ⟨vals, h1, by rw [← hrel, ← h2, h3, h4]⟩

/-! ## J. the hypotheses are satisfiable (non-vacuity), on a 2 × 4 spectrum -/

def fE : Vec := [1 / 10, 1 / 5]
def dE : Vec := [0, 90, 180, 270]
def eE : Mat := [[1, 2, 3, 4], [5, 6, 7, 8]]

example : fE.Pairwise (· < ·) ∧ 2 ≤ fE.length ∧ dE.Pairwise (· < ·) ∧ (∀ x ∈ dE, 0 ≤ x ∧ x < 360) ∧ 2 ≤ dE.length ∧
    eE.length = fE.length ∧ Rect eE dE.length ∧ MatNonneg eE ∧ 0 < hsOf (333 / 1000) (1 / 4) fE (some dE) eE := by
  unfold Rect MatNonneg; decide +kernel
example := interp_node dE [1, 2, 3, 4] (by decide +kernel) (by decide +kernel) 2 (by decide +kernel)
example : locate dE 45 = .seg 0 (1 / 2) := by decide +kernel
example := interp_convex dE [1, 2, 3, 4] 45 0 (1 / 2) (by decide +kernel)
def tfE : Vec := [1 / 20, 3 / 20, 1 / 2]
def tdE : Vec := [315, 45, 360]
def oE : Out :=
  { freq := tfE, dir := some tdE,
    e := [[some (180 / 109), some (108 / 109), some (72 / 109)], [some (648 / 109), some (504 / 109), some (432 / 109)],
          [some 0, some 0, some 0]] }
example : regrid (333 / 1000) (1 / 4) fE (some dE) eE (some tfE) (some tdE) true = .ok oE := by decide +kernel
example := regrid_nonneg (333 / 1000) (1 / 4) fE (some dE) eE (some tfE) (some tdE) true oE
  (by unfold MatNonneg; decide +kernel) (by decide +kernel)
example := coords_exact (333 / 1000) (1 / 4) fE (some dE) eE (some tfE) (some tdE) true oE (by decide +kernel)
example := zero_above_fmax (333 / 1000) (1 / 4) fE (some dE) eE tfE (some tdE) true oE
  (by decide +kernel) 2 (by decide +kernel) (by decide +kernel) (by decide +kernel)
example := m0_exact (333 / 1000) (1 / 4) fE (some dE) eE (some tfE) (some tdE) oE (coreOk fE (some dE) eE (some tfE) (some tdE))
  (by decide +kernel) rfl (by decide +kernel) (by decide +kernel) (by decide +kernel)
example := m0_degenerate (333 / 1000) (1 / 4) fE (some dE) [[0, 0, 0, 0], [0, 0, 0, 0]] none (some [45])
  { freq := fE, dir := some [45], e := [[none], [none]] } (coreOk fE (some dE) [[0, 0, 0, 0], [0, 0, 0, 0]] none (some [45]))
  (by decide +kernel) rfl (by decide +kernel)
example := regrid_id (333 / 1000) (1 / 4) fE dE eE (by decide +kernel) (by decide +kernel) (by decide +kernel)
  (by decide +kernel) (by decide +kernel) (by decide +kernel) (by unfold Rect; decide +kernel)
  (some fE) (some dE) (fun _ => by decide +kernel) (Or.inr rfl) (Or.inr rfl)
example := regrid_id (333 / 1000) (1 / 4) [1 / 10] [10] [[1]] (by decide +kernel) (by decide +kernel) (by decide +kernel)
  (by decide +kernel) (by decide +kernel) (by decide +kernel) (by unfold Rect; decide +kernel)
  (some [1 / 10]) (some [10]) (fun _ _ => by decide +kernel) (Or.inr rfl) (Or.inr rfl)
example := anchor_below_fmin fE eE [1 / 20, 3 / 20] (by decide +kernel) (by decide +kernel) (by decide +kernel)
  (by decide +kernel) 0 (by decide +kernel) (by decide +kernel) (by decide +kernel)
example := (seam_both_sides dE eE [315, 45, 360] (by decide +kernel) (by decide +kernel) (by decide +kernel)
  (by unfold Rect; decide +kernel) 1 (by decide +kernel) 0 (by decide +kernel)).1 (by decide +kernel) (by decide +kernel)
example := (seam_both_sides [10, 100, 190, 280] eE [5, 45] (by decide +kernel) (by decide +kernel) (by decide +kernel)
  (by unfold Rect; decide +kernel) 1 (by decide +kernel) 0 (by decide +kernel)).2 (by decide +kernel) (by decide +kernel)
example := regrid_rotated_storage dE eE 3 (by decide +kernel) (by decide +kernel) (by decide +kernel) (by decide +kernel)
  (by unfold Rect; decide +kernel)
example : uniformDirs 0 90 4 = dE := by decide +kernel
example := rotate_bins (333 / 1000) (1 / 4) fE eE 4 0 90 5 (by decide +kernel) (by norm_num) (by norm_num) (by norm_num)
  (by unfold Rect; decide +kernel) (by decide +kernel)
example : rotate (333 / 1000) (1 / 4) fE dE eE 90 =
    .ok { freq := fE, dir := some dE, e := [[some 4, some 1, some 2, some 3], [some 8, some 5, some 6, some 7]] } := by
  decide +kernel
example := rotate_dd_kept [315, 0, 45] 50 (by decide +kernel)
example := rotate_360_id (333 / 1000) (1 / 4) fE dE eE (-2) (by decide +kernel) (by decide +kernel) (by decide +kernel)
  (by decide +kernel) (by decide +kernel) (by decide +kernel) (by unfold Rect; decide +kernel) (by decide +kernel)
def oR : Out :=
  { freq := fE, dir := some dE,
    e := [[some (67 / 30), some (143 / 90), some (233 / 90), some (323 / 90)],
          [some (187 / 30), some (503 / 90), some (593 / 90), some (683 / 90)]] }
example : rotate (333 / 1000) (1 / 4) fE dE eE 37 = .ok oR := by decide +kernel
example := rotate_hs_kept (333 / 1000) (1 / 4) fE dE eE 37 oR (coreOk fE (some (relabel dE 37)) eE none (some dE))
  (by decide +kernel) (by decide +kernel) rfl (by decide +kernel) (by decide +kernel) (by decide +kernel)
example := rotate_nonneg (333 / 1000) (1 / 4) fE dE eE 37 oR (by unfold MatNonneg; decide +kernel) (by decide +kernel)
example := rotate_coords_kept (333 / 1000) (1 / 4) fE dE eE 37 oR (by decide +kernel)

/-! ## I'. targets on the circle are always inside the extended source range -/

theorem lastD_append_singleton (l : Vec) (z : ℚ) : lastD (l ++ [z]) = z := by simp [lastD]

theorem lastD_mem (l : Vec) (h : l ≠ []) : lastD l ∈ l := by
  rw [lastD_eq_getLast l h]; exact List.getLast_mem h

theorem headD_mem (l : Vec) (h : l ≠ []) : l.headD 0 ∈ l := by
  cases l with
  | nil => exact absurd rfl h
  | cons a t => simp

/-- **dir_targets_on_circle_ok** — whatever the stored source directions are (any order, duplicates, any range, even a
    single bin since repair 0802ffa), every requested direction in `[0, 360]` is interpolated between two neighbouring
    source bins (no NaN): the wrap bins always close the circle -/
theorem dir_targets_on_circle_ok (d' : Vec) (e : Mat) (td : Vec) (hne : d' ≠ [])
    (htd : ∀ θ ∈ td, 0 ≤ θ ∧ θ ≤ 360) : ∀ l ∈ (dirStage d' e td).locs, l.isSeg = true := by
  obtain ⟨hK, hmem⟩ := dedupK_sortK_spec ((d'.map fun x => pmod x 360).zip (List.range d'.length))
  have hkeys : (((d'.map fun x => pmod x 360).zip (List.range d'.length)).map (·.1)) = d'.map fun x => pmod x 360 :=
    List.map_fst_zip (by simp)
  rw [hkeys] at hmem
  change ((dirNodes d').map (·.1)).Pairwise (· < ·) at hK
  change ∀ y, y ∈ (dirNodes d').map (·.1) ↔ y ∈ d'.map fun x => pmod x 360 at hmem
  generalize hKdef : (dirNodes d').map (·.1) = K at hK hmem
  have hrange : ∀ y ∈ K, 0 ≤ y ∧ y < 360 := by
    intro y hy
    obtain ⟨x, _, rfl⟩ := List.mem_map.mp ((hmem y).mp hy)
    exact C10.dir_range x
  have hKne : K ≠ [] := by
    obtain ⟨a, t, rfl⟩ := List.exists_cons_of_ne_nil hne
    intro h
    have := (hmem (pmod a 360)).mpr (by simp)
    rw [h] at this; simp at this
  have hlast := hrange _ (lastD_mem K hKne)
  have hhead := hrange _ (headD_mem K hKne)
  have hKlen : K.length = 1 ∨ 2 ≤ K.length := by
    have : K.length ≠ 0 := fun h => hKne (List.length_eq_zero_iff.mp h)
    omega
  intro l hl
  unfold dirStage at hl
  simp only [hKdef, List.mem_map] at hl
  obtain ⟨θ, hθ, rfl⟩ := hl
  have hθr := htd θ hθ
  apply locate_in_range
  · -- the extended node list is strictly increasing
    unfold dirXs
    rw [List.pairwise_append, List.pairwise_append]
    refine ⟨⟨?_, hK, ?_⟩, ?_, ?_⟩
    · split <;> simp
    · intro x hx y hy
      split at hx
      · simp only [List.mem_singleton] at hx; rw [hx]; have := (hrange y hy).1; linarith
      · simp at hx
    · split <;> simp
    · intro x hx y hy
      split at hy
      · simp only [List.mem_singleton] at hy
        rw [hy]
        rcases List.mem_append.mp hx with hx | hx
        · split at hx
          · simp only [List.mem_singleton] at hx; rw [hx]; linarith
          · simp at hx
        · have := (hrange x hx).2; linarith
      · simp at hy
  · unfold dirXs
    rcases hKlen with h1 | h2
    · have hlo : wrapLo K td = true := by simp [wrapLo, h1]
      have hhi : wrapHi K td = true := by simp [wrapHi, h1]
      simp [hlo, hhi, h1]
    · simp only [List.length_append]
      omega
  · -- first node ≤ θ
    unfold dirXs
    cases hlo : wrapLo K td with
    | true =>
      simp only [if_true, List.cons_append, List.singleton_append, List.headD_cons]
      linarith
    | false =>
      simp only [Bool.false_eq_true, if_false, List.nil_append]
      have : (K ++ if wrapHi K td = true then [K.headD 0 + 360] else []).headD 0 = K.headD 0 := by
        cases K with
        | nil => exact absurd rfl hKne
        | cons k0 kr => rfl
      rw [this]
      unfold wrapLo at hlo
      rw [Bool.or_eq_false_iff] at hlo
      have hnl : ¬ minL td < K.headD 0 := by simpa using hlo.1
      exact le_trans (not_lt.mp hnl) (minL_le_mem td θ hθ)
  · -- θ ≤ last node
    unfold dirXs
    cases hhi : wrapHi K td with
    | true =>
      simp only [if_true]
      rw [lastD_append_singleton]
      linarith
    | false =>
      simp only [Bool.false_eq_true, if_false, List.append_nil]
      have : lastD ((if wrapLo K td = true then [lastD K - 360] else []) ++ K) = lastD K := by
        unfold lastD
        rw [List.getLastD_eq_getLast?, List.getLastD_eq_getLast?, List.getLast?_append_of_ne_nil _ hKne]
      rw [this]
      unfold wrapHi at hhi
      rw [Bool.or_eq_false_iff] at hhi
      have hnl : ¬ lastD K < maxL td := by simpa using hhi.1
      exact le_trans (maxL_ge_mem td θ hθ) (not_lt.mp hnl)

theorem pmod_shift_ne (x y a : ℚ) (hx : 0 ≤ x ∧ x < 360) (hy : 0 ≤ y ∧ y < 360) (hxy : x ≠ y) :
    pmod (x + a) 360 ≠ pmod (y + a) 360 := by
  intro h
  unfold pmod at h
  have e : x - y = 360 * (((((x + a) / 360).floor - ((y + a) / 360).floor : ℤ)) : ℚ) := by
    push_cast; linarith
  have hk : (((x + a) / 360).floor - ((y + a) / 360).floor : ℤ) ≤ -1 ∨
      (((x + a) / 360).floor - ((y + a) / 360).floor : ℤ) = 0 ∨
      1 ≤ (((x + a) / 360).floor - ((y + a) / 360).floor : ℤ) := by omega
  rcases hk with hk | hk | hk
  · have : (((((x + a) / 360).floor - ((y + a) / 360).floor : ℤ)) : ℚ) ≤ -1 := by exact_mod_cast hk
    linarith [hx.1, hy.2]
  · rw [hk] at e
    simp only [Int.cast_zero, mul_zero] at e
    exact hxy (by linarith)
  · have : (1 : ℚ) ≤ (((((x + a) / 360).floor - ((y + a) / 360).floor : ℤ)) : ℚ) := by exact_mod_cast hk
    linarith [hx.2, hy.1]

/-- **rotate_finite** — for EVERY angle: with sorted distinct directions in `[0, 360)` (one bin is enough since repair
    0802ffa) no entry of the rotated spectrum is NaN before the variance factor is applied (every original direction
    lies between two relabelled bins on the circle) -/
theorem rotate_finite (f d : Vec) (e : Mat) (a : ℚ) (hdr : ∀ x ∈ d, 0 ≤ x ∧ x < 360) (hnd : d ≠ []) :
    (coreOk f (some (relabel d a)) e none (some d)).allOK = true := by
  apply allOK_of
  · intro l hl
    change l ∈ (f.map fun _ => Loc.seg 0 0) at hl
    simp only [List.mem_map] at hl
    obtain ⟨_, _, rfl⟩ := hl
    rfl
  · intro b hb
    change b ∈ (dirStage (relabel d a) e d).locs.map Loc.isSeg at hb
    rw [List.mem_map] at hb
    obtain ⟨l, hl, rfl⟩ := hb
    refine dir_targets_on_circle_ok (relabel d a) e d ?_ (fun θ hθ => ⟨(hdr θ hθ).1, le_of_lt (hdr θ hθ).2⟩) l hl
    intro h
    exact hnd (List.map_eq_nil_iff.mp h)

/-- **rotate_hs_kept_every_angle** — for every angle, on every grid with directions in `[0, 360)`: if the source has
    real `Hs` and the rotated spectrum has energy, the result is finite and its `hs` radicand equals the one of the
    original spectrum -/
theorem rotate_hs_kept_every_angle (thr q : ℚ) (f d : Vec) (e : Mat) (a : ℚ) (o : Out)
    (hdr : ∀ x ∈ d, 0 ≤ x ∧ x < 360) (hnd : d ≠ [])
    (h : rotate thr q f d e a = .ok o) (hin : 0 ≤ hsOf thr q f (some d) e)
    (hout : 0 < hsOf thr q f (some d) (coreOk f (some (relabel d a)) e none (some d)).vals) :
    ∃ vals : Mat, o.e = vals.map (·.map some) ∧ hsOf thr q f (some d) vals = hsOf thr q f (some d) e :=
  rotate_hs_kept thr q f d e a o (coreOk f (some (relabel d a)) e none (some d)) hdr h rfl
    (rotate_finite f d e a hdr hnd) hin hout

example := rotate_finite fE dE eE 37 (by decide +kernel) (by decide +kernel)
example := rotate_finite fE [10] [[1], [2]] 37 (by decide +kernel) (by decide +kernel)
example := rotate_hs_kept_every_angle (333 / 1000) (1 / 4) fE dE eE 37 oR (by decide +kernel) (by decide +kernel)
  (by decide +kernel) (by decide +kernel) (by decide +kernel)
example := dir_targets_on_circle_ok [350, 10, 370, 100] eE [0, 5, 359, 360] (by decide +kernel) (by decide +kernel)
example := dir_targets_on_circle_ok [10] eE [0, 10, 360] (by decide +kernel) (by decide +kernel)

/-! ## K. from the stages to the output of `regrid_spec` (no `maintain_m0`): the stage theorems (seam, anchor) are
       statements about the returned spectrum -/

theorem maskEntry_noNan (l : Loc) (h : l.isNan = false) (v : ℚ) : maskEntry l true v = some v := by
  cases l with
  | out => rfl
  | nan => cases h
  | seg a b => rfl

theorem finish_false_noNan (c : Core) (s : Option ℚ) (h1 : ∀ l ∈ c.rowSt, l.isNan = false)
    (h2 : ∀ b ∈ c.colOK, b = true) (h3 : c.rowSt.length = c.vals.length) (h4 : Rect c.vals c.colOK.length) :
    finish c false s = c.vals.map (·.map some) := by
  unfold finish
  simp only [Bool.false_eq_true, if_false]
  apply List.ext_getElem
  · simp [h3]
  · intro i hi1 hi2
    have hiv : i < c.vals.length := by simpa using hi2
    have hir : i < c.rowSt.length := by omega
    rw [List.getElem_zipWith, List.getElem_map]
    have hrow := h1 _ (List.getElem_mem hir)
    apply List.ext_getElem
    · simp [h4 _ (List.getElem_mem hiv)]
    · intro j hj1 hj2
      have hjv : j < (c.vals[i]).length := by simpa using hj2
      have hjc : j < c.colOK.length := by rw [← h4 _ (List.getElem_mem hiv)]; exact hjv
      rw [List.getElem_zipWith, List.getElem_map, h2 _ (List.getElem_mem hjc)]
      exact maskEntry_noNan _ hrow _

/-- **regrid_dir_only** — regridding directions only, every target inside the (extended) source range: the returned
    spectrum is exactly the direction-stage interpolant (to which `seam_both_sides`, `interp_node`, … apply) -/
theorem regrid_dir_only (thr q : ℚ) (f d : Vec) (e : Mat) (td : Vec) (hl : e.length = f.length)
    (hok : ∀ l ∈ (dirStage d e td).locs, l.isSeg = true) :
    regrid thr q f (some d) e none (some td) false =
      .ok { freq := f, dir := some td, e := (dirStage d e td).vals.map (·.map some) } := by
  have hcore : core f (some d) e none (some td) = .ok (coreOk f (some d) e none (some td)) := rfl
  unfold regrid
  rw [hcore]
  simp only
  rw [finish_false_noNan]
  · rfl
  · intro l hl'
    change l ∈ (f.map fun _ => Loc.seg 0 0) at hl'
    simp only [List.mem_map] at hl'
    obtain ⟨_, _, rfl⟩ := hl'
    rfl
  · intro b hb
    change b ∈ (dirStage d e td).locs.map Loc.isSeg at hb
    rw [List.mem_map] at hb
    obtain ⟨l, hl', rfl⟩ := hb
    exact hok l hl'
  · change (f.map fun _ => Loc.seg 0 0).length = (dirStage d e td).vals.length
    simp [dirStage, hl]
  · intro r hr
    change r ∈ (dirStage d e td).vals at hr
    change r.length = ((dirStage d e td).locs.map Loc.isSeg).length
    unfold dirStage at hr ⊢
    simp only [List.mem_map] at hr
    obtain ⟨r0, _, rfl⟩ := hr
    simp

theorem locGo_not_nan (x : ℚ) : ∀ (rest : Vec) (x0 : ℚ) (i : Nat), (x0 :: rest).Pairwise (· < ·) →
    (locGo x x0 i rest).isNan = false := by
  intro rest
  induction rest with
  | nil => intro _ _ _; rfl
  | cons x1 r ih =>
    intro x0 i hs
    have hs' := List.pairwise_cons.mp hs
    rw [locGo_cons]
    split
    · rw [if_neg (ne_of_gt (hs'.1 x1 (by simp)))]; rfl
    · exact ih x1 (i + 1) hs'.2

theorem locate_not_nan (xs : Vec) (x : ℚ) (hs : xs.Pairwise (· < ·)) (hn : 2 ≤ xs.length) :
    (locate xs x).isNan = false := by
  match xs, hn with
  | x0 :: x1 :: rest, _ =>
    rw [locate_cons2]
    split
    · rfl
    · exact locGo_not_nan x (x1 :: rest) x0 0 hs

theorem getD_length_of_rect (rows : Mat) (n : Nat) (h : Rect rows n) (j : Nat) (hj : j < rows.length) :
    (rows.getD j []).length = n := by
  rw [getD_of_lt _ _ hj]; exact h _ (List.getElem_mem hj)

/-- **regrid_freq_only** — regridding frequencies only (strictly increasing positive source frequencies, at least one):
    the returned spectrum is exactly the frequency-stage interpolant (to which `anchor_below_fmin`,
    `freqStage_above`, … apply) -/
theorem regrid_freq_only (thr q : ℚ) (f : Vec) (d : Option Vec) (e : Mat) (tf : Vec) (hs : f.Pairwise (· < ·))
    (hne : f ≠ []) (hpos : 0 < f.headD 0) (hl : e.length = f.length) (hrect : Rect e (e.headD []).length) :
    regrid thr q f d e (some tf) none false =
      .ok { freq := tf, dir := d, e := (freqStage f e tf).vals.map (·.map some) } := by
  have hcore : core f d e (some tf) none = .ok (coreOk f d e (some tf) none) := by cases d <;> rfl
  have hdp : dirPart d e none = (d, e, (e.headD []).map fun _ => true) := by cases d <;> rfl
  have hf0 : f.length ≠ 0 := fun h => hne (List.length_eq_zero_iff.mp h)
  -- the sorted node list of the frequency stage
  obtain ⟨fS, rS, hfS, hrS, hsorted, hlen2, hlenr, hrectS⟩ : ∃ (fS : Vec) (rS : Mat),
      (freqStage f e tf).locs = tf.map (locate fS) ∧
      (freqStage f e tf).vals = (tf.map (locate fS)).map (applyLocV (e.headD []).length rS) ∧
      fS.Pairwise (· < ·) ∧ 2 ≤ fS.length ∧ rS.length = fS.length ∧ Rect rS (e.headD []).length := by
    have hk : ((f.zip e).map (·.1)) = f := List.map_fst_zip (by omega)
    have hv : ((f.zip e).map (·.2)) = e := List.map_snd_zip (by omega)
    cases hlo : anchorLo f tf with
    | true =>
      have hkeys : ((((0 : ℚ), List.replicate (e.headD []).length (0 : ℚ)) :: f.zip e).map (·.1)) = 0 :: f := by
        rw [List.map_cons, hk]
      have hsorted : (0 :: f).Pairwise (· < ·) := by
        rw [List.pairwise_cons]
        refine ⟨fun y hy => ?_, hs⟩
        exact lt_of_lt_of_le hpos (pairwise_lt_bounds f hs y hy).1
      refine ⟨0 :: f, List.replicate (e.headD []).length 0 :: e, ?_, ?_, hsorted, by simp; omega, by simp [hl], ?_⟩
      · unfold freqStage
        simp only [hlo, if_true, List.singleton_append]
        rw [sortK_sorted _ (by rw [hkeys]; exact hsorted.imp le_of_lt), hkeys]
      · unfold freqStage
        simp only [hlo, if_true, List.singleton_append]
        rw [sortK_sorted _ (by rw [hkeys]; exact hsorted.imp le_of_lt), hkeys]
        simp only [List.map_cons, hv]
      · intro r hr
        rcases List.mem_cons.mp hr with rfl | hr
        · simp
        · exact hrect r hr
    | false =>
      have hn : 2 ≤ f.length := by
        unfold anchorLo at hlo
        rw [Bool.or_eq_false_iff] at hlo
        have : ¬ f.length = 1 := by simpa using hlo.2
        omega
      refine ⟨f, e, ?_, ?_, hs, hn, hl, hrect⟩
      · unfold freqStage
        simp only [hlo, Bool.false_eq_true, if_false, List.nil_append]
        rw [sortK_sorted _ (by rw [hk]; exact hs.imp le_of_lt), hk]
      · unfold freqStage
        simp only [hlo, Bool.false_eq_true, if_false, List.nil_append]
        rw [sortK_sorted _ (by rw [hk]; exact hs.imp le_of_lt), hk, hv]
  unfold regrid
  rw [hcore]
  simp only
  have hfreq : (coreOk f d e (some tf) none).freq = tf := rfl
  have hdir : (coreOk f d e (some tf) none).dir = d := by
    change (dirPart d e none).1 = d; rw [hdp]
  have hvals : (coreOk f d e (some tf) none).vals = (freqStage f e tf).vals := by
    change (freqStage f (dirPart d e none).2.1 tf).vals = _; rw [hdp]
  have hrow : (coreOk f d e (some tf) none).rowSt = (freqStage f e tf).locs := by
    change (freqStage f (dirPart d e none).2.1 tf).locs = _; rw [hdp]
  have hcol : (coreOk f d e (some tf) none).colOK = (e.headD []).map fun _ => true := by
    change (dirPart d e none).2.2 = _; rw [hdp]
  rw [finish_false_noNan, hfreq, hdir, hvals]
  · rw [hrow, hfS]
    intro l hl'
    simp only [List.mem_map] at hl'
    obtain ⟨x, _, rfl⟩ := hl'
    exact locate_not_nan fS x hsorted hlen2
  · rw [hcol]
    intro b hb
    simp only [List.mem_map] at hb
    obtain ⟨_, _, rfl⟩ := hb
    rfl
  · rw [hrow, hvals, hfS, hrS]; simp
  · rw [hvals, hcol, hrS]
    intro r hr
    simp only [List.mem_map] at hr
    obtain ⟨l, ⟨x, _, rfl⟩, rfl⟩ := hr
    rw [List.length_map]
    cases hloc : locate fS x with
    | out => simp [applyLocV]
    | nan => simp [applyLocV]
    | seg j t =>
      obtain ⟨hj, _⟩ := locate_seg fS x j t hloc
      simp only [applyLocV, List.length_zipWith]
      rw [getD_length_of_rect rS _ hrectS j (by omega), getD_length_of_rect rS _ hrectS (j + 1) (by omega)]
      simp

example := regrid_dir_only (333 / 1000) (1 / 4) fE dE eE tdE (by decide +kernel) (by decide +kernel)
example := regrid_freq_only (333 / 1000) (1 / 4) fE (some dE) eE tfE (by decide +kernel) (by decide +kernel)
  (by decide +kernel) (by decide +kernel) (by unfold Rect; decide +kernel)

/-! ## L. tie to the repository's literals (regenerated by the translator on every run) -/

/-- the numeric literals of `regrid_spec`, `SpecArray.rotate` and `SpecArray.dd`, in source order, are the ones the model
    uses: `% 360`, `dir.size == 1`, `isel(dir=-1)`, `− 360`, `dir.size == 1`, `isel(dir=0)`, `+ 360`,
    `len(to_concat) > 1`, `freq.size == 1`, `0 * …isel(freq=0)`,
    `fzero["freq"] = 0`, `fill_value = 0`, `hs ** 2 / hs ** 2`; `% 360` in `rotate`; `1.0`, `360 − dd` in `dd` -/
theorem lits_regrid : Gen.lits_utils_regrid_spec = [360, 1, 1, 360, 1, 0, 360, 1, 1, 0, 0, 0, 0, 2, 2] ∧
    Gen.lits_specarray_rotate = [360] ∧ Gen.lits_specarray_dd = [1, 1, 0, 360, 1] := by decide +kernel

/-! ## M. code as found (before repair 0802ffa) — about the explicitly named old model `dirStageAsFound` only -/

/-- in the code as found a single direction bin regridded onto itself got no wrap bin: the node search ran on one node
    and returned `0/0` (finding F27); the repaired model finds it at the end of the first of three nodes -/
theorem single_dir_nan_as_found :
    (dirStageAsFound [10] [[1]] [10]).locs = [Loc.nan] ∧ (dirStage [10] [[1]] [10]).locs = [Loc.seg 0 1] := by
  decide +kernel

end WS.C08

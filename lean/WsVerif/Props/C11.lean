import WsVerif.Model.IO.Swan
import WsVerif.Model.IO.Octopus
import WsVerif.Model.IO.Pack
import WsVerif.Model.IO.WW3
import WsVerif.Model.IO.Funwave
import WsVerif.Lemmas.Round
import WsVerif.Props.C10
import WsVerif.Gen.Lits
import WsVerif.Gen.Fmts
import Mathlib.Data.List.Basic
import Mathlib.Data.List.Sort
/-!
# C11 — writing a dataset and reading it back returns the same spectra

Property theorems on the file-format models (`Model/IO/*`), at the level of numbers and orderings
(formatting and parsing are runtime behaviour, DESIGN §1.5-3).  Every statement holds for every grid
size, every number of locations / time steps and every chunk size.
-/
namespace WS.C11
open WS WS.IO

/-! ## A. decimal rounding (re-exported from `Lemmas/Round`) -/

/-- `%5.0f`, `np.around`: rounding half to even moves a value by at most ½ -/
theorem round_half_even_err (x : ℚ) : |((rhe x : ℤ) : ℚ) - x| ≤ 1 / 2 := rhe_err x

/-- `'%.{d}f'` moves a value by at most half a unit of the last decimal -/
theorem fixed_point_err (d : Nat) (x : ℚ) : |quant d x - x| ≤ 1 / (2 * pow10 d) := quant_err d x

/-- the exponent search used for `'%0.8E'` returns the decimal exponent of every positive number -/
theorem decimal_exponent_found (x : ℚ) (hx : 0 < x) :
    pow10i (decExp x) ≤ x ∧ x < pow10i (decExp x + 1) := decExp_spec x hx

/-- `'%0.8E'` (nine significant digits): relative error at most `5·10⁻⁹` -/
theorem nine_digit_err (x : ℚ) (hx : 0 < x) : |sig9 x - x| ≤ x * (5 / 1000000000) := sig9_err x hx

/-! ## B. SWAN ASCII: numbers -/
section SwanNumbers
open Swan

/-- one bin of a `FACTOR` block: with `fac = max/9998`, any printed factor `facP` and `0 ≤ x ≤ max`,
    the count is in `0..9998` and the value read back is within `fac/2 + 9998·|facP − fac|` of `x` -/
theorem swan_bin (fac facP x : ℚ) (hfac : 0 < fac) (hx0 : 0 ≤ x) (hx : x ≤ maxCount * fac) :
    0 ≤ rhe (x / fac) ∧ rhe (x / fac) ≤ 9998 ∧
      |decBin fac facP x - x| ≤ fac / 2 + 9998 * |facP - fac| := by
  have hq0 : (0 : ℚ) ≤ x / fac := div_nonneg hx0 (le_of_lt hfac)
  have hq1 : x / fac ≤ ((9998 : ℤ) : ℚ) := by
    rw [div_le_iff₀ hfac]; unfold maxCount at hx; push_cast; linarith
  have h0 : (0 : ℤ) ≤ rhe (x / fac) := le_rhe _ 0 (by simpa using hq0)
  have h1 : rhe (x / fac) ≤ 9998 := rhe_le _ 9998 hq1
  refine ⟨h0, h1, ?_⟩
  unfold decBin
  have hr := rhe_err (x / fac)
  set q : ℚ := ((rhe (x / fac) : ℤ) : ℚ) with hq
  have hqn : 0 ≤ q := by rw [hq]; exact_mod_cast h0
  have hqm : q ≤ 9998 := by rw [hq]; exact_mod_cast h1
  have e : q * facP - x = q * (facP - fac) + (q - x / fac) * fac := by field_simp; ring
  rw [e]
  calc |q * (facP - fac) + (q - x / fac) * fac|
      ≤ |q * (facP - fac)| + |(q - x / fac) * fac| := abs_add_le _ _
    _ = q * |facP - fac| + |q - x / fac| * fac := by
        rw [abs_mul, abs_mul, abs_of_nonneg hqn, abs_of_pos hfac]
    _ ≤ 9998 * |facP - fac| + 1 / 2 * fac := by
        have := mul_le_mul_of_nonneg_right hqm (abs_nonneg (facP - fac))
        have := mul_le_mul_of_nonneg_right hr (le_of_lt hfac)
        linarith
    _ = fac / 2 + 9998 * |facP - fac| := by ring

/-- with the factor printed by `'%0.8E'` the bound is `fac·(½ + 5·10⁻⁵)`, i.e. just above `max/19996` -/
theorem swan_bin_sig9 (fac x : ℚ) (hfac : 0 < fac) (hx0 : 0 ≤ x) (hx : x ≤ maxCount * fac) :
    |decBin fac (sig9 fac) x - x| ≤ fac * (1 / 2 + 5 / 100000) := by
  have h := (swan_bin fac (sig9 fac) x hfac hx0 hx).2.2
  have h9 := sig9_err fac hfac
  nlinarith

/-- every value `0 ≤ v < 9999.5` is printed by `%5.0f` as a number below `10⁴`: at most four digits, so the
    5-wide fields of a row stay blank-separated -/
theorem swan_field_fits (v : ℚ) (h0 : 0 ≤ v) (h1 : v < 9999 + 1 / 2) : 0 ≤ rhe v ∧ rhe v < 10 ^ 4 := by
  have h := rhe_err v
  rw [abs_le] at h
  constructor
  · exact le_rhe v 0 (by simpa using h0)
  · have : ((rhe v : ℤ) : ℚ) < ((10000 : ℤ) : ℚ) := by push_cast; linarith [h.2]
    have : rhe v < 10000 := by exact_mod_cast this
    simpa using this

/-- header resolutions: positions `%0.6f` within `5·10⁻⁷`°, frequencies `%11.5f` within `5·10⁻⁶` Hz,
    directions `%11.4f` within `5·10⁻⁵`° -/
theorem swan_header_resolution (x : ℚ) :
    |quant 6 x - x| ≤ 5 / 10 ^ 7 ∧ |quant 5 x - x| ≤ 5 / 10 ^ 6 ∧ |quant 4 x - x| ≤ 5 / 10 ^ 5 := by
  have h6 := quant_err 6 x
  have h5 := quant_err 5 x
  have h4 := quant_err 4 x
  unfold pow10 at h6 h5 h4
  refine ⟨?_, ?_, ?_⟩
  · calc _ ≤ 1 / (2 * (10 : ℚ) ^ 6) := h6
      _ = 5 / 10 ^ 7 := by norm_num
  · calc _ ≤ 1 / (2 * (10 : ℚ) ^ 5) := h5
      _ = 5 / 10 ^ 6 := by norm_num
  · calc _ ≤ 1 / (2 * (10 : ℚ) ^ 4) := h4
      _ = 5 / 10 ^ 5 := by norm_num

theorem le_maxD (l : Vec) : ∀ d : ℚ, d ≤ maxD l d ∧ ∀ x ∈ l, x ≤ maxD l d := by
  induction l with
  | nil => intro d; exact ⟨le_rfl, by simp⟩
  | cons a t ih =>
    intro d
    have hstep : maxD (a :: t) d = maxD t (if d < a then a else d) := by simp [maxD]
    rw [hstep]
    have := ih (if d < a then a else d)
    by_cases hda : d < a
    · rw [if_pos hda] at this ⊢
      refine ⟨le_trans (le_of_lt hda) this.1, ?_⟩
      intro x hx
      rcases List.mem_cons.mp hx with rfl | hx
      · exact this.1
      · exact this.2 x hx
    · rw [if_neg hda] at this ⊢
      refine ⟨this.1, ?_⟩
      intro x hx
      rcases List.mem_cons.mp hx with rfl | hx
      · exact le_trans (not_lt.mp hda) this.1
      · exact this.2 x hx

/-- every bin of a NaN-free spectrum is at most `spec.max()` -/
theorem le_specMax (m : Mat) (r : Vec) (hr : r ∈ m) (x : ℚ) (hx : x ∈ r) : x ≤ specMax m := by
  unfold specMax
  exact (le_maxD m.flatten _).2 x (List.mem_flatten.mpr ⟨r, hr, hx⟩)

/-- **SWAN round trip of a spectrum with data** (no NaN, positive maximum, non-negative bins): the block is a
    `FACTOR` block, it is read back bin for bin as `round(x/fac)·fac'`, and every bin is within
    `fac/2 + 9998·|fac' − fac| ≤ fac·(½ + 5·10⁻⁵)` of what was written -/
theorem swan_roundtrip (nf nd : Nat) (e : OMat) (hfin : hasNaN e = false) (hpos : 0 < facOf e)
    (hnn : ∀ r ∈ vals e, ∀ x ∈ r, 0 ≤ x) :
    decode nf nd (encode e) =
        (vals e).map (fun r => r.map fun x => some (decBin (facOf e) (sig9 (facOf e)) x)) ∧
    ∀ r ∈ vals e, ∀ x ∈ r,
      |decBin (facOf e) (sig9 (facOf e)) x - x| ≤ facOf e / 2 + 9998 * |sig9 (facOf e) - facOf e| ∧
      |decBin (facOf e) (sig9 (facOf e)) x - x| ≤ facOf e * (1 / 2 + 5 / 100000) := by
  constructor
  · unfold encode
    simp only [hfin, Bool.false_eq_true, if_false, not_le.mpr hpos, decode, List.map_map]
    unfold decBin
    congr 1; funext r
    simp only [Function.comp, List.map_map]
    rfl
  · intro r hr x hx
    have hmax : x ≤ maxCount * facOf e := by
      have := le_specMax (vals e) r hr x hx
      unfold facOf maxCount
      linarith [this, (by ring : (9998 : ℚ) * (specMax (vals e) / 9998) = specMax (vals e))]
    exact ⟨(swan_bin _ _ x hpos (hnn r hr x hx) hmax).2.2, swan_bin_sig9 _ x hpos (hnn r hr x hx) hmax⟩

/-- an all-zero spectrum is written as `ZERO` and read back as zeros -/
theorem swan_zero (nf nd : Nat) :
    decode nf nd (encode (List.replicate nf (List.replicate nd (some 0)))) =
      List.replicate nf (List.replicate nd (some 0)) := by
  have hn : hasNaN (List.replicate nf (List.replicate nd (some (0 : ℚ)))) = false := by
    unfold hasNaN
    rw [List.any_eq_false]
    intro r hr
    rw [List.eq_of_mem_replicate hr]
    simp
  have hmax : facOf (List.replicate nf (List.replicate nd (some (0 : ℚ)))) ≤ 0 := by
    unfold facOf specMax
    have hall : ∀ x ∈ (vals (List.replicate nf (List.replicate nd (some (0 : ℚ))))).flatten, x = 0 := by
      intro x hx
      obtain ⟨r, hr, hxr⟩ := List.mem_flatten.mp hx
      unfold vals at hr
      obtain ⟨r0, hr0, rfl⟩ := List.mem_map.mp hr
      rw [List.eq_of_mem_replicate hr0] at hxr
      obtain ⟨o, ho, rfl⟩ := List.mem_map.mp hxr
      rw [List.eq_of_mem_replicate ho]; rfl
    have key : ∀ (l : Vec) (d : ℚ), (∀ x ∈ l, x = 0) → d = 0 → maxD l d = 0 := by
      intro l
      induction l with
      | nil => intro d _ hd; simpa [maxD] using hd
      | cons a t ih =>
        intro d hl hd
        unfold maxD; simp only [List.foldl_cons]
        have ha : a = 0 := hl a (by simp)
        have := ih (if d < a then a else d) (fun x hx => hl x (List.mem_cons_of_mem _ hx)) (by rw [ha, hd]; simp)
        unfold maxD at this; exact this
    have h0 : (vals (List.replicate nf (List.replicate nd (some (0 : ℚ))))).flatten.headD 0 = 0 := by
      cases h : (vals (List.replicate nf (List.replicate nd (some (0 : ℚ))))).flatten with
      | nil => rfl
      | cons a t => simp only [List.headD_cons]; exact hall a (by rw [h]; simp)
    rw [key _ _ hall h0]; unfold maxCount; norm_num
  unfold encode
  simp only [hn, Bool.false_eq_true, if_false, hmax, if_true, decode]

/-- a spectrum with a missing value anywhere is written as `NODATA` and read back all-missing:
    all-missing spectra survive, partially missing ones lose their data (one flag per spectrum) -/
theorem swan_nodata (nf nd : Nat) (e : OMat) (h : hasNaN e = true) :
    decode nf nd (encode e) = List.replicate nf (List.replicate nd none) := by
  unfold encode; simp [h, decode]

end SwanNumbers

/-! ## C. SWAN ASCII: locations (reader after fix 1f147c9: blocks placed by their header position) -/
section SwanLayout
open Swan

theorem mem_insU (x z : ℚ) (l : Vec) : z ∈ insU x l ↔ z = x ∨ z ∈ l := by
  induction l with
  | nil => simp [insU]
  | cons y ys ih =>
    unfold insU
    split
    · simp
    · split
      · rename_i h; subst h; simp
      · simp only [List.mem_cons, ih]; tauto

theorem mem_sortedUniq (l : Vec) (z : ℚ) : z ∈ sortedUniq l ↔ z ∈ l := by
  induction l with
  | nil => simp [sortedUniq]
  | cons a t ih =>
    have : sortedUniq (a :: t) = insU a (sortedUniq t) := rfl
    rw [this, mem_insU, ih]; simp

theorem getR_idxOf (l : Vec) (x : ℚ) (h : x ∈ l) : getR l (l.idxOf x) = x := by
  induction l with
  | nil => simp at h
  | cons a t ih =>
    rw [List.idxOf_cons]
    by_cases hax : a = x
    · subst hax; simp [getR]
    · have hx : x ∈ t := by
        rcases List.mem_cons.mp h with h | h
        · exact absurd h.symm hax
        · exact h
      have hb : (a == x) = false := by simpa using hax
      rw [hb]
      have := ih hx
      simpa [getR] using this

/-- the cell a block is placed in carries the block's own header position -/
theorem swan_fixed_label (xs ys : Vec) (k : Nat) (hx : k < xs.length) (hy : k < ys.length) :
    fixedLabel xs ys k = (getR xs k, getR ys k) := by
  unfold fixedLabel fixedCell
  simp only
  rw [getR_idxOf _ _ ((mem_sortedUniq xs _).mpr (getR_mem xs k hx)),
    getR_idxOf _ _ ((mem_sortedUniq ys _).mpr (getR_mem ys k hy))]

/-- **every block is read back under the (lon, lat) it was written with** — stations, station lists that
    happen to fill a lattice (in any order), grids of any shape, `as_site` on or off -/
theorem swan_positions_kept (asSite : Bool) (xs ys : Vec) (k : Nat) (hx : k < xs.length) (hy : k < ys.length) :
    readLabel asSite xs ys k = (getR xs k, getR ys k) := by
  unfold readLabel
  split
  · exact swan_fixed_label xs ys k hx hy
  · rfl

/-- two blocks share a grid cell only if they were written with the same position (no overwriting) -/
theorem swan_fixed_cell_inj (xs ys : Vec) (k k' : Nat) (hx : k < xs.length) (hy : k < ys.length)
    (hx' : k' < xs.length) (hy' : k' < ys.length) (h : fixedCell xs ys k = fixedCell xs ys k') :
    (getR xs k, getR ys k) = (getR xs k', getR ys k') := by
  rw [← swan_fixed_label xs ys k hx hy, ← swan_fixed_label xs ys k' hx' hy']
  unfold fixedLabel
  rw [h]

theorem getR_map_fst (h : List (ℚ × ℚ)) (k : Nat) (hk : k < h.length) :
    getR (h.map (·.1)) k = (h.getD k (0, 0)).1 ∧ getR (h.map (·.2)) k = (h.getD k (0, 0)).2 := by
  unfold getR
  simp [List.getD_eq_getElem?_getD, List.getElem?_eq_getElem hk]

/-- **gridded datasets** as `to_swan` writes them (`stack(site=(lat, lon))`, latitude-major, any coordinate order):
    every block comes back at its own grid position -/
theorem swan_grid_kept (lats lons : Vec) (k : Nat) (hk : k < (gridHeader lats lons).length) :
    readLabel false ((gridHeader lats lons).map (·.1)) ((gridHeader lats lons).map (·.2)) k =
      (gridHeader lats lons).getD k (0, 0) := by
  rw [swan_positions_kept false _ _ k (by simpa using hk) (by simpa using hk)]
  obtain ⟨a, b⟩ := getR_map_fst (gridHeader lats lons) k hk
  rw [a, b]

end SwanLayout

/-! ## C′. SWAN locations, **code as found** (before 1f147c9): refuted statements kept for the record -/
section SwanLayoutAsFound
open Swan

/-- full statement for the old reader -/
def OldSwanPositionsKept : Prop :=
  ∀ (asSite : Bool) (xs ys : Vec) (k : Nat), xs.length = ys.length → k < xs.length →
    readLabelOld asSite xs ys k = (getR xs k, getR ys k)

/-- refuted: two stations on one meridian listed north to south came back swapped -/
theorem old_swan_positions_fails : ¬ OldSwanPositionsKept := by
  intro h
  have := h false [100, 100] [5, 3] 0 rfl (by norm_num)
  revert this
  decide +kernel

/-- full statement for gridded datasets with the old reader -/
def OldSwanGridKept : Prop :=
  ∀ (lats lons : Vec) (k : Nat), lats.Pairwise (· < ·) → lons.Pairwise (· < ·) →
    k < lats.length * lons.length →
    readLabelOld false ((gridHeader lats lons).map (·.1)) ((gridHeader lats lons).map (·.2)) k =
      (gridHeader lats lons).getD k (0, 0)

/-- refuted by a 2×3 grid: the block written at `(lat 0, lon 20)` was read back at `(lat 1, lon 10)` -/
theorem old_swan_grid_fails : ¬ OldSwanGridKept := by
  intro h
  have := h [0, 1] [10, 20, 30] 1 (by decide +kernel) (by decide +kernel) (by norm_num)
  revert this
  decide +kernel

/-- what was true of the old reader: station read-back kept positions … -/
theorem old_swan_positions_partial (asSite : Bool) (xs ys : Vec) (k : Nat)
    (h : isGrid xs ys = false ∨ asSite = true) :
    readLabelOld asSite xs ys k = (getR xs k, getR ys k) := by
  unfold readLabelOld
  rcases h with h | h <;> simp [h]

/-- … and a grid header was read correctly exactly when the blocks were longitude-major ascending -/
theorem old_swan_grid_partial (xs ys : Vec) (k : Nat) (hg : isGrid xs ys = true) :
    readLabelOld false xs ys k = (getR xs k, getR ys k) ↔
      (getR xs k = getR (sortedUniq xs) (k / (sortedUniq ys).length) ∧
       getR ys k = getR (sortedUniq ys) (k % (sortedUniq ys).length)) := by
  unfold readLabelOld
  simp only [hg, Bool.not_false, Bool.and_self, if_true, Prod.mk.injEq]
  constructor
  · rintro ⟨a, b⟩; exact ⟨a.symm, b.symm⟩
  · rintro ⟨a, b⟩; exact ⟨a.symm, b.symm⟩

end SwanLayoutAsFound

/-! ## D. SWAN ASCII: direction order (`dirorder=True`) -/
section SwanDirs
open Swan

theorem insBy_eq {α : Type} (le : α → α → Bool) (x : α) (l : List α) :
    insBy le x l = List.orderedInsert (fun a b => le a b = true) x l := by
  induction l with
  | nil => rfl
  | cons y ys ih => simp only [insBy, List.orderedInsert, ih]

theorem sortBy_eq {α : Type} (le : α → α → Bool) (l : List α) :
    sortBy le l = List.insertionSort (fun a b => le a b = true) l := by
  induction l with
  | nil => rfl
  | cons y ys ih =>
    have : sortBy le (y :: ys) = insBy le y (sortBy le ys) := rfl
    rw [this, ih, insBy_eq]; rfl

/-- labels and data columns move together: the output is a rearrangement of the (label mod 360, column) pairs -/
theorem swan_dirorder_perm {α : Type} (cols : List (ℚ × α)) :
    (dirOrder cols).Perm (cols.map fun p => (pmod p.1 360, p.2)) := by
  unfold dirOrder
  rw [sortBy_eq]
  exact List.perm_insertionSort _ _

/-- the labels come out sorted -/
theorem swan_dirorder_sorted {α : Type} (cols : List (ℚ × α)) :
    (dirOrder cols).Pairwise fun a b => a.1 ≤ b.1 := by
  unfold dirOrder
  rw [sortBy_eq]
  have : Std.Total (fun (a b : ℚ × α) => decide (a.1 ≤ b.1) = true) :=
    ⟨fun a b => by simp only [decide_eq_true_eq]; exact le_total _ _⟩
  have : IsTrans (ℚ × α) (fun a b => decide (a.1 ≤ b.1) = true) :=
    ⟨fun a b c h1 h2 => by simp only [decide_eq_true_eq] at *; exact le_trans h1 h2⟩
  have := List.pairwise_insertionSort (fun (a b : ℚ × α) => decide (a.1 ≤ b.1) = true)
    (cols.map fun p => (pmod p.1 360, p.2))
  exact this.imp (fun h => by simpa using h)

/-- … and lie in `[0, 360)` -/
theorem swan_dirorder_range {α : Type} (cols : List (ℚ × α)) :
    ∀ p ∈ dirOrder cols, 0 ≤ p.1 ∧ p.1 < 360 := by
  intro p hp
  have := (swan_dirorder_perm cols).mem_iff.mp hp
  obtain ⟨q, _, rfl⟩ := List.mem_map.mp this
  exact C10.pmod_range q.1 360 (by norm_num)

end SwanDirs

/-! ## E. chunked writing (`ntime`) -/
section Chunks

theorem swanLoop_spec (T n : Nat) (hn : 1 ≤ n) :
    ∀ (fuel i0 : Nat), i0 ≤ T → T - i0 < fuel →
      Swan.swanLoop T n fuel i0 (i0 + n) = List.range' i0 (T - i0) := by
  intro fuel
  induction fuel with
  | zero => intro i0 _ h; omega
  | succ f ih =>
    intro i0 h0 hf
    unfold Swan.swanLoop
    by_cases hlt : i0 < T
    · have hc : i0 + n ≤ T ∨ i0 < T := Or.inr hlt
      rw [if_pos hc]
      by_cases hle : i0 + n ≤ T
      · rw [ih (i0 + n) hle (by omega)]
        unfold Swan.slice
        have : min (i0 + n) T - i0 = n := by omega
        rw [this]
        have := @List.range'_append i0 n (T - (i0 + n)) 1
        simp only [Nat.one_mul] at this
        rw [this]
        congr 1; omega
      · -- the tail chunk: shorter than `ntime`, then the loop stops
        unfold Swan.slice
        have : min (i0 + n) T - i0 = T - i0 := by omega
        rw [this]
        have hstop : Swan.swanLoop T n f (i0 + n) (i0 + n + n) = [] := by
          cases f with
          | zero => rfl
          | succ g =>
            unfold Swan.swanLoop
            rw [if_neg (by omega)]
        rw [hstop, List.append_nil]
    · have : i0 = T := by omega
      subst this
      rw [if_neg (by omega)]
      simp

/-- **`to_swan(ntime=n)` writes every time step exactly once, in order**, for every number of time steps
    `T ≥ 1` and every `ntime` (`0` = `None`) -/
theorem swan_chunked_eq (T ntime : Nat) (hT : 1 ≤ T) : Swan.swanWritten T ntime = List.range T := by
  unfold Swan.swanWritten
  have hn : 1 ≤ Swan.effNtime T ntime := by
    unfold Swan.effNtime; split <;> omega
  have := swanLoop_spec T (Swan.effNtime T ntime) hn (T + 1) 0 (Nat.zero_le _) (by omega)
  simp only [Nat.zero_add, Nat.sub_zero] at this
  rw [this, List.range_eq_range']

theorem octLoop_spec (T n : Nat) (hn : 1 ≤ n) :
    ∀ (fuel i0 : Nat), i0 ≤ T → T - i0 < fuel →
      (Octopus.octLoop T n fuel i0 (i0 + n)).flatten = List.range' i0 (T - i0) := by
  intro fuel
  induction fuel with
  | zero => intro i0 _ h; omega
  | succ f ih =>
    intro i0 h0 hf
    unfold Octopus.octLoop
    by_cases hlt : i0 < T
    · rw [if_pos hlt, List.flatten_cons]
      by_cases hle : i0 + n ≤ T
      · rw [ih (i0 + n) hle (by omega)]
        have : min (i0 + n) T - i0 = n := by omega
        rw [this]
        have := @List.range'_append i0 n (T - (i0 + n)) 1
        simp only [Nat.one_mul] at this
        rw [this]
        congr 1; omega
      · have : min (i0 + n) T - i0 = T - i0 := by omega
        rw [this]
        have hstop : Octopus.octLoop T n f (i0 + n) (i0 + n + n) = [] := by
          cases f with
          | zero => rfl
          | succ g =>
            unfold Octopus.octLoop
            rw [if_neg (by omega)]
        rw [hstop]; simp
    · have : i0 = T := by omega
      subst this
      rw [if_neg (by omega)]
      simp

/-- **`to_octopus(ntime=n)` (after fix d2d41be) writes every time step exactly once, in order**, for every number
    of time steps `T ≥ 1` and every `ntime` (`0` = `None`) -/
theorem octopus_chunked_eq (T ntime : Nat) (hT : 1 ≤ T) : Octopus.written T ntime = List.range T := by
  unfold Octopus.written Octopus.blocks
  have hn : 1 ≤ Octopus.effNtime T ntime := by
    unfold Octopus.effNtime; split <;> omega
  have := octLoop_spec T (Octopus.effNtime T ntime) hn (T + 1) 0 (Nat.zero_le _) (by omega)
  simp only [Nat.zero_add, Nat.sub_zero] at this
  rw [this, List.range_eq_range']

/-- what `read_octopus` returns: the first header block, i.e. the first `ntime` time steps -/
theorem octopus_read_first (T ntime : Nat) (hT : 1 ≤ T) :
    Octopus.readBack T ntime = List.range (Octopus.effNtime T ntime) := by
  unfold Octopus.readBack Octopus.blocks
  have hn : 1 ≤ Octopus.effNtime T ntime := by
    unfold Octopus.effNtime; split <;> omega
  have hle : Octopus.effNtime T ntime ≤ T := by
    unfold Octopus.effNtime; exact Nat.min_le_right _ _
  unfold Octopus.octLoop
  rw [if_pos (by omega)]
  simp [List.range_eq_range', hle]

/-- **full statement**: the read-back has every time step -/
def OctopusAllRead : Prop := ∀ T ntime : Nat, 1 ≤ T → Octopus.readBack T ntime = List.range T

/-- refuted on this tree (known finding F29): 4 time steps with `ntime=2` are all written (two header blocks)
    but only the first block is read -/
theorem octopus_read_fails : ¬ OctopusAllRead := by
  intro h
  have := h 4 2 (by norm_num)
  revert this
  decide +kernel

/-- what is true of the code: unchunked writing (`ntime=None` or `ntime ≥ T`) round-trips every time step -/
theorem octopus_read_partial (T ntime : Nat) (hT : 1 ≤ T) (h : ntime = 0 ∨ T ≤ ntime) :
    Octopus.readBack T ntime = List.range T := by
  have he : Octopus.effNtime T ntime = T := by
    unfold Octopus.effNtime
    rcases h with h | h
    · simp [h]
    · split <;> omega
  rw [octopus_read_first T ntime hT, he]

end Chunks

/-! ## F. Octopus: numbers -/
section OctopusNumbers
open Octopus

/-- **Octopus round trip of one bin**: stored as `E·w` (`w = Δf·Δθ`) with 7 decimals and divided by the reader's
    own `w' = Δf'·Δθ'`: within `0.5·10⁻⁷/w'` plus the relative error of the bin widths -/
theorem octopus_roundtrip (w w' x : ℚ) (hw' : 0 < w') :
    |rtBin w w' x - x| ≤ 1 / (2 * pow10 7) / w' + |x| * |w / w' - 1| := by
  unfold rtBin q7
  have hq := quant_err 7 (x * w)
  have e : quant 7 (x * w) / w' - x = (quant 7 (x * w) - x * w) / w' + x * (w / w' - 1) := by
    field_simp; ring
  rw [e]
  calc _ ≤ |(quant 7 (x * w) - x * w) / w'| + |x * (w / w' - 1)| := abs_add_le _ _
    _ = |quant 7 (x * w) - x * w| / w' + |x| * |w / w' - 1| := by rw [abs_div, abs_of_pos hw', abs_mul]
    _ ≤ _ := by
        have := div_le_div_of_nonneg_right hq (le_of_lt hw')
        linarith

/-- when the reader's bin widths are the writer's the error is the energy quantum alone -/
theorem octopus_roundtrip_same_widths (w x : ℚ) (hw : 0 < w) :
    |rtBin w w x - x| ≤ 1 / (2 * pow10 7) / w := by
  have := octopus_roundtrip w w x hw
  rw [div_self (ne_of_gt hw), sub_self, abs_zero, mul_zero, add_zero] at this
  exact this

/-- zero energy comes back as zero -/
theorem octopus_zero (w w' : ℚ) : rtBin w w' 0 = 0 := by
  unfold rtBin q7; rw [zero_mul, quant_zero, zero_div]

/-- **full statement**: a missing energy comes back missing -/
def OctopusMissingKept : Prop := ∀ w' : ℚ, 0 < w' → rtMissing w' = none

/-- refuted on this tree: `missing_val` is written but never decoded -/
theorem octopus_missing_fails : ¬ OctopusMissingKept := by
  intro h
  have := h 1 one_pos
  simp [rtMissing] at this

/-- what comes back instead: `-99999/(Δf'·Δθ')` -/
theorem octopus_missing_value (w' : ℚ) : rtMissing w' = some (-99999 / w') := by
  unfold rtMissing q7 quant missing
  have : (-99999 : ℚ) * pow10 7 = ((-999990000000 : ℤ) : ℚ) := by unfold pow10; norm_num
  rw [this, rhe_int]
  unfold pow10; norm_num

end OctopusNumbers

/-! ## G. netCDF packing -/
section Packing
open Pack

theorem pack_scale_pos : 0 < scale := by unfold scale; norm_num

/-- **packed netCDF round trip**: every `0 ≤ x ≤ (2³¹−1)·scale` fits int32, does not collide with the fill
    value and comes back within half a quantum (`≤ 0.5·10⁻⁵`) -/
theorem pack_roundtrip (x : ℚ) (h0 : 0 ≤ x) (h1 : x ≤ (imax : ℚ) * scale) :
    inRange (enc (some x)) = true ∧ enc (some x) ≠ fill ∧
      ∃ y, dec (enc (some x)) = some y ∧ |y - x| ≤ scale / 2 := by
  have hs := pack_scale_pos
  have hq0 : (0 : ℚ) ≤ x / scale := div_nonneg h0 (le_of_lt hs)
  have hq1 : x / scale ≤ ((imax : ℤ) : ℚ) := by rw [div_le_iff₀ hs]; exact h1
  have a0 : (0 : ℤ) ≤ rhe (x / scale) := le_rhe _ 0 (by simpa using hq0)
  have a1 : rhe (x / scale) ≤ imax := rhe_le _ imax hq1
  have hne : rhe (x / scale) ≠ fill := by unfold fill; omega
  refine ⟨?_, hne, ?_⟩
  · unfold inRange enc
    simp only [Bool.and_eq_true, decide_eq_true_eq]
    exact ⟨by unfold imin; omega, a1⟩
  · unfold dec enc
    simp only [hne, if_false]
    refine ⟨_, rfl, ?_⟩
    have hr := rhe_err (x / scale)
    have e : ((rhe (x / scale) : ℤ) : ℚ) * scale - x = (((rhe (x / scale) : ℤ) : ℚ) - x / scale) * scale := by
      field_simp
    rw [e, abs_mul, abs_of_pos hs]
    calc _ ≤ 1 / 2 * scale := mul_le_mul_of_nonneg_right hr (le_of_lt hs)
      _ = scale / 2 := by ring

/-- signed values: anything in the int32 range comes back within half a quantum unless its count is the fill value
    `-32768` (i.e. `x ≈ -0.32768`, which the format reads as missing — negative energies are out of scope) -/
theorem pack_roundtrip_signed (x : ℚ) (h0 : (imin : ℚ) * scale ≤ x) (h1 : x ≤ (imax : ℚ) * scale)
    (hf : enc (some x) ≠ fill) :
    inRange (enc (some x)) = true ∧ ∃ y, dec (enc (some x)) = some y ∧ |y - x| ≤ scale / 2 := by
  have hs := pack_scale_pos
  have hq0 : ((imin : ℤ) : ℚ) ≤ x / scale := by rw [le_div_iff₀ hs]; exact h0
  have hq1 : x / scale ≤ ((imax : ℤ) : ℚ) := by rw [div_le_iff₀ hs]; exact h1
  have a0 : imin ≤ rhe (x / scale) := le_rhe _ imin hq0
  have a1 : rhe (x / scale) ≤ imax := rhe_le _ imax hq1
  have hne : rhe (x / scale) ≠ fill := hf
  refine ⟨?_, ?_⟩
  · unfold inRange enc
    simp only [Bool.and_eq_true, decide_eq_true_eq]
    exact ⟨a0, a1⟩
  · unfold dec enc
    simp only [hne, if_false]
    refine ⟨_, rfl, ?_⟩
    have hr := rhe_err (x / scale)
    have e : ((rhe (x / scale) : ℤ) : ℚ) * scale - x = (((rhe (x / scale) : ℤ) : ℚ) - x / scale) * scale := by
      field_simp
    rw [e, abs_mul, abs_of_pos hs]
    calc _ ≤ 1 / 2 * scale := mul_le_mul_of_nonneg_right hr (le_of_lt hs)
      _ = scale / 2 := by ring

/-- the quantum is the double `1e-5`, below `1.0000000000000001·10⁻⁵` -/
theorem pack_quantum : scale / 2 ≤ 1 / 200000 + 1 / 10 ^ 21 := by unfold scale; norm_num

/-- missing values: NaN ↦ fill ↦ NaN -/
theorem pack_nan : dec (enc none) = none := by simp [enc, dec]

/-- zero comes back as zero -/
theorem pack_zero : dec (enc (some 0)) = some 0 := by
  have : enc (some 0) = 0 := by
    show rhe ((0 : ℚ) / scale) = 0
    rw [zero_div]; exact_mod_cast rhe_int 0
  rw [this]; simp [dec, fill]

end Packing

/-! ## H. WW3 netCDF -/
section WW3
open WW3

/-- **energy density**: `× 180/π` on write and `× π/180` on read is exact for every value of π ≠ 0 -/
theorem ww3_roundtrip (pi x : ℚ) (hpi : pi ≠ 0) : dec pi (enc pi x) = x := by
  unfold dec enc; field_simp

theorem pmod_add_mul_int (y m : ℚ) (n : ℤ) (hm : 0 < m) : pmod (y + m * n) m = pmod y m := by
  unfold pmod
  have hm' : m ≠ 0 := ne_of_gt hm
  have e : (y + m * n) / m = y / m + (n : ℚ) := by field_simp
  have : ((y + m * n) / m).floor = (y / m).floor + n := by
    rw [e]; exact Int.floor_add_intCast (y / m) n
  rw [this]; push_cast; ring

theorem pmod_eq_self (d m : ℚ) (h0 : 0 ≤ d) (h1 : d < m) : pmod d m = d := by
  unfold pmod
  have hm : 0 < m := lt_of_le_of_lt h0 h1
  have hfl : ⌊d / m⌋ = 0 :=
    Int.floor_eq_zero_iff.mpr ⟨div_nonneg h0 (le_of_lt hm), (div_lt_one hm).mpr h1⟩
  have : (d / m).floor = 0 := hfl
  rw [this]; simp

/-- **directions**: flipping to going-to and back is the identity modulo 360 … -/
theorem ww3_dir_twice (d : ℚ) : flipDir (flipDir d) = pmod d 360 := by
  unfold flipDir
  rw [C10.pmod_add_pmod _ _ _ (by norm_num)]
  have : d + 180 + 180 = d + 360 * ((1 : ℤ) : ℚ) := by push_cast; ring
  rw [this, pmod_add_mul_int _ _ _ (by norm_num)]

/-- … hence an involution on `[0, 360)` (a label `360` comes back as `0`) -/
theorem ww3_dir_involution (d : ℚ) (h0 : 0 ≤ d) (h1 : d < 360) : flipDir (flipDir d) = d := by
  rw [ww3_dir_twice, pmod_eq_self d 360 h0 h1]

/-- lon/lat expanded over `T ≥ 1` time steps and reduced with `isel(time=0)` are unchanged -/
theorem ww3_lonlat {α : Type} (T : Nat) (hT : 1 ≤ T) (x d : α) :
    reduceTime (expandOverTime T x) d = x := by
  unfold reduceTime expandOverTime
  cases T with
  | zero => omega
  | succ n => simp [List.replicate_succ]

end WW3

/-! ## I. Funwave -/
section FunwaveSec
open Funwave

/-- **energy is recovered exactly** (before the 8-decimal print) when the reader's `Δf·Δθ` is the grid's:
    `a = √(8·E·w)/2` enters through its defining equation -/
theorem funwave_energy (w x a : ℚ) (hw : w ≠ 0) (ha : a ^ 2 = amp2 w x) : a ^ 2 / (w * 2) = x := by
  rw [ha]; unfold amp2; field_simp; ring

/-- **Funwave round trip of one bin** with the printed amplitude: error from the `10⁻⁸` amplitude quantum plus the
    relative error of the reader's bin widths -/
theorem funwave_roundtrip (w w' x a : ℚ) (hw' : 0 < w') (ha0 : 0 ≤ a) (ha : a ^ 2 = amp2 w x) :
    |decBin w' a - x| ≤
      (1 / (2 * pow10 8)) * (2 * a + 1 / (2 * pow10 8)) / (2 * w') + |x| * |w / w' - 1| := by
  unfold decBin q8
  have hq := quant_err 8 a
  set q := quant 8 a with hqd
  set δ : ℚ := 1 / (2 * pow10 8) with hδ
  have hδ0 : 0 ≤ δ := by rw [hδ]; have := pow10_pos 8; positivity
  have hx : x = a ^ 2 / (2 * w) ∨ w = 0 := by
    by_cases hw : w = 0
    · exact Or.inr hw
    · left; rw [ha]; unfold amp2; field_simp; ring
  have e : q ^ 2 / (w' * 2) - x = (q - a) * (q + a) / (2 * w') + x * (w / w' - 1) := by
    have h2 : a ^ 2 = x * w * 2 := by rw [ha]; unfold amp2; ring
    field_simp
    nlinarith [h2]
  rw [e]
  have hqa : |q + a| ≤ 2 * a + δ := by
    rw [abs_le] at hq ⊢
    constructor <;> linarith [hq.1, hq.2]
  calc _ ≤ |(q - a) * (q + a) / (2 * w')| + |x * (w / w' - 1)| := abs_add_le _ _
    _ = |q - a| * |q + a| / (2 * w') + |x| * |w / w' - 1| := by
        rw [abs_div, abs_mul (q - a) (q + a), abs_of_pos (by linarith : (0 : ℚ) < 2 * w'), abs_mul x]
    _ ≤ δ * (2 * a + δ) / (2 * w') + |x| * |w / w' - 1| := by
        have h1 : |q - a| * |q + a| ≤ δ * (2 * a + δ) :=
          mul_le_mul hq hqa (abs_nonneg _) hδ0
        have := div_le_div_of_nonneg_right h1 (by linarith : (0 : ℚ) ≤ 2 * w')
        linarith

theorem pmod_idem (x m : ℚ) (hm : 0 < m) : pmod (pmod x m) m = pmod x m := by
  have := C10.pmod_add_pmod x 0 m hm
  simpa using this

theorem pmod_sub_pmod (a x m : ℚ) (hm : 0 < m) : pmod (a - pmod x m) m = pmod (a - x) m := by
  have e : a - pmod x m = (a - x) + m * (((x / m).floor : ℤ) : ℚ) := by unfold pmod; ring
  rw [e, pmod_add_mul_int _ _ _ hm]

/-- Cartesian going-to directions lie in `(-180, 180]` -/
theorem funwave_cart_range (d : ℚ) : -180 < cart d ∧ cart d ≤ 180 := by
  unfold cart
  have := C10.pmod_range (270 - d) 360 (by norm_num)
  simp only
  split <;> constructor <;> linarith [this.1, this.2]

/-- **directions**: nautical ↦ Cartesian ↦ nautical is the identity modulo 360, with results in `(0, 360]`
    (`0` is reported as `360`) -/
theorem funwave_dir (d : ℚ) :
    pmod (naut (cart d)) 360 = pmod d 360 ∧ 0 < naut (cart d) ∧ naut (cart d) ≤ 360 := by
  have h360 : (0 : ℚ) < 360 := by norm_num
  have key : pmod (270 - cart d) 360 = pmod d 360 := by
    unfold cart
    simp only
    split
    · have : 270 - (pmod (270 - d) 360 - 360) = (270 - pmod (270 - d) 360) + 360 * ((1 : ℤ) : ℚ) := by
        push_cast; ring
      rw [this, pmod_add_mul_int _ _ _ h360, pmod_sub_pmod _ _ _ h360]
      congr 1; ring
    · rw [pmod_sub_pmod _ _ _ h360]; congr 1; ring
  have hr := C10.pmod_range (270 - cart d) 360 h360
  unfold naut
  simp only
  split
  · rename_i h0
    refine ⟨?_, by norm_num, le_rfl⟩
    rw [← key, h0]
    have h1 := pmod_add_mul_int 0 360 1 h360
    simp only [Int.cast_one, mul_one, zero_add] at h1
    rw [h1]
    exact pmod_eq_self 0 360 le_rfl h360
  · rename_i h0
    refine ⟨?_, lt_of_le_of_ne hr.1 (Ne.symm h0), le_of_lt hr.2⟩
    rw [pmod_idem _ _ h360, key]

end FunwaveSec

/-! ## J. tie to the repository source (T-tier): literals and format strings regenerated on every run -/
section Bridging

/-- `write_spectra`: `fac = max/9998.0`, the `fac <= 0` test, `'%0.8E'` (nine significant digits = `sig9`)
    and `'%5.0f'` (integer counts = `rhe`, 5-wide fields = `swan_field_fits`) -/
theorem lits_swan_write : Gen.lits_swan_write_spectra = [Swan.maxCount, 0] ∧
    Gen.fmts_swan_write_spectra = ["0.8E", "%5.0f"] := by decide +kernel

/-- header resolutions: positions `%0.6f`, frequencies `%11.5f`, directions `%11.4f`; times to the second -/
theorem fmts_swan_header : Gen.fmts_swan_write_header.filter (fun f => f.endsWith "f}\n") =
    ["{:2}{:<0.6f}{:2}{:<0.6f}\n", "{:>11.5f}\n", "{:>11.4f}\n"] ∧
    Gen.fmts_output_swan = ["%Y%m%d.%H%M%S"] := by decide +kernel

/-- `to_netcdf(packed=True)`: `scale_factor = 1e-5`, `_FillValue = -32768` -/
theorem lits_netcdf_packing : Gen.lits_output_netcdf = [Pack.scale, -(Pack.fill : ℚ)] := by decide +kernel

/-- WW3: `(dir + 180) % 360` on write and on read -/
theorem lits_ww3 : Gen.lits_output_ww3.take 6 = [0, 2, 2, 0, 180, 360] ∧ Gen.lits_input_ww3 = [0, 0, 180, 360] := by
  decide +kernel

/-- Funwave: `(270 - dir) % 360`, `> 180 ⇒ - 360` on write; `sqrt(E·df·dd·8)/2`; `(270 - dir) % 360`, `0 ↦ 360`,
    `amp² / (df·dd·2)` on read; amplitudes `%12.8f`, frequencies `%10.5f`, directions `%10.3f` -/
theorem lits_funwave : Gen.lits_output_funwave = [270, 360, 180, 180, 360, 90, 90, 1, 0] ∧
    Gen.lits_output_funwave_spectrum = [0, 1, 1, 0, 8, 2, 0, 1, 360, 1] ∧
    Gen.lits_input_funwave = [0, 2, 0, 0, 0, 0, 0, 0, 270, 360, 0, 0, 0, 360, 1, 2, 2, 1] ∧
    Gen.fmts_output_funwave_spectrum =
      [">5d", ">5d", ">10.3f", "%10.5f   - Freq\n", "%10.3f   - Dire\n", "%12.8f", "%12.8f", "%12.3f"] := by
  decide +kernel

/-- Octopus: default `fcut = 0.125`, `missing_val = -99999`; energies and frequencies `%8.7f`, directions `%0.0f`,
    positions `%0.6f`, record times to the minute on both sides -/
theorem lits_octopus : Gen.lits_output_octopus.take 2 = [1 / 8, -Octopus.missing] ∧
    Gen.fmts_output_octopus.take 10 =
      ["{:8.7f}", "{:0.0f},", "{:8.7f}", "%d-%b-%Y %H:%M:%S", "%Y%m", "%d%H%M", "%Y%m%d_%Hz", "0.6f", "0.6f", "0.2f"] ∧
    Gen.fmts_input_octopus = ["%Y%m%d%H%M"] := by decide +kernel

end Bridging

/-! ## non-vacuity: the hypotheses are satisfiable on concrete, non-trivial inputs; the model evaluated on samples -/
section Examples
open Swan

/-- a 2×3 spectrum: max 5/2, fac = 5/19996 -/
private def eS : OMat := [[some (1/3), some (2/7), some (5/2)], [some 0, some 1, some (1/1000)]]

example : hasNaN eS = false ∧ 0 < facOf eS ∧ (∀ r ∈ vals eS, ∀ x ∈ r, 0 ≤ x) := by decide +kernel
example := swan_roundtrip 2 3 eS (by decide +kernel) (by decide +kernel) (by decide +kernel)
example : encode eS = .factor (25005001 / 100000000000) [[1333, 1143, 9998], [0, 3999, 4]] := by decide +kernel
example : sig9 (5 / 19996) = 25005001 / 100000000000 ∧ decExp (5 / 19996) = -4 := by decide +kernel
example := swan_bin (5/19996) (25005001 / 100000000000) (1/3) (by norm_num) (by norm_num) (by unfold maxCount; norm_num)
example := swan_bin_sig9 (5/19996) (1/3) (by norm_num) (by norm_num) (by unfold maxCount; norm_num)
example := swan_field_fits (19997/2) (by norm_num) (by norm_num)
example : rhe (19997/2) = 9998 ∧ rhe (5/2) = 2 ∧ rhe (7/2) = 4 ∧ rhe (-5/2) = -2 := by decide +kernel
example := swan_nodata 2 2 [[some 1, none], [some 2, some 3]] (by decide +kernel)
example := nine_digit_err (5/19996) (by norm_num)
example := decimal_exponent_found (5/19996) (by norm_num)
-- a tie in the ninth digit goes to the even neighbour: 2⁻¹³ = 1.220703125e-4 ↦ 1.22070312e-4
example : sig9 (1 / 8192) = 122070312 / 1000000000000 := by decide +kernel

-- locations
example : isGrid [100, 100] [5, 3] = true ∧ isGrid [100, 101.5, 100] [-10, -9, -9] = false := by decide +kernel
example := old_swan_positions_partial false [100, 101.5, 100] [-10, -9, -9] 1 (Or.inl (by decide +kernel))
example := (old_swan_grid_partial [10, 10, 20, 20] [0, 1, 0, 1] 2 (by decide +kernel)).mpr (by decide +kernel)
example := swan_fixed_label [10, 20, 30, 10, 20, 30] [0, 0, 0, 1, 1, 1] 1 (by norm_num) (by norm_num)
example := swan_positions_kept false [100, 100] [5, 3] 0 (by norm_num) (by norm_num)
example := swan_grid_kept [0, 1] [10, 20, 30] 1 (by decide +kernel)
example : readLabelOld false [10, 20, 30, 10, 20, 30] [0, 0, 0, 1, 1, 1] 1 = (10, 1) ∧
    readLabel false [10, 20, 30, 10, 20, 30] [0, 0, 0, 1, 1, 1] 1 = (20, 0) := by decide +kernel
example : gridHeader [0, 1] [10, 20, 30] = [(10, 0), (20, 0), (30, 0), (10, 1), (20, 1), (30, 1)] := by decide +kernel
example : dirOrder [((315 : ℚ), 'a'), (0, 'b'), (45, 'c'), (-90, 'd')] = [(0, 'b'), (45, 'c'), (270, 'd'), (315, 'a')] := by
  decide +kernel

-- chunks
example := swan_chunked_eq 5 2 (by norm_num)
example : swanWritten 5 2 = [0, 1, 2, 3, 4] ∧ swanWritten 5 7 = [0, 1, 2, 3, 4] := by decide +kernel
example := octopus_chunked_eq 5 2 (by norm_num)
example : Octopus.blocks 5 2 = [[0, 1], [2, 3], [4]] ∧ Octopus.readBack 5 2 = [0, 1] := by decide +kernel
example := octopus_read_partial 4 0 (by norm_num) (Or.inl rfl)
example := octopus_read_partial 4 9 (by norm_num) (Or.inr (by norm_num))

-- Octopus numbers: Δf·Δθ = 9/2 on write, 9/2 + 9/10⁷ on read
example := octopus_roundtrip (9/2) (9/2 + 9/10000000) (1/3) (by norm_num)
example := octopus_roundtrip_same_widths (9/2) (1/3) (by norm_num)
example : Octopus.rtBin (9/2) (9/2) (1/3) = 1/3 ∧ Octopus.rtBin 1 1 (1/3) = 3333333/10000000 := by decide +kernel
example : Octopus.decode [1/10, 1/5, 2/5] [0, 90, 180, 270] (Octopus.encode [1/10, 1/5, 2/5] [90, 180, 270, 0]
    [[some 1, some 2, some 3, some 4], [some 5, some 6, some 7, some 8], [some 9, some 10, some 11, none]]).2.2 =
    [[some 4, some 1, some 2, some 3], [some 8, some 5, some 6, some 7], [some (-11111/2), some 9, some 10, some 11]] := by
  decide +kernel

-- packing
example := pack_roundtrip (1/3) (by norm_num) (by unfold Pack.imax Pack.scale; norm_num)
example : Pack.enc (some (1/3)) = 33333 ∧ Pack.enc none = -32768 := by decide +kernel
example := pack_roundtrip_signed (-1/3) (by unfold Pack.imin Pack.scale; norm_num) (by unfold Pack.imax Pack.scale; norm_num)
  (by decide +kernel)
-- the one collision of the format: the count -32768 is the fill value
example : Pack.dec (Pack.enc (some (-32768 * Pack.scale))) = none := by decide +kernel

-- WW3 (π replaced by 22/7: any non-zero value)
example := ww3_roundtrip (22/7) (5/3) (by norm_num)
example := ww3_dir_involution 359 (by norm_num) (by norm_num)
example : WW3.flipDir 359 = 179 ∧ WW3.flipDir 360 = 180 ∧ WW3.flipDir (WW3.flipDir 360) = 0 := by decide +kernel
example := ww3_lonlat 3 (by norm_num) (5 : ℚ) 0

-- Funwave: E = 1/9, w = 9/2 ⇒ a² = 1, a = 1
example : (1 : ℚ) ^ 2 = Funwave.amp2 (9/2) (1/9) := by decide +kernel
example := funwave_energy (9/2) (1/9) 1 (by norm_num) (by decide +kernel)
example := funwave_roundtrip (9/2) (9/2) (1/9) 1 (by norm_num) (by norm_num) (by decide +kernel)
example : Funwave.cart 0 = -90 ∧ Funwave.cart 90 = 180 ∧ Funwave.naut (-90) = 360 ∧ Funwave.naut 180 = 90 := by
  decide +kernel
example : (Funwave.roundtrip [1/10, 1/5, 2/5] (some [0, 90, 180, 270])
    [[some 1, some 2, some 3, some 4], [some 5, some 6, some 7, some 8], [some 9, some 10, some 11, some 12]]).2.1 =
    [90, 180, 270, 360] := by decide +kernel

end Examples

end WS.C11

import WsVerif.Model.Chunk
import WsVerif.Model.Peak
import Mathlib.Algebra.BigOperators.Group.List.Basic
import Mathlib.Algebra.Order.Field.Rat
import Mathlib.Tactic.Ring
/-!
# C07 — dask-backed data: any chunking, any reduction order, any interleaving of atomic calls

What Lean decides here: (i) sums and elementwise maps over a chunked array do not depend on the chunking or
on the shape of the reduction tree; (ii) `apply_ufunc(dask="parallelized")` over a core dimension succeeds
exactly when that dimension is a single chunk, so `chunk({dim: None})` (a no-op) leaves the peak statistics
failing on freq-chunked input — the defect — while `chunk({dim: -1})` makes them succeed with the in-memory
value for every chunking; (iii) if each call into the partitioning extension overwrites the static state it
reads, every interleaving of whole calls gives each call the result it has from a fresh state.
Not decided here: dask's graph construction and schedulers (carried by the correspondence check), and the
atomicity of the C call (rests on the wrapper never releasing the GIL; checked textually by the translator).
-/
namespace WS.C07
open WS WS.Chunk

/-! ### reductions and blockwise maps -/

/-- summing per chunk and then summing the partial sums is the flat sum — for every chunking -/
theorem sum_chunks (c : Chunks) : (chunkSums c).sum = (content c).sum := by
  unfold chunkSums content
  induction c with
  | nil => simp
  | cons a c ih => simp only [List.map_cons, List.sum_cons, List.flatten_cons, List.sum_append, ih]

theorem tree_eval_eq_sum_leaves (t : Tree) : t.eval = t.leaves.sum := by
  induction t with
  | leaf x => simp [Tree.eval, Tree.leaves]
  | node l r ihl ihr => simp [Tree.eval, Tree.leaves, List.sum_append, ihl, ihr]

/-- any reduction tree that consumes the partial sums in any order evaluates to the flat sum -/
theorem tree_reduce_sum (c : Chunks) (t : Tree) (h : t.leaves.Perm (chunkSums c)) :
    t.eval = (content c).sum := by
  rw [tree_eval_eq_sum_leaves, h.sum_eq, sum_chunks]

/-- two chunkings of the same content, reduced by any two trees, agree -/
theorem tree_reduce_chunking_irrelevant (c c' : Chunks) (t t' : Tree) (hc : content c = content c')
    (h : t.leaves.Perm (chunkSums c)) (h' : t'.leaves.Perm (chunkSums c')) : t.eval = t'.eval := by
  rw [tree_reduce_sum c t h, tree_reduce_sum c' t' h', hc]

/-- an elementwise operation applied block by block is the operation applied to the content -/
theorem map_chunks (f : ℚ → ℚ) (c : Chunks) : content (blockwiseMap f c) = (content c).map f := by
  unfold content blockwiseMap
  rw [List.map_flatten]

/-- … and it keeps the chunk structure -/
theorem map_chunks_shape (f : ℚ → ℚ) (c : Chunks) :
    (blockwiseMap f c).map List.length = c.map List.length := by
  simp [blockwiseMap]

/-- blockwise map followed by a tree reduction (e.g. `(efth * df * dd).sum()`) -/
theorem map_then_reduce (f : ℚ → ℚ) (c : Chunks) (t : Tree)
    (h : t.leaves.Perm (chunkSums (blockwiseMap f c))) : t.eval = ((content c).map f).sum := by
  rw [tree_reduce_sum _ t h, map_chunks]

/-! ### core dimensions -/

/-- `apply_ufunc(dask="parallelized")` succeeds iff the core dimension is not split over several chunks -/
theorem applyCore_ok_iff_single_chunk {β : Type} (f : List ℚ → β) (c : Chunks) :
    (∃ b, applyCore f c = .ok b) ↔ c.length ≤ 1 := by
  unfold applyCore
  by_cases h : 1 < c.length
  · simp [h]
  · simp [h]; omega

/-- and when it succeeds the value is `f` of the whole content -/
theorem applyCore_value {β : Type} (f : List ℚ → β) (c : Chunks) (h : c.length ≤ 1) :
    applyCore f c = .ok (f (content c)) := by
  unfold applyCore
  simp [Nat.not_lt.mpr h]

theorem applyCore_error {β : Type} (f : List ℚ → β) (c : Chunks) (h : 1 < c.length) :
    applyCore f c = .error .valueError := by
  unfold applyCore
  simp [h]

/-- **the repaired code**: after `chunk({dim: -1})` the call succeeds for *every* chunking and returns the
    in-memory value -/
theorem rechunkAll_single {β : Type} (f : List ℚ → β) (c : Chunks) :
    applyCore f (rechunkAll c) = .ok (f (content c)) := by
  simp [applyCore, rechunkAll, content]

/-- rechunking does not change the content -/
theorem rechunkAll_content (c : Chunks) : content (rechunkAll c) = content c := by
  simp [rechunkAll, content]

/-- any two chunkings of the same content give the same result -/
theorem rechunkAll_chunking_irrelevant {β : Type} (f : List ℚ → β) (c c' : Chunks)
    (h : content c = content c') : applyCore f (rechunkAll c) = applyCore f (rechunkAll c') := by
  rw [rechunkAll_single, rechunkAll_single, h]

/-- **the defect that was repaired** (`chunk({dim: None})` is a no-op): with the core dimension in two or
    more chunks the call raises `ValueError`, whatever the function -/
theorem rechunkNone_fails {β : Type} (f : List ℚ → β) (c : Chunks) (h : 1 < c.length) :
    applyCore f (rechunkNone c) = .error .valueError := applyCore_error f c h

/-- concrete witness: four frequencies in two chunks, the peak index of `[1,3,2,1]` -/
theorem peak_stats_chunk_fails :
    applyCore Peak.peakIdx (rechunkNone [[1, 3], [2, 1]]) = .error .valueError ∧
    applyCore Peak.peakIdx (rechunkAll [[1, 3], [2, 1]]) = .ok 1 ∧
    applyCore Peak.peakIdx (rechunkNone [[1, 3, 2, 1]]) = .ok 1 := by
  decide +kernel

/-- partial correctness of the unrepaired code: on single-chunk core dimensions it agrees with the repair -/
theorem rechunkNone_partial {β : Type} (f : List ℚ → β) (c : Chunks) (h : c.length ≤ 1) :
    applyCore f (rechunkNone c) = applyCore f (rechunkAll c) := by
  rw [rechunkAll_single]; exact applyCore_value f c h

/-! ### two core dimensions (freq and dir both chunked) -/

theorem rechunkAll2_content (c : Chunks2) : content2 (rechunkAll2 c) = content2 c := by
  simp [rechunkAll2, content2, Function.comp_def]

theorem rechunkAll2_single {β : Type} (f : Mat → β) (c : Chunks2) :
    applyCore2 f (rechunkAll2 c) = .ok (f (content2 c)) := by
  have h : content2 (rechunkAll2 c) = content2 c := rechunkAll2_content c
  unfold applyCore2
  rw [h]
  simp [rechunkAll2]

theorem rechunkAll2_chunking_irrelevant {β : Type} (f : Mat → β) (c c' : Chunks2)
    (h : content2 c = content2 c') : applyCore2 f (rechunkAll2 c) = applyCore2 f (rechunkAll2 c') := by
  rw [rechunkAll2_single, rechunkAll2_single, h]

/-- freq split in two chunks ⇒ error -/
theorem applyCore2_fails_freq {β : Type} (f : Mat → β) (c : Chunks2) (h : 1 < c.length) :
    applyCore2 f c = .error .valueError := by
  simp [applyCore2, h]

/-- the sum of all per-block sums is the sum of the logical matrix, for every 2-D chunking -/
theorem sum_chunks2 (c : Chunks2) : (blockSums2 c).sum = ((content2 c).map List.sum).sum := by
  unfold blockSums2 content2
  induction c with
  | nil => simp
  | cons rows c ih =>
    simp only [List.map_cons, List.sum_cons, List.flatten_cons, List.map_append, List.sum_append, ih]
    congr 1
    rw [List.map_map]
    congr 2
    funext row
    exact sum_chunks row

/-! ### interleaving of atomic calls that share static state -/

/-- if the output of a call does not depend on the state it finds (it overwrites before it reads), then in
    every sequence of calls from every initial state, each call returns what it returns from a fresh state -/
theorem interleaving_irrelevant {σ In Out : Type} (call : σ → In → σ × Out)
    (h : ∀ s s' x, (call s x).2 = (call s' x).2) (s0 fresh : σ) (xs : List In) :
    runCalls call s0 xs = xs.map fun x => (call fresh x).2 := by
  induction xs generalizing s0 with
  | nil => rfl
  | cons x xs ih => simp only [runCalls, List.map_cons, ih, h s0 fresh x]

/-- position-wise form -/
theorem interleaving_get {σ In Out : Type} (call : σ → In → σ × Out)
    (h : ∀ s s' x, (call s x).2 = (call s' x).2) (s0 fresh : σ) (xs : List In) (i : Nat) :
    (runCalls call s0 xs)[i]? = (xs[i]?).map fun x => (call fresh x).2 := by
  rw [interleaving_irrelevant call h s0 fresh]; simp

/-- two interleavings of the same tagged calls (tag = thread and call number) produce the same tagged
    results -/
theorem interleavings_agree {σ In Out Tag : Type} (call : σ → In → σ × Out)
    (h : ∀ s s' x, (call s x).2 = (call s' x).2) (s0 s1 : σ) (xs ys : List (Tag × In))
    (hp : xs.Perm ys) :
    ((xs.map Prod.fst).zip (runCalls call s0 (xs.map Prod.snd))).Perm
      ((ys.map Prod.fst).zip (runCalls call s1 (ys.map Prod.snd))) := by
  rw [interleaving_irrelevant call h s0 s0, interleaving_irrelevant call h s1 s0]
  rw [List.map_map, List.map_map, List.zip_map', List.zip_map']
  exact hp.map _

/-- a call of the form "initialise the static state from the input, run, read the result" satisfies the
    hypothesis of `interleaving_irrelevant` -/
theorem static_state_irrelevant {σ In Out : Type} (init : In → σ) (run : σ → σ) (out : σ → Out)
    (s s' : σ) (x : In) :
    ((fun (_ : σ) (x : In) => (run (init x), out (run (init x)))) s x).2 =
    ((fun (_ : σ) (x : In) => (run (init x), out (run (init x)))) s' x).2 := rfl

/-- contrast: a call that *reads* the state it finds is order-dependent (why the hypothesis matters) -/
theorem stale_state_matters :
    runCalls (fun (s : Nat) (x : Nat) => (x, s + x)) 0 [1, 2] ≠
    runCalls (fun (s : Nat) (x : Nat) => (x, s + x)) 0 [2, 1] := by decide

/-! ### non-vacuity -/

example : (Tree.node (.leaf 3) (.node (.leaf 7) (.leaf 3))).leaves.Perm (chunkSums [[1, 2], [3], [3, 4]]) := by
  decide +kernel
example := tree_reduce_sum [[1, 2], [3], [3, 4]] (.node (.leaf 3) (.node (.leaf 7) (.leaf 3))) (by decide +kernel)
example := applyCore_value Peak.peakIdx [[1, 3, 2, 1]] (by decide)
example := rechunkNone_fails Peak.peakIdx [[1, 3], [2, 1]] (by decide)
example := rechunkAll_chunking_irrelevant Peak.peakIdx [[1, 3], [2, 1]] [[1], [3, 2, 1]] (by decide)
example := rechunkAll2_chunking_irrelevant (fun e => Peak.dpIdx 2 e) [[[[1], [2]]], [[[3, 4]]]] [[[[1, 2]], [[3], [4]]]]
  (by decide)
example := applyCore2_fails_freq (fun e => Peak.dpIdx 2 e) [[[[1], [2]]], [[[3, 4]]]] (by decide)
example := interleaving_irrelevant (fun (_ : Nat) (x : Nat) => (x * x, x * x + 1))
  (fun _ _ _ => rfl) 5 0 [3, 1, 2]
example := interleavings_agree (Tag := String) (fun (_ : Nat) (x : Nat) => (x * x, x * x + 1))
  (fun _ _ _ => rfl) 5 0 [("a", 3), ("b", 1)] [("b", 1), ("a", 3)] (by decide)
example := tree_reduce_chunking_irrelevant [[1, 2], [3], [3, 4]] [[1], [2, 3, 3, 4]]
  (.node (.leaf 3) (.node (.leaf 7) (.leaf 3))) (.node (.leaf 12) (.leaf 1)) (by decide)
  (by decide +kernel) (by decide +kernel)
example := map_then_reduce (fun x => 2 * x) [[1, 2], [3]] (.node (.leaf 6) (.leaf 6)) (by decide +kernel)
example := applyCore_error Peak.peakIdx [[1, 3], [2, 1]] (by decide)
example := rechunkNone_partial Peak.peakIdx [[1, 3, 2, 1]] (by decide)

end WS.C07

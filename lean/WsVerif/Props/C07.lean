import WsVerif.Model.Basic
/-! placeholder until the chunk model lands (replaced by the full file) -/
namespace WS.C07
theorem map_flatten {α β : Type} (f : α → β) (chunks : List (List α)) :
    (chunks.map (·.map f)).flatten = chunks.flatten.map f := by simp [List.map_flatten]
end WS.C07

import WsVerif.Model.Smooth
import WsVerif.Model.SmoRt
import WsVerif.Lemmas.Smooth
import WsVerif.Lemmas.SmoBridge
import WsVerif.Gen.SmoKernels
import WsVerif.Props.C16
/-!
# C16 (T-tier) — `smooth_spec` regenerated statement by statement, bridged to the hand model for ALL inputs

`Gen/SmoKernels.lean` is regenerated from the current source of `wavespectra/core/utils.py::smooth_spec` and
`SpecArray.smooth` by `harness/translate_smo.py` (vocabulary `Model/SmoRt.lean`).  The theorems below connect every
generated stage, and the generated whole function, to `Model/Smooth.lean`, about which `Props/C16.lean` is proved.
-/
namespace WS.C16
open WS WS.Smooth

/-! ## 0. Pins: signatures, defaults, forwarding, untranslated plumbing -/

theorem gensmo_sig :
    Gen.smoSmoothSpec_sig = [("dset", ""), ("freq_window", "3"), ("dir_window", "3")] ∧
    Gen.smoAccessor_sig = [("self", ""), ("freq_window", "3"), ("dir_window", "3")] ∧
    Gen.smoAccessor_defaults = Gen.smoSmoothSpec_defaults := by decide

theorem gensmo_accessor_forwarding :
    Gen.smoAccessor_body = ["return smooth_spec(self._obj, freq_window=freq_window, dir_window=dir_window)"] ∧
    Gen.smoAccessor_imports = ["from wavespectra.core.utils import smooth_spec"] := by decide

theorem gensmo_plumbing :
    Gen.smoSmoothSpec_plumbing =
      ["raise ValueError(f'Window size must be an odd value to ensure symmetry, got {window}')",
       "kwargs = {'data_vars': 'minimal'} if isinstance(dsout, xr.Dataset) else {}",
       "dsout = dsout.chunk(**{attrs.DIRNAME: -1})",
       "set_spec_attributes(dsout)"] ∧
    Gen.smoSmoothSpec_imports =
      ["import numpy as np", "import xarray as xr", "from wavespectra.core.attributes import attrs",
       "from wavespectra.core.attributes import set_spec_attributes"] ∧
    Gen.smoSmoothSpec_dimnames = ["FREQNAME: &FREQNAME freq", "DIRNAME: &DIRNAME dir"] := by decide

/-- the accessor is the function -/
theorem gensmo_accessor (obj : Smo.DS) (fw dw : Nat) : Gen.smoAccessor obj fw dw = Gen.smoSmoothSpec obj fw dw := rfl

/-! ## 1. Stages -/

/-- (1) the parity loop: ValueError on an even window; otherwise the leaked loop variable is `dir_window` -/
theorem gensmo_validate (fw dw : Nat) :
    Gen.smoValidate fw dw = if fw % 2 = 0 ∨ dw % 2 = 0 then .error .valueError else .ok dw := by
  unfold Gen.smoValidate Smo.forLeak
  by_cases h1 : fw % 2 = 0
  · simp [Smo.forLeakAux, h1]
  · by_cases h2 : dw % 2 = 0
    · simp [Smo.forLeakAux, h1, h2]
    · simp [Smo.forLeakAux, h1, h2]

/-- (2)+(3) `sortby` and the float32 relabel: the model's sorted columns under the model's labels -/
theorem gensmo_labels (dirs dirs32 : Vec) (e : Mat) :
    Gen.smoLabels (Smo.mkDS dirs dirs32 e) =
      ⟨labelsOf codeSortedLabels dirs dirs32, labelsOf codeSortedLabels dirs dirs32, takeCols (sortPerm dirs) e⟩ := by
  simp [Gen.smoLabels, Smo.mkDS, Smo.sortby, Smo.setDir, Smo.f32, Smo.argsortStable_eq, labelsOf, codeSortedLabels, takeCols]

/-- (4) the circularity test -/
theorem gensmo_isCircular (d : Smo.DS) : Gen.smoIsCircular d = isCircular d.dir := by
  unfold Gen.smoIsCircular isCircular
  simp only [Smo.dirValues, Smo.npDiff_eq, Smo.amax_eq, Smo.amin_eq]
  cases hd : diffs d.dir with
  | nil => simp [Smo.listSet]
  | cons x xs =>
    by_cases hall : ∀ y ∈ xs, y = x
    · have h1 : (Smo.listSet (x :: xs)).length = 1 := (Smo.listSet_length_one x xs).2 hall
      have h2 : xs.all (fun y => y == x) = true := by simpa using hall
      simp only [h1, h2, Smo.item0_listSet, tenth, decide_true, if_true, Bool.true_and]
      rfl
    · have h1 : ¬ (Smo.listSet (x :: xs)).length = 1 := fun h => hall ((Smo.listSet_length_one x xs).1 h)
      have h2 : xs.all (fun y => y == x) = false := by
        rw [Bool.eq_false_iff]; intro h; exact hall (by simpa using h)
      simp [h1, h2]

/-- (5) the ghost blocks: `padLabels` on the labels, `padRow` on every row (the pad width is the first argument, which
    `smoSmoothSpec` feeds with the leaked loop variable) -/
theorem gensmo_pad (w fw dw : Nat) (hw : w ≠ 0) (d : Smo.DS) :
    Gen.smoPad w fw dw d = ⟨padLabels w d.dir, padLabels w d.dir32, d.val.map (padRow w)⟩ := by
  simp [Gen.smoPad, Smo.concatDir, Smo.concat2, Smo.iselLast, Smo.iselFirst, Smo.mapDir, Smo.lastN_pos w hw, padLabels,
    Smo.zipWith_pad, padRow]

/-- (6) the rolling mean -/
theorem gensmo_rolling (w fw dw : Nat) (d : Smo.DS) :
    Gen.smoRolling w fw dw d = ⟨d.dir, rolling fw dw d.dir.length d.val⟩ := rfl

/-- (7) the clip: nothing when the labels already equal the stored ones, else the model's label lookup -/
theorem gensmo_clip (dset : Smo.DS) (r : Smo.RS) :
    Gen.smoClip dset r =
      if r.dir = dset.dir then .ok r else
        match selCols r.dir dset.dir32 r.val with
        | .ok v => .ok ⟨dset.dir32, v⟩
        | .error err => .error err := by
  unfold Gen.smoClip Smo.coordEquals Smo.selDir selCols
  by_cases h : r.dir = dset.dir
  · simp [h]
  · by_cases h2 : (dset.dir32.all fun d => r.dir.contains d) = true
    · simp only [h, h2]; simp
    · simp only [h, h2]; simp

/-- (8)+(9) original coordinates and the fill -/
theorem gensmo_fill (dset : Smo.DS) (r : Smo.RS) :
    Gen.smoFill dset r = ⟨dset.dir, dset.dir32, fill r.val dset.val dset.dir.length⟩ := rfl

/-! ## 2. The whole function -/

/-- **`smooth_spec` as regenerated from the source = the model the C16 theorems are about**, for every stored label
    list, every float32 image of the same length, every spectrum and every pair of windows -/
theorem gensmo_smooth_spec (dirs dirs32 : Vec) (e : Mat) (fw dw : Nat) (hlen : dirs32.length = dirs.length) :
    Gen.smoSmoothSpec (Smo.mkDS dirs dirs32 e) fw dw = Smooth.smooth dirs dirs32 e fw dw := by
  unfold Gen.smoSmoothSpec Smooth.smooth smoothWith
  rw [gensmo_validate]
  by_cases hpar : fw % 2 = 0 ∨ dw % 2 = 0
  · simp [hpar]
  · have hw : dw ≠ 0 := by omega
    have hL : (labelsOf codeSortedLabels dirs dirs32).length = dirs.length := labelsOf_length _ _ _ hlen
    have hrows : (takeCols (sortPerm dirs) e).map (padRow (min dw dirs.length)) = (takeCols (sortPerm dirs) e).map (padRow dw) := by
      apply List.map_congr_left
      intro r hr
      have : r.length = dirs.length := by
        rw [← sortPerm_length dirs]; exact rect_takeCols _ _ r hr
      rw [← this, Smo.padRow_min]
    have hlab : padLabels (min dw dirs.length) (labelsOf codeSortedLabels dirs dirs32) = padLabels dw (labelsOf codeSortedLabels dirs dirs32) := by
      rw [← hL, Smo.padLabels_min]
    simp only [hpar, if_false, gensmo_labels, gensmo_isCircular, hrows, hlab]
    by_cases hc : isCircular (labelsOf codeSortedLabels dirs dirs32) = true
    · simp only [hc, if_true, gensmo_pad _ _ _ hw, gensmo_rolling, gensmo_clip, Smo.mkDS]
      by_cases heq : padLabels dw (labelsOf codeSortedLabels dirs dirs32) = dirs
      · simp only [heq, if_true, gensmo_fill, Smo.out]
      · simp only [heq, if_false]
        cases selCols (padLabels dw (labelsOf codeSortedLabels dirs dirs32)) dirs32 _ <;> simp [gensmo_fill, Smo.out]
    · have hc' : isCircular (labelsOf codeSortedLabels dirs dirs32) = false := by simpa using hc
      simp only [hc', Bool.false_eq_true, if_false, gensmo_rolling, gensmo_clip, Smo.mkDS]
      by_cases heq : labelsOf codeSortedLabels dirs dirs32 = dirs
      · simp [heq, gensmo_fill, Smo.out]
      · simp only [heq, if_false]
        cases selCols (labelsOf codeSortedLabels dirs dirs32) dirs32 _ <;> simp [gensmo_fill, Smo.out]

example := gensmo_smooth_spec dirsW dirsW specW 1 3 rfl
example := gensmo_pad 3 3 3 (by decide) (Smo.mkDS dirs8 dirs8 spec8)

/-! ## 3. Headline statements of `Props/C16.lean`, restated on the generated function -/

/-- **even windows are rejected** by the regenerated function -/
theorem gensmo_even_rejected (dirs dirs32 : Vec) (e : Mat) (fw dw : Nat) (hlen : dirs32.length = dirs.length)
    (h : fw % 2 = 0 ∨ dw % 2 = 0) :
    Gen.smoSmoothSpec (Smo.mkDS dirs dirs32 e) fw dw = .error .valueError := by
  rw [gensmo_smooth_spec _ _ _ _ _ hlen]; exact even_rejected _ dirs dirs32 e fw dw h

/-- **the grid is kept** by the regenerated function: same direction coordinate in the stored order, same shape -/
theorem gensmo_dims_coords_order_kept (dirs dirs32 : Vec) (e : Mat) (fw dw : Nat) (res : Vec × Mat)
    (hlen : dirs32.length = dirs.length) (h : Gen.smoSmoothSpec (Smo.mkDS dirs dirs32 e) fw dw = .ok res) :
    res.1 = dirs ∧ res.2.length = e.length ∧ ∀ r ∈ res.2, r.length = dirs.length := by
  rw [gensmo_smooth_spec _ _ _ _ _ hlen] at h
  exact dims_coords_order_kept _ dirs dirs32 e fw dw res h

/-- **constant spectra are preserved** by the regenerated function (any storage order, any odd windows) -/
theorem gensmo_const_preserved (dirs dirs32 : Vec) (e : Mat) (fw dw : Nat) (res : Vec × Mat) (c : ℚ)
    (hlen : dirs32.length = dirs.length) (hres : Gen.smoSmoothSpec (Smo.mkDS dirs dirs32 e) fw dw = .ok res)
    (h : ∀ i < e.length, ∀ j < dirs.length, cellAt e i j = c) :
    ∀ i < e.length, ∀ k < dirs.length, cellAt res.2 i k = c := by
  rw [gensmo_smooth_spec _ _ _ _ _ hlen] at hres
  exact const_preserved _ dirs dirs32 e fw dw res c hlen hres h

/-- **every output value lies in the hull of the input values** (hence non-negativity), on the regenerated function -/
theorem gensmo_value_in_hull (dirs dirs32 : Vec) (e : Mat) (fw dw : Nat) (res : Vec × Mat) (lo hi : ℚ)
    (hlen : dirs32.length = dirs.length) (hres : Gen.smoSmoothSpec (Smo.mkDS dirs dirs32 e) fw dw = .ok res)
    (h : ∀ i < e.length, ∀ j < dirs.length, lo ≤ cellAt e i j ∧ cellAt e i j ≤ hi) :
    ∀ i < e.length, ∀ k < dirs.length, lo ≤ cellAt res.2 i k ∧ cellAt res.2 i k ≤ hi := by
  rw [gensmo_smooth_spec _ _ _ _ _ hlen] at hres
  exact value_in_hull _ dirs dirs32 e fw dw res lo hi hlen hres h

/-- **windows `(1, 1)` give the input back, whatever the storage order** — on the regenerated function (this is the
    statement the float32-relabel defect used to refute: `C16.window1_id_fails`) -/
theorem gensmo_window1_id (dirs : Vec) (e : Mat) (hn : dirs.Nodup) (hr : Rect e dirs.length) :
    Gen.smoSmoothSpec (Smo.mkDS dirs dirs e) 1 1 = .ok (dirs, e) := by
  rw [gensmo_smooth_spec _ _ _ _ _ rfl]; exact window1_id_repaired dirs e hn hr

/-- **the result does not depend on the storage order** — on the regenerated function: it is the result for the sorted
    arrangement of the same labelled data, read back in stored order -/
theorem gensmo_storage_invariant (dirs : Vec) (e : Mat) (fw dw : Nat) (hf : fw % 2 = 1) (hd : dw % 2 = 1)
    (hn : dirs.Nodup) (hr : Rect e dirs.length) :
    (Gen.smoSmoothSpec (Smo.mkDS dirs dirs e) fw dw).toOption =
      (Gen.smoSmoothSpec (Smo.mkDS (sortedDirs dirs) (sortedDirs dirs) (takeCols (sortPerm dirs) e)) fw dw).toOption.map fun p =>
        (dirs, takeCols ((List.range dirs.length).map (sortPerm dirs).idxOf) p.2) := by
  rw [gensmo_smooth_spec _ _ _ _ _ rfl, gensmo_smooth_spec _ _ _ _ _ rfl]
  exact storage_invariant_repaired dirs e fw dw hf hd hn hr

example := gensmo_window1_id dirsW specW (by decide +kernel) (by decide +kernel)
example := gensmo_storage_invariant dirsW specW 1 3 rfl rfl (by decide +kernel) (by decide +kernel)
example := gensmo_even_rejected dirs8 dirs8 spec8 2 3 rfl (Or.inl rfl)
example : dirsW.length = dirsW.length ∧ ∀ i < specW.length, ∀ j < dirsW.length, 0 ≤ cellAt specW i j ∧ cellAt specW i j ≤ 7 := by
  decide +kernel
example : ∀ i < [[3, 3, 3, 3, 3, 3, 3, 3]].length, ∀ j < dirsW.length, cellAt [[3, 3, 3, 3, 3, 3, 3, 3]] i j = 3 := by decide +kernel
example : (Gen.smoSmoothSpec (Smo.mkDS dirsW dirsW [[3, 3, 3, 3, 3, 3, 3, 3]]) 1 3).toOption.isSome = true := by decide +kernel
example : (Gen.smoSmoothSpec (Smo.mkDS dirsW dirsW specW) 1 3).toOption = some (dirsW, [[2/3, 0, 7/3, 4, 16/3, 11/3, 8/3, 4/3]]) := by
  decide +kernel

end WS.C16

import WsVerif.Props.C02
import WsVerif.Props.C01xr
import WsVerif.Model.PeakXr
import WsVerif.Gen.XrPeakKernels
import WsVerif.Lemmas.XrPeakBridge
/-!
# C02 — T-tier, xarray level: the peak statistics of `SpecArray` are the model

`Gen/XrPeakKernels.lean` is regenerated on every run by `harness/translate_xr2.py` from the bodies of `SpecArray._peak`, `tp`, `fp`,
`dp`, `dpm`, `dpspr`, `alpha`, `gamma`, `hmax`, `scale_by_hs` (`wavespectra/specarray.py`) and of the wrappers of
`wavespectra/core/xrstats.py`.  Each theorem below identifies one generated definition with the hand-written model
(`Model/Peak.lean`, twins in `Model/PeakXr.lean`) for ALL inputs, through the numpy kernels already bridged in `Props/C02.lean`
(`gen_tps_eq`, `gen_npTp_eq`, `gen_dp_eq`, `gen_dpm_eq`, `gen_dpspr_eq`, `gen_alpha_val_eq`).
-/
namespace WS.C02
open WS WS.Stats WS.Peak

/-! ### `_peak` -/

/-- **`SpecArray._peak` is `Peak.peakIdx`**: the `concat / diff / > 0 / < 0 / logical_and / where(·, 0) / argmax` pipeline returns the
    first index of the largest value among the interior strict local maxima, `0` when there is none -/
theorem genxrp_peak_eq (a : Vec) : Gen.xrPeak a = peakIdx a := by
  unfold Gen.xrPeak peakIdx
  simp only [peak_mask_eq]

/-- hence the regenerated `_peak` has the property proved for the model -/
theorem genxrp_peak_spec (a : Vec) :
    Gen.xrPeak a = 0 ∨
      (IsInteriorStrictMax a (Gen.xrPeak a) ∧
        ∀ q, IsInteriorStrictMax a q →
          getR a q ≤ getR a (Gen.xrPeak a) ∧ (getR a q = getR a (Gen.xrPeak a) → Gen.xrPeak a ≤ q)) := by
  rw [genxrp_peak_eq]; exact peakIdx_spec a

/-- non-vacuity on the regenerated text: boundary maximum ignored, flat top ignored, first of equal peaks -/
theorem genxrp_peak_examples :
    Gen.xrPeak [10, 1, 2, 5, 2, 1] = 3 ∧ Gen.xrPeak [1, 2, 2, 1] = 0 ∧ Gen.xrPeak [0, 3, 1, 3, 0] = 1 ∧
    Gen.xrPeak [0, 1, 0, 4, 0] = 3 ∧ Gen.xrPeak [3, 2, 1] = 0 ∧ Gen.xrPeak [] = 0 := by decide +kernel

/-! ### `xrstats.peak_wave_period`, `SpecArray.tp`, `SpecArray.fp` -/

/-- which kernel on which arguments: `tps` when `smooth`, else `tp`, at `ipeak = _peak(dset)`, on `(ipeak, dset, freq)` -/
theorem genxrp_peak_wave_period_eq (f S : Vec) (sm : Bool) :
    Gen.xrpPeakWavePeriod f S sm = if sm then Gen.tps (peakIdx S) S f else Gen.npTp (peakIdx S) S f := by
  simp only [Gen.xrpPeakWavePeriod, genxrp_peak_eq]

/-- the model's peak frequency: smooth (parabolic fit) or discrete -/
def fpModel (sm : Bool) (f S : Vec) : Option ℚ := if sm then fpSmooth f S else fpDiscrete f S

/-- **peak period** = reciprocal of the model's smooth / discrete peak frequency; NaN when there is no peak -/
theorem genxrp_peak_wave_period_model (f S : Vec) (sm : Bool) :
    Gen.xrpPeakWavePeriod f S sm = (fpModel sm f S).map fun x => 1 / x := by
  rw [genxrp_peak_wave_period_eq]
  cases sm
  · simp only [Bool.false_eq_true, if_false, (gen_npTp_eq _ _ _).2, atPeak, fpModel, fpDiscrete]
    split <;> rfl
  · simp only [if_true, gen_tps_eq, fpModel, fpSmooth]
    split <;> rfl

theorem genxrp_peak_wave_period_nan (f S : Vec) (sm : Bool) :
    Gen.xrpPeakWavePeriod f S sm = none ↔ peakIdx S = 0 := by
  rw [genxrp_peak_wave_period_model]
  cases sm <;> simp [fpModel, fpSmooth, fpDiscrete]

theorem genxrp_peak_wave_period_pins :
    Gen.xrpPeakWavePeriod_smooth_default = true ∧
    Gen.xrpPeakWavePeriod_casts = ["ipeak.astype('int64')", "dset.astype('float64')", "dset[attrs.FREQNAME].astype('float32')"] ∧
    Gen.xrpPeakWavePeriod_ufunc = "input_core_dims=[[], [attrs.FREQNAME], [attrs.FREQNAME]], vectorize=True, dask='parallelized', output_dtypes=['float32']" ∧
    Gen.xrpPeakWavePeriod_plumbing = ["if isinstance(dset, xr.Dataset): dset = dset[attrs.SPECNAME]", "dset = dset.chunk({attrs.FREQNAME: -1})",
      "darr.name = 'tp'", "darr.attrs = {'standard_name': attrs.ATTRS.tp.standard_name, 'units': attrs.ATTRS.tp.units}"] := by
  decide +kernel

/-- `SpecArray.tp(smooth)` = the wrapper on `self.oned()` -/
theorem genxrp_tp_eq (f d : Vec) (E : Mat) (dfv : Vec) (ddv : ℚ) (sm : Bool) :
    Gen.xrTp f d E dfv ddv sm = (fpModel sm f (oned ddv E)).map fun x => 1 / x := by
  simp only [Gen.xrTp, C01.genxr_oned_eq, genxrp_peak_wave_period_model]

/-- `1 / (1 / x)` with numpy's division: NaN/inf where the fitted frequency is 0 -/
def nz (x : ℚ) : Option ℚ := if x = 0 then none else some x

theorem divOpt_one_one_div (x : ℚ) : divOpt 1 (1 / x) = nz x := by
  unfold divOpt nz
  by_cases h : x = 0 <;> simp [h]

/-- `SpecArray.fp(smooth)` = the model's peak frequency (`1 / tp`) -/
theorem genxrp_fp_eq (f d : Vec) (E : Mat) (dfv : Vec) (ddv : ℚ) (sm : Bool) :
    Gen.xrFp f d E dfv ddv sm = (fpModel sm f (oned ddv E)).bind nz := by
  simp only [Gen.xrFp, genxrp_tp_eq]
  cases fpModel sm f (oned ddv E) with
  | none => rfl
  | some x => exact divOpt_one_one_div x

theorem genxrp_tp_fp_defaults : Gen.xrTp_smooth_default = true ∧ Gen.xrFp_smooth_default = true := by decide +kernel

/-! ### `dp`, `dpm`, `dpspr` -/

/-- **`dp`** = the direction coordinate at the first maximum of the frequency-summed spectrum -/
theorem genxrp_dp_eq (f d : Vec) (E : Mat) (dfv : Vec) (ddv : ℚ) :
    Gen.xrDp f d E dfv ddv = getR d (dpIdx d.length E) := by
  simp only [Gen.xrDp, Gen.xrpPeakWaveDirection, gen_dp_eq, dpIdx]

theorem genxrp_dp_pins :
    Gen.xrpPeakWaveDirection_casts = ["ipeak.astype('int64')", "dset[attrs.DIRNAME].astype('float32')"] ∧
    Gen.xrpPeakWaveDirection_ufunc = "input_core_dims=[[], [attrs.DIRNAME]], vectorize=True, dask='parallelized', output_dtypes=['float32']" ∧
    Gen.xrpPeakWaveDirection_plumbing = ["if isinstance(dset, xr.Dataset): dset = dset[attrs.SPECNAME]",
      "if attrs.DIRNAME not in dset.dims: raise ValueError('Cannot calculate dp from frequency spectra.')",
      "if attrs.FREQNAME in dset.dims:", "dset = dset.chunk({attrs.DIRNAME: -1})", "darr.name = 'dp'",
      "darr.attrs = {'standard_name': attrs.ATTRS.dp.standard_name, 'units': attrs.ATTRS.dp.units}"] := by
  decide +kernel

/-- **`dpm`**: the arguments of `arctan2` are the model's first-moment pair at the detected peak row (`none` = NaN) -/
theorem genxrp_dpm_vec_eq (f d : Vec) (E : Mat) (dfv : Vec) (ddv : ℚ) (c s : Vec) :
    Gen.xrDpmVec f d E dfv ddv c s = dpmVec ddv s c E := by
  simp only [Gen.xrDpmVec, Gen.xrpDpmVec, C01.genxr_momd1_eq, C01.genxr_oned_eq, genxrp_peak_eq, gen_dpm_model_eq]

/-- … and the direction is the model's conversion of the oracle angle -/
theorem genxrp_dpm_eq (pi : ℚ) (atan2 : ℚ → ℚ → ℚ) (f d : Vec) (E : Mat) (dfv : Vec) (ddv : ℚ) (c s : Vec) :
    Gen.xrDpm pi atan2 f d E dfv ddv c s = (dpmVec ddv s c E).map fun v => Stats.dirOfAtan pi (atan2 v.1 v.2) := by
  simp only [Gen.xrDpm, genxrp_dpm_vec_eq, gen_dpm_post_eq]

theorem genxrp_dpm_pins :
    Gen.xrpDpmVec_casts = ["ipeak.astype('int64')", "msin.astype('float64')", "mcos.astype('float64')"] ∧
    Gen.xrpDpmVec_ufunc = "input_core_dims=[[], [attrs.FREQNAME], [attrs.FREQNAME]], vectorize=True, dask='parallelized', output_dtypes=['float32']" ∧
    Gen.xrpDpmVec_plumbing = ["if isinstance(dset, xr.Dataset): dset = dset[attrs.SPECNAME]",
      "if attrs.DIRNAME not in dset.dims: raise ValueError('Cannot calculate dp from frequency spectra.')",
      "dset = dset.chunk({attrs.FREQNAME: -1})", "darr.name = 'dpm'",
      "darr.attrs = {'standard_name': attrs.ATTRS.dpm.standard_name, 'units': attrs.ATTRS.dpm.units}"] := by
  decide +kernel

/-- **`dpspr`** = the frequency-dependent spread `fdspr(mom)` (an oracle function of `mom`: its element-wise roots are not translated,
    the call is pinned) at the detected peak row, NaN when there is none.  As coded, `SpecArray.dpspr(mom)` does NOT forward `mom`: the
    wrapper's default (`1`, pinned below) is used — the right-hand side does not depend on `mom`. -/
theorem genxrp_dpspr_eq (f d : Vec) (E : Mat) (dfv : Vec) (ddv : ℚ) (mom : Nat) (fd : Nat → Vec) :
    Gen.xrDpspr f d E dfv ddv mom fd = atPeak (peakIdx (oned ddv E)) (getR (fd 1) (peakIdx (oned ddv E))) := by
  simp only [Gen.xrDpspr, Gen.xrpPeakDirectionalSpread, C01.genxr_oned_eq, genxrp_peak_eq, gen_dpspr_eq,
    Gen.xrpPeakDirectionalSpread_mom_default]

/-- the wrapper itself uses the `mom` it is given -/
theorem genxrp_peak_directional_spread_eq (f d : Vec) (E : Mat) (dfv : Vec) (ddv : ℚ) (mom : Nat) (fd : Nat → Vec) :
    Gen.xrpPeakDirectionalSpread f d E dfv ddv mom fd = atPeak (peakIdx (oned ddv E)) (getR (fd mom) (peakIdx (oned ddv E))) := by
  simp only [Gen.xrpPeakDirectionalSpread, C01.genxr_oned_eq, genxrp_peak_eq, gen_dpspr_eq]

theorem genxrp_dpspr_pins :
    Gen.xrDpspr_mom_default = 1 ∧ Gen.xrpPeakDirectionalSpread_mom_default = 1 ∧
    Gen.xrpPeakDirectionalSpread_fdspr_src = "dset.spec.fdspr(mom=mom)" ∧
    Gen.xrpPeakDirectionalSpread_casts = ["ipeak.astype('int64')", "fdspr.astype('float64')"] ∧
    Gen.xrpPeakDirectionalSpread_ufunc = "input_core_dims=[[], [attrs.FREQNAME]], vectorize=True, dask='parallelized', output_dtypes=['float32']" ∧
    Gen.xrpPeakDirectionalSpread_plumbing = ["if isinstance(dset, xr.Dataset): dset = dset[attrs.SPECNAME]",
      "if attrs.DIRNAME not in dset.dims: raise ValueError('Cannot calculate dpspr from frequency spectra.')",
      "dset = dset.chunk({attrs.FREQNAME: -1})", "darr.name = 'dpspr'",
      "darr.attrs = {'standard_name': attrs.ATTRS.dpspr.standard_name, 'units': attrs.ATTRS.dpspr.units}"] := by
  decide +kernel

/-- **the ingredients of `fdspr`** (`a = msin·df`, `b = mcos·df`, `e = oned·df`, regenerated; the closing formula with its element-wise
    roots is pinned as text) taken at the detected peak row are the model's `Peak.dpsprABE` -/
theorem genxrp_fdspr_abe_eq (f d : Vec) (E : Mat) (ddv : ℚ) (c s : Vec) :
    dpsprABE ddv s c f E =
      (let abe := Gen.xrFdsprABE f d E (df f) ddv 1 c s
       let p := Gen.xrPeak (Gen.xrOned f d E (df f) ddv)
       atPeak p (getR abe.1 p, getR abe.2.1 p, getR abe.2.2 p)) := by
  simp only [Gen.xrFdsprABE, C01.genxr_momd1_eq, C01.genxr_oned_eq, genxrp_peak_eq, getR_zipWith_mul, dpsprABE, atPeak]

/-- … for every `mom`: the `mom`-th powers of the tables, weighted by `df` -/
theorem genxrp_fdspr_abe_mom (f d : Vec) (E : Mat) (ddv : ℚ) (k : Nat) (c s : Vec) :
    Gen.xrFdsprABE f d E (df f) ddv k c s =
      (mulV (momdRow ddv (s.map (· ^ k)) E) (df f), mulV (momdRow ddv (c.map (· ^ k)) E) (df f), mulV (oned ddv E) (df f)) := by
  simp only [Gen.xrFdsprABE, C01.genxr_momd_eq, C01.genxr_oned_eq, mulV]

theorem genxrp_fdspr_pins :
    Gen.xrFdsprABE_mom_default = 1 ∧
    Gen.xrFdspr_formula = ["fdspr = (2 * R2D ** 2 * (1 - (a ** 2 + b ** 2) ** 0.5 / e)) ** 0.5", "return fdspr.rename(f'fdspr{mom:0.0f}')"] ∧
    Gen.xrFdsprABE_guards = [("self.dir is None", "raise ValueError('Cannot calculate dpspr from 1d, frequency spectra.')")] := by
  decide +kernel

/-! ### `alpha` -/

/-- `xrstats.alpha`: `npstats.alpha(dset, freq, fp)` with `fp = 1 / peak_wave_period(dset, smooth)` (NaN in → NaN out) -/
theorem genxrp_alpha_eq (pi g : ℚ) (f S : Vec) (sm : Bool) (ex : Vec) :
    Gen.xrpAlpha pi g f S sm ex = ((fpModel sm f S).bind nz).map fun fp => Gen.npAlpha pi g S f fp ex := by
  simp only [Gen.xrpAlpha, genxrp_peak_wave_period_model]
  cases fpModel sm f S with
  | none => rfl
  | some x => simp only [Option.map_some, Option.bind_some, one_div, ← divOpt_one_one_div]

/-- **`alpha`** = the model's tail fit at the model's peak frequency (the `np.exp` table taken at the fit positions) -/
theorem genxrp_alpha_model (pi g fp : ℚ) (f S ex : Vec) (sm : Bool) (h : (fpModel sm f S).bind nz = some fp) :
    Gen.xrpAlpha pi g f S sm ((alphaPos Consts.alphaLo Consts.alphaHi fp f).map fun i => getR ex i) =
      some (alphaVal ((2 * pi) ^ 4 / g ^ 2) (alphaPos Consts.alphaLo Consts.alphaHi fp f) f S ex) := by
  rw [genxrp_alpha_eq, h, Option.map_some, gen_alpha_val_eq]

theorem genxrp_alpha_nan (pi g : ℚ) (f S ex : Vec) (sm : Bool) (h : peakIdx S = 0) : Gen.xrpAlpha pi g f S sm ex = none := by
  rw [genxrp_alpha_eq]
  cases sm <;> simp [fpModel, fpSmooth, fpDiscrete, h]

/-- `SpecArray.alpha(smooth)` = the wrapper on `self.oned()` -/
theorem genxrp_alpha_method_eq (pi g : ℚ) (f d : Vec) (E : Mat) (dfv : Vec) (ddv : ℚ) (sm : Bool) (ex : Vec) :
    Gen.xrAlpha pi g f d E dfv ddv sm ex = Gen.xrpAlpha pi g f (oned ddv E) sm ex := by
  simp only [Gen.xrAlpha, C01.genxr_oned_eq]

theorem genxrp_alpha_pins :
    Gen.xrAlpha_smooth_default = true ∧ Gen.xrpAlpha_smooth_default = true ∧
    Gen.xrpAlpha_casts = ["dset.astype('float64')", "dset[attrs.FREQNAME].astype('float32')", "fp.astype('float32')"] ∧
    Gen.xrpAlpha_ufunc = "input_core_dims=[[attrs.FREQNAME], [attrs.FREQNAME], []], vectorize=True, dask='parallelized', output_dtypes=['float32']" ∧
    Gen.xrpAlpha_plumbing = ["if isinstance(dset, xr.Dataset): dset = dset[attrs.SPECNAME]", "dset = dset.chunk({attrs.FREQNAME: -1})",
      "darr.name = 'alpha'", "darr.attrs = {'standard_name': attrs.ATTRS.alpha.standard_name, 'units': attrs.ATTRS.alpha.units}"] := by
  decide +kernel

/-! ### `gamma` -/

/-- the polynomial of `gamma` written out, lowest order first (`p[::-1]`) -/
theorem genxrp_gamma_poly (x : ℚ) : polyEval Consts.gammaPoly x =
    0 + ((4674721281115827 : Rat) / 36028797018963968) * x ^ 0 + ((5859173927865775 : Rat) / 18014398509481984) * x ^ 1
      + ((1443119188183783 : Rat) / 2251799813685248) * x ^ 2 + ((-2439742592182793 : Rat) / 18014398509481984) * x ^ 3
      + ((5452958428820197 : Rat) / 144115188075855872) * x ^ 4 := by
  simp [polyEval, Consts.gammaPoly, List.zipIdx]
  ring

/-- **`gamma`** = the twin `XrP.gammaXr` on the model's ingredients: `max E(f) / (0.3125·hs²·fp⁴·fp⁻⁵·0.2865048)` at the model's peak
    frequency, the polynomial `Consts.gammaPoly` when `scaled`, floored at 1 (NaN → 1).  As coded the numerator is the GLOBAL maximum of
    `E(f)` (`C02.gamma_full_fails`). -/
theorem genxrp_gamma_eq (sqrt : ℚ → ℚ) (f d : Vec) (E : Mat) (ddv : ℚ) (sm sc : Bool) :
    Gen.xrGamma sqrt f d E (df f) ddv sm sc =
      XrP.gammaXr Consts.gammaA Consts.gammaB (4 * sqrt (hsE Consts.thr Consts.quarter true f (oned ddv E)))
        (XrP.maxV (oned ddv E)) ((fpModel sm f (oned ddv E)).bind nz) sc Consts.gammaPoly := by
  simp only [Gen.xrGamma, genxrp_fp_eq, C01.genxr_hs_full, C01.genxr_oned_eq, Gen.xrHs_tail_default]
  generalize (fpModel sm f (oned ddv E)).bind nz = fp
  generalize 4 * sqrt (hsE Consts.thr Consts.quarter true f (oned ddv E)) = hs
  generalize XrP.maxV (oned ddv E) = mx
  unfold XrP.gammaXr
  cases fp with
  | none => cases sc <;> rfl
  | some p =>
    simp only [Option.map_some, Option.bind_some]
    cases h5 : divOpt 1 (p ^ 5) with
    | none => cases sc <;> rfl
    | some r =>
      simp only [Option.map_some, Option.bind_some, Consts.gammaA, Consts.gammaB]
      cases hg : divOpt mx (5 / 16 * hs ^ 2 * p ^ 4 * r * (2580605821039717 / 9007199254740992)) with
      | none => cases sc <;> rfl
      | some g =>
        cases sc
        · simp
        · simp only [if_true, Option.map_some, Option.bind_some, genxrp_gamma_poly]
          simp

theorem genxrp_gamma_defaults : Gen.xrGamma_smooth_default = true ∧ Gen.xrGamma_scaled_default = true := by decide +kernel

/-- the unscaled gamma of the twin is the model's `gammaRaw` (floored at 1, NaN → 1) for a non-negative spectrum and an oracle root
    that squares back on the radicand of `hs` -/
theorem genxrp_gamma_raw_model (sqrt : ℚ → ℚ) (a b H p : ℚ) (S cs : Vec) (h : sqrt H ^ 2 = H) (h0 : ∀ x ∈ S, 0 ≤ x) :
    XrP.gammaXr a b (4 * sqrt H) (XrP.maxV S) (some p) false cs =
      match gammaRaw a b H p S with
      | some x => if 1 ≤ x then some x else some 1
      | none => some 1 := by
  have e : (4 * sqrt H) ^ 2 = 16 * H := by rw [mul_pow, h]; norm_num
  unfold XrP.gammaXr gammaRaw
  simp only [Option.bind_some, Bool.false_eq_true, if_false, e, maxV_eq_maxD S h0]
  unfold divOpt
  by_cases hp : p = 0
  · simp [hp]
  · have hp5 : p ^ 5 ≠ 0 := pow_ne_zero 5 hp
    simp only [hp5, if_false, Option.bind_some, hp, false_or]
    by_cases hz : a * (16 * H) * p ^ 4 * (1 / p ^ 5) * b = 0 <;> simp only [hz, ↓reduceIte]

/-! ### `hmax` -/

/-- **`hmax = k · hs`** with `k` the model's factor: `sqrt(0.5·log(round(dt / tm02)))` when there is a time axis of more than one
    step, the constant `1.86` (`Consts.hmaxK`) otherwise -/
theorem genxrp_hmax_eq (sqrt log round : ℚ → ℚ) (f d : Vec) (E : Mat) (ddv : ℚ) (hasTime : Bool) (ntime : Nat) (dt : ℚ) :
    Gen.xrHmax sqrt log round f d E (df f) ddv hasTime ntime dt =
      (XrP.hmaxFactor sqrt log round hasTime ntime dt ((tm02Sq f (oned ddv E)).map sqrt)).map
        fun k => k * (4 * sqrt (hsE Consts.thr Consts.quarter true f (oned ddv E))) := by
  simp only [Gen.xrHmax, C01.genxr_tm02_full, C01.genxr_hs_full, XrP.hmaxFactor, Consts.hmaxK, Gen.xrHs_tail_default, gt_iff_lt]
  split
  · cases tm02Sq f (oned ddv E) with
    | none => rfl
    | some t =>
      simp only [Option.map_some, Option.bind_some]
      cases divOpt dt (sqrt t) <;> rfl
  · rfl

/-- without a time axis (or with a single step) the factor is the constant -/
theorem genxrp_hmax_notime (sqrt log round : ℚ → ℚ) (f d : Vec) (E : Mat) (ddv : ℚ) (hasTime : Bool) (ntime : Nat) (dt : ℚ)
    (h : hasTime = false ∨ ntime ≤ 1) :
    Gen.xrHmax sqrt log round f d E (df f) ddv hasTime ntime dt =
      some (Consts.hmaxK * (4 * sqrt (hsE Consts.thr Consts.quarter true f (oned ddv E)))) := by
  rw [genxrp_hmax_eq]
  unfold XrP.hmaxFactor
  rcases h with h | h
  · simp [h]
  · have : ¬ 1 < ntime := by omega
    simp [this]

theorem genxrp_hmax_pins : Gen.xrHmax_dt_src = "np.diff(self._obj.time).astype('timedelta64[s]').mean()" := by decide +kernel

/-! ### `scale_by_hs` -/

/-- **`scale_by_hs`**: the spectrum is multiplied by `(expr / hs)²` where the model's mask holds — the conjunction of the range tests
    on `hs`, `tp()` (smooth) and `dpm()`, each skipped only when BOTH its bounds are at the infinite defaults — and kept elsewhere -/
theorem genxrp_scale_by_hs_eq (pi : ℚ) (atan2 : ℚ → ℚ → ℚ) (sqrt : ℚ → ℚ) (f d : Vec) (E : Mat) (ddv : ℚ)
    (hsLo hsHi tpLo tpHi dpmLo dpmHi : XrP.Bound) (expr : ℚ) (c s : Vec) :
    Gen.xrScaleByHs pi atan2 sqrt f d E (df f) ddv hsLo hsHi tpLo tpHi dpmLo dpmHi expr c s =
      (let hs := 4 * sqrt (hsE Consts.thr Consts.quarter true f (oned ddv E))
       XrP.scaleByHsXr
        (XrP.scaleMask hsLo hsHi tpLo tpHi dpmLo dpmHi hs ((fpModel true f (oned ddv E)).map fun x => 1 / x)
          ((dpmVec ddv s c E).map fun v => Stats.dirOfAtan pi (atan2 v.1 v.2)))
        (XrP.scaleFactor expr hs) E) := by
  simp only [Gen.xrScaleByHs, C01.genxr_hs_full, genxrp_tp_eq, genxrp_dpm_eq, Gen.xrHs_tail_default, Gen.xrTp_smooth_default,
    range_step, range_step_some_true, Bool.true_and, XrP.scaleByHsXr, XrP.scaleMask, XrP.scaleFactor]
  rfl

/-- the defaults are the infinite bounds, and with them nothing is tested (every spectrum is rescaled) -/
theorem genxrp_scale_by_hs_defaults (hs : ℚ) (tp dpm : Option ℚ) :
    Gen.xrScaleByHs_hs_min_default = XrP.Bound.ninf ∧ Gen.xrScaleByHs_hs_max_default = XrP.Bound.pinf ∧
    Gen.xrScaleByHs_tp_min_default = XrP.Bound.ninf ∧ Gen.xrScaleByHs_tp_max_default = XrP.Bound.pinf ∧
    Gen.xrScaleByHs_dpm_min_default = XrP.Bound.ninf ∧ Gen.xrScaleByHs_dpm_max_default = XrP.Bound.pinf ∧
    Gen.xrScaleByHs_expr_src = "eval(expr.lower())" ∧
    XrP.scaleMask .ninf .pinf .ninf .pinf .ninf .pinf hs tp dpm = true := by
  refine ⟨rfl, rfl, rfl, rfl, rfl, rfl, by decide +kernel, by simp [XrP.scaleMask, XrP.rangeTest]⟩

/-- one finite bound is enough to activate a test (`or`, not `and`): a lower bound alone on `tp` -/
theorem genxrp_scale_by_hs_one_bound (a hs : ℚ) (tp dpm : Option ℚ) :
    XrP.scaleMask .ninf .pinf (.fin a) .pinf .ninf .pinf hs tp dpm = tp.any fun t => decide (a ≤ t) := by
  cases tp <;> simp [XrP.scaleMask, XrP.rangeTest, XrP.geB, XrP.leB]

/-- the factor is C10's `t² / (16·hsE)` for every oracle root that squares back on the radicand -/
theorem genxrp_scale_factor (sqrt : ℚ → ℚ) (t H : ℚ) (h : sqrt H ^ 2 = H) (h0 : sqrt H ≠ 0) :
    XrP.scaleFactor t (4 * sqrt H) = some (t ^ 2 / (16 * H)) := by
  unfold XrP.scaleFactor divOpt
  simp only [mul_eq_zero, h0, or_false, OfNat.ofNat_ne_zero, if_false, Option.map_some, div_pow, mul_pow, h]
  norm_num

end WS.C02

import WsVerif.Props.C14
import WsVerif.Props.C14sel
/-!
# C14: the property theorems restated on the regenerated selectors

`Props/C14sel.lean` identifies `Gen.selNearestIds`, `Gen.selIdw`, `Gen.selBboxIds` (regenerated from
`wavespectra/core/select.py` on every run) with the hand model for all inputs.  Because the bridges are equalities the
headline statements of `Props/C14.lean` (section `Fixed`) transfer verbatim to the generated text; `sqrt` is any oracle
that is an exact, non-negative square root on the radicands (`SqrtOn`).
-/
namespace WS.C14
open WS WS.Select WS.Sel WS.SelBridge

theorem missingOf_raise : missingOf "raise" = .raise := by decide

/-- **nearest_min on the regenerated `sel_nearest`** (`missing="raise"`, `unique=False`): one station per query, each
    minimising the short-way distance among all stations and within the tolerance -/
theorem gensel_use_nearest_min (sqrt : ℚ → ℚ) (dl dla ql qla : Vec) (tol : ℚ) (exact : Bool) (ids : List Nat)
    (hlen : dl.length = dla.length) (htol : 0 ≤ tol) (hsq : ∀ r ∈ radRows ldShort dl dla ql qla, SqrtOn sqrt r)
    (h : Gen.selNearestIds sqrt ql qla tol false exact dl dla "raise" = .ok ids) :
    ids.length = ql.length ∧
      ∀ j (_ : j < ids.length) (h2 : j < (radRows ldShort dl dla ql qla).length),
        IsNearestWithin tol ((radRows ldShort dl dla ql qla)[j]) ids[j] := by
  rw [gensel_sel_nearest_eq, missingOf_raise] at h
  exact Fixed.nearest_min (absSq sqrt) dl dla ql qla tol exact ids hlen htol
    (fun r hr => gensel_oracle_sqrtOn sqrt r (hsq r hr)) h

/-- **fails beyond tolerance, on the regenerated `sel_nearest`** -/
theorem gensel_use_nearest_fails_beyond_tolerance (sqrt : ℚ → ℚ) (dl dla ql qla : Vec) (tol : ℚ) (unique exact : Bool)
    (hlen : dl.length = dla.length) (htol : 0 ≤ tol) (hv : validate dl ql qla = .ok ())
    (hsq : ∀ r ∈ radRows ldShort dl dla ql qla, SqrtOn sqrt r)
    (hfar : ∃ r ∈ radRows ldShort dl dla ql qla, ∀ x ∈ r, tol ^ 2 < x) :
    Gen.selNearestIds sqrt ql qla tol unique exact dl dla "raise" = .error .assertionError := by
  rw [gensel_sel_nearest_eq, missingOf_raise]
  exact Fixed.nearest_fails_beyond_tolerance (absSq sqrt) dl dla ql qla tol unique exact hlen htol hv
    (fun r hr => gensel_oracle_sqrtOn sqrt r (hsq r hr)) hfar

theorem selBboxIdsFixed_ok {dl dla ql qla : Vec} {tol : ℚ} {ids : List Nat}
    (h : selBboxIdsFixed dl dla ql qla tol = .ok ids) : ids = selBboxIdsRawFixed dl dla ql qla tol := by
  unfold selBboxIdsFixed at h
  cases hv : validate dl ql qla with
  | error e => rw [hv] at h; cases h
  | ok u =>
    rw [hv] at h
    simp only [bind, Except.bind] at h
    split at h
    · cases h
    · cases h; rfl

/-- **bbox_exact on the regenerated `sel_bbox`**: a station index is returned iff the station lies in the query's own
    `[min, max]` box widened by the tolerance, longitudes compared modulo 360 -/
theorem gensel_use_bbox_exact (dl dla ql qla : Vec) (tol : ℚ) (ids : List Nat) (i : Nat)
    (h : Gen.selBboxIds ql qla tol dl dla = .ok ids) :
    i ∈ ids ↔ ∃ lon lat, (dl.zip dla)[i]? = some (lon, lat) ∧ InBox ql qla tol lon lat := by
  rw [gensel_bbox_eq] at h
  rw [selBboxIdsFixed_ok h]
  exact Fixed.bbox_exact dl dla ql qla tol i

/-- **idw_convex on the regenerated `sel_idw`**: every unmasked query gets a convex combination of at most `max_sites`
    stations within the tolerance: one station at distance 0 with weight 1, or ≥ 2 stations with weights ∝ 1/distance -/
theorem gensel_use_idw_convex (sqrt : ℚ → ℚ) (dl dla ql qla : Vec) (tol : ℚ) (ms : Option Int)
    (rows : List (Option LC)) (hsq : ∀ r ∈ radRows ldShort dl dla ql qla, SqrtOn sqrt r)
    (h : Gen.selIdw sqrt ql qla tol ms dl dla = .ok rows) :
    rows.length = ql.length ∧
    ∀ (j : Nat) (hj : j < (radRows ldShort dl dla ql qla).length) (ws : List (Nat × ℚ)), rows[j]? = some (some ws) →
      let d := ((radRows ldShort dl dla ql qla)[j]).map sqrt
      (∀ p ∈ ws, 0 < p.2) ∧ (ws.map (·.2)).sum = 1 ∧ (∀ p ∈ ws, p.1 < d.length ∧ d.getD p.1 0 ≤ tol) ∧
      (∀ m : Nat, ms = some (m : Int) → ws.length ≤ m) ∧
      ((∃ i, ws = [(i, 1)] ∧ d.getD i 0 = 0) ∨
       (2 ≤ ws.length ∧ ∀ p ∈ ws, 0 < d.getD p.1 0 ∧ p.2 = (1 / d.getD p.1 0) / ((ws.map fun q => 1 / d.getD q.1 0).sum))) := by
  rw [gensel_sel_idw_eq] at h
  have hsq' : ∀ r ∈ radRows ldShort dl dla ql qla, SqrtOn (absSq sqrt) r :=
    fun r hr => gensel_oracle_sqrtOn sqrt r (hsq r hr)
  obtain ⟨hrows, hlen, hnn⟩ := selIdw_rows (absSq sqrt) ldShort dl dla ql qla tol ms rows hsq' h
  refine ⟨hlen, ?_⟩
  intro j hj ws hws
  have hmem : (radRows ldShort dl dla ql qla)[j] ∈ radRows ldShort dl dla ql qla := List.getElem_mem hj
  have hsame : ((radRows ldShort dl dla ql qla)[j]).map (absSq sqrt) = ((radRows ldShort dl dla ql qla)[j]).map sqrt := by
    apply List.map_congr_left
    intro x hx
    exact absR_of_nonneg (hsq _ hmem x hx).1
  have hrow : idwRow (((radRows ldShort dl dla ql qla)[j]).map sqrt) tol ms = some ws := by
    rw [hrows, List.getElem?_map, List.getElem?_eq_getElem hj] at hws
    simp only [Option.map_some, Option.some.injEq] at hws
    rw [← hsame]; exact hws
  have hd : ∀ x ∈ ((radRows ldShort dl dla ql qla)[j]).map sqrt, 0 ≤ x := by
    rw [← hsame]; exact hnn _ hmem
  exact idw_convex _ tol ms ws hd hrow

/-- non-vacuity of the transfers: the witnesses of `Props/C14.lean` on the regenerated functions (stations 359.875°E /
    0.5°E, query 0.125°E: the nearest station is the one across Greenwich; box `[−20, −5]` on a 0–360 dataset); `sel_idw`
    succeeds whenever `Coordinates(...)` does (a worked row: `example : idwRow [4, 1] 10 (some 2) = …` in `Props/C14.lean`) -/
example : Gen.selNearestIds (fun x => if x = (1 / 4) ^ 2 then 1 / 4 else if x = (3 / 8) ^ 2 then 3 / 8 else 0)
      [1 / 8] [0] 5 false false [2879 / 8, 1 / 2] [0, 0] "raise" = .ok [0] ∧
    Gen.selBboxIds [-20, -5] [-1, 1] 0 [10, 180, 350] [0, 0, 0] = .ok [2] ∧
    ∃ rows, Gen.selIdw (fun x => if x = 1 / 4 then 1 / 2 else 0) [0] [0] 2 (some 4) [719 / 2, 1 / 2] [0, 0] = .ok rows := by
  refine ⟨by decide +kernel, by decide +kernel, ?_⟩
  rw [gensel_sel_idw_eq]
  have hv : validate [719 / 2, 1 / 2] [0] [0] = .ok () := by decide +kernel
  unfold selIdwFixed selIdw
  rw [hv]
  exact ⟨_, rfl⟩

end WS.C14

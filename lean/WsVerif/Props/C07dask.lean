import WsVerif.Model.DimSem
import WsVerif.Model.Chunk
import WsVerif.Gen.DimsAudit
import WsVerif.Props.C07
/-!
# C07 — regenerated rechunk plan of every `apply_ufunc` call

`Gen.daskAudit` is regenerated from the current source by `harness/translate_dims.py` on every run: for every
`xr.apply_ufunc` call its input core dimensions, the `.chunk({dim: value})` calls that precede it in the same function, and
the `allow_rechunk` / `dask=` arguments.  The theorems connect that table with the chunk algebra of `Props/C07.lean`.
-/
namespace WS.C07
open WS WS.Chunk WS.DimSem

/-- what the code does to the chunks of core dimension `d` before the kernel is applied over it -/
def planOf (u : DaskUse) (d : String) (c : Chunks) : Chunks := if u.covers d then rechunkAll c else rechunkNone c

/-- **every `apply_ufunc` of the library (regenerated) runs in `dask="parallelized"` mode and every one of its core
    dimensions is brought to a single chunk first** — by `chunk({d: -1})` in the function or by `allow_rechunk=True`.
    `chunk({d: None})` (the defect that was repaired), a dropped `chunk`, or a new core dimension breaks this theorem. -/
theorem gendask_all_ok : ∀ u ∈ Gen.daskAudit, u.ok = true := by decide

/-- … hence, for EVERY input chunking of every core dimension of every such call, the kernel application succeeds and
    returns the in-memory value (`rechunkAll_single` of the chunk algebra, instantiated with the regenerated plan) -/
theorem gendask_apply_succeeds {β : Type} (f : List ℚ → β) (u : DaskUse) (hu : u ∈ Gen.daskAudit) (d : String)
    (hd : d ∈ u.core) (c : Chunks) : applyCore f (planOf u d c) = .ok (f (content c)) := by
  have hok := gendask_all_ok u hu
  have hcov : u.covers d = true := by
    simp only [DaskUse.ok, Bool.and_eq_true, List.all_eq_true] at hok
    exact hok.2 d hd
  simp only [planOf, hcov, if_true]
  exact rechunkAll_single f c

/-- the result does not depend on the input chunking -/
theorem gendask_chunking_irrelevant {β : Type} (f : List ℚ → β) (u : DaskUse) (hu : u ∈ Gen.daskAudit) (d : String)
    (hd : d ∈ u.core) (c c' : Chunks) (h : content c = content c') :
    applyCore f (planOf u d c) = applyCore f (planOf u d c') := by
  rw [gendask_apply_succeeds f u hu d hd, gendask_apply_succeeds f u hu d hd, h]

/-- a call whose plan does not cover a core dimension fails on two chunks (why the table matters): the plan of the code as
    found, `chunk({freq: None})`, for the peak statistics -/
theorem gendask_uncovered_fails {β : Type} (f : List ℚ → β) (c : Chunks) (h : 1 < c.length) :
    applyCore f (planOf ⟨"peak_wave_period", "func", ["freq"], [("freq", "None")], false, "parallelized"⟩ "freq" c)
      = .error .valueError := by
  have : (DaskUse.covers ⟨"peak_wave_period", "func", ["freq"], [("freq", "None")], false, "parallelized"⟩ "freq") = false := by decide
  simp only [planOf, this]
  exact rechunkNone_fails f c h

/-- the table is not vacuous: eleven calls, the five `xrstats` wrappers rechunk explicitly, the four partition methods rely
    on `allow_rechunk` -/
theorem gendask_shape :
    Gen.daskAudit.length = 11 ∧ (Gen.daskAudit.filter (·.allowRechunk)).map (·.fn) =
      ["Partition.ptm1", "Partition.ptm2", "Partition.ptm3", "Partition.hp01"] ∧
    (Gen.daskAudit.filter fun u => !u.allowRechunk).all (fun u => !u.rechunked.isEmpty) = true := by decide

end WS.C07

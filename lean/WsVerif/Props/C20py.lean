import WsVerif.Props.C02
/-!
# C20 (Python level) — valid spectra never crash; invalid arguments are rejected

The models are total functions into `Option`/`Except`; these theorems state that on valid input they return a
value or the documented NaN, that every index they use is in range, and that the argument validation rejects
exactly the invalid arguments.
-/
namespace WS.C20py
open WS WS.Stats WS.Peak

/-- whenever a peak is reported, its two neighbours exist: `p−1`, `p+1` are valid indices -/
theorem peak_indices_valid (a : Vec) (h : peakIdx a ≠ 0) : 0 < peakIdx a ∧ peakIdx a + 1 < a.length := by
  rcases C02.peakIdx_spec a with h0 | ⟨⟨h1, h2, _, _⟩, _⟩
  · exact absurd h0 h
  · exact ⟨h1, h2⟩

/-- the peak index is always a valid index of a non-empty spectrum (also when it is the `0` sentinel) -/
theorem peakIdx_lt (a : Vec) (h : a ≠ []) : peakIdx a < a.length := by
  have hne : masked a ≠ [] := by
    intro hm; have := C02.masked_length a; rw [hm] at this; simp at this; exact h (List.length_eq_zero_iff.mp this.symm)
  have := (argmaxFirst_spec (masked a) hne).1
  rwa [C02.masked_length] at this

/-- peak statistics are total: a value when a peak exists, NaN otherwise — never an error -/
theorem peak_stats_total (f S : Vec) :
    (peakIdx S = 0 → fpSmooth f S = none ∧ fpDiscrete f S = none) ∧
    (peakIdx S ≠ 0 → (fpSmooth f S).isSome ∧ (fpDiscrete f S).isSome) := by
  unfold fpSmooth fpDiscrete
  constructor <;> intro h <;> simp [h]

/-- alpha's tail-fit positions are valid indices for every peak frequency, also with 0 or exactly 1 frequency in the
    window (the case that raised `TypeError` before fix 75ed5b2) -/
theorem alpha_total (lo hi fp : ℚ) (f : Vec) (h2 : 2 ≤ f.length) :
    (alphaPos lo hi fp f ≠ []) ∧ ∀ i ∈ alphaPos lo hi fp f, i < f.length := by
  refine ⟨?_, C02.alpha_window_indices_valid lo hi fp f h2⟩
  unfold alphaPos
  split
  · simp
  · split <;> simp
  · rename_i h0 h1
    intro h; exact h0 h

/-- integrated statistics are total: ratios are NaN exactly when their denominator vanishes -/
theorem ratio_stats_total (f S : Vec) :
    (tm01 f S = none ↔ momf 1 f S = 0) ∧ (tm02Sq f S = none ↔ momf 2 f S = 0) := by
  unfold tm01 tm02Sq divOpt
  constructor <;> split <;> simp_all

/-! ### argument validation -/

/-- `split`: `fmax <= fmin` or `dmax <= dmin` (when both are given) is a `ValueError` -/
def splitValidate (fmin fmax dmin dmax : Option Rat) : Except Err Unit :=
  match fmin, fmax with
  | some a, some b => if b ≤ a then .error .valueError else
    match dmin, dmax with
    | some c, some d => if d ≤ c then .error .valueError else .ok ()
    | _, _ => .ok ()
  | _, _ =>
    match dmin, dmax with
    | some c, some d => if d ≤ c then .error .valueError else .ok ()
    | _, _ => .ok ()

theorem split_rejects_iff (fmin fmax dmin dmax : Option Rat) :
    splitValidate fmin fmax dmin dmax = .error .valueError ↔
      (∃ a b, fmin = some a ∧ fmax = some b ∧ b ≤ a) ∨ (∃ c d, dmin = some c ∧ dmax = some d ∧ d ≤ c) := by
  unfold splitValidate
  rcases fmin with _ | a <;> rcases fmax with _ | b <;> rcases dmin with _ | c <;> rcases dmax with _ | d <;>
    simp only [] <;> (try split_ifs) <;> simp_all

/-- `smooth_spec`: even windows are a `ValueError`, odd windows are accepted -/
def smoothValidate (fw dw : Nat) : Except Err Unit :=
  if fw % 2 = 0 ∨ dw % 2 = 0 then .error .valueError else .ok ()

theorem smooth_rejects_iff (fw dw : Nat) :
    smoothValidate fw dw = .error .valueError ↔ (fw % 2 = 0 ∨ dw % 2 = 0) := by
  unfold smoothValidate; split <;> simp_all

/-- `stats`: unknown or non-callable names, a names list of the wrong length, or a non-container are `ValueError` -/
def statsValidate (known callable : String → Bool) (stats : List String) (names : Option (List String)) : Except Err Unit :=
  if (names.getD stats).length ≠ stats.length then .error .valueError
  else if stats.all (fun s => known s && callable s) then .ok () else .error .valueError

theorem stats_rejects_iff (known callable : String → Bool) (stats : List String) (names : Option (List String)) :
    statsValidate known callable stats names = .error .valueError ↔
      ((names.getD stats).length ≠ stats.length ∨ ∃ s ∈ stats, known s = false ∨ callable s = false) := by
  unfold statsValidate
  split
  · simp_all
  · split <;> simp_all [List.all_eq_true]
    rename_i h1 h2
    obtain ⟨s, hs, hk⟩ := h2
    exact ⟨s, hs, by cases hkk : known s <;> simp_all⟩

example : splitValidate (some (1/10)) (some (1/10)) none none = .error .valueError := by decide +kernel
example : smoothValidate 3 4 = .error .valueError := by decide
example : statsValidate (· == "hs") (fun _ => true) ["hs", "nope"] none = .error .valueError := by decide

end WS.C20py

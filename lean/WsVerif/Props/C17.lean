import WsVerif.Model.Frame
/-!
# C17 — no operation modifies the data it is given

The frame theorem over declared write-sets.  It is true by construction of the model (all write-sets of the
repaired code are empty); the assurance for C17 is the exploration in `harness/checks/c17.py`, which is why the
manifest claims level `other` for this property.
-/
namespace WS.C17
open WS.Frame

/-- **frame**: after any sequence of public operations (also ones that raise: a raising step is a step with the
    same write-set) every caller-owned cell is what it was -/
theorem frame (s : CState) (ops : List String) (c : Cell) : run writesNew s ops c = s c := by
  induction ops generalizing s with
  | nil => rfl
  | cons op ops ih =>
    simp only [run, List.foldl_cons] at ih ⊢
    rw [ih]
    simp [step, writesNew]

/-- the code as found violated it: the native readers bumped `values` -/
theorem frame_old_fails : ¬ ∀ (s : CState) (ops : List String) (c : Cell), run writesOld s ops c = s c := by
  intro h
  have := h (fun _ => 0) ["from_ww3"] .values
  revert this
  decide

/-- … and satisfied it for every sequence avoiding those two readers -/
theorem frame_old_partial (s : CState) (ops : List String) (c : Cell)
    (h : ∀ op ∈ ops, op ≠ "from_ww3" ∧ op ≠ "from_ncswan") : run writesOld s ops c = s c := by
  induction ops generalizing s with
  | nil => rfl
  | cons op ops ih =>
    simp only [run, List.foldl_cons] at ih ⊢
    rw [ih _ (fun o ho => h o (by simp [ho]))]
    have := h op (by simp)
    simp [step, writesOld, this.1, this.2]

example : ∀ op ∈ ["hs", "sel(idw)", "to_swan"], op ≠ "from_ww3" ∧ op ≠ "from_ncswan" := by decide

end WS.C17

import WsVerif.Model.DimSem
import WsVerif.Model.Stats
import WsVerif.Model.Batch
import WsVerif.Gen.DimsAudit
/-!
# C06 — regenerated audit of the axes every labelled-array call acts along

`Gen.dimsAudit` / `Gen.ufuncAudit` are regenerated from the current source by `harness/translate_dims.py` on every run.
-/
namespace WS.C06
open WS WS.DimSem

/-- **meaning**: a reduction along a spectral axis is computed position by position — extracting position `i` commutes
    with it, for every reducer `g`, every array and every `i` -/
theorem reduce_spectral_get (ax : Axis) (hax : ax ≠ .pos) (g : Vec → Rat) (a : List Mat) (i : Nat) :
    (reduceAx ax g a)[i]? = (a[i]?).map (reduceMat ax g) := by
  cases ax with
  | pos => exact absurd rfl hax
  | freq => simp [reduceAx]
  | dir => simp [reduceAx]

/-- … so it is the single-spectrum reduction applied to the extracted spectrum -/
theorem reduce_spectral_single (ax : Axis) (hax : ax ≠ .pos) (g : Vec → Rat) (a : List Mat) (i : Nat) (m : Mat)
    (hm : a[i]? = some m) : (reduceAx ax g a)[i]? = (reduceAx ax g [m])[0]? := by
  rw [reduce_spectral_get ax hax, hm]
  cases ax with
  | pos => exact absurd rfl hax
  | freq => simp [reduceAx]
  | dir => simp [reduceAx]

/-- changing the spectrum at position `j` does not change the reduced result at another position -/
theorem reduce_spectral_update_other (ax : Axis) (hax : ax ≠ .pos) (g : Vec → Rat) (a : List Mat) (i j : Nat) (x : Mat)
    (hij : i ≠ j) : (reduceAx ax g (a.set j x))[i]? = (reduceAx ax g a)[i]? := by
  rw [reduce_spectral_get ax hax, reduce_spectral_get ax hax, List.getElem?_set_ne (Ne.symm hij)]

/-- a reduction along any other axis is NOT independent: the sum across two positions differs from either spectrum's own -/
theorem reduce_pos_mixes :
    ∃ (g : Vec → Rat) (a : List Mat), (reduceAx .pos g a)[0]? ≠ (reduceAx .pos g [a.headD []])[0]? := by
  refine ⟨fun v => v.foldl (· + ·) 0, [[[1]], [[2]]], ?_⟩
  decide +kernel

/-- **the semantics is the one the statistics model uses**: `oned` of the model (C01) is the `dir`-reduction of `DimSem` with the
    reducer `Δθ·Σ`, so the batched direction integral is, position by position, the model's `oned` of that spectrum -/
theorem reduce_dir_is_oned (ddv : Rat) (a : List Mat) (i : Nat) :
    (reduceAx .dir (fun r => ddv * r.sum) a)[i]? = (a[i]?).map fun m => (Stats.oned ddv m).map fun x => [x] := by
  rw [reduce_spectral_get .dir (by decide)]
  cases a[i]? with
  | none => rfl
  | some m => simp [reduceMat, Stats.oned, List.map_map, Function.comp_def]

/-- … and a statistic computed from it (any function `stat` of the 1-D spectrum: `hs`, `tm01`, moments, …) over a batch is the
    batched operation of `Model/Batch.lean` (`opD1`), i.e. the map of the single-spectrum statistic -/
theorem batched_stat_of_oned {β : Type} (ddv : Rat) (stat : Vec → β) (a : List Mat) :
    (reduceAx .dir (fun r => ddv * r.sum) a).map (fun m => stat (m.map fun r => r.headD 0)) =
      Batch.opD1 (fun m => stat (Stats.oned ddv m)) a := by
  simp only [reduceAx, Batch.opD1, List.map_map]
  apply List.map_congr_left
  intro m _
  simp [reduceMat, Stats.oned, List.map_map, Function.comp_def]

/-- names: only `freq` and `dir` are spectral -/
theorem axisOf_spectral (d : String) : axisOf d ≠ .pos ↔ (d = "freq" ∨ d = "dir") := by
  unfold axisOf
  by_cases h1 : d = "freq"
  · simp [h1]
  · by_cases h2 : d = "dir"
    · simp [h2]
    · simp [h1, h2]

/-- the exceptions on this tree, by name: `hmax` reads the mean time step of the *time axis* (a duration statistic: the
    expected maximum over the record), which is not a per-spectrum quantity by definition -/
def exceptions : List (String × String) := [("SpecArray.hmax", "mean"), ("SpecArray.hmax", "np.diff")]

/-- **every axis-sensitive call of the labelled-array layer (regenerated from the source) acts along `freq` / `dir` only,
    or on a coordinate array** — except the listed `hmax` calls.  A reduction that loses its `dim=`, names another
    dimension, or is applied to the data instead of a coordinate breaks this theorem. -/
theorem gendims_spectral_only :
    ∀ u ∈ Gen.dimsAudit, u.spectralOnly = true ∨ (u.fn, u.op) ∈ exceptions := by decide

/-- the listed exceptions are exactly the entries that are not spectral-only (no stale exception) -/
theorem gendims_exceptions_exact :
    (Gen.dimsAudit.filter fun u => !u.spectralOnly).map (fun u => (u.fn, u.op)) = exceptions := by decide

/-- **every `apply_ufunc` is vectorised** (looped over every non-core position) **with core dimensions ⊆ {freq, dir}** and
    output core dimensions ⊆ {part, freq, dir}: the numpy kernels receive one spectrum at a time -/
theorem gendims_ufunc_spectral : ∀ u ∈ Gen.ufuncAudit, u.spectralOnly = true := by decide

/-- the kernels reached through `apply_ufunc`, in source order (a new or re-routed kernel shows up here) -/
theorem gendims_ufunc_kernels :
    Gen.ufuncAudit.map (fun u => (u.fn, u.kernel)) =
      [("SpecArray.fit_jonswap", "fit_jonswap_params"), ("SpecArray.fit_gaussian", "fit_gaussian_params"),
       ("peak_wave_direction", "npstats.dp"), ("mean_direction_at_peak_wave_period", "npstats.dpm"),
       ("alpha", "npstats.alpha"), ("peak_wave_period", "func"), ("peak_directional_spread", "npstats.dpspr"),
       ("Partition.ptm1", "np_ptm1"), ("Partition.ptm2", "np_ptm2"), ("Partition.ptm3", "np_ptm3"),
       ("Partition.hp01", "func")] := by decide

/-- `_spec_dims` (used as `dim=` by `rmse`) is the spectral dimensions present on the object -/
theorem gendims_spec_dims_text :
    Gen.specDimsText = "return [d for d in self._obj.dims if d in [attrs.FREQNAME, attrs.DIRNAME]]" := by decide

/-- the reductions that carry the statistics are present (the audit is not vacuous): 20 or more named-dimension
    reductions along `freq` and 8 or more along `dir` -/
theorem gendims_nonvacuous :
    20 ≤ (Gen.dimsAudit.filter fun u => u.kind == "dim" && u.dims.contains "freq").length ∧
    8 ≤ (Gen.dimsAudit.filter fun u => u.kind == "dim" && u.dims.contains "dir").length := by decide

end WS.C06

import WsVerif.Model.History
import Mathlib.Tactic.Linarith
/-!
# C18 — results reflect the object's current contents, not earlier calls

Refinement of the history machine to the stateless specification "compute from the current contents".
`stepNew` is the code after the repairs made in this task, `stepOld` the code as found; the refutations
for `stepOld` are the three defects that were repaired (F15a, F15b, F22).
-/
namespace WS.C18
open WS.History

/-- one step of the repaired semantics observes the same thing from a fresh object -/
theorem stepNew_obs_fresh (s : State) (op : Op) : (stepNew s op).2 = (stepNew (fresh s) op).2 := by
  cases op <;> rfl

/-- **observation_fresh**: after *every* history, the last operation returns what it returns on a freshly
    constructed object with the same contents -/
theorem observation_fresh (h : List Op) (op : Op) : lastObs stepNew h op = freshObs stepNew h op := by
  unfold lastObs freshObs
  exact stepNew_obs_fresh _ op

/-- the Dataset accessor always agrees with the accessor of its `efth` variable -/
theorem dataset_eq_dataarray (s : State) (n : String) :
    (stepNew s (.statDs n)).2 = (stepNew s (.statDa n)).2 := rfl

/-- a reader call returns the same thing whatever ran before it — other reader calls on datasets with other sets of
    optional variables included: its result is a function of the dataset it is given -/
theorem reader_history_irrelevant (h : List Op) (v : Nat) : lastObs stepNew h (.readObs v) = some (.reader v) := rfl

/-- number of in-place edits of each kind in a history -/
def nEdits (h : List Op) : Nat := (h.filter (· == Op.editEfth)).length
def nAssign (h : List Op) : Nat := (h.filter (· == Op.assignDir)).length
def nAssignF (h : List Op) : Nat := (h.filter (· == Op.assignFreq)).length

theorem run_versions (s : State) (h : List Op) :
    (run stepNew s h).1.efthVer = s.efthVer + nEdits h ∧ (run stepNew s h).1.dirVer = s.dirVer + nAssign h ∧
      (run stepNew s h).1.freqVer = s.freqVer + nAssignF h := by
  induction h generalizing s with
  | nil => simp [run, nEdits, nAssign, nAssignF]
  | cons op ops ih =>
    have := ih (stepNew s op).1
    simp only [run]
    cases op <;> simp_all [stepNew, nEdits, nAssign, nAssignF, List.filter_cons] <;> omega

/-- the observation depends on the history only through the contents it produced: two histories with the same
    edits give the same result for every observed operation, whatever else they contain (other accessor calls,
    partition calls on other shapes, attribute look-ups, failing calls, reader calls) -/
theorem history_irrelevant (h1 h2 : List Op) (op : Op)
    (he : nEdits h1 = nEdits h2) (ha : nAssign h1 = nAssign h2) (hf : nAssignF h1 = nAssignF h2) :
    lastObs stepNew h1 op = lastObs stepNew h2 op := by
  rw [observation_fresh, observation_fresh]
  unfold freshObs fresh
  have a := run_versions {} h1
  have b := run_versions {} h2
  simp only at a b
  rw [a.1, a.2.1, a.2.2, b.1, b.2.1, b.2.2, he, ha, hf]

/-- observations never depend on which grid shape the C routine last saw -/
theorem cshape_irrelevant (s : State) (sh : Option (Nat × Nat)) (op : Op) :
    (stepNew { s with cshape := sh } op).2 = (stepNew s op).2 := by
  cases op <;> rfl

/-! ### the code as found (before the repairs) -/

/-- full statement for a step semantics -/
def ObservationFresh (step : State → Op → State × Option Obs) : Prop :=
  ∀ (h : List Op) (op : Op), lastObs step h op = freshObs step h op

theorem new_observation_fresh : ObservationFresh stepNew := observation_fresh

/-- F15a: `ds.spec.hs(); ds['efth'] = …; ds.spec.hs()` answered for the old `efth` -/
theorem old_stale_efth_fails : ¬ ObservationFresh stepOld := by
  intro h
  have := h [.statDs "hs", .editEfth] (.statDs "hs")
  revert this
  decide

/-- F15b: `da.spec.hs(); da['dir'] = …; da.spec.hs()` used the memoised direction width -/
theorem old_stale_dd_witness :
    lastObs stepOld [.statDa "hs", .assignDir] (.statDa "hs") ≠
      freshObs stepOld [.statDa "hs", .assignDir] (.statDa "hs") := by decide

/-- F22: a look-up of an unknown attribute name changed what later calls see for that name -/
theorem old_attr_autoviv_witness :
    lastObs stepOld [.attrLookup "crsd"] (.statDa "crsd") ≠ freshObs stepOld [.attrLookup "crsd"] (.statDa "crsd") := by
  decide

/-- histories without in-place edits and attribute look-ups -/
def Quiet (h : List Op) : Prop :=
  ∀ op ∈ h, op ≠ Op.editEfth ∧ op ≠ Op.assignDir ∧ op ≠ Op.assignFreq ∧ ∀ k, op ≠ Op.attrLookup k

def OldInv (s : State) : Prop :=
  s.efthVer = 0 ∧ s.dirVer = 0 ∧ s.freqVer = 0 ∧ (s.bound = none ∨ s.bound = some 0) ∧
    (s.ddMemo = none ∨ s.ddMemo = some (0, 0)) ∧ s.inserted = []

theorem oldInv_step (s : State) (op : Op) (hi : OldInv s)
    (hq : op ≠ Op.editEfth ∧ op ≠ Op.assignDir ∧ op ≠ Op.assignFreq ∧ ∀ k, op ≠ Op.attrLookup k) :
    OldInv (stepOld s op).1 ∧ (stepOld s op).2 = (stepNew {} op).2 := by
  obtain ⟨h1, h2, h2f, h3, h4, h5⟩ := hi
  cases op with
  | statDs n =>
    rcases h3 with h3 | h3 <;> rcases h4 with h4 | h4 <;>
      simp [stepOld, stepNew, OldInv, h1, h2, h2f, h3, h4, h5]
  | statDa n =>
    rcases h4 with h4 | h4 <;> simp [stepOld, stepNew, OldInv, h1, h2, h2f, h3, h4, h5]
  | editEfth => exact absurd rfl hq.1
  | assignDir => exact absurd rfl hq.2.1
  | assignFreq => exact absurd rfl hq.2.2.1
  | partition a b => exact ⟨⟨h1, h2, h2f, h3, h4, h5⟩, rfl⟩
  | attrLookup k => exact absurd rfl (hq.2.2.2 k)
  | unknownStat => exact ⟨⟨h1, h2, h2f, h3, h4, h5⟩, rfl⟩
  | read => exact ⟨⟨h1, h2, h2f, h3, h4, h5⟩, rfl⟩
  | readObs v => exact ⟨⟨h1, h2, h2f, h3, h4, h5⟩, rfl⟩
  | foreign w => exact ⟨⟨h1, h2, h2f, h3, h4, h5⟩, rfl⟩

theorem oldInv_run (s : State) (h : List Op) (hi : OldInv s) (hq : Quiet h) : OldInv (run stepOld s h).1 := by
  induction h generalizing s with
  | nil => exact hi
  | cons op ops ih =>
    simp only [run]
    exact ih _ (oldInv_step s op hi (hq op (by simp))).1 (fun o ho => hq o (by simp [ho]))

theorem newRun_quiet (s : State) (h : List Op) (hq : Quiet h) :
    (run stepNew s h).1.efthVer = s.efthVer ∧ (run stepNew s h).1.dirVer = s.dirVer ∧
      (run stepNew s h).1.freqVer = s.freqVer := by
  induction h generalizing s with
  | nil => simp [run]
  | cons op ops ih =>
    have hop := hq op (by simp)
    have := ih (stepNew s op).1 (fun o ho => hq o (by simp [ho]))
    simp only [run]
    cases op <;> simp_all [stepNew]

/-- the code as found was already correct on histories without in-place edits or attribute look-ups -/
theorem old_observation_fresh_partial (h : List Op) (op : Op) (hq : Quiet h)
    (hop : op ≠ Op.editEfth ∧ op ≠ Op.assignDir ∧ op ≠ Op.assignFreq ∧ ∀ k, op ≠ Op.attrLookup k) :
    lastObs stepOld h op = freshObs stepOld h op := by
  unfold lastObs freshObs
  have hi := oldInv_run {} h ⟨rfl, rfl, rfl, Or.inl rfl, Or.inl rfl, rfl⟩ hq
  rw [(oldInv_step _ op hi hop).2]
  have hv := newRun_quiet {} h hq
  have hf : OldInv (fresh (run stepNew {} h).1) := by
    refine ⟨hv.1, hv.2.1, hv.2.2, Or.inl rfl, Or.inl rfl, rfl⟩
  rw [(oldInv_step _ op hf hop).2]

example : Quiet [.statDs "hs", .partition 3 4, .unknownStat, .read, .statDa "tp", .readObs 0, .foreign "to_ww3"] := by
  intro op hop
  simp at hop
  rcases hop with rfl | rfl | rfl | rfl | rfl | rfl | rfl <;> simp

example : lastObs stepNew [.statDs "hs", .editEfth, .assignDir, .partition 2 2] (.statDs "hs") = some (.stat 1 1 0 true) := by
  decide

end WS.C18

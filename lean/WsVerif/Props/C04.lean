import WsVerif.Model.Neigh
import WsVerif.Model.Flood
import WsVerif.Model.Specpart
import WsVerif.Lemmas.Neigh
import WsVerif.Lemmas.Flood
/-!
# C04 — watershed gives one connected basin per spectral peak on the circular grid

Property theorems only (helpers: `Lemmas/Neigh.lean`, `Lemmas/Flood.lean`).  Everything here holds for **all**
grid sizes `mk, mth ≥ 1`, all level counts, all graphs and all traces.

**Proved for all inputs**
* neighbour table of `ptnghb` (`Model/Neigh.lean`, a line-by-line transliteration): `neigh_spec` (row of `i+mk·j`
  = in slot order, the cylinder 8-neighbourhood filtered by the frequency bounds, direction `j∓1 mod mth`),
  `neigh_lt`, `neigh_count_le_8`, `neigh_symm`, `neigh_is_cylinder_8adjacency`, `neigh_shift` (as lists);
* level discretisation `levelOf`: `levels_range`, `levels_zmax`, `levels_zmin`, `levels_antitone`;
* counting sort specification: `ptsort_perm`, `ptsort_sorted` (about `ptsortSpec`; the executable `ptsort`
  is compared with it on every explored input);
* abstract flooding machine (`Model/Flood.lean`, any finite graph, any level map): `flood_sound` /
  `flood_sound_full` — for every trace, `Valid` + `Complete` imply (a) every vertex carries exactly one label
  `basin k`, `1 ≤ k ≤ K`; (b) every label `1..K` is in use and each basin contains its seed (`Post.allUsed`);
  every seed sits on a regional minimum of the level map whose whole plateau lies in its basin
  (`seeds_are_regional_minima`), every regional minimum holds a seed (`regional_minimum_has_seed`) and different
  basins hold different minima (`seeds_on_distinct_minima`) — one basin per regional maximum of the discretised
  spectrum, each containing exactly one; (c) every basin is connected (`basin_connected`).  Proof by the
  invariants of `Lemmas/Flood.lean`, each preserved by every guarded step (`step_inv`, `step_inv2`, `step_inv3`):
  (I1) final basin pixels are linked to their seed through final pixels of the same basin, (I2) pixels below the
  current level are final and labelled, (I3) seeds occur on whole plateaus whose outside neighbours are strictly
  higher, once per plateau, (I4) labels in use are `1..K`, (I5) labels of final pixels never change.
  `cylinder_wf`: the `ptnghb` table is a symmetric closed graph for every grid size, so the theorems apply to it.
* `five_sweeps_complete_fails`: a concrete 8×4 spectrum on which the transliterated `pt_fld` emits a valid trace
  but is **not** `Complete` after its five sweeps (kernel evaluation of the model) — the witness of F04-thick-wshed.

**Proved elsewhere for all inputs**: the concrete transliteration of `pt_fld` (`Model/Specpart.lean`, tied to the real C by
exact equality of label maps) always emits a `Valid` trace whose final abstract labels are the concrete label map
(`Props/C20fld.lean`: `partition_trace_valid`, `partition_abstract_final`); `Props/C04sound.lean` composes this with
`flood_sound_full` into `partition_sound`, a statement about the returned label array.

**Checked per input, not proved** (exploration; `harness/checks/c04.py`)
* that the five clean-up sweeps leave no watershed pixel (`Complete`).  This is **false** of the code in general:
  finding F04-thick-wshed (a 16×4 corridor spectrum keeps 36 bins at label 0); `Complete` therefore stays a
  hypothesis of `flood_sound`;
* bin-for-bin shift equivariance of the label maps on watershed-line pixels.
-/
namespace WS.C04
open WS.Neigh WS.NeighL WS.Flood WS.FloodL WS.SP

/-! ## neighbour table -/

/-- The row of pixel `i + mk·j` computed by `ptnghb` is, in slot order, left, right, down (wrapping), up (wrapping),
    down-left, down-right, up-left, up-right — the frequency neighbours kept only inside `0 ≤ i±1 < mk`, the
    direction neighbours taken modulo `mth` (`dn_eq_mod`, `up_eq_mod`). -/
theorem neigh_spec (mk mth i j : Nat) (hi : i < mk) (hj : j < mth) :
    neighLin mk mth (i + mk * j) = (neighIJ mk mth i j).map (lin mk) :=
  NeighL.neigh_spec mk mth i j hi hj

/-- the wrapped direction indices are `j∓1 mod mth` -/
theorem neigh_wrap_mod (mth j : Nat) (hj : j < mth) :
    dn mth j = (j + mth - 1) % mth ∧ up mth j = (j + 1) % mth :=
  ⟨dn_eq_mod hj, up_eq_mod hj⟩

theorem neigh_row_eq {mk mth n : Nat} (hn : n < mk * mth) :
    neighLin mk mth n = (neighIJ mk mth (n % mk) (n / mk)).map (lin mk) := by
  obtain ⟨hi, hj, e⟩ := decomp hn
  have := NeighL.neigh_spec mk mth (n % mk) (n / mk) hi hj
  rw [← e] at this; exact this

/-- every entry of the table is a valid pixel index -/
theorem neigh_lt (mk mth n : Nat) (hn : n < mk * mth) : ∀ x ∈ neighLin mk mth n, x < mk * mth := by
  obtain ⟨hi, hj, _⟩ := decomp hn
  rw [neigh_row_eq hn]
  intro x hx
  obtain ⟨p, hp, rfl⟩ := List.mem_map.mp hx
  have := neighIJ_bounds hi hj hp
  exact lin_lt this.1 this.2

/-- at most 8 neighbours, so slot 8 of the 9-int row is free for the count -/
theorem neigh_count_le_8 (mk mth n : Nat) (hn : n < mk * mth) : (neighLin mk mth n).length ≤ 8 := by
  rw [neigh_row_eq hn, List.length_map]; exact neighIJ_length_le _ _ _ _

/-- the table is the 8-adjacency of the cylinder: frequency bounded, direction circular -/
theorem neigh_is_cylinder_8adjacency (mk mth i j a b : Nat) (hi : i < mk) :
    (a, b) ∈ neighIJ mk mth i j ↔
      a < mk ∧ (((a + 1 = i ∨ a = i + 1) ∧ b = j) ∨
                ((a = i ∨ a + 1 = i ∨ a = i + 1) ∧ (b = dn mth j ∨ b = up mth j))) :=
  mem_neighIJ mk mth i j a b hi

/-- the adjacency is symmetric -/
theorem neigh_symm (mk mth n m : Nat) (hn : n < mk * mth) (hm : m ∈ neighLin mk mth n) : n ∈ neighLin mk mth m := by
  obtain ⟨hi, hj, e⟩ := decomp hn
  rw [neigh_row_eq hn] at hm
  obtain ⟨⟨a, b⟩, hp, rfl⟩ := List.mem_map.mp hm
  have hb := neighIJ_bounds hi hj hp
  have hs := neighIJ_symm hi hj hp
  show n ∈ neighLin mk mth (a + mk * b)
  rw [NeighL.neigh_spec mk mth a b hb.1 hb.2]
  exact List.mem_map.mpr ⟨(n % mk, n / mk), hs, e.symm⟩

/-- shifting a pixel by `s` direction bins shifts its whole row, slot by slot (in (i,j) coordinates) -/
theorem neigh_shift_ij (mk mth i j s : Nat) (hj : j < mth) :
    neighIJ mk mth i (rot mth s j) = (neighIJ mk mth i j).map fun p => (p.1, rot mth s p.2) :=
  neighIJ_shift hj s

/-- the direction shift by `s` bins on linear indices -/
def shiftLin (mk mth s x : Nat) : Nat := x % mk + mk * rot mth s (x / mk)

/-- `neigh_shift`: the table row of the shifted pixel is the shifted row **as lists**, so the relative slot order
    (which decides ties in step 2 of `pt_fld`) is shift-invariant; `rot mth s j = (j+s) % mth` -/
theorem neigh_shift (mk mth i j s : Nat) (hi : i < mk) (hj : j < mth) :
    neighLin mk mth (shiftLin mk mth s (i + mk * j)) = (neighLin mk mth (i + mk * j)).map (shiftLin mk mth s) := by
  have e0 : shiftLin mk mth s (i + mk * j) = i + mk * rot mth s j := by
    unfold shiftLin; rw [lin_mod mk i j hi, lin_div mk i j hi]
  rw [e0, NeighL.neigh_spec mk mth i _ hi (rot_lt hj s), NeighL.neigh_spec mk mth i j hi hj, neighIJ_shift hj s,
    List.map_map, List.map_map]
  apply List.map_congr_left
  intro p hp
  have hb := neighIJ_bounds hi hj hp
  show p.1 + mk * rot mth s p.2 = shiftLin mk mth s (p.1 + mk * p.2)
  unfold shiftLin; rw [lin_mod mk p.1 p.2 hb.1, lin_div mk p.1 p.2 hb.1]

theorem rot_is_mod (mth j s : Nat) (hj : j < mth) : rot mth s j = (j + s) % mth := rot_eq_mod hj s

example : neighLin 3 4 0 = [1, 9, 3, 10, 4] := by decide
example : neighLin 1 1 0 = [0, 0] := by decide

/-! ## level discretisation -/

/-- every level is `≤ ihmax-1` (so `< ihmax` for `ihmax ≥ 1`) -/
theorem levels_range (ihmax : Nat) (zmin zmax z : Int) : levelOf ihmax zmin zmax z ≤ ihmax - 1 := by
  unfold levelOf; exact Nat.min_le_right _ _

/-- the maximum of the spectrum is discretised to level 0 -/
theorem levels_zmax (ihmax : Nat) (zmin zmax : Int) (h : zmin < zmax) : levelOf ihmax zmin zmax zmax = 0 := by
  unfold levelOf roundHalfAway
  have hd : 0 < zmax - zmin := by omega
  have : (2 * ((zmax - zmax) * ((ihmax : Int) - 1)) + (zmax - zmin)) / (2 * (zmax - zmin)) = 0 := by
    rw [Int.sub_self, Int.zero_mul, Int.mul_zero, Int.zero_add]
    exact Int.ediv_eq_zero_of_lt (by omega) (by omega)
  rw [this]; simp

/-- the minimum of the spectrum is discretised to the last level `ihmax-1` -/
theorem levels_zmin (ihmax : Nat) (zmin zmax : Int) (h : zmin < zmax) (hi : 1 ≤ ihmax) :
    levelOf ihmax zmin zmax zmin = ihmax - 1 := by
  unfold levelOf roundHalfAway
  have hd : 0 < zmax - zmin := by omega
  generalize hD : zmax - zmin = d at *
  have e : (2 * (d * ((ihmax : Int) - 1)) + d) / (2 * d) = (ihmax : Int) - 1 := by
    have : 2 * (d * ((ihmax : Int) - 1)) + d = d + (2 * d) * ((ihmax : Int) - 1) := by
      rw [Int.mul_assoc, Int.add_comm]
    rw [this, Int.add_mul_ediv_left _ _ (by omega), Int.ediv_eq_zero_of_lt (by omega) (by omega)]
    omega
  rw [e]
  omega

/-- larger spectral values get lower (or equal) levels -/
theorem levels_antitone (ihmax : Nat) (zmin zmax z z' : Int) (h : zmin < zmax) (hi : 1 ≤ ihmax) (hz : z ≤ z') :
    levelOf ihmax zmin zmax z' ≤ levelOf ihmax zmin zmax z := by
  unfold levelOf roundHalfAway
  have hd : 0 < 2 * (zmax - zmin) := by omega
  have hm : (zmax - z') * ((ihmax : Int) - 1) ≤ (zmax - z) * ((ihmax : Int) - 1) :=
    Int.mul_le_mul_of_nonneg_right (by omega) (by omega)
  have : (2 * ((zmax - z') * ((ihmax : Int) - 1)) + (zmax - zmin)) / (2 * (zmax - zmin)) ≤
      (2 * ((zmax - z) * ((ihmax : Int) - 1)) + (zmax - zmin)) / (2 * (zmax - zmin)) :=
    Int.ediv_le_ediv hd (by omega)
  have h1 : ∀ {a b : Int}, a ≤ b → a.toNat ≤ b.toNat := by intro a b hab; omega
  have := h1 this
  omega

example : levelOf 100 0 2 1 = 50 := by decide
example : (levelOf 3 0 5 5, levelOf 3 0 5 3, levelOf 3 0 5 0) = (0, 1, 2) := by decide

/-! ## counting sort (specification of `ptsort`) -/

theorem flatMap_filter_perm (l : List Nat) (f : Nat → Nat) (m : Nat) :
    ((List.range m).flatMap fun v => l.filter fun p => f p == v).Perm (l.filter fun p => decide (f p < m)) := by
  induction m with
  | zero => simp
  | succ m ih =>
    rw [List.range_succ, List.flatMap_append]
    simp only [List.flatMap_cons, List.flatMap_nil, List.append_nil]
    have h1 : l.filter (fun p => decide (f p < m)) = (l.filter fun p => decide (f p < m + 1)).filter (fun p => decide (f p < m)) := by
      rw [List.filter_filter]; congr 1; funext p; simp; omega
    have h2 : l.filter (fun p => f p == m) = (l.filter fun p => decide (f p < m + 1)).filter (fun p => !decide (f p < m)) := by
      rw [List.filter_filter]; congr 1; funext p
      by_cases h : f p = m
      · simp [h]
      · have : (f p == m) = false := by simpa using h
        rw [this]; simp; omega
    refine (List.Perm.append_right _ ih).trans ?_
    rw [h1, h2]
    exact List.filter_append_perm _ _

/-- `ptsort` (specification): `ind` is a permutation of the pixels … -/
theorem ptsort_perm (ihmax nspec : Nat) (imi : Nat → Nat) (h : ∀ p, p < nspec → imi p < ihmax) :
    (ptsortSpec ihmax nspec imi).Perm (List.range nspec) := by
  unfold ptsortSpec
  refine (flatMap_filter_perm (List.range nspec) imi ihmax).trans ?_
  rw [List.filter_eq_self.mpr]
  intro p hp
  simpa using h p (List.mem_range.mp hp)

/-- … sorted by level, pixels of equal level in increasing index order (stable counting sort) -/
theorem ptsort_sorted (ihmax nspec : Nat) (imi : Nat → Nat) :
    (ptsortSpec ihmax nspec imi).Pairwise fun a b => imi a < imi b ∨ (imi a = imi b ∧ a < b) := by
  unfold ptsortSpec
  rw [List.pairwise_flatMap]
  constructor
  · intro v _
    have : (List.range nspec).Pairwise (· < ·) := List.pairwise_lt_range
    refine (this.filter _).imp_of_mem ?_
    intro a b ha hb hab
    right
    simp only [List.mem_filter, beq_iff_eq] at ha hb
    exact ⟨by rw [ha.2, hb.2], hab⟩
  · have : (List.range ihmax).Pairwise (· < ·) := List.pairwise_lt_range
    refine this.imp ?_
    intro v1 v2 hv x hx y hy
    simp only [List.mem_filter, beq_iff_eq] at hx hy
    left; omega
example : ptsortSpec 3 5 (fun p => [2, 0, 1, 0, 2].getD p 0) = [1, 3, 2, 0, 4] := by decide

/-! ## abstract flooding machine -/

/-- Invariants (I1), (I2), (I4), (I5) and the seed bookkeeping hold in every state reached by a valid trace
    (`Lemmas/Flood.Inv`; preserved by every guarded step: `FloodL.step_inv`). -/
theorem flood_invariants (g : Graph) (t : List Step) (s : St) (h : run g t = some s) : Inv g s := run_inv h

/-- postcondition of a complete flooding, clauses (a), (b: labels exactly `1..K`, each basin holds its seed), (c) -/
structure Post (g : Graph) (s : St) : Prop where
  /-- (a) every vertex carries exactly one label, a basin number in `1..K` (never `init/mask/wshed`) -/
  labelled : ∀ p, p < g.n → ∃ k, 1 ≤ k ∧ k ≤ s.K ∧ s.labOf p = .basin k
  /-- (b) every number `1..K` is in use: basin `k` contains its seed pixel -/
  allUsed : ∀ k, 1 ≤ k → k ≤ s.K → ∃ p, p < g.n ∧ seedOf s k = some p ∧ s.labOf p = .basin k
  /-- (c) every pixel of basin `k` is linked to the seed of `k` by a chain of adjacent basin-`k` pixels -/
  linked : ∀ p k, s.labOf p = .basin k → Linked g s k p

/-- **flood_sound (label/connectivity part)**: for every graph, every level map and every trace, if all guards
    hold (`Valid`) and the run is `Complete` (all levels processed, no watershed pixel left) then (a), (b), (c). -/
theorem flood_sound (g : Graph) (t : List Step) (s : St) (hrun : run g t = some s) (hc : Complete g s) :
    Post g s := by
  have I := run_inv hrun
  unfold Complete completeB at hc
  rw [Bool.and_eq_true, List.all_eq_true] at hc
  have hall : ∀ x, x < g.n → g.level x < s.h ∧ s.labOf x ≠ .wshed := by
    intro x hx
    have := hc.2 x (List.mem_range.mpr hx)
    simpa using this
  have hbasin : ∀ x, x < g.n → s.finOf x = true ∧ ∃ k, s.labOf x = .basin k := by
    intro x hx
    have h1 := hall x hx
    have h2 := I.done x hx h1.1
    refine ⟨h2.1, ?_⟩
    cases hl : s.labOf x with
    | init => rw [hl] at h2; cases h2.2
    | mask => rw [hl] at h2; cases h2.2
    | wshed => exact absurd hl h1.2
    | basin k => exact ⟨k, rfl⟩
  refine ⟨?_, ?_, ?_⟩
  · intro p hp
    obtain ⟨_, k, hk⟩ := hbasin p hp
    exact ⟨k, (I.range p k hk).1, (I.range p k hk).2, hk⟩
  · intro k h1 hK
    have hlt : k - 1 < s.seeds.size := by rw [I.seedsSz]; omega
    have hs : seedOf s k = some (s.seeds[k - 1]) := by
      unfold seedOf; rw [if_pos h1, Array.getElem?_eq_getElem hlt]
    have hfb := I.seedFB k _ hs
    refine ⟨_, ?_, hs, hfb.2⟩
    have := getD_lt_of_ne s.fin (s.seeds[k - 1]) false (by
      have := hfb.1; unfold St.finOf at this; rw [this]; simp)
    rw [I.szFin] at this; exact this
  · intro p k hl
    have hp : p < g.n := by
      have := getD_lt_of_ne s.lab p .init (by
        unfold St.labOf at hl; rw [hl]; intro hc; cases hc)
      rw [I.szLab] at this; exact this
    exact I.link p k ⟨(hbasin p hp).1, hl⟩

/-- `Valid` form of `flood_sound` -/
theorem flood_sound_valid (g : Graph) (t : List Step) (hv : Valid g t) :
    ∃ s, run g t = some s ∧ (Complete g s → Post g s) := by
  unfold Valid at hv
  cases h : run g t with
  | none => rw [h] at hv; cases hv
  | some s => exact ⟨s, rfl, flood_sound g t s h⟩

theorem linked_conn {g : Graph} {s : St} {k p : Nat} (h : Linked g s k p) :
    ∃ sp, seedOf s k = some sp ∧ Conn g (fun x => s.labOf x = .basin k) p sp := by
  induction h with
  | seed hs hf => exact ⟨_, hs, .refl hf.2⟩
  | step hf ha _ ih =>
    obtain ⟨sp, hs, hc⟩ := ih
    exact ⟨sp, hs, .step hf.2 ha hc⟩

/-- (c) every basin is connected: any two pixels with the same label are joined by a path of adjacent pixels
    carrying that label (adjacency symmetric, as `neigh_symm` shows for the cylinder table) -/
theorem basin_connected (g : Graph) (hsym : ∀ a b, b ∈ g.adj a → a ∈ g.adj b) (t : List Step) (s : St)
    (hrun : run g t = some s) (hc : Complete g s) (p p' k : Nat)
    (hp : s.labOf p = .basin k) (hp' : s.labOf p' = .basin k) :
    Conn g (fun x => s.labOf x = .basin k) p p' := by
  have P := flood_sound g t s hrun hc
  obtain ⟨sp, hs, c1⟩ := linked_conn (P.linked p k hp)
  obtain ⟨sp', hs', c2⟩ := linked_conn (P.linked p' k hp')
  rw [hs] at hs'; injection hs' with hs'; subst hs'
  exact c1.trans (c2.symm hsym)

/-- a tiny valid complete run (two adjacent vertices, levels 0 and 1): hypotheses are satisfiable -/
example :
    let g : Graph := { n := 2, adj := fun p => if p = 0 then [1] else [0], level := fun p => p }
    let t : List Step := [.level 0, .mark 0, .endqueue, .seed 0 1, .closed 0, .endlevel,
                          .level 1, .mark 1, .inherit 1 0, .finalize 1, .endqueue, .endlevel, .sweep]
    (match run g t with
     | some s => completeB g s && s.labOf 0 == .basin 1 && s.labOf 1 == .basin 1
     | none => false) = true := by decide


/-! ### seeds ↔ regional minima (graph symmetric and closed: `WF`, which `neigh_symm`/`neigh_lt` give for the cylinder) -/

/-- (b) every seed sits on a regional minimum of the level map (= regional maximum of the discretised spectrum),
    and the whole plateau of that minimum lies in the seed's basin -/
theorem seeds_are_regional_minima (g : Graph) (wf : WF g) (t : List Step) (s : St) (hrun : run g t = some s)
    (hc : Complete g s) (k p : Nat) (hs : seedOf s k = some p) :
    RegMin g p ∧ ∀ x, Plateau g p x → s.labOf x = .basin k := by
  have K3 := run_inv3 wf hrun
  have P := flood_sound g t s hrun hc
  refine ⟨K3.rm k p hs, ?_⟩
  intro x hx
  rcases K3.dyn k p hs x hx with ⟨a, _⟩ | ⟨a, _⟩
  · exact a
  · obtain ⟨k', _, _, hk'⟩ := P.labelled x hx.level.1
    rw [hk'] at a; cases a

/-- (b) every regional minimum of the level map holds a seed, and its whole plateau lies in that seed's basin:
    one basin per regional minimum -/
theorem regional_minimum_has_seed (g : Graph) (wf : WF g) (t : List Step) (s : St) (hrun : run g t = some s)
    (hc : Complete g s) (x0 : Nat) (hr : RegMin g x0) :
    ∃ k p, seedOf s k = some p ∧ Plateau g x0 p ∧ ∀ x, Plateau g x0 x → s.labOf x = .basin k := by
  have J := run_inv2 hrun
  have P := flood_sound g t s hrun hc
  rcases J.nl x0 hr with ⟨k, p, hs, hp⟩ | hh
  · refine ⟨k, p, hs, hp, ?_⟩
    intro x hx
    exact (seeds_are_regional_minima g wf t s hrun hc k p hs).2 x ((hp.swap wf).trans hx)
  · exfalso
    obtain ⟨k', _, _, hk'⟩ := P.labelled x0 hr.1
    rcases hh x0 (.refl ⟨hr.1, rfl⟩) with h' | h' <;> rw [hk'] at h' <;> cases h'

/-- (b) different basins hold different regional minima: the seed of `k'` is not on the plateau of the seed of `k` -/
theorem seeds_on_distinct_minima (g : Graph) (wf : WF g) (t : List Step) (s : St) (hrun : run g t = some s)
    (hc : Complete g s) (k k' p p' : Nat) (hs : seedOf s k = some p) (hs' : seedOf s k' = some p')
    (hne : k ≠ k') : ¬ Plateau g p p' := by
  intro hpl
  have h1 := (seeds_are_regional_minima g wf t s hrun hc k p hs).2 p' hpl
  have I := run_inv hrun
  have h2 := (I.seedFB k' p' hs').2
  rw [h1] at h2; injection h2 with h2; exact hne h2

/-- the full statement of Appendix C, as one proposition -/
def FloodSoundFull (g : Graph) (s : St) : Prop :=
  Post g s ∧
  (∀ k p, seedOf s k = some p → RegMin g p ∧ ∀ x, Plateau g p x → s.labOf x = .basin k) ∧
  (∀ x0, RegMin g x0 → ∃ k p, seedOf s k = some p ∧ Plateau g x0 p ∧ ∀ x, Plateau g x0 x → s.labOf x = .basin k)

/-- **flood_sound, full**: for every symmetric finite graph, every level map and every trace: `Valid` and `Complete`
    imply (a) one label `1..K` per vertex, (b) labels exactly `1..K`, one basin per regional minimum of the level map,
    each basin containing exactly one of them, (c) every basin connected. -/
theorem flood_sound_full (g : Graph) (wf : WF g) (t : List Step) (s : St) (hrun : run g t = some s)
    (hc : Complete g s) : FloodSoundFull g s :=
  ⟨flood_sound g t s hrun hc, fun k p hs => seeds_are_regional_minima g wf t s hrun hc k p hs,
   fun x0 hr => regional_minimum_has_seed g wf t s hrun hc x0 hr⟩

/-- the cylinder table is a well-formed symmetric graph, for every grid size and every level map -/
theorem cylinder_wf (mk mth : Nat) (level : Nat → Nat) :
    WF { n := mk * mth, adj := fun p => if p < mk * mth then neighLin mk mth p else [], level := level } := by
  constructor
  · intro x y hy
    simp only at hy
    split at hy
    · rename_i hx; exact neigh_lt mk mth x hx y hy
    · cases hy
  · intro x y hy
    simp only at hy ⊢
    split at hy
    · rename_i hx
      have hyn := neigh_lt mk mth x hx y hy
      rw [if_pos hyn]; exact neigh_symm mk mth x y hx hy
    · cases hy


/-! ## `Complete` is not a theorem of the code: five sweeps do not always suffice (finding F04-thick-wshed) -/

/-- levels: two peaks (8) diagonal to the head of a one-pixel corridor 7,6,…,1 inside a constant background 0 -/
def thickWshedGrid : Array Int :=
  #[8,0,8,0, 0,7,0,0, 0,6,0,0, 0,5,0,0, 0,4,0,0, 0,3,0,0, 0,2,0,0, 0,1,0,0]

/-- On this 8×4 spectrum (`ihmax = 9`) the transliteration of `pt_fld` emits a trace whose every guard holds, its
    abstract labels are the concrete label map, and watershed pixels remain after the five clean-up sweeps
    (the last row keeps label 0): `Valid` but not `Complete`. The real C returns the same label map. -/
theorem five_sweeps_complete_fails :
    let r := SP.partition 8 4 9 (Neigh.table 8 4) thickWshedGrid 0 true
    let v := SP.verdict 8 4 9 (Neigh.rows 8 4) r
    v.valid = true ∧ v.labelsOk = true ∧ v.complete = false ∧ r.labels.toList.drop 28 = [0, 0, 0, 0] := by
  decide +kernel

end WS.C04

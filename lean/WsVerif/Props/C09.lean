import WsVerif.Model.Split
import WsVerif.Lemmas.Split
import WsVerif.Gen.IsOverlap
import WsVerif.Gen.BboxDefaults
import WsVerif.Gen.Lits
import WsVerif.Model.Consts
import Mathlib.Tactic.Ring
import Mathlib.Tactic.Linarith
import Mathlib.Tactic.FieldSimp
/-!
# C09 — threshold, wave-age and box splits assign every bin by the stated rule

All statements are about the model `WS.Split` (which mirrors `Partition.ptm4/ptm5/bbox`,
`SpecArray.split/_interp_freq/stats` as coded) for every grid size, every spectrum and every parameter value.
Methods that start with `sortby("dir")` return their bins in sorted direction order: output column `j` is the
stored column `src dirs j`, and `src` is a bijection of the column indices (`src_perm`).
-/
namespace WS.C09
open WS WS.Split

/-- stored column index of output column `j` after `sortby("dir")` -/
def src (dirs : Vec) (j : Nat) : Nat := (sortIdx dirs).getD j 0

/-- `sortby("dir")` only relabels: the picked column indices are a permutation of all column indices, and the
    picked labels are the stored labels in non-decreasing order -/
theorem src_perm (dirs : Vec) :
    (sortIdx dirs).Perm (List.range dirs.length) ∧ (pickV (sortIdx dirs) dirs).Pairwise (· ≤ ·) ∧
    (pickV (sortIdx dirs) dirs).Perm dirs ∧
    ∀ j, j < dirs.length → getR (pickV (sortIdx dirs) dirs) j = getR dirs (src dirs j) :=
  ⟨sortIdx_perm dirs, sortIdx_sorted dirs, pickV_sortIdx_perm dirs,
   fun j hj => getR_pickV _ _ j (by rw [sortIdx_length]; exact hj)⟩

theorem src_lt (dirs : Vec) (j : Nat) (hj : j < dirs.length) : src dirs j < dirs.length := by
  have hj' : j < (sortIdx dirs).length := by rw [sortIdx_length]; exact hj
  have : src dirs j ∈ sortIdx dirs := by
    unfold src
    rw [List.getD_eq_getElem?_getD, List.getElem?_eq_getElem hj']
    exact List.getElem_mem hj'
  exact (mem_sortIdx dirs _).mp this

/-! ## PTM4 (wave age) -/

/-- **ptm4_rule**: a bin is in the wind sea exactly when its celerity does not exceed the age factor times the
    wind component along its direction; otherwise it is in the swell; the other partition holds 0 there. -/
theorem ptm4_rule (cel dirs cosT : Vec) (agefac wspd : Rat) (e : Mat) (i j : Nat)
    (hi : i < cel.length) (hj : j < dirs.length) :
    get2 (ptm4 cel dirs cosT agefac wspd e).2.1 i j =
      (if getR cel i ≤ agefac * wspd * getR cosT (src dirs j) then get2 e i (src dirs j) else 0) ∧
    get2 (ptm4 cel dirs cosT agefac wspd e).2.2 i j =
      (if getR cel i ≤ agefac * wspd * getR cosT (src dirs j) then 0 else get2 e i (src dirs j)) := by
  have hs : j < (sortIdx dirs).length := by rw [sortIdx_length]; exact hj
  have hl : j < (pickV (sortIdx dirs) cosT).length := by rw [pickV_length]; exact hs
  simp only [ptm4]
  rw [get2_whereM _ _ _ _ i j hi hl, get2_whereM _ _ _ _ i j hi hl, getR_pickV _ _ j hs,
    get2_pickCols _ _ i j hs]
  unfold seaMask src
  generalize (sortIdx dirs).getD j 0 = c
  by_cases h : getR cel i ≤ agefac * wspd * getR cosT c
  · simp [h]
  · simp [h]

/-- **ptm4_disjoint**: no bin carries energy in both partitions -/
theorem ptm4_disjoint (cel dirs cosT : Vec) (agefac wspd : Rat) (e : Mat) (i j : Nat)
    (hi : i < cel.length) (hj : j < dirs.length) :
    get2 (ptm4 cel dirs cosT agefac wspd e).2.1 i j = 0 ∨
    get2 (ptm4 cel dirs cosT agefac wspd e).2.2 i j = 0 := by
  obtain ⟨h1, h2⟩ := ptm4_rule cel dirs cosT agefac wspd e i j hi hj
  by_cases h : getR cel i ≤ agefac * wspd * getR cosT (src dirs j)
  · right; rw [h2]; exact if_pos h
  · left; rw [h1]; exact if_neg h

/-- **ptm4_sum**: wind sea + swell is the input, bin for bin, exactly -/
theorem ptm4_sum (cel dirs cosT : Vec) (agefac wspd : Rat) (e : Mat) (i j : Nat)
    (hi : i < cel.length) (hj : j < dirs.length) :
    get2 (ptm4 cel dirs cosT agefac wspd e).2.1 i j + get2 (ptm4 cel dirs cosT agefac wspd e).2.2 i j =
      get2 e i (src dirs j) := by
  obtain ⟨h1, h2⟩ := ptm4_rule cel dirs cosT agefac wspd e i j hi hj
  rw [h1, h2]
  by_cases h : getR cel i ≤ agefac * wspd * getR cosT (src dirs j) <;> simp [h]

/-- the direction coordinate of the result is the sorted stored coordinate -/
theorem ptm4_dirs (cel dirs cosT : Vec) (agefac wspd : Rat) (e : Mat) :
    (ptm4 cel dirs cosT agefac wspd e).1 = pickV (sortIdx dirs) dirs := rfl

-- hypotheses are satisfiable; boundary bin (celerity = wind component) goes to the wind sea
example : (0 : Nat) < [(2 : Rat), 3].length ∧ (1 : Nat) < [(90 : Rat), 0].length := by decide
example : (ptm4 [2, 3] [90, 0] [0, 1] 2 1 [[5, 7], [11, 13]]) = ([0, 90], [[7, 0], [0, 0]], [[0, 5], [13, 11]]) := by
  decide +kernel

/-! ## bounding boxes -/

theorem inRect_iff (r : Rect) (x t : Rat) :
    inRect r x t = true ↔ r.l ≤ x ∧ x ≤ r.r ∧ r.b ≤ t ∧ t ≤ r.t := by
  simp [inRect, and_assoc]

/-- T-tier bridge: the regenerated `utils.is_overlap` is the model's `overlap` -/
theorem isOverlap_bridge (r1 r2 : Rect) :
    Gen.isOverlap r1.l r1.b r1.r r1.t r2.l r2.b r2.r r2.t = overlap r1 r2 := rfl

theorem overlap_iff (r1 r2 : Rect) :
    overlap r1 r2 = true ↔ r2.l < r1.r ∧ r1.l < r2.r ∧ r2.b < r1.t ∧ r1.b < r2.t := by
  unfold overlap
  by_cases h1 : r1.r ≤ r2.l <;> by_cases h2 : r2.r ≤ r1.l <;> by_cases h3 : r1.t ≤ r2.b <;>
    by_cases h4 : r2.t ≤ r1.b <;> simp [h1, h2, h3, h4, not_lt.mpr, not_le.mp]

/-- **is_overlap_spec**: `is_overlap` holds exactly when the four strict inequalities hold; every pair of
    rectangles with a common interior point is reported; and for non-degenerate rectangles a reported pair
    does have a common interior point (the open rectangles intersect). -/
theorem is_overlap_spec (l1 b1 r1 t1 l2 b2 r2 t2 : Rat) :
    (Gen.isOverlap l1 b1 r1 t1 l2 b2 r2 t2 = true ↔ l2 < r1 ∧ l1 < r2 ∧ b2 < t1 ∧ b1 < t2) ∧
    ((∃ x y, l1 < x ∧ x < r1 ∧ b1 < y ∧ y < t1 ∧ l2 < x ∧ x < r2 ∧ b2 < y ∧ y < t2) →
      Gen.isOverlap l1 b1 r1 t1 l2 b2 r2 t2 = true) ∧
    (l1 < r1 → b1 < t1 → l2 < r2 → b2 < t2 → Gen.isOverlap l1 b1 r1 t1 l2 b2 r2 t2 = true →
      ∃ x y, l1 < x ∧ x < r1 ∧ b1 < y ∧ y < t1 ∧ l2 < x ∧ x < r2 ∧ b2 < y ∧ y < t2) := by
  have key : Gen.isOverlap l1 b1 r1 t1 l2 b2 r2 t2 = true ↔ l2 < r1 ∧ l1 < r2 ∧ b2 < t1 ∧ b1 < t2 := by
    have := overlap_iff ⟨l1, b1, r1, t1⟩ ⟨l2, b2, r2, t2⟩
    rw [← isOverlap_bridge] at this
    exact this
  refine ⟨key, ?_, ?_⟩
  · rintro ⟨x, y, h1, h2, h3, h4, h5, h6, h7, h8⟩
    exact key.mpr ⟨by linarith, by linarith, by linarith, by linarith⟩
  · intro n1 n2 n3 n4 h
    obtain ⟨a, b, c, d⟩ := key.mp h
    refine ⟨(max l1 l2 + min r1 r2) / 2, (max b1 b2 + min t1 t2) / 2, ?_⟩
    have hx : max l1 l2 < min r1 r2 := max_lt (lt_min n1 b) (lt_min a n3)
    have hy : max b1 b2 < min t1 t2 := max_lt (lt_min n2 d) (lt_min c n4)
    have := le_max_left l1 l2; have := le_max_right l1 l2
    have := min_le_left r1 r2; have := min_le_right r1 r2
    have := le_max_left b1 b2; have := le_max_right b1 b2
    have := min_le_left t1 t2; have := min_le_right t1 t2
    refine ⟨?_, ?_, ?_, ?_, ?_, ?_, ?_, ?_⟩ <;> linarith

/-- what a successful `bbox` returns: sorted directions, one `where(mask)` per box in order, then the
    complement; and it succeeded only because no two rectangles overlap and every box has `fmin < fmax` -/
theorem bbox_ok (f dirs : Vec) (e : Mat) (boxes : List Box) (d : Vec) (parts : List Mat)
    (h : bbox f dirs e boxes = .ok (d, parts)) :
    d = pickV (sortIdx dirs) dirs ∧
    parts = bboxParts (rectsOf f dirs boxes) f d (pickCols (sortIdx dirs) e) ∧
    anyOverlap (rectsOf f dirs boxes) = false ∧ ∀ r ∈ rectsOf f dirs boxes, r.l < r.r := by
  unfold bbox at h
  simp only at h
  split at h
  · cases h
  · split at h
    · cases h
    · rename_i h1 h2
      injection h with h
      injection h with hd hp
      refine ⟨hd.symm, ?_, by simpa using h2, ?_⟩
      · rw [← hp, ← hd]
      · intro r hr
        have := h1
        simp only [List.any_eq_true, decide_eq_true_eq, not_exists, not_and, not_le] at this
        exact this r hr

theorem bbox_length (f dirs : Vec) (e : Mat) (boxes : List Box) (d : Vec) (parts : List Mat)
    (h : bbox f dirs e boxes = .ok (d, parts)) : parts.length = boxes.length + 1 := by
  obtain ⟨_, hp, _, _⟩ := bbox_ok f dirs e boxes d parts h
  rw [hp]; simp [bboxParts, rectsOf]

theorem getD_bboxParts_lt (rects : List Rect) (f d : Vec) (e : Mat) (k : Nat) (r : Rect)
    (hk : rects[k]? = some r) : (bboxParts rects f d e).getD k [] = whereM (inRect r) f d e := by
  have hlt : k < rects.length := by
    by_contra hc
    rw [List.getElem?_eq_none (by omega)] at hk; cases hk
  unfold bboxParts
  rw [List.getD_eq_getElem?_getD, List.getElem?_append_left (by simpa using hlt)]
  simp [hk]

theorem getD_bboxParts_last (rects : List Rect) (f d : Vec) (e : Mat) :
    (bboxParts rects f d e).getD rects.length [] = whereM (fun x t => !inAny rects x t) f d e := by
  unfold bboxParts
  rw [List.getD_eq_getElem?_getD, List.getElem?_append_right (by simp)]
  simp

/-- **bbox_member**: partition `k` holds exactly the bins with `fmin ≤ f ≤ fmax ∧ dmin ≤ θ ≤ dmax` of box `k`
    (its effective rectangle `r`), unchanged, and `0` everywhere else -/
theorem bbox_member (f dirs : Vec) (e : Mat) (boxes : List Box) (d : Vec) (parts : List Mat)
    (h : bbox f dirs e boxes = .ok (d, parts)) (k : Nat) (r : Rect)
    (hk : (rectsOf f dirs boxes)[k]? = some r) (i j : Nat) (hi : i < f.length) (hj : j < dirs.length) :
    get2 (parts.getD k []) i j =
      if r.l ≤ getR f i ∧ getR f i ≤ r.r ∧ r.b ≤ getR d j ∧ getR d j ≤ r.t then get2 e i (src dirs j) else 0 := by
  obtain ⟨hd, hp, _, _⟩ := bbox_ok f dirs e boxes d parts h
  have hs : j < (sortIdx dirs).length := by rw [sortIdx_length]; exact hj
  have hjd : j < d.length := by rw [hd, pickV_length]; exact hs
  rw [hp, getD_bboxParts_lt _ _ _ _ k r hk, get2_whereM _ _ _ _ i j hi hjd, get2_pickCols _ _ i j hs]
  by_cases hin : inRect r (getR f i) (getR d j) = true
  · rw [if_pos hin, if_pos ((inRect_iff _ _ _).mp hin)]; rfl
  · rw [if_neg hin, if_neg (fun hc => hin ((inRect_iff _ _ _).mpr hc))]

/-- **bbox_complement**: the last partition holds exactly the bins that lie in no box -/
theorem bbox_complement (f dirs : Vec) (e : Mat) (boxes : List Box) (d : Vec) (parts : List Mat)
    (h : bbox f dirs e boxes = .ok (d, parts)) (i j : Nat) (hi : i < f.length) (hj : j < dirs.length) :
    get2 (parts.getD boxes.length []) i j =
      if ∃ r ∈ rectsOf f dirs boxes, r.l ≤ getR f i ∧ getR f i ≤ r.r ∧ r.b ≤ getR d j ∧ getR d j ≤ r.t
      then 0 else get2 e i (src dirs j) := by
  obtain ⟨hd, hp, _, _⟩ := bbox_ok f dirs e boxes d parts h
  have hs : j < (sortIdx dirs).length := by rw [sortIdx_length]; exact hj
  have hjd : j < d.length := by rw [hd, pickV_length]; exact hs
  have hl : boxes.length = (rectsOf f dirs boxes).length := by simp [rectsOf]
  rw [hp, hl, getD_bboxParts_last, get2_whereM _ _ _ _ i j hi hjd, get2_pickCols _ _ i j hs]
  have hany : inAny (rectsOf f dirs boxes) (getR f i) (getR d j) = true ↔
      ∃ r ∈ rectsOf f dirs boxes, r.l ≤ getR f i ∧ getR f i ≤ r.r ∧ r.b ≤ getR d j ∧ getR d j ≤ r.t := by
    unfold inAny
    rw [List.any_eq_true]
    constructor
    · rintro ⟨r, hr, hin⟩; exact ⟨r, hr, (inRect_iff _ _ _).mp hin⟩
    · rintro ⟨r, hr, hin⟩; exact ⟨r, hr, (inRect_iff _ _ _).mpr hin⟩
  by_cases ha : inAny (rectsOf f dirs boxes) (getR f i) (getR d j) = true
  · rw [if_pos (hany.mp ha)]; simp [ha]
  · rw [if_neg (fun hc => ha (hany.mpr hc))]; simp [ha]; rfl

/-! ### exact conservation and disjointness for boxes that share no bin -/

theorem sum_map_ite_const {α : Type} (l : List α) (p : α → Bool) (v : Rat) :
    (l.map fun r => if p r then v else 0).sum = ((l.filter p).length : Rat) * v := by
  induction l with
  | nil => simp
  | cons a t ih =>
    by_cases h : p a = true
    · simp [h, ih]; ring
    · simp [h, ih]

theorem two_le_filter {α : Type} (p : α → Bool) (l : List α) (k1 k2 : Nat) (r1 r2 : α) (hlt : k1 < k2)
    (h1 : l[k1]? = some r1) (h2 : l[k2]? = some r2) (p1 : p r1 = true) (p2 : p r2 = true) :
    2 ≤ (l.filter p).length := by
  induction l generalizing k1 k2 with
  | nil => simp at h1
  | cons a t ih =>
    cases k2 with
    | zero => omega
    | succ k2 =>
      simp only [List.getElem?_cons_succ] at h2
      cases k1 with
      | zero =>
        simp only [List.getElem?_cons_zero, Option.some.injEq] at h1
        subst h1
        have hm : r2 ∈ t.filter p := List.mem_filter.mpr ⟨List.mem_of_getElem? h2, p2⟩
        have := List.length_pos_of_mem hm
        simp [p1]; omega
      | succ k1 =>
        simp only [List.getElem?_cons_succ] at h1
        have := ih k1 k2 (by omega) h1 h2
        by_cases ha : p a = true <;> simp [ha] <;> omega

/-- the bin `(i, j)` of every partition, as a list over the partitions -/
def binOfParts (parts : List Mat) (i j : Nat) : List Rat := parts.map fun p => get2 p i j

/-- **bbox_sum**: at a bin that lies in at most one box, the partitions (boxes and complement) add up to the
    input bin exactly — so for boxes sharing no bin the partitions sum to the input everywhere -/
theorem bbox_sum (f dirs : Vec) (e : Mat) (boxes : List Box) (d : Vec) (parts : List Mat)
    (h : bbox f dirs e boxes = .ok (d, parts)) (i j : Nat) (hi : i < f.length) (hj : j < dirs.length)
    (hshare : ((rectsOf f dirs boxes).filter fun r => inRect r (getR f i) (getR d j)).length ≤ 1) :
    (binOfParts parts i j).sum = get2 e i (src dirs j) := by
  obtain ⟨hd, hp, _, _⟩ := bbox_ok f dirs e boxes d parts h
  have hs : j < (sortIdx dirs).length := by rw [sortIdx_length]; exact hj
  have hjd : j < d.length := by rw [hd, pickV_length]; exact hs
  set rects := rectsOf f dirs boxes with hrects
  set v := get2 e i (src dirs j) with hv
  have hv' : get2 (pickCols (sortIdx dirs) e) i j = v := get2_pickCols _ _ i j hs
  have hmap : binOfParts parts i j =
      (rects.map fun r => if inRect r (getR f i) (getR d j) then v else 0) ++
        [if inAny rects (getR f i) (getR d j) then 0 else v] := by
    unfold binOfParts
    rw [hp]
    unfold bboxParts
    rw [List.map_append, List.map_map]
    congr 1
    · apply List.map_congr_left
      intro r _
      simp only [Function.comp]
      rw [get2_whereM _ _ _ _ i j hi hjd, hv']
    · simp only [List.map_cons, List.map_nil]
      rw [get2_whereM _ _ _ _ i j hi hjd, hv']
      by_cases ha : inAny rects (getR f i) (getR d j) = true <;> simp [ha]
  rw [hmap, List.sum_append, sum_map_ite_const]
  have hany : inAny rects (getR f i) (getR d j) = true ↔
      0 < (rects.filter fun r => inRect r (getR f i) (getR d j)).length := by
    unfold inAny
    rw [List.any_eq_true, List.length_pos_iff_exists_mem]
    constructor
    · rintro ⟨r, hr, hin⟩; exact ⟨r, List.mem_filter.mpr ⟨hr, hin⟩⟩
    · rintro ⟨r, hr⟩; exact ⟨r, (List.mem_filter.mp hr).1, (List.mem_filter.mp hr).2⟩
  by_cases ha : inAny rects (getR f i) (getR d j) = true
  · have h1 : (rects.filter fun r => inRect r (getR f i) (getR d j)).length = 1 := by
      have := hany.mp ha; omega
    simp [ha, h1]
  · have h0 : (rects.filter fun r => inRect r (getR f i) (getR d j)).length = 0 := by
      by_contra hc; exact ha (hany.mpr (Nat.pos_of_ne_zero hc))
    simp [ha, h0]

/-- **bbox_disjoint**: at a bin that lies in at most one box, two different box partitions cannot both carry
    it, and the complement carries it only if no box does -/
theorem bbox_disjoint (f dirs : Vec) (e : Mat) (boxes : List Box) (d : Vec) (parts : List Mat)
    (h : bbox f dirs e boxes = .ok (d, parts)) (i j : Nat) (hi : i < f.length) (hj : j < dirs.length)
    (hshare : ((rectsOf f dirs boxes).filter fun r => inRect r (getR f i) (getR d j)).length ≤ 1)
    (k1 k2 : Nat) (hk : k1 < k2) (hk2 : k2 ≤ boxes.length) :
    get2 (parts.getD k1 []) i j = 0 ∨ get2 (parts.getD k2 []) i j = 0 := by
  have hlen : (rectsOf f dirs boxes).length = boxes.length := by simp [rectsOf]
  have h1lt : k1 < (rectsOf f dirs boxes).length := by omega
  obtain ⟨r1, hr1⟩ : ∃ r, (rectsOf f dirs boxes)[k1]? = some r := ⟨_, List.getElem?_eq_getElem h1lt⟩
  have m1 := bbox_member f dirs e boxes d parts h k1 r1 hr1 i j hi hj
  by_cases hin1 : inRect r1 (getR f i) (getR d j) = true
  swap
  · left; rw [m1, if_neg (fun hc => hin1 ((inRect_iff _ _ _).mpr hc))]
  right
  rcases Nat.lt_or_ge k2 boxes.length with h2lt | h2ge
  · obtain ⟨r2, hr2⟩ : ∃ r, (rectsOf f dirs boxes)[k2]? = some r :=
      ⟨_, List.getElem?_eq_getElem (by omega)⟩
    have m2 := bbox_member f dirs e boxes d parts h k2 r2 hr2 i j hi hj
    by_cases hin2 : inRect r2 (getR f i) (getR d j) = true
    · have := two_le_filter (fun r => inRect r (getR f i) (getR d j)) _ k1 k2 r1 r2 hk hr1 hr2 hin1 hin2
      omega
    · rw [m2, if_neg (fun hc => hin2 ((inRect_iff _ _ _).mpr hc))]
  · have : k2 = boxes.length := by omega
    subst this
    rw [bbox_complement f dirs e boxes d parts h i j hi hj]
    rw [if_pos ⟨r1, List.mem_of_getElem? hr1, (inRect_iff _ _ _).mp hin1⟩]

/-! ### rejection of overlapping boxes -/

theorem anyOverlap_of_pair (rects : List Rect) (a b : Nat) (ra rb : Rect) (hab : a < b)
    (ha : rects[a]? = some ra) (hb : rects[b]? = some rb) (ho : overlap ra rb = true) :
    anyOverlap rects = true := by
  induction rects generalizing a b with
  | nil => simp at ha
  | cons r t ih =>
    cases b with
    | zero => omega
    | succ b =>
      simp only [List.getElem?_cons_succ] at hb
      unfold anyOverlap
      cases a with
      | zero =>
        simp only [List.getElem?_cons_zero, Option.some.injEq] at ha
        subst ha
        rw [Bool.or_eq_true]; left
        exact List.any_eq_true.mpr ⟨rb, List.mem_of_getElem? hb, ho⟩
      | succ a =>
        simp only [List.getElem?_cons_succ] at ha
        rw [Bool.or_eq_true]; right
        exact ih a b (by omega) ha hb

/-- **overlap_rejected**: if the (effective) rectangles of two different boxes have a common interior point,
    `bbox` raises `ValueError` — whatever the spectrum and the other boxes -/
theorem overlap_rejected (f dirs : Vec) (e : Mat) (boxes : List Box) (a b : Nat) (ra rb : Rect) (hab : a < b)
    (ha : (rectsOf f dirs boxes)[a]? = some ra) (hb : (rectsOf f dirs boxes)[b]? = some rb)
    (hint : ∃ x y, ra.l < x ∧ x < ra.r ∧ ra.b < y ∧ y < ra.t ∧ rb.l < x ∧ x < rb.r ∧ rb.b < y ∧ y < rb.t) :
    bbox f dirs e boxes = .error .valueError := by
  have ho : overlap ra rb = true := by
    rw [← isOverlap_bridge]
    exact (is_overlap_spec ra.l ra.b ra.r ra.t rb.l rb.b rb.r rb.t).2.1 hint
  have hany := anyOverlap_of_pair _ a b ra rb hab ha hb ho
  unfold bbox
  simp only [hany, if_true]
  split <;> rfl

/-! ### the defaults of omitted limits -/

/-- T-tier bridge: the literal constants of `Partition.bbox` are none (its defaults are attribute lookups) and
    `SpecArray.split` uses `tol = 1e-10` -/
theorem lits_split : Gen.lits_specarray_split.head? = some splitTol := by decide +kernel

/-- T-tier bridge: the fallbacks of the four limits in `Partition.bbox`, regenerated from the source; the
    absent-`dmax` fallback is `dir.max` since fix 0288b02 (`dir.min` in the code as found), which is what
    `dmaxAbsentUsesMin` records -/
theorem bbox_defaults_bridge :
    Gen.bboxDefaults = [("fmin", "freq.min", "freq.min"), ("fmax", "freq.max", "freq.max"),
                        ("dmin", "dir.min", "dir.min"), ("dmax", "dir.max", "dir.max")] ∧
    dmaxAbsentUsesMin = false := by decide

/-- the documented behaviour: every limit that is not given is the bound of the spectrum's own axis
    ("Non-specified bounds in each bbox dict are defined from the bounds of the freq / dir bounds in the
    spectrum") — as a statement about the rectangle the code builds, for boxes none of whose limits is the
    number 0 -/
def BboxDocDefaults : Prop :=
  ∀ (fmn fmx dmn dmx : Rat) (bx : Box),
    bx.fmin ≠ .val 0 → bx.fmax ≠ .val 0 → bx.dmin ≠ .val 0 → bx.dmax ≠ .val 0 →
    effRect fmn fmx dmn dmx bx = docRect fmn fmx dmn dmx bx

/-- a limit given as the number `0` is falsy in `bbox.get(key, …) or …` and falls back to the axis bound:
    a box with `dmax = 0` reaches up to the highest direction (recorded finding, independent of the typo) -/
theorem bbox_zero_limit_witness :
    effRect (1/20) (1/4) 0 270 ⟨.omitted, .omitted, .omitted, .val 0⟩ = ⟨1/20, 0, 1/4, 270⟩ ∧
    docRect (1/20) (1/4) 0 270 ⟨.omitted, .omitted, .omitted, .val 0⟩ = ⟨1/20, 0, 1/4, 0⟩ := by
  decide +kernel

/-- **bbox_default_dmax_partial**: the rectangle is the documented one whenever no limit is given as the
    number 0 and — only needed while an absent `dmax` fell back to `dir.min()` — `dmax` is present, or the
    lowest direction is 0°, or there is a single direction -/
theorem bbox_default_dmax_partial (fmn fmx dmn dmx : Rat) (bx : Box)
    (h1 : bx.fmin ≠ .val 0) (h2 : bx.fmax ≠ .val 0) (h3 : bx.dmin ≠ .val 0) (h4 : bx.dmax ≠ .val 0)
    (hd : dmaxAbsentUsesMin = false ∨ bx.dmax ≠ .omitted ∨ dmn = 0 ∨ dmn = dmx) :
    effRect fmn fmx dmn dmx bx = docRect fmn fmx dmn dmx bx := by
  obtain ⟨a, b, c, d⟩ := bx
  simp only at h1 h2 h3 h4 hd
  have g : ∀ (l : Lim) (x : Rat), l ≠ .val 0 → l.get x x = l.doc x := by
    intro l x hl
    cases l with
    | omitted => simp [Lim.get, Lim.doc]
    | none => simp [Lim.get, Lim.doc]
    | val v =>
      have : v ≠ 0 := fun hv => hl (by rw [hv])
      simp [Lim.get, Lim.doc, this]
  have gd : d.get (if dmaxAbsentUsesMin then dmn else dmx) dmx = d.doc dmx := by
    cases d with
    | omitted =>
      rcases hd with hd | hd | hd | hd
      · simp [Lim.get, Lim.doc, hd]
      · exact absurd rfl hd
      · by_cases hm : dmaxAbsentUsesMin = true <;> simp [Lim.get, Lim.doc, hm, hd]
      · by_cases hm : dmaxAbsentUsesMin = true <;> simp [Lim.get, Lim.doc, hm, hd]
    | none => simp [Lim.get, Lim.doc]
    | val v =>
      have : v ≠ 0 := fun hv => h4 (by rw [hv])
      simp [Lim.get, Lim.doc, this]
  simp only [effRect, docRect, g a fmn h1, g b fmx h2, g c dmn h3, gd]

/-- **bbox_default_dmax_full**: the documented defaults hold for every box none of whose limits is the number 0
    (the absent-`dmax` fallback is `dir.max()` since fix 0288b02) -/
theorem bbox_default_dmax_full : BboxDocDefaults :=
  fun fmn fmx dmn dmx bx h1 h2 h3 h4 => bbox_default_dmax_partial fmn fmx dmn dmx bx h1 h2 h3 h4 (Or.inl rfl)

/-! #### the code as found (before 0288b02): an absent `dmax` fell back to `dir.min()` -/

/-- the rectangle built by the code as found -/
def effRectAsFound (fmn fmx dmn dmx : Rat) (bx : Box) : Rect :=
  { l := bx.fmin.get fmn fmn, b := bx.dmin.get dmn dmn, r := bx.fmax.get fmx fmx, t := bx.dmax.get dmn dmx }

/-- **bbox_default_dmax_fails** (code as found): a box without `dmax` on a grid whose lowest direction is 5°
    got `dmax = 5` instead of `275`, so it kept a single direction -/
theorem bbox_default_dmax_fails :
    ¬ ∀ (fmn fmx dmn dmx : Rat) (bx : Box),
      bx.fmin ≠ .val 0 → bx.fmax ≠ .val 0 → bx.dmin ≠ .val 0 → bx.dmax ≠ .val 0 →
      effRectAsFound fmn fmx dmn dmx bx = docRect fmn fmx dmn dmx bx := by
  intro h
  have := h (1/20) (1/4) 5 275 ⟨.val (3/50), .val (11/100), .omitted, .omitted⟩
    (by decide +kernel) (by decide +kernel) (by decide) (by decide)
  revert this
  decide +kernel

/-- under the same hypotheses for every box, `bbox` works with exactly the documented rectangles, so
    `bbox_member`, `bbox_complement`, `bbox_sum`, `overlap_rejected` then speak about the documented limits -/
theorem bbox_rects_doc_partial (f dirs : Vec) (boxes : List Box)
    (hb : ∀ bx ∈ boxes, bx.fmin ≠ .val 0 ∧ bx.fmax ≠ .val 0 ∧ bx.dmin ≠ .val 0 ∧ bx.dmax ≠ .val 0 ∧
      (dmaxAbsentUsesMin = false ∨ bx.dmax ≠ .omitted ∨ vmin dirs = 0 ∨ vmin dirs = vmax dirs)) :
    rectsOf f dirs boxes = boxes.map (docRect (vmin f) (vmax f) (vmin dirs) (vmax dirs)) := by
  unfold rectsOf
  apply List.map_congr_left
  intro bx hbx
  obtain ⟨h1, h2, h3, h4, hd⟩ := hb bx hbx
  exact bbox_default_dmax_partial _ _ _ _ bx h1 h2 h3 h4 hd

-- the hypotheses of the box theorems are satisfiable (two boxes sharing no bin, one limit omitted)
example :
    (match bbox [1/8, 1/4, 1/2] [0, 90, 180, 270] [[1, 2, 3, 4], [5, 6, 7, 8], [9, 10, 11, 12]]
        [⟨.omitted, .val (1/4), .omitted, .val 90⟩, ⟨.val (3/8), .none, .val 180, .omitted⟩] with
      | .ok (d, ps) => (d, ps)
      | _ => ([], [])) =
    ([0, 90, 180, 270],
     [[[1, 2, 0, 0], [5, 6, 0, 0], [0, 0, 0, 0]], [[0, 0, 0, 0], [0, 0, 0, 0], [0, 0, 11, 12]],
      [[0, 0, 3, 4], [0, 0, 7, 8], [9, 10, 0, 0]]]) := by decide +kernel
-- overlapping boxes are rejected
example : (match bbox [1/8, 1/4, 1/2] [0, 90] [[1, 2], [3, 4], [5, 6]]
    [⟨.omitted, .val (1/4), .omitted, .none⟩, ⟨.val (3/16), .none, .omitted, .none⟩] with
    | .error .valueError => true | _ => false) = true := by decide +kernel

/-! ## band splitting (`SpecArray.split`, `_interp_freq`) -/

theorem addLow_ok (tol : Rat) (f : Vec) (e : Mat) (fmin : Option Rat) (interp : Bool)
    (rows rows1 : List (Rat × Vec)) (h : addLow tol f e fmin interp rows = .ok rows1) :
    ∃ lo, rows1 = lo ++ rows ∧
      (lo = [] ∨ ∃ a r, interp = true ∧ fmin = some a ∧ interpFreq f e a = .ok r ∧ lo = [(a, r)]) := by
  unfold addLow at h
  split at h
  · rename_i a
    have key : ∀ rows1, (interpFreq f e a).map (fun r => (a, r) :: rows) = .ok rows1 →
        ∃ lo, rows1 = lo ++ rows ∧
          (lo = [] ∨ ∃ a' r, true = true ∧ some a = some a' ∧ interpFreq f e a' = .ok r ∧ lo = [(a', r)]) := by
      intro rows1 h
      cases hi : interpFreq f e a with
      | error er => rw [hi] at h; cases h
      | ok r =>
        rw [hi] at h
        injection h with h
        exact ⟨[(a, r)], by rw [← h]; rfl, Or.inr ⟨a, r, rfl, rfl, hi, rfl⟩⟩
    split at h
    · exact key _ h
    · split at h
      · exact key _ h
      · injection h with h
        exact ⟨[], by rw [← h]; rfl, Or.inl rfl⟩
  · injection h with h
    exact ⟨[], by rw [← h]; rfl, Or.inl rfl⟩

theorem addHigh_ok (tol : Rat) (f : Vec) (e : Mat) (fmax : Option Rat) (interp : Bool)
    (rows rows1 : List (Rat × Vec)) (h : addHigh tol f e fmax interp rows = .ok rows1) :
    ∃ hi, rows1 = rows ++ hi ∧
      (hi = [] ∨ ∃ b r, interp = true ∧ fmax = some b ∧ interpFreq f e b = .ok r ∧ hi = [(b, r)]) := by
  unfold addHigh at h
  split at h
  · rename_i b
    split at h
    · cases h
    · split at h
      · cases hi : interpFreq f e b with
        | error er => rw [hi] at h; cases h
        | ok r =>
          rw [hi] at h
          injection h with h
          exact ⟨[(b, r)], by rw [← h], Or.inr ⟨b, r, rfl, rfl, hi, rfl⟩⟩
      · injection h with h
        exact ⟨[], by simp [← h], Or.inl rfl⟩
  · injection h with h
    exact ⟨[], by simp [← h], Or.inl rfl⟩

/-- the labelled rows of a successful split, before the direction slicing: an optional interpolated row at
    `fmin`, the grid rows inside the band, an optional interpolated row at `fmax` -/
def SplitRows (f : Vec) (e : Mat) (fmin fmax : Option Rat) (interp : Bool) (rows : List (Rat × Vec)) : Prop :=
  ∃ lo hi : List (Rat × Vec),
    rows = lo ++ bandRows f e fmin fmax ++ hi ∧
    (lo = [] ∨ ∃ a r, interp = true ∧ fmin = some a ∧ interpFreq f e a = .ok r ∧ lo = [(a, r)]) ∧
    (hi = [] ∨ ∃ b r, interp = true ∧ fmax = some b ∧ interpFreq f e b = .ok r ∧ hi = [(b, r)])

/-- shape of a successful `split` of a 2-D spectrum -/
theorem split_shape (tol : Rat) (f d : Vec) (e : Mat) (fmin fmax dmin dmax : Option Rat)
    (interp : Bool) (o : SplitOut) (h : split tol f (some d) e fmin fmax dmin dmax interp = .ok o) :
    badOrder fmin fmax = false ∧ badOrder dmin dmax = false ∧
    ∃ rows, SplitRows f e fmin fmax interp rows ∧ o.freq = rows.map (·.1) ∧
      o.cols = dirCols d dmin dmax ∧ o.dirs = some (pickV o.cols d) ∧
      o.e = pickCols o.cols (rows.map (·.2)) := by
  unfold split at h
  split at h
  · cases h
  · split at h
    · cases h
    · rename_i hb1 hb2
      refine ⟨by simpa using hb1, by simpa using hb2, ?_⟩
      split at h
      · cases h
      · rename_i rows1 h1
        split at h
        · cases h
        · rename_i rows2 h2
          obtain ⟨lo, e1, hlo⟩ := addLow_ok _ _ _ _ _ _ _ h1
          obtain ⟨hi, e2, hhi⟩ := addHigh_ok _ _ _ _ _ _ _ h2
          have hrows : SplitRows f e fmin fmax interp rows2 := ⟨lo, hi, by rw [e2, e1], hlo, hhi⟩
          simp only at h
          injection h with h
          exact ⟨rows2, hrows, by rw [← h], by rw [← h], by rw [← h], by rw [← h]⟩

/-- shape of a successful `split` of a 1-D spectrum (no direction dimension) -/
theorem split_shape_1d (tol : Rat) (f : Vec) (e : Mat) (fmin fmax dmin dmax : Option Rat)
    (interp : Bool) (o : SplitOut) (h : split tol f none e fmin fmax dmin dmax interp = .ok o) :
    badOrder fmin fmax = false ∧
    ∃ rows, SplitRows f e fmin fmax interp rows ∧ o.freq = rows.map (·.1) ∧ o.dirs = none ∧
      o.e = rows.map (·.2) := by
  unfold split at h
  split at h
  · cases h
  · split at h
    · cases h
    · rename_i hb1 hb2
      refine ⟨by simpa using hb1, ?_⟩
      split at h
      · cases h
      · rename_i rows1 h1
        split at h
        · cases h
        · rename_i rows2 h2
          obtain ⟨lo, e1, hlo⟩ := addLow_ok _ _ _ _ _ _ _ h1
          obtain ⟨hi, e2, hhi⟩ := addHigh_ok _ _ _ _ _ _ _ h2
          have hrows : SplitRows f e fmin fmax interp rows2 := ⟨lo, hi, by rw [e2, e1], hlo, hhi⟩
          simp only at h
          injection h with h
          exact ⟨rows2, hrows, by rw [← h], by rw [← h], by rw [← h]⟩

theorem inBand_iff (lo hi : Option Rat) (x : Rat) :
    inBand lo hi x = true ↔ (∀ a, lo = some a → a ≤ x) ∧ (∀ b, hi = some b → x ≤ b) := by
  unfold inBand
  cases lo <;> cases hi <;> simp

/-- membership in the column selection of the direction slicing -/
theorem mem_dirCols (d : Vec) (dmin dmax : Option Rat) (c : Nat) :
    c ∈ dirCols d dmin dmax ↔
      c < d.length ∧ ((truthy dmin || truthy dmax) = true → inBand dmin dmax (getR d c) = true) := by
  unfold dirCols
  by_cases ht : (truthy dmin || truthy dmax) = true
  · rw [if_pos ht, List.mem_filter, mem_sortIdx]; simp [ht]
  · rw [if_neg ht]; simp [ht]

/-- **split_inside_unchanged**: every grid bin inside the band is in the output, unchanged: the grid row `i`
    with `fmin ≤ f_i ≤ fmax` appears as an output row with the same frequency label, and at every kept
    column `c` (all columns when no direction limit is active, else those with `dmin ≤ θ_c ≤ dmax`) it carries
    the input value `E[i][c]` -/
theorem split_inside_unchanged (tol : Rat) (f d : Vec) (e : Mat) (fmin fmax dmin dmax : Option Rat)
    (interp : Bool) (o : SplitOut) (h : split tol f (some d) e fmin fmax dmin dmax interp = .ok o)
    (i : Nat) (hi : i < f.length) (hie : i < e.length) (hin : inBand fmin fmax (getR f i) = true) :
    ∃ i', i' < o.freq.length ∧ getR o.freq i' = getR f i ∧
      (∀ j, j < o.cols.length → get2 o.e i' j = get2 e i (o.cols.getD j 0)) ∧
      (∀ c, c < d.length → ((truthy dmin || truthy dmax) = true → inBand dmin dmax (getR d c) = true) →
        c ∈ o.cols) := by
  obtain ⟨_, _, rows, ⟨lo, hi', hr, _, _⟩, hf, hc, hd, he⟩ := split_shape _ _ _ _ _ _ _ _ _ _ h
  have hmem : (getR f i, e.getD i []) ∈ bandRows f e fmin fmax := by
    unfold bandRows
    rw [List.mem_filter]
    refine ⟨?_, hin⟩
    have hz : i < (List.zip f e).length := by simp; omega
    have : (List.zip f e)[i]'hz = (getR f i, e.getD i []) := by
      simp [getR, List.getD_eq_getElem?_getD, hi, hie]
    rw [← this]; exact List.getElem_mem hz
  have hmem2 : (getR f i, e.getD i []) ∈ rows := by
    rw [hr]; exact List.mem_append_left _ (List.mem_append_right _ hmem)
  obtain ⟨i', hi'lt, hi'eq⟩ := List.mem_iff_getElem.mp hmem2
  refine ⟨i', by rw [hf]; simpa using hi'lt, ?_, ?_, ?_⟩
  · rw [hf]; simp [getR, List.getD_eq_getElem?_getD, hi'lt, hi'eq]
  · intro j hj
    rw [he, get2_pickCols _ _ _ _ hj]
    unfold get2
    congr 1
    simp [List.getD_eq_getElem?_getD, hi'lt, hi'eq]
  · intro c hc1 hc2
    rw [hc]; exact (mem_dirCols d dmin dmax c).mpr ⟨hc1, hc2⟩

/-- **split_outside_removed**: nothing outside the band survives: every output frequency label satisfies
    `fmin ≤ x ≤ fmax`, every output row is a grid row inside the band or the interpolated row at a cutoff,
    and every output column `c` is a stored column with `dmin ≤ θ_c ≤ dmax` when a direction limit is active -/
theorem split_outside_removed (tol : Rat) (f d : Vec) (e : Mat) (fmin fmax dmin dmax : Option Rat)
    (interp : Bool) (o : SplitOut) (h : split tol f (some d) e fmin fmax dmin dmax interp = .ok o) :
    (∀ x ∈ o.freq, inBand fmin fmax x = true) ∧
    (∀ i', i' < o.freq.length →
      (∃ i, i < f.length ∧ getR o.freq i' = getR f i ∧ inBand fmin fmax (getR f i) = true ∧
            ∀ j, j < o.cols.length → get2 o.e i' j = get2 e i (o.cols.getD j 0)) ∨
      (∃ r, interp = true ∧ (fmin = some (getR o.freq i') ∨ fmax = some (getR o.freq i')) ∧
            interpFreq f e (getR o.freq i') = .ok r ∧
            ∀ j, j < o.cols.length → get2 o.e i' j = getR r (o.cols.getD j 0))) ∧
    (∀ c ∈ o.cols, c < d.length ∧
      ((truthy dmin || truthy dmax) = true → inBand dmin dmax (getR d c) = true)) := by
  obtain ⟨hb, _, rows, ⟨lo, hi', hr, hlo, hhi⟩, hf, hc, hd, he⟩ := split_shape _ _ _ _ _ _ _ _ _ _ h
  -- every labelled row is of one of the two kinds
  have hkind : ∀ p ∈ rows,
      (∃ i, i < f.length ∧ i < e.length ∧ p = (getR f i, e.getD i []) ∧ inBand fmin fmax (getR f i) = true) ∨
      (∃ r, interp = true ∧ (fmin = some p.1 ∨ fmax = some p.1) ∧ interpFreq f e p.1 = .ok r ∧ p.2 = r) := by
    intro p hp
    rw [hr] at hp
    rcases List.mem_append.mp hp with hp | hp
    · rcases List.mem_append.mp hp with hp | hp
      · rcases hlo with rfl | ⟨a, r, hi1, hi2, hi3, rfl⟩
        · simp at hp
        · simp only [List.mem_singleton] at hp; subst hp
          exact Or.inr ⟨r, hi1, Or.inl hi2, hi3, rfl⟩
      · unfold bandRows at hp
        obtain ⟨hz, hin⟩ := List.mem_filter.mp hp
        obtain ⟨i, hlt, heq⟩ := List.mem_iff_getElem.mp hz
        have h1 : i < f.length := by simp at hlt; omega
        have h2 : i < e.length := by simp at hlt; omega
        left
        refine ⟨i, h1, h2, ?_, ?_⟩
        · rw [← heq]; simp [getR, List.getD_eq_getElem?_getD, h1, h2]
        · rw [← heq] at hin; simpa [getR, List.getD_eq_getElem?_getD, h1] using hin
    · rcases hhi with rfl | ⟨b, r, hi1, hi2, hi3, rfl⟩
      · simp at hp
      · simp only [List.mem_singleton] at hp; subst hp
        exact Or.inr ⟨r, hi1, Or.inr hi2, hi3, rfl⟩
  have hbo : ∀ a b, fmin = some a → fmax = some b → a < b := by
    intro a b ha hb'
    rw [ha, hb'] at hb
    simpa [badOrder] using hb
  refine ⟨?_, ?_, ?_⟩
  · intro x hx
    rw [hf] at hx
    obtain ⟨p, hp, rfl⟩ := List.mem_map.mp hx
    rcases hkind p hp with ⟨i, _, _, rfl, hin⟩ | ⟨r, _, hcut, _, _⟩
    · exact hin
    · rw [inBand_iff]
      rcases hcut with hcut | hcut
      · refine ⟨fun a ha => ?_, fun b hb' => ?_⟩
        · rw [hcut] at ha; injection ha with ha; exact le_of_eq ha.symm
        · exact le_of_lt (hbo _ _ hcut hb')
      · refine ⟨fun a ha => ?_, fun b hb' => ?_⟩
        · exact le_of_lt (hbo _ _ ha hcut)
        · rw [hcut] at hb'; injection hb' with hb'; exact le_of_eq hb'
  · intro i' hi'
    have hlt : i' < rows.length := by rw [hf] at hi'; simpa using hi'
    have hlab : getR o.freq i' = (rows[i']'hlt).1 := by
      rw [hf]; simp [getR, List.getD_eq_getElem?_getD, hlt]
    have hrow : ∀ j, j < o.cols.length → get2 o.e i' j = getR (rows[i']'hlt).2 (o.cols.getD j 0) := by
      intro j hj
      rw [he, get2_pickCols _ _ _ _ hj]
      unfold get2
      congr 1
      simp [List.getD_eq_getElem?_getD, hlt]
    rcases hkind _ (List.getElem_mem hlt) with ⟨i, h1, _, heq, hin⟩ | ⟨r, hi1, hcut, hi3, hr2⟩
    · left
      refine ⟨i, h1, by rw [hlab, heq], hin, fun j hj => ?_⟩
      rw [hrow j hj, heq]; rfl
    · right
      refine ⟨r, hi1, by rw [hlab]; exact hcut, by rw [hlab]; exact hi3, fun j hj => ?_⟩
      rw [hrow j hj, hr2]
  · intro c hcm
    rw [hc] at hcm
    exact (mem_dirCols d dmin dmax c).mp hcm

/-! ### the interpolated row at a cutoff -/

/-- **`_interp_freq` is linear interpolation between the two neighbouring rows**: when it succeeds there is an
    index `k` with `f[k-1] < x ≤ f[k]` (the grid cell that contains `x`) and every entry of the result is the
    convex combination `lam·E[k-1][j] + (1-lam)·E[k][j]`, `lam = (f[k]-x)/(f[k]-f[k-1]) ∈ [0, 1)` -/
theorem interpFreq_spec (f : Vec) (e : Mat) (x : Rat) (r : Vec) (h : interpFreq f e x = .ok r) :
    ∃ k lam, 0 < k ∧ k < f.length ∧ getR f (k - 1) < x ∧ x ≤ getR f k ∧
      lam = (getR f k - x) / (getR f k - getR f (k - 1)) ∧ 0 ≤ lam ∧ lam < 1 ∧
      ∀ j, j < (e.getD (k - 1) []).length → j < (e.getD k []).length →
        getR r j = lam * getR (e.getD (k - 1) []) j + (1 - lam) * getR (e.getD k []) j := by
  unfold interpFreq at h
  split at h
  · cases h
  · rename_i hrange
    simp only [Bool.not_eq_true, Bool.not_eq_false', Bool.and_eq_true, decide_eq_true_eq] at hrange
    simp only at h
    split at h
    · cases h
    · rename_i hdf
      injection h with h
      set k := searchsorted f x with hk
      have hne : f ≠ [] := by
        intro hnil; rw [hnil] at hrange; simp [vmin, vmax] at hrange; linarith [hrange.1, hrange.2]
      have hkpos : 0 < k := by
        by_contra hc
        have : k = 0 := by omega
        apply hdf; rw [this]; simp
      have hklt : k < f.length := by
        by_contra hc
        have hkeq : k = f.length := le_antisymm (searchsorted_le f x) (by omega)
        have := vmax_lt_of_all f x hne (fun i hi => lt_of_lt_searchsorted f x i (by rw [← hk, hkeq]; exact hi))
        linarith [hrange.2]
      have h0 : getR f (k - 1) < x := lt_of_lt_searchsorted f x (k - 1) (by omega)
      have h1 : x ≤ getR f k := ge_at_searchsorted f x hklt
      have hlt : getR f (k - 1) < getR f k := lt_of_lt_of_le h0 h1
      have hpos : 0 < getR f k - getR f (k - 1) := sub_pos.mpr hlt
      refine ⟨k, (getR f k - x) / (getR f k - getR f (k - 1)), hkpos, hklt, h0, h1, rfl, ?_, ?_, ?_⟩
      · exact div_nonneg (by linarith) (le_of_lt hpos)
      · rw [div_lt_one hpos]; linarith
      · intro j hj0 hj1
        rw [← h, getR_lerpRow _ _ _ _ _ j hj0 hj1, lerp_convex _ _ _ _ _ hlt]

theorem addLow_adds (tol : Rat) (f : Vec) (e : Mat) (a : Rat) (rows rows1 : List (Rat × Vec))
    (h : addLow tol f e (some a) true rows = .ok rows1) (hoff : ∀ p ∈ rows, tol < absR (p.1 - a)) :
    ∃ r, interpFreq f e a = .ok r ∧ rows1 = (a, r) :: rows := by
  have key : (interpFreq f e a).map (fun r => (a, r) :: rows) = .ok rows1 →
      ∃ r, interpFreq f e a = .ok r ∧ rows1 = (a, r) :: rows := by
    intro h
    cases hi : interpFreq f e a with
    | error er => rw [hi] at h; cases h
    | ok r =>
      rw [hi] at h
      injection h with h
      exact ⟨r, rfl, h.symm⟩
  unfold addLow at h
  simp only at h
  cases rows with
  | nil => exact key h
  | cons p t =>
    obtain ⟨x, row⟩ := p
    simp only at h
    have hx : tol < absR (x - a) := hoff (x, row) List.mem_cons_self
    rw [if_pos hx] at h
    exact key h

theorem addHigh_adds (tol : Rat) (f : Vec) (e : Mat) (b : Rat) (rows rows1 : List (Rat × Vec))
    (h : addHigh tol f e (some b) true rows = .ok rows1)
    (hoff : ∀ p, rows.getLast? = some p → tol < absR (p.1 - b)) :
    ∃ r, interpFreq f e b = .ok r ∧ rows1 = rows ++ [(b, r)] := by
  unfold addHigh at h
  simp only at h
  cases hl : rows.getLast? with
  | none => rw [hl] at h; cases h
  | some p =>
    rw [hl] at h
    obtain ⟨x, row⟩ := p
    simp only at h
    have hx : tol < absR (x - b) := hoff (x, row) hl
    rw [if_pos hx] at h
    cases hi : interpFreq f e b with
    | error er => rw [hi] at h; cases h
    | ok r =>
      rw [hi] at h
      injection h with h
      exact ⟨r, rfl, h.symm⟩

theorem bandRows_label_mem (f : Vec) (e : Mat) (fmin fmax : Option Rat) (p : Rat × Vec)
    (hp : p ∈ bandRows f e fmin fmax) : p.1 ∈ f := by
  unfold bandRows at hp
  exact (List.of_mem_zip (List.mem_filter.mp hp).1).1

/-- **split_cut_interpolated**: with `interpolate=True`, a lower cutoff `a` that is not a grid frequency (farther
    than `tol` from every grid frequency) becomes the first output frequency, and its row is the linear
    interpolation of the two neighbouring grid rows (convex combination, see `interpFreq_spec`), at the kept
    columns -/
theorem split_cut_interpolated (tol : Rat) (f d : Vec) (e : Mat) (a : Rat) (fmax dmin dmax : Option Rat)
    (o : SplitOut) (h : split tol f (some d) e (some a) fmax dmin dmax true = .ok o)
    (hoff : ∀ x ∈ f, tol < absR (x - a)) :
    ∃ r, interpFreq f e a = .ok r ∧ o.freq.head? = some a ∧
      ∀ j, j < o.cols.length → get2 o.e 0 j = getR r (o.cols.getD j 0) := by
  unfold split at h
  split at h
  · cases h
  · split at h
    · cases h
    · split at h
      · cases h
      · rename_i rows1 h1
        split at h
        · cases h
        · rename_i rows2 h2
          obtain ⟨r, hr, e1⟩ := addLow_adds _ _ _ _ _ _ h1
            (fun p hp => hoff _ (bandRows_label_mem _ _ _ _ p hp))
          obtain ⟨hi, e2, _⟩ := addHigh_ok _ _ _ _ _ _ _ h2
          simp only at h
          injection h with h
          refine ⟨r, hr, by rw [← h, e2, e1]; rfl, fun j hj => ?_⟩
          rw [← h] at hj ⊢
          simp only at hj ⊢
          rw [get2_pickCols _ _ _ _ hj, e2, e1]
          rfl

/-- the same at the upper cutoff (which must also be farther than `tol` from the lower cutoff): it becomes the
    last output frequency with the interpolated row -/
theorem split_cut_interpolated_high (tol : Rat) (f d : Vec) (e : Mat) (b : Rat) (fmin dmin dmax : Option Rat)
    (o : SplitOut) (h : split tol f (some d) e fmin (some b) dmin dmax true = .ok o)
    (hoff : ∀ x ∈ f, tol < absR (x - b)) (hab : ∀ a, fmin = some a → tol < absR (a - b)) :
    ∃ r, interpFreq f e b = .ok r ∧ o.freq.getLast? = some b ∧
      ∀ j, j < o.cols.length → get2 o.e (o.freq.length - 1) j = getR r (o.cols.getD j 0) := by
  unfold split at h
  split at h
  · cases h
  · split at h
    · cases h
    · split at h
      · cases h
      · rename_i rows1 h1
        split at h
        · cases h
        · rename_i rows2 h2
          obtain ⟨lo, e1, hlo⟩ := addLow_ok _ _ _ _ _ _ _ h1
          have hoff1 : ∀ p, rows1.getLast? = some p → tol < absR (p.1 - b) := by
            intro p hp
            by_cases hband : bandRows f e fmin (some b) = []
            · rw [e1, hband, List.append_nil] at hp
              rcases hlo with rfl | ⟨a, r, _, ha, _, rfl⟩
              · simp at hp
              · simp only [List.getLast?_singleton, Option.some.injEq] at hp
                rw [← hp]; exact hab a ha
            · rw [e1, List.getLast?_append_of_ne_nil _ hband] at hp
              exact hoff _ (bandRows_label_mem _ _ _ _ p (List.mem_of_getLast? hp))
          obtain ⟨r, hr, e2⟩ := addHigh_adds _ _ _ _ _ _ h2 hoff1
          simp only at h
          injection h with h
          refine ⟨r, hr, by rw [← h, e2]; simp, fun j hj => ?_⟩
          rw [← h] at hj ⊢
          simp only at hj ⊢
          rw [get2_pickCols _ _ _ _ hj, e2]
          unfold get2
          congr 1
          simp [List.getD_eq_getElem?_getD]

/-! ### both cut-offs inside one frequency cell (repaired by 310e6c4) -/

/-- **split_one_cell**: when no grid frequency lies in the band (both cut-offs strictly inside one cell) the
    result consists of exactly the two interpolated rows, labelled `fmin` and `fmax` -/
theorem split_one_cell (tol : Rat) (f d : Vec) (e : Mat) (a b : Rat) (dmin dmax : Option Rat) (ra rb : Vec)
    (hab : tol < absR (a - b)) (hlt : a < b) (hd : badOrder dmin dmax = false)
    (hempty : bandRows f e (some a) (some b) = [])
    (ha : interpFreq f e a = .ok ra) (hb : interpFreq f e b = .ok rb) :
    split tol f (some d) e (some a) (some b) dmin dmax true =
      .ok { freq := [a, b], cols := dirCols d dmin dmax, dirs := some (pickV (dirCols d dmin dmax) d),
            e := pickCols (dirCols d dmin dmax) [ra, rb] } := by
  have hbo : badOrder (some a) (some b) = false := by simp [badOrder, hlt]
  unfold split
  rw [hbo, hd, hempty]
  simp [addLow, addHigh, ha, hb, hab, Except.map]

/-- **split_no_indexError**: `split` never raises `IndexError` when a grid frequency lies in the band, nor —
    since 310e6c4 — when a lower cut-off is given with interpolation on (whatever the band) -/
theorem split_no_indexError (tol : Rat) (f : Vec) (dirs : Option Vec) (e : Mat)
    (fmin fmax dmin dmax : Option Rat) (interp : Bool)
    (hne : bandRows f e fmin fmax ≠ [] ∨ (interp = true ∧ fmin.isSome = true)) :
    split tol f dirs e fmin fmax dmin dmax interp ≠ .error .indexError := by
  have interp_ne : ∀ x, interpFreq f e x ≠ .error .indexError := by
    intro x
    unfold interpFreq
    split
    · intro hc; cases hc
    · simp only
      split <;> (intro hc; cases hc)
  have mapcase : ∀ (a : Rat) (g : Vec → List (Rat × Vec)) (r : Except Err (List (Rat × Vec))),
      (interpFreq f e a).map g = r → (∀ v, g v ≠ []) →
      r ≠ .error .indexError ∧ ∀ rows1, r = .ok rows1 → rows1 ≠ [] := by
    intro a g r hr hg
    cases hi : interpFreq f e a with
    | error er =>
      rw [hi] at hr
      refine ⟨?_, fun rows1 h1 => ?_⟩
      · rw [← hr]; intro hc
        have : er = .indexError := by injection hc
        exact interp_ne a (by rw [hi, this])
      · rw [← hr] at h1; cases h1
    | ok r0 =>
      rw [hi] at hr
      refine ⟨(by rw [← hr]; intro hc; cases hc), fun rows1 h1 => ?_⟩
      rw [← hr] at h1; injection h1 with h1; rw [← h1]; exact hg r0
  have low : ∀ rows, (rows ≠ [] ∨ (interp = true ∧ fmin.isSome = true)) →
      ∀ r, addLow tol f e fmin interp rows = r →
      r ≠ .error .indexError ∧ ∀ rows1, r = .ok rows1 → rows1 ≠ [] := by
    intro rows hrows r hr
    unfold addLow at hr
    split at hr
    · rename_i a
      cases rows with
      | nil => exact mapcase a _ r hr (by intro v; simp)
      | cons p t =>
        obtain ⟨x, row⟩ := p
        simp only at hr
        split at hr
        · exact mapcase a _ r hr (by intro v; simp)
        · refine ⟨(by rw [← hr]; intro hc; cases hc), fun rows1 h1 => ?_⟩
          rw [← hr] at h1; injection h1 with h1; rw [← h1]; simp
    · rename_i hnot
      have hrows' : rows ≠ [] := by
        rcases hrows with h | ⟨h1, h2⟩
        · exact h
        · exfalso
          cases fmin with
          | none => simp at h2
          | some a => exact hnot a h1 rfl
      refine ⟨(by rw [← hr]; intro hc; cases hc), fun rows1 h1 => ?_⟩
      rw [← hr] at h1; injection h1 with h1; rw [← h1]; exact hrows'
  have high : ∀ rows, rows ≠ [] → addHigh tol f e fmax interp rows ≠ .error .indexError := by
    intro rows hrows
    unfold addHigh
    split
    · rename_i b
      cases hl : rows.getLast? with
      | none => exact absurd (List.getLast?_eq_none_iff.mp hl) hrows
      | some p =>
        obtain ⟨x, row⟩ := p
        simp only
        split
        · exact (mapcase b _ _ rfl (by intro v; simp)).1
        · intro hc; cases hc
    · intro hc; cases hc
  unfold split
  split
  · intro hc; cases hc
  · split
    · intro hc; cases hc
    · obtain ⟨l1, l2⟩ := low _ hne _ rfl
      split
      · rename_i er h1
        intro hc
        have : er = .indexError := by injection hc
        exact l1 (by rw [h1, this])
      · rename_i rows1 h1
        have hr1 := l2 rows1 h1
        split
        · rename_i er h2
          intro hc
          have : er = .indexError := by injection hc
          exact high rows1 hr1 (by rw [h2, this])
        · split <;> (intro hc; cases hc)

/-! ### statistics with limits -/

/-- **stats_split_eq**: a statistic called through `stats(..., fmin, fmax, dmin, dmax)` is that statistic of the
    explicitly split spectrum whenever some limit is truthy, and of the untouched spectrum otherwise -/
theorem stats_split_eq {α : Type} (g : SplitOut → α) (tol : Rat) (f : Vec) (dirs : Option Vec) (e : Mat)
    (fmin fmax dmin dmax : Option Rat) :
    (anyTruthy fmin fmax dmin dmax = true →
      statsBand g tol f dirs e fmin fmax dmin dmax = (split tol f dirs e fmin fmax dmin dmax true).map g) ∧
    (anyTruthy fmin fmax dmin dmax = false →
      statsBand g tol f dirs e fmin fmax dmin dmax =
        .ok (g { freq := f, cols := List.range ((dirs.getD [0]).length), dirs := dirs, e := e })) := by
  unfold statsBand statsInput
  constructor
  · intro h; rw [if_pos h]
  · intro h; rw [if_neg (by simp [h])]; rfl

/-! ## PTM5 (frequency cut-off) -/

/-- the single factor of `ptm5`: the `maintain_m0` scale of `regrid_spec` when the cut-off was inserted
    (`0` standing for the NaN of an all-zero spectrum, which `fillna(0.0)` turns into zeros), `1` otherwise -/
def ptm5K (thr q : Rat) (f dirs : Vec) (e : Mat) (fcut : Rat) (interp : Bool) : Rat :=
  match ptm5Factor thr q f dirs e fcut interp with
  | some k => k
  | none => 0

/-- `ptm5` = masks applied to `k ·` (the regridded / sorted spectrum `ptm5Base`) -/
theorem ptm5_eq (thr q : Rat) (f dirs : Vec) (e : Mat) (fcut : Rat) (interp : Bool) :
    ptm5 thr q f dirs e fcut interp =
      ((ptm5Base f dirs e fcut interp).1, (ptm5Base f dirs e fcut interp).2.1,
       whereM (fun x (_ : Rat) => decide (fcut ≤ x)) (ptm5Base f dirs e fcut interp).1
         (ptm5Base f dirs e fcut interp).2.1
         (scaleM (ptm5K thr q f dirs e fcut interp) (ptm5Base f dirs e fcut interp).2.2.1),
       whereM (fun x (_ : Rat) => decide (x ≤ fcut)) (ptm5Base f dirs e fcut interp).1
         (ptm5Base f dirs e fcut interp).2.1
         (scaleM (ptm5K thr q f dirs e fcut interp) (ptm5Base f dirs e fcut interp).2.2.1)) := by
  unfold ptm5 ptm5K
  cases ptm5Factor thr q f dirs e fcut interp <;> rfl

/-- **ptm5_zero_beyond**: the sea partition is zero strictly below the cut-off, the swell partition strictly
    above it -/
theorem ptm5_zero_beyond (thr q : Rat) (f dirs : Vec) (e : Mat) (fcut : Rat) (interp : Bool) (i j : Nat)
    (hi : i < (ptm5 thr q f dirs e fcut interp).1.length)
    (hj : j < (ptm5 thr q f dirs e fcut interp).2.1.length) :
    (getR (ptm5 thr q f dirs e fcut interp).1 i < fcut →
      get2 (ptm5 thr q f dirs e fcut interp).2.2.1 i j = 0) ∧
    (fcut < getR (ptm5 thr q f dirs e fcut interp).1 i →
      get2 (ptm5 thr q f dirs e fcut interp).2.2.2 i j = 0) := by
  rw [ptm5_eq] at hi hj ⊢
  simp only at hi hj ⊢
  constructor
  · intro h
    rw [get2_whereM _ _ _ _ i j hi hj, if_neg (by simpa using h)]
  · intro h
    rw [get2_whereM _ _ _ _ i j hi hj, if_neg (by simpa using h)]

/-- **ptm5_single_factor**: on its side of the cut-off (cut-off row included) each partition equals `k ·` the
    input — more precisely `k ·` the base spectrum: the input itself (sorted by direction) when the cut-off is a
    grid frequency, else the input with the linearly interpolated row inserted at the cut-off — with one and
    the same `k` for every bin of both partitions, and `k = 1` when nothing was inserted -/
theorem ptm5_single_factor (thr q : Rat) (f dirs : Vec) (e : Mat) (fcut : Rat) (interp : Bool) :
    ∃ k : Rat, ((ptm5Base f dirs e fcut interp).2.2.2 = false → k = 1) ∧
      ∀ i j, i < (ptm5 thr q f dirs e fcut interp).1.length →
        j < (ptm5 thr q f dirs e fcut interp).2.1.length →
        (fcut ≤ getR (ptm5 thr q f dirs e fcut interp).1 i →
          get2 (ptm5 thr q f dirs e fcut interp).2.2.1 i j =
            k * get2 (ptm5Base f dirs e fcut interp).2.2.1 i j) ∧
        (getR (ptm5 thr q f dirs e fcut interp).1 i ≤ fcut →
          get2 (ptm5 thr q f dirs e fcut interp).2.2.2 i j =
            k * get2 (ptm5Base f dirs e fcut interp).2.2.1 i j) := by
  refine ⟨ptm5K thr q f dirs e fcut interp, ?_, ?_⟩
  · intro hrg
    unfold ptm5K ptm5Factor
    simp only [hrg]
    rfl
  · intro i j hi hj
    rw [ptm5_eq] at hi hj ⊢
    simp only at hi hj ⊢
    constructor
    · intro h
      rw [get2_whereM _ _ _ _ i j hi hj, if_pos (by simpa using h), get2_scaleM]
    · intro h
      rw [get2_whereM _ _ _ _ i j hi hj, if_pos (by simpa using h), get2_scaleM]

/-- on a grid frequency (or with `interpolate=False`) nothing is inserted: the base is the input sorted by
    direction, so `ptm5` keeps the input bins unchanged on each side (`k = 1`) -/
theorem ptm5_on_grid (f dirs : Vec) (e : Mat) (fcut : Rat) (interp : Bool)
    (h : fcut ∈ f ∨ interp = false) :
    ptm5Base f dirs e fcut interp = (f, pickV (sortIdx dirs) dirs, pickCols (sortIdx dirs) e, false) := by
  unfold ptm5Base
  have : (interp && !(f.contains fcut)) = false := by
    rcases h with h | h
    · simp [h]
    · simp [h]
  rw [this]; rfl

/-- off the grid the cut-off is inserted in order, every grid row is kept as it is, and the new row is
    `interpAt` -/
theorem ptm5_off_grid (f dirs : Vec) (e : Mat) (fcut : Rat) (h : fcut ∉ f) :
    ptm5Base f dirs e fcut true =
      (f.take (searchsorted f fcut) ++ fcut :: f.drop (searchsorted f fcut), dirs,
       e.take (searchsorted f fcut) ++ interpAt f e fcut :: e.drop (searchsorted f fcut), true) := by
  unfold ptm5Base
  simp [h]

/-- the inserted row is the linear interpolation between the two grid rows that enclose the cut-off -/
theorem interpAt_spec (f : Vec) (e : Mat) (x : Rat) (h0 : getR f 0 < x) (h1 : x < vmax f) :
    ∃ k lam, 0 < k ∧ k < f.length ∧ getR f (k - 1) < x ∧ x ≤ getR f k ∧
      lam = (getR f k - x) / (getR f k - getR f (k - 1)) ∧ 0 ≤ lam ∧ lam < 1 ∧
      ∀ j, j < (e.getD (k - 1) []).length → j < (e.getD k []).length →
        getR (interpAt f e x) j = lam * getR (e.getD (k - 1) []) j + (1 - lam) * getR (e.getD k []) j := by
  set k := searchsorted f x with hk
  have hne : f ≠ [] := by
    intro hnil; rw [hnil] at h0 h1; simp [getR, vmax] at h0 h1; linarith
  have hkpos : 0 < k := by
    by_contra hc
    have hk0 : k = 0 := by omega
    have hlen : 0 < f.length := List.length_pos_iff.mpr hne
    have := ge_at_searchsorted f x (by rw [← hk, hk0]; exact hlen)
    rw [← hk, hk0] at this
    linarith
  have hklt : k < f.length := by
    by_contra hc
    have hkeq : k = f.length := le_antisymm (searchsorted_le f x) (by omega)
    have := vmax_lt_of_all f x hne (fun i hi => lt_of_lt_searchsorted f x i (by rw [← hk, hkeq]; exact hi))
    linarith
  have hx0 : getR f (k - 1) < x := lt_of_lt_searchsorted f x (k - 1) (by omega)
  have hx1 : x ≤ getR f k := ge_at_searchsorted f x hklt
  have hlt : getR f (k - 1) < getR f k := lt_of_lt_of_le hx0 hx1
  have hpos : 0 < getR f k - getR f (k - 1) := sub_pos.mpr hlt
  refine ⟨k, (getR f k - x) / (getR f k - getR f (k - 1)), hkpos, hklt, hx0, hx1, rfl, ?_, ?_, ?_⟩
  · exact div_nonneg (by linarith) (le_of_lt hpos)
  · rw [div_lt_one hpos]; linarith
  · intro j hj0 hj1
    have hval : interpAt f e x = lerpRow (getR f (k - 1)) (getR f k) x (e.getD (k - 1) []) (e.getD k []) := by
      unfold interpAt
      simp only [← hk]
      rw [if_neg (by omega), if_neg (by omega), if_neg (ne_of_gt hpos)]
    rw [hval, getR_lerpRow _ _ _ _ _ j hj0 hj1, lerp_convex _ _ _ _ _ hlt]

/-- **the factor is the variance-preserving one**: when the cut-off was inserted and the regridded spectrum has
    energy, `k = hs(in)²/hs(out)²` and the scaled spectrum has exactly the variance of the input -/
theorem ptm5_factor_preserves_variance (thr q : Rat) (f dirs : Vec) (e : Mat) (fcut : Rat) (h : fcut ∉ f)
    (hE : hsOf thr q (ptm5Base f dirs e fcut true).1 dirs (ptm5Base f dirs e fcut true).2.2.1 ≠ 0) :
    ptm5K thr q f dirs e fcut true =
      hsOf thr q f dirs e / hsOf thr q (ptm5Base f dirs e fcut true).1 dirs (ptm5Base f dirs e fcut true).2.2.1 ∧
    hsOf thr q (ptm5Base f dirs e fcut true).1 dirs
      (scaleM (ptm5K thr q f dirs e fcut true) (ptm5Base f dirs e fcut true).2.2.1) = hsOf thr q f dirs e := by
  have hk : ptm5K thr q f dirs e fcut true =
      hsOf thr q f dirs e / hsOf thr q (ptm5Base f dirs e fcut true).1 dirs (ptm5Base f dirs e fcut true).2.2.1 := by
    unfold ptm5K ptm5Factor
    rw [ptm5_off_grid f dirs e fcut h] at hE ⊢
    simp only at hE ⊢
    simp [divOpt, hE]
  refine ⟨hk, ?_⟩
  rw [hsOf_scaleM, hk]
  field_simp

-- the hypotheses are satisfiable: a cut-off between two grid frequencies of a spectrum with energy
example : (3/16 : Rat) ∉ [(1/8 : Rat), 1/4, 1/2] ∧
    hsOf Consts.thr Consts.quarter (ptm5Base [1/8, 1/4, 1/2] [0, 90] [[1, 2], [3, 4], [5, 6]] (3/16) true).1 [0, 90]
      (ptm5Base [1/8, 1/4, 1/2] [0, 90] [[1, 2], [3, 4], [5, 6]] (3/16) true).2.2.1 ≠ 0 := by decide +kernel
example : ptm5 Consts.thr Consts.quarter [1/8, 1/4, 1/2] [90, 0] [[1, 2], [3, 4], [5, 6]] (1/4) true =
    ([1/8, 1/4, 1/2], [0, 90], [[0, 0], [4, 3], [6, 5]], [[2, 1], [4, 3], [0, 0]]) := by decide +kernel
example : getR [(1/8 : Rat), 1/4, 1/2] 0 < 3/16 ∧ (3/16 : Rat) < vmax [1/8, 1/4, 1/2] := by decide +kernel

/-! ## the hypotheses of the theorems above are satisfiable (non-vacuity) -/

/-- a 4×3 spectrum stored with directions `90, 0, 180` -/
def fX : Vec := [1/8, 1/4, 1/2, 1]
def dX : Vec := [90, 0, 180]
def eX : Mat := [[1, 2, 3], [4, 5, 6], [7, 8, 9], [10, 11, 12]]

-- a successful split with both cut-offs off the grid, a direction limit, interpolation on: split_shape,
-- split_inside_unchanged, split_outside_removed, split_cut_interpolated(_high), interpFreq_spec
example : (match split splitTol fX (some dX) eX (some (3/16)) (some (3/4)) (some 0) (some 100) true with
    | .ok o => (o.freq, o.cols, o.dirs, o.e)
    | .error _ => ([], [], none, [])) =
    ([3/16, 1/4, 1/2, 3/4], [1, 0], some [0, 90], [[7/2, 5/2], [5, 4], [8, 7], [19/2, 17/2]]) := by
  decide +kernel
example : (∀ x ∈ fX, splitTol < absR (x - 3/16)) ∧ (∀ x ∈ fX, splitTol < absR (x - 3/4)) ∧
    splitTol < absR (3/16 - 3/4) := by decide +kernel
example : (match interpFreq fX eX (3/16) with | .ok r => r | .error _ => []) = [5/2, 7/2, 9/2] := by
  decide +kernel
example : (1 : Nat) < fX.length ∧ (1 : Nat) < eX.length ∧ inBand (some (3/16)) (some (3/4)) (getR fX 1) = true := by
  decide +kernel
-- split_one_cell / split_no_indexError: a band inside the cell (1/8, 1/4)
example : bandRows fX eX (some (3/16)) (some (3/4)) ≠ [] ∧ bandRows fX eX (some (3/16)) (some (7/32)) = [] ∧
    splitTol < absR (3/16 - 7/32) := by decide +kernel
example : (match split splitTol fX (some dX) eX (some (3/16)) (some (7/32)) none none true with
    | .ok o => (o.freq, o.e) | .error _ => ([], [])) = ([3/16, 7/32], [[5/2, 7/2, 9/2], [13/4, 17/4, 21/4]]) := by
  decide +kernel
-- 1-D split (split_shape_1d)
example : (match split splitTol [1/8, 1/4, 1/2] none [[1], [4], [7]] (some (1/4)) none none none true with
    | .ok o => (o.freq, o.e) | .error _ => ([], [])) = ([1/4, 1/2], [[4], [7]]) := by decide +kernel
-- bbox: member/complement/sum/disjoint (the two-box example above succeeds); every bin of that example lies in at
-- most one box
example : ∀ i ∈ [0, 1, 2], ∀ j ∈ [0, 1, 2, 3],
    ((rectsOf [1/8, 1/4, 1/2] [0, 90, 180, 270]
        [⟨.omitted, .val (1/4), .omitted, .val 90⟩, ⟨.val (3/8), .none, .val 180, .omitted⟩]).filter
      fun r => inRect r (getR [1/8, 1/4, 1/2] i) (getR [0, 90, 180, 270] j)).length ≤ 1 := by decide +kernel
-- overlap_rejected: a common interior point of two effective rectangles
example : ∃ x y : Rat, (1/8 : Rat) < x ∧ x < 1/4 ∧ (0 : Rat) < y ∧ y < 90 ∧ (3/16 : Rat) < x ∧ x < 1/2 ∧ (0 : Rat) < y ∧ y < 90 :=
  ⟨7/32, 45, by norm_num, by norm_num, by norm_num, by norm_num, by norm_num, by norm_num, by norm_num, by norm_num⟩
-- is_overlap_spec: non-degenerate rectangles
example : Gen.isOverlap 0 0 2 2 1 1 3 3 = true ∧ Gen.isOverlap 0 0 1 1 1 0 2 1 = false := by decide +kernel
-- bbox_default_dmax_partial
example : (⟨.omitted, .val (1/4), .none, .val 90⟩ : Box).dmax ≠ .omitted ∧
    (⟨.omitted, .val (1/4), .none, .val 90⟩ : Box).fmax ≠ .val 0 := by decide +kernel
-- ptm5_on_grid / ptm5_off_grid
example : (1/4 : Rat) ∈ [(1/8 : Rat), 1/4, 1/2] := by decide +kernel
-- stats_split_eq
example : anyTruthy (some (1/4)) none none none = true ∧ anyTruthy none none none (some 0) = false := by decide +kernel

end WS.C09

import WsVerif.Model.Stats
import WsVerif.Model.Peak
import WsVerif.Lemmas.Perm
import WsVerif.Lemmas.Argmax
import WsVerif.Props.C01
/-!
# C05 — results depend on the labelled values, not on the storage order

A spectrum is `e : Mat` (rows = frequencies, columns = directions **in stored order**) together with the
direction-indexed tables `s c t : Vec` (sin / cos / projection table per stored direction) and the stored
direction labels `dirs : Vec`.  No memory layout exists in the model; the stored direction *order* does.

A re-ordering of the stored directions acts on the columns of every row and on every direction-indexed
table alike.  It is described in the most general way by two relations (`Lemmas/Perm.lean`):

* `RowsPerm e e'` — each row of `e'` is a permutation of the same row of `e`;
* `Alike t t' e e'` — in each row the (value, table entry) pairs are the same multiset before and after.

Both hold (theorems `rowsPerm_*`, `alike_*` below) for the concrete re-orderings the property names —
`List.rotate k` (the stored sequence starts elsewhere on the circle), `List.reverse` (descending storage) —
and for `reorder σ` with `σ` *any* permutation of the column indices (in particular the sorting
permutation: "sort before = sort after").  The statistics theorems are stated for the relations and then
specialised.  All statements hold for every number of frequencies and directions.
-/
namespace WS.C05
open WS WS.Stats WS.Peak

/-! ### the concrete re-orderings satisfy the relations -/

theorem rowsPerm_rotate (e : Mat) (k : Nat) : RowsPerm e (e.map (·.rotate k)) :=
  forall₂_map_same _ e fun r _ => (List.rotate_perm r k).symm

theorem rowsPerm_reverse (e : Mat) : RowsPerm e (e.map List.reverse) :=
  forall₂_map_same _ e fun r _ => (List.reverse_perm r).symm

theorem rowsPerm_reorder {σ : List Nat} {m : Nat} (hσ : σ.Perm (List.range m)) (e : Mat)
    (hrow : ∀ r ∈ e, r.length = m) : RowsPerm e (e.map (reorder σ)) :=
  forall₂_map_same _ e fun r hr => (reorder_perm hσ r (hrow r hr)).symm

theorem alike_rotate (t : Vec) (e : Mat) (k : Nat) (hrow : ∀ r ∈ e, r.length = t.length) :
    Alike t (t.rotate k) e (e.map (·.rotate k)) := by
  unfold Alike
  refine forall₂_map_same _ e fun r hr => ?_
  · rw [List.zip_eq_zipWith, List.zip_eq_zipWith, ← List.zipWith_rotate_distrib _ _ _ _ (hrow r hr)]
    exact (List.rotate_perm _ k).symm

theorem alike_reverse (t : Vec) (e : Mat) (hrow : ∀ r ∈ e, r.length = t.length) :
    Alike t t.reverse e (e.map List.reverse) := by
  unfold Alike
  refine forall₂_map_same _ e fun r hr => ?_
  · rw [List.zip_eq_zipWith, List.zip_eq_zipWith, ← List.reverse_zipWith (hrow r hr)]
    exact (List.reverse_perm _).symm

theorem alike_reorder {σ : List Nat} {m : Nat} (hσ : σ.Perm (List.range m)) (t : Vec) (e : Mat)
    (ht : t.length = m) (hrow : ∀ r ∈ e, r.length = m) :
    Alike t (reorder σ t) e (e.map (reorder σ)) := by
  unfold Alike
  exact forall₂_map_same _ e fun r hr => reorder_zip_perm hσ r t (hrow r hr) ht

/-- rotation and reversal are index re-orderings -/
theorem rotate_is_reorder (l : Vec) (k : Nat) :
    l.rotate k = reorder ((List.range l.length).rotate k) l ∧
    ((List.range l.length).rotate k).Perm (List.range l.length) :=
  ⟨rotate_eq_reorder l _ k rfl, List.rotate_perm _ k⟩

theorem reverse_is_reorder (l : Vec) :
    l.reverse = reorder (List.range l.length).reverse l ∧
    (List.range l.length).reverse.Perm (List.range l.length) :=
  ⟨reverse_eq_reorder l _ rfl, List.reverse_perm _⟩

/-! ### statistics of the direction-integrated spectrum -/

/-- the direction-integrated spectrum does not depend on the stored order of the directions -/
theorem oned_perm (ddv : ℚ) {e e' : Mat} (h : RowsPerm e e') : oned ddv e = oned ddv e' :=
  map_forall₂ h fun _ _ hr => by rw [hr.sum_eq]

theorem m0E_perm (ddv : ℚ) (f : Vec) {e e' : Mat} (h : RowsPerm e e') :
    m0E f (oned ddv e) = m0E f (oned ddv e') := by rw [oned_perm ddv h]

theorem hsE_perm (thr q : ℚ) (tail : Bool) (ddv : ℚ) (f : Vec) {e e' : Mat} (h : RowsPerm e e') :
    hsE thr q tail f (oned ddv e) = hsE thr q tail f (oned ddv e') := by rw [oned_perm ddv h]

theorem momf_perm (k : Nat) (ddv : ℚ) (f : Vec) {e e' : Mat} (h : RowsPerm e e') :
    momf k f (oned ddv e) = momf k f (oned ddv e') := by rw [oned_perm ddv h]

theorem tm01_perm (ddv : ℚ) (f : Vec) {e e' : Mat} (h : RowsPerm e e') :
    tm01 f (oned ddv e) = tm01 f (oned ddv e') := by rw [oned_perm ddv h]

theorem tm02Sq_perm (ddv : ℚ) (f : Vec) {e e' : Mat} (h : RowsPerm e e') :
    tm02Sq f (oned ddv e) = tm02Sq f (oned ddv e') := by rw [oned_perm ddv h]

theorem sweSq_perm (ddv : ℚ) (f : Vec) {e e' : Mat} (h : RowsPerm e e') :
    sweSq f (oned ddv e) = sweSq f (oned ddv e') := by rw [oned_perm ddv h]

theorem swSq_perm (ddv : ℚ) (f : Vec) {e e' : Mat} (h : RowsPerm e e') :
    swSq f (oned ddv e) = swSq f (oned ddv e') := by rw [oned_perm ddv h]

theorem gwSq_perm (thr q ddv : ℚ) (f : Vec) {e e' : Mat} (h : RowsPerm e e') :
    gwSq thr q f (oned ddv e) = gwSq thr q f (oned ddv e') := by rw [oned_perm ddv h]

theorem goda_perm (ddv : ℚ) (f : Vec) {e e' : Mat} (h : RowsPerm e e') :
    goda f (oned ddv e) = goda f (oned ddv e') := by rw [oned_perm ddv h]

theorem mss_perm (ddv : ℚ) (k2 f : Vec) {e e' : Mat} (h : RowsPerm e e') :
    mss k2 f (oned ddv e) = mss k2 f (oned ddv e') := by rw [oned_perm ddv h]

/-- peak frequency (index, smooth and discrete value) -/
theorem fp_perm (ddv : ℚ) (f : Vec) {e e' : Mat} (h : RowsPerm e e') :
    peakIdx (oned ddv e) = peakIdx (oned ddv e') ∧
    fpSmooth f (oned ddv e) = fpSmooth f (oned ddv e') ∧
    fpDiscrete f (oned ddv e) = fpDiscrete f (oned ddv e') := by rw [oned_perm ddv h]; simp

/-! ### directional moments: rows and table re-ordered alike -/

/-- per-frequency first directional moment `Σ_j Δθ E_ij t_j` -/
theorem momdRow_perm (ddv : ℚ) {t t' : Vec} {e e' : Mat} (h : Alike t t' e e') :
    momdRow ddv t e = momdRow ddv t' e' :=
  map_forall₂ h fun _ _ hr => sum_zipWith_perm _ hr

theorem dmVec_perm (ddv : ℚ) {s s' c c' : Vec} {e e' : Mat} (hs : Alike s s' e e') (hc : Alike c c' e e') :
    dmVec ddv s c e = dmVec ddv s' c' e' := by
  unfold dmVec; rw [momdRow_perm ddv hs, momdRow_perm ddv hc]

theorem dsprABE_perm (ddv : ℚ) (f : Vec) {s s' c c' : Vec} {e e' : Mat} (h : RowsPerm e e')
    (hs : Alike s s' e e') (hc : Alike c c' e e') :
    dsprABE ddv s c f e = dsprABE ddv s' c' f e' := by
  unfold dsprABE; rw [momdRow_perm ddv hs, momdRow_perm ddv hc, oned_perm ddv h]

theorem dpmVec_perm (ddv : ℚ) {s s' c c' : Vec} {e e' : Mat} (h : RowsPerm e e')
    (hs : Alike s s' e e') (hc : Alike c c' e e') :
    dpmVec ddv s c e = dpmVec ddv s' c' e' := by
  unfold dpmVec; rw [momdRow_perm ddv hs, momdRow_perm ddv hc, oned_perm ddv h]

theorem dpsprABE_perm (ddv : ℚ) (f : Vec) {s s' c c' : Vec} {e e' : Mat} (h : RowsPerm e e')
    (hs : Alike s s' e e') (hc : Alike c c' e e') :
    dpsprABE ddv s c f e = dpsprABE ddv s' c' f e' := by
  unfold dpsprABE; rw [momdRow_perm ddv hs, momdRow_perm ddv hc, oned_perm ddv h]

/-- Stokes-drift style double sums (`uss_x`, `uss_y`, `uss`): the projection table re-ordered alike -/
theorem ussSum_perm (ddv : ℚ) (fk f : Vec) {t t' : Vec} {e e' : Mat} (h : Alike t t' e e') :
    ussSum ddv fk t f e = ussSum ddv fk t' f e' := by
  unfold ussSum
  rw [zipWith_forall₂ h _ fun p _ _ hr => sum_zipWith_perm (fun x y => ddv * p.1 * y * x * p.2) hr]

/-- the published double-sum definitions are invariant as well -/
theorem specDirMom_perm (ddv : ℚ) (f : Vec) {t t' : Vec} {e e' : Mat} (h : Alike t t' e e') :
    specDirMom ddv t f e = specDirMom ddv t' f e' := by
  rw [← C01.momd_eq_spec, ← C01.momd_eq_spec, momdRow_perm ddv h]

theorem specMom_perm (k : Nat) (ddv : ℚ) (f : Vec) {e e' : Mat} (h : RowsPerm e e') :
    specMom k ddv f e = specMom k ddv f e' := by
  rw [← C01.momf_eq_spec, ← C01.momf_eq_spec, oned_perm ddv h]

/-! ### `to_energy`: the labelled values agree -/

/-- relational form: if (value, direction label) pairs agree row by row before, they agree after -/
theorem toEnergy_perm (ddv : ℚ) (f : Vec) {dirs dirs' : Vec} {e e' : Mat} (h : Alike dirs dirs' e e') :
    Alike dirs dirs' (toEnergy ddv f e) (toEnergy ddv f e') := by
  unfold toEnergy
  refine forall₂_zipWith_left (R' := fun (r r' : Vec) => (r.zip dirs).Perm (r'.zip dirs')) h (df f) ?_
  intro r r' d hr
  rw [List.zip_map_left, List.zip_map_left]
  exact hr.map _

/-- `to_energy` commutes with any column operation that commutes with the scaling of a row -/
theorem toEnergy_comm (ddv : ℚ) (f : Vec) (e : Mat) (P : Vec → Vec)
    (hP : ∀ d r, P (r.map fun x => x * d * ddv) = (P r).map fun x => x * d * ddv) :
    toEnergy ddv f (e.map P) = (toEnergy ddv f e).map P := by
  unfold toEnergy
  rw [List.zipWith_map_left, List.map_zipWith]
  congr 1
  funext r d
  exact (hP d r).symm

/-- `to_energy` of the rotated storage is the rotated `to_energy` -/
theorem toEnergy_rotate (ddv : ℚ) (f : Vec) (e : Mat) (k : Nat) :
    toEnergy ddv f (e.map (·.rotate k)) = (toEnergy ddv f e).map (·.rotate k) :=
  toEnergy_comm ddv f e _ fun _ r => (List.map_rotate _ r k).symm

theorem toEnergy_reverse (ddv : ℚ) (f : Vec) (e : Mat) :
    toEnergy ddv f (e.map List.reverse) = (toEnergy ddv f e).map List.reverse :=
  toEnergy_comm ddv f e _ fun _ _ => List.map_reverse.symm

theorem toEnergy_reorder (ddv : ℚ) (f : Vec) (e : Mat) (σ : List Nat) :
    toEnergy ddv f (e.map (reorder σ)) = (toEnergy ddv f e).map (reorder σ) :=
  toEnergy_comm ddv f e _ fun d r => reorder_map σ _ (by ring) r

/-! ### everything at once; rotation, reversal, sorting -/

/-- all integrated statistics of the model that involve the direction axis -/
def allStats (thr q : ℚ) (tail : Bool) (ddv : ℚ) (f k2 fk s c t : Vec) (e : Mat) :=
  (oned ddv e, hsE thr q tail f (oned ddv e), m0E f (oned ddv e), (fun k => momf k f (oned ddv e)),
   tm01 f (oned ddv e), tm02Sq f (oned ddv e), sweSq f (oned ddv e), swSq f (oned ddv e),
   gwSq thr q f (oned ddv e), goda f (oned ddv e), mss k2 f (oned ddv e),
   fpSmooth f (oned ddv e), fpDiscrete f (oned ddv e),
   dmVec ddv s c e, dsprABE ddv s c f e, dpmVec ddv s c e, dpsprABE ddv s c f e, ussSum ddv fk t f e)

theorem allStats_perm (thr q : ℚ) (tail : Bool) (ddv : ℚ) (f k2 fk : Vec) {s s' c c' t t' : Vec} {e e' : Mat}
    (h : RowsPerm e e') (hs : Alike s s' e e') (hc : Alike c c' e e') (ht : Alike t t' e e') :
    allStats thr q tail ddv f k2 fk s c t e = allStats thr q tail ddv f k2 fk s' c' t' e' := by
  unfold allStats
  rw [oned_perm ddv h, dmVec_perm ddv hs hc, dsprABE_perm ddv f h hs hc, dpmVec_perm ddv h hs hc,
    dpsprABE_perm ddv f h hs hc, ussSum_perm ddv fk f ht]

/-- the stored direction sequence starts elsewhere on the circle -/
theorem allStats_rotate (thr q : ℚ) (tail : Bool) (ddv : ℚ) (f k2 fk s c t : Vec) (e : Mat) (m k : Nat)
    (hs : s.length = m) (hc : c.length = m) (ht : t.length = m) (hrow : ∀ r ∈ e, r.length = m) :
    allStats thr q tail ddv f k2 fk (s.rotate k) (c.rotate k) (t.rotate k) (e.map (·.rotate k)) =
      allStats thr q tail ddv f k2 fk s c t e :=
  (allStats_perm thr q tail ddv f k2 fk (rowsPerm_rotate e k)
    (alike_rotate s e k fun r hr => by rw [hrow r hr, hs])
    (alike_rotate c e k fun r hr => by rw [hrow r hr, hc])
    (alike_rotate t e k fun r hr => by rw [hrow r hr, ht])).symm

/-- descending instead of ascending storage -/
theorem allStats_reverse (thr q : ℚ) (tail : Bool) (ddv : ℚ) (f k2 fk s c t : Vec) (e : Mat) (m : Nat)
    (hs : s.length = m) (hc : c.length = m) (ht : t.length = m) (hrow : ∀ r ∈ e, r.length = m) :
    allStats thr q tail ddv f k2 fk s.reverse c.reverse t.reverse (e.map List.reverse) =
      allStats thr q tail ddv f k2 fk s c t e :=
  (allStats_perm thr q tail ddv f k2 fk (rowsPerm_reverse e)
    (alike_reverse s e fun r hr => by rw [hrow r hr, hs])
    (alike_reverse c e fun r hr => by rw [hrow r hr, hc])
    (alike_reverse t e fun r hr => by rw [hrow r hr, ht])).symm

/-- **sort before = sort after**: for *any* permutation `σ` of the stored direction indices — in particular
    the one that sorts the direction labels — computing the statistics on the re-ordered storage gives the
    statistics of the original storage -/
theorem sort_before_eq_sort_after (thr q : ℚ) (tail : Bool) (ddv : ℚ) (f k2 fk s c t : Vec) (e : Mat)
    (m : Nat) (σ : List Nat) (hσ : σ.Perm (List.range m))
    (hs : s.length = m) (hc : c.length = m) (ht : t.length = m) (hrow : ∀ r ∈ e, r.length = m) :
    allStats thr q tail ddv f k2 fk (reorder σ s) (reorder σ c) (reorder σ t) (e.map (reorder σ)) =
      allStats thr q tail ddv f k2 fk s c t e :=
  (allStats_perm thr q tail ddv f k2 fk (rowsPerm_reorder hσ e hrow)
    (alike_reorder hσ s e hs hrow) (alike_reorder hσ c e hc hrow) (alike_reorder hσ t e ht hrow)).symm

/-! ### `dd` of a uniform full-circle grid, however it is stored -/

/-- if cyclically consecutive stored labels differ by `δ` or `360 − δ`, the bin width is `δ` -/
theorem dd_of_circAdj (δ : ℚ) (S : Vec) (hδ : 0 ≤ δ) (hδ2 : δ ≤ 180) (hlen : 2 ≤ S.length)
    (h : CircAdj δ S) : dd (some S) = δ := by
  match S, hlen, h with
  | a :: b :: rest, hlen, h =>
    have h0 := h 0 (by simp)
    have e : (0 + 1) % (a :: b :: rest).length = 1 := Nat.mod_eq_of_lt (by simp)
    rw [e] at h0
    exact C01.dd_seam a b δ rest hδ hδ2 h0

theorem uniform_bounds (δ : ℚ) (m : Nat) (hm : 2 ≤ m) (hfull : (m : ℚ) * δ = 360) : 0 < δ ∧ δ ≤ 180 := by
  have h2 : (2 : ℚ) ≤ (m : ℚ) := by exact_mod_cast hm
  have hpos : 0 < δ := by
    by_contra hn
    have : (m : ℚ) * δ ≤ 0 := mul_nonpos_of_nonneg_of_nonpos (by linarith) (not_lt.mp hn)
    linarith
  exact ⟨hpos, by nlinarith⟩

/-- `dd` does not depend on where the stored sequence of a uniform full-circle grid starts, nor on its
    sense, nor on whether the labels are reduced to `[0, 360)`: for `θ_j = θ0 + j·δ`, `m·δ = 360`, `m ≥ 2`,
    stored rotated by any `k`, reversed, or both, `dd = δ` -/
theorem dd_rot_rev (θ0 δ : ℚ) (m k : Nat) (hm : 2 ≤ m) (hfull : (m : ℚ) * δ = 360) :
    dd (some ((ugrid θ0 δ m).rotate k)) = δ ∧
    dd (some (ugrid θ0 δ m).reverse) = δ ∧
    dd (some ((ugrid θ0 δ m).rotate k).reverse) = δ ∧
    dd (some ((ugrid θ0 δ m).reverse.rotate k)) = δ ∧
    dd (some ((ugridMod θ0 δ m).rotate k)) = δ ∧
    dd (some (ugridMod θ0 δ m).reverse) = δ ∧
    dd (some ((ugridMod θ0 δ m).rotate k).reverse) = δ ∧
    dd (some ((ugridMod θ0 δ m).reverse.rotate k)) = δ := by
  obtain ⟨hδ, hδ2⟩ := uniform_bounds δ m hm hfull
  have h1 := circAdj_ugrid θ0 δ m hδ hδ2 hfull
  have h2 := circAdj_ugridMod θ0 δ m hδ hδ2 hfull
  have l1 : (ugrid θ0 δ m).length = m := by simp [ugrid]
  have l2 : (ugridMod θ0 δ m).length = m := by simp [ugridMod]
  refine ⟨?_, ?_, ?_, ?_, ?_, ?_, ?_, ?_⟩ <;> apply dd_of_circAdj δ _ hδ.le hδ2
  all_goals first
    | (simp only [List.length_rotate, List.length_reverse, l1, l2]; exact hm)
    | skip
  · exact circAdj_rotate h1 k
  · exact circAdj_reverse h1
  · exact circAdj_reverse (circAdj_rotate h1 k)
  · exact circAdj_rotate (circAdj_reverse h1) k
  · exact circAdj_rotate h2 k
  · exact circAdj_reverse h2
  · exact circAdj_reverse (circAdj_rotate h2 k)
  · exact circAdj_rotate (circAdj_reverse h2) k

/-- in particular the grid as generated (`k = 0`) -/
theorem dd_uniform (θ0 δ : ℚ) (m : Nat) (hm : 2 ≤ m) (hfull : (m : ℚ) * δ = 360) :
    dd (some (ugrid θ0 δ m)) = δ ∧ dd (some (ugridMod θ0 δ m)) = δ := by
  have := dd_rot_rev θ0 δ m 0 hm hfull
  simp only [List.rotate_zero] at this
  exact ⟨this.1, this.2.2.2.2.1⟩

/-! ### peak direction: the label, not the position -/

theorem colSums_rotate (m k : Nat) (e : Mat) (hrow : ∀ r ∈ e, r.length = m) :
    colSums m (e.map (·.rotate k)) = (colSums m e).rotate k := by
  have : e.map (·.rotate k) = e.map (reorder ((List.range m).rotate k)) :=
    List.map_congr_left fun r hr => rotate_eq_reorder r m k (hrow r hr)
  rw [this, colSums_reorder (List.rotate_perm _ k), ← rotate_eq_reorder _ m k (colSums_length m e)]

theorem colSums_reverse (m : Nat) (e : Mat) (hrow : ∀ r ∈ e, r.length = m) :
    colSums m (e.map List.reverse) = (colSums m e).reverse := by
  have : e.map List.reverse = e.map (reorder (List.range m).reverse) :=
    List.map_congr_left fun r hr => reverse_eq_reorder r m (hrow r hr)
  rw [this, colSums_reorder (List.reverse_perm _), ← reverse_eq_reorder _ m (colSums_length m e)]

/-- whatever the storage order, the direction label returned by `dp` is the label of *a* maximiser of the
    frequency-summed spectrum -/
theorem dp_perm_is_maximiser (m : Nat) (hm : 0 < m) {σ : List Nat} (hσ : σ.Perm (List.range m))
    (dirs : Vec) (e : Mat) :
    ∃ q < m, (∀ i < m, getR (colSums m e) i ≤ getR (colSums m e) q) ∧
      getR (reorder σ dirs) (dpIdx m (e.map (reorder σ))) = getR dirs q := by
  unfold dpIdx
  rw [colSums_reorder hσ]
  have hl := colSums_length m e
  have hne : colSums m e ≠ [] := by
    intro h; rw [h] at hl; simp at hl; omega
  obtain ⟨h1, h2, h3⟩ := argmax_reorder (σ := σ) (colSums m e) (by rw [hl]; exact hσ) hne
  rw [hl] at h2 h3
  exact ⟨_, h2, h3, getR_reorder σ dirs _ h1⟩

/-- if the frequency-summed spectrum has a unique maximum, the peak-direction **label** is the same for
    every storage order -/
theorem dp_perm_unique_max (m : Nat) (hm : 0 < m) {σ : List Nat} (hσ : σ.Perm (List.range m))
    (dirs : Vec) (e : Mat)
    (hu : ∀ j < m, j ≠ dpIdx m e → getR (colSums m e) j < getR (colSums m e) (dpIdx m e)) :
    getR (reorder σ dirs) (dpIdx m (e.map (reorder σ))) = getR dirs (dpIdx m e) := by
  obtain ⟨q, hq, hmax, hlab⟩ := dp_perm_is_maximiser m hm hσ dirs e
  rw [hlab]
  by_cases hqp : q = dpIdx m e
  · rw [hqp]
  · exfalso
    have h1 := hu q hq hqp
    have hne : colSums m e ≠ [] := by
      intro h; have := colSums_length m e; rw [h] at this; simp at this; omega
    have hp : dpIdx m e < m := by
      have := (argmaxFirst_spec (colSums m e) hne).1
      rwa [colSums_length] at this
    have h2 := hmax (dpIdx m e) hp
    linarith

theorem dp_rotate_unique_max (m k : Nat) (hm : 0 < m) (dirs : Vec) (e : Mat)
    (hd : dirs.length = m) (hrow : ∀ r ∈ e, r.length = m)
    (hu : ∀ j < m, j ≠ dpIdx m e → getR (colSums m e) j < getR (colSums m e) (dpIdx m e)) :
    getR (dirs.rotate k) (dpIdx m (e.map (·.rotate k))) = getR dirs (dpIdx m e) := by
  have he : e.map (·.rotate k) = e.map (reorder ((List.range m).rotate k)) :=
    List.map_congr_left fun r hr => rotate_eq_reorder r m k (hrow r hr)
  rw [he, rotate_eq_reorder dirs m k hd]
  exact dp_perm_unique_max m hm (List.rotate_perm _ k) dirs e hu

theorem dp_reverse_unique_max (m : Nat) (hm : 0 < m) (dirs : Vec) (e : Mat)
    (hd : dirs.length = m) (hrow : ∀ r ∈ e, r.length = m)
    (hu : ∀ j < m, j ≠ dpIdx m e → getR (colSums m e) j < getR (colSums m e) (dpIdx m e)) :
    getR dirs.reverse (dpIdx m (e.map List.reverse)) = getR dirs (dpIdx m e) := by
  have he : e.map List.reverse = e.map (reorder (List.range m).reverse) :=
    List.map_congr_left fun r hr => reverse_eq_reorder r m (hrow r hr)
  rw [he, reverse_eq_reorder dirs m hd]
  exact dp_perm_unique_max m hm (List.reverse_perm _) dirs e hu

/-- why uniqueness is needed: with two equal maxima the first *stored* one wins, so reversal changes the
    label (`[10, 20, 30]` → `10` as stored, `30` reversed) -/
theorem dp_tie_depends_on_order :
    getR [10, 20, 30] (dpIdx 3 [[1, 0, 1]]) = 10 ∧
    getR [10, 20, 30].reverse (dpIdx 3 ([[1, 0, 1]].map List.reverse)) = 30 := by decide +kernel

/-! ### non-vacuity of the hypotheses -/

example : RowsPerm [[1, 2, 3], [4, 5, 6]] ([[1, 2, 3], [4, 5, 6]].map (·.rotate 1)) := rowsPerm_rotate _ 1
example := alike_rotate [7, 8, 9] [[1, 2, 3], [4, 5, 6]] 2 (by decide)
example := alike_reverse [7, 8, 9] [[1, 2, 3], [4, 5, 6]] (by decide)
example : [2, 0, 1].Perm (List.range 3) := by decide
example := alike_reorder (σ := [2, 0, 1]) (m := 3) (by decide) [7, 8, 9] [[1, 2, 3], [4, 5, 6]] rfl (by decide)
example := allStats_rotate (333/1000) (1/4) true 120 [1/10, 2/10] [1, 1] [1, 1] [0, 1, -1] [1, 0, 0] [1, 1, 1]
  [[1, 2, 3], [4, 5, 6]] 3 1 rfl rfl rfl (by decide)
example := allStats_reverse (333/1000) (1/4) true 120 [1/10, 2/10] [1, 1] [1, 1] [0, 1, -1] [1, 0, 0] [1, 1, 1]
  [[1, 2, 3], [4, 5, 6]] 3 rfl rfl rfl (by decide)
example := sort_before_eq_sort_after (333/1000) (1/4) true 120 [1/10, 2/10] [1, 1] [1, 1] [0, 1, -1] [1, 0, 0]
  [1, 1, 1] [[1, 2, 3], [4, 5, 6]] 3 [2, 0, 1] (by decide) rfl rfl rfl (by decide)
example : momdRow 120 [0, 1, -1] [[1, 2, 3], [4, 5, 6]] =
    momdRow 120 ([0, 1, -1].rotate 1) ([[1, 2, 3], [4, 5, 6]].map (·.rotate 1)) := by decide +kernel
/-- the WW3-style seam: 8 directions of 45°, stored from 315 — `dd` is 45, not 315 -/
example : (ugridMod 0 45 8).rotate 7 = [315, 0, 45, 90, 135, 180, 225, 270] := by decide +kernel
example : dd (some [315, 0, 45, 90, 135, 180, 225, 270]) = 45 := by decide +kernel
example := dd_rot_rev 0 45 8 7 (by decide) (by norm_num)
example := dd_rot_rev 5 180 2 1 (by decide) (by norm_num)
example : ∀ j < 3, j ≠ dpIdx 3 [[1, 5, 2], [0, 1, 1]] →
    getR (colSums 3 [[1, 5, 2], [0, 1, 1]]) j < getR (colSums 3 [[1, 5, 2], [0, 1, 1]]) (dpIdx 3 [[1, 5, 2], [0, 1, 1]]) := by
  decide +kernel
example := dp_rotate_unique_max 3 2 (by decide) [10, 130, 250] [[1, 5, 2], [0, 1, 1]] rfl (by decide)
  (by decide +kernel)
example := dp_perm_is_maximiser 3 (by decide) (σ := [2, 0, 1]) (by decide) [10, 130, 250] [[1, 0, 1]]
example := rowsPerm_reorder (σ := [2, 0, 1]) (m := 3) (by decide) [[1, 2, 3], [4, 5, 6]] (by decide)
example := oned_perm 120 (rowsPerm_rotate [[1, 2, 3], [4, 5, 6]] 1)
example := hsE_perm (333/1000) (1/4) true 120 [1/10, 2/10] (rowsPerm_reverse [[1, 2, 3], [4, 5, 6]])
example := momdRow_perm 120 (alike_rotate [0, 1, -1] [[1, 2, 3], [4, 5, 6]] 1 (by decide))
example := dpmVec_perm 120 (rowsPerm_reverse [[1, 2, 3], [4, 5, 6]])
  (alike_reverse [0, 1, -1] [[1, 2, 3], [4, 5, 6]] (by decide)) (alike_reverse [1, 0, 0] [[1, 2, 3], [4, 5, 6]] (by decide))
example := ussSum_perm 120 [1, 1] [1/10, 2/10] (alike_rotate [1, 1, 1] [[1, 2, 3], [4, 5, 6]] 2 (by decide))
example := toEnergy_perm 120 [1/10, 2/10] (alike_rotate [10, 130, 250] [[1, 2, 3], [4, 5, 6]] 2 (by decide))
example := colSums_rotate 3 2 [[1, 5, 2], [0, 1, 1]] (by decide)
example := colSums_reverse 3 [[1, 5, 2], [0, 1, 1]] (by decide)
example := dd_of_circAdj 45 _ (by norm_num) (by norm_num) (by decide)
  (circAdj_rotate (circAdj_ugridMod 0 45 8 (by norm_num) (by norm_num) (by norm_num)) 7)
example := uniform_bounds 45 8 (by decide) (by norm_num)
example := dd_uniform (-10) 120 3 (by decide) (by norm_num)
example := dp_reverse_unique_max 3 (by decide) [10, 130, 250] [[1, 5, 2], [0, 1, 1]] rfl (by decide)
  (by decide +kernel)
example := dp_perm_unique_max 3 (by decide) (σ := [2, 0, 1]) (by decide) [10, 130, 250] [[1, 5, 2], [0, 1, 1]]
  (by decide +kernel)

end WS.C05

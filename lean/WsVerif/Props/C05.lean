import WsVerif.Model.Stats
import Mathlib.Algebra.BigOperators.Group.List.Basic
import Mathlib.Algebra.Order.Field.Rat
/-! placeholder until the permutation theorems land (replaced by the full file) -/
namespace WS.C05
theorem sum_perm (a b : List ℚ) (h : a.Perm b) : a.sum = b.sum := h.sum_eq
end WS.C05

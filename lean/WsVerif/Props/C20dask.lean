import WsVerif.Props.C07dask
/-!
# C20 — no statistic raises because of how its input is chunked

C20 ("valid spectra never crash") includes dask-backed spectra whose spectral dimensions are split into chunks: a kernel applied
over a core dimension that is still in several chunks raises `ValueError` inside `apply_ufunc`.  The regenerated rechunk plan
(`Gen.daskAudit`, `harness/translate_dims.py`) and the chunk algebra of `Props/C07.lean` are restated here as C20 obligations, so
that a dropped or conditional `.chunk({dim: -1})` in front of an `apply_ufunc` is reported by this property's own check as well.
-/
namespace WS.C20
open WS WS.Chunk WS.DimSem

/-- every `apply_ufunc` of the library brings each of its core dimensions to one chunk before the kernel runs -/
theorem gendask_plan_complete : ∀ u ∈ Gen.daskAudit, u.ok = true := C07.gendask_all_ok

/-- hence no kernel application fails for ANY chunking of a core dimension: it returns the in-memory value -/
theorem gendask_never_raises {β : Type} (f : List Rat → β) (u : DaskUse) (hu : u ∈ Gen.daskAudit) (d : String)
    (hd : d ∈ u.core) (c : Chunks) : ∃ v, applyCore f (C07.planOf u d c) = .ok v :=
  ⟨_, C07.gendask_apply_succeeds f u hu d hd c⟩

/-- the hypothesis is met by every statistic that goes through `apply_ufunc` (non-vacuity): e.g. `alpha` over `freq` -/
theorem gendask_alpha_listed : ∃ u ∈ Gen.daskAudit, u.fn = "alpha" ∧ "freq" ∈ u.core := by decide

end WS.C20

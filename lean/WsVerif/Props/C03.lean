import WsVerif.Model.Assembly
import WsVerif.Lemmas.Assembly
import WsVerif.Model.Consts
import WsVerif.Gen.Lits
/-!
# C03 — watershed partitions are a sound, ordered, energy-conserving split

All statements are about `ptm1 / ptm2 / ptm3` of `Model/Assembly.lean` (the model of `np_ptm1/2/3`) and hold for
**every** list of bins — i.e. every grid size, every spectrum, every label map `w` (in particular whatever the C
watershed returns), every wave-age mask — every sort key `key` (in particular `npHsKey f dirs`, the radicand of
`npstats.hs`), every cutoff `wscut` and every requested count.

Vocabulary (`Lemmas/Assembly.lean`): `colCount ps i` = number of partitions of `ps` whose assignment mask holds at
bin `i`; `colSum ps i` = sum over the partitions of `ps` of their value at bin `i`; `select bins sel` =
`(mask, np.where(mask, E, 0))` for the mask `sel`.

Findings visible here: bins labelled `0` belong to no partition (`sum_exact_full_fails_*`), so the unconditional
conservation statement `SumExactFull` is false of the code; `sum_exact_ptm*` are the `_partial` versions under
"every bin carries a label ≥ 1".
-/
namespace WS.C03
open WS WS.Assembly

/-! ## T-tier: the literals of the code the model depends on -/

/-- `np_ptm1`: basins are numbered from `1` (`ipart + 1`), masked-out bins are `0.0`, null swells are those whose sum
    is not `> 0`; `np_ptm2` the same; `np_ptm3` starts `range(1, nparts + 1)`. -/
theorem lits_np_ptm : Gen.lits_partition_np_ptm1 = [1, 1, 1, 0, 0] ∧ Gen.lits_partition_np_ptm2 = [1, 1, 1, 0, 0, 0, 0]
    ∧ Gen.lits_partition_np_ptm3 = [1, 1, 0] := by decide +kernel

/-- the sort key is `npstats.hs`: trapezoid `0.5`, tail above `0.333` Hz with weight `0.25`, `4·sqrt` -/
theorem lits_sort_key : Gen.lits_npstats_hs =
    [1, 1, 1, 1, 0, 360, 1, 1/2, 1, 1, 1, Consts.thr, Consts.quarter, 1, 1, 4] := by decide +kernel

/-! ## soundness of every output bin -/

/-- a partition is *bin-sound* for the spectrum: its mask covers the grid, its values are `where(mask, E, 0)`, so
    each output bin is the spectrum's bin or `0` -/
def BinSound (bins : List Bin) (p : Part) : Prop :=
  p.mask.length = bins.length ∧
  p.vals = List.zipWith (fun (m : Bool) (b : Bin) => if m then b.e else 0) p.mask bins ∧
  List.Forall₂ (fun (v : Rat) (b : Bin) => v = b.e ∨ v = 0) p.vals bins

theorem select_binSound (bins : List Bin) (sel : Bin → Bool) : BinSound bins (select bins sel) := by
  refine ⟨by simp, ?_, ?_⟩
  · rw [select_mask, select_vals]
    induction bins with
    | nil => rfl
    | cons b t ih => simp [ih]
  · rw [select_vals, List.forall₂_map_left_iff, List.forall₂_same]
    intro b _
    by_cases h : sel b = true <;> simp [h]

theorem bin_sound_ptm1 (key : Vec → Rat) (wscut : Rat) (bins : List Bin) (cnt : Option Nat) :
    ∀ p ∈ ptm1 key wscut bins cnt, BinSound bins p := by
  intro p hp
  rw [ptm1_struct] at hp
  obtain ⟨sel, rfl⟩ := gen_select _ _ _ _ p hp
  exact select_binSound bins sel

theorem bin_sound_ptm2 (key : Vec → Rat) (wscut : Rat) (bins : List Bin) (cnt : Option Nat) :
    ∀ p ∈ ptm2 key wscut bins cnt, BinSound bins p := by
  intro p hp
  rw [ptm2_struct] at hp
  obtain ⟨sel, rfl⟩ := gen_select _ _ _ _ p hp
  exact select_binSound bins sel

theorem bin_sound_ptm3 (key : Vec → Rat) (bins : List Bin) (cnt : Option Nat) :
    ∀ p ∈ ptm3 key bins cnt, BinSound bins p := by
  intro p hp
  rw [ptm3_struct] at hp
  obtain ⟨sel, rfl⟩ := gen_select _ _ _ _ p hp
  exact select_binSound bins sel

/-! ## number of partitions returned -/

/-- PTM1 returns exactly `swells + 1` partitions -/
theorem len_ptm1 (key : Vec → Rat) (wscut : Rat) (bins : List Bin) (s : Nat) :
    (ptm1 key wscut bins (some s)).length = s + 1 := by
  unfold ptm1
  simp only [List.length_cons]
  rw [fitCount_length]
  simp [ptm1Sorted, sortSlots_length, ptm1Slots, labels_length]

/-- PTM2 returns exactly `swells + 2` partitions -/
theorem len_ptm2 (key : Vec → Rat) (wscut : Rat) (bins : List Bin) (s : Nat) :
    (ptm2 key wscut bins (some s)).length = s + 2 := by
  unfold ptm2
  simp only [List.length_cons]
  rw [fitCount_length]
  simp [ptm2Sorted, sortSlots_length, ptm2Slots, labels_length]

/-- PTM3 returns exactly `parts` partitions, and every detected one when `parts=None` -/
theorem len_ptm3 (key : Vec → Rat) (bins : List Bin) (s : Nat) :
    (ptm3 key bins (some s)).length = s ∧ (ptm3 key bins none).length = nparts bins := by
  unfold ptm3
  constructor
  · simp only
    rw [fitCount_length]
    simp [ptm3Sorted, sortSlots_length, ptm3Slots, labels_length]
  · simp [ptm3Sorted, sortSlots_length, ptm3Slots, labels_length]

/-! ## no bin in two partitions -/

theorem masks_disjoint_ptm1 (key : Vec → Rat) (wscut : Rat) (bins : List Bin) (cnt : Option Nat) (i : Nat) :
    colCount (ptm1 key wscut bins cnt) i ≤ 1 := by
  rw [ptm1_struct]
  exact gen_disjoint _ _ _ _ (outDs_nodup _ _ _ _ _ _ _ _ (heads1_nodup bins)) i

theorem masks_disjoint_ptm2 (key : Vec → Rat) (wscut : Rat) (bins : List Bin) (cnt : Option Nat) (i : Nat) :
    colCount (ptm2 key wscut bins cnt) i ≤ 1 := by
  rw [ptm2_struct]
  exact gen_disjoint _ _ _ _ (outDs_nodup _ _ _ _ _ _ _ _ (heads2_nodup bins)) i

theorem masks_disjoint_ptm3 (key : Vec → Rat) (bins : List Bin) (cnt : Option Nat) (i : Nat) :
    colCount (ptm3 key bins cnt) i ≤ 1 := by
  rw [ptm3_struct]
  exact gen_disjoint _ _ _ _ (outDs_nodup _ _ _ _ _ _ _ _ (heads3_nodup bins)) i

/-! ## conservation -/

/-- **PTM1 conserves energy bin for bin** when at least as many swells are requested as basins were detected and
    every bin carries a label `≥ 1` -/
theorem sum_exact_ptm1 (key : Vec → Rat) (wscut : Rat) (bins : List Bin) (s : Nat)
    (hcover : ∀ b ∈ bins, 1 ≤ b.lab) (hreq : nparts bins ≤ s) (i : Nat) (hi : i < bins.length) :
    colSum (ptm1 key wscut bins (some s)) i = bins[i].e := by
  rw [ptm1_struct, gen_sum _ _ _ _ (outDs_nodup _ _ _ _ _ _ _ _ (heads1_nodup bins)) i hi]
  have hb : bins[i] ∈ bins := List.getElem_mem hi
  rw [if_pos]
  rcases dest1_some (wscut := wscut) hb (hcover _ hb) with h | h
  · exact ⟨_, outDs_full _ _ _ _ _ _ _ _ hreq (Or.inl (by simp)), h⟩
  · exact ⟨_, outDs_full _ _ _ _ _ _ _ _ hreq (Or.inr (swell_lab_mem hb (hcover _ hb))), h⟩

theorem sum_exact_ptm2 (key : Vec → Rat) (wscut : Rat) (bins : List Bin) (s : Nat)
    (hcover : ∀ b ∈ bins, 1 ≤ b.lab) (hreq : nparts bins ≤ s) (i : Nat) (hi : i < bins.length) :
    colSum (ptm2 key wscut bins (some s)) i = bins[i].e := by
  rw [ptm2_struct, gen_sum _ _ _ _ (outDs_nodup _ _ _ _ _ _ _ _ (heads2_nodup bins)) i hi]
  have hb : bins[i] ∈ bins := List.getElem_mem hi
  rw [if_pos]
  rcases dest2_some (wscut := wscut) hb (hcover _ hb) with h | h | h
  · exact ⟨_, outDs_full _ _ _ _ _ _ _ _ hreq (Or.inl (by simp)), h⟩
  · exact ⟨_, outDs_full _ _ _ _ _ _ _ _ hreq (Or.inl (by simp)), h⟩
  · exact ⟨_, outDs_full _ _ _ _ _ _ _ _ hreq (Or.inr (swell_lab_mem hb (hcover _ hb))), h⟩

theorem sum_exact_ptm3 (key : Vec → Rat) (bins : List Bin) (s : Nat)
    (hcover : ∀ b ∈ bins, 1 ≤ b.lab) (hreq : nparts bins ≤ s) (i : Nat) (hi : i < bins.length) :
    colSum (ptm3 key bins (some s)) i = bins[i].e := by
  rw [ptm3_struct, gen_sum _ _ _ _ (outDs_nodup _ _ _ _ _ _ _ _ (heads3_nodup bins)) i hi]
  have hb : bins[i] ∈ bins := List.getElem_mem hi
  rw [if_pos]
  refine ⟨_, outDs_full _ _ _ _ _ _ _ _ hreq (Or.inr (swell_lab_mem hb (hcover _ hb))), ?_⟩
  unfold dest3
  rw [if_pos ((lab_mem_labels hb).mpr (hcover _ hb))]

/-- `parts=None` of PTM3 returns every basin: conservation without a count hypothesis -/
theorem sum_exact_ptm3_none (key : Vec → Rat) (bins : List Bin)
    (hcover : ∀ b ∈ bins, 1 ≤ b.lab) (i : Nat) (hi : i < bins.length) :
    colSum (ptm3 key bins none) i = bins[i].e := by
  rw [ptm3_struct, gen_sum _ _ _ _ (outDs_nodup _ _ _ _ _ _ _ _ (heads3_nodup bins)) i hi]
  have hb : bins[i] ∈ bins := List.getElem_mem hi
  rw [if_pos]
  refine ⟨Dest.swell bins[i].lab, ?_, ?_⟩
  · unfold outDs
    simp only [List.nil_append, Bool.false_eq_true, if_false]
    exact (sortDs_perm _ _ _ _).mem_iff.mpr (swell_lab_mem hb (hcover _ hb))
  · unfold dest3
    rw [if_pos ((lab_mem_labels hb).mpr (hcover _ hb))]

/-- `swells=None` (every non-null swell is returned) conserves the energy of a non-negative spectrum too -/
theorem sum_exact_none (key : Vec → Rat) (wscut : Rat) (bins : List Bin)
    (hcover : ∀ b ∈ bins, 1 ≤ b.lab) (hnonneg : ∀ b ∈ bins, 0 ≤ b.e) (i : Nat) (hi : i < bins.length) :
    colSum (ptm1 key wscut bins none) i = bins[i].e ∧ colSum (ptm2 key wscut bins none) i = bins[i].e := by
  constructor
  · have h := sum_exact_ptm1 key wscut bins (nparts bins) hcover le_rfl i hi
    unfold ptm1 fitCount at h
    simp only [lt_irrefl, if_false] at h
    unfold ptm1
    simp only
    rw [colSum_cons] at h ⊢
    rw [colSum_dropNull _ i, h]
    intro p hp
    have hp' := (List.mergeSort_perm _ _).mem_iff.mp hp
    rw [ptm1Slots_eq] at hp'
    obtain ⟨d, _, rfl⟩ := List.mem_map.mp hp'
    exact select_vals_nonneg bins _ hnonneg
  · have h := sum_exact_ptm2 key wscut bins (nparts bins) hcover le_rfl i hi
    unfold ptm2 fitCount at h
    simp only [lt_irrefl, if_false] at h
    unfold ptm2
    simp only
    rw [colSum_cons, colSum_cons] at h ⊢
    rw [colSum_dropNull _ i, h]
    intro p hp
    have hp' := (List.mergeSort_perm _ _).mem_iff.mp hp
    rw [ptm2Slots_eq] at hp'
    obtain ⟨d, _, rfl⟩ := List.mem_map.mp hp'
    exact select_vals_nonneg bins _ hnonneg

/-- whatever is requested, the partitions of a non-negative spectrum never add to more than the spectrum -/
theorem sum_le_ptm1 (key : Vec → Rat) (wscut : Rat) (bins : List Bin) (cnt : Option Nat)
    (hnonneg : ∀ b ∈ bins, 0 ≤ b.e) (i : Nat) (hi : i < bins.length) :
    0 ≤ colSum (ptm1 key wscut bins cnt) i ∧ colSum (ptm1 key wscut bins cnt) i ≤ bins[i].e := by
  rw [ptm1_struct, gen_sum _ _ _ _ (outDs_nodup _ _ _ _ _ _ _ _ (heads1_nodup bins)) i hi]
  have := hnonneg _ (List.getElem_mem hi)
  split_ifs <;> constructor <;> linarith

theorem sum_le_ptm2 (key : Vec → Rat) (wscut : Rat) (bins : List Bin) (cnt : Option Nat)
    (hnonneg : ∀ b ∈ bins, 0 ≤ b.e) (i : Nat) (hi : i < bins.length) :
    0 ≤ colSum (ptm2 key wscut bins cnt) i ∧ colSum (ptm2 key wscut bins cnt) i ≤ bins[i].e := by
  rw [ptm2_struct, gen_sum _ _ _ _ (outDs_nodup _ _ _ _ _ _ _ _ (heads2_nodup bins)) i hi]
  have := hnonneg _ (List.getElem_mem hi)
  split_ifs <;> constructor <;> linarith

theorem sum_le_ptm3 (key : Vec → Rat) (bins : List Bin) (cnt : Option Nat)
    (hnonneg : ∀ b ∈ bins, 0 ≤ b.e) (i : Nat) (hi : i < bins.length) :
    0 ≤ colSum (ptm3 key bins cnt) i ∧ colSum (ptm3 key bins cnt) i ≤ bins[i].e := by
  rw [ptm3_struct, gen_sum _ _ _ _ (outDs_nodup _ _ _ _ _ _ _ _ (heads3_nodup bins)) i hi]
  have := hnonneg _ (List.getElem_mem hi)
  split_ifs <;> constructor <;> linarith

/-- **bins labelled `0` are lost**: whatever is requested, no partition of PTM1/2/3 holds anything at a bin whose
    watershed label is `0` (the model's statement of the findings `constant_nonzero_spectrum`, `wshed_label0_bins`) -/
theorem label0_bins_lost (key : Vec → Rat) (wscut : Rat) (bins : List Bin) (cnt : Option Nat) (i : Nat)
    (hi : i < bins.length) (h0 : bins[i].lab = 0) :
    colSum (ptm1 key wscut bins cnt) i = 0 ∧ colSum (ptm2 key wscut bins cnt) i = 0 ∧
      colSum (ptm3 key bins cnt) i = 0 := by
  have hnm : bins[i].lab ∉ labels bins := by
    intro hm
    have := (mem_labels.mp hm).1
    omega
  refine ⟨?_, ?_, ?_⟩
  · rw [ptm1_struct, gen_sum _ _ _ _ (outDs_nodup _ _ _ _ _ _ _ _ (heads1_nodup bins)) i hi, if_neg]
    rintro ⟨d, _, hd⟩
    unfold dest1 at hd
    rw [if_neg hnm] at hd
    cases hd
  · rw [ptm2_struct, gen_sum _ _ _ _ (outDs_nodup _ _ _ _ _ _ _ _ (heads2_nodup bins)) i hi, if_neg]
    rintro ⟨d, _, hd⟩
    unfold dest2 at hd
    rw [if_neg hnm] at hd
    cases hd
  · rw [ptm3_struct, gen_sum _ _ _ _ (outDs_nodup _ _ _ _ _ _ _ _ (heads3_nodup bins)) i hi, if_neg]
    rintro ⟨d, _, hd⟩
    unfold dest3 at hd
    rw [if_neg hnm] at hd
    cases hd

/-- the statement without the coverage hypothesis — what the property text asks for -/
def SumExactFull : Prop :=
  ∀ (key : Vec → Rat) (bins : List Bin) (s : Nat), nparts bins ≤ s →
    ∀ (i : Nat) (hi : i < bins.length), colSum (ptm3 key bins (some s)) i = bins[i].e

/-- refuted by a constant spectrum: the watershed labels every bin `0`, all the energy is lost -/
theorem sum_exact_full_fails_constant : ¬ SumExactFull := by
  intro h
  have h1 := h (fun _ => 0) [⟨3, 0, false⟩, ⟨3, 0, false⟩, ⟨3, 0, false⟩, ⟨3, 0, false⟩] 3 (by decide) 0 (by decide)
  rw [(label0_bins_lost (fun _ => 0) 0 _ (some 3) 0 (by decide) rfl).2.2] at h1
  revert h1
  decide +kernel

/-- refuted by a label map that keeps a watershed-line bin (label `0`) between two basins -/
theorem sum_exact_full_fails_label0 : ¬ SumExactFull := by
  intro h
  have h1 := h (fun v => v.sum) [⟨5, 1, false⟩, ⟨2, 0, false⟩, ⟨4, 2, false⟩] 2 (by decide) 1 (by decide)
  rw [(label0_bins_lost (fun v => v.sum) 0 _ (some 2) 1 (by decide) rfl).2.2] at h1
  revert h1
  decide +kernel

/-- `_partial`: conservation holds as soon as every bin carries a label `≥ 1` -/
theorem sum_exact_partial (key : Vec → Rat) (bins : List Bin) (s : Nat) (hcover : ∀ b ∈ bins, 1 ≤ b.lab)
    (hreq : nparts bins ≤ s) : ∀ (i : Nat) (hi : i < bins.length), colSum (ptm3 key bins (some s)) i = bins[i].e :=
  fun i hi => sum_exact_ptm3 key bins s hcover hreq i hi

/-! ## order of the swells, what is dropped -/

/-- keys never increase along `fitCount … (sorted slots)`, zero padding last, if the all-zero array has the smallest key -/
theorem fitCount_sorted (key : Vec → Rat) (bins : List Bin) (n s : Nat) (slots : List Part)
    (hkey0 : ∀ p ∈ slots, key (zeros bins).vals ≤ key p.vals) :
    ((fitCount bins n s (sortSlots key slots)).map (fun p => key p.vals)).Pairwise (fun x y => y ≤ x) := by
  have hs := sortSlots_pairwise key slots
  have hmap : ∀ l : List Part, l.Sublist (sortSlots key slots) →
      (l.map (fun p => key p.vals)).Pairwise (fun x y => y ≤ x) := by
    intro l hl
    rw [List.pairwise_map]
    exact hs.sublist hl
  unfold fitCount
  split_ifs with h1 h2
  · exact hmap _ (List.take_sublist _ _)
  · rw [List.map_append, List.pairwise_append]
    refine ⟨hmap _ (List.Sublist.refl _), ?_, ?_⟩
    · rw [List.map_replicate]
      exact List.pairwise_replicate.mpr (Or.inr le_rfl)
    · intro x hx y hy
      rw [List.map_replicate] at hy
      rw [(List.mem_replicate.mp hy).2]
      obtain ⟨p, hp, rfl⟩ := List.mem_map.mp hx
      exact hkey0 p ((sortSlots_perm key slots).mem_iff.mp hp)
  · exact hmap _ (List.Sublist.refl _)

theorem dropNull_sorted (key : Vec → Rat) (slots : List Part) :
    ((dropNull (sortSlots key slots)).map (fun p => key p.vals)).Pairwise (fun x y => y ≤ x) := by
  rw [List.pairwise_map]
  exact (sortSlots_pairwise key slots).sublist List.filter_sublist

/-- **PTM1: swells come in non-increasing order of the sort key, zero padding last** -/
theorem swells_sorted_ptm1 (key : Vec → Rat) (wscut : Rat) (bins : List Bin) (cnt : Option Nat)
    (hkey0 : ∀ p ∈ ptm1Slots wscut bins, key (zeros bins).vals ≤ key p.vals) :
    (((ptm1 key wscut bins cnt).tail).map (fun p => key p.vals)).Pairwise (fun x y => y ≤ x) := by
  unfold ptm1
  simp only [List.tail_cons]
  cases cnt with
  | none => exact dropNull_sorted key _
  | some s => exact fitCount_sorted key bins _ s _ hkey0

theorem swells_sorted_ptm2 (key : Vec → Rat) (wscut : Rat) (bins : List Bin) (cnt : Option Nat)
    (hkey0 : ∀ p ∈ ptm2Slots wscut bins, key (zeros bins).vals ≤ key p.vals) :
    (((ptm2 key wscut bins cnt).drop 2).map (fun p => key p.vals)).Pairwise (fun x y => y ≤ x) := by
  unfold ptm2
  simp only [List.drop_succ_cons, List.drop_zero]
  cases cnt with
  | none => exact dropNull_sorted key _
  | some s => exact fitCount_sorted key bins _ s _ hkey0

theorem swells_sorted_ptm3 (key : Vec → Rat) (bins : List Bin) (cnt : Option Nat)
    (hkey0 : ∀ p ∈ ptm3Slots bins, key (zeros bins).vals ≤ key p.vals) :
    ((ptm3 key bins cnt).map (fun p => key p.vals)).Pairwise (fun x y => y ≤ x) := by
  unfold ptm3
  cases cnt with
  | none =>
    rw [List.pairwise_map]
    exact sortSlots_pairwise key _
  | some s => exact fitCount_sorted key bins _ s _ hkey0

/-- PTM1/2/3 with the code's Hs key on a non-negative spectrum: swells in non-increasing Hs, empty ones last -/
theorem swells_sorted_hs (f dirs : Vec) (wscut : Rat) (bins : List Bin) (cnt : Option Nat) (hd : DirsOk dirs)
    (hnonneg : ∀ b ∈ bins, 0 ≤ b.e) :
    (((ptm1 (npHsKey f dirs) wscut bins cnt).tail).map (fun p => npHsKey f dirs p.vals)).Pairwise (fun x y => y ≤ x) ∧
    (((ptm2 (npHsKey f dirs) wscut bins cnt).drop 2).map (fun p => npHsKey f dirs p.vals)).Pairwise (fun x y => y ≤ x) ∧
    ((ptm3 (npHsKey f dirs) bins cnt).map (fun p => npHsKey f dirs p.vals)).Pairwise (fun x y => y ≤ x) := by
  refine ⟨swells_sorted_ptm1 _ _ _ _ ?_, swells_sorted_ptm2 _ _ _ _ ?_, swells_sorted_ptm3 _ _ _ ?_⟩
  · intro p hp
    rw [ptm1Slots_eq] at hp
    obtain ⟨d, _, rfl⟩ := List.mem_map.mp hp
    exact hs_key_zero_least f dirs bins _ hd hnonneg
  · intro p hp
    rw [ptm2Slots_eq] at hp
    obtain ⟨d, _, rfl⟩ := List.mem_map.mp hp
    exact hs_key_zero_least f dirs bins _ hd hnonneg
  · intro p hp
    rw [ptm3Slots_eq] at hp
    obtain ⟨d, _, rfl⟩ := List.mem_map.mp hp
    exact hs_key_zero_least f dirs bins _ hd hnonneg

/-- generic form of "the dropped ones are the smallest": with fewer requested than detected, the sorted slot list is
    `kept ++ dropped`, every dropped slot has a key `≤` every kept one, and the sorted list is a permutation of the
    slots (nothing else disappears) -/
theorem fitCount_dropped (key : Vec → Rat) (bins : List Bin) (n s : Nat) (slots : List Part) (h : s < n) :
    ∃ dropped, sortSlots key slots = fitCount bins n s (sortSlots key slots) ++ dropped ∧
      (∀ a ∈ fitCount bins n s (sortSlots key slots), ∀ d ∈ dropped, key d.vals ≤ key a.vals) ∧
      (sortSlots key slots).Perm slots := by
  refine ⟨(sortSlots key slots).drop s, ?_, ?_, sortSlots_perm key slots⟩
  · unfold fitCount; rw [if_pos h, List.take_append_drop]
  · unfold fitCount; rw [if_pos h]
    have hp := sortSlots_pairwise key slots
    rw [← List.take_append_drop s (sortSlots key slots), List.pairwise_append] at hp
    exact hp.2.2

theorem dropped_are_smallest_ptm1 (key : Vec → Rat) (wscut : Rat) (bins : List Bin) (s : Nat) (h : s < nparts bins) :
    ∃ dropped, ptm1Sorted key wscut bins = (ptm1 key wscut bins (some s)).tail ++ dropped ∧
      (∀ a ∈ (ptm1 key wscut bins (some s)).tail, ∀ d ∈ dropped, key d.vals ≤ key a.vals) ∧
      (ptm1Sorted key wscut bins).Perm (ptm1Slots wscut bins) :=
  fitCount_dropped key bins _ s _ h

theorem dropped_are_smallest_ptm2 (key : Vec → Rat) (wscut : Rat) (bins : List Bin) (s : Nat) (h : s < nparts bins) :
    ∃ dropped, ptm2Sorted key wscut bins = (ptm2 key wscut bins (some s)).drop 2 ++ dropped ∧
      (∀ a ∈ (ptm2 key wscut bins (some s)).drop 2, ∀ d ∈ dropped, key d.vals ≤ key a.vals) ∧
      (ptm2Sorted key wscut bins).Perm (ptm2Slots wscut bins) :=
  fitCount_dropped key bins _ s _ h

theorem dropped_are_smallest_ptm3 (key : Vec → Rat) (bins : List Bin) (s : Nat) (h : s < nparts bins) :
    ∃ dropped, ptm3Sorted key bins = ptm3 key bins (some s) ++ dropped ∧
      (∀ a ∈ ptm3 key bins (some s), ∀ d ∈ dropped, key d.vals ≤ key a.vals) ∧
      (ptm3Sorted key bins).Perm (ptm3Slots bins) :=
  fitCount_dropped key bins _ s _ h

/-! ## wind sea first -/

/-- for a non-negative spectrum `wsfrac > wscut` (numpy semantics, `0/0 = nan`) means: the basin has energy and
    its wind-sea energy exceeds the fraction `wscut` of it -/
theorem isWindSea_iff (wscut : Rat) (bins : List Bin) (k : Nat) (hnonneg : ∀ b ∈ bins, 0 ≤ b.e) :
    isWindSea wscut bins k = true ↔ 0 < wsDen bins k ∧ wscut * wsDen bins k < wsNum bins k := by
  have hden : 0 ≤ wsDen bins k := by
    unfold wsDen
    exact List.sum_nonneg (select_vals_nonneg bins _ hnonneg)
  have hle : wsNum bins k ≤ wsDen bins k := by
    unfold wsNum wsDen basin
    rw [select_vals]
    apply List.sum_le_sum
    intro b hb
    have := hnonneg b hb
    cases b.ws <;> by_cases h : b.lab = k <;> simp [h, this]
  have hnum : 0 ≤ wsNum bins k := by
    unfold wsNum
    apply List.sum_nonneg
    intro x hx
    obtain ⟨b, hb, rfl⟩ := List.mem_map.mp hx
    have := hnonneg b hb
    split_ifs <;> linarith
  unfold isWindSea
  by_cases h0 : wsDen bins k = 0
  · rw [if_pos h0]
    simp only [decide_eq_true_eq]
    constructor
    · intro h; linarith
    · intro h; linarith [h.1]
  · rw [if_neg h0]
    have hpos : 0 < wsDen bins k := lt_of_le_of_ne hden (Ne.symm h0)
    simp only [decide_eq_true_eq]
    rw [lt_div_iff₀ hpos]
    exact ⟨fun h => ⟨hpos, h⟩, fun h => h.2⟩

/-- **PTM1: partition 0 is exactly the union of the basins whose wind-sea fraction exceeds the cutoff** -/
theorem windsea_rule_ptm1 (key : Vec → Rat) (wscut : Rat) (bins : List Bin) (cnt : Option Nat) :
    (ptm1 key wscut bins cnt).head? =
      some (select bins fun b => decide (1 ≤ b.lab) && isWindSea wscut bins b.lab) := by
  unfold ptm1
  simp only [List.head?_cons, Option.some.injEq]
  rw [ptm1Wsea_eq]
  unfold render
  apply select_congr
  intro b hb
  unfold dest1
  by_cases h1 : 1 ≤ b.lab
  · rw [if_pos ((lab_mem_labels hb).mpr h1)]
    by_cases h2 : isWindSea wscut bins b.lab = true <;> simp [h1, h2]
  · rw [if_neg (fun h => h1 ((lab_mem_labels hb).mp h))]
    simp [h1]

/-- **PTM2: partition 0 as in PTM1, partition 1 is exactly the wind-sea bins of the remaining basins**, and no later
    partition holds a wind-sea bin -/
theorem windsea_rule_ptm2 (key : Vec → Rat) (wscut : Rat) (bins : List Bin) (cnt : Option Nat) :
    (ptm2 key wscut bins cnt).take 2 =
      [select bins fun b => decide (1 ≤ b.lab) && isWindSea wscut bins b.lab,
       select bins fun b => decide (1 ≤ b.lab) && !isWindSea wscut bins b.lab && b.ws] ∧
    ∀ p ∈ (ptm2 key wscut bins cnt).drop 2, ∀ (i : Nat) (hi : i < bins.length),
      p.mask.getD i false = true → bins[i].ws = false := by
  constructor
  · unfold ptm2
    simp only [List.take_succ_cons, List.take_zero]
    rw [ptm2Wsea1_eq, ptm2Wsea2_eq]
    unfold render
    congr 1
    · apply select_congr
      intro b hb
      unfold dest2
      by_cases h1 : 1 ≤ b.lab
      · rw [if_pos ((lab_mem_labels hb).mpr h1)]
        by_cases h2 : isWindSea wscut bins b.lab = true <;> cases h3 : b.ws <;> simp [h1, h2]
      · rw [if_neg (fun h => h1 ((lab_mem_labels hb).mp h))]
        simp [h1]
    · congr 1
      apply select_congr
      intro b hb
      unfold dest2
      by_cases h1 : 1 ≤ b.lab
      · rw [if_pos ((lab_mem_labels hb).mpr h1)]
        by_cases h2 : isWindSea wscut bins b.lab = true <;> cases h3 : b.ws <;> simp [h1, h2]
      · rw [if_neg (fun h => h1 ((lab_mem_labels hb).mp h))]
        simp [h1]
  · intro p hp i hi hm
    have hmem : p = zeros bins ∨ p ∈ ptm2Slots wscut bins := by
      unfold ptm2 at hp
      simp only [List.drop_succ_cons, List.drop_zero] at hp
      cases cnt with
      | none =>
        exact Or.inr ((sortSlots_perm key _).mem_iff.mp (List.mem_filter.mp hp).1)
      | some s =>
        simp only at hp
        unfold fitCount at hp
        split_ifs at hp
        · exact Or.inr ((sortSlots_perm key _).mem_iff.mp (List.mem_of_mem_take hp))
        · rcases List.mem_append.mp hp with h | h
          · exact Or.inr ((sortSlots_perm key _).mem_iff.mp h)
          · exact Or.inl (List.mem_replicate.mp h).2
        · exact Or.inr ((sortSlots_perm key _).mem_iff.mp hp)
    rcases hmem with rfl | hmem
    · rw [zeros_mask_getD] at hm; cases hm
    · rw [ptm2Slots_eq] at hmem
      obtain ⟨d, hd, rfl⟩ := List.mem_map.mp hmem
      obtain ⟨k, _, _, rfl⟩ := mem_swellDs.mp hd
      rw [render_mask_getD, List.getElem?_eq_getElem hi] at hm
      simp only [Option.map_some, Option.getD_some] at hm
      unfold dest2 at hm
      by_contra hws
      have hws' : bins[i].ws = true := by simpa using hws
      split_ifs at hm <;> simp at hm

/-- every swell partition of PTM1 is all-zero or one whole basin that is not wind sea; of PTM3: one whole basin -/
theorem swells_are_basins (key : Vec → Rat) (wscut : Rat) (bins : List Bin) (cnt : Option Nat) :
    (∀ p ∈ (ptm1 key wscut bins cnt).tail, p = zeros bins ∨
        ∃ k, 1 ≤ k ∧ k ≤ nparts bins ∧ isWindSea wscut bins k = false ∧ p = basin bins k) ∧
    (∀ p ∈ ptm3 key bins cnt, p = zeros bins ∨ ∃ k, 1 ≤ k ∧ k ≤ nparts bins ∧ p = basin bins k) := by
  have hfit : ∀ (n s : Nat) (slots : List Part) (p : Part), p ∈ fitCount bins n s (sortSlots key slots) →
      p = zeros bins ∨ p ∈ slots := by
    intro n s slots p hp
    unfold fitCount at hp
    split_ifs at hp
    · exact Or.inr ((sortSlots_perm key _).mem_iff.mp (List.mem_of_mem_take hp))
    · rcases List.mem_append.mp hp with h | h
      · exact Or.inr ((sortSlots_perm key _).mem_iff.mp h)
      · exact Or.inl (List.mem_replicate.mp h).2
    · exact Or.inr ((sortSlots_perm key _).mem_iff.mp hp)
  constructor
  · intro p hp
    have hmem : p = zeros bins ∨ p ∈ ptm1Slots wscut bins := by
      unfold ptm1 at hp
      simp only [List.tail_cons] at hp
      cases cnt with
      | none => exact Or.inr ((sortSlots_perm key _).mem_iff.mp (List.mem_filter.mp hp).1)
      | some s => exact hfit _ s _ p hp
    rcases hmem with h | h
    · exact Or.inl h
    · unfold ptm1Slots at h
      obtain ⟨k, hk, rfl⟩ := List.mem_map.mp h
      by_cases hw : isWindSea wscut bins k = true
      · left; simp [hw]
      · right
        refine ⟨k, (mem_labels.mp hk).1, (mem_labels.mp hk).2, by simpa using hw, ?_⟩
        simp only [hw, Bool.false_eq_true, if_false]
        exact zeros_add_select bins _
  · intro p hp
    have hmem : p = zeros bins ∨ p ∈ ptm3Slots bins := by
      unfold ptm3 at hp
      cases cnt with
      | none => exact Or.inr ((sortSlots_perm key _).mem_iff.mp hp)
      | some s => exact hfit _ s _ p hp
    rcases hmem with h | h
    · exact Or.inl h
    · unfold ptm3Slots at h
      obtain ⟨k, hk, rfl⟩ := List.mem_map.mp h
      exact Or.inr ⟨k, (mem_labels.mp hk).1, (mem_labels.mp hk).2, rfl⟩

/-! ## nothing detected, nothing returned -/

/-- **a label map without a positive label (constant spectrum) gives all-zero partitions**, whatever is requested —
    the model's statement of the finding that a constant non-zero spectrum loses all its energy -/
theorem constant_gives_nothing (key : Vec → Rat) (wscut : Rat) (bins : List Bin) (cnt : Option Nat)
    (h : nparts bins = 0) :
    (∀ p ∈ ptm1 key wscut bins cnt, p = zeros bins) ∧ (∀ p ∈ ptm2 key wscut bins cnt, p = zeros bins) ∧
    (∀ p ∈ ptm3 key bins cnt, p = zeros bins) := by
  have hl : labels bins = [] := by simp [labels, h]
  have h1 : ptm1Wsea wscut bins = zeros bins := by simp [ptm1Wsea, wseaAcc, hl]
  have h2 : ptm2Wsea2 wscut bins = zeros bins := by simp [ptm2Wsea2, wsea2Acc, hl]
  have hfit : ∀ s p, p ∈ fitCount bins 0 s (sortSlots key []) → p = zeros bins := by
    intro s p hp
    have hs0 : sortSlots key [] = [] := by simp [sortSlots]
    unfold fitCount at hp
    rw [hs0] at hp
    split_ifs at hp with ha hb
    · omega
    · rcases List.mem_append.mp hp with h | h
      · cases h
      · exact (List.mem_replicate.mp h).2
    · cases hp
  refine ⟨?_, ?_, ?_⟩
  · intro p hp
    unfold ptm1 at hp
    rw [h1] at hp
    rcases List.mem_cons.mp hp with rfl | hp
    · rfl
    · cases cnt with
      | none => simp [ptm1Sorted, ptm1Slots, hl, sortSlots, dropNull] at hp
      | some s =>
        simp only [ptm1Sorted, ptm1Slots, hl, List.map_nil, h] at hp
        exact hfit s p hp
  · intro p hp
    unfold ptm2 at hp
    rw [h1, h2] at hp
    rcases List.mem_cons.mp hp with rfl | hp
    · rfl
    rcases List.mem_cons.mp hp with rfl | hp
    · rfl
    · cases cnt with
      | none => simp [ptm2Sorted, ptm2Slots, hl, sortSlots, dropNull] at hp
      | some s =>
        simp only [ptm2Sorted, ptm2Slots, hl, List.map_nil, h] at hp
        exact hfit s p hp
  · intro p hp
    unfold ptm3 at hp
    cases cnt with
    | none => simp [ptm3Sorted, ptm3Slots, hl, sortSlots] at hp
    | some s =>
      simp only [ptm3Sorted, ptm3Slots, hl, List.map_nil, h] at hp
      exact hfit s p hp

/-! ## the hypotheses are satisfiable -/

/-- two basins, the first one with 5/7 of its energy in wind-sea bins -/
def demo : List Bin := [⟨5, 1, true⟩, ⟨2, 1, false⟩, ⟨4, 2, false⟩, ⟨1, 2, false⟩]

example : (∀ b ∈ demo, 1 ≤ b.lab) ∧ nparts demo ≤ 3 := by decide
example : ∀ b ∈ demo, (0 : Rat) ≤ b.e := by decide +kernel
example : (1 : Nat) < nparts demo := by decide
example : nparts [(⟨3, 0, false⟩ : Bin)] = 0 := by decide
example : ∀ p ∈ ptm3Slots demo, (fun v : Vec => v.sum) (zeros demo).vals ≤ (fun v : Vec => v.sum) p.vals := by
  decide +kernel
example : isWindSea (1/3) demo 1 = true ∧ isWindSea (1/3) demo 2 = false := by decide +kernel
example : (demo[1]'(by decide)).lab ≠ 0 ∧ ([(⟨3, 0, false⟩ : Bin)][0]'(by decide)).lab = 0 := by decide

end WS.C03

import WsVerif.Lemmas.Select
import WsVerif.Gen.LonConv
import WsVerif.Gen.Lits
/-!
# C14 — site selection finds the right stations on a sphere-aware longitude axis

`Select.*` (Model/Select.lean) mirrors `wavespectra/core/select.py` as it is.  The longitude difference
is a parameter `ld` of the model: `ldCoded` (difference of the residues mod 360 — what the code does) and
`ldShort` (the short way round the globe — the property's distance, and the repaired code's).
Distances enter through a square-root oracle `sq`; theorems assume `SqrtOn sq radicands` only.

Sections: 0 bridging to the regenerated kernels; 1 nearest; 2 convention independence (nearest, idw);
3 inverse-distance weights; 4 bounding box; 5 reported longitudes; `Fixed` = the same statements at full
strength for the repaired distance / box (Model/SelectFixed.lean).
-/
namespace WS.C14
open WS WS.Select

/-! ## 0. T-tier: regenerated kernels and literals -/

theorem is180_bridge : Gen.is180 = Select.is180 := by
  funext a
  unfold Gen.is180 Select.is180
  cases h : (decide (arrMin a < (0 : ℚ)) && decide (arrMax a ≤ (180 : ℚ))) <;> simp

theorem is360_bridge : Gen.is360 = Select.is360 := by
  funext a
  unfold Gen.is360 Select.is360
  cases h : (decide (arrMin a ≥ (0 : ℚ)) && decide (arrMax a ≤ (360 : ℚ))) <;> simp

/-- literals of the code as it is: `% 360` twice and two squares in `distance`; `360/180/180/360` in the
    swap; defaults `tolerance=2.0, max_sites=4` of `sel_idw`, `tolerance=2.0` of `sel_nearest`; `360`/`0`
    bounds of the wrapped branch of `sel_bbox`.  (A repaired `distance`/`sel_bbox` changes the first/last
    list: switch to the `Fixed` section then; the lists to expect after the candidate patches are
    `lits_select_distance = [360, 360, 360, 2, 2]` and `lits_select_sel_bbox = [0, 360, 0, 0]`.) -/
theorem lits_select :
    Gen.lits_select_distance = [360, 360, 360, 2, 2] ∧ Gen.lits_select_swap = [360, 180, 180, 360] ∧
    Gen.lits_select_sel_idw.take 2 = [2, 4] ∧ Gen.lits_select_sel_nearest = [2, 0] ∧
    Gen.lits_select_sel_bbox = [0, 360, 0, 0] := by decide +kernel

/-! ## 1. nearest -/

/-- station `i` minimises the radicand row `r` (squared distances to one query) and lies within `tol` -/
def IsNearestWithin (tol : ℚ) (r : Vec) (i : Nat) : Prop :=
  i < r.length ∧ r.getD i 0 ≤ tol ^ 2 ∧ ∀ k < r.length, r.getD i 0 ≤ r.getD k 0

theorem validate_ok {dl ql qla : Vec} (h : validate dl ql qla = .ok ()) :
    ql.length = qla.length ∧ ql ≠ [] ∧ dl ≠ [] := by
  unfold validate at h
  split at h
  · cases h
  · split at h
    · cases h
    · rename_i h1 h2
      exact ⟨not_not.mp h1, fun e => h2 (Or.inl e), fun e => h2 (Or.inr e)⟩

theorem lonsQ_length (ql dl : Vec) : (lonsQ ql dl).length = ql.length := by
  simpa using congrArg List.length (lonsQ_residues ql dl)

theorem radRows_length (ld : ℚ → ℚ → ℚ) (dl dla ql qla : Vec) (h : ql.length = qla.length) :
    (radRows ld dl dla ql qla).length = ql.length := by
  simp [radRows, lonsQ_length, h]

theorem radRows_row_length (ld : ℚ → ℚ → ℚ) (dl dla ql qla : Vec) (j : Nat)
    (hj : j < (radRows ld dl dla ql qla).length) :
    ((radRows ld dl dla ql qla)[j]).length = min dl.length dla.length := by
  simp [radRows, distSqRow]

/-- unfolding of `selNearestIds` when it succeeds -/
theorem selNearestIds_ok {sq : ℚ → ℚ} {ld : ℚ → ℚ → ℚ} {dl dla ql qla : Vec} {tol : ℚ} {u e : Bool}
    {m : Missing} {ids : List Nat} (h : selNearestIds sq ld dl dla ql qla tol u e m = .ok ids) :
    validate dl ql qla = .ok () ∧
      nearestLoop tol u e m ((radRows ld dl dla ql qla).map fun r => r.map sq) [] = .ok ids := by
  unfold selNearestIds at h
  rw [distRows_eq] at h
  cases hv : validate dl ql qla with
  | error err => rw [hv] at h; cases h
  | ok u' =>
    rw [hv] at h
    cases hl : nearestLoop tol u e m ((radRows ld dl dla ql qla).map fun r => r.map sq) [] with
    | error err => rw [hl] at h; cases h
    | ok ids' =>
      rw [hl] at h
      refine ⟨rfl, ?_⟩
      simp only [bind, Except.bind] at h
      split at h
      · cases h
      · cases h; rfl

/-- **nearest_min, for any longitude-difference function**: with `missing="raise"` and `unique=False`,
    a successful `sel_nearest` returns one station per query, each minimising the distance *as defined by
    `ld`* among all stations and lying within the tolerance. -/
theorem nearest_min_gen (sq : ℚ → ℚ) (ld : ℚ → ℚ → ℚ) (dl dla ql qla : Vec) (tol : ℚ) (exact : Bool)
    (ids : List Nat) (hlen : dl.length = dla.length) (htol : 0 ≤ tol)
    (hsq : ∀ r ∈ radRows ld dl dla ql qla, SqrtOn sq r)
    (h : selNearestIds sq ld dl dla ql qla tol false exact .raise = .ok ids) :
    ids.length = ql.length ∧
      ∀ j (h1 : j < ids.length) (h2 : j < (radRows ld dl dla ql qla).length),
        IsNearestWithin tol ((radRows ld dl dla ql qla)[j]) ids[j] := by
  obtain ⟨hv, hl⟩ := selNearestIds_ok h
  obtain ⟨hql, _, hdl⟩ := validate_ok hv
  obtain ⟨hids, hall⟩ := nearestLoop_raise tol exact _ [] ids hl
  simp only [List.nil_append, List.map_map] at hids
  refine ⟨by rw [hids]; simp [radRows_length ld dl dla ql qla hql], ?_⟩
  intro j h1 h2
  set R := radRows ld dl dla ql qla with hR
  have hrow : (R[j]).length = dl.length := by
    rw [radRows_row_length ld dl dla ql qla j h2, ← hlen]; simp
  have hpos : 0 < (R[j]).length := by
    rw [hrow]; exact List.length_pos_iff.mpr hdl
  have hidj : ids[j] = argminFirst ((R[j]).map sq) := by
    simp [hids]
  have hne : (R[j]).map sq ≠ [] := by
    intro e
    have h0 := congrArg List.length e
    rw [List.length_map, List.length_nil] at h0
    omega
  have hi : ids[j] < (R[j]).length := by
    rw [hidj]; simpa using argminFirst_lt _ hne
  have hS := hsq (R[j]) (List.getElem_mem h2)
  have hmemrow : (R[j]).map sq ∈ R.map (fun r => r.map sq) := List.mem_map.mpr ⟨R[j], List.getElem_mem h2, rfl⟩
  obtain ⟨htolj, _⟩ := hall _ hmemrow
  rw [← hidj, getD_map_of_lt sq _ _ hi] at htolj
  have hSi := hS _ (getD_mem_of_lt (R[j]) ids[j] hi)
  refine ⟨hi, ?_, ?_⟩
  · have := mul_le_mul htolj htolj hSi.1 htol
    rw [hSi.2] at this
    simpa [pow_two] using this
  · intro k hk
    have hle := argminFirst_le ((R[j]).map sq) k (by simpa using hk)
    rw [← hidj, getD_map_of_lt sq _ _ hi, getD_map_of_lt sq _ _ hk] at hle
    exact (sqrt_le_iff hSi (hS _ (getD_mem_of_lt (R[j]) k hk))).mp hle

/-- **fails beyond tolerance**: if for some query every station is farther than `tol`, `sel_nearest`
    (`missing="raise"`) raises `AssertionError`. -/
theorem nearest_fails_beyond_tolerance_gen (sq : ℚ → ℚ) (ld : ℚ → ℚ → ℚ) (dl dla ql qla : Vec) (tol : ℚ)
    (unique exact : Bool) (hlen : dl.length = dla.length) (htol : 0 ≤ tol)
    (hv : validate dl ql qla = .ok ())
    (hsq : ∀ r ∈ radRows ld dl dla ql qla, SqrtOn sq r)
    (hfar : ∃ r ∈ radRows ld dl dla ql qla, ∀ x ∈ r, tol ^ 2 < x) :
    selNearestIds sq ld dl dla ql qla tol unique exact .raise = .error .assertionError := by
  obtain ⟨_, _, hdl⟩ := validate_ok hv
  obtain ⟨r, hr, hx⟩ := hfar
  have hloop : nearestLoop tol unique exact .raise ((radRows ld dl dla ql qla).map fun r => r.map sq) [] =
      .error .assertionError := by
    apply nearestLoop_beyond
    refine ⟨r.map sq, List.mem_map.mpr ⟨r, hr, rfl⟩, ?_⟩
    obtain ⟨j, hj, rfl⟩ := List.mem_iff_getElem.mp hr
    set R := radRows ld dl dla ql qla
    have hrow : (R[j]).length = dl.length := by
      rw [radRows_row_length ld dl dla ql qla j hj, ← hlen]; simp
    have hne : (R[j]).map sq ≠ [] := by
      intro e
      have h0 := congrArg List.length e
      have hp : 0 < dl.length := List.length_pos_iff.mpr hdl
      rw [List.length_map, List.length_nil] at h0
      omega
    have hi : argminFirst ((R[j]).map sq) < (R[j]).length := by simpa using argminFirst_lt _ hne
    rw [getD_map_of_lt sq _ _ hi]
    have hm := getD_mem_of_lt (R[j]) _ hi
    have hS := hsq (R[j]) hr _ hm
    have hbig := hx _ hm
    by_contra hc
    have hc : sq ((R[j]).getD (argminFirst ((R[j]).map sq)) 0) ≤ tol := not_lt.mp hc
    have := mul_le_mul hc hc hS.1 htol
    rw [hS.2] at this
    have h2 : tol * tol = tol ^ 2 := by ring
    linarith
  unfold selNearestIds
  rw [distRows_eq, hv, hloop]
  rfl

/-- the property's clause for the code as it is: the returned station minimises the **short-way**
    distance -/
def NearestMinShortWay : Prop :=
  ∀ (sq : ℚ → ℚ) (dl dla ql qla : Vec) (tol : ℚ) (exact : Bool) (ids : List Nat),
    dl.length = dla.length → 0 ≤ tol → (∀ r ∈ radRows ldCoded dl dla ql qla, SqrtOn sq r) →
    selNearestIds sq ldCoded dl dla ql qla tol false exact .raise = .ok ids →
    ids.length = ql.length ∧
      ∀ j (_ : j < ids.length) (h2 : j < (radRows ldShort dl dla ql qla).length),
        IsNearestWithin tol ((radRows ldShort dl dla ql qla)[j]) ids[j]

/-- witness oracle: exact square roots of the two radicands of the witness -/
def sqW (x : ℚ) : ℚ := if x = (1439 / 4) ^ 2 then 1439 / 4 else if x = (3 / 8) ^ 2 then 3 / 8 else 0

/-- **refuted on this tree**: stations at 359.875°E and 0.5°E, query 0.125°E: the code returns the
    station at 0.5°E (0.375° away) although 359.875°E is 0.25° away the short way. -/
theorem nearest_min_fails : ¬ NearestMinShortWay := by
  intro H
  have h := H sqW [2879 / 8, 1 / 2] [0, 0] [1 / 8] [0] 5 false [1] rfl (by norm_num)
    (by unfold SqrtOn; decide +kernel) (by decide +kernel)
  have h3 := (h.2 0 (by decide) (by decide +kernel)).2.2 0 (by decide +kernel)
  revert h3
  decide +kernel

/-- no station/query pair straddles the Greenwich meridian in the sense of the code's distance: the two
    residues are at most 180° apart (decidable) -/
def NoStraddle (dl ql : Vec) : Prop := ∀ a ∈ dl, ∀ q ∈ ql, absR (mod360 a - mod360 q) ≤ 180

instance (dl ql : Vec) : Decidable (NoStraddle dl ql) := by unfold NoStraddle; infer_instance

theorem ld_sq_eq {x y : ℚ} (h : absR (x - y) ≤ 180) : (ldCoded x y) ^ 2 = (ldShort x y) ^ 2 := by
  unfold ldCoded ldShort minR
  have hA : ¬ (360 - absR (x - y) < absR (x - y)) := by linarith
  rw [if_neg hA]
  unfold absR
  split <;> ring

theorem zipWith_congr_left {α β γ} (f g : α → β → γ) :
    ∀ (l1 : List α) (l2 : List β), (∀ a ∈ l1, ∀ b, f a b = g a b) → List.zipWith f l1 l2 = List.zipWith g l1 l2
  | [], _, _ => by simp
  | _ :: _, [], _ => by simp
  | a :: l1, b :: l2, h => by
    simp only [List.zipWith_cons_cons]
    rw [h a List.mem_cons_self b, zipWith_congr_left f g l1 l2 fun a' ha' b' => h a' (List.mem_cons_of_mem _ ha') b']

theorem radRows_coded_eq_short (dl dla ql qla : Vec) (h : NoStraddle dl ql) :
    radRows ldCoded dl dla ql qla = radRows ldShort dl dla ql qla := by
  rw [radRows_residues, radRows_residues]
  apply zipWith_congr_left
  intro qr hqr qlat
  obtain ⟨q, hq, rfl⟩ := List.mem_map.mp hqr
  unfold distSqRowR
  apply zipWith_congr_left
  intro ar har b
  obtain ⟨a, ha, rfl⟩ := List.mem_map.mp har
  rw [ld_sq_eq (h a ha q hq)]

/-- under `NoStraddle` the code as it is coincides with the repaired code -/
theorem selNearestIds_coded_eq_short (sq : ℚ → ℚ) (dl dla ql qla : Vec) (tol : ℚ) (u e : Bool) (m : Missing)
    (h : NoStraddle dl ql) :
    selNearestIds sq ldCoded dl dla ql qla tol u e m = selNearestIds sq ldShort dl dla ql qla tol u e m := by
  unfold selNearestIds
  rw [distRows_eq, distRows_eq, radRows_coded_eq_short dl dla ql qla h]

/-- **partial**: when no station/query pair straddles Greenwich the returned station minimises the
    short-way distance. -/
theorem nearest_min_partial (sq : ℚ → ℚ) (dl dla ql qla : Vec) (tol : ℚ) (exact : Bool) (ids : List Nat)
    (hns : NoStraddle dl ql)
    (hlen : dl.length = dla.length) (htol : 0 ≤ tol) (hsq : ∀ r ∈ radRows ldCoded dl dla ql qla, SqrtOn sq r)
    (h : selNearestIds sq ldCoded dl dla ql qla tol false exact .raise = .ok ids) :
    ids.length = ql.length ∧
      ∀ j (_ : j < ids.length) (h2 : j < (radRows ldShort dl dla ql qla).length),
        IsNearestWithin tol ((radRows ldShort dl dla ql qla)[j]) ids[j] := by
  rw [selNearestIds_coded_eq_short sq dl dla ql qla tol false exact .raise hns] at h
  rw [radRows_coded_eq_short dl dla ql qla hns] at hsq
  exact nearest_min_gen sq ldShort dl dla ql qla tol exact ids hlen htol hsq h

/-- non-vacuity of `nearest_min_partial` / `nearest_min_gen`: stations at 10°E and 350°E (lat 0), query
    13°E/4°N: distances 5 and 23.3…; here with a Pythagorean query so that the oracle is exact -/
example : NoStraddle [10, 16] [13] ∧ (∀ r ∈ radRows ldCoded [10, 16] [0, 8] [13] [4], SqrtOn (fun x => if x = 25 then 5 else 0) r) ∧
    selNearestIds (fun x => if x = 25 then 5 else 0) ldCoded [10, 16] [0, 8] [13] [4] 5 false false .raise = .ok [0] := by
  refine ⟨by decide +kernel, by unfold SqrtOn; decide +kernel, by decide +kernel⟩

/-- general form (any `unique`, `missing ∈ {raise, ignore}`): every returned station is the first nearest
    station (distance as defined by `ld`) of some query and lies within the tolerance. -/
theorem nearest_members_gen (sq : ℚ → ℚ) (ld : ℚ → ℚ → ℚ) (dl dla ql qla : Vec) (tol : ℚ) (unique exact : Bool)
    (missing : Missing) (hm : missing ≠ .other) (ids : List Nat)
    (h : selNearestIds sq ld dl dla ql qla tol unique exact missing = .ok ids) :
    ids ≠ [] ∧ ∀ i ∈ ids, ∃ r ∈ radRows ld dl dla ql qla, i = argminFirst (r.map sq) ∧ (r.map sq).getD i 0 ≤ tol := by
  obtain ⟨hv, hl⟩ := selNearestIds_ok h
  constructor
  · intro e
    subst e
    unfold selNearestIds at h
    rw [distRows_eq, hv, hl] at h
    simp [bind, Except.bind] at h
  · intro i hi
    rcases nearestLoop_mem tol unique exact missing hm _ [] ids hl i hi with h0 | ⟨d, hd, he, ht, _⟩
    · simp at h0
    · obtain ⟨r, hr, rfl⟩ := List.mem_map.mp hd
      exact ⟨r, hr, he, ht⟩

/-! ## 2. convention independence (nearest, idw) — true of the code as it is, for any `ld` -/

/-- the same stations and queries expressed differently modulo 360 (dataset in [0,360] or [−180,180],
    query in either): `sel_nearest` returns the same station indices / raises the same error. -/
theorem convention_independent_nearest (sq : ℚ → ℚ) (ld : ℚ → ℚ → ℚ) (dl dl' dla ql ql' qla : Vec) (tol : ℚ)
    (u e : Bool) (m : Missing) (hd : dl.map mod360 = dl'.map mod360) (hq : ql.map mod360 = ql'.map mod360) :
    selNearestIds sq ld dl dla ql qla tol u e m = selNearestIds sq ld dl' dla ql' qla tol u e m := by
  unfold selNearestIds
  rw [validate_residues dl dl' ql ql' qla hd hq, distRows_eq, distRows_eq, radRows_residues,
    radRows_residues ld dl', hd, hq]

theorem convention_independent_idw (sq : ℚ → ℚ) (ld : ℚ → ℚ → ℚ) (dl dl' dla ql ql' qla : Vec) (tol : ℚ)
    (ms : Option Int) (hd : dl.map mod360 = dl'.map mod360) (hq : ql.map mod360 = ql'.map mod360) :
    selIdw sq ld dl dla ql qla tol ms = selIdw sq ld dl' dla ql' qla tol ms := by
  unfold selIdw
  rw [validate_residues dl dl' ql ql' qla hd hq, distRows_eq, distRows_eq, radRows_residues,
    radRows_residues ld dl', hd, hq]

/-- any re-expression of longitudes by whole turns (in particular `% 360` and the map to [−180,180])
    keeps the residues, so the two theorems above apply -/
theorem reexpress_residues (c : ℚ → ℚ) (hc : ∀ x, ∃ k : ℤ, c x = x + 360 * k) (l : Vec) :
    (l.map c).map mod360 = l.map mod360 := by
  rw [List.map_map]
  apply List.map_congr_left
  intro x _
  obtain ⟨k, hk⟩ := hc x
  simp only [Function.comp, hk, mod360_add_int]

theorem to360_turns (x : ℚ) : ∃ k : ℤ, mod360 x = x + 360 * k := mod360_eq_add_int x
theorem to180_turns (x : ℚ) : ∃ k : ℤ, to180 x = x + 360 * k := by
  unfold to180
  split
  · exact ⟨-1, by push_cast; ring⟩
  · exact ⟨0, by simp⟩

/-- non-vacuity: dataset `[350, 10]` (0–360) vs `[−10, 10]` (±180), query `−1` vs `359` -/
example : ([350, 10] : Vec).map mod360 = ([-10, 10] : Vec).map mod360 ∧ ([-1] : Vec).map mod360 = ([359] : Vec).map mod360 := by
  decide +kernel

/-! ## 3. inverse-distance weighting (one query; `d` = its distance row, all entries ≥ 0) -/

/-- shape of `idwRow` in terms of the kept neighbours `nearer d tol ms` -/
theorem idwRow_cases (d : Vec) (tol : ℚ) (ms : Option Int) (hd : ∀ x ∈ d, 0 ≤ x) :
    (nearer d tol ms = [] ∧ idwRow d tol ms = none) ∨
    (∃ i rest, nearer d tol ms = (0, i) :: rest ∧ idwRow d tol ms = some [(i, 1)]) ∨
    (∃ p, nearer d tol ms = [p] ∧ 0 < p.1 ∧ idwRow d tol ms = none) ∨
    (2 ≤ (nearer d tol ms).length ∧ (∀ p ∈ nearer d tol ms, 0 < p.1) ∧
      0 < ((nearer d tol ms).map fun p => 1 / p.1).sum ∧
      idwRow d tol ms = some ((nearer d tol ms).map fun p =>
        (p.2, 1 / p.1 * (1 / ((nearer d tol ms).map fun p => 1 / p.1).sum)))) := by
  have h0 : ∀ p ∈ nearer d tol ms, 0 ≤ p.1 := by
    intro p hp
    obtain ⟨hi, hx⟩ := getD_of_getElem? (nearer_mem hp).1
    rw [← hx]; exact hd _ (getD_mem_of_lt d p.2 hi)
  rcases sorted_nonneg_cases _ (nearer_sorted d tol ms) h0 with ⟨i, rest, hl⟩ | hpos
  · right; left
    refine ⟨i, rest, hl, ?_⟩
    unfold idwRow
    rw [hl]
    simp [collect]
  · have hc := collect_pos (nearer d tol ms) fun p hp => ne_of_gt (hpos p hp)
    match hl : nearer d tol ms with
    | [] => left; exact ⟨rfl, by unfold idwRow; rw [hl]; rfl⟩
    | [p] =>
      right; right; left
      have hp : 0 < p.1 := hpos p (by rw [hl]; simp)
      refine ⟨p, rfl, hp, ?_⟩
      unfold idwRow
      rw [hl]
      have : collect [p] = [(p.2, 1 / p.1, p.1)] := by
        rw [collect_pos [p] (fun q hq => by simp at hq; subst hq; exact ne_of_gt hp)]; rfl
      rw [this]
      simp [hp]
    | p :: q :: rest =>
      right; right; right
      rw [hl] at hpos hc
      have hsum : 0 < ((p :: q :: rest).map fun p => 1 / p.1).sum := by
        apply List.sum_pos
        · intro x hx
          obtain ⟨r, hr, rfl⟩ := List.mem_map.mp hx
          exact one_div_pos.mpr (hpos r hr)
        · simp
      refine ⟨by simp, hpos, hsum, ?_⟩
      unfold idwRow
      rw [hl, hc]
      simp only [List.map_cons, List.map_map]
      have e : (((p :: q :: rest).map fun p => (p.2, 1 / p.1, p.1)).map fun t => t.2.1) =
          (p :: q :: rest).map fun p => 1 / p.1 := by simp [List.map_map, Function.comp_def]
      simp only [List.map_cons, List.map_map, Function.comp_def] at e ⊢
      simp only [List.map_cons] at hsum
      rw [if_neg (ne_of_gt hsum)]

/-- **idw_convex**: when `sel_idw` does not mask a query, the result is a convex combination:
    weights `> 0`, summing to 1, at most `max_sites` stations, every station within the tolerance, and
    either exactly one station at distance 0 with weight 1, or at least two stations with weights
    `(1/d_i) / Σ_j (1/d_j)` (∝ 1/distance, distance as defined by the row). -/
theorem idw_convex (d : Vec) (tol : ℚ) (ms : Option Int) (ws : List (Nat × ℚ)) (hd : ∀ x ∈ d, 0 ≤ x)
    (h : idwRow d tol ms = some ws) :
    (∀ p ∈ ws, 0 < p.2) ∧ (ws.map (·.2)).sum = 1 ∧
    (∀ p ∈ ws, p.1 < d.length ∧ d.getD p.1 0 ≤ tol) ∧
    (∀ m : Nat, ms = some (m : Int) → ws.length ≤ m) ∧
    ((∃ i, ws = [(i, 1)] ∧ d.getD i 0 = 0) ∨
     (2 ≤ ws.length ∧ ∀ p ∈ ws, 0 < d.getD p.1 0 ∧
        p.2 = (1 / d.getD p.1 0) / ((ws.map fun q => 1 / d.getD q.1 0).sum))) := by
  have hlen : ∀ m : Nat, ms = some (m : Int) → (nearer d tol ms).length ≤ m := by
    intro m hm; subst hm; exact nearer_length_le d tol m
  rcases idwRow_cases d tol ms hd with ⟨_, hn⟩ | ⟨i, rest, hl, hr⟩ | ⟨p, _, _, hn⟩ | ⟨h2, hpos, hsum, hr⟩
  · rw [hn] at h; cases h
  · rw [hr] at h
    cases h
    have hmem : ((0 : ℚ), i) ∈ nearer d tol ms := by rw [hl]; simp
    obtain ⟨hget, htol⟩ := nearer_mem hmem
    obtain ⟨hi, hx⟩ := getD_of_getElem? hget
    refine ⟨by simp, by simp, ?_, ?_, Or.inl ⟨i, rfl, hx⟩⟩
    · intro p hp
      simp only [List.mem_singleton] at hp
      subst hp
      exact ⟨hi, by rw [hx]; exact htol⟩
    · intro m hm
      have := hlen m hm
      rw [hl] at this
      simp at this ⊢
      omega
  · rw [hn] at h; cases h
  · rw [hr] at h
    cases h
    set l := nearer d tol ms with hl
    set S := (l.map fun p => 1 / p.1).sum with hS
    have hget : ∀ p ∈ l, p.2 < d.length ∧ d.getD p.2 0 = p.1 := fun p hp => getD_of_getElem? (nearer_mem hp).1
    have hsumeq : ((l.map fun p => (p.2, 1 / p.1 * (1 / S))).map fun q => 1 / d.getD q.1 0).sum = S := by
      rw [List.map_map, hS]
      congr 1
      apply List.map_congr_left
      intro p hp
      simp only [Function.comp]
      rw [(hget p hp).2]
    refine ⟨?_, ?_, ?_, ?_, Or.inr ⟨by simpa using h2, ?_⟩⟩
    · intro q hq
      obtain ⟨p, hp, rfl⟩ := List.mem_map.mp hq
      exact mul_pos (one_div_pos.mpr (hpos p hp)) (one_div_pos.mpr hsum)
    · rw [List.map_map]
      have : (l.map ((fun q : Nat × ℚ => q.2) ∘ fun p => (p.2, 1 / p.1 * (1 / S)))) =
          (l.map fun p => 1 / p.1).map fun x => x * (1 / S) := by
        rw [List.map_map]; rfl
      rw [this, sum_map_mul_const, ← hS]
      field_simp
    · intro q hq
      obtain ⟨p, hp, rfl⟩ := List.mem_map.mp hq
      exact ⟨(hget p hp).1, by rw [(hget p hp).2]; exact (nearer_mem hp).2⟩
    · intro m hm
      simpa using hlen m hm
    · intro q hq
      obtain ⟨p, hp, rfl⟩ := List.mem_map.mp hq
      simp only
      rw [hsumeq, (hget p hp).2]
      exact ⟨hpos p hp, by field_simp⟩

/-- **exact station**: a station at distance 0 (tolerance ≥ 0, `max_sites` ≥ 1 or `None`) is returned alone
    with weight 1 -/
theorem idw_exact (d : Vec) (tol : ℚ) (ms : Option Int) (hd : ∀ x ∈ d, 0 ≤ x) (htol : 0 ≤ tol)
    (hms : ms = none ∨ ∃ m : Nat, 1 ≤ m ∧ ms = some (m : Int))
    (hz : ∃ k, k < d.length ∧ d.getD k 0 = 0) :
    ∃ i, idwRow d tol ms = some [(i, 1)] ∧ d.getD i 0 = 0 := by
  obtain ⟨k, hk, hk0⟩ := hz
  have hkm : ((0 : ℚ), k) ∈ inRangeSorted d tol := by
    rw [inRangeSorted_mem]
    refine ⟨?_, htol⟩
    simp only [List.getD_eq_getElem?_getD, List.getElem?_eq_getElem hk, Option.getD_some] at hk0
    simp [List.getElem?_eq_getElem hk, hk0]
  have h0 : ∀ p ∈ inRangeSorted d tol, 0 ≤ p.1 := by
    intro p hp
    obtain ⟨hi, hx⟩ := getD_of_getElem? (inRangeSorted_mem.mp hp).1
    rw [← hx]; exact hd _ (getD_mem_of_lt d p.2 hi)
  -- the sorted in-range list starts with a zero distance
  obtain ⟨i, rest, hl⟩ : ∃ i rest, inRangeSorted d tol = (0, i) :: rest := by
    rcases sorted_nonneg_cases _ (inRangeSorted_sorted d tol) h0 with h | h
    · exact h
    · exact absurd (h _ hkm) (lt_irrefl _)
  have hn : ∃ rest', nearer d tol ms = (0, i) :: rest' := by
    rw [nearer_eq, hl]
    rcases hms with rfl | ⟨m, hm, rfl⟩
    · exact ⟨rest, rfl⟩
    · obtain ⟨m', rfl⟩ : ∃ m', m = m' + 1 := ⟨m - 1, by omega⟩
      refine ⟨rest.take m', ?_⟩
      have h0 : ((m' + 1 : Nat) : Int) ≥ 0 := Int.natCast_nonneg _
      show (if ((m' + 1 : Nat) : Int) ≥ 0 then List.take ((m' + 1 : Nat) : Int).toNat ((0, i) :: rest)
        else List.take (((0, i) :: rest).length - (-((m' + 1 : Nat) : Int)).toNat) ((0, i) :: rest)) = _
      rw [if_pos h0, Int.toNat_natCast, List.take_succ_cons]
  obtain ⟨rest', hn⟩ := hn
  rcases idwRow_cases d tol ms hd with ⟨he, _⟩ | ⟨i', rest'', hl', hr⟩ | ⟨p, hp, hpos, _⟩ | ⟨_, hpos, _, _⟩
  · rw [hn] at he; cases he
  · rw [hn] at hl'
    cases hl'
    refine ⟨i, hr, ?_⟩
    have hmem : ((0 : ℚ), i) ∈ nearer d tol ms := by rw [hn]; simp
    exact (getD_of_getElem? (nearer_mem hmem).1).2
  · rw [hn] at hp
    cases hp
    exact absurd hpos (lt_irrefl _)
  · exact absurd (hpos (0, i) (by rw [hn]; simp)) (lt_irrefl _)

/-- **missing**: fewer than two stations within the tolerance and none at distance 0 ⇒ masked -/
theorem idw_missing (d : Vec) (tol : ℚ) (ms : Option Int) (hd : ∀ x ∈ d, 0 ≤ x)
    (hfew : (d.filter fun x => decide (x ≤ tol)).length < 2) (hnz : ∀ x ∈ d, x ≤ tol → x ≠ 0) :
    idwRow d tol ms = none := by
  have hlen := nearer_length_le_inrange d tol ms
  rcases idwRow_cases d tol ms hd with ⟨_, hn⟩ | ⟨i, rest, hl, _⟩ | ⟨p, _, _, hn⟩ | ⟨h2, _, _, _⟩
  · exact hn
  · exfalso
    have hmem : ((0 : ℚ), i) ∈ nearer d tol ms := by rw [hl]; simp
    obtain ⟨hget, htol⟩ := nearer_mem hmem
    obtain ⟨hi, hx⟩ := getD_of_getElem? hget
    exact hnz _ (getD_mem_of_lt d i hi) (by rw [hx]; exact htol) hx
  · exact hn
  · omega

/-- **nearest first**: a station within the tolerance that is not used is at least as far as every
    station that is used (the kept ones are the `max_sites` nearest) -/
theorem idw_uses_nearest (d : Vec) (tol : ℚ) (ms : Option Int) (p q : ℚ × Nat)
    (hp : p ∈ nearer d tol ms) (hq : q ∈ inRangeSorted d tol) (hnq : q ∉ nearer d tol ms) : p.1 ≤ q.1 := by
  obtain ⟨n, hn⟩ := pyTake_eq_take (inRangeSorted d tol) ms
  rw [nearer_eq, hn] at hp hnq
  have hsplit := List.take_append_drop n (inRangeSorted d tol)
  have hqd : q ∈ (inRangeSorted d tol).drop n := by
    have : q ∈ (inRangeSorted d tol).take n ++ (inRangeSorted d tol).drop n := by rw [hsplit]; exact hq
    rcases List.mem_append.mp this with h | h
    · exact absurd h hnq
    · exact h
  have hs := inRangeSorted_sorted d tol
  rw [← hsplit, List.pairwise_append] at hs
  exact hs.2.2 p hp q hqd

/-- non-vacuity / worked instance: distances `[4, 9, 1/2, 20]`, tolerance 10, `max_sites = 2`:
    stations 2 and 0 with weights `8/9`, `1/9` -/
example : idwRow [4, 1] 10 (some 2) = some [(1, 4 / 5), (0, 1 / 5)] := by
  simp [idwRow, nearer, pyTake, collect, List.zipIdx, List.mergeSort, List.MergeSort.Internal.splitInTwo]
  norm_num [collect]

/-- `sel_idw` applies `idwRow` to the distance row of every query; every distance is ≥ 0 -/
theorem selIdw_rows (sq : ℚ → ℚ) (ld : ℚ → ℚ → ℚ) (dl dla ql qla : Vec) (tol : ℚ) (ms : Option Int)
    (rows : List (Option (List (Nat × ℚ)))) (hsq : ∀ r ∈ radRows ld dl dla ql qla, SqrtOn sq r)
    (h : selIdw sq ld dl dla ql qla tol ms = .ok rows) :
    rows = (radRows ld dl dla ql qla).map (fun r => idwRow (r.map sq) tol ms) ∧ rows.length = ql.length ∧
      ∀ r ∈ radRows ld dl dla ql qla, ∀ x ∈ r.map sq, 0 ≤ x := by
  unfold selIdw at h
  rw [distRows_eq] at h
  cases hv : validate dl ql qla with
  | error err => rw [hv] at h; cases h
  | ok u =>
    rw [hv] at h
    have hql := (validate_ok hv).1
    simp only [bind, Except.bind, List.map_map] at h
    cases h
    refine ⟨rfl, by simp [radRows_length ld dl dla ql qla hql], ?_⟩
    intro r hr x hx
    obtain ⟨y, hy, rfl⟩ := List.mem_map.mp hx
    exact (hsq r hr y hy).1

/-- the clause for the code as it is: the combination uses short-way distances -/
def IdwShortWay : Prop :=
  ∀ (sq : ℚ → ℚ) (dl dla ql qla : Vec) (tol : ℚ) (ms : Option Int),
    (∀ r ∈ radRows ldCoded dl dla ql qla, SqrtOn sq r) → (∀ r ∈ radRows ldShort dl dla ql qla, SqrtOn sq r) →
    selIdw sq ldCoded dl dla ql qla tol ms = selIdw sq ldShort dl dla ql qla tol ms

def sqI (x : ℚ) : ℚ := if x = (719 / 2) ^ 2 then 719 / 2 else if x = 1 / 4 then 1 / 2 else 0

/-- **refuted on this tree**: stations 359.5°E and 0.5°E, query 0°E, tolerance 2: the code masks the query
    (one station "in range"), the short-way combination is the mean of the two stations -/
theorem idw_shortway_fails : ¬ IdwShortWay := by
  intro H
  have h := H sqI [719 / 2, 1 / 2] [0, 0] [0] [0] 2 (some 4) (by unfold SqrtOn; decide +kernel) (by unfold SqrtOn; decide +kernel)
  unfold selIdw at h
  have hv : validate [719 / 2, 1 / 2] [0] [0] = .ok () := by decide +kernel
  have r1 : distRows sqI ldCoded [719 / 2, 1 / 2] [0, 0] [0] [0] = [[719 / 2, 1 / 2]] := by decide +kernel
  have r2 : distRows sqI ldShort [719 / 2, 1 / 2] [0, 0] [0] [0] = [[1 / 2, 1 / 2]] := by decide +kernel
  rw [hv, r1, r2] at h
  simp [bind, Except.bind, idwRow, nearer, pyTake, collect, List.zipIdx, List.mergeSort,
    List.MergeSort.Internal.splitInTwo] at h
  norm_num [collect] at h
  cases h

/-- **partial**: without a straddling pair the code as it is equals the repaired code -/
theorem idw_shortway_partial (sq : ℚ → ℚ) (dl dla ql qla : Vec) (tol : ℚ) (ms : Option Int) (h : NoStraddle dl ql) :
    selIdw sq ldCoded dl dla ql qla tol ms = selIdw sq ldShort dl dla ql qla tol ms := by
  unfold selIdw
  rw [distRows_eq, distRows_eq, radRows_coded_eq_short dl dla ql qla h]

/-! ## 5. reported longitudes -/

/-- `sel_nearest`/`sel_bbox`: every reported longitude is the stored longitude of the selected station
    modulo 360 (for all inputs) -/
theorem lon_reported_stations_mod360 (stored ql dl : Vec) (ids : List Nat) :
    (reportStations stored ql dl ids).map mod360 = (ids.map fun i => stored.getD i 0).map mod360 := by
  unfold reportStations
  simp only
  split
  · rfl
  · exact swapConv_residues _

/-- `sel_idw`: every reported longitude is the query longitude modulo 360 (for all inputs) -/
theorem lon_reported_idw_mod360 (ql dl : Vec) : (reportIdw ql dl).map mod360 = ql.map mod360 := by
  unfold reportIdw
  split
  · exact lonsQ_residues ql dl
  · rw [swapConv_residues, lonsQ_residues]

def InRange360 (l : Vec) : Prop := ∀ x ∈ l, 0 ≤ x ∧ x ≤ 360
def InRange180 (l : Vec) : Prop := ∀ x ∈ l, -180 ≤ x ∧ x ≤ 180

theorem is360_range {l : Vec} (h : is360 l = true) : InRange360 l := by
  unfold is360 at h
  simp only [Bool.and_eq_true, decide_eq_true_eq] at h
  intro x hx
  exact ⟨le_trans h.1 (arrMin_le hx), le_trans (le_arrMax hx) h.2⟩

theorem swapConv_of_360 {a : Vec} (h : InRange360 a) : InRange180 (swapConv a) := by
  have hmin : 0 ≤ arrMin a := le_arrMin (le_refl _) fun x hx => (h x hx).1
  have hmax : arrMax a ≤ 360 := arrMax_le (by norm_num) fun x hx => (h x hx).2
  have h1 : is180 a = false := by
    unfold is180
    simp only [Bool.and_eq_false_iff, decide_eq_false_iff_not, not_lt]
    exact Or.inl hmin
  have h2 : is360 a = true := by
    unfold is360
    simp only [Bool.and_eq_true, decide_eq_true_eq]
    exact ⟨hmin, hmax⟩
  unfold swapConv
  simp only [h1, h2, if_true, Bool.false_eq_true, if_false]
  intro y hy
  obtain ⟨x, hx, rfl⟩ := List.mem_map.mp hy
  obtain ⟨hx0, hx1⟩ := h x hx
  unfold to180
  split
  · constructor <;> linarith
  · constructor <;> linarith

theorem swapConv_of_180 {a : Vec} (h : InRange180 a) : InRange360 (swapConv a) := by
  have hmax : arrMax a ≤ 180 := arrMax_le (by norm_num) fun x hx => (h x hx).2
  unfold swapConv
  split
  · intro y hy
    obtain ⟨x, _, rfl⟩ := List.mem_map.mp hy
    exact ⟨mod360_nonneg x, le_of_lt (mod360_lt x)⟩
  · rename_i h1
    split
    · rename_i h2
      have hr := is360_range h2
      intro y hy
      obtain ⟨x, hx, rfl⟩ := List.mem_map.mp hy
      have : ¬ x > 180 := not_lt.mpr (h x hx).2
      unfold to180
      rw [if_neg this]
      exact hr x hx
    · rename_i h2
      exfalso
      unfold is180 at h1
      unfold is360 at h2
      simp only [Bool.and_eq_true, decide_eq_true_eq, not_and, not_le] at h1 h2
      by_cases hm : arrMin a < 0
      · exact absurd hmax (not_le.mpr (h1 hm))
      · have := h2 (not_lt.mp hm)
        linarith

/-- **lon_reported_in_query_convention** (`sel_nearest`, `sel_bbox`): with the dataset's longitudes inside the
    convention it is detected as, the reported longitudes lie in `[0,360]` when the query is detected as
    0–360 and in `[−180,180]` otherwise (and they are the stations' longitudes modulo 360:
    `lon_reported_stations_mod360`). -/
theorem lon_reported_in_query_convention (stored ql dl : Vec) (ids : List Nat)
    (hd360 : is360 dl = true → InRange360 stored) (hd180 : is360 dl = false → InRange180 stored)
    (hids : ∀ i ∈ ids, i < stored.length) :
    (is360 ql = true → InRange360 (reportStations stored ql dl ids)) ∧
    (is360 ql = false → InRange180 (reportStations stored ql dl ids)) := by
  have hsub : ∀ x ∈ (ids.map fun i => stored.getD i 0), x ∈ stored := by
    intro x hx
    obtain ⟨i, hi, rfl⟩ := List.mem_map.mp hx
    exact getD_mem_of_lt stored i (hids i hi)
  unfold reportStations consistent
  simp only
  constructor
  · intro hq
    cases hdl : is360 dl with
    | true =>
      simp only [hq, hdl, beq_self_eq_true, if_true]
      intro x hx; exact hd360 hdl x (hsub x hx)
    | false =>
      simp only [hq, hdl, Bool.false_eq_true, if_false]
      have : (true == false) = false := rfl
      rw [this]
      simp only [Bool.false_eq_true, if_false]
      exact swapConv_of_180 fun x hx => hd180 hdl x (hsub x hx)
  · intro hq
    cases hdl : is360 dl with
    | true =>
      have : (false == true) = false := rfl
      simp only [hq, hdl, this, Bool.false_eq_true, if_false]
      exact swapConv_of_360 fun x hx => hd360 hdl x (hsub x hx)
    | false =>
      simp only [hq, hdl, beq_self_eq_true, if_true]
      intro x hx; exact hd180 hdl x (hsub x hx)

/-- same for `sel_idw` (the reported longitudes are the query's, modulo 360: `lon_reported_idw_mod360`);
    a query not detected as 0–360 is assumed to lie in `[−180,180]` -/
theorem lon_reported_in_query_convention_idw (ql dl : Vec) (hq180 : is360 ql = false → InRange180 ql) :
    (is360 ql = true → InRange360 (reportIdw ql dl)) ∧ (is360 ql = false → InRange180 (reportIdw ql dl)) := by
  unfold reportIdw lonsQ consistent
  constructor
  · intro hq
    cases hdl : is360 dl with
    | true =>
      simp only [hq, hdl, beq_self_eq_true, if_true]
      exact is360_range hq
    | false =>
      have : (true == false) = false := rfl
      simp only [hq, hdl, this, Bool.false_eq_true, if_false]
      exact swapConv_of_180 (swapConv_of_360 (is360_range hq))
  · intro hq
    cases hdl : is360 dl with
    | true =>
      have : (false == true) = false := rfl
      simp only [hq, hdl, this, Bool.false_eq_true, if_false]
      exact swapConv_of_360 (swapConv_of_180 (hq180 hq))
    | false =>
      simp only [hq, hdl, beq_self_eq_true, if_true]
      exact hq180 hq

/-- non-vacuity: dataset `[350, 10]` detected 0–360, query `[−9]` not: station 350 is reported as −10 -/
example : is360 [350, 10] = true ∧ InRange360 [350, 10] ∧ is360 [-9] = false ∧ reportStations [350, 10] [-9] [350, 10] [0] = [-10] := by
  refine ⟨by decide +kernel, ?_, by decide +kernel, by decide +kernel⟩
  intro x hx; simp at hx; rcases hx with rfl | rfl <;> norm_num

/-! ## 4. bounding box -/

/-- the property's box: some representative (mod 360) of the station's longitude lies in
    `[min lons − tol, max lons + tol]` (the query's own numbers), latitude in `[min lats − tol, max lats + tol]` -/
def InBox (ql qla : Vec) (tol lon lat : ℚ) : Prop :=
  (∃ k : ℤ, arrMin ql - tol ≤ lon + 360 * k ∧ lon + 360 * k ≤ arrMax ql + tol) ∧
    arrMin qla - tol ≤ lat ∧ lat ≤ arrMax qla + tol

/-- `arrMin`/`arrMax` really are the smallest/largest query coordinate -/
theorem box_is_min_max (l : Vec) (x : ℚ) (h : x ∈ l) : arrMin l ≤ x ∧ x ≤ arrMax l := ⟨arrMin_le h, le_arrMax h⟩

/-- the clause for the code as it is -/
def BboxExact : Prop :=
  ∀ (dl dla ql qla : Vec) (tol : ℚ) (i : Nat), 0 ≤ tol →
    (i ∈ selBboxIdsRaw dl dla ql qla tol ↔ ∃ lon lat, (dl.zip dla)[i]? = some (lon, lat) ∧ InBox ql qla tol lon lat)

/-- **refuted on this tree**: dataset `[10, 180, 350]` (0–360), box `[−20, −5]`: station 350 (= −10) is
    inside the box but is not selected (the code returns stations 10 and 180, see the next theorem). -/
theorem bbox_exact_fails : ¬ BboxExact := by
  intro H
  have h := (H [10, 180, 350] [0, 0, 0] [-20, -5] [-1, 1] 0 2 (le_refl _)).mpr
    ⟨350, 0, by decide +kernel, ⟨-1, by decide +kernel, by decide +kernel⟩, by decide +kernel, by decide +kernel⟩
  revert h
  decide +kernel

theorem bbox_west_box_returns_complement :
    selBboxIdsRaw [10, 180, 350] [0, 0, 0] [-20, -5] [-1, 1] 0 = [0, 1] := by decide +kernel

/-- **tolerance shrinks the wrapped box**: a station selected with tolerance 0 is lost with tolerance 6;
    the straddling box `[−12, 12]` selects `{10, 350}` with tolerance 0 and nothing (ValueError) with 3 -/
theorem bbox_tolerance_shrinks :
    (3 ∈ selBboxIdsRaw [10, 180, 350, 338] [0, 0, 0, 0] [-20, -5] [-1, 1] 0 ∧
     3 ∉ selBboxIdsRaw [10, 180, 350, 338] [0, 0, 0, 0] [-20, -5] [-1, 1] 6) ∧
    selBboxIds [10, 180, 350] [0, 0, 0] [-12, 12] [-1, 1] 0 = .ok [2, 0] ∧
    selBboxIds [10, 180, 350] [0, 0, 0] [-12, 12] [-1, 1] 3 = .error .valueError := by decide +kernel

/-- **partial**: in the plain branch, when `Coordinates.lons` leaves the query unchanged and the dataset
    longitudes and the widened box lie in one common 360° window `[w, w+360)`, the selection is exactly
    the property's box. -/
theorem bbox_exact_partial (dl dla ql qla : Vec) (tol w : ℚ) (i : Nat)
    (hplain : (is360 dl && !(consistent ql dl)) = false) (hq : lonsQ ql dl = ql)
    (hwd : ∀ x ∈ dl, w ≤ x ∧ x < w + 360) (hlo : w ≤ arrMin ql - tol) (hhi : arrMax ql + tol < w + 360) :
    i ∈ selBboxIdsRaw dl dla ql qla tol ↔ ∃ lon lat, (dl.zip dla)[i]? = some (lon, lat) ∧ InBox ql qla tol lon lat := by
  unfold selBboxIdsRaw
  simp only [hplain, hq, Bool.not_false, if_true]
  rw [mem_whereIdx]
  constructor
  · rintro ⟨lon, lat, hz, hp⟩
    simp only [Bool.and_eq_true, decide_eq_true_eq] at hp
    exact ⟨lon, lat, hz, ⟨0, by simpa using hp.1.1.1, by simpa using hp.1.2⟩, hp.1.1.2, hp.2⟩
  · rintro ⟨lon, lat, hz, ⟨k, h1, h2⟩, h3, h4⟩
    refine ⟨lon, lat, hz, ?_⟩
    have hmem : lon ∈ dl := by
      have := List.mem_of_getElem? hz
      exact (List.of_mem_zip this).1
    obtain ⟨hw1, hw2⟩ := hwd lon hmem
    have hk : k = 0 := by
      have a1 : (-1 : ℚ) < (k : ℚ) := by nlinarith
      have a2 : (k : ℚ) < 1 := by nlinarith
      have b1 : (-1 : ℤ) < k := by exact_mod_cast a1
      have b2 : k < (1 : ℤ) := by exact_mod_cast a2
      omega
    subst hk
    simp only [Bool.and_eq_true, decide_eq_true_eq]
    exact ⟨⟨⟨by simpa using h1, h3⟩, by simpa using h2⟩, h4⟩

/-- non-vacuity: both conventions equal (0–360), box `[5, 20] ± 1` inside `[0, 360)` -/
example : (is360 [10, 350, 180] && !(consistent [5, 20] [10, 350, 180])) = false ∧ lonsQ [5, 20] [10, 350, 180] = [5, 20] ∧
    (∀ x ∈ ([10, 350, 180] : Vec), (0 : ℚ) ≤ x ∧ x < 0 + 360) ∧ (0 : ℚ) ≤ arrMin [5, 20] - 1 ∧ arrMax [5, 20] + 1 < (0 : ℚ) + 360 := by
  decide +kernel

/-- the clause "same stations whichever convention the dataset uses", for the code as it is -/
def BboxConventionIndependent : Prop :=
  ∀ (dl dl' dla ql qla : Vec) (tol : ℚ), dl.map mod360 = dl'.map mod360 →
    ∀ i, i ∈ selBboxIdsRaw dl dla ql qla tol ↔ i ∈ selBboxIdsRaw dl' dla ql qla tol

/-- **refuted on this tree**: the same three stations as `[10, 180, 350]` and as `[10, 180, −10]` -/
theorem bbox_convention_independent_fails : ¬ BboxConventionIndependent := by
  intro H
  have h := (H [10, 180, 350] [10, 180, -10] [0, 0, 0] [-20, -5] [-1, 1] 0 (by decide +kernel) 2)
  revert h
  decide +kernel

/-- **partial**: two expressions of the dataset that both satisfy the hypotheses of `bbox_exact_partial`
    (e.g. a box inside the eastern hemisphere) select the same stations -/
theorem bbox_convention_independent_partial (dl dl' dla ql qla : Vec) (tol w w' : ℚ) (i : Nat)
    (hres : ∀ (j : Nat) (lon lat : ℚ), (dl.zip dla)[j]? = some (lon, lat) → ∃ lon' : ℚ, (dl'.zip dla)[j]? = some (lon', lat) ∧ ∃ k : ℤ, lon' = lon + 360 * k)
    (hres' : ∀ (j : Nat) (lon' lat : ℚ), (dl'.zip dla)[j]? = some (lon', lat) → ∃ lon : ℚ, (dl.zip dla)[j]? = some (lon, lat) ∧ ∃ k : ℤ, lon = lon' + 360 * k)
    (hplain : (is360 dl && !(consistent ql dl)) = false) (hq : lonsQ ql dl = ql)
    (hwd : ∀ x ∈ dl, w ≤ x ∧ x < w + 360) (hlo : w ≤ arrMin ql - tol) (hhi : arrMax ql + tol < w + 360)
    (hplain' : (is360 dl' && !(consistent ql dl')) = false) (hq' : lonsQ ql dl' = ql)
    (hwd' : ∀ x ∈ dl', w' ≤ x ∧ x < w' + 360) (hlo' : w' ≤ arrMin ql - tol) (hhi' : arrMax ql + tol < w' + 360) :
    i ∈ selBboxIdsRaw dl dla ql qla tol ↔ i ∈ selBboxIdsRaw dl' dla ql qla tol := by
  rw [bbox_exact_partial dl dla ql qla tol w i hplain hq hwd hlo hhi,
    bbox_exact_partial dl' dla ql qla tol w' i hplain' hq' hwd' hlo' hhi']
  constructor
  · rintro ⟨lon, lat, hz, ⟨k, h1, h2⟩, h3⟩
    obtain ⟨lon', hz', m, rfl⟩ := hres i lon lat hz
    exact ⟨_, lat, hz', ⟨k - m, by push_cast; linarith, by push_cast; linarith⟩, h3⟩
  · rintro ⟨lon', lat, hz', ⟨k, h1, h2⟩, h3⟩
    obtain ⟨lon, hz, m, rfl⟩ := hres' i lon' lat hz'
    exact ⟨_, lat, hz, ⟨k - m, by push_cast; linarith, by push_cast; linarith⟩, h3⟩

/-! ## Fixed — the repaired code (Model/SelectFixed.lean): full-strength statements -/
namespace Fixed

/-- **nearest_min** for the repaired distance: the returned station minimises the short-way distance and
    lies within the tolerance (all station lists, all queries, both conventions). -/
theorem nearest_min (sq : ℚ → ℚ) (dl dla ql qla : Vec) (tol : ℚ) (exact : Bool) (ids : List Nat)
    (hlen : dl.length = dla.length) (htol : 0 ≤ tol) (hsq : ∀ r ∈ radRows ldShort dl dla ql qla, SqrtOn sq r)
    (h : selNearestIdsFixed sq dl dla ql qla tol false exact .raise = .ok ids) :
    ids.length = ql.length ∧
      ∀ j (_ : j < ids.length) (h2 : j < (radRows ldShort dl dla ql qla).length),
        IsNearestWithin tol ((radRows ldShort dl dla ql qla)[j]) ids[j] :=
  nearest_min_gen sq ldShort dl dla ql qla tol exact ids hlen htol hsq h

theorem nearest_fails_beyond_tolerance (sq : ℚ → ℚ) (dl dla ql qla : Vec) (tol : ℚ) (unique exact : Bool)
    (hlen : dl.length = dla.length) (htol : 0 ≤ tol) (hv : validate dl ql qla = .ok ())
    (hsq : ∀ r ∈ radRows ldShort dl dla ql qla, SqrtOn sq r)
    (hfar : ∃ r ∈ radRows ldShort dl dla ql qla, ∀ x ∈ r, tol ^ 2 < x) :
    selNearestIdsFixed sq dl dla ql qla tol unique exact .raise = .error .assertionError :=
  nearest_fails_beyond_tolerance_gen sq ldShort dl dla ql qla tol unique exact hlen htol hv hsq hfar

/-- the witness that refutes the code as it is, is answered correctly by the repaired distance -/
example : selNearestIdsFixed (fun x => if x = (1 / 4) ^ 2 then 1 / 4 else if x = (3 / 8) ^ 2 then 3 / 8 else 0)
    [2879 / 8, 1 / 2] [0, 0] [1 / 8] [0] 5 false false .raise = .ok [0] := by decide +kernel

/-- **bbox_exact** for the repaired box test: selected ⇔ inside the query's own `[min, max]` box widened by
    the tolerance, longitudes compared modulo 360 — for every dataset/query convention. -/
theorem bbox_exact (dl dla ql qla : Vec) (tol : ℚ) (i : Nat) :
    i ∈ selBboxIdsRawFixed dl dla ql qla tol ↔
      ∃ lon lat, (dl.zip dla)[i]? = some (lon, lat) ∧ InBox ql qla tol lon lat := by
  unfold selBboxIdsRawFixed InBox
  rw [mem_whereIdx]
  constructor
  · rintro ⟨lon, lat, hz, hp⟩
    simp only [Bool.and_eq_true, decide_eq_true_eq] at hp
    refine ⟨lon, lat, hz, ?_, hp.1.2, hp.2⟩
    have := (mod360_sub_le_iff lon (arrMin ql - tol) (arrMax ql + tol)).mp hp.1.1
    exact this
  · rintro ⟨lon, lat, hz, hk, h3, h4⟩
    refine ⟨lon, lat, hz, ?_⟩
    simp only [Bool.and_eq_true, decide_eq_true_eq]
    exact ⟨⟨(mod360_sub_le_iff lon (arrMin ql - tol) (arrMax ql + tol)).mpr hk, h3⟩, h4⟩

/-- `ValueError` exactly when no station is inside the box -/
theorem bbox_error_iff (dl dla ql qla : Vec) (tol : ℚ) (hv : validate dl ql qla = .ok ()) :
    selBboxIdsFixed dl dla ql qla tol = .error .valueError ↔
      ∀ (i : Nat) (lon lat : ℚ), (dl.zip dla)[i]? = some (lon, lat) → ¬ InBox ql qla tol lon lat := by
  unfold selBboxIdsFixed
  rw [hv]
  simp only [bind, Except.bind]
  constructor
  · intro h i lon lat hz hin
    split at h
    · rename_i he
      have : i ∈ selBboxIdsRawFixed dl dla ql qla tol := (bbox_exact dl dla ql qla tol i).mpr ⟨lon, lat, hz, hin⟩
      rw [he] at this; simp at this
    · cases h
  · intro h
    have he : selBboxIdsRawFixed dl dla ql qla tol = [] := by
      apply List.eq_nil_iff_forall_not_mem.mpr
      intro i hi
      obtain ⟨lon, lat, hz, hin⟩ := (bbox_exact dl dla ql qla tol i).mp hi
      exact h i lon lat hz hin
    rw [if_pos he]

/-- **convention_independent** (bbox, repaired): re-expressing the dataset longitudes by whole turns
    (`% 360`, map to [−180,180], …) does not change the selected station indices. -/
theorem convention_independent_bbox (c : ℚ → ℚ) (hc : ∀ x, ∃ k : ℤ, c x = x + 360 * k) (dl dla ql qla : Vec) (tol : ℚ) :
    selBboxIdsRawFixed (dl.map c) dla ql qla tol = selBboxIdsRawFixed dl dla ql qla tol := by
  unfold selBboxIdsRawFixed
  simp only
  rw [whereIdx_map_left]
  congr 1
  funext lon lat
  obtain ⟨k, hk⟩ := hc lon
  have : mod360 (c lon - (arrMin ql - tol)) = mod360 (lon - (arrMin ql - tol)) := by
    rw [hk, ← mod360_add_int (lon - (arrMin ql - tol)) k]; congr 1; ring
  rw [this]

/-- **convention_independent** (nearest / idw, repaired): instances of the general theorems -/
theorem convention_independent_nearest (sq : ℚ → ℚ) (dl dl' dla ql ql' qla : Vec) (tol : ℚ)
    (u e : Bool) (m : Missing) (hd : dl.map mod360 = dl'.map mod360) (hq : ql.map mod360 = ql'.map mod360) :
    selNearestIdsFixed sq dl dla ql qla tol u e m = selNearestIdsFixed sq dl' dla ql' qla tol u e m :=
  C14.convention_independent_nearest sq ldShort dl dl' dla ql ql' qla tol u e m hd hq

theorem convention_independent_idw (sq : ℚ → ℚ) (dl dl' dla ql ql' qla : Vec) (tol : ℚ)
    (ms : Option Int) (hd : dl.map mod360 = dl'.map mod360) (hq : ql.map mod360 = ql'.map mod360) :
    selIdwFixed sq dl dla ql qla tol ms = selIdwFixed sq dl' dla ql' qla tol ms :=
  C14.convention_independent_idw sq ldShort dl dl' dla ql ql' qla tol ms hd hq

/-- the witnesses that refute the code as it is are answered correctly by the repaired box -/
example : selBboxIdsFixed [10, 180, 350] [0, 0, 0] [-20, -5] [-1, 1] 0 = .ok [2] ∧
    selBboxIdsFixed [10, 180, -10] [0, 0, 0] [-20, -5] [-1, 1] 6 = .ok [2] ∧
    selBboxIdsFixed [10, 180, 350] [0, 0, 0] [-12, 12] [-1, 1] 3 = .ok [0, 2] ∧
    selBboxIdsFixed [10, 180, -10, -175, 175] [0, 0, 0, 0, 0] [170, 190] [-1, 1] 0 = .ok [1, 3, 4] := by decide +kernel

end Fixed

end WS.C14

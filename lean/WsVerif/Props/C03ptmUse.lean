import WsVerif.Props.C03ptm
import WsVerif.Props.C03chain
import WsVerif.Props.C01
/-!
# C03 — what the bridges of `Props/C03ptm.lean` buy

The theorems of `Props/C03.lean` / `Props/C03chain.lean` are about `Model/Assembly.lean`; with `genptm_np_ptm{1,2,3}_eq` they
are statements about the functions regenerated from the current source.  Kept apart from `C03ptm.lean` so that a broken
literal list or C-text digest upstream never hides which bridge broke.
-/
namespace WS.C03
open WS WS.Assembly WS.PtmBridge

/-! ## the bins of the end-to-end theorems -/

/-- `mkBins` (the bins of the `…_eq_lists` bridges) is the `binsOf` of `Props/C03chain.lean`, where the label list is the
    output of the watershed model: the conservation theorems there are statements about the regenerated functions -/
theorem genptm_mkBins_eq_binsOf (E : Vec) (labs : List Nat) (ws : List Bool) : mkBins E labs ws = binsOf E labs ws := rfl

/-! ## what the bridges buy: C03 theorems as statements about the regenerated functions -/

theorem genptm_colSum_vals (ps : List Part) (i : Nat) : ((vals ps).map fun a => a.getD i 0).sum = colSum ps i := by
  simp [vals, colSum, Function.comp_def]

/-- the regenerated `np_ptm1` returns `swells + 1` arrays; `np_ptm2` `swells + 2`; `np_ptm3` `parts` -/
theorem genptm_lengths (key : Vec → Rat) (wscut : Rat) (bins : List Bin) (smooth : List Rat) (s : Nat) :
    (Gen.np_ptm1 key (bE bins) smooth (bL bins) (bW bins) wscut (some s)).length = s + 1
    ∧ (Gen.np_ptm2 key (bE bins) smooth (bL bins) (bW bins) wscut (some s)).length = s + 2
    ∧ (Gen.np_ptm3 key (bE bins) smooth (bL bins) (some s)).length = s := by
  rw [genptm_np_ptm1_eq, genptm_np_ptm2_eq, genptm_np_ptm3_eq]
  simp only [vals_length]
  exact ⟨len_ptm1 key wscut bins s, len_ptm2 key wscut bins s, (len_ptm3 key bins s).1⟩

/-- energy conservation, bin for bin, of the regenerated functions (every bin labelled, at least `nparts` requested) -/
theorem genptm_conserves (key : Vec → Rat) (wscut : Rat) (bins : List Bin) (smooth : List Rat) (s : Nat)
    (hcover : ∀ b ∈ bins, 1 ≤ b.lab) (hreq : nparts bins ≤ s) (i : Nat) (hi : i < bins.length) :
    ((Gen.np_ptm1 key (bE bins) smooth (bL bins) (bW bins) wscut (some s)).map fun a => a.getD i 0).sum = bins[i].e
    ∧ ((Gen.np_ptm2 key (bE bins) smooth (bL bins) (bW bins) wscut (some s)).map fun a => a.getD i 0).sum = bins[i].e
    ∧ ((Gen.np_ptm3 key (bE bins) smooth (bL bins) (some s)).map fun a => a.getD i 0).sum = bins[i].e := by
  rw [genptm_np_ptm1_eq, genptm_np_ptm2_eq, genptm_np_ptm3_eq]
  simp only [genptm_colSum_vals]
  exact ⟨sum_exact_ptm1 key wscut bins s hcover hreq i hi, sum_exact_ptm2 key wscut bins s hcover hreq i hi,
    sum_exact_ptm3 key bins s hcover hreq i hi⟩

/-! ## the sort key -/

/-- the key every `…_hs` bridge is instantiated with is the regenerated `npstats.hs(swell, freq, dir)` (radicand, tail
    fitted) of the partition reshaped to its `(nf, nd)` rows — for at least two directions, which the wind-sea mask and
    `hs` itself need anyway -/
theorem genptm_key_is_npstats_hs (f v : Vec) (a b : Rat) (rest : Vec) :
    npHsKey f (a :: b :: rest) v
      = Gen.npHsE (rowsOf f.length (a :: b :: rest).length v) f (some (a :: b :: rest)) true := by
  rw [C01.gen_npHs_eq]
  simp [npHsKey, npHsRow, Stats.npE, Stats.oned, npDdir]

end WS.C03

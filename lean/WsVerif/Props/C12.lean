import WsVerif.Model.IO.Native
import WsVerif.Gen.Dispatch
import WsVerif.Gen.NativeK
import WsVerif.Gen.Lits
import WsVerif.Lemmas.Sums
import WsVerif.Props.C10
import Mathlib.Data.Rat.Floor
import Mathlib.Tactic.NormNum
/-!
# C12 — model-native datasets are converted with the right units and direction sense

Property theorems on the model `Model/IO/Native.lean` of `read_dataset` and the `from_*` readers.
`pi` is a symbolic parameter (non-zero / positive): every statement holds for every such value, in particular
for the double `np.pi` and for the real π.  `10**x`, `cos`, `atan2` enter as oracle values (DESIGN §1.1).
Variances are the accessor's discrete rule `Σ_i Σ_j E_ij Δf_i Δθ` (`Stats.dsum`, `Δf = np.gradient`, `Δθ = dd`).
-/
namespace WS.C12
open WS WS.Stats WS.Native

/-! ## T-tier: the regenerated tables and kernels are the model's -/

/-- the dispatch table regenerated from `input/dataset.py` (signature sets, test order, reader called) -/
theorem gen_dispatch : Gen.dispatchTable = Native.dispatchTable := by decide

theorem gen_consts (pi : ℚ) : Gen.utils_D2R pi = d2r pi ∧ Gen.utils_R2D pi = r2d pi ∧
    Gen.ncswan_R2D pi = r2d pi ∧ Gen.wwm_R2D pi = r2d pi := ⟨rfl, rfl, rfl, rfl⟩

theorem gen_ww3 (pi x : ℚ) : Gen.ww3_spec pi x = ww3Spec pi x ∧ Gen.ww3_dir pi x = ww3Dir x := ⟨rfl, rfl⟩

theorem gen_ncswan (pi x : ℚ) : Gen.ncswan_spec pi x = ncswanSpec pi x ∧ Gen.ncswan_dir pi x = ncswanDir pi x :=
  ⟨rfl, rfl⟩

theorem gen_wwm (pi sig x : ℚ) : Gen.wwm_freq pi sig = wwmFreq pi sig ∧ Gen.wwm_dir pi x = wwmDir pi x ∧
    Gen.wwm_spec pi sig x = wwmSpec pi sig x := ⟨rfl, rfl, rfl⟩

theorem gen_era5 (pi p : ℚ) : Gen.era5_spec pi p = era5Spec pi (some p) ∧ Gen.era5_fill = era5Spec pi none :=
  ⟨rfl, rfl⟩

/-- the literals of the ERA5 default grids (`np.full(30, 0.03453) * 1.1 ** np.arange(0, 30)`,
    `(np.arange(7.5, 352.5 + 15, 15) + 180) % 360`) and of the readers are the model's -/
theorem gen_era5_grids :
    Gen.lits_era5_DEFAULT_FREQS = [30, era5F0, era5Ratio, 0, 30] ∧
    Gen.src_era5_DEFAULT_FREQS = "np.full(30, 0.03453) * 1.1 ** np.arange(0, 30)" ∧
    Gen.lits_era5_DEFAULT_DIRS = [15 / 2, 705 / 2, 15, 15, 180, 360] ∧
    Gen.src_era5_DEFAULT_DIRS = "(np.arange(7.5, 352.5 + 15, 15) + 180) % 360" := by decide +kernel

theorem gen_ndbc (pi ef d r1 r2 c1 c2 a1 a2 θ : ℚ) :
    Gen.ndbc_dist r1 r2 c1 c2 = ndbcDist r1 r2 c1 c2 ∧ Gen.ndbc_spec pi ef d = ndbcSpec pi ef d ∧
    Gen.ndbc_cosarg1 pi a1 a2 θ = d2r pi * (θ - a1) ∧ Gen.ndbc_cosarg2 pi a1 a2 θ = 2 * d2r pi * (θ - a2) :=
  ⟨rfl, rfl, rfl, rfl⟩

theorem gen_uv (u v a : ℚ) (cf : Bool) : Gen.uv_mag2 u v = uvMag2 u v ∧ Gen.uv_dir cf a = uvDir cf a := ⟨rfl, rfl⟩

/-- both readers that build winds call `uv_to_spddir(east, north, coming_from=True)` -/
theorem gen_uv_calls :
    Gen.ncswan_uv_call = ["(dset[attrs.WSPDNAME], dset[attrs.WDIRNAME])", "dset['xwnd']", "dset['ywnd']", "coming_from=True"] ∧
    Gen.wwm_uv_call = ["(dset[attrs.WSPDNAME], dset[attrs.WDIRNAME])", "dset['Uwind']", "dset['Vwind']", "coming_from=True"] := by
  decide

theorem gen_lits : Gen.lits_ww3_from_ww3 = [0, 0, 180, 360] ∧ Gen.lits_ncswan_from_ncswan = [0, 0, 360, 1, 1] ∧
    Gen.lits_wwm_from_wwm = [2, 360, 2] ∧ Gen.lits_era5_from_era5 = [10, 180, 0] ∧
    Gen.lits_ndbc_construct_spectra = [1 / 2, 2] ∧ Gen.lits_ndbc_from_ndbc = [10, 0, 360] ∧
    Gen.lits_utils_uv_to_spddir = [270, 90, 2, 2, 360] := by decide +kernel

/-- name mappings: the spectrum variable, the spectral coordinates and the optional variables of every
    convention are renamed to the wavespectra names, and only wavespectra names are kept -/
theorem gen_mappings :
    Gen.mapping_ww3 = [("time", "time"), ("frequency", "freq"), ("direction", "dir"), ("station", "site"),
      ("efth", "efth"), ("longitude", "lon"), ("latitude", "lat"), ("wnddir", "wdir"), ("wnd", "wspd")] ∧
    Gen.mapping_ncswan = [("time", "time"), ("frequency", "freq"), ("direction", "dir"), ("points", "site"),
      ("density", "efth"), ("longitude", "lon"), ("latitude", "lat"), ("depth", "dpt")] ∧
    Gen.mapping_wwm = [("nfreq", "freq"), ("ndir", "dir"), ("nbstation", "site"), ("AC", "efth"), ("lon", "lon"),
      ("lat", "lat"), ("DEP", "dpt"), ("ocean_time", "time")] ∧
    Gen.mapping_ndbc = [("time", "time"), ("frequency", "freq"), ("direction", "dir"),
      ("spectral_wave_density", "efth"), ("longitude", "lon"), ("latitude", "lat"), ("depth", "dpt")] ∧
    Gen.to_keep = ["efth", "wspd", "wdir", "dpt", "lon", "lat"] := by decide

/-! ## dispatch -/

theorem contains_append_extra (base extra : List String) (x : String) (h : x ∉ extra) :
    (base ++ extra).contains x = base.contains x := by
  rw [Bool.eq_iff_iff]; simp [h]

theorem subsetB_extra (s base extra : List String) (h : ∀ x ∈ s, x ∉ extra) :
    subsetB s (base ++ extra) = subsetB s base := by
  unfold subsetB
  induction s with
  | nil => rfl
  | cons a s ih =>
    simp only [List.all_cons]
    rw [contains_append_extra base extra a (h a (by simp)), ih (fun x hx => h x (by simp [hx]))]

/-- only membership matters (the code works on a Python `set`) -/
theorem subsetB_congr (s v w : List String) (h : ∀ x, x ∈ v ↔ x ∈ w) : subsetB s v = subsetB s w := by
  unfold subsetB
  induction s with
  | nil => rfl
  | cons a s ih =>
    simp only [List.all_cons, ih]
    congr 1
    rw [Bool.eq_iff_iff]; simp [h a]

theorem find_congr {α : Type} (p q : α → Bool) (l : List α) (h : ∀ x ∈ l, p x = q x) :
    l.find? p = l.find? q := by
  induction l with
  | nil => rfl
  | cons a l ih =>
    simp only [List.find?_cons, h a (by simp)]
    rw [ih (fun x hx => h x (by simp [hx]))]

/-- the routing depends on the *set* of names only -/
theorem dispatch_set (table : List (String × List String)) (v w : List String) (h : ∀ x, x ∈ v ↔ x ∈ w) :
    dispatch table v = dispatch table w := by
  unfold dispatch
  rw [find_congr _ _ table (fun p _ => subsetB_congr p.2 v w h)]

/-- names outside every signature do not influence the routing -/
theorem dispatch_extra (table : List (String × List String)) (base extra : List String)
    (h : ∀ p ∈ table, ∀ x ∈ p.2, x ∉ extra) : dispatch table (base ++ extra) = dispatch table base := by
  unfold dispatch
  rw [find_congr _ _ table (fun p hp => subsetB_extra p.2 base extra (h p hp))]

/-- each convention's own signature is routed to its own reader by the code's table, in the code's test order -/
theorem conv_routes : ∀ c ∈ conventions, dispatch Native.dispatchTable c.2 = some c.1 := by decide

/-- **dispatch_correct**: a dataset whose names are a convention's signature names plus *any* further names that
    are not signature names of some convention (times, positions, winds, depths, anything) is routed to that
    convention's own reader; a dataset in the wavespectra convention is returned unchanged (`identity`).
    The table is the one regenerated from the source (`gen_dispatch`). -/
theorem dispatch_correct (vars extra : List String) (c : String × List String) (hc : c ∈ conventions)
    (hextra : ∀ x ∈ extra, x ∉ sigNames) (hvars : ∀ x, x ∈ vars ↔ x ∈ c.2 ∨ x ∈ extra) :
    dispatch Gen.dispatchTable vars = some c.1 := by
  rw [gen_dispatch, dispatch_set _ vars (c.2 ++ extra) (fun x => by rw [hvars x, List.mem_append])]
  rw [dispatch_extra]
  · exact conv_routes c hc
  · intro p hp x hx hxe
    apply hextra x hxe
    unfold sigNames
    exact List.mem_flatMap.mpr ⟨p, hp, hx⟩

/-- optional variables of the conventions (MAPPING keys, wind components, spectral-grid variables, NDBC moments)
    that are not signature names -/
def optionalNames : List String :=
  ((Gen.mapping_ww3 ++ Gen.mapping_ncswan ++ Gen.mapping_wwm ++ Gen.mapping_ndbc).map (·.1) ++
    ["dpt", "xwnd", "ywnd", "Uwind", "Vwind", "SPSIG", "SPDIR", "mean_wave_dir", "principal_wave_dir",
     "wave_spectrum_r1", "wave_spectrum_r2", "string16"]).filter fun x => !sigNames.contains x

/-- … in particular with any selection of the other conventions' optional variables present -/
theorem dispatch_correct_optional (extra : List String) (c : String × List String) (hc : c ∈ conventions)
    (hextra : ∀ x ∈ extra, x ∈ optionalNames) : dispatch Gen.dispatchTable (c.2 ++ extra) = some c.1 := by
  apply dispatch_correct (c.2 ++ extra) extra c hc
  · intro x hx hs
    have := hextra x hx
    unfold optionalNames at this
    rw [List.mem_filter] at this
    simp [hs] at this
  · intro x; exact List.mem_append

/-- a dataset containing no complete signature raises `ValueError` -/
theorem dispatch_unknown (vars : List String) (h : ∀ p ∈ Native.dispatchTable, subsetB p.2 vars = false) :
    dispatch Gen.dispatchTable vars = none := by
  rw [gen_dispatch]
  unfold dispatch
  rw [List.find?_eq_none.mpr (fun p hp => by simp [h p hp])]
  rfl

/-! ## naming: the result is laid out in the wavespectra convention -/

theorem gen_mapping_tables : Gen.mapping_ww3 = mappingWW3 ∧ Gen.mapping_ncswan = mappingNcswan ∧
    Gen.mapping_wwm = mappingWWM ∧ Gen.mapping_ndbc = mappingNdbc ∧ Gen.mapping_era5 = mappingEra5 := by decide

/-- how the readers rename: every reader renames the keys of its table that are present in the dataset
    (ww3 / ncswan / ndbc through the local `mapping`, wwm and era5 inline) -/
theorem gen_renames :
    Gen.renames_ww3 = ["dset.rename(mapping)"] ∧ Gen.renames_ncswan = ["dset.rename(mapping)"] ∧
    Gen.renames_wwm = ["dset.rename({k: v for k, v in MAPPING.items() if k != v and k in names})"] ∧
    Gen.renames_era5 = ["dset.rename({k: v for k, v in native.items() if k in names})"] ∧
    Gen.renames_ndbc = ["dset.rename(mapping)", "dset.rename(mapping)"] ∧
    Gen.mapping_expr_ww3 = ["{k: v for k, v in MAPPING.items() if k != v and k in vars_and_dims}"] ∧
    Gen.mapping_expr_ncswan = ["{k: v for k, v in MAPPING.items() if k != v and k in vars_and_dims}"] ∧
    Gen.mapping_expr_ndbc = ["{}", "{k: v for k, v in MAPPING.items() if k != v and k in vars_and_dims}"] ∧
    Gen.mapping_expr_wwm = [] ∧ Gen.mapping_expr_era5 = [] := by decide

/-- a dataset of convention `c` carrying every optional positional/time/depth variable of its convention -/
def equipped (c : String × List String × List String × String) : List String :=
  c.2.1 ++ ["time", "ocean_time", "lon", "lat", "DEP", "longitude", "latitude", "depth"]

/-- the result of a reader (`od` = its dimension model, `os` = its spectrum-name model) is in the wavespectra
    convention: spectrum `efth`, dimensions `freq` and `dir`, no native signature dimension left -/
def namesOkWith (od : String → Bool → List String → List String → Except Err (List String)) (os : String → String → String)
    (c : String × List String × List String × String) : Bool :=
  os c.1 c.2.2.2 == "efth" &&
    match od c.1 true (equipped c) c.2.2.1 with
    | .ok d => d.contains "freq" && d.contains "dir" && c.2.2.1.all (fun n => !d.contains n)
    | .error _ => false

def namesOk := namesOkWith outDims outSpec

/-- **names_full**: every native convention (WW3, SWAN, WWM, ERA5, NDBC) comes back from the reader that
    `read_dataset` selects in the wavespectra convention -/
theorem names_full : ∀ c ∈ nativeConventions, namesOk c = true := by decide

/-- **wwm_optional**: `from_wwm` works whichever optional variables are present, and renames the dimensions -/
theorem wwm_optional (all dims : List String) (dirl : Bool) :
    outDims "wwm" dirl all dims = .ok (renamePresent mappingWWM dims) := by
  unfold outDims
  have h1 : ("wwm" = "ww3") = False := by decide
  have h2 : ("wwm" = "ncswan") = False := by decide
  simp only [h1, h2, if_false, if_true]

/-! ### code as found (before a998130 / 8cfe575): statements about the explicitly named old model -/

/-- full statement on the old model -/
def NamesFullOld : Prop := ∀ c ∈ nativeConventions, namesOkWith outDimsOld outSpecOld c = true

/-- refuted by the old ERA5 reader as `read_dataset` called it: `d2fd(frequency, direction)` stayed, unrelated
    `freq`/`dir` coordinates were added (finding F11, fixed by a998130) -/
theorem names_full_fails_old : ¬ NamesFullOld := by
  intro h
  have := h ("era5", ["frequency", "direction", "d2fd"], ["frequency", "direction"], "d2fd") (by decide)
  revert this
  decide

theorem names_partial_old : ∀ c ∈ nativeConventions, c.1 ≠ "era5" → namesOkWith outDimsOld outSpecOld c = true := by
  decide

def WwmOptionalFullOld : Prop :=
  ∀ extra : List String, ∃ d, outDimsOld "wwm" true (["nfreq", "ndir", "nbstation", "AC"] ++ extra) ["nfreq", "ndir", "nbstation"] = .ok d

/-- refuted on the old model: `dset.rename(MAPPING)` needed `lon`, `lat`, `DEP` and `ocean_time` (finding F23, fixed
    by 8cfe575) -/
theorem wwm_optional_fails_old : ¬ WwmOptionalFullOld := by
  intro h
  obtain ⟨d, hd⟩ := h ["lon", "lat", "ocean_time"]
  have e : outDimsOld "wwm" true (["nfreq", "ndir", "nbstation", "AC"] ++ ["lon", "lat", "ocean_time"])
      ["nfreq", "ndir", "nbstation"] = .error .valueError := by decide
  rw [e] at hd
  cases hd

theorem wwm_optional_partial_old (all dims : List String) (h : ∀ p ∈ mappingWWM, p.1 ∈ all) (dirl : Bool) :
    outDimsOld "wwm" dirl all dims = .ok (renamePresent mappingWWM dims) := by
  have : mappingWWM.all (fun p => all.contains p.1) = true := by
    rw [List.all_eq_true]; intro p hp; simpa using h p hp
  unfold outDimsOld renameStrict
  simp only [this, if_true]
  rfl

/-! ## units: variance is preserved -/

theorem d2r_mul_r2d (pi : ℚ) (hpi : pi ≠ 0) : d2r pi * r2d pi = 1 := by
  unfold d2r r2d; field_simp

theorem row_scale (r : Vec) (k wi ddv : ℚ) :
    ((r.map fun x => x * k).map fun x => x * wi * ddv).sum = (r.map fun x => x * wi * (ddv * k)).sum := by
  rw [List.map_map]; congr 1; apply List.map_congr_left; intro x _; simp only [Function.comp]; ring

/-- multiplying every bin by `k` is the same as multiplying the direction bin width by `k` -/
theorem dsum_scale (ddv k : ℚ) (w : Vec) (e : Mat) :
    dsum ddv w (mapM (fun x => x * k) e) = dsum (ddv * k) w e := by
  unfold dsum mapM
  induction e generalizing w with
  | nil => simp
  | cons r e ih =>
    cases w with
    | nil => simp
    | cons wi w =>
      simp only [List.map_cons, List.zipWith_cons_cons, List.sum_cons, ih w, row_scale]

theorem mapM_congr (g h : ℚ → ℚ) (e : Mat) (hgh : ∀ x, g x = h x) : mapM g e = mapM h e := by
  have : g = h := funext hgh
  rw [this]

/-- converted bin width of WW3 directions: `(θ + 180) % 360` keeps the (short-way) spacing of the first two
    stored directions, also when 0/360 now falls between them -/
theorem dd_ww3 (dirs : Vec) (h : ∀ x y rest, dirs = x :: y :: rest → absR (y - x) < 360) :
    dd (some (dirs.map ww3Dir)) = dd (some dirs) := by
  match dirs, h with
  | [], _ => rfl
  | [_], _ => rfl
  | x :: y :: rest, h =>
    have h1 := h x y rest rfl
    have hx := C10.pmod_range (x + 180) 360 (by norm_num)
    have hy := C10.pmod_range (y + 180) 360 (by norm_num)
    have ex : ww3Dir x = x + 180 - 360 * (((x + 180) / 360).floor : ℚ) := rfl
    have ey : ww3Dir y = y + 180 - 360 * (((y + 180) / 360).floor : ℚ) := rfl
    simp only [List.map_cons]
    rw [ex, ey]
    apply C10.dd_relabel_inv x y 180 _ _ rest _ h1
    rw [← ex, ← ey]
    unfold ww3Dir absR
    split_ifs <;> linarith [hx.1, hx.2, hy.1, hy.2]

/-- **variance_ww3**: the variance of every converted WW3 spectrum (density × D2R on directions in degrees, integrated
    with the converted coordinates) equals the native integral (density per radian × bin width in radians) -/
theorem variance_ww3 (pi : ℚ) (f dirs : Vec) (e : Mat)
    (h : ∀ x y rest, dirs = x :: y :: rest → absR (y - x) < 360) :
    varConv f (fromWW3 pi dirs e).1 (fromWW3 pi dirs e).2 = dsum (dd (some dirs) * d2r pi) (df f) e := by
  unfold varConv fromWW3
  simp only
  rw [dd_ww3 dirs h]
  exact dsum_scale _ _ _ _

theorem absR_mul_pos (k z : ℚ) (hk : 0 < k) : absR (z * k) = absR z * k := by
  unfold absR
  have : z * k < 0 ↔ z < 0 := by
    constructor
    · intro h; by_contra hz; exact absurd (mul_nonneg (not_lt.mp hz) (le_of_lt hk)) (not_le.mpr h)
    · intro h; exact mul_neg_of_neg_of_pos h hk
  by_cases hz : z < 0
  · simp [hz, this.mpr hz]
  · have : ¬ z * k < 0 := fun h => hz (this.mp h)
    simp [hz, this]

theorem minR_mul_pos (k a b : ℚ) (hk : 0 < k) : minR (a * k) (b * k) = minR a b * k := by
  unfold minR
  have : b * k < a * k ↔ b < a := mul_lt_mul_iff_of_pos_right hk
  by_cases h : b < a
  · simp [h, this.mpr h]
  · have : ¬ b * k < a * k := fun h' => h (this.mp h')
    simp [h, this]

/-- converted bin width of SWAN directions (radians ↦ degrees, `% 360`): `R2D` times the short-way spacing in
    radians of the first two stored directions -/
theorem dd_ncswan (pi x y : ℚ) (rest : Vec) (hpi : 0 < pi) (h : absR (y - x) < 2 * pi) :
    dd (some ((x :: y :: rest).map (ncswanDir pi))) = minR (absR (y - x)) (2 * pi - absR (y - x)) * r2d pi := by
  have hr : 0 < r2d pi := by unfold r2d; positivity
  have hx : 0 ≤ ncswanDir pi x ∧ ncswanDir pi x < 360 := C10.pmod_range (x * r2d pi) 360 (by norm_num)
  have hy : 0 ≤ ncswanDir pi y ∧ ncswanDir pi y < 360 := C10.pmod_range (y * r2d pi) 360 (by norm_num)
  have ex : ncswanDir pi x = x * r2d pi - 360 * (((x * r2d pi) / 360).floor : ℚ) := rfl
  have ey : ncswanDir pi y = y * r2d pi - 360 * (((y * r2d pi) / 360).floor : ℚ) := rfl
  have h360 : (360 : ℚ) = 2 * pi * r2d pi := by unfold r2d; field_simp; norm_num
  have hD : absR ((y - x) * r2d pi) < 360 := by
    rw [absR_mul_pos _ _ hr, h360]; exact mul_lt_mul_of_pos_right h hr
  simp only [List.map_cons]
  show C10.wrapDist (ncswanDir pi y - ncswanDir pi x) = _
  have e : ncswanDir pi y - ncswanDir pi x =
      (y - x) * r2d pi + 360 * (((((x * r2d pi) / 360).floor - ((y * r2d pi) / 360).floor : ℤ)) : ℚ) := by
    rw [ex, ey]; push_cast; ring
  have h2 : absR ((y - x) * r2d pi + 360 * (((((x * r2d pi) / 360).floor - ((y * r2d pi) / 360).floor : ℤ)) : ℚ)) < 360 := by
    rw [← e]
    unfold absR
    split_ifs <;> linarith [hx.1, hx.2, hy.1, hy.2]
  rw [e, C10.wrapDist_wrap _ _ hD h2]
  unfold C10.wrapDist
  rw [absR_mul_pos _ _ hr]
  have : (360 : ℚ) - absR (y - x) * r2d pi = (2 * pi - absR (y - x)) * r2d pi := by rw [h360]; ring
  rw [this, minR_mul_pos _ _ _ hr]

theorem ncswanSpec_eq (pi x : ℚ) : ncswanSpec pi x = x * d2r pi := by
  unfold ncswanSpec r2d d2r
  rw [div_div_eq_mul_div]; ring

/-- **variance_ncswan**: density per radian on directions in radians ↦ density per degree on degrees; for every
    native bin width `ddRad` (radians) the converted integral with `Δθ' = ddRad·R2D` is the native integral -/
theorem variance_ncswan (pi ddRad : ℚ) (hpi : pi ≠ 0) (f : Vec) (e : Mat) :
    dsum (ddRad * r2d pi) (df f) (mapM (ncswanSpec pi) e) = dsum ddRad (df f) e := by
  rw [mapM_congr _ _ e (ncswanSpec_eq pi), dsum_scale]
  congr 1
  rw [mul_assoc, mul_comm (r2d pi), d2r_mul_r2d pi hpi, mul_one]

/-- … and `Δθ'` as the accessor computes it from the converted coordinates is `ddRad·R2D` with `ddRad` the
    short-way spacing of the first two native directions -/
theorem variance_ncswan_coords (pi x y : ℚ) (rest f : Vec) (e : Mat) (hpi : 0 < pi) (h : absR (y - x) < 2 * pi) :
    varConv f (fromNcswan pi (x :: y :: rest) e).1 (fromNcswan pi (x :: y :: rest) e).2 =
      dsum (minR (absR (y - x)) (2 * pi - absR (y - x))) (df f) e := by
  unfold varConv fromNcswan
  simp only
  rw [dd_ncswan pi x y rest hpi h]
  exact variance_ncswan pi _ (ne_of_gt hpi) f e

theorem dfGo_div (k p c : ℚ) (rest : Vec) :
    dfGo (p / k) (c / k) (rest.map (· / k)) = (dfGo p c rest).map (· / k) := by
  induction rest generalizing p c with
  | nil => simp [dfGo]; ring
  | cons n rest ih =>
    simp only [List.map_cons, dfGo, ih]
    congr 1; ring

/-- `np.gradient` is homogeneous — except on a single frequency where the accessor uses `Δf = 1` -/
theorem df_div (k : ℚ) (f : Vec) (h : f.length ≠ 1) : df (f.map (· / k)) = (df f).map (· / k) := by
  match f, h with
  | [], _ => rfl
  | [_], h => exact absurd rfl h
  | a :: b :: rest, _ =>
    simp only [List.map_cons, df, dfGo_div]
    congr 1; ring

theorem row_wwm (pi s wi ddRad : ℚ) (hpi : pi ≠ 0) (r : Vec) :
    ((r.map (wwmSpec pi s)).map fun x => x * (wi / (2 * pi)) * (ddRad * r2d pi)).sum =
      (r.map fun x => x * (s * wi) * ddRad).sum := by
  rw [List.map_map]; congr 1; apply List.map_congr_left; intro x _
  simp only [Function.comp, wwmSpec, r2d]
  field_simp

theorem wwm_core (pi ddRad : ℚ) (hpi : pi ≠ 0) (sig w : Vec) (ac : Mat) :
    dsum (ddRad * r2d pi) (w.map (· / (2 * pi))) (wwmE pi sig ac) =
      dsum ddRad (List.zipWith (· * ·) sig w) ac := by
  unfold dsum wwmE
  induction sig generalizing w ac with
  | nil => simp
  | cons s sig ih =>
    cases ac with
    | nil => simp
    | cons r ac =>
      cases w with
      | nil => simp
      | cons wi w =>
        simp only [List.map_cons, List.zipWith_cons_cons, List.sum_cons, ih w ac, row_wwm pi s wi ddRad hpi]

/-- **variance_wwm**: action density `N(σ,θ)` on `σ` (rad/s) and radians ↦ energy density per hertz per degree.
    Converted integral (`f = σ/2π`, `Δθ' = ddRad·R2D`) = native `Σ N·σ·Δσ·Δθ` — the Jacobian `σ·2π·π/180` is the
    right one.  (At least two frequencies: on a single frequency both rules use a unit width.) -/
theorem variance_wwm (pi ddRad : ℚ) (hpi : pi ≠ 0) (sig : Vec) (ac : Mat) (hlen : sig.length ≠ 1) :
    dsum (ddRad * r2d pi) (df (sig.map (wwmFreq pi))) (wwmE pi sig ac) =
      dsum ddRad (List.zipWith (· * ·) sig (df sig)) ac := by
  have : sig.map (wwmFreq pi) = sig.map (· / (2 * pi)) := rfl
  rw [this, df_div _ _ hlen]
  exact wwm_core pi ddRad hpi sig (df sig) ac

/-- on a single frequency the accessor's unit bin (1 Hz) is `2π` rad/s wide in native units -/
theorem variance_wwm_single (pi ddRad s : ℚ) (hpi : pi ≠ 0) (ac : Mat) :
    dsum (ddRad * r2d pi) (df ([s].map (wwmFreq pi))) (wwmE pi [s] ac) = dsum ddRad [s * (2 * pi)] ac := by
  have h := wwm_core pi ddRad hpi [s] [2 * pi] ac
  have e1 : (2 * pi) / (2 * pi) = (1 : ℚ) := div_self (mul_ne_zero two_ne_zero hpi)
  simp only [List.map_cons, List.map_nil, List.zipWith_cons_cons, List.zipWith_nil_left, e1] at h
  exact h

theorem era5Spec_eq (pi : ℚ) (p : Option ℚ) : era5Spec pi p = p.getD 0 * d2r pi := by
  cases p with
  | none => simp [era5Spec]
  | some x => simp only [era5Spec, Option.getD_some, d2r]; ring

/-- **variance_era5**: `10**d2fd` (per radian; missing ↦ no energy) × `π/180` on directions in degrees: the converted
    integral equals the native one with the bin width in radians -/
theorem variance_era5 (pi ddDeg : ℚ) (f : Vec) (p10 : List (List (Option ℚ))) :
    dsum ddDeg (df f) (era5E pi p10) = dsum (ddDeg * d2r pi) (df f) (p10.map fun r => r.map fun o => o.getD 0) := by
  have : era5E pi p10 = mapM (fun x => x * d2r pi) (p10.map fun r => r.map fun o => o.getD 0) := by
    unfold era5E mapM
    rw [List.map_map]
    apply List.map_congr_left; intro r _
    simp only [Function.comp, List.map_map]
    apply List.map_congr_left; intro o _
    exact era5Spec_eq pi o
  rw [this, dsum_scale]

/-- the same for the default ERA5 grid: bin width 15° = `15·π/180` rad -/
theorem variance_era5_default (pi : ℚ) (f : Vec) (p10 : List (List (Option ℚ))) :
    varConv f era5DefaultDirs (era5E pi p10) =
      dsum (15 * d2r pi) (df f) (p10.map fun r => r.map fun o => o.getD 0) := by
  have h : dd (some era5DefaultDirs) = 15 := by decide +kernel
  unfold varConv
  rw [h]
  exact variance_era5 pi 15 f p10

/-- the default ERA5 grids: 24 going-to directions `7.5 + 15k` turned to coming-from, bin width 15°, all distinct
    and in `[0, 360)`; 30 increasing frequencies `0.03453·1.1^k` -/
theorem era5_default_grids :
    era5DefaultDirs = (List.range 24).map (fun k => ww3Dir (15 / 2 + 15 * (k : ℚ))) ∧
    dd (some era5DefaultDirs) = 15 ∧ era5DefaultDirs.Nodup ∧ (∀ x ∈ era5DefaultDirs, 0 ≤ x ∧ x < 360) ∧
    era5DefaultFreqs.length = 30 ∧ era5DefaultFreqs.Pairwise (· < ·) := by
  decide +kernel

/-! ## direction sense -/

theorem pmod_period (x : ℚ) : pmod (x + 360) 360 = pmod x 360 := by
  unfold pmod
  have : (x + 360) / 360 = x / 360 + ((1 : ℤ) : ℚ) := by push_cast; ring
  have hf : (x / 360 + ((1 : ℤ) : ℚ)).floor = (x / 360).floor + 1 := Int.floor_add_intCast (x / 360) 1
  rw [this, hf]; push_cast; ring

theorem pmod_self (x : ℚ) (h0 : 0 ≤ x) (h1 : x < 360) : pmod x 360 = x := by
  unfold pmod
  have hlt : x / 360 < 1 := by rw [div_lt_one (by norm_num)]; exact h1
  have hge : 0 ≤ x / 360 := by positivity
  have : (x / 360).floor = 0 := (Int.floor_eq_zero_iff (R := ℚ) (a := x / 360)).mpr ⟨hge, hlt⟩
  rw [this]; simp

/-- **direction_ww3**: going-to `θ` ↦ coming-from `(θ + 180) mod 360`: the result lies in `[0, 360)` and differs from
    `θ + 180` by a whole number of turns, so every bin keeps its physical direction -/
theorem direction_ww3 (x : ℚ) : 0 ≤ ww3Dir x ∧ ww3Dir x < 360 ∧ ∃ n : ℤ, ww3Dir x = x + 180 - 360 * n :=
  ⟨(C10.dir_range (x + 180)).1, (C10.dir_range (x + 180)).2, ((x + 180) / 360).floor, rfl⟩

/-- on `[0, 360)` the map is an involution, hence a bijection of the circle of bins -/
theorem ww3Dir_involutive (x : ℚ) (h0 : 0 ≤ x) (h1 : x < 360) : ww3Dir (ww3Dir x) = x := by
  unfold ww3Dir
  rw [C10.pmod_add_pmod _ _ _ (by norm_num)]
  have : x + 180 + 180 = x + 360 := by ring
  rw [this, pmod_period, pmod_self x h0 h1]

/-- two bins are sent to the same label only if they were the same direction modulo 360 -/
theorem ww3Dir_injective_mod (x y : ℚ) (h : ww3Dir x = ww3Dir y) : ∃ n : ℤ, x - y = 360 * n := by
  obtain ⟨_, _, n, hn⟩ := direction_ww3 x
  obtain ⟨_, _, m, hm⟩ := direction_ww3 y
  refine ⟨n - m, ?_⟩
  rw [hn, hm] at h
  push_cast; linarith

/-- the conversion is bin-for-bin: same number of bins, label `i` is the converted label `i` -/
theorem ww3_bins (dirs : Vec) (i : Nat) (hi : i < dirs.length) :
    (dirs.map ww3Dir).length = dirs.length ∧ getR (dirs.map ww3Dir) i = ww3Dir (getR dirs i) := by
  refine ⟨List.length_map _, ?_⟩
  unfold getR
  simp [List.getD_eq_getElem?_getD, hi]

/-- **direction_ncswan**: radians ↦ degrees in `[0, 360)`, equal to `θ·R2D` up to whole turns -/
theorem direction_ncswan (pi x : ℚ) :
    0 ≤ ncswanDir pi x ∧ ncswanDir pi x < 360 ∧ ∃ n : ℤ, ncswanDir pi x = x * r2d pi - 360 * n :=
  ⟨(C10.dir_range _).1, (C10.dir_range _).2, ((x * r2d pi) / 360).floor, rfl⟩

/-- **direction_wwm**: `SPDIR` in radians ↦ degrees in `[0, 360)`, equal to `SPDIR·R2D` up to whole turns -/
theorem direction_wwm (pi x : ℚ) :
    0 ≤ wwmDir pi x ∧ wwmDir pi x < 360 ∧ ∃ n : ℤ, wwmDir pi x = x * r2d pi - 360 * n :=
  ⟨(C10.dir_range _).1, (C10.dir_range _).2, ((x * r2d pi) / 360).floor, rfl⟩

/-- converted bin width of WWM directions (same map as SWAN's) -/
theorem dd_wwm (pi x y : ℚ) (rest : Vec) (hpi : 0 < pi) (h : absR (y - x) < 2 * pi) :
    dd (some ((x :: y :: rest).map (wwmDir pi))) = minR (absR (y - x)) (2 * pi - absR (y - x)) * r2d pi :=
  dd_ncswan pi x y rest hpi h

/-! ### code as found (before 8cfe575): `dir = SPDIR·R2D` without modulo -/

/-- full statement on the old model: converted directions lie in `[0, 360)` -/
def DirectionWwmFullOld : Prop := ∀ pi x : ℚ, 0 < pi → 0 ≤ wwmDirOld pi x ∧ wwmDirOld pi x < 360

/-- refuted (`SPDIR = -1 rad` ↦ `-60°` with `π = 3`; finding F24, fixed by 8cfe575) -/
theorem direction_wwm_fails_old : ¬ DirectionWwmFullOld := by
  intro h
  have := (h 3 (-1) (by norm_num)).1
  revert this
  decide +kernel

theorem direction_wwm_partial_old (pi x : ℚ) (hpi : 0 < pi) (h0 : 0 ≤ x) (h1 : x < 2 * pi) :
    0 ≤ wwmDirOld pi x ∧ wwmDirOld pi x < 360 := by
  have hr : 0 < r2d pi := by unfold r2d; positivity
  have h360 : (360 : ℚ) = 2 * pi * r2d pi := by unfold r2d; field_simp; norm_num
  unfold wwmDirOld
  constructor
  · positivity
  · rw [h360]; exact mul_lt_mul_of_pos_right h1 hr

/-! ## NDBC -/

theorem sum_ndbc (k r1 r2 : ℚ) (c1 c2 : Vec) (hlen : c1.length = c2.length) :
    (List.zipWith (fun a b => k * (1 / 2 + r1 * a + r2 * b)) c1 c2).sum =
      k * ((c1.length : ℚ) / 2 + r1 * c1.sum + r2 * c2.sum) := by
  induction c1 generalizing c2 with
  | nil =>
    cases c2 with
    | nil => simp
    | cons b c2 => simp at hlen
  | cons a c1 ih =>
    cases c2 with
    | nil => simp at hlen
    | cons b c2 =>
      simp only [List.length_cons, Nat.add_right_cancel_iff] at hlen
      simp only [List.zipWith_cons_cons, List.sum_cons, ih c2 hlen, List.length_cons]
      push_cast; ring

/-- **ndbc_integrates**: on a uniform full circle (`n·Δθ = 360`) where the first and second harmonics sum to zero,
    the constructed directional spectrum integrates back to the non-directional density `ef` for every
    `r1, r2, α1, α2` -/
theorem ndbc_integrates (pi ef r1 r2 dd : ℚ) (c1 c2 : Vec) (hpi : pi ≠ 0) (hlen : c1.length = c2.length)
    (hfull : (c1.length : ℚ) * dd = 360) (h1 : c1.sum = 0) (h2 : c2.sum = 0) :
    ((ndbcRow pi ef r1 r2 c1 c2).map (· * dd)).sum = ef := by
  rw [sum_map_mul_const]
  unfold ndbcRow
  have : (fun a b => ndbcSpec pi ef (ndbcDist r1 r2 a b)) =
      (fun a b => (ef * d2r pi / pi) * (1 / 2 + r1 * a + r2 * b)) := by
    funext a b; unfold ndbcSpec ndbcDist; ring
  rw [this, sum_ndbc _ _ _ _ _ hlen, h1, h2]
  unfold d2r
  have : (c1.length : ℚ) = 360 / dd := by
    have hdd : dd ≠ 0 := by rintro rfl; simp at hfull
    field_simp; exact hfull
  have hdd : dd ≠ 0 := by rintro rfl; simp at hfull
  rw [this]; field_simp; ring

/-- `np.arange(0, 360, dd)` has exactly `n` bins when `n·dd = 360` -/
theorem ndbc_dirs_length (n : Nat) (dd : ℚ) (hdd : 0 < dd) (h : (n : ℚ) * dd = 360) : (ndbcDirs dd).length = n := by
  unfold ndbcDirs arange
  simp only [List.length_map, List.length_range, sub_zero]
  have hdd' : dd ≠ 0 := ne_of_gt hdd
  have e : -((360 : ℚ) / dd) = (((-(n : ℤ)) : ℤ) : ℚ) := by
    rw [← h]; push_cast; field_simp
  have hf : (-((360 : ℚ) / dd)).floor = -(n : ℤ) := by rw [e]; exact Int.floor_intCast (R := ℚ) (-(n : ℤ))
  rw [hf]; simp

/-! ## winds -/

/-- **uv_vec**: with `(ca, sa)` the cosine and sine of the `atan2` angle of `(u, v)` (`u = spd·ca`, `v = spd·sa`,
    `ca² + sa² = 1`): the radicand of the returned speed is `spd²`, and the unit vector of the returned coming-from
    direction `θ = 270° − a` (east = sin θ, north = cos θ) scaled by the speed is `−(u, v)`: the wind blows *from* θ.
    With `coming_from=False` the same vector is `+(u, v)`. -/
theorem uv_vec (u v spd ca sa : ℚ) (hunit : ca ^ 2 + sa ^ 2 = 1) (hu : u = spd * ca) (hv : v = spd * sa) :
    uvMag2 u v = spd ^ 2 ∧
    (spd * (dirTrig true ca sa).1, spd * (dirTrig true ca sa).2) = (-u, -v) ∧
    (spd * (dirTrig false ca sa).1, spd * (dirTrig false ca sa).2) = (u, v) ∧
    (dirTrig true ca sa).1 ^ 2 + (dirTrig true ca sa).2 ^ 2 = 1 := by
  subst hu hv
  unfold uvMag2 dirTrig nauticalTrig
  simp only [if_true, Bool.false_eq_true, if_false, Prod.mk.injEq]
  refine ⟨?_, ⟨by ring, by ring⟩, ⟨by ring, by ring⟩, ?_⟩
  · have : (spd * ca) ^ 2 + (spd * sa) ^ 2 = spd ^ 2 * (ca ^ 2 + sa ^ 2) := by ring
    rw [this, hunit, mul_one]
  · have : (-1 * ca - 0 * sa) ^ 2 + (0 * ca + -1 * sa) ^ 2 = ca ^ 2 + sa ^ 2 := by ring
    rw [this, hunit]

/-- the returned wind direction lies in `[0, 360)` and is `270 − a` up to whole turns -/
theorem uv_dir_range (a : ℚ) : 0 ≤ uvDir true a ∧ uvDir true a < 360 ∧ ∃ n : ℤ, uvDir true a = 270 - a - 360 * n :=
  ⟨(C10.dir_range _).1, (C10.dir_range _).2, ((270 - a) / 360).floor, rfl⟩

/-! ## non-vacuity -/

section Examples

-- dispatch: a WW3 dataset with times, positions, winds and depth; an NDBC dataset with its moments
example : dispatch Gen.dispatchTable ["time", "station", "frequency", "direction", "efth", "longitude", "latitude",
    "wnd", "wnddir", "dpt"] = some "ww3" := by decide
example := dispatch_correct ["dpt", "efth", "station", "time", "direction", "frequency"] ["time", "dpt"]
  ("ww3", ["frequency", "direction", "station", "efth"]) (by decide) (by decide)
  (by intro x; simp only [List.mem_cons, List.not_mem_nil, or_false]; tauto)
example := dispatch_correct_optional ["time", "depth", "xwnd", "ywnd", "longitude", "latitude"]
  ("ncswan", ["frequency", "direction", "points", "density"]) (by decide) (by decide)
example : ∀ x ∈ optionalNames, x ∉ sigNames := by decide
example : "time" ∈ optionalNames ∧ "DEP" ∈ optionalNames ∧ "wnd" ∈ optionalNames := by decide
example := dispatch_unknown ["time", "freq", "dir", "efth"] (by decide)
-- the dispatcher needs `site`: a wavespectra-convention dataset on a lat/lon grid is *not* recognised
example : dispatch Gen.dispatchTable ["time", "lat", "lon", "freq", "dir", "efth"] = none := by decide

example := wwm_optional_partial_old ["nfreq", "ndir", "nbstation", "AC", "lon", "lat", "DEP", "ocean_time"]
  ["ocean_time", "nbstation", "nfreq", "ndir"] (by decide) true
example : outDims "wwm" true ["nfreq", "ndir", "nbstation", "AC"]
  ["ocean_time", "nbstation", "nfreq", "ndir"] = .ok ["time", "site", "freq", "dir"] := by decide
example : outDims "era5" false ["d2fd", "frequency", "direction", "latitude", "longitude", "time"]
  ["time", "frequency", "direction", "latitude", "longitude"] = .ok ["time", "freq", "dir", "lat", "lon"] := by decide

private def fE : Vec := [1/10, 1/5, 2/5]
private def eE : Mat := [[1, 2, 0, 1], [0, 3, 1, 1], [2, 1, 1, 0]]
private def dE : Vec := [270, 0, 90, 180]

-- WW3: the seam moves between the first two labels (270,0 ↦ 90,180) and the variance is kept
example : ∀ x y rest, dE = x :: y :: rest → absR (y - x) < 360 := by
  intro x y rest h; cases h; decide +kernel
example : (fromWW3 (22/7) dE eE).1 = [90, 180, 270, 0] := by decide +kernel
example := dd_ww3 dE (by intro x y rest h; cases h; decide +kernel)
example := variance_ww3 (22/7) fE dE eE (by intro x y rest h; cases h; decide +kernel)
example : varConv fE (fromWW3 (22/7) dE eE).1 (fromWW3 (22/7) dE eE).2 = 429/140 := by decide +kernel
example := dd_ncswan 3 1 2 [3, 4] (by norm_num) (by decide +kernel)
example := variance_ncswan (22/7) (1/2) (by norm_num) fE eE
example := variance_ncswan_coords 3 1 2 [3, 4] fE eE (by norm_num) (by decide +kernel)
example := variance_wwm (22/7) (1/2) (by norm_num) [1, 2, 4] eE (by decide)
example : dsum (1/2) (List.zipWith (· * ·) [1, 2, 4] (df [1, 2, 4])) eE = 51/2 := by decide +kernel
example := df_div 7 fE (by decide)
example := variance_wwm_single (22/7) (1/2) 3 (by norm_num) [[1, 2, 0, 1]]
example := variance_era5 (22/7) 15 fE [[some 1, none, some (1/100)], [some 3, some 2, none], [none, none, some 5]]
example := ww3Dir_involutive 200 (by norm_num) (by norm_num)
example : ww3Dir 200 = 20 ∧ ww3Dir 20 = 200 := by decide +kernel
example := ww3Dir_injective_mod 10 370 (by decide +kernel)
example := ww3_bins dE 2 (by decide)
example := direction_wwm_partial_old 3 1 (by norm_num) (by norm_num) (by norm_num)
example := dd_wwm 3 1 2 [3, 4] (by norm_num) (by decide +kernel)
example : wwmDir 3 (-1) = 300 := by decide +kernel
example := pmod_self 12 (by norm_num) (by norm_num)
-- NDBC on 4 directions θ = 0, 90, 180, 270 with α1 = α2 = 0: cos(θ) = 1,0,-1,0 and cos(2θ) = 1,-1,1,-1
example := ndbc_integrates (22/7) 5 (3/10) (1/5) 90 [1, 0, -1, 0] [1, -1, 1, -1] (by norm_num) (by decide)
  (by norm_num) (by decide +kernel) (by decide +kernel)
example : ((ndbcRow (22/7) 5 (3/10) (1/5) [1, 0, -1, 0] [1, -1, 1, -1]).map (· * 90)).sum = 5 := by decide +kernel
example := ndbc_dirs_length 8 45 (by norm_num) (by norm_num)
example := sum_ndbc 2 (3/10) (1/5) [1, 0, -1, 0] [1, -1, 1, -1] (by decide)
-- wind (u, v) = (3, 4)·2: speed 10, (cos a, sin a) = (3/5, 4/5)
example := uv_vec 6 8 10 (3/5) (4/5) (by norm_num) (by norm_num) (by norm_num)
example := absR_mul_pos 3 (-2) (by norm_num)
example := minR_mul_pos 3 1 2 (by norm_num)
example := d2r_mul_r2d (22/7) (by norm_num)
example := wwm_core (22/7) (1/2) (by norm_num) [1, 2, 4] [1, 1, 2] eE
example := row_wwm (22/7) 2 1 (1/2) (by norm_num) [1, 2]
example := subsetB_extra ["a"] ["a", "b"] ["c"] (by decide)
example := contains_append_extra ["a"] ["c"] "a" (by decide)
example := subsetB_congr ["a"] ["a", "b"] ["b", "a"] (by intro x; simp [or_comm])
example := dispatch_set Native.dispatchTable ["a", "b"] ["b", "a"] (by intro x; simp [or_comm])
example := dispatch_extra Native.dispatchTable ["frequency"] ["zz"] (by decide)
example := find_congr (fun x : Nat => x == 1) (fun x => x == 1) [1, 2] (by intro x _; rfl)
example := mapM_congr (fun x => x * 2) (fun x => 2 * x) eE (by intro x; ring)

end Examples

end WS.C12

import WsVerif.Model.Stats
import WsVerif.Model.Construct
import WsVerif.Lemmas.Sums
import WsVerif.Lemmas.Moments
import WsVerif.Props.C01
import WsVerif.Props.C10
import WsVerif.Gen.Lits
import Mathlib.Tactic.NormNum
import Mathlib.Tactic.LinearCombination
import Mathlib.Algebra.Order.Floor.Ring
/-!
# C15 — constructed parametric spectra have the parameters they were built from

Property theorems only, on `Model/Construct.lean` (the constructors) and `Model/Stats.lean` (the accessor
that measures them).  Transcendental factors are tables (DESIGN §1.1): every statement is proved for
*all* tables with the stated hypotheses (positivity; a table that is a function of the wrapped angular
distance), for every number of frequencies and directions.  `sqrt`/`atan2` are in pre-image form:
"`hs` is exactly the requested one" is `hsE = hs²/16`; "measured `dm` is the requested one" is "the moment
vector has no component across the requested direction".

NOT decided here (numerical exploration in `harness/checks/c15.py`): that the TMA depth factor tends to 1
in deep water, and that the first circular moment of the *sampled* `cos^{2s}` table is `s/(s+1)`
(recovery of `dspr`) — both are real analysis (DESIGN §1.5-4).
-/
namespace WS.C15
open WS WS.Stats WS.Construct

/-! ## helper facts about positive lists -/

theorem mulV_pos (a b : Vec) (ha : ∀ v ∈ a, 0 < v) (hb : ∀ v ∈ b, 0 < v) : ∀ v ∈ mulV a b, 0 < v := by
  unfold mulV
  induction a generalizing b with
  | nil => simp
  | cons x a ih =>
    cases b with
    | nil => simp
    | cons y b =>
      intro v hv
      simp only [List.zipWith_cons_cons, List.mem_cons] at hv
      rcases hv with rfl | hv
      · exact mul_pos (ha x (by simp)) (hb y (by simp))
      · exact ih b (fun v hv => ha v (List.mem_cons_of_mem _ hv))
          (fun v hv => hb v (List.mem_cons_of_mem _ hv)) v hv

theorem mulV_length (a b : Vec) : (mulV a b).length = min a.length b.length := by
  unfold mulV; simp

theorem lastD_nonneg (l : Vec) (h : ∀ x ∈ l, 0 ≤ x) : 0 ≤ lastD l := by
  unfold lastD
  rw [List.getLastD_eq_getLast?]
  cases hl : l.getLast? with
  | none => simp
  | some x => simpa using h x (List.mem_of_getLast? hl)

/-- `Σ a_i b_i > 0` for non-empty lists of positive numbers -/
theorem dot_pos (a b : Vec) (ha : ∀ v ∈ a, 0 < v) (hb : ∀ v ∈ b, 0 < v) (ha0 : a ≠ []) (hb0 : b ≠ []) :
    0 < dot a b := by
  unfold dot
  have hall := mulV_pos a b ha hb
  cases a with
  | nil => exact absurd rfl ha0
  | cons x a =>
    cases b with
    | nil => exact absurd rfl hb0
    | cons y b =>
      have hne : mulV (x :: a) (y :: b) = x * y :: mulV a b := rfl
      rw [hne] at hall ⊢
      rw [List.sum_cons]
      have h1 : 0 < x * y := hall _ (by simp)
      have h2 : 0 ≤ (mulV a b).sum :=
        List.sum_nonneg fun v hv => le_of_lt (hall v (List.mem_cons_of_mem _ hv))
      linarith

theorem scaleV_one (a : Vec) : scaleV 1 a = a := by
  unfold scaleV; simp

theorem scaleV_nonneg (k : ℚ) (hk : 0 ≤ k) (a : Vec) (ha : ∀ v ∈ a, 0 ≤ v) : ∀ v ∈ scaleV k a, 0 ≤ v := by
  intro v hv
  unfold scaleV at hv
  obtain ⟨x, hx, rfl⟩ := List.mem_map.mp hv
  exact mul_nonneg hk (ha x hx)

theorem scaleV_pos (k : ℚ) (hk : 0 < k) (a : Vec) (ha : ∀ v ∈ a, 0 < v) : ∀ v ∈ scaleV k a, 0 < v := by
  intro v hv
  unfold scaleV at hv
  obtain ⟨x, hx, rfl⟩ := List.mem_map.mp hv
  exact mul_pos hk (ha x hx)

/-- standing hypotheses on a frequency grid: non-empty, strictly increasing, positive; the tail weight
    `q` (the code's `0.25`) is non-negative.  No hypothesis on the threshold `thr`. -/
def GoodGrid (q : ℚ) (f : Vec) : Prop :=
  f ≠ [] ∧ f.Pairwise (· < ·) ∧ (∀ x ∈ f, 0 < x) ∧ 0 ≤ q

/-- a positive spectrum on a good grid has a positive `hs` radicand (tail term included) -/
theorem hsE_pos (thr q : ℚ) (tail : Bool) (f E : Vec) (hg : GoodGrid q f) (hE : ∀ x ∈ E, 0 < x)
    (hlen : E.length = f.length) : 0 < hsE thr q tail f E := by
  obtain ⟨hne, hinc, hpos, hq⟩ := hg
  unfold hsE m0E
  have hE0 : E ≠ [] := by
    intro h; rw [h] at hlen; exact hne (List.eq_nil_of_length_eq_zero hlen.symm)
  have hdf0 : df f ≠ [] := by
    intro h
    have := C01.df_length f
    rw [h] at this
    exact hne (List.eq_nil_of_length_eq_zero this.symm)
  have h1 : 0 < dot E (df f) := dot_pos E (df f) hE (C01.df_pos f hinc) hE0 hdf0
  have h2 : 0 ≤ lastD E := lastD_nonneg E fun x hx => le_of_lt (hE x hx)
  have h3 : 0 ≤ lastD f := lastD_nonneg f fun x hx => le_of_lt (hpos x hx)
  split
  · have : 0 ≤ q * lastD E * lastD f := mul_nonneg (mul_nonneg hq h2) h3
    linarith
  · linarith

/-! ## A. rescaling to a requested significant height -/

/-- the algebraic core of `scaled` (the statement of DESIGN §3 C15): multiplying by
    `(h/hs)² = h²/(16·H)` gives the radicand `h²/16`, whenever `H ≠ 0` — tail term included.
    This is `C10.scale_by_hs` read for the constructor. -/
theorem scaled_factor_hsE (thr q h : ℚ) (f E : Vec) (hH : hsE thr q true f E ≠ 0) :
    hsE thr q true f (scaleV (h ^ 2 / (16 * hsE thr q true f E)) E) = h ^ 2 / 16 := by
  have := C10.scale_by_hs thr q true h f E hH
  simpa [C10.scaleByHs] using this

/-- **`scaled`**: whenever the spectrum has energy, the result exists (no NaN) and its `hs` radicand is
    exactly `h²/16`, i.e. `4·√m0 = |h|` -/
theorem scaled_hsE (thr q h : ℚ) (f E : Vec) (hH : 0 < hsE thr q true f E) :
    ∃ E', scaled thr q h f E = some E' ∧ hsE thr q true f E' = h ^ 2 / 16 ∧
      E' = scaleV (h ^ 2 / (16 * hsE thr q true f E)) E := by
  refine ⟨scaleV (h ^ 2 / (16 * hsE thr q true f E)) E, ?_, scaled_factor_hsE thr q h f E (ne_of_gt hH), rfl⟩
  unfold scaled
  simp only [not_le.mpr hH, if_false]

/-- without energy (`H ≤ 0`) the code divides by zero: the model returns NaN, never a wrong height -/
theorem scaled_none_iff (thr q h : ℚ) (f E : Vec) :
    scaled thr q h f E = none ↔ hsE thr q true f E ≤ 0 := by
  unfold scaled
  by_cases hH : hsE thr q true f E ≤ 0 <;> simp [hH]

/-- the rescaling factor is non-negative: signs of the bins are kept -/
theorem scaled_nonneg (thr q h : ℚ) (f E E' : Vec) (hE : ∀ x ∈ E, 0 ≤ x) (h' : scaled thr q h f E = some E') :
    ∀ x ∈ E', 0 ≤ x := by
  unfold scaled at h'
  by_cases hH : hsE thr q true f E ≤ 0
  · simp [hH] at h'
  · simp only [hH, if_false, Option.some.injEq] at h'
    subst h'
    have hH' : 0 < hsE thr q true f E := not_le.mp hH
    exact scaleV_nonneg _ (by positivity) E hE

/-- every shape built with a requested `hs` from a positive table: the result exists, has exactly that
    height, is non-negative (positive when `h ≠ 0`) and keeps the grid length -/
theorem withHs_spec (thr q h : ℚ) (f E : Vec) (hg : GoodGrid q f) (hE : ∀ x ∈ E, 0 < x)
    (hlen : E.length = f.length) :
    ∃ E', withHs thr q (some h) f E = some E' ∧ hsE thr q true f E' = h ^ 2 / 16 ∧
      (∀ x ∈ E', 0 ≤ x) ∧ (h ≠ 0 → ∀ x ∈ E', 0 < x) ∧ E'.length = f.length := by
  have hH := hsE_pos thr q true f E hg hE hlen
  obtain ⟨E', h1, h2, h3⟩ := scaled_hsE thr q h f E hH
  refine ⟨E', h1, h2, ?_, ?_, ?_⟩
  · rw [h3]; exact scaleV_nonneg _ (by positivity) E fun x hx => le_of_lt (hE x hx)
  · intro hh; rw [h3]
    exact scaleV_pos _ (by positivity) E hE
  · rw [h3, scaleV_length, hlen]

/-- without `hs` the table product is returned as is -/
theorem withHs_none (thr q : ℚ) (f E : Vec) : withHs thr q none f E = some E := rfl

/-- **Pierson–Moskowitz** with `hs`: exactly that height, non-negative -/
theorem pm_hs (thr q h : ℚ) (f t1 t2 : Vec) (hg : GoodGrid q f) (h1 : ∀ x ∈ t1, 0 < x) (h2 : ∀ x ∈ t2, 0 < x)
    (l1 : t1.length = f.length) (l2 : t2.length = f.length) :
    ∃ E', pm thr q (some h) f t1 t2 = some E' ∧ hsE thr q true f E' = h ^ 2 / 16 ∧ (∀ x ∈ E', 0 ≤ x) := by
  obtain ⟨E', a, b, c, _, _⟩ := withHs_spec thr q h f (pmRaw t1 t2) hg (mulV_pos t1 t2 h1 h2)
    (by unfold pmRaw; rw [mulV_length, l1, l2, min_self])
  exact ⟨E', a, b, c⟩

theorem jonswapRaw_pos (t1 t2 t3 : Vec) (h1 : ∀ x ∈ t1, 0 < x) (h2 : ∀ x ∈ t2, 0 < x) (h3 : ∀ x ∈ t3, 0 < x) :
    ∀ x ∈ jonswapRaw t1 t2 t3, 0 < x :=
  mulV_pos _ _ (mulV_pos t1 t2 h1 h2) h3

theorem jonswapRaw_length (n : Nat) (t1 t2 t3 : Vec) (l1 : t1.length = n) (l2 : t2.length = n) (l3 : t3.length = n) :
    (jonswapRaw t1 t2 t3).length = n := by
  unfold jonswapRaw; rw [mulV_length, mulV_length, l1, l2, l3, min_self, min_self]

/-- **JONSWAP** with `hs`: exactly that height, non-negative -/
theorem jonswap_hs (thr q h : ℚ) (f t1 t2 t3 : Vec) (hg : GoodGrid q f) (h1 : ∀ x ∈ t1, 0 < x)
    (h2 : ∀ x ∈ t2, 0 < x) (h3 : ∀ x ∈ t3, 0 < x)
    (l1 : t1.length = f.length) (l2 : t2.length = f.length) (l3 : t3.length = f.length) :
    ∃ E', jonswap thr q (some h) f t1 t2 t3 = some E' ∧ hsE thr q true f E' = h ^ 2 / 16 ∧
      (∀ x ∈ E', 0 ≤ x) ∧ (h ≠ 0 → ∀ x ∈ E', 0 < x) ∧ E'.length = f.length :=
  withHs_spec thr q h f (jonswapRaw t1 t2 t3) hg (jonswapRaw_pos t1 t2 t3 h1 h2 h3)
    (jonswapRaw_length _ t1 t2 t3 l1 l2 l3)

/-- **TMA** with `hs ≠ 0` (rescaled JONSWAP × depth table, rescaled again): exactly that height,
    non-negative.  (`hs = 0` makes the intermediate spectrum vanish and the second rescaling `0/0`.) -/
theorem tma_hs (thr q h : ℚ) (hh : h ≠ 0) (f t1 t2 t3 phi : Vec) (hg : GoodGrid q f) (h1 : ∀ x ∈ t1, 0 < x)
    (h2 : ∀ x ∈ t2, 0 < x) (h3 : ∀ x ∈ t3, 0 < x) (h4 : ∀ x ∈ phi, 0 < x)
    (l1 : t1.length = f.length) (l2 : t2.length = f.length) (l3 : t3.length = f.length)
    (l4 : phi.length = f.length) :
    ∃ E', tma thr q (some h) f t1 t2 t3 phi = some E' ∧ hsE thr q true f E' = h ^ 2 / 16 ∧
      (∀ x ∈ E', 0 ≤ x) := by
  obtain ⟨J, a, _, _, d, e⟩ := jonswap_hs thr q h f t1 t2 t3 hg h1 h2 h3 l1 l2 l3
  obtain ⟨E', a', b', c', _, _⟩ := withHs_spec thr q h f (mulV J phi) hg (mulV_pos J phi (d hh) h4)
    (by rw [mulV_length, e, l4, min_self])
  refine ⟨E', ?_, b', c'⟩
  unfold tma
  rw [a]; exact a'

/-- **Gaussian** (always rescaled): exactly the requested height, non-negative -/
theorem gaussian_hs (thr q h : ℚ) (f tg : Vec) (hg : GoodGrid q f) (h1 : ∀ x ∈ tg, 0 < x)
    (l1 : tg.length = f.length) :
    ∃ E', gaussian thr q h f tg = some E' ∧ hsE thr q true f E' = h ^ 2 / 16 ∧ (∀ x ∈ E', 0 ≤ x) := by
  obtain ⟨E', a, b, c, _, _⟩ := withHs_spec thr q h f tg hg h1 l1
  exact ⟨E', a, b, c⟩

/-- **non-negativity of every shape**, with or without `hs`: positive tables give non-negative bins
    (stated on the common final step `withHs`; `pm/jonswap/tma/gaussian` are instances) -/
theorem shapes_nonneg (thr q : ℚ) (h : Option ℚ) (f E E' : Vec) (hE : ∀ x ∈ E, 0 ≤ x)
    (h' : withHs thr q h f E = some E') : ∀ x ∈ E', 0 ≤ x := by
  cases h with
  | none => simp only [withHs, Option.some.injEq] at h'; subst h'; exact hE
  | some hv => exact scaled_nonneg thr q hv f E E' hE h'

/-- TMA is non-negative as well (two `withHs` steps around a product with a non-negative table) -/
theorem tma_nonneg (thr q : ℚ) (h : Option ℚ) (f t1 t2 t3 phi E' : Vec) (h1 : ∀ x ∈ t1, 0 ≤ x)
    (h2 : ∀ x ∈ t2, 0 ≤ x) (h3 : ∀ x ∈ t3, 0 ≤ x) (h4 : ∀ x ∈ phi, 0 ≤ x)
    (h' : tma thr q h f t1 t2 t3 phi = some E') : ∀ x ∈ E', 0 ≤ x := by
  unfold tma at h'
  cases hj : jonswap thr q h f t1 t2 t3 with
  | none => rw [hj] at h'; simp at h'
  | some J =>
    rw [hj] at h'
    simp only [Option.bind_some] at h'
    have hJ : ∀ x ∈ J, 0 ≤ x :=
      shapes_nonneg thr q h f (jonswapRaw t1 t2 t3) J
        (zipWith_mul_nonneg _ _ (zipWith_mul_nonneg t1 t2 h1 h2) h3) hj
    exact shapes_nonneg thr q h f (mulV J phi) E' (zipWith_mul_nonneg J phi hJ h4) h'

/-! ## B. JONSWAP with γ = 1 is Pierson–Moskowitz; TMA with depth factor 1 is JONSWAP -/

theorem mulV_ones (a b : Vec) (hb : ∀ x ∈ b, x = 1) (hl : a.length ≤ b.length) : mulV a b = a := by
  unfold mulV
  induction a generalizing b with
  | nil => simp
  | cons x a ih =>
    cases b with
    | nil => simp at hl
    | cons y b =>
      simp only [List.zipWith_cons_cons]
      rw [hb y (by simp), mul_one, ih b (fun v hv => hb v (List.mem_cons_of_mem _ hv))
        (by simpa using hl)]

/-- `γ = 1` makes the peak-enhancement table identically 1 (`1^x = 1`): the JONSWAP product **is** the
    Pierson–Moskowitz product, with or without rescaling -/
theorem jonswap_gamma1_eq_pm (thr q : ℚ) (h : Option ℚ) (f t1 t2 t3 : Vec) (h3 : ∀ x ∈ t3, x = 1)
    (l3 : (mulV t1 t2).length ≤ t3.length) :
    jonswap thr q h f t1 t2 t3 = pm thr q h f t1 t2 := by
  unfold jonswap pm jonswapRaw pmRaw
  rw [mulV_ones _ t3 h3 l3]

/-- algebraic half of the deep-water statement: if the depth table is identically 1 then TMA **is**
    JONSWAP — the second rescaling of an already rescaled spectrum is the identity (`hs ≠ 0`).
    (That `tanh²(kd)/(1+2kd/sinh 2kd) → 1` is analysis: explored numerically.) -/
theorem tma_phi1_eq_jonswap (thr q : ℚ) (h : Option ℚ) (hh : ∀ hv, h = some hv → hv ≠ 0)
    (f t1 t2 t3 phi : Vec) (hg : GoodGrid q f) (h1 : ∀ x ∈ t1, 0 < x) (h2 : ∀ x ∈ t2, 0 < x)
    (h3 : ∀ x ∈ t3, 0 < x) (h4 : ∀ x ∈ phi, x = 1)
    (l1 : t1.length = f.length) (l2 : t2.length = f.length) (l3 : t3.length = f.length)
    (l4 : phi.length = f.length) :
    tma thr q h f t1 t2 t3 phi = jonswap thr q h f t1 t2 t3 := by
  cases h with
  | none =>
    unfold tma jonswap
    simp only [withHs, Option.bind_some]
    rw [mulV_ones _ phi h4 (by rw [jonswapRaw_length _ t1 t2 t3 l1 l2 l3, l4])]
  | some hv =>
    have hv0 := hh hv rfl
    obtain ⟨J, a, b, _, _, e⟩ := jonswap_hs thr q hv f t1 t2 t3 hg h1 h2 h3 l1 l2 l3
    unfold tma
    rw [a]
    simp only [Option.bind_some]
    rw [mulV_ones J phi h4 (by rw [e, l4])]
    have hpos : 0 < hsE thr q true f J := by rw [b]; positivity
    obtain ⟨E', a', _, c'⟩ := scaled_hsE thr q hv f J hpos
    show scaled thr q hv f J = some J
    rw [a', c', b]
    have : hv ^ 2 / (16 * (hv ^ 2 / 16)) = 1 := by field_simp
    rw [this, scaleV_one]

/-! ## C. directional spreading: wrap, normalisation, non-negativity -/

/-- Python's `%` does nothing to a number already in `[0, m)` -/
theorem pmod_of_range (y m : ℚ) (hm : 0 < m) (h0 : 0 ≤ y) (h1 : y < m) : pmod y m = y := by
  have h := C10.pmod_range y m hm
  unfold pmod at h ⊢
  have hn1 : ((y / m).floor : ℚ) < 1 := by
    by_contra hc
    have : (1 : ℚ) ≤ ((y / m).floor : ℚ) := not_lt.mp hc
    nlinarith [h.1]
  have hn2 : (-1 : ℚ) < ((y / m).floor : ℚ) := by
    by_contra hc
    have : ((y / m).floor : ℚ) ≤ -1 := not_lt.mp hc
    nlinarith [h.2]
  have : (y / m).floor = 0 := by
    have a : (y / m).floor < 1 := by exact_mod_cast hn1
    have b : -1 < (y / m).floor := by exact_mod_cast hn2
    omega
  rw [this]; simp

theorem absR_neg (x : ℚ) : absR (-x) = absR x := by
  unfold absR; split_ifs <;> linarith

theorem absR_nonneg (x : ℚ) : 0 ≤ absR x := by
  unfold absR; split_ifs <;> linarith

/-- the code's wrap `dth.where(dth <= 180, 360 − dth)` is the distance to the nearest multiple of 360 -/
theorem dth_eq_wrapDist (d dm : ℚ) : dth d dm = C10.wrapDist (d - dm) := by
  unfold dth C10.wrapDist minR
  simp only
  split_ifs <;> linarith

/-- for directions and mean direction on the circle `[0, 360)` — mean direction anywhere, also next to
    0/360 — the wrapped distance is the short-way angular distance: in `[0, 180]`, equal to `|d − dm|`
    or `360 − |d − dm|`, whichever is smaller -/
theorem dth_short_way (d dm : ℚ) (hd : 0 ≤ d ∧ d < 360) (hm : 0 ≤ dm ∧ dm < 360) :
    0 ≤ dth d dm ∧ dth d dm ≤ 180 ∧ dth d dm ≤ absR (d - dm) ∧ dth d dm ≤ 360 - absR (d - dm) ∧
      (dth d dm = absR (d - dm) ∨ dth d dm = 360 - absR (d - dm)) := by
  have h0 := absR_nonneg (d - dm)
  have h1 : absR (d - dm) < 360 := by unfold absR; split_ifs <;> linarith [hd.1, hd.2, hm.1, hm.2]
  unfold dth
  simp only
  split_ifs with h
  · exact ⟨h0, h, le_refl _, by linarith, Or.inl rfl⟩
  · have h := not_le.mp h
    exact ⟨by linarith, by linarith, by linarith, le_refl _, Or.inr rfl⟩

/-- the wrapped distance is symmetric in its arguments -/
theorem dth_comm (d dm : ℚ) : dth d dm = dth dm d := by
  unfold dth
  have : absR (d - dm) = absR (dm - d) := by rw [← absR_neg]; congr 1; ring
  simp only [this]

/-- **reflection about the mean direction across the 0/360 seam**: the bin at `d' = 2·dm − d (mod 360)`
    is as far from `dm` as the bin at `d` -/
theorem dth_reflect (d d' dm : ℚ) (k : ℤ) (h : d' = 2 * dm - d + 360 * k)
    (h1 : absR (d - dm) < 360) (h2 : absR (d' - dm) < 360) : dth d' dm = dth d dm := by
  rw [dth_eq_wrapDist, dth_eq_wrapDist]
  have e : d' - dm = (dm - d) + 360 * (k : ℚ) := by rw [h]; ring
  have e1 : absR (dm - d) = absR (d - dm) := by rw [← absR_neg]; congr 1; ring
  rw [e] at h2 ⊢
  rw [C10.wrapDist_wrap (dm - d) k (by rw [e1]; exact h1) h2]
  unfold C10.wrapDist
  rw [e1]

theorem sum_map_mul_div (t : Vec) (a b : ℚ) : (t.map fun x => x * a / b).sum = t.sum * a / b := by
  have : (fun x : ℚ => x * a / b) = fun x => x * (a / b) := by funext x; ring
  rw [this, sum_map_mul_const]; ring

theorem cartwrightRow_eq (pi : ℚ) (t : Vec) : cartwrightRow pi t =
    if t.sum * (2 * pi / (t.length : ℚ)) = 0 ∨ pi = 0 then none
    else some (t.map fun x => x * (1 / (t.sum * (2 * pi / (t.length : ℚ)))) / (180 / pi)) := rfl

/-- the normalised row is the table times one constant -/
theorem cartwrightRow_form (pi : ℚ) (t G : Vec) (hG : cartwrightRow pi t = some G) :
    ∃ κ : ℚ, G = t.map (· * κ) := by
  rw [cartwrightRow_eq] at hG
  split_ifs at hG
  simp only [Option.some.injEq] at hG
  refine ⟨(1 / (t.sum * (2 * pi / (t.length : ℚ)))) / (180 / pi), ?_⟩
  rw [← hG]
  apply List.map_congr_left; intro x _; ring

/-- **Cartwright normalisation** (`gsum`): for every table whose sum is not zero — every number of
    directions, every mean direction and spread, masked (`under_90`) or not, every value of π — the
    result exists and `Σ_j G_j · (360/n) = 1` -/
theorem cartwright_normalised (pi : ℚ) (hpi : pi ≠ 0) (t : Vec) (ht : t.sum ≠ 0) :
    ∃ G, cartwrightRow pi t = some G ∧ G.length = t.length ∧ G.sum * (360 / (t.length : ℚ)) = 1 := by
  have hn : (t.length : ℚ) ≠ 0 := by
    intro h
    have : t.length = 0 := by exact_mod_cast h
    rw [List.eq_nil_of_length_eq_zero this] at ht
    exact ht rfl
  have hden : t.sum * (2 * pi / (t.length : ℚ)) ≠ 0 :=
    mul_ne_zero ht (div_ne_zero (mul_ne_zero (by norm_num) hpi) hn)
  refine ⟨t.map fun x => x * (1 / (t.sum * (2 * pi / (t.length : ℚ)))) / (180 / pi), ?_, by simp, ?_⟩
  · rw [cartwrightRow_eq, if_neg (by rintro (h | h); exact hden h; exact hpi h)]
  · rw [sum_map_mul_div]
    field_simp
    ring

/-- … hence with the accessor's bin width `Δθ` on a full circle (`Δθ · n = 360`): `Δθ · Σ_j G_j = 1` -/
theorem cartwright_integrates (pi ddv : ℚ) (hpi : pi ≠ 0) (t : Vec) (ht : t.sum ≠ 0)
    (hdd : ddv * (t.length : ℚ) = 360) :
    ∃ G, cartwrightRow pi t = some G ∧ G.length = t.length ∧ ddv * G.sum = 1 := by
  obtain ⟨G, a, b, c⟩ := cartwright_normalised pi hpi t ht
  refine ⟨G, a, b, ?_⟩
  have hn : (t.length : ℚ) ≠ 0 := by
    intro h; rw [h, mul_zero] at hdd; norm_num at hdd
  have : ddv = 360 / (t.length : ℚ) := by field_simp; linarith
  rw [this, mul_comm]; exact c

/-- the accessor's `Δθ` of a stored uniform full-circle grid of `n ≥ 2` directions is `360/n` wherever
    the stored sequence starts (also with 0/360 between the first two): `C01.dd_seam` -/
theorem full_circle_dd (a b : ℚ) (rest : Vec) (n : ℕ) (hn : 2 ≤ n)
    (h : absR (b - a) = 360 / (n : ℚ) ∨ absR (b - a) = 360 - 360 / (n : ℚ)) :
    dd (some (a :: b :: rest)) * (n : ℚ) = 360 := by
  have hn' : (2 : ℚ) ≤ n := by exact_mod_cast hn
  have hpos : (0 : ℚ) < n := by linarith
  have h180 : 360 / (n : ℚ) ≤ 180 := by
    rw [div_le_iff₀ hpos]; linarith
  rw [C01.dd_seam a b (360 / (n : ℚ)) rest (by positivity) h180 h]
  field_simp

/-- **non-negativity**: a non-negative table (`cos^{2s} ≥ 0`, mask `0`) gives a non-negative spreading -/
theorem cartwright_nonneg (pi : ℚ) (hpi : 0 < pi) (t G : Vec) (ht : ∀ x ∈ t, 0 ≤ x)
    (hG : cartwrightRow pi t = some G) : ∀ x ∈ G, 0 ≤ x := by
  rw [cartwrightRow_eq] at hG
  split_ifs at hG
  simp only [Option.some.injEq] at hG
  subst hG
  intro x hx
  obtain ⟨y, hy, rfl⟩ := List.mem_map.mp hx
  have hs : 0 ≤ t.sum := List.sum_nonneg ht
  have hd : 0 ≤ t.sum * (2 * pi / (t.length : ℚ)) := by positivity
  have := ht y hy
  positivity

/-- **asymmetric spreading** is Cartwright with per-frequency mean direction and spread: *every*
    frequency row is normalised and non-negative -/
theorem asymmetric_normalised (pi ddv : ℚ) (hpi : 0 < pi) (T : Mat) (nd : ℕ)
    (hrows : ∀ r ∈ T, r.length = nd ∧ r.sum ≠ 0 ∧ ∀ x ∈ r, 0 ≤ x) (hdd : ddv * (nd : ℚ) = 360) :
    ∀ g ∈ spreadRows pi T, ∃ G, g = some G ∧ G.length = nd ∧ ddv * G.sum = 1 ∧ ∀ x ∈ G, 0 ≤ x := by
  intro g hg
  unfold spreadRows at hg
  obtain ⟨r, hr, rfl⟩ := List.mem_map.mp hg
  obtain ⟨hl, hs, hp⟩ := hrows r hr
  obtain ⟨G, a, b, c⟩ := cartwright_integrates pi ddv (ne_of_gt hpi) r hs (by rw [hl]; exact hdd)
  exact ⟨G, a, by rw [b, hl], c, cartwright_nonneg pi hpi r G hp a⟩

/-- the per-frequency parameters of `asymmetric` coincide with the Cartwright ones when mean and peak
    parameters agree (`dm = dpm ≥ 0`, `dspr = dpspr ≥ smin`): asymmetric **reduces to** Cartwright -/
theorem asymmetric_reduces (lo hi dfmin smin : ℚ) (hlo : lo ≤ 1) (hhi : 1 ≤ hi) (dm dspr fm fp : ℚ)
    (hdm : 0 ≤ dm) (hds : smin ≤ dspr) (hds0 : 0 ≤ dspr) (f : Vec) :
    asymTheta lo hi dfmin dm dm fm fp f = f.map (fun _ => dm) ∧
    asymSigma lo hi dfmin smin dspr dspr fm fp f = f.map (fun _ => dspr) := by
  have a1 : lo * dm ≤ dm := by nlinarith
  have a2 : dm ≤ hi * dm := by nlinarith
  have b1 : lo * dspr ≤ dspr := by nlinarith
  have b2 : dspr ≤ hi * dspr := by nlinarith
  constructor
  · unfold asymTheta
    have hdd : asymDd dm dm = 0 := by
      unfold asymDd
      rw [pmod_of_range _ 360 (by norm_num) (by norm_num) (by norm_num)]; ring
    simp only [hdd, zero_div, zero_mul, add_zero]
    congr 1; funext x
    unfold minR maxR
    split_ifs <;> linarith
  · unfold asymSigma
    have hm : maxR dspr dspr = dspr := by unfold maxR; simp
    have h0 : maxR (dspr - dspr) 0 = 0 := by unfold maxR; simp
    simp only [hm, h0, zero_div, zero_mul, add_zero]
    congr 1; funext x
    unfold minR maxR
    split_ifs <;> linarith

/-! ### the direction gradient of `asymmetric` across the 0/360 seam (after fix df979f0) -/

theorem pmod_add_int_mul (x m : ℚ) (hm : m ≠ 0) (k : ℤ) : pmod (x + m * k) m = pmod x m := by
  unfold pmod
  have e : (x + m * (k : ℚ)) / m = x / m + (k : ℚ) := by field_simp
  have : ((x + m * (k : ℚ)) / m).floor = (x / m).floor + k := by
    rw [e]; exact Int.floor_add_intCast (x / m) k
  rw [this]; push_cast; ring

/-- `dd` lies in `[−180, 180)` and differs from `dm − dpm` by a whole number of turns: it **is** the
    short-way signed difference, wherever 0/360 falls -/
theorem asymDd_short_way (dm dpm : ℚ) :
    -180 ≤ asymDd dm dpm ∧ asymDd dm dpm < 180 ∧ ∃ k : ℤ, asymDd dm dpm = dm - dpm - 360 * k := by
  have h := C10.pmod_range (dm - dpm + 180) 360 (by norm_num)
  refine ⟨by unfold asymDd; linarith [h.1], by unfold asymDd; linarith [h.2],
    ⟨((dm - dpm + 180) / 360).floor, ?_⟩⟩
  unfold asymDd pmod; ring

/-- away from the seam nothing changed: for `|dm − dpm| < 180` the gradient uses `dm − dpm` itself -/
theorem asymDd_plain (dm dpm : ℚ) (h1 : -180 ≤ dm - dpm) (h2 : dm - dpm < 180) : asymDd dm dpm = dm - dpm := by
  unfold asymDd
  rw [pmod_of_range _ 360 (by norm_num) (by linarith) (by linarith)]; ring

/-- directions are labels on the circle: adding whole turns to `dm` or to `dpm` does not change `dd` -/
theorem asymDd_periodic (dm dpm : ℚ) (k l : ℤ) : asymDd (dm + 360 * k) (dpm + 360 * l) = asymDd dm dpm := by
  unfold asymDd
  have : dm + 360 * (k : ℚ) - (dpm + 360 * (l : ℚ)) + 180 = (dm - dpm + 180) + 360 * ((k - l : ℤ) : ℚ) := by
    push_cast; ring
  rw [this, pmod_add_int_mul _ 360 (by norm_num)]

/-- **full-strength seam statement for `asymmetric`**: the per-frequency mean direction is the same
    whether the requested mean direction is given as `dm` or as `dm ± 360·k` — in particular
    `(dm, dpm) = (1°, 359°)` is treated as `(361°, 359°)`: two degrees apart, not 358 -/
theorem asymTheta_dm_periodic (lo hi dfmin dm dpm fm fp : ℚ) (k : ℤ) (f : Vec) :
    asymTheta lo hi dfmin (dm + 360 * k) dpm fm fp f = asymTheta lo hi dfmin dm dpm fm fp f := by
  unfold asymTheta
  have := asymDd_periodic dm dpm k 0
  simp only [Int.cast_zero, mul_zero, add_zero] at this
  rw [this]

/-- the witness of the former finding: `dm = 1°, dpm = 359°` gives the gradient `+2°`, not `−358°` -/
example : asymDd 1 359 = 2 ∧ asymDd 359 1 = -2 ∧ asymDd 11 9 = 2 := by decide +kernel

/-! ## D. the 2-D spectrum `shape ⊗ spreading` -/

/-- **`construct_partition` integrates back to the 1-D shape**: if every spreading row exists and
    integrates to one with the accessor's `Δθ`, then `oned(efth1d · spread) = efth1d` -/
theorem construct_integrates (ddv : ℚ) (nd : ℕ) (shape : Vec) (G : List (Option Vec))
    (hlen : shape.length ≤ G.length) (hG : ∀ g ∈ G, ∃ r, g = some r ∧ ddv * r.sum = 1) :
    oned ddv (outerRows nd shape G) = shape := by
  unfold oned outerRows
  induction shape generalizing G with
  | nil => simp
  | cons a shape ih =>
    cases G with
    | nil => simp at hlen
    | cons g G =>
      obtain ⟨r, rfl, hr⟩ := hG g (by simp)
      simp only [List.zipWith_cons_cons, List.map_cons]
      rw [ih G (by simpa using hlen) (fun g hg => hG g (List.mem_cons_of_mem _ hg))]
      congr 1
      rw [sum_map_const_mul]
      calc ddv * (a * r.sum) = a * (ddv * r.sum) := by ring
        _ = a := by rw [hr, mul_one]

theorem constRows_mem {α} (n : ℕ) (g x : α) (h : x ∈ constRows n g) : x = g := by
  unfold constRows at h; exact List.eq_of_mem_replicate h

/-- a shape built with `hs`, spread with a normalised spreading: the **2-D spectrum has exactly the
    requested significant height** when measured by the accessor -/
theorem construct_hs (thr q ddv h : ℚ) (nd : ℕ) (f shape : Vec) (G : List (Option Vec))
    (hshape : hsE thr q true f shape = h ^ 2 / 16)
    (hlen : shape.length ≤ G.length) (hG : ∀ g ∈ G, ∃ r, g = some r ∧ ddv * r.sum = 1) :
    hsE thr q true f (oned ddv (outerRows nd shape G)) = h ^ 2 / 16 := by
  rw [construct_integrates ddv nd shape G hlen hG, hshape]

/-- directional moment of one row of the outer product -/
theorem row_moment_outer (ddv a : ℚ) (g t : Vec) :
    (List.zipWith (fun x y => ddv * x * y) (g.map (a * ·)) t).sum =
      a * (List.zipWith (fun x y => ddv * x * y) g t).sum :=
  sum_zipWith_map_left (fun x y => ddv * x * y) (a * ·) a (fun x y => by ring) g t

/-- per-frequency directional moments of `shape ⊗ G` (the same spreading `G` for every frequency):
    `shape_i · M`, `M = Σ_j Δθ G_j t_j` -/
theorem momdRow_outer (ddv : ℚ) (nd : ℕ) (shape G t : Vec) :
    momdRow ddv t (outerRows nd shape (constRows shape.length (some G))) =
      shape.map (· * (List.zipWith (fun x y => ddv * x * y) G t).sum) := by
  unfold momdRow outerRows constRows
  induction shape with
  | nil => simp
  | cons a shape ih =>
    simp only [List.length_cons, List.replicate_succ, List.zipWith_cons_cons, List.map_cons]
    rw [ih, row_moment_outer]

/-- the accessor's mean-direction vector of `shape ⊗ G`: `Σ_i shape_i` times the moment vector of `G` -/
theorem dmVec_outer (ddv : ℚ) (nd : ℕ) (shape G s c : Vec) :
    dmVec ddv s c (outerRows nd shape (constRows shape.length (some G))) =
      (shape.sum * (List.zipWith (fun x y => ddv * x * y) G s).sum,
       shape.sum * (List.zipWith (fun x y => ddv * x * y) G c).sum) := by
  unfold dmVec
  rw [momdRow_outer, momdRow_outer, sum_map_mul_const, sum_map_mul_const]

/-- the accessor's `dspr` ingredients `(a, b, e)` of `shape ⊗ G` are `m0 · (A, B, I)` with `A, B, I` the
    sine/cosine moments and the integral of the spreading alone: **the measured spread does not depend on
    the frequency shape** (what remains — `√(A²+B²) = s/(s+1)` for the sampled `cos^{2s}` — is analysis) -/
theorem dsprABE_outer (ddv : ℚ) (nd : ℕ) (f shape G s c : Vec) :
    dsprABE ddv s c f (outerRows nd shape (constRows shape.length (some G))) =
      (dot shape (df f) * (List.zipWith (fun x y => ddv * x * y) G s).sum,
       dot shape (df f) * (List.zipWith (fun x y => ddv * x * y) G c).sum,
       dot shape (df f) * (ddv * G.sum)) := by
  unfold dsprABE
  rw [momdRow_outer, momdRow_outer]
  have hon : oned ddv (outerRows nd shape (constRows shape.length (some G))) = shape.map (· * (ddv * G.sum)) := by
    unfold oned outerRows constRows
    induction shape with
    | nil => simp
    | cons a shape ih =>
      simp only [List.length_cons, List.replicate_succ, List.zipWith_cons_cons, List.map_cons]
      rw [ih, sum_map_const_mul]; congr 1; ring
  rw [hon]
  have key : ∀ (k : ℚ) (w : Vec), dot (shape.map (· * k)) w = dot shape w * k := by
    intro k w
    unfold dot mulV
    have := sum_zipWith_map_left (fun x y : ℚ => x * y) (· * k) k (fun a b => by ring) shape w
    rw [this]; ring
  rw [key, key, key]

/-- `Σ F(d')` over the reflected bins is `−Σ F(d)` when `F` changes sign under the reflection -/
theorem sum_neg_of_forall₂ (F : ℚ → ℚ) (l l' : Vec) (h : List.Forall₂ (fun d d' => F d' = -F d) l l') :
    (l'.map F).sum = -(l.map F).sum := by
  induction h with
  | nil => simp
  | cons hab _ ih => simp only [List.map_cons, List.sum_cons, ih, hab]; ring

/-- **symmetry ⇒ no moment across the requested direction.**  `φ` is any function of the wrapped distance
    (the `cos^{2s}` table, masked or not), `ψ` any function of direction (the sine about `dm`).  If the
    stored direction grid is mapped onto itself by the reflection `d ↦ 2·dm − d (mod 360)` — a
    permutation `dirs'` of the bins, which may cross the 0/360 seam — and `ψ` changes sign under it, then
    `Σ_j φ(dth_j) ψ(d_j) = 0`. -/
theorem dm_symmetric (φ ψ : ℚ → ℚ) (dm : ℚ) (dirs dirs' : Vec) (hperm : dirs'.Perm dirs)
    (hrefl : List.Forall₂ (fun d d' => (∃ k : ℤ, d' = 2 * dm - d + 360 * k) ∧ absR (d - dm) < 360 ∧
      absR (d' - dm) < 360 ∧ ψ d' = -ψ d) dirs dirs') :
    (dirs.map fun d => φ (dth d dm) * ψ d).sum = 0 := by
  have h1 : (dirs'.map fun d => φ (dth d dm) * ψ d).sum = (dirs.map fun d => φ (dth d dm) * ψ d).sum :=
    (hperm.map _).sum_eq
  have h2 := sum_neg_of_forall₂ (fun d => φ (dth d dm) * ψ d) dirs dirs'
    (hrefl.imp fun d d' ⟨⟨k, hk⟩, ha, hb, hc⟩ => by
      show φ (dth d' dm) * ψ d' = -(φ (dth d dm) * ψ d)
      rw [dth_reflect d d' dm k hk ha hb, hc]; ring)
  linarith

theorem zipWith_map_map_sum (dirs : Vec) (g t : ℚ → ℚ) (ddv : ℚ) :
    (List.zipWith (fun x y => ddv * x * y) (dirs.map g) (dirs.map t)).sum =
      ddv * (dirs.map fun d => g d * t d).sum := by
  induction dirs with
  | nil => simp
  | cons d dirs ih => simp only [List.map_cons, List.zipWith_cons_cons, List.sum_cons, ih]; ring

/-- **measured mean direction = requested one, also across the 0/360 seam.**  A shape times a Cartwright
    spreading about `dm`, on a direction grid that the reflection about `dm` maps onto itself: the
    accessor's moment vector `(msin, mcos)` has no component across the requested direction
    `(Cm, Sm) = (cos, sin)(270° − dm)`, i.e. it is parallel to it.  (`sf, cf` are the accessor's sine and
    cosine tables as functions of direction; the hypothesis on them is the addition theorem of the sine,
    stated on the reflected bins.)  With `construct_dm_same_side` the vector points the same way, so
    `atan2` returns the requested angle. -/
theorem construct_dm_symmetric (pi ddv : ℚ) (φ sf cf : ℚ → ℚ) (dm Cm Sm : ℚ) (dirs dirs' shape G : Vec)
    (hG : cartwrightRow pi (dirs.map fun d => φ (dth d dm)) = some G)
    (hperm : dirs'.Perm dirs)
    (hrefl : List.Forall₂ (fun d d' => (∃ k : ℤ, d' = 2 * dm - d + 360 * k) ∧ absR (d - dm) < 360 ∧
      absR (d' - dm) < 360 ∧ sf d' * Cm - cf d' * Sm = -(sf d * Cm - cf d * Sm)) dirs dirs') :
    (dmVec ddv (dirs.map sf) (dirs.map cf)
        (outerRows dirs.length shape (constRows shape.length (some G)))).1 * Cm -
      (dmVec ddv (dirs.map sf) (dirs.map cf)
        (outerRows dirs.length shape (constRows shape.length (some G)))).2 * Sm = 0 := by
  rw [dmVec_outer]
  obtain ⟨κ, rfl⟩ := cartwrightRow_form pi _ G hG
  simp only [List.map_map]
  rw [zipWith_map_map_sum, zipWith_map_map_sum]
  have key := dm_symmetric (fun x => φ x) (fun d => sf d * Cm - cf d * Sm) dm dirs dirs' hperm hrefl
  have lin : ∀ l : Vec, (l.map fun d => ((· * κ) ∘ fun d => φ (dth d dm)) d * sf d).sum * Cm -
      (l.map fun d => ((· * κ) ∘ fun d => φ (dth d dm)) d * cf d).sum * Sm =
      κ * (l.map fun d => φ (dth d dm) * (sf d * Cm - cf d * Sm)).sum := by
    intro l
    induction l with
    | nil => simp
    | cons d l ih =>
      simp only [List.map_cons, List.sum_cons, Function.comp] at ih ⊢
      linear_combination ih
  have h0 := lin dirs
  rw [key, mul_zero] at h0
  linear_combination shape.sum * ddv * h0

/-- … and it points the same way: the component *along* the requested direction is positive as soon as
    the shape has energy and the cosine moment of the spreading about `dm` is positive -/
theorem construct_dm_same_side (ddv : ℚ) (nd : ℕ) (shape G s c : Vec) (Cm Sm : ℚ)
    (hshape : 0 < shape.sum)
    (hcos : 0 < (List.zipWith (fun x y => ddv * x * y) G c).sum * Cm +
      (List.zipWith (fun x y => ddv * x * y) G s).sum * Sm) :
    0 < (dmVec ddv s c (outerRows nd shape (constRows shape.length (some G)))).2 * Cm +
      (dmVec ddv s c (outerRows nd shape (constRows shape.length (some G)))).1 * Sm := by
  rw [dmVec_outer]
  simp only
  have := mul_pos hshape hcos
  linarith

/-! ## E. numpy twins (`core/npstats.py`) -/

theorem trapz_smul (k : ℚ) (d E : Vec) : trapz d (scaleV k E) = k * trapz d E := by
  induction d generalizing E with
  | nil => cases E <;> simp [trapz, scaleV]
  | cons x d ih =>
    match E with
    | [] => simp [trapz, scaleV]
    | [a] => simp [trapz, scaleV]
    | a :: b :: rest =>
      have := ih (b :: rest)
      simp only [scaleV, List.map_cons, trapz] at this ⊢
      rw [this]; ring

theorem npHsE_smul (thr q : ℚ) (tail : Bool) (k : ℚ) (f E : Vec) :
    npHsE thr q tail f (scaleV k E) = k * npHsE thr q tail f E := by
  unfold npHsE
  rw [trapz_smul, lastD_scaleV]
  split <;> ring

/-- `npstats.jonswap(…, hsig)` has exactly the requested height **as measured by its own twin**
    `npstats.hs` (trapezoid rule).  Measured by the accessor it differs by the half end-bin weights
    (`C01`): the check reports that difference as an observation. -/
theorem npJonswap_hs (thr q h : ℚ) (f t1 t2 t3 : Vec) (hH : 0 < npHsE thr q true f (jonswapRaw t1 t2 t3)) :
    ∃ E', npJonswap thr q (some h) f t1 t2 t3 = some E' ∧ npHsE thr q true f E' = h ^ 2 / 16 := by
  refine ⟨scaleV (h ^ 2 / (16 * npHsE thr q true f (jonswapRaw t1 t2 t3))) (jonswapRaw t1 t2 t3), ?_, ?_⟩
  · unfold npJonswap
    simp only [not_le.mpr hH, if_false]
  · rw [npHsE_smul]
    field_simp

/-- both JONSWAP implementations are the same table product: they differ by one constant factor -/
theorem npJonswap_proportional (thr q h : ℚ) (f t1 t2 t3 E En : Vec)
    (h1 : jonswap thr q (some h) f t1 t2 t3 = some E) (h2 : npJonswap thr q (some h) f t1 t2 t3 = some En) :
    ∃ k1 k2 : ℚ, E = scaleV k1 (jonswapRaw t1 t2 t3) ∧ En = scaleV k2 (jonswapRaw t1 t2 t3) := by
  unfold jonswap withHs scaled at h1
  unfold npJonswap at h2
  simp only at h1 h2
  split_ifs at h1 h2
  simp only [Option.some.injEq] at h1 h2
  exact ⟨_, _, h1.symm, h2.symm⟩

/-! ## F. T-tier: the literals of the repository's constructors are the constants of the statements -/

theorem lits_frequency :
    Gen.lits_construct_pm = [K.alpha, 2, 2, 4, 5, 5/4, 4] ∧
    Gen.lits_construct_jonswap = [K.alpha, K.gamma, K.sigmaA, K.sigmaB, 2, 2, 4, 5, 5, 4, 4, 2, 2, 2, 2] ∧
    Gen.lits_construct_tma = [K.alpha, K.gamma, K.sigmaA, K.sigmaB, 2, 1, 2, 2] ∧
    Gen.lits_construct_gaussian = [4, 2, 2, 1/2, 2] ∧
    Gen.lits_utils_scaled = [2] := by decide +kernel

theorem lits_direction :
    Gen.lits_construct_cartwright = [180, 360, 2, 2, 1, 1/2, 2, 90, 0, 1, 2] ∧
    Gen.lits_construct_asymmetric = [180, 360, 180, 0, K.dfmin, K.hi, K.lo, K.lo, K.hi, K.smin, K.smin] ∧
    Gen.lits_construct_partition = [0] := by decide +kernel

theorem lits_twins :
    Gen.lits_npstats_jonswap = [K.gamma, K.alpha, K.sigmaA, K.sigmaB, 2, 2, 4, 5, 5, 4, 4, 2, 2, 2, 2, 2] ∧
    Gen.lits_npstats_gaussian = [4, 2, 2, 1/2, 2] := by decide +kernel

/-- `(hs / (4·√H))² = hs²/(16·H)`: the `4` of `SpecArray.hs` is the `16` of the model's factor -/
theorem lits_hs_four : Gen.lits_specarray_hs.getLast? = some 4 ∧ (4 : ℚ) ^ 2 = 16 := by decide +kernel

/-! ## non-vacuity: the hypotheses are satisfiable on concrete, non-trivial inputs -/

section Examples

/-- irregular grid, last frequency above the tail threshold 0.333 (the tail term is active) -/
private def fE : Vec := [1/10, 1/5, 2/5]
private def t1E : Vec := [3, 2, 1]
private def t2E : Vec := [1/2, 1, 1/4]
private def t3E : Vec := [1, 2, 1]
private def phiE : Vec := [1/2, 3/4, 1]
private def onesE : Vec := [1, 1, 1]
private def thrE : ℚ := 333/1000
/-- a normalised spreading on 4 directions with `Δθ = 90`: `90 · Σ G = 1` -/
private def gE : Vec := [1/180, 1/360, 1/360, 0]

/-- (example input) the grid `fE` satisfies the standing hypotheses -/
theorem example_good_grid : GoodGrid (1/4) fE :=
  ⟨by decide, by decide +kernel, by decide +kernel, by norm_num⟩

example : hsE thrE (1/4) true fE (pmRaw t1E t2E) = 21/40 := by decide +kernel
example := scaled_factor_hsE thrE (1/4) 3 fE (pmRaw t1E t2E) (by decide +kernel)
example := scaled_hsE thrE (1/4) 3 fE (pmRaw t1E t2E) (by decide +kernel)
example : scaled thrE (1/4) 3 fE (pmRaw t1E t2E) = some [45/28, 15/7, 15/56] := by decide +kernel
example := scaled_nonneg thrE (1/4) 3 fE (pmRaw t1E t2E) [45/28, 15/7, 15/56] (by decide +kernel) (by decide +kernel)
example : scaled thrE (1/4) 3 fE [0, 0, 0] = none := (scaled_none_iff _ _ _ _ _).mpr (by decide +kernel)
example := hsE_pos thrE (1/4) true fE (pmRaw t1E t2E) example_good_grid (by decide +kernel) (by decide +kernel)
example := withHs_spec thrE (1/4) 3 fE (pmRaw t1E t2E) example_good_grid (by decide +kernel) (by decide +kernel)
example := pm_hs thrE (1/4) 3 fE t1E t2E example_good_grid (by decide +kernel) (by decide +kernel) rfl rfl
example := jonswap_hs thrE (1/4) 3 fE t1E t2E t3E example_good_grid (by decide +kernel) (by decide +kernel) (by decide +kernel)
  rfl rfl rfl
example := tma_hs thrE (1/4) 3 (by norm_num) fE t1E t2E t3E phiE example_good_grid (by decide +kernel) (by decide +kernel)
  (by decide +kernel) (by decide +kernel) rfl rfl rfl rfl
example := gaussian_hs thrE (1/4) 3 fE t2E example_good_grid (by decide +kernel) rfl
-- the values, computed: each shape built with hs = 3 has radicand 9/16
example : (pm thrE (1/4) (some 3) fE t1E t2E).map (hsE thrE (1/4) true fE) = some (9/16) ∧
    (jonswap thrE (1/4) (some 3) fE t1E t2E t3E).map (hsE thrE (1/4) true fE) = some (9/16) ∧
    (tma thrE (1/4) (some 3) fE t1E t2E t3E phiE).map (hsE thrE (1/4) true fE) = some (9/16) ∧
    (gaussian thrE (1/4) 3 fE t2E).map (hsE thrE (1/4) true fE) = some (9/16) := by decide +kernel
example := shapes_nonneg thrE (1/4) (some 3) fE (pmRaw t1E t2E) [45/28, 15/7, 15/56] (by decide +kernel)
  (by decide +kernel)
example : tma thrE (1/4) (some 3) fE t1E t2E t3E phiE = some [45/64, 45/16, 15/64] := by decide +kernel
example := tma_nonneg thrE (1/4) (some 3) fE t1E t2E t3E phiE [45/64, 45/16, 15/64] (by decide +kernel)
  (by decide +kernel) (by decide +kernel) (by decide +kernel) (by decide +kernel)
example := jonswap_gamma1_eq_pm thrE (1/4) (some 3) fE t1E t2E onesE (by decide +kernel) (by decide +kernel)
example := tma_phi1_eq_jonswap thrE (1/4) (some 3) (by intro hv h; cases h; norm_num) fE t1E t2E t3E onesE example_good_grid
  (by decide +kernel) (by decide +kernel) (by decide +kernel) (by decide +kernel) rfl rfl rfl rfl

-- wrap across the seam: 350° is 15° away from 5°; the bin 340° mirrors the bin 10° about dm = 355°
example := dth_short_way 350 5 (by norm_num) (by norm_num)
example : dth 350 5 = 15 ∧ dth 5 350 = 15 ∧ dth 10 355 = 15 ∧ dth 340 355 = 15 := by decide +kernel
example := dth_reflect 10 340 355 (-1) (by norm_num) (by decide +kernel) (by decide +kernel)

-- normalisation (π = 22/7: the statements hold for every value of π)
example := cartwright_normalised (22/7) (by norm_num) [1, 3, 1, 0] (by decide +kernel)
example := cartwright_integrates (22/7) 90 (by norm_num) [1, 3, 1, 0] (by decide +kernel) (by norm_num)
example : cartwrightRow (22/7) [1, 3, 1, 0] = some [1/450, 1/150, 1/450, 0] := by decide +kernel
example := cartwright_nonneg (22/7) (by norm_num) [1, 3, 1, 0] [1/450, 1/150, 1/450, 0] (by decide +kernel)
  (by decide +kernel)
-- stored grid starting at 315°, seam between the first two directions: Δθ is still 90
example := full_circle_dd 315 45 [135, 225] 4 (by norm_num) (Or.inr (by decide +kernel))
example := asymmetric_normalised (22/7) 90 (by norm_num) [[1, 3, 1, 0], [0, 2, 2, 1]] 4 (by decide +kernel)
  (by norm_num)
example := asymmetric_reduces K.lo K.hi K.dfmin K.smin (by decide +kernel) (by decide +kernel) 30 20 (3/25) (1/10)
  (by norm_num) (by decide +kernel) (by norm_num) fE

-- 2-D spectrum
example : (90 : ℚ) * gE.sum = 1 := by decide +kernel
example := construct_integrates 90 4 [1, 3, 2] (constRows 3 (some gE)) (by decide)
  (fun g hg => ⟨gE, constRows_mem _ _ _ hg, by decide +kernel⟩)
example : ∃ E', pm thrE (1/4) (some 3) fE t1E t2E = some E' ∧
    hsE thrE (1/4) true fE (oned 90 (outerRows 4 E' (constRows 3 (some gE)))) = 3 ^ 2 / 16 := by
  obtain ⟨E', a, b, _, _, l⟩ := withHs_spec thrE (1/4) 3 fE (pmRaw t1E t2E) example_good_grid (by decide +kernel)
    (by decide +kernel)
  exact ⟨E', a, construct_hs thrE (1/4) 90 3 4 fE E' _ b (by rw [l]; decide)
    (fun g hg => ⟨gE, constRows_mem _ _ _ hg, by decide +kernel⟩)⟩

/-- the accessor's tables on the grid 0, 90, 180, 270: `sin(270° − d)`, `cos(270° − d)` -/
private def sfE (d : ℚ) : ℚ := if d = 0 then -1 else if d = 180 then 1 else 0
private def cfE (d : ℚ) : ℚ := if d = 90 then -1 else if d = 270 then 1 else 0
/-- any function of the wrapped distance -/
private def phE (x : ℚ) : ℚ := 180 - x
private def dirsE : Vec := [0, 90, 180, 270]
/-- reflection about `dm = 315°` — **across the 0/360 seam**: 0 ↔ 270, 90 ↔ 180 -/
private def dirsE' : Vec := [270, 180, 90, 0]

/-- (example input) the reflection about 315° permutes the bins 0, 90, 180, 270 across the seam -/
theorem example_reflection_across_seam : List.Forall₂ (fun (d d' : ℚ) => (∃ k : ℤ, d' = 2 * 315 - d + 360 * k) ∧ absR (d - 315) < 360 ∧
    absR (d' - 315) < 360 ∧ sfE d' * 1 - cfE d' * (-1) = -(sfE d * 1 - cfE d * (-1))) dirsE dirsE' :=
  .cons ⟨⟨-1, by norm_num⟩, by decide +kernel, by decide +kernel, by decide +kernel⟩
  (.cons ⟨⟨-1, by norm_num⟩, by decide +kernel, by decide +kernel, by decide +kernel⟩
  (.cons ⟨⟨-1, by norm_num⟩, by decide +kernel, by decide +kernel, by decide +kernel⟩
  (.cons ⟨⟨-1, by norm_num⟩, by decide +kernel, by decide +kernel, by decide +kernel⟩ .nil)))

example : dirsE'.Perm dirsE := by decide
example := dm_symmetric phE (fun d => sfE d * 1 - cfE d * (-1)) 315 dirsE dirsE' (by decide) example_reflection_across_seam
example : cartwrightRow (22/7) (dirsE.map fun d => phE (dth d 315)) = some [1/240, 1/720, 1/720, 1/240] := by
  decide +kernel
/-- requested direction 315° = direction vector `(cos, sin)(−45°) ∝ (1, −1)`: the measured vector is parallel -/
example := construct_dm_symmetric (22/7) 90 phE sfE cfE 315 1 (-1) dirsE dirsE' [1, 3, 2]
  [1/240, 1/720, 1/720, 1/240] (by decide +kernel) (by decide) example_reflection_across_seam
example : dmVec 90 (dirsE.map sfE) (dirsE.map cfE)
    (outerRows 4 [1, 3, 2] (constRows 3 (some [1/240, 1/720, 1/720, 1/240]))) = (-3/2, 3/2) := by decide +kernel
example := construct_dm_same_side 90 4 [1, 3, 2] [1/240, 1/720, 1/720, 1/240] (dirsE.map sfE) (dirsE.map cfE) 1 (-1)
  (by norm_num) (by decide +kernel)

-- twins
example : 0 < npHsE thrE (1/4) true fE (jonswapRaw t1E t2E t3E) := by decide +kernel
example := npJonswap_hs thrE (1/4) 3 fE t1E t2E t3E (by decide +kernel)
example : (npJonswap thrE (1/4) (some 3) fE t1E t2E t3E).map (npHsE thrE (1/4) true fE) = some (9/16) ∧
    (npJonswap thrE (1/4) (some 3) fE t1E t2E t3E).map (hsE thrE (1/4) true fE) = some (297/464) := by decide +kernel
example := npJonswap_proportional thrE (1/4) 3 fE t1E t2E t3E [45/44, 30/11, 15/88] [135/116, 90/29, 45/232]
  (by decide +kernel) (by decide +kernel)

end Examples

end WS.C15

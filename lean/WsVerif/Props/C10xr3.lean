import WsVerif.Props.C10
import WsVerif.Props.C01xr3
/-!
# C10 — T-tier, xarray level, part 3: energy scaling of the regenerated Stokes drift and mean square slope

`ussSum_smul` / `mss_smul` (`Props/C10.lean`) restated on the definitions regenerated from `SpecArray.uss_x / uss_y / uss / mss`
(`Gen/XrKernels3.lean`, bridged in `Props/C01xr3.lean`): multiplying the spectrum by `k` multiplies each of them by `k`, for every
grid, depth, table and oracle.
-/
namespace WS.C10
open WS WS.Stats

theorem genxr3_uss_x_smul (pi : ℚ) (sqrt : ℚ → ℚ) (f d : Vec) (E : Mat) (ddv k : ℚ) (depth : Option ℚ) (theta : ℚ) (cp : Vec) :
    Gen.xrUssX pi sqrt f d (scaleM k E) (df f) ddv depth theta cp = k * Gen.xrUssX pi sqrt f d E (df f) ddv depth theta cp := by
  simp only [C01.genxr3_uss_x_eq, ussSum_smul]

theorem genxr3_uss_y_smul (pi : ℚ) (sqrt : ℚ → ℚ) (f d : Vec) (E : Mat) (ddv k : ℚ) (depth : Option ℚ) (theta : ℚ) (sp : Vec) :
    Gen.xrUssY pi sqrt f d (scaleM k E) (df f) ddv depth theta sp = k * Gen.xrUssY pi sqrt f d E (df f) ddv depth theta sp := by
  simp only [C01.genxr3_uss_y_eq, ussSum_smul]

theorem genxr3_uss_smul (pi : ℚ) (sqrt : ℚ → ℚ) (f d : Vec) (E : Mat) (ddv k : ℚ) (depth : Option ℚ) :
    Gen.xrUss pi sqrt f d (scaleM k E) (df f) ddv depth = k * Gen.xrUss pi sqrt f d E (df f) ddv depth := by
  simp only [C01.genxr3_uss_eq_mss, oned_smul, mss_smul]

theorem genxr3_mss_smul (pi : ℚ) (sqrt : ℚ → ℚ) (f d : Vec) (E : Mat) (ddv k : ℚ) (depth : Option ℚ) :
    Gen.xrMss pi sqrt f d (scaleM k E) (df f) ddv depth = k * Gen.xrMss pi sqrt f d E (df f) ddv depth := by
  simp only [C01.genxr3_mss_eq, oned_smul, mss_smul]

/-- non-vacuity: doubling a 2×2 spectrum doubles `uss_x` -/
example : Gen.xrUssX 3 (fun x => x) [1/2, 1] [350, 10] (scaleM 2 [[1, 2], [0, 3]]) (df [1/2, 1]) 20 none 90 [1/2, -1] =
    2 * Gen.xrUssX 3 (fun x => x) [1/2, 1] [350, 10] [[1, 2], [0, 3]] (df [1/2, 1]) 20 none 90 [1/2, -1] ∧
    Gen.xrUssX 3 (fun x => x) [1/2, 1] [350, 10] [[1, 2], [0, 3]] (df [1/2, 1]) 20 none 90 [1/2, -1] ≠ 0 := by decide +kernel

end WS.C10

import WsVerif.Lemmas.SplBridge
import WsVerif.Lemmas.Split
import WsVerif.Gen.SplKernels
/-!
C09, regenerated decision logic (`harness/translate_spl.py` → `Gen/SplKernels.lean`) identified with the hand-written
model `Model/Split.lean` FOR ALL INPUTS.  Every theorem here is re-checked on every run against the definitions
regenerated from the current source of `core.utils.waveage`, `core.utils.is_overlap`, `Partition.ptm4`,
`Partition.ptm5`, `Partition.bbox`, `SpecArray.split`; an edit of one of these functions that changes a decision
breaks a bridge below (or makes the function untranslatable, which removes the definition and breaks every theorem
that mentions it).  xarray plumbing is not translated: it is pinned as source text (`genspl_pins_*`).
-/
namespace WS.C09
open WS WS.Split WS.SplBridge

/-! ### wave age, PTM4 -/

/-- the generated wave-age test at a bin = the model's wind-sea predicate on the bin's celerity and cosine:
    `celerity(freq, dpt) <= agefac * wspd * cos(D2R * (dir - wdir))`, `true` = wind sea -/
theorem genspl_waveage_eq (cos : Rat → Rat) (cel : Rat → Rat → Rat) (D2R f d wspd wdir dpt agefac : Rat) :
    Gen.splWaveage cos cel D2R f d wspd wdir dpt agefac
      = seaMask agefac wspd (cel f dpt) (cos (D2R * (d - wdir))) := rfl

/-- `ptm4` at a bin: part 0 = `where(windseamask)` (wind sea), part 1 = `where(~windseamask)` (swell), NaN → 0;
    the arguments of `waveage` are passed in the order `freq, dir, wspd, wdir, dpt, agefac` -/
theorem genspl_ptm4_eq (cos : Rat → Rat) (cel : Rat → Rat → Rat) (D2R f d wspd wdir dpt agefac x : Rat) :
    Gen.splPtm4 cos cel D2R f d wspd wdir dpt agefac x
      = [ (if seaMask agefac wspd (cel f dpt) (cos (D2R * (d - wdir))) then x else 0),
          (if !seaMask agefac wspd (cel f dpt) (cos (D2R * (d - wdir))) then x else 0) ] := rfl

/-- the same against the masked rows of the model (`Split.maskRow`, the row form of `whereM` used by `Split.ptm4`):
    for celerity `c` of the row and the cosine table of the columns -/
theorem genspl_ptm4_row (cos : Rat → Rat) (cel : Rat → Rat → Rat) (D2R f wspd wdir dpt agefac : Rat) (dirs row : Vec) :
    maskRow (seaMask agefac wspd (cel f dpt)) (dirs.map fun d => cos (D2R * (d - wdir))) row
        = List.zipWith (fun d x => (Gen.splPtm4 cos cel D2R f d wspd wdir dpt agefac x).getD 0 0) dirs row ∧
    maskRow (fun t => !seaMask agefac wspd (cel f dpt) t) (dirs.map fun d => cos (D2R * (d - wdir))) row
        = List.zipWith (fun d x => (Gen.splPtm4 cos cel D2R f d wspd wdir dpt agefac x).getD 1 0) dirs row := by
  constructor <;>
  · unfold maskRow
    rw [List.zipWith_map_left]
    rfl

/-! ### PTM5 -/

/-- `ptm5` at a bin: part 0 = `where(freq >= fcut)`, part 1 = `where(freq <= fcut)` — the model's two masks -/
theorem genspl_ptm5_eq (f d fcut x : Rat) :
    Gen.splPtm5 f d fcut x
      = [ (if decide (fcut ≤ f) then x else 0), (if decide (f ≤ fcut) then x else 0) ] := rfl

/-- the same against the model's masked rows: the mask depends on the row's frequency only -/
theorem genspl_ptm5_row (f fcut : Rat) (dirs row : Vec) :
    maskRow ((fun x (_ : Rat) => decide (fcut ≤ x)) f) dirs row
        = List.zipWith (fun d x => (Gen.splPtm5 f d fcut x).getD 0 0) dirs row ∧
    maskRow ((fun x (_ : Rat) => decide (x ≤ fcut)) f) dirs row
        = List.zipWith (fun d x => (Gen.splPtm5 f d fcut x).getD 1 0) dirs row := ⟨rfl, rfl⟩

/-- the regridding decision of `ptm5` on a strictly increasing frequency axis = the model's `ptm5Base`: the spectrum is
    regridded iff `interpolate` and `fcut` is not a grid frequency (`len(freqs) > freq.size`), and then onto the grid with
    `fcut` inserted at its sorted position (`sorted(set(freq).union([fcut]))`) -/
theorem genspl_ptm5_grid_eq (f dirs : Vec) (e : Mat) (fcut : Rat) (interp : Bool) (hf : f.Pairwise (· < ·)) :
    Gen.splPtm5Grid f fcut interp =
      (if (ptm5Base f dirs e fcut interp).2.2.2 then some (ptm5Base f dirs e fcut interp).1 else none) := by
  unfold Gen.splPtm5Grid ptm5Base
  cases interp with
  | false => simp
  | true =>
    simp only [sortedUnion_single f fcut hf, insertU_sorted fcut f hf, Bool.true_and, if_true]
    by_cases hc : fcut ∈ f
    · simp [hc]
    · simp [hc]
      omega

/-! ### bounding boxes -/

/-- the four `bbox.get(key, default) or alt` of the first loop = the model's `effRect` (absent key → the default, which
    is itself replaced by `alt` when it is `0`; `None` → `alt`; `0` → `alt`, the falsy-zero behaviour as coded), then
    `fmin >= fmax` → `ValueError`, then `[fmin, dmin, fmax, dmax]` -/
theorem genspl_bbox_rect_eq (f d : Vec) (bx : Box) :
    Gen.splBboxRect f d (toDict bx) =
      (let r := effRect (vmin f) (vmax f) (vmin d) (vmax d) bx
       if decide (r.r ≤ r.l) then .error .valueError else .ok (rectList r)) := by
  have e1 : Spl.orElse (Spl.dictGet (toDict bx) "fmin" (Spl.amin f)) (Spl.amin f) = bx.fmin.get (vmin f) (vmin f) := by
    unfold toDict
    rw [List.append_assoc, List.append_assoc, orElse_get _ _ _ _ _ (by
      rw [List.find?_append, find_entry_ne _ _ _ (by decide), List.find?_append, find_entry_ne _ _ _ (by decide),
        find_entry_ne _ _ _ (by decide)]; rfl), amin_eq]
  have e2 : Spl.orElse (Spl.dictGet (toDict bx) "fmax" (Spl.amax f)) (Spl.amax f) = bx.fmax.get (vmax f) (vmax f) := by
    unfold toDict
    rw [List.append_assoc, List.append_assoc, dictGet_skip _ _ _ _ _ (by decide), orElse_get _ _ _ _ _ (by
      rw [List.find?_append, find_entry_ne _ _ _ (by decide), find_entry_ne _ _ _ (by decide)]; rfl), amax_eq]
  have e3 : Spl.orElse (Spl.dictGet (toDict bx) "dmin" (Spl.amin d)) (Spl.amin d) = bx.dmin.get (vmin d) (vmin d) := by
    unfold toDict
    rw [List.append_assoc, List.append_assoc, dictGet_skip _ _ _ _ _ (by decide), dictGet_skip _ _ _ _ _ (by decide),
      orElse_get _ _ _ _ _ (find_entry_ne _ _ _ (by decide)), amin_eq]
  have e4 : Spl.orElse (Spl.dictGet (toDict bx) "dmax" (Spl.amax d)) (Spl.amax d) = bx.dmax.get (vmax d) (vmax d) := by
    unfold toDict
    rw [List.append_assoc, List.append_assoc, dictGet_skip _ _ _ _ _ (by decide), dictGet_skip _ _ _ _ _ (by decide),
      dictGet_skip _ _ _ _ _ (by decide)]
    have := orElse_get "dmax" bx.dmax (Spl.amax d) (Spl.amax d) [] rfl
    rw [List.append_nil] at this
    rw [this, amax_eq]
  unfold Gen.splBboxRect
  simp only [e1, e2, e3, e4]
  rfl

/-- the first loop over all boxes: `ValueError` iff some rectangle has `fmax <= fmin`, else the rectangles in order -/
theorem genspl_bbox_rects_eq (f d : Vec) (boxes : List Box) :
    Gen.splBboxRects f d (boxes.map toDict) =
      (if (rectsOf f d boxes).any (fun r => decide (r.r ≤ r.l)) then .error .valueError
       else .ok ((rectsOf f d boxes).map rectList)) := by
  unfold Gen.splBboxRects rectsOf
  induction boxes with
  | nil => rfl
  | cons bx bs ih =>
    rw [List.map_cons, List.mapM_cons, genspl_bbox_rect_eq, ih]
    simp only [List.map_cons, List.any_cons]
    by_cases h1 : (effRect (vmin f) (vmax f) (vmin d) (vmax d) bx).r ≤ (effRect (vmin f) (vmax f) (vmin d) (vmax d) bx).l
    · simp [h1]; rfl
    · by_cases h2 : (List.map (effRect (vmin f) (vmax f) (vmin d) (vmax d)) bs).any (fun r => decide (r.r ≤ r.l)) = true
      · simp [h1, h2]; rfl
      · simp [h1, h2]; rfl

/-- `is_overlap` on the list form of two rectangles = the model's `overlap` -/
theorem genspl_is_overlap_eq (r1 r2 : Rect) : Gen.splIsOverlap (rectList r1) (rectList r2) = overlap r1 r2 := rfl

/-- the rejection loop `for rect1, rect2 in combinations(rectangles, 2): if is_overlap(rect1, rect2): raise ValueError`
    = the model's `anyOverlap` (every unordered pair, each once) -/
theorem genspl_bbox_overlap_eq (rs : List Rect) :
    Gen.splBboxOverlap (rs.map rectList) = (if anyOverlap rs then .error .valueError else .ok ()) := by
  unfold Gen.splBboxOverlap
  have h : (Spl.combinations2 (rs.map rectList)).any (fun p => Gen.splIsOverlap p.1 p.2) = anyOverlap rs := by
    induction rs with
    | nil => rfl
    | cons r rs ih =>
      rw [List.map_cons, Spl.combinations2, List.any_append, ih, List.any_map, List.any_map]
      rfl
  simp only [h]

/-- all decisions of `Partition.bbox` taken before any masking, in the model's order: the limits of each box (with
    defaults), `fmin >= fmax` → `ValueError`, any overlapping pair → `ValueError`, else the rectangles -/
theorem genspl_bbox_eq (f d : Vec) (boxes : List Box) :
    Gen.splBbox f d (boxes.map toDict) =
      (if (rectsOf f d boxes).any (fun r => decide (r.r ≤ r.l)) then .error .valueError
       else if anyOverlap (rectsOf f d boxes) then .error .valueError
       else .ok ((rectsOf f d boxes).map rectList)) := by
  unfold Gen.splBbox
  rw [genspl_bbox_rects_eq]
  by_cases h1 : (rectsOf f d boxes).any (fun r => decide (r.r ≤ r.l)) = true
  · simp [h1]
  · rw [if_neg h1, if_neg h1]
    show (match Gen.splBboxOverlap ((rectsOf f d boxes).map rectList) with
      | Except.error e => Except.error e
      | Except.ok _ => Except.ok ((rectsOf f d boxes).map rectList)) = _
    rw [genspl_bbox_overlap_eq]
    by_cases h2 : anyOverlap (rectsOf f d boxes) = true <;> simp [h2]

/-- `Split.bbox` raises exactly when the generated decisions raise, and then with the same exception class -/
theorem genspl_bbox_error_iff (f dirs : Vec) (e : Mat) (boxes : List Box) :
    (∃ out, bbox f dirs e boxes = .ok out) ↔ (∃ rs, Gen.splBbox f dirs (boxes.map toDict) = .ok rs) := by
  rw [genspl_bbox_eq]
  unfold bbox
  by_cases h1 : (rectsOf f dirs boxes).any (fun r => decide (r.r ≤ r.l)) = true
  · simp [h1]
  · by_cases h2 : anyOverlap (rectsOf f dirs boxes) = true <;> simp [h1, h2]

/-- the membership mask of one rectangle as generated = the model's `inRect`:
    `(freq >= fmin) & (freq <= fmax) & (dir >= dmin) & (dir <= dmax)`; the third loop appends one masked copy per
    rectangle in order; the last part is the complement of the union of the masks (`~masks`, `masks` starting at `False`) -/
theorem genspl_bbox_parts_eq (rs : List Rect) (f d x : Rat) :
    Gen.splBboxParts (rs.map rectList) f d x
      = rs.map (fun r => if inRect r f d then x else 0) ++ [if !inAny rs f d then x else 0] := by
  unfold Gen.splBboxParts
  have := foldl_parts (fun (rect : List Rat) =>
      (((decide (f ≥ getR rect 0) && decide (f ≤ getR rect 2)) && decide (d ≥ getR rect 1)) && decide (d ≤ getR rect 3)))
    (fun m => Spl.whereFill (0 : Rat) m x) (rs.map rectList) [] false
  simp only [] at this ⊢
  rw [this]
  simp only [List.nil_append, Bool.false_or, List.map_map, List.any_map]
  rfl

/-- consequence for the model's partitions: the generated per-bin values are the entries of `Split.bboxParts`'s masks
    (`maskRow (inRect r x)` on a row of frequency `x`) -/
theorem genspl_bbox_parts_row (rs : List Rect) (f : Rat) (dirs row : Vec) (k : Nat) (hk : k < rs.length) :
    maskRow (inRect (rs.getD k ⟨0, 0, 0, 0⟩) f) dirs row
      = List.zipWith (fun d x => (Gen.splBboxParts (rs.map rectList) f d x).getD k 0) dirs row := by
  unfold maskRow
  congr 1
  funext d x
  rw [genspl_bbox_parts_eq]
  simp only [List.getD_eq_getElem?_getD]
  rw [List.getElem?_append_left (by simpa using hk)]
  simp [hk]

/-- … and the last one is the complement -/
theorem genspl_bbox_complement_row (rs : List Rect) (f : Rat) (dirs row : Vec) :
    maskRow ((fun x t => !inAny rs x t) f) dirs row
      = List.zipWith (fun d x => (Gen.splBboxParts (rs.map rectList) f d x).getD rs.length 0) dirs row := by
  unfold maskRow
  congr 1
  funext d x
  rw [genspl_bbox_parts_eq]
  simp only [List.getD_eq_getElem?_getD]
  rw [List.getElem?_append_right (by simp)]
  simp

/-! ### `SpecArray.split` -/

/-- the argument checks: `fmax <= fmin` (both given) → `ValueError`, then `dmax <= dmin` (both given) → `ValueError` -/
theorem genspl_split_validate_eq (fmin fmax dmin dmax : Option Rat) :
    Gen.splSplitValidate fmin fmax dmin dmax =
      (if badOrder fmin fmax then .error .valueError else if badOrder dmin dmax then .error .valueError else .ok ()) := by
  have key : ∀ a b : Option Rat, (a.isSome && b.isSome && decide (Spl.oget a ≤ Spl.oget b)) = badOrder b a := by
    intro a b
    cases a <;> cases b <;> rfl
  unfold Gen.splSplitValidate
  simp only [key]

/-- … so the model's `split` fails with `ValueError` whenever the generated validation does -/
theorem genspl_split_validate_model (tol : Rat) (f : Vec) (dirs : Option Vec) (e : Mat) (fmin fmax dmin dmax : Option Rat)
    (interp : Bool) (h : Gen.splSplitValidate fmin fmax dmin dmax = .error .valueError) :
    split tol f dirs e fmin fmax dmin dmax interp = .error .valueError := by
  rw [genspl_split_validate_eq] at h
  unfold split
  by_cases h1 : badOrder fmin fmax = true
  · simp [h1]
  · by_cases h2 : badOrder dmin dmax = true
    · simp [h1, h2]
    · simp [h1, h2] at h

/-- `self._obj.sel(freq=slice(fmin, fmax))` keeps the model's band -/
theorem genspl_split_band_eq (fmin fmax : Option Rat) (x : Rat) :
    Gen.splSplitFreqBand fmin fmax x = inBand fmin fmax x := rfl

theorem genspl_split_band_rows (f : Vec) (e : Mat) (fmin fmax : Option Rat) :
    bandRows f e fmin fmax = (List.zip f e).filter (fun p => Gen.splSplitFreqBand fmin fmax p.1) := rfl

/-- the direction block: taken only when `dmin or dmax` is truthy (a limit `0` alone does not trigger it — exactly as
    coded), then `sortby` BEFORE the label slice; otherwise the stored columns -/
theorem genspl_split_dircols_eq (dmin dmax : Option Rat) (d : Vec) :
    Gen.splSplitDirCols true dmin dmax d = dirCols d dmin dmax := by
  unfold Gen.splSplitDirCols dirCols
  simp only [truthy_eq, sortIdx_eq, Bool.true_and]
  rfl

/-- a spectrum without direction dimension is never sliced in direction -/
theorem genspl_split_dircols_1d (dmin dmax : Option Rat) (d : Vec) :
    Gen.splSplitDirCols false dmin dmax d = List.range d.length := rfl

/-- "Interpolate at fmin" on the frequency labels = the model's `addLow`: nothing unless `interpolate and fmin is not
    None`; then `fmin` is put in FRONT when the slice is empty or its first label is farther than `tol` from `fmin` -/
theorem genspl_split_low_eq (tol : Rat) (f : Vec) (e : Mat) (fmin : Option Rat) (interp : Bool) (rows : List (Rat × Vec))
    (r : Vec) (hr : ∀ a, fmin = some a → interpFreq f e a = .ok r) :
    (addLow tol f e fmin interp rows).map (fun l => l.map (·.1)) = Gen.splSplitLow interp fmin tol (rows.map (·.1)) := by
  unfold Gen.splSplitLow addLow
  cases interp <;> cases fmin with
  | none => simp [Except.map]
  | some a =>
    first
    | (simp [Except.map]; done)
    | (cases rows with
       | nil => simp [hr a rfl, Spl.oget, Except.map]
       | cons p ps =>
         simp only [hr a rfl, Spl.oget, Spl.first, List.map_cons, List.headD_cons, Bool.true_and, Option.isSome_some,
           List.length_cons, Option.getD_some]
         by_cases h : tol < absR (p.1 - a)
         · simp [h, Except.map]
         · simp [h, Except.map])

/-- "Interpolate at fmax" = the model's `addHigh`: `IndexError` on an empty selection (`other.freq[-1]`), else `fmax`
    is APPENDED when the last label is farther than `tol` from it -/
theorem genspl_split_high_eq (tol : Rat) (f : Vec) (e : Mat) (fmax : Option Rat) (interp : Bool) (rows : List (Rat × Vec))
    (r : Vec) (hr : ∀ b, fmax = some b → interpFreq f e b = .ok r) :
    (addHigh tol f e fmax interp rows).map (fun l => l.map (·.1)) = Gen.splSplitHigh interp fmax tol (rows.map (·.1)) := by
  unfold Gen.splSplitHigh addHigh
  cases interp <;> cases fmax with
  | none => simp [Except.map]
  | some b =>
    first
    | (simp [Except.map]; done)
    | (rcases List.eq_nil_or_concat rows with h | ⟨ps, p, h⟩
       · subst h; simp [Except.map]
       · subst h
         simp only [hr b rfl, Spl.oget, Spl.last, Bool.true_and, Option.isSome_some, Option.getD_some]
         by_cases hh : tol < absR (p.1 - b)
         · simp [hh, Except.map]
         · simp [hh, Except.map])

/-- the whole frequency side of `split`, blocks in source order: the model's output frequencies are the generated ones
    (whenever the two possible `_interp_freq` calls succeed — `_interp_freq` is pinned text, its `ValueError` for a
    cut-off outside the axis is the model's reading, not regenerated), errors included -/
theorem genspl_split_freq_eq (f : Vec) (dirs : Option Vec) (e : Mat) (fmin fmax dmin dmax : Option Rat) (interp : Bool)
    (hlen : f.length ≤ e.length) (r1 r2 : Vec)
    (h1 : ∀ a, fmin = some a → interpFreq f e a = .ok r1) (h2 : ∀ b, fmax = some b → interpFreq f e b = .ok r2) :
    (split Gen.splSplit_tol f dirs e fmin fmax dmin dmax interp).map (·.freq)
      = Gen.splSplitFreq f fmin fmax dmin dmax interp := by
  have hrows : (bandRows f e fmin fmax).map (·.1) = f.filter (Gen.splSplitFreqBand fmin fmax) := by
    unfold bandRows
    have hz : (List.zip f e).map (·.1) = f := by
      rw [List.map_fst_zip]; exact hlen
    have : ((List.zip f e).filter (fun p => inBand fmin fmax p.1)).map (·.1)
        = ((List.zip f e).map (·.1)).filter (inBand fmin fmax) := by
      rw [List.filter_map]; rfl
    rw [this, hz]; rfl
  have hlow := genspl_split_low_eq Gen.splSplit_tol f e fmin interp (bandRows f e fmin fmax) r1 h1
  unfold Gen.splSplitFreq split
  rw [genspl_split_validate_eq]
  by_cases hb1 : badOrder fmin fmax = true
  · simp [hb1, Except.map]
  · by_cases hb2 : badOrder dmin dmax = true
    · simp [hb1, hb2, Except.map]
    · simp only [hb1, hb2, if_false, Bool.false_eq_true]
      rw [← hrows, ← hlow]
      cases hL : addLow Gen.splSplit_tol f e fmin interp (bandRows f e fmin fmax) with
      | error er => simp [Except.map]
      | ok rows1 =>
        have hhigh := genspl_split_high_eq Gen.splSplit_tol f e fmax interp rows1 r2 h2
        simp only [Except.map]
        rw [← hhigh]
        cases hH : addHigh Gen.splSplit_tol f e fmax interp rows1 with
        | error er => simp [Except.map]
        | ok rows2 => cases dirs <;> simp [Except.map]

/-- … and its direction side: the kept stored columns are the generated ones -/
theorem genspl_split_cols_eq (tol : Rat) (f d : Vec) (e : Mat) (fmin fmax dmin dmax : Option Rat) (interp : Bool)
    (out : SplitOut) (h : split tol f (some d) e fmin fmax dmin dmax interp = .ok out) :
    out.cols = Gen.splSplitDirCols true dmin dmax d ∧ out.dirs = some (pickV (Gen.splSplitDirCols true dmin dmax d) d) := by
  rw [genspl_split_dircols_eq]
  unfold split at h
  split at h
  · cases h
  · split at h
    · cases h
    · split at h
      · cases h
      · split at h
        · cases h
        · simp only [Except.ok.injEq] at h
          subst h
          exact ⟨rfl, rfl⟩

/-! ### the model's matrix-level functions expressed through the generated per-bin kernels -/

/-- `Split.ptm4` with the celerity table `celerity(freq, dpt)` and the cosine table `cos(D2R * (dir - wdir))`: sorted
    directions, and both partitions are the generated per-bin values (part 0 / part 1) on the sorted spectrum -/
theorem genspl_ptm4_model (cos : Rat → Rat) (cel : Rat → Rat → Rat) (D2R wspd wdir dpt agefac : Rat) (f dirs : Vec) (e : Mat) :
    (ptm4 (f.map (cel · dpt)) dirs (dirs.map fun d => cos (D2R * (d - wdir))) agefac wspd e) =
      (pickV (sortIdx dirs) dirs,
       List.zipWith (fun fr row => List.zipWith (fun d x => (Gen.splPtm4 cos cel D2R fr d wspd wdir dpt agefac x).getD 0 0)
         (pickV (sortIdx dirs) dirs) row) f (pickCols (sortIdx dirs) e),
       List.zipWith (fun fr row => List.zipWith (fun d x => (Gen.splPtm4 cos cel D2R fr d wspd wdir dpt agefac x).getD 1 0)
         (pickV (sortIdx dirs) dirs) row) f (pickCols (sortIdx dirs) e)) := by
  have hpick : pickV (sortIdx dirs) (dirs.map fun d => cos (D2R * (d - wdir)))
      = (pickV (sortIdx dirs) dirs).map fun d => cos (D2R * (d - wdir)) := by
    unfold pickV
    rw [List.map_map]
    apply List.map_congr_left
    intro j hj
    have hlt := (mem_sortIdx dirs j).mp hj
    simp [getR, List.getD_eq_getElem?_getD, hlt]
  unfold ptm4 whereM
  simp only [hpick, List.zipWith_map_left]
  have e1 : ∀ fr row, maskRow (seaMask agefac wspd (cel fr dpt))
      (List.map (fun d => cos (D2R * (d - wdir))) (pickV (sortIdx dirs) dirs)) row = _ :=
    fun fr row => (genspl_ptm4_row cos cel D2R fr wspd wdir dpt agefac _ row).1
  have e2 : ∀ fr row, maskRow (fun t => !seaMask agefac wspd (cel fr dpt) t)
      (List.map (fun d => cos (D2R * (d - wdir))) (pickV (sortIdx dirs) dirs)) row = _ :=
    fun fr row => (genspl_ptm4_row cos cel D2R fr wspd wdir dpt agefac _ row).2
  simp only [e1, e2]

/-- `Split.ptm5`: both partitions are the generated per-bin values on the SAME (possibly regridded, rescaled) spectrum
    `s`, over the output axes -/
theorem genspl_ptm5_model (thr q : Rat) (f dirs : Vec) (e : Mat) (fcut : Rat) (interp : Bool) :
    ∃ s : Mat,
      (ptm5 thr q f dirs e fcut interp).2.2.1 =
        List.zipWith (fun fr row => List.zipWith (fun d x => (Gen.splPtm5 fr d fcut x).getD 0 0)
          (ptm5 thr q f dirs e fcut interp).2.1 row) (ptm5 thr q f dirs e fcut interp).1 s ∧
      (ptm5 thr q f dirs e fcut interp).2.2.2 =
        List.zipWith (fun fr row => List.zipWith (fun d x => (Gen.splPtm5 fr d fcut x).getD 1 0)
          (ptm5 thr q f dirs e fcut interp).2.1 row) (ptm5 thr q f dirs e fcut interp).1 s := by
  unfold ptm5
  rcases ptm5Base f dirs e fcut interp with ⟨f', d', e', rg⟩
  exact ⟨_, rfl, rfl⟩

/-- `Split.bbox`: when the model returns, the generated decisions return the model's rectangles, and part `k`
    (`k < len(boxes)`: box `k`; `k = len(boxes)`: the complement) is the generated per-bin value `k` on the sorted spectrum -/
theorem genspl_bbox_model (f dirs : Vec) (e : Mat) (boxes : List Box) (d' : Vec) (parts : List Mat)
    (h : bbox f dirs e boxes = .ok (d', parts)) :
    Gen.splBbox f dirs (boxes.map toDict) = .ok ((rectsOf f dirs boxes).map rectList) ∧
    d' = pickV (sortIdx dirs) dirs ∧ parts.length = boxes.length + 1 ∧
    ∀ k, k ≤ boxes.length → parts.getD k [] =
      List.zipWith (fun fr row => List.zipWith (fun d x =>
        (Gen.splBboxParts ((rectsOf f dirs boxes).map rectList) fr d x).getD k 0) d' row) f (pickCols (sortIdx dirs) e) := by
  rw [genspl_bbox_eq]
  unfold bbox at h
  by_cases h1 : (rectsOf f dirs boxes).any (fun r => decide (r.r ≤ r.l)) = true
  · simp [h1] at h
  · by_cases h2 : anyOverlap (rectsOf f dirs boxes) = true
    · simp [h1, h2] at h
    · simp only [h1, h2, if_false, Bool.false_eq_true, Except.ok.injEq, Prod.mk.injEq] at h ⊢
      obtain ⟨hd, hp⟩ := h
      subst hd hp
      have hlen : (rectsOf f dirs boxes).length = boxes.length := by simp [rectsOf]
      refine ⟨trivial, rfl, by simp [bboxParts, hlen], ?_⟩
      intro k hk
      unfold bboxParts whereM
      rcases Nat.lt_or_eq_of_le hk with hlt | heq
      · rw [List.getD_eq_getElem?_getD, List.getElem?_append_left (by simpa [hlen] using hlt)]
        simp only [List.getElem?_map]
        have hkr : k < (rectsOf f dirs boxes).length := by simpa [hlen] using hlt
        simp only [List.getElem?_eq_getElem hkr, Option.map_some, Option.getD_some]
        congr 1
        funext fr row
        have := genspl_bbox_parts_row (rectsOf f dirs boxes) fr (pickV (sortIdx dirs) dirs) row k hkr
        simpa [List.getD_eq_getElem?_getD, List.getElem?_eq_getElem hkr] using this
      · subst heq
        rw [List.getD_eq_getElem?_getD, List.getElem?_append_right (by simp [hlen])]
        simp only [List.length_map, hlen, Nat.sub_self, List.getElem?_cons_zero, Option.getD_some]
        congr 1
        funext fr row
        have := genspl_bbox_complement_row (rectsOf f dirs boxes) fr (pickV (sortIdx dirs) dirs) row
        rw [hlen] at this
        exact this

/-! ### consequences on the regenerated text -/

/-- `ptm4` as coded assigns every bin to exactly one of wind sea / swell and loses nothing -/
theorem genspl_ptm4_exact (cos : Rat → Rat) (cel : Rat → Rat → Rat) (D2R f d wspd wdir dpt agefac x : Rat) :
    ∃ a b, Gen.splPtm4 cos cel D2R f d wspd wdir dpt agefac x = [a, b] ∧ a + b = x ∧ (a = 0 ∨ b = 0) := by
  rw [genspl_ptm4_eq]
  by_cases h : seaMask agefac wspd (cel f dpt) (cos (D2R * (d - wdir))) = true
  · exact ⟨x, 0, by simp [h], by simp, Or.inr rfl⟩
  · exact ⟨0, x, by simp [h], by simp, Or.inl rfl⟩

/-- `ptm5` as coded: off the cut-off every bin is in exactly one part; a bin AT the cut-off frequency is in both
    (`>=` and `<=`), the documented double counting at `fcut` -/
theorem genspl_ptm5_exact (f d fcut x : Rat) :
    ∃ a b, Gen.splPtm5 f d fcut x = [a, b] ∧ (f ≠ fcut → a + b = x ∧ (a = 0 ∨ b = 0)) ∧ (f = fcut → a = x ∧ b = x) := by
  rw [genspl_ptm5_eq]
  by_cases h1 : fcut ≤ f <;> by_cases h2 : f ≤ fcut
  · refine ⟨x, x, by simp [h1, h2], fun hne => absurd (Rat.le_antisymm h2 h1) hne, fun _ => ⟨rfl, rfl⟩⟩
  · refine ⟨x, 0, by simp [h1, h2], fun _ => ⟨by simp, Or.inr rfl⟩, fun he => absurd (le_of_eq he) h2⟩
  · refine ⟨0, x, by simp [h1, h2], fun _ => ⟨by simp, Or.inl rfl⟩, fun he => absurd (le_of_eq he.symm) h1⟩
  · exact absurd (Rat.le_total.resolve_left h1) h2

/-! ### literals, defaults, signatures, order of the parts, plumbing (pinned as text) -/

/-- `agefac` defaults to `DEFAULTS["agefac"]` = the double `1.7`; `tol = 1e-10` = the model's `splitTol` -/
theorem genspl_pins_literals :
    Gen.splPtm4_agefac_default = (7656119366529843 : Rat) / 4503599627370496 ∧
    Gen.splPtm4_agefac_default * 10 - 17 < 1 / 100000000000000 ∧ 17 - Gen.splPtm4_agefac_default * 10 < 1 / 100000000000000 ∧
    Gen.splSplit_tol = splitTol := by
  refine ⟨by decide +kernel, by decide +kernel, by decide +kernel, by decide +kernel⟩

theorem genspl_pins_signatures :
    Gen.splWaveage_sig = [("freq", ""), ("dir", ""), ("wspd", ""), ("wdir", ""), ("dpt", ""), ("agefac", "")] ∧
    Gen.splIsOverlap_sig = [("rect1", ""), ("rect2", "")] ∧
    Gen.splPtm4_sig = [("self", ""), ("wspd", ""), ("wdir", ""), ("dpt", ""), ("agefac", "DEFAULTS['agefac']")] ∧
    Gen.splPtm5_sig = [("self", ""), ("fcut", ""), ("interpolate", "True")] ∧
    Gen.splBbox_sig = [("self", ""), ("bboxes", "")] ∧
    Gen.splSplit_sig = [("self", ""), ("fmin", "None"), ("fmax", "None"), ("dmin", "None"), ("dmax", "None"),
      ("interpolate", "True"), ("rechunk", "True")] ∧
    Gen.splPtm5_regrid_sig = "dset, freq=None, dir=None, maintain_m0=True" := by
  exact ⟨rfl, rfl, rfl, rfl, rfl, rfl, rfl⟩

/-- the names the translated text relies on are bound by exactly these imports; `D2R` is `np.pi / 180.0` -/
theorem genspl_pins_imports :
    Gen.splWaveage_D2R_src = "np.pi / 180.0" ∧ Gen.splWaveage_imports = ["import numpy as np"] ∧
    Gen.splPtm4_imports = ["import xarray as xr", "from wavespectra.core.utils import waveage"] ∧
    Gen.splPtm5_imports = ["import xarray as xr", "from wavespectra.core.utils import regrid_spec"] ∧
    Gen.splBbox_imports = ["from itertools import combinations", "import xarray as xr",
      "from wavespectra.core.utils import is_overlap"] := by
  exact ⟨rfl, rfl, rfl, rfl, rfl⟩

/-- every method sorts by `dir` then `freq` before masking -/
theorem genspl_pins_sort :
    Gen.splPtm4_sort = ["dir", "freq"] ∧ Gen.splPtm5_sort = ["dir", "freq"] ∧ Gen.splBbox_sort = ["dir", "freq"] := by
  exact ⟨rfl, rfl, rfl⟩

/-- the statements of `ptm4`, `ptm5`, `bbox` that are NOT translated (xarray plumbing: sorting, metadata, attributes) -/
theorem genspl_pins_plumbing_partition :
    Gen.splPtm4_plumbing = ["dsout = self.dset.sortby('dir').sortby('freq')", "dsout = self._set_metadata(dsout)",
      "dsout.attrs.update({'part0': 'wind sea', 'part1': 'swell'})"] ∧
    Gen.splPtm5_plumbing = ["dsout = self.dset.sortby('dir').sortby('freq')", "dsout = self._set_metadata(dsout)",
      "dsout.attrs.update({'part0': 'sea', 'part1': 'swell'})"] ∧
    Gen.splBbox_plumbing = ["ds = self.dset.sortby('dir').sortby('freq')", "dsout = self._set_metadata(dsout)",
      "for ind, rect in enumerate(rectangles):\n    fmin, dmin, fmax, dmax = rect\n    dsout.attrs.update({f'part{ind}': f'fmin={fmin}, fmax={fmax}, dmin={dmin}, dmax={dmax}'})",
      "dsout.attrs.update({f'part{len(rectangles)}': 'complement'})"] := by
  exact ⟨rfl, rfl, rfl⟩

/-- the statements of `split` that are NOT translated (attributes, chunking, the return) and `_interp_freq` (the model's
    `interpFreq` is its hand-written reading; its text is pinned, not translated) -/
theorem genspl_pins_plumbing_split :
    Gen.splSplit_plumbing = ["other.freq.attrs = self._obj[attrs.FREQNAME].attrs", "chunks = {attrs.FREQNAME: -1}",
      "if rechunk:\n    other = other.chunk(chunks)", "return other"] ∧
    Gen.splSplit_dir_plumbing = ["other[attrs.DIRNAME].attrs = self._obj[attrs.DIRNAME].attrs",
      "chunks.update({attrs.DIRNAME: -1})"] ∧
    Gen.splSplit_interp_freq_src = ["if not self.freq.min() < fint < self.freq.max():\n    raise ValueError(f'fint must be within freq range {self.freq.values}, got {fint}')",
      "ifreq = self.freq.searchsorted(fint)", "df = np.diff(self.freq.isel(freq=[ifreq - 1, ifreq]))[0]",
      "right = self._obj.isel(freq=[ifreq]) * (fint - self.freq[ifreq - 1])",
      "left = self._obj.isel(freq=[ifreq - 1]) * (self.freq[ifreq] - fint)",
      "right = right.assign_coords({'freq': [fint]})", "left = left.assign_coords({'freq': [fint]})",
      "return (left + right) / df"] := by
  exact ⟨rfl, rfl, rfl⟩

end WS.C09

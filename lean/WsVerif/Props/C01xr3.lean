import WsVerif.Model.Stats
import WsVerif.Model.Consts
import WsVerif.Model.Regrid
import WsVerif.Model.XrTwins3
import WsVerif.Gen.XrKernels3
import WsVerif.Lemmas.XrBridge3
import WsVerif.Props.C01
import WsVerif.Props.C01xr
/-!
# C01 — T-tier, xarray level, part 3: the remaining derived statistics of `SpecArray` are the model

`Gen/XrKernels3.lean` is regenerated on every run by `harness/translate_xr3.py` from the bodies of `SpecArray.uss_x`, `uss_y`,
`uss`, `mss`, `rmse`, `celerity`, `wavelen`, `rotate` (wavespectra/specarray.py).  Each theorem below identifies one generated
definition with the hand-written model for ALL inputs: the Stokes-drift sums with `Stats.ussSum` on the weight table
`XrT3.fk` (`fk_i = 4π f_i k_i`, deep-water branch or `wavenuma`), `mss` with `Stats.mss` on `k²`, `rmse` with the two radicands
over `Stats.toEnergy`, the dispersion accessors with the regenerated (and separately bridged) `Gen.celerity / Gen.wavelen`, and
`rotate` with `Regrid.rotate`.
-/
namespace WS.C01
open WS WS.Stats

/-! ### the wavenumber table and the Stokes weight -/

/-- signatures: `depth=None`, `theta=90.0`; accessor names of the dispersion accessors -/
theorem genxr3_defaults :
    Gen.xrUssX_depth_default = none ∧ Gen.xrUssY_depth_default = none ∧ Gen.xrUss_depth_default = none ∧
    Gen.xrMss_depth_default = none ∧ Gen.xrCelerity_depth_default = none ∧ Gen.xrWavelen_depth_default = none ∧
    Gen.xrUssX_theta_default = 90 ∧ Gen.xrUssY_theta_default = 90 ∧
    Gen.xrCelerity_name = "celerity" ∧ Gen.xrWavelen_name = "wavelength" := by decide +kernel

/-- the 1-D guard of `uss_x` / `uss_y` (both messages say `uss_x`, as coded) -/
theorem genxr3_uss_guards :
    Gen.xrUssX_guards = [("self.dir is None", "raise ValueError('Cannot calculate uss_x from 1d, frequency spectra.')")] ∧
    Gen.xrUssY_guards = [("self.dir is None", "raise ValueError('Cannot calculate uss_x from 1d, frequency spectra.')")] := by
  decide +kernel

/-- the element-wise divisions by a computed vector (read as total division) are exactly the two of the deep-water branch -/
theorem genxr3_divisions :
    Gen.xrUssX_divisions = ["1.0 / self.freq", "2.0 * np.pi / L"] ∧ Gen.xrUssY_divisions = ["1.0 / self.freq", "2.0 * np.pi / L"] ∧
    Gen.xrUss_divisions = ["1.0 / self.freq", "2.0 * np.pi / L"] ∧ Gen.xrMss_divisions = ["1.0 / self.freq", "2.0 * np.pi / L"] := by
  decide +kernel

/-- the tables of `uss_x` / `uss_y` are `cos / sin` of `D2R·(180 + θ − dir_j)` -/
theorem genxr3_uss_tables (pi theta d : ℚ) :
    Gen.xrUssX_cp_fn = "np.cos(D2R * ·)" ∧ Gen.xrUssY_sp_fn = "np.sin(D2R * ·)" ∧ Gen.xr_D2R pi = pi / 180 ∧
    Gen.xrUssX_cp_arg theta d = XrT3.ussArg theta d ∧ Gen.xrUssY_sp_arg theta d = XrT3.ussArg theta d := by
  refine ⟨by decide +kernel, by decide +kernel, rfl, rfl, rfl⟩

/-- with the default `theta = 90` the argument is the `270° − θ_j` of `momd` / `crsd` -/
theorem genxr3_uss_arg_default (d : ℚ) :
    Gen.xrUssX_cp_arg Gen.xrUssX_theta_default d = Stats.momArg d ∧
    Gen.xrUssY_sp_arg Gen.xrUssY_theta_default d = Stats.momArg d := by
  unfold Gen.xrUssX_cp_arg Gen.xrUssY_sp_arg Gen.xrUssX_theta_default Gen.xrUssY_theta_default Stats.momArg
  constructor <;> ring

/-- the twin wavenumber table in closed form: deep water `k_i = 2π / (1.56·(1/f_i)²)`, else the model's `wavenuma` -/
theorem genxr3_waveK_closed (pi : ℚ) (sqrt : ℚ → ℚ) (f : Vec) :
    XrT3.waveK pi sqrt f none = f.map (fun x => 2 * pi / (Consts.deep * (1 / x) ^ 2)) ∧
    ∀ h, XrT3.waveK pi sqrt f (some h) = f.map fun x => Dispersion.wavenuma pi sqrt x h := by
  refine ⟨?_, fun h => rfl⟩
  simp only [XrT3.waveK, List.map_map, Function.comp_def]

/-- the twin Stokes weight in closed form: `fk_i = 4π f_i k_i` -/
theorem genxr3_fk_closed (pi : ℚ) (sqrt : ℚ → ℚ) (f : Vec) (depth : Option ℚ) :
    XrT3.fk pi sqrt f depth = List.zipWith (fun x k => 4 * pi * x * k) f (XrT3.waveK pi sqrt f depth) := by
  simp only [XrT3.fk, List.zipWith_map_left]

/-! ### Stokes drift -/

/-- `uss_x = (dd·fk·cos·E·df).sum([freq, dir])` is the model's `ussSum` on the weight `fk_i = 4π f_i k_i` -/
theorem genxr3_uss_x_eq (pi : ℚ) (sqrt : ℚ → ℚ) (f d : Vec) (E : Mat) (ddv : ℚ) (depth : Option ℚ) (theta : ℚ) (cp : Vec) :
    Gen.xrUssX pi sqrt f d E (df f) ddv depth theta cp = ussSum ddv (XrT3.fk pi sqrt f depth) cp f E := by
  cases depth <;> simp only [Gen.xrUssX, gen_wavenuma_eq, uss_outer_eq, ussSum, XrT3.fk, XrT3.waveK, Consts.deep]

/-- `uss_y`: the same sum against the sin table -/
theorem genxr3_uss_y_eq (pi : ℚ) (sqrt : ℚ → ℚ) (f d : Vec) (E : Mat) (ddv : ℚ) (depth : Option ℚ) (theta : ℚ) (sp : Vec) :
    Gen.xrUssY pi sqrt f d E (df f) ddv depth theta sp = ussSum ddv (XrT3.fk pi sqrt f depth) sp f E := by
  cases depth <;> simp only [Gen.xrUssY, gen_wavenuma_eq, uss_outer_eq, ussSum, XrT3.fk, XrT3.waveK, Consts.deep]

/-- `uss` (no direction table) is `Σ_i fk_i·oned_i·Δf_i`: the shape of `mss` with `fk` in the place of `k²` — hypothesis-free -/
theorem genxr3_uss_eq_mss (pi : ℚ) (sqrt : ℚ → ℚ) (f d : Vec) (E : Mat) (ddv : ℚ) (depth : Option ℚ) :
    Gen.xrUss pi sqrt f d E (df f) ddv depth = mss (XrT3.fk pi sqrt f depth) f (oned ddv E) := by
  cases depth <;> simp only [Gen.xrUss, gen_wavenuma_eq, uss_plain_eq, mss, oned, XrT3.fk, XrT3.waveK, Consts.deep]

/-- `uss` is the model's `ussSum` against a table of ones (what the driver's `stats` operation computes), for a rectangular
    spectrum (every row as long as the direction axis) -/
theorem genxr3_uss_eq (pi : ℚ) (sqrt : ℚ → ℚ) (f d : Vec) (E : Mat) (ddv : ℚ) (depth : Option ℚ)
    (h : ∀ r ∈ E, r.length = d.length) :
    Gen.xrUss pi sqrt f d E (df f) ddv depth = ussSum ddv (XrT3.fk pi sqrt f depth) (d.map fun _ => (1 : ℚ)) f E := by
  rw [genxr3_uss_eq_mss]
  have hm : (d.map fun _ => (1 : ℚ)) = List.replicate d.length 1 := by
    induction d with
    | nil => rfl
    | cons a d ih => simp [List.replicate_succ]
  rw [hm]
  simp only [mss, oned, ussSum]
  exact uss_ones_eq ddv _ _ E d.length (fun r hr => le_of_eq (h r hr))

/-- the hypothesis of `genxr3_uss_eq` is satisfiable, and the value is the plain double sum -/
example : (∀ r ∈ ([[1, 2], [0, 3]] : Mat), r.length = ([350, 10] : Vec).length) ∧
    Gen.xrUss 3 (fun x => x) [1/2, 1] [350, 10] [[1, 2], [0, 3]] (df [1/2, 1]) 20 none =
      ussSum 20 (XrT3.fk 3 (fun x => x) [1/2, 1] none) [1, 1] [1/2, 1] [[1, 2], [0, 3]] := by decide +kernel

/-! ### mean square slope -/

/-- `mss = (k²·Sf·df).sum(freq)` is the model's `mss` on the squared wavenumber table -/
theorem genxr3_mss_eq (pi : ℚ) (sqrt : ℚ → ℚ) (f d : Vec) (E : Mat) (ddv : ℚ) (depth : Option ℚ) :
    Gen.xrMss pi sqrt f d E (df f) ddv depth = mss (XrT3.waveK2 pi sqrt f depth) f (oned ddv E) := by
  cases depth <;> simp only [Gen.xrMss, gen_wavenuma_eq, genxr_oned_eq, mss, XrT3.waveK2, XrT3.waveK, Consts.deep]

/-- `mss_eq_spec` on the regenerated function: the published double sum `Σ_i Σ_j k_i² E_ij Δf_i Δθ` -/
theorem genxr3_mss_eq_spec (pi : ℚ) (sqrt : ℚ → ℚ) (f d : Vec) (E : Mat) (ddv : ℚ) (depth : Option ℚ) :
    Gen.xrMss pi sqrt f d E (df f) ddv depth =
      dsum ddv (List.zipWith (· * ·) (XrT3.waveK2 pi sqrt f depth) (df f)) E := by
  rw [genxr3_mss_eq, mss_eq_spec]

/-! ### `rmse` -/

theorem genxr3_spec_dims_src :
    Gen.xrSpecDims_src = "(self) return [d for d in self._obj.dims if d in [attrs.FREQNAME, attrs.DIRNAME]]" := by decide +kernel

/-- `rmse = sqrt(Σ(e0−e1)²) / sqrt((Σ e0)²)` over `to_energy` of both spectra, guarded division -/
theorem genxr3_rmse_eq (sqrt : ℚ → ℚ) (f d : Vec) (E E' : Mat) (ddv : ℚ) :
    Gen.xrRmse sqrt f d E (df f) ddv E' = XrT3.rmse sqrt (toEnergy ddv f E) (toEnergy ddv f E') := by
  simp only [Gen.xrRmse, genxr_to_energy_eq, XrT3.rmse, XrT3.rmseNum, XrT3.rmseDen, XrT3.sumM]

/-- the two radicands, spelled out -/
theorem genxr3_rmse_radicands (sqrt : ℚ → ℚ) (f d : Vec) (E E' : Mat) (ddv : ℚ) :
    Gen.xrRmse sqrt f d E (df f) ddv E' =
      divOpt (sqrt (XrT3.rmseNum (toEnergy ddv f E) (toEnergy ddv f E'))) (sqrt (XrT3.sumM (toEnergy ddv f E) ^ 2)) := by
  rw [genxr3_rmse_eq]; rfl

/-- a spectrum against itself: the numerator's radicand is `0` -/
theorem genxr3_rmse_self_num (e : Mat) : XrT3.rmseNum e e = 0 := by
  unfold XrT3.rmseNum XrT3.sumM
  induction e with
  | nil => rfl
  | cons r e ih =>
    simp only [List.zipWith_cons_cons, List.map_cons, List.sum_cons, ih, add_zero]
    induction r with
    | nil => rfl
    | cons x r ihr => simp only [List.zipWith_cons_cons, List.map_cons, List.sum_cons, ihr]; ring

/-! ### dispersion accessors -/

/-- `SpecArray.celerity(depth)` = the regenerated `utils.celerity` on every frequency, `depth` forwarded -/
theorem genxr3_celerity_eq (pi : ℚ) (sqrt : ℚ → ℚ) (f d : Vec) (E : Mat) (dfv : Vec) (ddv : ℚ) (depth : Option ℚ) :
    Gen.xrCelerity pi sqrt f d E dfv ddv depth = f.map fun x => Gen.celerity pi sqrt x depth := rfl

theorem genxr3_celerity_model (pi : ℚ) (sqrt : ℚ → ℚ) (f d : Vec) (E : Mat) (dfv : Vec) (ddv : ℚ) (depth : Option ℚ) :
    Gen.xrCelerity pi sqrt f d E dfv ddv depth = f.map fun x => Dispersion.celerity pi sqrt x depth := by
  simp only [Gen.xrCelerity, gen_celerity_eq]

/-- `SpecArray.wavelen(depth)` = the regenerated `utils.wavelen` on every frequency, `depth` forwarded -/
theorem genxr3_wavelen_eq (pi : ℚ) (sqrt : ℚ → ℚ) (f d : Vec) (E : Mat) (dfv : Vec) (ddv : ℚ) (depth : Option ℚ) :
    Gen.xrWavelen pi sqrt f d E dfv ddv depth = f.map fun x => Gen.wavelen pi sqrt x depth := rfl

theorem genxr3_wavelen_model (pi : ℚ) (sqrt : ℚ → ℚ) (f d : Vec) (E : Mat) (dfv : Vec) (ddv : ℚ) (depth : Option ℚ) :
    Gen.xrWavelen pi sqrt f d E dfv ddv depth = f.map fun x => Dispersion.wavelen pi sqrt x depth := by
  simp only [Gen.xrWavelen, gen_wavelen_eq]

/-! ### `rotate` -/

/-- for EVERY reading `g` of `regrid_spec`: `rotate` relabels the directions with `Regrid.relabel` and calls
    `g` with no target frequencies, the ORIGINAL directions as target and `maintain_m0 = True` (the default read from
    `core/utils.py`) -/
theorem genxr3_rotate_call {α : Type} (g : Vec → Vec → Mat → Option Vec → Option Vec → Bool → α)
    (f d : Vec) (E : Mat) (dfv : Vec) (ddv angle : ℚ) :
    Gen.xrRotate g f d E dfv ddv angle = g f (Regrid.relabel d angle) E none (some d) true := by
  simp only [Gen.xrRotate, Regrid.relabel, List.map_map, Function.comp_def]

/-- with the model of `regrid_spec` it is the model's `Regrid.rotate` -/
theorem genxr3_rotate_eq (thr q : ℚ) (f d : Vec) (E : Mat) (dfv : Vec) (ddv angle : ℚ) :
    Gen.xrRotate (fun sf sd e tf td m => Regrid.regrid thr q sf (some sd) e tf td m) f d E dfv ddv angle =
      Regrid.rotate thr q f d E angle := by
  rw [genxr3_rotate_call]; rfl

/-! ### with the regenerated bin widths -/

/-- `uss_x` with the regenerated `df` / `dd` -/
theorem genxr3_uss_x_composed (pi : ℚ) (sqrt : ℚ → ℚ) (f d : Vec) (E : Mat) (depth : Option ℚ) (theta : ℚ) (cp : Vec)
    (h : f ≠ []) :
    Gen.xrUssX pi sqrt f d E (Gen.xrDf f) (Gen.xrDd d) depth theta cp =
      ussSum (Stats.dd (some d)) (XrT3.fk pi sqrt f depth) cp f E := by
  rw [genxr_df_eq f h, genxr_dd_eq, genxr3_uss_x_eq]

/-- non-vacuity: 2×2 spectrum, deep water, `pi := 3`: `k = 2·3/(1.56·(1/f)²)` -/
example : ([1/2, 1] : Vec) ≠ [] ∧
    Gen.xrUssX 3 (fun x => x) [1/2, 1] [350, 10] [[1, 2], [0, 3]] (Gen.xrDf [1/2, 1]) (Gen.xrDd [350, 10]) none 90 [1/2, -1] =
      20 * (4 * 3 * (1/2) * (6 / (Consts.deep * 4))) * (1/2) * ((1/2) * 1 + (-1) * 2)
        + 20 * (4 * 3 * 1 * (6 / Consts.deep)) * (1/2) * ((1/2) * 0 + (-1) * 3) := by decide +kernel

end WS.C01

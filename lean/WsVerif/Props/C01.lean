import WsVerif.Model.Stats
import WsVerif.Lemmas.Sums
import WsVerif.Model.Consts
import WsVerif.Gen.Lits
import WsVerif.Gen.NpKernels
import WsVerif.Model.NpTwins
import WsVerif.Lemmas.NpBridge
import WsVerif.Model.Dispersion
/-!
# C01 — integrated parameters equal their defining integrals

Property theorems only.  `Stats.*` is the model that mirrors the staging of `SpecArray`
(integrate over direction, then over frequency); `Stats.specMom`/`specDirMom`/`dsum` are the published
definitions written as plain double sums over bins with the dataset's own `Δf_i`, `Δθ`.
All statements hold for every number of frequencies and directions and every list of values.
-/
namespace WS.C01
open WS WS.Stats

/-- direction-integrated spectrum, bin by bin: `oned_i = Δθ · Σ_j E_ij` -/
theorem oned_get (ddv : ℚ) (e : Mat) (i : Nat) (h : i < e.length) :
    (oned ddv e)[i]'(by simpa [oned] using h) = ddv * (e[i]).sum := by
  simp [oned]

/-- core rearrangement: weighting the direction-integrated spectrum equals the double sum -/
theorem weighted_oned_eq_dsum (ddv : ℚ) (w : Vec) (e : Mat) :
    (List.zipWith (· * ·) w (oned ddv e)).sum = dsum ddv w e := by
  unfold dsum oned
  induction e generalizing w with
  | nil => simp
  | cons r e ih =>
    cases w with
    | nil => simp
    | cons a w =>
      simp only [List.map_cons, List.zipWith_cons_cons, List.sum_cons, ih]
      have : (r.map fun x => x * a * ddv).sum = a * (ddv * r.sum) := by
        have := sum_map_mul_const r (a * ddv)
        simp only [← mul_assoc] at this
        rw [this]; ring
      rw [this]

/-- `momf(k)` is the published k-th frequency moment `Σ_i Σ_j f_i^k E_ij Δf_i Δθ` -/
theorem momf_eq_spec (k : Nat) (ddv : ℚ) (f : Vec) (e : Mat) :
    momf k f (oned ddv e) = specMom k ddv f e := by
  unfold momf specMom
  rw [← weighted_oned_eq_dsum]
  have : (fun (d x : ℚ) => d * x ^ k) = (fun d x => x ^ k * d) := by funext d x; ring
  rw [this]

/-- zeroth moment used by `hs`: `(Sf·df).sum = Σ_i Σ_j E_ij Δf_i Δθ` -/
theorem m0E_eq_spec (ddv : ℚ) (f : Vec) (e : Mat) :
    m0E f (oned ddv e) = dsum ddv (df f) e := by
  unfold m0E dot mulV
  rw [← weighted_oned_eq_dsum, List.zipWith_comm]
  congr 2; funext a b; ring

/-- `hs = 4·sqrt(E)` with `E` the published variance plus, above the threshold, the parametric tail
    `¼ · f_n · S(f_n)` where `S(f_n) = Δθ Σ_j E_nj` -/
theorem hsE_eq_spec (thr q : ℚ) (tail : Bool) (ddv : ℚ) (f : Vec) (e : Mat) :
    hsE thr q tail f (oned ddv e) =
      dsum ddv (df f) e +
        (if tail = true ∧ thr < lastD f then q * lastD (oned ddv e) * lastD f else 0) := by
  unfold hsE
  rw [m0E_eq_spec]
  congr 1
  by_cases h1 : tail = true <;> by_cases h2 : thr < lastD f <;> simp [h1, h2]

/-- without the tail `hsE` is exactly the double sum -/
theorem hsE_notail (thr q ddv : ℚ) (f : Vec) (e : Mat) :
    hsE thr q false f (oned ddv e) = dsum ddv (df f) e := by
  rw [hsE_eq_spec]; simp

/-- general weights: per-frequency directional moment weighted by `w` equals the double sum -/
theorem momdRow_weighted (ddv : ℚ) (t w : Vec) (e : Mat) :
    (List.zipWith (· * ·) (momdRow ddv t e) w).sum =
      (List.zipWith (fun r d => (List.zipWith (fun x y => x * y * d * ddv) r t).sum) e w).sum := by
  unfold momdRow
  induction e generalizing w with
  | nil => simp
  | cons r e ih =>
    cases w with
    | nil => simp
    | cons d ds =>
      simp only [List.map_cons, List.zipWith_cons_cons, List.sum_cons, ih]
      congr 1
      rw [← sum_zipWith_mul_const]
      congr 2; funext x y; ring

/-- weighted first directional moment (`dspr`'s `a`, `b`): `Σ_i Σ_j t_j E_ij Δf_i Δθ` -/
theorem momd_eq_spec (ddv : ℚ) (t f : Vec) (e : Mat) :
    dot (momdRow ddv t e) (df f) = specDirMom ddv t f e := by
  unfold dot mulV specDirMom
  exact momdRow_weighted ddv t (df f) e

/-- `dm`'s vector as coded: the *unweighted* frequency sum of the per-frequency directional moments,
    i.e. `Σ_i Σ_j t_j E_ij Δθ` (no `Δf_i`) -/
theorem dmVec_eq (ddv : ℚ) (s c : Vec) (e : Mat) :
    dmVec ddv s c e =
      ((e.map fun r => (List.zipWith (fun x y => x * y * ddv) r s).sum).sum,
       (e.map fun r => (List.zipWith (fun x y => x * y * ddv) r c).sum).sum) := by
  unfold dmVec momdRow
  congr 2 <;> (congr 1; funext r; congr 2; funext x y; ring)

/-- `dspr` ingredients are the published weighted moments and the variance -/
theorem dsprABE_eq_spec (ddv : ℚ) (s c f : Vec) (e : Mat) :
    dsprABE ddv s c f e = (specDirMom ddv s f e, specDirMom ddv c f e, dsum ddv (df f) e) := by
  unfold dsprABE
  rw [momd_eq_spec, momd_eq_spec]
  congr 2
  exact m0E_eq_spec ddv f e

/-- `tm01 = m0/m1`, `tm02² = m0/m2` of the published moments (NaN exactly when the denominator is 0) -/
theorem tm01_eq_spec (ddv : ℚ) (f : Vec) (e : Mat) :
    tm01 f (oned ddv e) = divOpt (specMom 0 ddv f e) (specMom 1 ddv f e) := by
  unfold tm01; rw [momf_eq_spec, momf_eq_spec]

theorem tm02Sq_eq_spec (ddv : ℚ) (f : Vec) (e : Mat) :
    tm02Sq f (oned ddv e) = divOpt (specMom 0 ddv f e) (specMom 2 ddv f e) := by
  unfold tm02Sq; rw [momf_eq_spec, momf_eq_spec]

theorem sweSq_eq_spec (ddv : ℚ) (f : Vec) (e : Mat) :
    sweSq f (oned ddv e) =
      (divOpt (specMom 2 ddv f e ^ 2) (specMom 0 ddv f e * specMom 4 ddv f e)).map (1 - ·) := by
  unfold sweSq; rw [momf_eq_spec, momf_eq_spec, momf_eq_spec]

theorem swSq_eq_spec (ddv : ℚ) (f : Vec) (e : Mat) :
    swSq f (oned ddv e) =
      (divOpt (specMom 0 ddv f e * specMom 2 ddv f e) (specMom 1 ddv f e ^ 2)).map (· - 1) := by
  unfold swSq; rw [momf_eq_spec, momf_eq_spec, momf_eq_spec]

/-- Goda peakedness: `2/m0² · Σ_i f_i S_i² Δf_i` with `m0` the published variance -/
theorem goda_eq_spec (ddv : ℚ) (f : Vec) (e : Mat) :
    goda f (oned ddv e) =
      (if (dsum ddv (df f) e) ^ 2 = 0 then none else
        some (2 / (dsum ddv (df f) e) ^ 2 *
          (List.zipWith (· * ·) (List.zipWith (fun s x => s ^ 2 * x) (oned ddv e) f) (df f)).sum)) := by
  unfold goda
  simp only [m0E_eq_spec]

/-- `to_energy` sums to the published variance: `Σ_ij E_ij Δf_i Δθ` -/
theorem toEnergy_sum (ddv : ℚ) (f : Vec) (e : Mat) :
    ((toEnergy ddv f e).map List.sum).sum = dsum ddv (df f) e := by
  unfold toEnergy dsum
  generalize df f = w
  induction e generalizing w with
  | nil => simp
  | cons r e ih =>
    cases w with
    | nil => simp
    | cons d ds => simp only [List.zipWith_cons_cons, List.map_cons, List.sum_cons, ih]

/-- mean-square slope `Σ_i k_i² S_i Δf_i` as a double sum over bins -/
theorem mss_eq_spec (ddv : ℚ) (k2 f : Vec) (e : Mat) :
    mss k2 f (oned ddv e) = dsum ddv (List.zipWith (· * ·) k2 (df f)) e := by
  unfold mss
  rw [← weighted_oned_eq_dsum]
  generalize oned ddv e = S
  generalize df f = w
  induction k2 generalizing S w with
  | nil => simp
  | cons a k2 ih =>
    cases S with
    | nil => cases w <;> rfl
    | cons b S =>
      cases w with
      | nil => simp
      | cons d w => simp only [List.zipWith_cons_cons, List.sum_cons]; rw [ih]; ring

/-- a one-dimensional spectrum gives the same frequency-integrated statistics as the 2-D spectrum it
    was integrated from: every such statistic of the model is a function of `oned` alone. -/
theorem oned_consistent (thr q : ℚ) (tail : Bool) (ddv : ℚ) (f : Vec) (e : Mat) (S : Vec)
    (h : S = oned ddv e) :
    hsE thr q tail f S = hsE thr q tail f (oned ddv e) ∧
    (∀ k, momf k f S = specMom k ddv f e) ∧
    tm01 f S = tm01 f (oned ddv e) ∧ tm02Sq f S = tm02Sq f (oned ddv e) ∧
    goda f S = goda f (oned ddv e) := by
  subst h
  exact ⟨rfl, fun k => momf_eq_spec k ddv f e, rfl, rfl, rfl⟩

/-! ### bin widths -/

theorem dfGo_pos (p c : ℚ) (rest : Vec) (hpc : p < c) (h : (c :: rest).Pairwise (· < ·)) :
    ∀ x ∈ dfGo p c rest, 0 < x := by
  induction rest generalizing p c with
  | nil => intro x hx; simp [dfGo] at hx; subst hx; linarith
  | cons n rest ih =>
    intro x hx
    simp only [dfGo, List.mem_cons] at hx
    have hcn : c < n := by
      have := (List.pairwise_cons.mp h).1 n (by simp); exact this
    rcases hx with rfl | hx
    · linarith
    · exact ih c n hcn (List.pairwise_cons.mp h).2 x hx

/-- on a strictly increasing frequency grid every bin width is positive -/
theorem df_pos (f : Vec) (h : f.Pairwise (· < ·)) : ∀ x ∈ df f, 0 < x := by
  match f, h with
  | [], _ => simp [df]
  | [_], _ => simp [df]
  | a :: b :: rest, h =>
    intro x hx
    simp only [df, List.mem_cons] at hx
    have hab : a < b := (List.pairwise_cons.mp h).1 b (by simp)
    rcases hx with rfl | hx
    · linarith
    · exact dfGo_pos a b rest hab (List.pairwise_cons.mp h).2 x hx

theorem dfGo_length (p c : ℚ) (rest : Vec) : (dfGo p c rest).length = rest.length + 1 := by
  induction rest generalizing p c with
  | nil => simp [dfGo]
  | cons n rest ih => simp [dfGo, ih]

/-- one bin width per frequency -/
theorem df_length (f : Vec) : (df f).length = f.length := by
  match f with
  | [] => rfl
  | [_] => rfl
  | a :: b :: rest => simp [df, dfGo_length]

/-- non-vacuity: a 3×2 spectrum on an irregular grid; the tail term is active (0.5 > 0.333) -/
example : hsE (333/1000) (1/4) true [1/8, 1/4, 1/2] (oned 180 [[1, 2], [0, 3], [4, 1]]) =
    dsum 180 (df [1/8, 1/4, 1/2]) [[1, 2], [0, 3], [4, 1]] + (1/4) * (180 * 5) * (1/2) := by
  decide +kernel

/-! ### T-tier bridging: the literals of the repository's functions are the property's constants -/

theorem lits_hs : Gen.lits_specarray_hs = [1, Consts.thr, Consts.quarter, 1, 1, 4] := by decide +kernel
theorem lits_hrms : Gen.lits_specarray_hrms = [1, Consts.thr, Consts.quarter, 1, 1, 8] := by decide +kernel
theorem lits_hmax : Gen.lits_specarray_hmax = [1, 1/2, Consts.hmaxK] := by decide +kernel
theorem lits_npstats_hs : Gen.lits_npstats_hs =
    [1, 1, 1, 1, 0, 360, 1, 1/2, 1, 1, 1, Consts.thr, Consts.quarter, 1, 1, 4] := by decide +kernel
theorem lits_deep : Gen.lits_utils_celerity = [2, Consts.deep] ∧ Gen.lits_utils_wavelen = [2, Consts.deep, 2] ∧
    Gen.lits_specarray_uss = [Consts.deep, 1, 2, 2, 4] ∧ Gen.lits_specarray_mss = [Consts.deep, 1, 2, 2, 2] ∧
    Gen.lits_specarray_uss_x = [90, Consts.deep, 1, 2, 2, 4, 180] ∧
    Gen.lits_specarray_uss_y = [90, Consts.deep, 1, 2, 2, 4, 180] := by decide +kernel
theorem lits_dir : Gen.lits_specarray_momd = [0, 90, 180, 180] ∧ Gen.lits_specarray_dm = [1, 270, 360] ∧
    Gen.lits_npstats_dm = [0, 0, 270, 360] ∧ Gen.lits_npstats_mom1 = [90, 1, 0, 180, 180, 1, 1] := by
  decide +kernel
theorem lits_widths : Gen.lits_specarray_goda = [2, 2, 2] ∧ Gen.lits_specarray_gw = [4, 2, 2, 2, 2] ∧
    Gen.lits_specarray_dd = [1, 1, 0, 360, 1] ∧ Gen.lits_specarray_df = [1, 1] := by decide +kernel

/-- deep water: `celerity = 1.56/f`, `wavelen = 1.56/f²` satisfy `L·f = C` exactly, and with
    `k = 2π/L`, `ω = 2πf` the phase speed is `ω/k = C` for every value of π -/
theorem deep_water (f pi : ℚ) (hf : f ≠ 0) (hpi : pi ≠ 0) :
    (Consts.deep / f ^ 2) * f = Consts.deep / f ∧
    (2 * pi * f) / (2 * pi / (Consts.deep / f ^ 2)) = Consts.deep / f := by
  have hd : Consts.deep ≠ 0 := by unfold Consts.deep; norm_num
  constructor
  · field_simp
  · field_simp

/-- `dd` does not depend on where the stored direction sequence starts: for a uniform full-circle grid
    with spacing `δ ≤ 180` the first two stored directions differ by `δ` or by `360 − δ` (seam), and
    both give `δ` -/
theorem dd_seam (a b δ : ℚ) (rest : Vec) (hδ : 0 ≤ δ) (hδ2 : δ ≤ 180)
    (h : absR (b - a) = δ ∨ absR (b - a) = 360 - δ) : dd (some (a :: b :: rest)) = δ := by
  show minR (absR (b - a)) (360 - absR (b - a)) = δ
  unfold minR
  rcases h with h | h <;> rw [h] <;> split <;> linarith

/-! ## T-tier: regenerated kernels

`Gen/NpKernels.lean` is regenerated on every run by `harness/translate_np.py` from the *whole bodies* of
`npstats.hs`, `npstats.mom1`, `npstats.dm`, `utils.wavenuma`, `utils.celerity`, `utils.wavelen` (vector grammar:
slices, elementwise arithmetic, row sums, `if`/`else`, unrolled literal loops).  The theorems below identify each
generated definition with the hand-written model for ALL inputs, so a change of a slice, an operator, a comparison,
a literal or the staging in the repository breaks an obligation of C01.  Transcendentals: the final `4·sqrt` of
`hs` is stripped structurally; the sin/cos arrays of `mom1` are oracle tables whose defining argument is itself
regenerated (`npMom1_*_arg`); `** 0.5` in `wavenuma` is an oracle function parameter. -/

/-- `npstats.hs` (radicand): trapezoid over `|f[i+1]−f[i]|` of `E`, plus the tail term -/
theorem gen_npHs_eq (e : Mat) (f : Vec) (dir : Option Vec) (tail : Bool) :
    Gen.npHsE e f dir tail = Stats.npHsE Consts.thr Consts.quarter tail f (npE dir e) := by
  unfold Stats.npHsE
  rw [trapz_eq_slices, npDf_eq_slices]
  rcases dir with _ | _ | ⟨a, _ | ⟨b, rest⟩⟩ <;>
    simp only [Gen.npHsE, npE, oned, getR, Consts.thr, Consts.quarter, List.map_map, Function.comp_def,
      List.length_nil, List.length_cons, List.getD_cons_zero, List.getD_cons_succ, gt_iff_lt] <;>
    cases tail <;> by_cases h : (5998794703657501 : ℚ) / 18014398509481984 < lastD f <;> simp [h]

/-- non-vacuity of the generated `hs`: 3×2 spectrum stored with the 0/360 wrap between its two directions,
    `Δθ = min(|10 − 350|, 360 − 340) = 20` (the short way round; 340 before the repair), tail active (0.5 > 0.333) -/
example : Gen.npHsE [[1, 2], [0, 3], [4, 1]] [1/8, 1/4, 1/2] (some [350, 10]) true =
    (1/2) * ((1/8) * (20 * 3 + 20 * 3) + (1/4) * (20 * 5 + 20 * 3)) + (1/4) * (20 * 5) * (1/2) := by
  decide +kernel

theorem gen_npHs_factor : Gen.npHsFactor = 4 := by decide +kernel

/-- `npstats.mom1` on at least two directions (fewer: `dir[1]` raises IndexError in the code) -/
theorem gen_mom1_eq (e : Mat) (a b : ℚ) (rest s c : Vec) (theta : ℚ) :
    Gen.npMom1 e (a :: b :: rest) theta c s = Stats.npMom1 (a :: b :: rest) s c e := by
  simp only [Gen.npMom1, Stats.npMom1, mom1_rows, npDd, getR, List.getD_cons_zero, List.getD_cons_succ]

theorem gen_mom1_tables :
    Gen.npMom1_cp_fn = "np.cos(np.radians(·))" ∧ Gen.npMom1_sp_fn = "np.sin(np.radians(·))" ∧
    Gen.npMom1_theta_default = 90 := by decide +kernel

theorem gen_mom1_arg_eq (d : ℚ) :
    Gen.npMom1_cp_arg Gen.npMom1_theta_default d = Stats.momArg d ∧
    Gen.npMom1_sp_arg Gen.npMom1_theta_default d = Stats.momArg d := by
  unfold Gen.npMom1_cp_arg Gen.npMom1_sp_arg Gen.npMom1_theta_default Stats.momArg
  constructor <;> ring

theorem gen_dm_eq (e : Mat) (a b : ℚ) (rest s c : Vec) :
    Gen.npDmVec e (a :: b :: rest) c s = Stats.npDmVec (a :: b :: rest) s c e := by
  simp only [Gen.npDmVec, gen_mom1_eq, Stats.npMom1, Stats.npDmVec]

theorem gen_dm_post_eq (pi a : ℚ) : Gen.npDmPost pi a = Stats.dirOfAtan pi a := rfl

theorem gen_wavenuma_poly_eq (x : ℚ) :
    Gen.wavenumaA x = Dispersion.polyA x ∧
    Dispersion.polyA x = 1 + Dispersion.powSum (Dispersion.chenD.drop 1) 1 x := by
  constructor
  · simp only [Gen.wavenumaA, Dispersion.polyA, Dispersion.chenD, Dispersion.horner, getR, List.getD_cons_zero,
      List.getD_cons_succ, List.drop_succ_cons, List.drop_zero]
    ring
  · simp only [Dispersion.polyA, Dispersion.chenD, Dispersion.horner, Dispersion.powSum, List.drop_succ_cons, List.drop_zero]
    ring

example : Gen.wavenumaA 1 = 1 + (5874495353942075 : ℚ) / 9007199254740992 + 8326254991082573 / 18014398509481984
    + 3112888062438487 / 36028797018963968 + 607985949695017 / 9007199254740992 := by decide +kernel

theorem gen_wavenuma_k0h_eq (pi f h : ℚ) : Gen.wavenumaK0h pi f h = Dispersion.k0h pi f h := rfl

theorem gen_wavenuma_eq (pi : ℚ) (sqrt : ℚ → ℚ) (f h : ℚ) :
    Gen.wavenuma pi sqrt f h = Dispersion.wavenuma pi sqrt f h := by
  have hA := (gen_wavenuma_poly_eq (Dispersion.k0h pi f h)).1
  unfold Dispersion.wavenuma
  rw [← hA]
  rfl

theorem gen_celerity_eq (pi : ℚ) (sqrt : ℚ → ℚ) (f : ℚ) (depth : Option ℚ) :
    Gen.celerity pi sqrt f depth = Dispersion.celerity pi sqrt f depth := by
  cases depth with
  | none => rfl
  | some h => simp only [Gen.celerity, Dispersion.celerity, gen_wavenuma_eq]

theorem gen_wavelen_eq (pi : ℚ) (sqrt : ℚ → ℚ) (f : ℚ) (depth : Option ℚ) :
    Gen.wavelen pi sqrt f depth = Dispersion.wavelen pi sqrt f depth := by
  cases depth with
  | none => rfl
  | some h => simp only [Gen.wavelen, Dispersion.wavelen, gen_wavenuma_eq]

theorem gen_deep_eq (pi : ℚ) (sqrt : ℚ → ℚ) (f : ℚ) :
    Gen.celerity pi sqrt f none = Consts.deep / f ∧ Gen.wavelen pi sqrt f none = Consts.deep / f ^ 2 := ⟨rfl, rfl⟩

/-! ## twin vs accessor

`SpecArray.hs` (the accessor) integrates with the `np.gradient` bin widths `df` (`Stats.hsE`), `npstats.hs` (the numpy
twin used by the partitioning code) with the trapezoid rule (`Stats.npHsE`).  On a strictly increasing frequency axis the
interior weights coincide (`(f_{i+1} − f_{i−1})/2`); the end bins get the full one-sided spacing in `df` and half of it in
the trapezoid.  So the two radicands differ **exactly** by half the end-bin weights, with or without the tail (both add
the same tail term).  All lengths `≥ 2`, all values. -/

/-- on an increasing axis `abs(freq[1:] - freq[:-1])` is the plain difference -/
theorem absR_of_lt {a b : ℚ} (h : a < b) : absR (b - a) = b - a := by
  unfold absR
  rw [if_neg]
  linarith

/-- the recursion behind `npHsE_vs_hsE`: from the second frequency on, `Σ S·df − trapezoid` is half the first interior
    weight plus half the last one-sided spacing times the last value -/
theorem dfGo_vs_trapz (p c s : ℚ) (rest srest : Vec) (hlen : srest.length = rest.length)
    (hinc : (c :: rest).Pairwise (· < ·)) :
    dot (s :: srest) (dfGo p c rest) - trapz (npDf (c :: rest)) (s :: srest) =
      (c - p) / 2 * s +
        ((c :: rest).getD rest.length 0 - (p :: c :: rest).getD rest.length 0) / 2 * (s :: srest).getD rest.length 0 := by
  induction rest generalizing p c s srest with
  | nil =>
    cases srest with
    | nil => simp [dfGo, dot, mulV, npDf, trapz]; ring
    | cons _ _ => simp at hlen
  | cons n rest ih =>
    cases srest with
    | nil => simp at hlen
    | cons s' srest =>
      have hlen' : srest.length = rest.length := by simpa using hlen
      have hcn : c < n := (List.pairwise_cons.mp hinc).1 n (by simp)
      have hinc' : (n :: rest).Pairwise (· < ·) := (List.pairwise_cons.mp hinc).2
      have h := ih c n s' srest hlen' hinc'
      have e1 : dot (s :: s' :: srest) (dfGo p c (n :: rest)) = s * ((n - p) / 2) + dot (s' :: srest) (dfGo c n rest) := by
        simp [dfGo, dot, mulV]
      have e2 : trapz (npDf (c :: n :: rest)) (s :: s' :: srest) =
          (n - c) * (s' + s) / 2 + trapz (npDf (n :: rest)) (s' :: srest) := by
        simp [npDf, trapz, absR_of_lt hcn]
      rw [e1, e2]
      simp only [List.length_cons, List.getD_cons_succ]
      linarith

/-- both radicands add the same tail term `¼·S(f_n)·f_n`: the difference does not depend on `tail` -/
theorem hsE_sub_npHsE_tail (thr q : ℚ) (tail : Bool) (f S : Vec) :
    hsE thr q tail f S - npHsE thr q tail f S = hsE thr q false f S - npHsE thr q false f S := by
  unfold hsE npHsE
  simp only [Bool.false_and, Bool.false_eq_true, if_false]
  ring

/-- **accessor − twin = half the end-bin weights** (no tail):
    `hsE − npHsE = (f₁ − f₀)/2 · S₀ + (f_{n−1} − f_{n−2})/2 · S_{n−1}` -/
theorem npHsE_vs_hsE (thr q : ℚ) (f S : Vec) (h2 : 2 ≤ f.length) (hlen : S.length = f.length)
    (hinc : f.Pairwise (· < ·)) :
    hsE thr q false f S - npHsE thr q false f S =
      (f[1] - f[0]) / 2 * S[0] + (f[f.length - 1] - f[f.length - 2]) / 2 * S[S.length - 1] := by
  match f, S, h2, hlen, hinc with
  | a :: b :: rest, s0 :: s1 :: srest, _, hlen, hinc =>
    have hlen' : srest.length = rest.length := by simpa using hlen
    have hab : a < b := (List.pairwise_cons.mp hinc).1 b (by simp)
    have hinc' : (b :: rest).Pairwise (· < ·) := (List.pairwise_cons.mp hinc).2
    have h := dfGo_vs_trapz a b s1 rest srest hlen' hinc'
    have e1 : hsE thr q false (a :: b :: rest) (s0 :: s1 :: srest) = s0 * (b - a) + dot (s1 :: srest) (dfGo a b rest) := by
      simp [hsE, m0E, df, dot, mulV]
    have e2 : npHsE thr q false (a :: b :: rest) (s0 :: s1 :: srest) =
        (b - a) * (s1 + s0) / 2 + trapz (npDf (b :: rest)) (s1 :: srest) := by
      simp [npHsE, npDf, trapz, absR_of_lt hab]
    rw [e1, e2]
    have g1 : (b :: rest).getD rest.length 0 = (a :: b :: rest)[(a :: b :: rest).length - 1] := by
      rw [List.getD_eq_getElem?_getD, List.getElem?_eq_getElem (by simp; try omega), Option.getD_some]; simp
    have g2 : (a :: b :: rest).getD rest.length 0 = (a :: b :: rest)[(a :: b :: rest).length - 2] := by
      rw [List.getD_eq_getElem?_getD, List.getElem?_eq_getElem (by simp; try omega), Option.getD_some]; simp
    have g3 : (s1 :: srest).getD rest.length 0 = (s0 :: s1 :: srest)[(s0 :: s1 :: srest).length - 1] := by
      rw [List.getD_eq_getElem?_getD, List.getElem?_eq_getElem (by simp [hlen']), Option.getD_some]; simp [hlen']
    rw [g1, g2, g3] at h
    simp only [List.getElem_cons_zero, List.getElem_cons_succ] at h ⊢
    linarith
  | [], _, h2, _, _ => simp at h2
  | [_], _, h2, _, _ => simp at h2
  | _ :: _ :: _, [], _, hlen, _ => simp at hlen
  | _ :: _ :: _, [_], _, hlen, _ => simp at hlen

/-- the same with the tail (and for either value of the flag) -/
theorem npHsE_vs_hsE_tail (thr q : ℚ) (tail : Bool) (f S : Vec) (h2 : 2 ≤ f.length) (hlen : S.length = f.length)
    (hinc : f.Pairwise (· < ·)) :
    hsE thr q tail f S - npHsE thr q tail f S =
      (f[1] - f[0]) / 2 * S[0] + (f[f.length - 1] - f[f.length - 2]) / 2 * S[S.length - 1] := by
  rw [hsE_sub_npHsE_tail]
  exact npHsE_vs_hsE thr q f S h2 hlen hinc

/-- hence for a non-negative spectrum the twin's radicand never exceeds the accessor's -/
theorem npHsE_le_hsE (thr q : ℚ) (tail : Bool) (f S : Vec) (h2 : 2 ≤ f.length) (hlen : S.length = f.length)
    (hinc : f.Pairwise (· < ·)) (hS : ∀ x ∈ S, 0 ≤ x) :
    npHsE thr q tail f S ≤ hsE thr q tail f S := by
  have h := npHsE_vs_hsE_tail thr q tail f S h2 hlen hinc
  have h01 : f[0] < f[1] := List.pairwise_iff_getElem.mp hinc 0 1 (by omega) (by omega) (by omega)
  have hn : f[f.length - 2] < f[f.length - 1] :=
    List.pairwise_iff_getElem.mp hinc _ _ (by omega) (by omega) (by omega)
  have s0 : 0 ≤ S[0] := hS _ (List.getElem_mem _)
  have sn : 0 ≤ S[S.length - 1] := hS _ (List.getElem_mem _)
  have t1 : 0 ≤ (f[1] - f[0]) / 2 * S[0] := mul_nonneg (by linarith) s0
  have t2 : 0 ≤ (f[f.length - 1] - f[f.length - 2]) / 2 * S[S.length - 1] := mul_nonneg (by linarith) sn
  linarith

/-- concrete numbers: `f = [1/8, 1/4, 1/2, 7/8]`, `S = [3, 5, 2, 7]`: `(1/8)/2·3 + (3/8)/2·7 = 3/2`, tail or not -/
example : hsE (333/1000) (1/4) false [1/8, 1/4, 1/2, 7/8] [3, 5, 2, 7] -
    npHsE (333/1000) (1/4) false [1/8, 1/4, 1/2, 7/8] [3, 5, 2, 7] = 3/2 := by decide +kernel
example : hsE (333/1000) (1/4) true [1/8, 1/4, 1/2, 7/8] [3, 5, 2, 7] -
    npHsE (333/1000) (1/4) true [1/8, 1/4, 1/2, 7/8] [3, 5, 2, 7] = 3/2 := by decide +kernel
example : ((1/4 - 1/8 : ℚ)) / 2 * 3 + ((7/8 - 1/2 : ℚ)) / 2 * 7 = 3/2 := by decide +kernel
/-- two frequencies: the accessor counts the single interval twice -/
example : hsE (333/1000) (1/4) false [1/10, 3/10] [4, 6] = 2 ∧ npHsE (333/1000) (1/4) false [1/10, 3/10] [4, 6] = 1 := by
  decide +kernel
/-- the hypotheses are satisfiable -/
example : 2 ≤ ([1/8, 1/4, 1/2, 7/8] : Vec).length ∧ ([3, 5, 2, 7] : Vec).length = ([1/8, 1/4, 1/2, 7/8] : Vec).length ∧
    ([1/8, 1/4, 1/2, 7/8] : Vec).Pairwise (· < ·) ∧ (∀ x ∈ ([3, 5, 2, 7] : Vec), 0 ≤ x) := by decide +kernel
example : 2 ≤ ([1/10, 3/10] : Vec).length ∧ ([4, 6] : Vec).length = ([1/10, 3/10] : Vec).length ∧
    ([1/10, 3/10] : Vec).Pairwise (· < ·) := by decide +kernel
/-- `dfGo_vs_trapz`, `absR_of_lt`: satisfiable too -/
example : ([6] : Vec).length = ([3/10] : Vec).length ∧ ((1/10 : ℚ) :: [3/10]).Pairwise (· < ·) ∧ (1/10 : ℚ) < 3/10 := by
  decide +kernel

end WS.C01

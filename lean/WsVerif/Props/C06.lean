import WsVerif.Model.Batch
import WsVerif.Model.Stats
/-!
# C06 — each spectrum of a dataset is processed independently

**Read this first.**  In the model a dataset operation *is* `List.map` / `List.zipWith` of the
single-spectrum model (`Model/Batch.lean`), so the statements below are true *by construction of the model*:
they only spell out what "position by position" means (the value at position `i` is the single-spectrum
value on spectrum `i` with its own wind/depth; changing another position changes nothing at `i`; shape is
preserved; the `Dataset` wrapper forwards to `efth`).  They carry no assurance about the implementation on
their own.  The assurance for C06 is the **correspondence check** (`harness/checks/c06.py`): the batched
implementation is compared, at every position of datasets with 0–3 non-spectral dimensions, with the
implementation on the extracted spectrum and with this model, before and after perturbing one spectrum.
-/
namespace WS.C06
open WS WS.Batch

/-- kept from the first version of this file: a mapped dataset, position by position -/
theorem batched_map_get {α β : Type} (op : α → β) (ds : List α) (i : Nat) (h : i < ds.length) :
    (ds.map op)[i]'(by simpa using h) = op ds[i] := by simp

/-- the batched result at position `i` is the single-spectrum result on spectrum `i` with its own
    auxiliary input (`none` on both sides exactly outside the common range) -/
theorem batched_get {α β : Type} (op : Mat → α → β) (ds : List Mat) (aux : List α) (i : Nat) :
    (opD op ds aux)[i]? = (match ds[i]?, aux[i]? with
      | some e, some a => some (op e a)
      | _, _ => none) := by
  unfold opD
  rw [List.getElem?_zipWith]
  cases ds[i]? <;> cases aux[i]? <;> rfl

/-- same with proofs of validity of the index -/
theorem batched_get_valid {α β : Type} (op : Mat → α → β) (ds : List Mat) (aux : List α) (i : Nat)
    (h1 : i < ds.length) (h2 : i < aux.length) :
    (opD op ds aux)[i]'(by simp [opD]; omega) = op ds[i] aux[i] := by
  simp [opD]

/-- no auxiliary input -/
theorem batched_get1 {β : Type} (op : Mat → β) (ds : List Mat) (i : Nat) :
    (opD1 op ds)[i]? = (ds[i]?).map op := by
  simp [opD1]

/-- the result has one entry per spectrum -/
theorem batched_length {α β : Type} (op : Mat → α → β) (ds : List Mat) (aux : List α) :
    (opD op ds aux).length = min ds.length aux.length := by
  simp [opD]

theorem batched_length_eq {α β : Type} (op : Mat → α → β) (ds : List Mat) (aux : List α)
    (h : aux.length = ds.length) : (opD op ds aux).length = ds.length := by
  simp [opD, h]

theorem batched_length1 {β : Type} (op : Mat → β) (ds : List Mat) : (opD1 op ds).length = ds.length := by
  simp [opD1]

/-- replacing the spectrum at position `j` does not change the result at any other position -/
theorem update_other {α β : Type} (op : Mat → α → β) (ds : List Mat) (aux : List α) (i j : Nat) (x : Mat)
    (hij : i ≠ j) : (opD op (ds.set j x) aux)[i]? = (opD op ds aux)[i]? := by
  unfold opD
  rw [List.getElem?_zipWith, List.getElem?_zipWith, List.getElem?_set_ne (Ne.symm hij)]

/-- replacing the auxiliary input (wind, depth) at position `j` does not change any other position -/
theorem update_other_aux {α β : Type} (op : Mat → α → β) (ds : List Mat) (aux : List α) (i j : Nat) (a : α)
    (hij : i ≠ j) : (opD op ds (aux.set j a))[i]? = (opD op ds aux)[i]? := by
  unfold opD
  rw [List.getElem?_zipWith, List.getElem?_zipWith, List.getElem?_set_ne (Ne.symm hij)]

theorem update_other1 {β : Type} (op : Mat → β) (ds : List Mat) (i j : Nat) (x : Mat) (hij : i ≠ j) :
    (opD1 op (ds.set j x))[i]? = (opD1 op ds)[i]? := by
  simp [opD1, List.getElem?_set_ne (Ne.symm hij)]

/-- and at the replaced position the result is the single-spectrum result on the new spectrum -/
theorem update_self {α β : Type} (op : Mat → α → β) (ds : List Mat) (aux : List α) (j : Nat) (x : Mat)
    (h1 : j < ds.length) (h2 : j < aux.length) :
    (opD op (ds.set j x) aux)[j]? = some (op x aux[j]) := by
  unfold opD
  rw [List.getElem?_zipWith]
  simp [h1, h2]

/-- a batch of batches (several non-spectral dimensions) is the batch of the flattened dataset -/
theorem batched_flatten {β : Type} (op : Mat → β) (dss : List (List Mat)) :
    opD1 op dss.flatten = (dss.map (opD1 op)).flatten := by
  unfold opD1
  rw [List.map_flatten]

/-- calling through the `Dataset` wrapper is calling on the `efth` variable; the other variables are
    irrelevant (`rfl`: the model forwards, as `SpecDataset.__getattr__` does) -/
theorem dataset_accessor_eq {β : Type} (op : Mat → β) (d : Dataset) : d.call op = opD1 op d.efth := rfl

theorem dataset_accessor_aux_eq {α β : Type} (op : Mat → α → β) (d : Dataset) (aux : List α) :
    d.callAux op aux = opD op d.efth aux := rfl

theorem dataset_others_irrelevant {β : Type} (op : Mat → β) (d : Dataset) (o : List (String × List Rat)) :
    ({ d with others := o } : Dataset).call op = d.call op := rfl

/-! ### non-vacuity -/

example := batched_get_valid (fun e (a : Rat) => a * (Stats.oned 1 e).sum) [[[1, 2]], [[3, 4]]] [10, 20] 1
  (by decide) (by decide)
example : (opD (fun e (a : Rat) => a * (Stats.oned 1 e).sum) [[[1, 2]], [[3, 4]]] [10, 20])[1]? = some 140 := by
  decide +kernel
example := update_other (fun e (a : Rat) => a * (Stats.oned 1 e).sum) [[[1, 2]], [[3, 4]]] [10, 20] 1 0 [[9]]
  (by decide)
example := update_self (fun e (a : Rat) => a * (Stats.oned 1 e).sum) [[[1, 2]], [[3, 4]]] [10, 20] 0 [[9]]
  (by decide) (by decide)
example := batched_length_eq (fun e (a : Rat) => a * (Stats.oned 1 e).sum) [[[1, 2]], [[3, 4]]] [10, 20] rfl
example := update_other_aux (fun e (a : Rat) => a * (Stats.oned 1 e).sum) [[[1, 2]], [[3, 4]]] [10, 20] 1 0 7
  (by decide)
example := update_other1 (fun e => (Stats.oned 1 e).sum) [[[1, 2]], [[3, 4]]] 0 1 [[9]] (by decide)
example := batched_map_get (fun e => (Stats.oned 1 e).sum) [[[1, 2]], [[3, 4]]] 1 (by decide)

end WS.C06

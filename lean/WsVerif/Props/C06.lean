import WsVerif.Model.Basic
/-! placeholder until the batch model lands (replaced by the full file) -/
namespace WS.C06
theorem batched_map_get {α β : Type} (op : α → β) (ds : List α) (i : Nat) (h : i < ds.length) :
    (ds.map op)[i]'(by simpa using h) = op ds[i] := by simp
end WS.C06

import WsVerif.Model.Smooth
import WsVerif.Lemmas.Smooth
import WsVerif.Gen.SmoothFacts
import WsVerif.Gen.Lits
import Mathlib.Tactic.Linarith
import Mathlib.Algebra.Order.Field.Rat
/-!
# C16 — smoothing is a local circular average that keeps the grid

Model: `WS.Smooth.smoothWith sortedLabels dirs dirs32 e fw dw` (`Model/Smooth.lean`), one spectrum, rows = frequencies,
columns = directions in STORED order; `dirs32` = the labels after the float32 cast.

* `smoothWith false` = the tree as it is: step (3) puts the labels of the UNSORTED input on the sorted data;
* `smoothWith true`  = the repaired step (3) (labels of the sorted copy).

`Smooth.smooth = smoothWith Smooth.codeSortedLabels` is what the correspondence check runs; `tie_smooth_source` fixes
`codeSortedLabels` to the source text, so the constant has to be flipped (and only that) when the repair lands.

Sections: 0 tie to the source · 1 statements true of BOTH variants for EVERY storage order · 2 sorted storage
(both variants; these are the `_partial` theorems of the tree as it is) · 3 the tree as it is: full statements
refuted for unsorted storage · 4 the repaired variant: full statements for every storage order.
-/
namespace WS.C16
open WS WS.Smooth

/-! ## 0. Tie to the source (T-tier) -/

/-- structural facts of `smooth_spec` the model depends on; the first conjunct is the defect switch -/
theorem tie_smooth_source :
    Gen.smooth_label_source = (if codeSortedLabels then "dsout" else "dset") ∧
    Gen.smooth_validated = "freq_window, dir_window" ∧
    Gen.smooth_validation = "window % 2 == 0 -> ValueError" ∧
    Gen.smooth_sort = "dsout = dset.sortby(attrs.DIRNAME)" ∧
    Gen.smooth_pad_sizes = "dir_window, dir_window" ∧
    Gen.smooth_circular_test = "abs(dirs.max() - dirs.min() + dd - 360) < 0.1 * dd" ∧
    Gen.smooth_rolling = "dsout.rolling(dim=dim, center=True).mean()" ∧
    Gen.smooth_clip = "not dsout[attrs.DIRNAME].equals(dset[attrs.DIRNAME]) => dsout = dsout.sel(**{attrs.DIRNAME: dset[attrs.DIRNAME]}); dsout = dsout.chunk(**{attrs.DIRNAME: -1})" ∧
    Gen.smooth_assign_coords = "dsout.assign_coords(dset.coords)" ∧
    Gen.smooth_fill = "xr.where(dsout.notnull(), dsout, dset)" := by
  unfold codeSortedLabels
  exact ⟨rfl, rfl, rfl, rfl, rfl, rfl, rfl, rfl, rfl, rfl⟩

/-- numeric literals of `smooth_spec` in source order (defaults 3, 3; `% 2 == 0`; `== 1`; `[0]`; `360`; `0.1`; …) -/
theorem tie_smooth_lits : Gen.lits_utils_smooth_spec = [3, 3, 2, 0, 1, 0, 360, tenth, 360, 0, 360, 1] := by
  decide +kernel

/-! ## 1. Both variants, every storage order -/

/-- **even windows are rejected** -/
theorem even_rejected (b : Bool) (dirs dirs32 : Vec) (e : Mat) (fw dw : Nat) (h : fw % 2 = 0 ∨ dw % 2 = 0) :
    smoothWith b dirs dirs32 e fw dw = .error .valueError := by
  unfold smoothWith; simp [h]

/-- **the grid is kept**: the direction coordinate comes back with the same values in the same (stored) order and the
    array has the input's shape — for every input, in either variant.  (The defect of the tree is not here: it is in
    WHICH value ends up under each label, see §3.) -/
theorem dims_coords_order_kept (b : Bool) (dirs dirs32 : Vec) (e : Mat) (fw dw : Nat) (res : Vec × Mat)
    (h : smoothWith b dirs dirs32 e fw dw = .ok res) :
    res.1 = dirs ∧ res.2.length = e.length ∧ ∀ r ∈ res.2, r.length = dirs.length := by
  obtain ⟨_, _, r', _, rfl⟩ := smoothWith_ok b dirs dirs32 e fw dw res h
  exact ⟨rfl, fill_length _ _ _, rect_fill _ _ _⟩

/-- every output value lies between any two bounds of the input values -/
theorem value_in_hull (b : Bool) (dirs dirs32 : Vec) (e : Mat) (fw dw : Nat) (res : Vec × Mat) (lo hi : ℚ)
    (hlen : dirs32.length = dirs.length) (hres : smoothWith b dirs dirs32 e fw dw = .ok res)
    (h : ∀ i < e.length, ∀ j < dirs.length, lo ≤ cellAt e i j ∧ cellAt e i j ≤ hi) :
    ∀ i < e.length, ∀ k < dirs.length, lo ≤ cellAt res.2 i k ∧ cellAt res.2 i k ≤ hi :=
  smoothWith_hull b dirs dirs32 e fw dw res lo hi hlen hres h

/-- **non-negativity is preserved** (any storage order, any odd windows) -/
theorem nonneg_preserved (b : Bool) (dirs dirs32 : Vec) (e : Mat) (fw dw : Nat) (res : Vec × Mat)
    (hlen : dirs32.length = dirs.length) (hres : smoothWith b dirs dirs32 e fw dw = .ok res)
    (h : ∀ i < e.length, ∀ j < dirs.length, 0 ≤ cellAt e i j) :
    ∀ i < e.length, ∀ k < dirs.length, 0 ≤ cellAt res.2 i k := by
  obtain ⟨hi, hhi⟩ := exists_upper e
  intro i hi' k hk
  exact (smoothWith_hull b dirs dirs32 e fw dw res 0 hi hlen hres (fun i hi' j hj => ⟨h i hi' j hj, hhi i j⟩) i hi' k hk).1

/-- **constant spectra are preserved** (any storage order, any odd windows) -/
theorem const_preserved (b : Bool) (dirs dirs32 : Vec) (e : Mat) (fw dw : Nat) (res : Vec × Mat) (c : ℚ)
    (hlen : dirs32.length = dirs.length) (hres : smoothWith b dirs dirs32 e fw dw = .ok res)
    (h : ∀ i < e.length, ∀ j < dirs.length, cellAt e i j = c) :
    ∀ i < e.length, ∀ k < dirs.length, cellAt res.2 i k = c := by
  intro i hi' k hk
  have := smoothWith_hull b dirs dirs32 e fw dw res c c hlen hres
    (fun i hi' j hj => by rw [h i hi' j hj]; exact ⟨le_refl _, le_refl _⟩) i hi' k hk
  exact le_antisymm this.2 this.1

/-! ## 2. Sorted storage (both variants) -/

/-- directions stored in increasing order (also after the float32 cast) and a rectangular spectrum -/
structure SortedInput (dirs dirs32 : Vec) (e : Mat) : Prop where
  sorted : dirs.Pairwise (· < ·)
  sorted32 : dirs32.Pairwise (· < ·)
  len : dirs32.length = dirs.length
  rect : Rect e dirs.length

/-- the result exists and is the closed form `sortedCell` -/
theorem sorted_closed_form (b : Bool) {dirs dirs32 : Vec} {e : Mat} (hin : SortedInput dirs dirs32 e) (fw dw : Nat)
    (hf : fw % 2 = 1) (hd : dw % 2 = 1) :
    smoothWith b dirs dirs32 e fw dw = .ok (dirs, (List.range e.length).map fun i => (List.range dirs.length).map fun k =>
      sortedCell (isCircular dirs32) e dirs.length fw dw i k) :=
  smoothWith_sorted b dirs dirs32 e fw dw hf hd hin.sorted hin.sorted32 hin.len hin.rect

/-- **a window of one is the identity** (sorted storage) -/
theorem window1_id_partial (b : Bool) {dirs dirs32 : Vec} {e : Mat} (hin : SortedInput dirs dirs32 e) :
    smoothWith b dirs dirs32 e 1 1 = .ok (dirs, e) := by
  rw [sorted_closed_form b hin 1 1 rfl rfl]
  congr 2
  conv_rhs => rw [← tab_cellAt e dirs.length hin.rect]
  apply List.map_congr_left
  intro i hi
  apply List.map_congr_left
  intro k hk
  refine sortedCell_one _ e _ i k hin.rect (by simpa using hi) (by simpa using hk) ?_
  intro hc
  have := isCircular_two dirs32 hc
  rw [hin.len] at this; exact this

/-- **window mean where the whole window fits — full circle**: the direction window wraps across the ends
    (`circCol nd dw k b = (k + nd − dw/2 + b) mod nd`) -/
theorem full_window_mean_partial (b : Bool) {dirs dirs32 : Vec} {e : Mat} (hin : SortedInput dirs dirs32 e) (fw dw : Nat)
    (hf : fw % 2 = 1) (hd : dw % 2 = 1) (hc : isCircular dirs32 = true) (hle : dw ≤ dirs.length) (i k : Nat)
    (hk : k < dirs.length) (hfit : fw / 2 ≤ i ∧ i + fw / 2 < e.length) :
    ∃ out, smoothWith b dirs dirs32 e fw dw = .ok (dirs, out) ∧
      cellAt out i k = blockMean e (i - fw / 2) fw dw (circCol dirs.length dw k) := by
  refine ⟨_, sorted_closed_form b hin fw dw hf hd, ?_⟩
  rw [cellAt_tab, if_pos ⟨by omega, hk⟩, hc]
  exact sortedCell_circ_fits e _ fw dw i k hin.rect (by omega) hle hk hfit

/-- **window mean where the whole window fits — partial direction grid** (no wrap) -/
theorem full_window_mean_flat_partial (b : Bool) {dirs dirs32 : Vec} {e : Mat} (hin : SortedInput dirs dirs32 e) (fw dw : Nat)
    (hf : fw % 2 = 1) (hd : dw % 2 = 1) (hc : isCircular dirs32 = false) (i k : Nat)
    (hfit : fw / 2 ≤ i ∧ i + fw / 2 < e.length ∧ dw / 2 ≤ k ∧ k + dw / 2 < dirs.length) :
    ∃ out, smoothWith b dirs dirs32 e fw dw = .ok (dirs, out) ∧
      cellAt out i k = blockMean e (i - fw / 2) fw dw (flatCol dw k) := by
  refine ⟨_, sorted_closed_form b hin fw dw hf hd, ?_⟩
  rw [cellAt_tab, if_pos ⟨by omega, by omega⟩, hc]
  exact sortedCell_flat_fits e _ fw dw i k hfit

/-- **where the window does not fit, the input value** — full circle: only the frequency edges -/
theorem edges_from_input_partial (b : Bool) {dirs dirs32 : Vec} {e : Mat} (hin : SortedInput dirs dirs32 e) (fw dw : Nat)
    (hf : fw % 2 = 1) (hd : dw % 2 = 1) (hc : isCircular dirs32 = true) (i k : Nat) (hi : i < e.length) (hk : k < dirs.length)
    (hedge : ¬ (fw / 2 ≤ i ∧ i + fw / 2 < e.length)) :
    ∃ out, smoothWith b dirs dirs32 e fw dw = .ok (dirs, out) ∧ cellAt out i k = cellAt e i k := by
  refine ⟨_, sorted_closed_form b hin fw dw hf hd, ?_⟩
  rw [cellAt_tab, if_pos ⟨hi, hk⟩, hc]
  exact sortedCell_circ_edge e _ fw dw i k hedge

/-- … partial direction grid: frequency and direction edges -/
theorem edges_from_input_flat_partial (b : Bool) {dirs dirs32 : Vec} {e : Mat} (hin : SortedInput dirs dirs32 e) (fw dw : Nat)
    (hf : fw % 2 = 1) (hd : dw % 2 = 1) (hc : isCircular dirs32 = false) (i k : Nat) (hi : i < e.length) (hk : k < dirs.length)
    (hedge : ¬ (fw / 2 ≤ i ∧ i + fw / 2 < e.length ∧ dw / 2 ≤ k ∧ k + dw / 2 < dirs.length)) :
    ∃ out, smoothWith b dirs dirs32 e fw dw = .ok (dirs, out) ∧ cellAt out i k = cellAt e i k := by
  refine ⟨_, sorted_closed_form b hin fw dw hf hd, ?_⟩
  rw [cellAt_tab, if_pos ⟨hi, hk⟩, hc]
  exact sortedCell_flat_edge e _ fw dw i k hedge

/-- bin `(i', k')` belongs to the `fw × dw` neighbourhood of bin `(i, k)`; in direction the neighbourhood wraps on a
    full circle and is clipped otherwise -/
def InWindow (circ : Bool) (nf nd fw dw i k i' k' : Nat) : Prop :=
  i' < nf ∧ k' < nd ∧ i ≤ i' + fw / 2 ∧ i' ≤ i + fw / 2 ∧
    (if circ then ∃ b, b < dw ∧ k' = circCol nd dw k b else k ≤ k' + dw / 2 ∧ k' ≤ k + dw / 2)

instance (circ : Bool) (nf nd fw dw i k i' k' : Nat) : Decidable (InWindow circ nf nd fw dw i k i' k') := by
  unfold InWindow; infer_instance

/-- **every value lies between the minimum and maximum of the input over its window neighbourhood** (sorted storage;
    on a full circle for direction windows up to the grid size) -/
theorem within_window_bounds_partial (b : Bool) {dirs dirs32 : Vec} {e : Mat} (hin : SortedInput dirs dirs32 e) (fw dw : Nat)
    (hf : fw % 2 = 1) (hd : dw % 2 = 1) (hle : isCircular dirs32 = true → dw ≤ dirs.length) (i k : Nat)
    (hi : i < e.length) (hk : k < dirs.length) (lo hi' : ℚ)
    (h : ∀ i' k', InWindow (isCircular dirs32) e.length dirs.length fw dw i k i' k' → lo ≤ cellAt e i' k' ∧ cellAt e i' k' ≤ hi') :
    ∃ out, smoothWith b dirs dirs32 e fw dw = .ok (dirs, out) ∧ lo ≤ cellAt out i k ∧ cellAt out i k ≤ hi' := by
  refine ⟨_, sorted_closed_form b hin fw dw hf hd, ?_⟩
  rw [cellAt_tab, if_pos ⟨hi, hk⟩]
  have hn : 0 < dirs.length := by omega
  by_cases hc : isCircular dirs32 = true
  · have hle' := hle hc
    rw [hc] at h ⊢
    have hself : lo ≤ cellAt e i k ∧ cellAt e i k ≤ hi' := by
      refine h i k ⟨hi, hk, by omega, by omega, ?_⟩
      simp only [if_true]
      refine ⟨dw / 2, by omega, ?_⟩
      unfold circCol
      have : k + dirs.length - dw / 2 + dw / 2 = k + dirs.length := by omega
      rw [this, Nat.add_mod_right, Nat.mod_eq_of_lt hk]
    by_cases hfit : fw / 2 ≤ i ∧ i + fw / 2 < e.length
    · rw [sortedCell_circ_fits e _ fw dw i k hin.rect (by omega) hle' hk hfit]
      apply blockMean_bounds e _ fw dw _ lo hi' (by omega) (by omega)
      intro a ha c hcb
      refine h _ _ ⟨by omega, ?_, by omega, by omega, ?_⟩
      · unfold circCol; exact Nat.mod_lt _ hn
      · simp only [if_true]; exact ⟨c, hcb, rfl⟩
    · rw [sortedCell_circ_edge e _ fw dw i k hfit]; exact hself
  · have hc' : isCircular dirs32 = false := by simpa using hc
    rw [hc'] at h ⊢
    have hself : lo ≤ cellAt e i k ∧ cellAt e i k ≤ hi' := by
      refine h i k ⟨hi, hk, by omega, by omega, ?_⟩
      simp only [Bool.false_eq_true, if_false]; omega
    by_cases hfit : fw / 2 ≤ i ∧ i + fw / 2 < e.length ∧ dw / 2 ≤ k ∧ k + dw / 2 < dirs.length
    · rw [sortedCell_flat_fits e _ fw dw i k hfit]
      apply blockMean_bounds e _ fw dw _ lo hi' (by omega) (by omega)
      intro a ha c hcb
      refine h _ _ ⟨by omega, ?_, by omega, by omega, ?_⟩
      · unfold flatCol; omega
      · simp only [Bool.false_eq_true, if_false]; unfold flatCol; omega
    · rw [sortedCell_flat_edge e _ fw dw i k hfit]; exact hself

/-- **on a full circle smoothing commutes with circular shifts of the direction axis** (sorted storage) -/
theorem commutes_with_shift_partial (b : Bool) {dirs dirs32 : Vec} {e : Mat} (hin : SortedInput dirs dirs32 e) (fw dw s : Nat)
    (hf : fw % 2 = 1) (hd : dw % 2 = 1) (hc : isCircular dirs32 = true) (hle : dw ≤ dirs.length) :
    ∃ out, smoothWith b dirs dirs32 e fw dw = .ok (dirs, out) ∧
      smoothWith b dirs dirs32 (rollCols s e) fw dw = .ok (dirs, rollCols s out) := by
  refine ⟨_, sorted_closed_form b hin fw dw hf hd, ?_⟩
  have hin' : SortedInput dirs dirs32 (rollCols s e) := ⟨hin.sorted, hin.sorted32, hin.len, rect_rollCols s e _ hin.rect⟩
  rw [sorted_closed_form b hin' fw dw hf hd, rollCols_tab, rollCols_length, hc]
  congr 2
  apply List.map_congr_left
  intro i hi
  apply List.map_congr_left
  intro k hk
  exact sortedCell_circ_shift e _ fw dw i k s hin.rect (by omega) hle (by simpa using hi) (by simpa using hk)

/-! ## 3. The tree as it is (`smoothWith false`): full statements, refuted for unsorted storage

Witness: the 8-direction full circle stored as `225, 270, 315, 0, 45, 90, 135, 180` (a WW3-like rotated axis). -/

/-- full statement: windows `(1, 1)` give the input back, whatever the storage order -/
def Window1Id (b : Bool) : Prop :=
  ∀ (dirs : Vec) (e : Mat), dirs.Nodup → Rect e dirs.length → smoothWith b dirs dirs e 1 1 = .ok (dirs, e)

/-- full statement: the result does not depend on the storage order — it is the result for the sorted arrangement
    of the same labelled data, read back in stored order -/
def StorageInvariant (b : Bool) : Prop :=
  ∀ (dirs : Vec) (e : Mat) (fw dw : Nat), fw % 2 = 1 → dw % 2 = 1 → dirs.Nodup → Rect e dirs.length →
    (smoothWith b dirs dirs e fw dw).toOption =
      (smoothWith b (sortedDirs dirs) (sortedDirs dirs) (takeCols (sortPerm dirs) e) fw dw).toOption.map fun p =>
        (dirs, takeCols ((List.range dirs.length).map (sortPerm dirs).idxOf) p.2)

/-- full statement: on a full circle smoothing commutes with circular shifts, whatever the storage order -/
def CommutesWithShift (b : Bool) : Prop :=
  ∀ (dirs : Vec) (e : Mat) (fw dw s : Nat), fw % 2 = 1 → dw % 2 = 1 → dirs.Nodup → Rect e dirs.length →
    isCircular (sortedDirs dirs) = true → dw ≤ dirs.length →
    (smoothWith b dirs dirs e fw dw).toOption.isSome = true ∧
    (smoothWith b dirs dirs (rollSorted s dirs e) fw dw).toOption =
      (smoothWith b dirs dirs e fw dw).toOption.map fun p => (p.1, rollSorted s dirs p.2)

def dirsW : Vec := [225, 270, 315, 0, 45, 90, 135, 180]
def specW : Mat := [[0, 0, 0, 7, 5, 4, 2, 2]]

theorem window1_id_fails : ¬ Window1Id false := by
  intro h
  have := h dirsW specW (by decide +kernel) (by decide +kernel)
  revert this
  decide +kernel

theorem storage_invariant_fails : ¬ StorageInvariant false := by
  intro h
  have := h dirsW specW 1 3 rfl rfl (by decide +kernel) (by decide +kernel)
  revert this
  decide +kernel

theorem commutes_with_shift_fails : ¬ CommutesWithShift false := by
  intro h
  have := (h dirsW specW 1 3 1 rfl rfl (by decide +kernel) (by decide +kernel) (by decide +kernel) (by decide +kernel)).2
  revert this
  decide +kernel

/-- what the tree returns on the witness: the SORTED values under the stored labels (energy at 0–180° is reported
    at 225–45°), and no wrap-around averaging although the grid is a full circle -/
example : (smoothWith false dirsW dirsW specW 1 1).toOption = some (dirsW, [[7, 5, 4, 2, 2, 0, 0, 0]]) := by decide +kernel
example : (smoothWith false dirsW dirsW specW 1 3).toOption = some (dirsW, [[0, 16/3, 11/3, 8/3, 4/3, 2/3, 0, 2]]) := by
  decide +kernel
example : (smoothWith true dirsW dirsW specW 1 3).toOption = some (dirsW, [[2/3, 0, 7/3, 4, 16/3, 11/3, 8/3, 4/3]]) := by
  decide +kernel

/-! ## 4. The repaired labelling (`smoothWith true`): full statements for every storage order -/

theorem window1_id_repaired : Window1Id true := by
  intro dirs e hn hrect
  rw [smoothWith_repaired dirs e 1 1 rfl rfl hn]
  congr 2
  conv_rhs => rw [← tab_cellAt e dirs.length hrect]
  apply List.map_congr_left
  intro i hi
  apply List.map_congr_left
  intro k hk
  have hi' : i < e.length := by simpa using hi
  have hk' : k < dirs.length := by simpa using hk
  have hrS : Rect (takeCols (sortPerm dirs) e) dirs.length := by
    have := rect_takeCols (sortPerm dirs) e; rwa [sortPerm_length] at this
  rw [sortedCell_one _ _ _ i _ hrS (by rw [takeCols_length]; exact hi') (idxOf_sortPerm_lt dirs k hk')
      (fun hc => by have := isCircular_two _ hc; rwa [sortedDirs_length] at this),
    cellAt_takeCols, if_pos (by rw [sortPerm_length]; exact idxOf_sortPerm_lt dirs k hk'), getD_idxOf_sortPerm dirs k hk']

theorem storage_invariant_repaired : StorageInvariant true := by
  intro dirs e fw dw hf hd hn hrect
  have hsl := sortedDirs_length dirs
  have hrS : Rect (takeCols (sortPerm dirs) e) (sortedDirs dirs).length := by
    have := rect_takeCols (sortPerm dirs) e; rwa [sortPerm_length, ← hsl] at this
  rw [smoothWith_repaired dirs e fw dw hf hd hn,
    smoothWith_sorted true (sortedDirs dirs) (sortedDirs dirs) (takeCols (sortPerm dirs) e) fw dw hf hd
      (sortedDirs_pairwise dirs hn) (sortedDirs_pairwise dirs hn) rfl hrS]
  simp only [Except.toOption, Option.map_some, Option.some.injEq, Prod.mk.injEq, true_and]
  rw [takeCols_tab _ _ _ _ (by
    intro x hx
    obtain ⟨k, hk, rfl⟩ := List.mem_map.mp hx
    rw [hsl]; exact idxOf_sortPerm_lt dirs k (by simpa using hk))]
  rw [takeCols_length, hsl]
  simp only [List.map_map, Function.comp_def]

theorem commutes_with_shift_repaired : CommutesWithShift true := by
  intro dirs e fw dw s hf hd hn hrect hc hle
  have hnd : 0 < dirs.length := by have := isCircular_two _ hc; rw [sortedDirs_length] at this; omega
  have hrS : Rect (takeCols (sortPerm dirs) e) dirs.length := by
    have := rect_takeCols (sortPerm dirs) e; rwa [sortPerm_length] at this
  have hrect' : Rect (rollSorted s dirs e) dirs.length := by
    intro r hr; obtain ⟨r0, _, rfl⟩ := List.mem_map.mp hr; simp
  have hlen' : (rollSorted s dirs e).length = e.length := by simp [rollSorted]
  -- the sorted view of the rolled spectrum is the rolled sorted view
  have hview : takeCols (sortPerm dirs) (rollSorted s dirs e) = rollCols s (takeCols (sortPerm dirs) e) := by
    rw [← tab_cellAt (takeCols (sortPerm dirs) (rollSorted s dirs e)) dirs.length (by
        have := rect_takeCols (sortPerm dirs) (rollSorted s dirs e); rwa [sortPerm_length] at this),
      ← tab_cellAt (rollCols s (takeCols (sortPerm dirs) e)) dirs.length (rect_rollCols s _ _ hrS)]
    rw [takeCols_length, hlen', rollCols_length, takeCols_length]
    apply List.map_congr_left
    intro i hi
    apply List.map_congr_left
    intro j hj
    have hi' : i < e.length := by simpa using hi
    have hj' : j < dirs.length := by simpa using hj
    have hjp : j < (sortPerm dirs).length := by rw [sortPerm_length]; exact hj'
    have hpj : (sortPerm dirs).getD j 0 < dirs.length := getD_lt_of_forall_mem _ _ _ (sortPerm_lt dirs) hjp
    have hidx : (sortPerm dirs).idxOf ((sortPerm dirs).getD j 0) = j := by
      have : (sortPerm dirs).getD j 0 = (sortPerm dirs)[j] := by simp [List.getD_eq_getElem?_getD, hjp]
      rw [this]; exact (sortPerm_nodup dirs).idxOf_getElem j hjp
    rw [cellAt_takeCols, if_pos hjp, cellAt_rollSorted s dirs e i _ hi' hpj, hidx,
      cellAt_rollCols s _ dirs.length hrS i j (by rw [takeCols_length]; exact hi') hj',
      cellAt_takeCols, if_pos (by rw [sortPerm_length]; exact Nat.mod_lt _ hnd)]
  constructor
  · rw [smoothWith_repaired dirs e fw dw hf hd hn]; rfl
  · rw [smoothWith_repaired dirs e fw dw hf hd hn, smoothWith_repaired dirs (rollSorted s dirs e) fw dw hf hd hn]
    simp only [Except.toOption, Option.map_some, Option.some.injEq, Prod.mk.injEq, true_and]
    rw [hview, hlen', hc]
    -- right-hand side: rollSorted of a tabulated matrix
    have hR : ∀ g : Nat → Nat → ℚ,
        rollSorted s dirs ((List.range e.length).map fun i => (List.range dirs.length).map (g i)) =
          (List.range e.length).map fun i => (List.range dirs.length).map fun k =>
            g i ((sortPerm dirs).getD (((sortPerm dirs).idxOf k + s) % dirs.length) 0) := by
      intro g
      unfold rollSorted
      rw [List.map_map]
      apply List.map_congr_left
      intro i _
      simp only [Function.comp]
      apply List.map_congr_left
      intro k _
      rw [getR_tab, if_pos (getD_lt_of_forall_mem _ _ _ (sortPerm_lt dirs) (by rw [sortPerm_length]; exact Nat.mod_lt _ hnd))]
    rw [hR]
    apply List.map_congr_left
    intro i hi
    apply List.map_congr_left
    intro k hk
    have hi' : i < e.length := by simpa using hi
    have hk' : k < dirs.length := by simpa using hk
    have hm : ((sortPerm dirs).idxOf k + s) % dirs.length < (sortPerm dirs).length := by
      rw [sortPerm_length]; exact Nat.mod_lt _ hnd
    have hidx : (sortPerm dirs).idxOf ((sortPerm dirs).getD (((sortPerm dirs).idxOf k + s) % dirs.length) 0)
        = ((sortPerm dirs).idxOf k + s) % dirs.length := by
      have : (sortPerm dirs).getD (((sortPerm dirs).idxOf k + s) % dirs.length) 0
          = (sortPerm dirs)[((sortPerm dirs).idxOf k + s) % dirs.length] := by simp [List.getD_eq_getElem?_getD, hm]
      rw [this]; exact (sortPerm_nodup dirs).idxOf_getElem _ hm
    rw [hidx]
    exact sortedCell_circ_shift _ _ fw dw i _ s hrS (by omega) hle (by rw [takeCols_length]; exact hi')
      (idxOf_sortPerm_lt dirs k hk')

/-! ## Examples: every hypothesis used above is satisfiable -/

def dirs8 : Vec := [0, 45, 90, 135, 180, 225, 270, 315]
def spec8 : Mat := [[0, 1, 2, 7, 5, 4, 2, 2], [1, 1, 3, 9, 5, 4, 0, 2], [0, 0, 2, 8, 6, 4, 2, 1]]
def dirsP : Vec := [10, 20, 30, 40, 50]
def specP : Mat := [[1, 2, 3, 4, 5], [2, 2, 9, 2, 2], [0, 1, 0, 1, 0]]

set_option linter.defProp false in
def sortedInput8 : SortedInput dirs8 dirs8 spec8 := ⟨by decide +kernel, by decide +kernel, rfl, by decide +kernel⟩
set_option linter.defProp false in
def sortedInputP : SortedInput dirsP dirsP specP := ⟨by decide +kernel, by decide +kernel, rfl, by decide +kernel⟩

example : isCircular dirs8 = true ∧ isCircular dirsP = false ∧ isCircular (sortedDirs dirsW) = true := by decide +kernel
example := even_rejected false dirs8 dirs8 spec8 2 3 (Or.inl rfl)
example : (smoothWith false dirs8 dirs8 spec8 3 3).toOption.isSome = true := by decide +kernel
example := window1_id_partial false sortedInput8
example := full_window_mean_partial false sortedInput8 3 3 rfl rfl (by decide +kernel) (by decide +kernel) 1 0 (by decide +kernel)
  (by decide +kernel)
example := full_window_mean_flat_partial false sortedInputP 3 3 rfl rfl (by decide +kernel) 1 2 (by decide +kernel)
example := edges_from_input_partial false sortedInput8 3 3 rfl rfl (by decide +kernel) 0 0 (by decide +kernel) (by decide +kernel)
  (by decide +kernel)
example := edges_from_input_flat_partial false sortedInputP 3 3 rfl rfl (by decide +kernel) 1 0 (by decide +kernel) (by decide +kernel)
  (by decide +kernel)
example := commutes_with_shift_partial false sortedInput8 3 3 2 rfl rfl (by decide +kernel) (by decide +kernel)
example : blockMean spec8 0 3 3 (circCol 8 3 0) = 8/9 := by decide +kernel     -- bins 315°, 0°, 45° of the three rows
example : InWindow true 3 8 3 3 1 0 0 7 := by decide +kernel                   -- the neighbourhood of bin 0 wraps to bin 7
example : dirsW.Nodup ∧ Rect specW dirsW.length := by decide +kernel
example : (∀ i < spec8.length, ∀ j < dirs8.length, 0 ≤ cellAt spec8 i j) := by decide +kernel
example : rollSorted 1 dirsW specW = [[0, 0, 7, 5, 4, 2, 2, 0]] := by decide +kernel
example := within_window_bounds_partial false sortedInput8 3 3 rfl rfl (fun _ => by decide +kernel) 1 0 (by decide +kernel)
  (by decide +kernel) 0 9 (fun i' k' h =>
    (by decide +kernel : ∀ i' < spec8.length, ∀ k' < dirs8.length, 0 ≤ cellAt spec8 i' k' ∧ cellAt spec8 i' k' ≤ 9) i' h.1 k' h.2.1)
/-- the hypotheses of `value_in_hull` / `nonneg_preserved` on the unsorted witness: a result exists, bounds 0 and 7 hold -/
example : ∃ res, smoothWith false dirsW dirsW specW 1 3 = .ok res ∧ dirsW.length = dirsW.length ∧
    ∀ i < specW.length, ∀ j < dirsW.length, 0 ≤ cellAt specW i j ∧ cellAt specW i j ≤ 7 :=
  ⟨(dirsW, [[0, 16/3, 11/3, 8/3, 4/3, 2/3, 0, 2]]), by decide +kernel, rfl, by decide +kernel⟩
/-- a constant spectrum for `const_preserved` -/
example : ∀ i < [[3, 3, 3, 3, 3, 3, 3, 3]].length, ∀ j < dirsW.length, cellAt [[3, 3, 3, 3, 3, 3, 3, 3]] i j = 3 := by decide +kernel
example := window1_id_repaired dirsW specW (by decide +kernel) (by decide +kernel)
example := storage_invariant_repaired dirsW specW 1 3 rfl rfl (by decide +kernel) (by decide +kernel)
example := commutes_with_shift_repaired dirsW specW 1 3 1 rfl rfl (by decide +kernel) (by decide +kernel) (by decide +kernel)
  (by decide +kernel)

end WS.C16

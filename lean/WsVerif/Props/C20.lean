import WsVerif.Model.Neigh
import WsVerif.Model.Specpart
import WsVerif.Lemmas.Neigh
/-!
# C20 (native half) — the watershed routine stays inside its buffers

Namespace `WS.C20`; self-contained (the Python-level half of C20 is added separately).
Index-range theorems for the loop-simple routines of `specpart.c`, for **all** `nk, nth, ihmax ≥ 1`:

* `ptnghb_in_bounds`   every write `neigh[k + 9n]` (`k ≤ 8`) is inside the `9·nspec` table, every stored neighbour is a
                       valid pixel and at most 8 are stored (so the count slot `8 + 9n` is never overwritten);
* `levels_in_range`    `0 ≤ imi[i] < ihmax`, hence `numv[imi[i]]`, `iaddr[imi[i]]` are in range;
* `ptsort_in_bounds`   the position `iorder[i] = iaddr[imi[i]]` at which `ind` is written is `< nspec`, distinct pixels get
                       distinct positions, and the prefix-sum loop index `i+1` stays `< ihmax`;
* `fifo_add_in_range`, `fifo_first_in_range`   the circular queue indices stay in `[0, nspec)`.

**Proved separately** (`Props/C20fld.lean`, namespace `WS.C20fld`): inside `pt_fld` every `ind[m]`, `neigh[…]`, `iq[…]`,
`imo[…]`, `imd[…]` access is in range, the fictitious pixel `-100` is never used as an index, the queue never overflows
and every `for(;;)` terminates — `partition_memory_safe`, `partition_terminates` for all grids, level counts, integer
spectra and queue fillings (the ASan/UBSan runs of `harness/checks/c20_native.py` remain as exploration of the real C).
-/
namespace WS.C20
open WS.Neigh WS.NeighL WS.SP

/-- `ptnghb`: all table indices written for pixel `n` are inside the table; entries are valid pixels; ≤ 8 of them -/
theorem ptnghb_in_bounds (mk mth n : Nat) (hn : n < mk * mth) :
    (∀ k, k ≤ 8 → k + 9 * n < 9 * (mk * mth)) ∧
    (neighLin mk mth n).length ≤ 8 ∧
    (∀ x ∈ neighLin mk mth n, x < mk * mth) := by
  obtain ⟨hi, hj, e⟩ := decomp hn
  have hrow : neighLin mk mth n = (neighIJ mk mth (n % mk) (n / mk)).map (lin mk) := by
    have := NeighL.neigh_spec mk mth (n % mk) (n / mk) hi hj
    rw [← e] at this; exact this
  refine ⟨fun k hk => by omega, ?_, ?_⟩
  · rw [hrow, List.length_map]; exact neighIJ_length_le _ _ _ _
  · rw [hrow]
    intro x hx
    obtain ⟨p, hp, rfl⟩ := List.mem_map.mp hx
    have := neighIJ_bounds hi hj hp
    exact lin_lt this.1 this.2

/-- `imi[i] = fmax(0, fmin(ihmax-1, round(..)))` is a valid index of `numv`/`iaddr` (size `ihmax`) -/
theorem levels_in_range (ihmax : Nat) (h : 1 ≤ ihmax) (zmin zmax z : Int) : levelOf ihmax zmin zmax z < ihmax := by
  have : levelOf ihmax zmin zmax z ≤ ihmax - 1 := by unfold levelOf; exact Nat.min_le_right _ _
  omega

theorem fifo_add_in_range (nspec qe : Int) (hn : 1 ≤ nspec) (h0 : 0 ≤ qe) (h1 : qe < nspec) :
    0 ≤ fifoNextEnd nspec qe ∧ fifoNextEnd nspec qe < nspec := by
  unfold fifoNextEnd; split <;> omega

theorem fifo_first_in_range (nspec qs : Int) (hn : 1 ≤ nspec) (h0 : 0 ≤ qs) (h1 : qs < nspec) :
    0 ≤ fifoNextStart nspec qs ∧ fifoNextStart nspec qs < nspec := by
  unfold fifoNextStart; split <;> omega

example : fifoNextEnd 1 0 = 0 ∧ fifoNextStart 1 0 = 0 ∧ fifoNextEnd 5 3 = 4 ∧ fifoNextEnd 5 4 = 0 := by decide

/-! ### counting sort positions -/

theorem countP_disjoint {α} (p q : α → Bool) (hpq : ∀ x, ¬(p x = true ∧ q x = true)) (l : List α) :
    l.countP p + l.countP q ≤ l.length := by
  induction l with
  | nil => simp
  | cons a l ih =>
    simp only [List.countP_cons, List.length_cons]
    have := hpq a
    cases hp : p a <;> cases hq : q a <;> simp_all <;> omega

/-- `ptsort`: the slot of pixel `i` (number of pixels of lower level + earlier pixels of the same level) is `< nspec` -/
theorem slot_lt (nspec : Nat) (imi : Nat → Nat) (i : Nat) (hi : i < nspec) : slot nspec imi i < nspec := by
  unfold slot
  obtain ⟨m, rfl⟩ : ∃ m, nspec = i + (m + 1) := ⟨nspec - i - 1, by omega⟩
  rw [← List.countP_eq_length_filter, ← List.countP_eq_length_filter, List.range_add, List.countP_append]
  have h1 := countP_disjoint (fun x => decide (imi x < imi i)) (fun x => imi x == imi i)
    (by intro x ⟨ha, hb⟩; simp at ha hb; omega) (List.range i)
  have h2 : ((List.range (m + 1)).map (i + ·)).countP (fun x => decide (imi x < imi i)) ≤ m := by
    rw [List.range_succ_eq_map, List.map_cons, List.countP_cons]
    have : decide (imi (i + 0) < imi i) = false := by simp
    rw [this]
    have := List.countP_le_length (p := fun x => decide (imi x < imi i)) (l := (List.map Nat.succ (List.range m)).map (i + ·))
    simp at this ⊢
    exact this
  rw [List.length_range] at h1
  omega

/-- distinct pixels get distinct slots (so `ind` is written exactly once per position) -/
theorem slot_inj_same_level (nspec : Nat) (imi : Nat → Nat) (i j : Nat) (hij : i < j) (hl : imi i = imi j) :
    slot nspec imi i < slot nspec imi j := by
  unfold slot
  rw [hl]
  obtain ⟨d, rfl⟩ : ∃ d, j = i + (d + 1) := ⟨j - i - 1, by omega⟩
  rw [List.range_add, List.filter_append, List.length_append, List.range_succ_eq_map, List.map_cons, List.filter_cons]
  have : (imi (i + 0) == imi (i + (d + 1))) = true := by simp [hl]
  rw [this]
  simp only [if_true, List.length_cons]
  omega

/-- `ptsort` writes `ind[iorder[i]]` with `iorder[i] < nspec`; the histogram/prefix loops index `numv`, `iaddr`
    (size `ihmax`) at `imi[i] < ihmax` and at `i+1 ≤ ihmax-1` -/
theorem ptsort_in_bounds (ihmax nspec : Nat) (h : 1 ≤ ihmax) (zmin zmax : Int) (z : Nat → Int) :
    let imi := fun p => levelOf ihmax zmin zmax (z p)
    (∀ i, i < nspec → imi i < ihmax) ∧
    (∀ i, i < ihmax - 1 → i + 1 < ihmax) ∧
    (∀ i, i < nspec → slot nspec imi i < nspec) := by
  intro imi
  exact ⟨fun i _ => levels_in_range ihmax h zmin zmax (z i), fun i hi => by omega, fun i hi => slot_lt nspec imi i hi⟩

end WS.C20

import WsVerif.Model.Peak
import WsVerif.Lemmas.Argmax
import WsVerif.Gen.Tps
import WsVerif.Gen.Lits
import WsVerif.Model.Consts
import Mathlib.Tactic.Ring
import Mathlib.Tactic.FieldSimp
import Mathlib.Tactic.Positivity
import WsVerif.Gen.NpKernels
import WsVerif.Model.NpTwins
import WsVerif.Lemmas.NpBridge
/-!
# C02 — peak parameters are taken at the true spectral peak
-/
namespace WS.C02
open WS WS.Stats WS.Peak

/-- interior strict local maximum, as a proposition -/
def IsInteriorStrictMax (a : Vec) (q : Nat) : Prop :=
  0 < q ∧ q + 1 < a.length ∧ getR a (q - 1) < getR a q ∧ getR a (q + 1) < getR a q

theorem isPeak_iff (a : Vec) (q : Nat) : isPeak a q = true ↔ IsInteriorStrictMax a q := by
  unfold isPeak IsInteriorStrictMax
  simp [Bool.and_eq_true, and_assoc]

theorem masked_length (a : Vec) : (masked a).length = a.length := by simp [masked]

theorem masked_get (a : Vec) (i : Nat) (h : i < a.length) :
    getR (masked a) i = if isPeak a i then getR a i else 0 := by
  unfold masked getR
  simp [List.getD_eq_getElem?_getD, h]

theorem masked_zero (a : Vec) (h : 0 < a.length) : getR (masked a) 0 = 0 := by
  rw [masked_get a 0 h]; simp [isPeak]

/-- **peak index**: either `0` (no usable peak) or an interior strict local maximum that dominates every
    other interior strict local maximum, the first one among equals. -/
theorem peakIdx_spec (a : Vec) :
    peakIdx a = 0 ∨
      (IsInteriorStrictMax a (peakIdx a) ∧
        ∀ q, IsInteriorStrictMax a q →
          getR a q ≤ getR a (peakIdx a) ∧ (getR a q = getR a (peakIdx a) → peakIdx a ≤ q)) := by
  by_cases hp : peakIdx a = 0
  · exact Or.inl hp
  right
  have hne : masked a ≠ [] := by
    intro h
    apply hp; unfold peakIdx; rw [h]; rfl
  have hlen : 0 < a.length := by
    rw [← masked_length]; exact List.length_pos_iff.mpr hne
  obtain ⟨hlt, hmax⟩ := argmaxFirst_spec (masked a) hne
  rw [masked_length] at hlt hmax
  have hpi : peakIdx a = argmaxFirst (masked a) := rfl
  rw [← hpi] at hlt hmax
  have hpk : isPeak a (peakIdx a) = true := by
    by_contra hnp
    have h0 := (hmax 0 hlen).2 (Nat.pos_of_ne_zero hp)
    rw [masked_zero a hlen] at h0
    have : getR (masked a) (peakIdx a) = 0 := by
      rw [masked_get a _ hlt]; simp [hnp]
    linarith
  refine ⟨(isPeak_iff a _).mp hpk, fun q hq => ?_⟩
  have hq' : isPeak a q = true := (isPeak_iff a q).mpr hq
  have hql : q < a.length := by have := hq.2.1; omega
  have hmq := hmax q hql
  have e1 : getR (masked a) q = getR a q := by rw [masked_get a q hql]; simp [hq']
  have e2 : getR (masked a) (peakIdx a) = getR a (peakIdx a) := by
    rw [masked_get a _ hlt]; simp [hpk]
  rw [e1, e2] at hmq
  refine ⟨hmq.1, fun heq => ?_⟩
  by_contra hlt'
  have := hmq.2 (by omega)
  linarith

/-- for a non-negative spectrum the peak index is `0` exactly when there is no interior strict local
    maximum — so NaN peak parameters are produced in that case and only in that case -/
theorem peakIdx_zero_iff (a : Vec) (h0 : ∀ i, 0 ≤ getR a i) :
    peakIdx a = 0 ↔ ¬ ∃ q, IsInteriorStrictMax a q := by
  constructor
  · intro hp ⟨q, hq⟩
    have hql : q < a.length := by have := hq.2.1; omega
    have hne : masked a ≠ [] := by
      intro h; have := masked_length a; rw [h] at this; simp at this; omega
    obtain ⟨_, hmax⟩ := argmaxFirst_spec (masked a) hne
    rw [masked_length] at hmax
    have hq' : isPeak a q = true := (isPeak_iff a q).mpr hq
    have := (hmax q hql).1
    rw [masked_get a q hql] at this
    simp only [hq', if_true] at this
    have hz : getR (masked a) (argmaxFirst (masked a)) = 0 := by
      have : argmaxFirst (masked a) = 0 := hp
      rw [this]; exact masked_zero a (by omega)
    rw [hz] at this
    have := hq.2.2.1
    have := h0 (q - 1)
    linarith
  · intro hno
    rcases peakIdx_spec a with h | ⟨h, _⟩
    · exact h
    · exact absurd ⟨_, h⟩ hno

/-- the smooth and the discrete peak frequency are NaN exactly when no peak was detected, and the
    discrete one is the frequency coordinate *at the detected peak* -/
theorem fp_none_iff (f S : Vec) :
    (fpSmooth f S = none ↔ peakIdx S = 0) ∧ (fpDiscrete f S = none ↔ peakIdx S = 0) ∧
    (peakIdx S ≠ 0 → fpDiscrete f S = some (getR f (peakIdx S))) := by
  unfold fpSmooth fpDiscrete
  by_cases h : peakIdx S = 0 <;> simp [h]

/-! ### the parabolic fit -/

/-- the three-point parabola interpolates the three bins -/
theorem parab_interp (f1 f2 f3 e1 e2 e3 : ℚ) (h12 : f1 ≠ f2) (h13 : f1 ≠ f3) (h23 : f2 ≠ f3) :
    let q12 := (e1 - e2) / (f1 - f2)
    let qa := Peak.qa f1 f2 f3 e1 e2 e3
    parab f1 f2 e1 q12 qa f1 = e1 ∧ parab f1 f2 e1 q12 qa f2 = e2 ∧ parab f1 f2 e1 q12 qa f3 = e3 := by
  have a : f1 - f2 ≠ 0 := sub_ne_zero.mpr h12
  have b : f1 - f3 ≠ 0 := sub_ne_zero.mpr h13
  have c : f3 - f2 ≠ 0 := sub_ne_zero.mpr (Ne.symm h23)
  refine ⟨?_, ?_, ?_⟩ <;> simp only [parab, Peak.qa] <;> field_simp <;> ring

/-- pure algebra: a parabola in Newton form is `p(v) + qa·(x − v)²` around `v = (f1+f2 − q12/qa)/2` -/
theorem parab_vertex (f1 f2 e1 q12 qa x : ℚ) (hqa : qa ≠ 0) :
    parab f1 f2 e1 q12 qa x =
      parab f1 f2 e1 q12 qa ((f1 + f2 - q12 / qa) / 2) + qa * (x - (f1 + f2 - q12 / qa) / 2) ^ 2 := by
  simp only [parab]
  field_simp
  ring

/-- `tps` returns the vertex of the parabola through the three bins -/
theorem tpsFp_vertex (f1 f2 f3 e1 e2 e3 x : ℚ) (hqa : Peak.qa f1 f2 f3 e1 e2 e3 ≠ 0) :
    parab f1 f2 e1 ((e1 - e2) / (f1 - f2)) (Peak.qa f1 f2 f3 e1 e2 e3) x =
      parab f1 f2 e1 ((e1 - e2) / (f1 - f2)) (Peak.qa f1 f2 f3 e1 e2 e3) (tpsFp f1 f2 f3 e1 e2 e3) +
        Peak.qa f1 f2 f3 e1 e2 e3 * (x - tpsFp f1 f2 f3 e1 e2 e3) ^ 2 :=
  parab_vertex f1 f2 e1 _ _ x hqa

/-- helper: at a strict peak the second divided difference is negative -/
theorem qa_neg (f1 f2 f3 e1 e2 e3 : ℚ) (h12 : f1 < f2) (h23 : f2 < f3) (he1 : e1 < e2) (he3 : e3 < e2) :
    Peak.qa f1 f2 f3 e1 e2 e3 < 0 := by
  unfold Peak.qa
  have a : f1 - f2 < 0 := by linarith
  have b : f1 - f3 < 0 := by linarith
  have c : 0 < f3 - f2 := by linarith
  apply div_neg_of_neg_of_pos _ c
  rw [sub_neg]
  have h1 : (e1 - e3) / (f1 - f3) = (e3 - e1) / (f3 - f1) := by
    rw [← neg_sub e3 e1, ← neg_sub f3 f1, neg_div_neg_eq]
  have h2 : (e1 - e2) / (f1 - f2) = (e2 - e1) / (f2 - f1) := by
    rw [← neg_sub e2 e1, ← neg_sub f2 f1, neg_div_neg_eq]
  rw [h1, h2, div_lt_div_iff₀ (by linarith) (by linarith)]
  nlinarith [mul_pos (sub_pos.mpr he1) c, mul_pos (sub_pos.mpr he3) (sub_pos.mpr h12)]

/-- symmetric form of the vertex: `fp = (f2+f3)/2 − q23/(2·qa)` -/
theorem tpsFp_symm (f1 f2 f3 e1 e2 e3 : ℚ) (h12 : f1 ≠ f2) (h13 : f1 ≠ f3) (h23 : f2 ≠ f3)
    (hqa : Peak.qa f1 f2 f3 e1 e2 e3 ≠ 0) :
    tpsFp f1 f2 f3 e1 e2 e3 = (f2 + f3 - ((e2 - e3) / (f2 - f3)) / Peak.qa f1 f2 f3 e1 e2 e3) / 2 := by
  have a : f1 - f2 ≠ 0 := sub_ne_zero.mpr h12
  have b : f1 - f3 ≠ 0 := sub_ne_zero.mpr h13
  have c : f3 - f2 ≠ 0 := sub_ne_zero.mpr (Ne.symm h23)
  have c' : f2 - f3 ≠ 0 := sub_ne_zero.mpr h23
  have key : (e2 - e3) / (f2 - f3) = (e1 - e2) / (f1 - f2) + Peak.qa f1 f2 f3 e1 e2 e3 * (f3 - f1) := by
    unfold Peak.qa; field_simp; ring
  rw [key]
  have : tpsFp f1 f2 f3 e1 e2 e3 = (f1 + f2 - ((e1 - e2) / (f1 - f2)) / Peak.qa f1 f2 f3 e1 e2 e3) / 2 := rfl
  rw [this]
  field_simp
  ring

/-- **the fitted peak lies strictly between the midpoints of the neighbouring bins** -/
theorem tpsFp_between (f1 f2 f3 e1 e2 e3 : ℚ) (h12 : f1 < f2) (h23 : f2 < f3)
    (he1 : e1 < e2) (he3 : e3 < e2) :
    (f1 + f2) / 2 < tpsFp f1 f2 f3 e1 e2 e3 ∧ tpsFp f1 f2 f3 e1 e2 e3 < (f2 + f3) / 2 := by
  have hq := qa_neg f1 f2 f3 e1 e2 e3 h12 h23 he1 he3
  constructor
  · have : tpsFp f1 f2 f3 e1 e2 e3 = (f1 + f2 - ((e1 - e2) / (f1 - f2)) / Peak.qa f1 f2 f3 e1 e2 e3) / 2 := rfl
    rw [this]
    have hq12 : 0 < (e1 - e2) / (f1 - f2) := div_pos_of_neg_of_neg (by linarith) (by linarith)
    have : ((e1 - e2) / (f1 - f2)) / Peak.qa f1 f2 f3 e1 e2 e3 < 0 := div_neg_of_pos_of_neg hq12 hq
    linarith
  · rw [tpsFp_symm f1 f2 f3 e1 e2 e3 (ne_of_lt h12) (by intro h; linarith) (ne_of_lt h23) (ne_of_lt hq)]
    have hq23 : (e2 - e3) / (f2 - f3) < 0 := div_neg_of_pos_of_neg (by linarith) (by linarith)
    have : 0 < ((e2 - e3) / (f2 - f3)) / Peak.qa f1 f2 f3 e1 e2 e3 := div_pos_of_neg_of_neg hq23 hq
    linarith

/-- hence the smooth peak period lies strictly between the reciprocals of the neighbouring frequencies -/
theorem tps_between_recip (f1 f2 f3 e1 e2 e3 : ℚ) (h0 : 0 < f1) (h12 : f1 < f2) (h23 : f2 < f3)
    (he1 : e1 < e2) (he3 : e3 < e2) :
    1 / f3 < 1 / tpsFp f1 f2 f3 e1 e2 e3 ∧ 1 / tpsFp f1 f2 f3 e1 e2 e3 < 1 / f1 := by
  obtain ⟨hl, hu⟩ := tpsFp_between f1 f2 f3 e1 e2 e3 h12 h23 he1 he3
  have hp : 0 < tpsFp f1 f2 f3 e1 e2 e3 := by linarith
  constructor
  · apply one_div_lt_one_div_of_lt hp; linarith
  · apply one_div_lt_one_div_of_lt h0; linarith

/-- T-tier bridge: the regenerated `npstats.tps` is `1/tpsFp` at the bins `p−1, p, p+1` -/
theorem gen_tps_eq (p : Nat) (S f : Vec) :
    Gen.tps p S f = if p = 0 then none else
      some (1 / tpsFp (getR f (p-1)) (getR f p) (getR f (p+1)) (getR S (p-1)) (getR S p) (getR S (p+1))) := by
  rfl

theorem gen_tp_eq (p : Nat) (S f : Vec) :
    Gen.tp p S f = if p = 0 then none else some (1 / getR f p) := by
  rfl

/-- the smooth peak period of the model at the detected peak is between the neighbours' reciprocals -/
theorem tp_smooth_between (f S : Vec) (hf : ∀ i, i + 1 < f.length → getR f i < getR f (i + 1))
    (hpos : 0 < getR f (peakIdx S - 1)) (hlen : S.length = f.length) (hp : peakIdx S ≠ 0) :
    ∃ fp, fpSmooth f S = some fp ∧
      1 / getR f (peakIdx S + 1) < 1 / fp ∧ 1 / fp < 1 / getR f (peakIdx S - 1) := by
  rcases peakIdx_spec S with h | ⟨⟨h0, h1, h2, h3⟩, _⟩
  · exact absurd h hp
  refine ⟨_, by unfold fpSmooth; simp only [hp, if_false]; rfl, ?_⟩
  have a := hf (peakIdx S - 1) (by omega)
  have b := hf (peakIdx S) (by omega)
  have e : peakIdx S - 1 + 1 = peakIdx S := by omega
  rw [e] at a
  exact tps_between_recip _ _ _ _ _ _ hpos a b h2 h3

/-! ### peak direction -/

/-- `dp` is the coordinate of the first maximum of the frequency-summed spectrum -/
theorem dp_is_argmax (m : Nat) (e : Mat) (hm : 0 < m) :
    dpIdx m e < m ∧ ∀ j < m, getR (colSums m e) j ≤ getR (colSums m e) (dpIdx m e) ∧
      (j < dpIdx m e → getR (colSums m e) j < getR (colSums m e) (dpIdx m e)) := by
  have hl : (colSums m e).length = m := by simp [colSums]
  have hne : colSums m e ≠ [] := by intro h; rw [h] at hl; simp at hl; omega
  have := argmaxFirst_spec (colSums m e) hne
  rw [hl] at this
  exact this

/-- `dpm` and `dpspr` use the row of the detected peak and are NaN exactly when there is none -/
theorem dpm_at_peak (ddv : ℚ) (s c : Vec) (e : Mat) :
    (dpmVec ddv s c e = none ↔ peakIdx (oned ddv e) = 0) ∧
    (peakIdx (oned ddv e) ≠ 0 → dpmVec ddv s c e =
      some (getR (momdRow ddv s e) (peakIdx (oned ddv e)), getR (momdRow ddv c e) (peakIdx (oned ddv e)))) := by
  unfold dpmVec
  by_cases h : peakIdx (oned ddv e) = 0 <;> simp [h]

theorem dpspr_at_peak (ddv : ℚ) (s c f : Vec) (e : Mat) :
    (dpsprABE ddv s c f e = none ↔ peakIdx (oned ddv e) = 0) := by
  unfold dpsprABE
  by_cases h : peakIdx (oned ddv e) = 0 <;> simp [h]

/-! ### alpha window -/

theorem windowIdx_lt (lo hi fp : ℚ) (f : Vec) : ∀ i ∈ windowIdx lo hi fp f, i < f.length := by
  intro i hi'
  unfold windowIdx at hi'
  exact List.mem_range.mp (List.mem_filter.mp hi').1

/-- every index used by the tail fit is a valid frequency index (grids with ≥ 2 frequencies) -/
theorem alpha_window_indices_valid (lo hi fp : ℚ) (f : Vec) (h2 : 2 ≤ f.length) :
    ∀ i ∈ alphaPos lo hi fp f, i < f.length := by
  intro i hi'
  unfold alphaPos at hi'
  split at hi'
  · simp at hi'; omega
  · rename_i j hj
    have hjl : j < f.length := windowIdx_lt lo hi fp f j (by rw [hj]; simp)
    split at hi' <;> simp at hi' <;> omega
  · exact windowIdx_lt lo hi fp f i hi'

/-- with two or more frequencies inside `(lo·fp, hi·fp)` the fit uses exactly those -/
theorem alpha_uses_window (lo hi fp : ℚ) (f : Vec) (h : 2 ≤ (windowIdx lo hi fp f).length) :
    alphaPos lo hi fp f = windowIdx lo hi fp f := by
  unfold alphaPos
  split
  · rename_i h0; rw [h0] at h; simp at h
  · rename_i j hj; rw [hj] at h; simp at h
  · rfl

theorem lits_alpha_window : (Gen.lits_npstats_alpha.take 2) = [Consts.alphaLo, Consts.alphaHi] := by
  decide +kernel

theorem lits_gamma : Gen.lits_specarray_gamma =
    [Consts.gammaA, 2, 4, 5, Consts.gammaB] ++
      (Consts.gammaPoly.reverse.map fun x => if x < 0 then -x else x) ++ [0, 1, 1, 1] := by
  decide +kernel

/-! ### gamma -/

/-- full statement of the property for gamma: the numerator is the density at the detected peak -/
def GammaAtPeak : Prop :=
  ∀ (a b hsE fp : ℚ) (S : Vec), peakIdx S ≠ 0 →
    gammaRaw a b hsE fp S = (gammaRaw a b hsE fp [getR S (peakIdx S)])

/-- as coded, gamma uses the *global* maximum of `E(f)`; when that is the detected peak the property holds -/
theorem gamma_at_peak_partial (a b hsE fp : ℚ) (S : Vec) (hmax : maxD S 0 = getR S (peakIdx S))
    (hnn : 0 ≤ getR S (peakIdx S)) :
    gammaRaw a b hsE fp S = gammaRaw a b hsE fp [getR S (peakIdx S)] := by
  unfold gammaRaw
  have : maxD [getR S (peakIdx S)] 0 = getR S (peakIdx S) := by
    simp only [maxD, List.foldl]
    split <;> [rfl; (rename_i h; linarith [not_lt.mp h])]
  rw [hmax, this]

/-- … and it fails when a larger value sits on the boundary: `E = [10,1,2,5,2,1]` (peak at index 3) -/
theorem gamma_full_fails : ¬ GammaAtPeak := by
  intro h
  have := h (5/16) 1 1 1 [10, 1, 2, 5, 2, 1] (by decide +kernel)
  revert this
  decide +kernel

example : peakIdx [10, 1, 2, 5, 2, 1] = 3 := by decide +kernel
example : peakIdx [1, 2, 2, 1] = 0 := by decide +kernel   -- flat top: no strict peak
example : peakIdx [0, 3, 1, 3, 0] = 1 := by decide +kernel -- equal peaks: the first

/-! ## T-tier: regenerated kernels

`npstats.dpm`, `dp`, `dpspr`, `tp` (NaN rule `if not ipeak`) and `npstats.alpha` (window selection with
`np.where`, the three cases of `pos`, `term1`, `term2`) are regenerated in full into `Gen/NpKernels.lean` and
identified here with the `Peak` model for all inputs.  `np.arctan2` splits `dpm` into its argument pair and the
arithmetic after it; `np.exp(1.25·(fp/f)⁴)` is an oracle table whose argument function is regenerated. -/

theorem gen_dpm_eq (p : Nat) (ms mc : Vec) :
    Gen.npDpmVec p ms mc = atPeak p (getR ms p, getR mc p) := rfl

example : Gen.npDpmVec 0 [1, 2] [3, 4] = none ∧ Gen.npDpmVec 1 [1, 2] [3, 4] = some (2, 4) := by decide +kernel

/-- the model's `dpmVec` is the regenerated `dpm` applied at the detected peak to the model's moment rows -/
theorem gen_dpm_model_eq (ddv : ℚ) (s c : Vec) (e : Mat) :
    dpmVec ddv s c e = Gen.npDpmVec (peakIdx (oned ddv e)) (momdRow ddv s e) (momdRow ddv c e) := rfl

theorem gen_dpm_post_eq (pi a : ℚ) : Gen.npDpmPost pi a = Stats.dirOfAtan pi a := rfl

theorem gen_dp_eq (p : Nat) (dir : Vec) : Gen.npDp p dir = getR dir p := rfl

theorem gen_dpspr_eq (p : Nat) (v : Vec) : Gen.npDpspr p v = atPeak p (getR v p) := rfl

theorem gen_npTp_eq (p : Nat) (S f : Vec) : Gen.npTp p S f = Gen.tp p S f ∧ Gen.npTp p S f = atPeak p (1 / getR f p) :=
  ⟨rfl, rfl⟩

theorem gen_alpha_pos_eq (fp : ℚ) (f : Vec) :
    Gen.npAlphaPos f fp = alphaPos Consts.alphaLo Consts.alphaHi fp f := by
  unfold Gen.npAlphaPos alphaPos
  have := where_window_eq Consts.alphaLo Consts.alphaHi fp f
  unfold Consts.alphaLo Consts.alphaHi at this ⊢
  simp only [this]
  rcases windowIdx _ _ fp f with _ | ⟨i, _ | ⟨j, l⟩⟩ <;> simp

/-- non-vacuity: on `f = 0.1, 0.2, …, 0.6` with `fp = 0.2` the window `(0.27, 0.4)` holds the single bin 2 → `[2, 3]` -/
example : Gen.npAlphaPos [1/10, 1/5, 3/10, 2/5, 1/2, 3/5] (1/5) = [2, 3] := by decide +kernel

/-- `npstats.alpha` -/
theorem gen_alpha_val_eq (pi g fp : ℚ) (S f ex : Vec) :
    Gen.npAlpha pi g S f fp ((alphaPos Consts.alphaLo Consts.alphaHi fp f).map fun i => getR ex i) =
      alphaVal ((2 * pi) ^ 4 / g ^ 2) (alphaPos Consts.alphaLo Consts.alphaHi fp f) f S ex := by
  have h : Gen.npAlpha pi g S f fp ((alphaPos Consts.alphaLo Consts.alphaHi fp f).map fun i => getR ex i) =
      (let pos := Gen.npAlphaPos f fp
       (2 * pi) ^ 4 / g ^ 2 / (((pos.getLastD 0 : Nat) : ℚ) - ((pos.getD 0 0 : Nat) : ℚ) + 1) *
        (List.zipWith (fun a b => a * b) (List.zipWith (fun a b => a * b) (pos.map fun i => getR S i)
          (List.map (fun t => t ^ 5) (pos.map fun i => getR f i)))
          ((alphaPos Consts.alphaLo Consts.alphaHi fp f).map fun i => getR ex i)).sum) := rfl
  rw [h, gen_alpha_pos_eq]
  simp only [alphaVal, sum_zip3_map]
  congr 3
  cases alphaPos Consts.alphaLo Consts.alphaHi fp f <;> rfl

theorem gen_alpha_table :
    Gen.npAlpha_ex_fn = "np.exp(·)" ∧ ∀ fp f : ℚ, Gen.npAlpha_ex_arg fp f = alphaExpArg fp f :=
  ⟨by decide +kernel, fun _ _ => rfl⟩

end WS.C02

import WsVerif.Props.C10
import WsVerif.Props.C02xr
/-!
# C10 — T-tier, xarray level: the regenerated `scale_by_hs` is the `scaleByHs` of the property theorems

`Props/C10.lean` states `scale_by_hs` on the direction-integrated spectrum with the condition as a Boolean parameter.  Here the
regenerated method (`Gen.xrScaleByHs`, bridged in `Props/C02xr.lean`) is read on `oned`: it IS `C10.scaleByHs` with the regenerated mask
(`XrP.scaleMask`) as the condition, so `C10.scale_by_hs` / `scale_by_hs_else` hold of the regenerated text.
-/
namespace WS.C10
open WS WS.Stats WS.Peak

theorem genxrp_scale_by_hs_oned (pi : ℚ) (atan2 : ℚ → ℚ → ℚ) (sqrt : ℚ → ℚ) (f d : Vec) (E E' : Mat) (ddv : ℚ)
    (hsLo hsHi tpLo tpHi dpmLo dpmHi : XrP.Bound) (expr : ℚ) (c s : Vec)
    (h2 : sqrt (hsE Consts.thr Consts.quarter true f (oned ddv E)) ^ 2 = hsE Consts.thr Consts.quarter true f (oned ddv E))
    (h0 : sqrt (hsE Consts.thr Consts.quarter true f (oned ddv E)) ≠ 0)
    (h : Gen.xrScaleByHs pi atan2 sqrt f d E (df f) ddv hsLo hsHi tpLo tpHi dpmLo dpmHi expr c s = some E') :
    oned ddv E' =
      scaleByHs Consts.thr Consts.quarter true expr
        (XrP.scaleMask hsLo hsHi tpLo tpHi dpmLo dpmHi (4 * sqrt (hsE Consts.thr Consts.quarter true f (oned ddv E)))
          ((C02.fpModel true f (oned ddv E)).map fun x => 1 / x)
          ((dpmVec ddv s c E).map fun v => Stats.dirOfAtan pi (atan2 v.1 v.2)))
        f (oned ddv E) := by
  rw [C02.genxrp_scale_by_hs_eq] at h
  simp only [C02.genxrp_scale_factor sqrt expr _ h2 h0, XrP.scaleByHsXr] at h
  unfold scaleByHs
  split at h
  · rename_i hm
    simp only [Option.map_some, Option.some.injEq] at h
    rw [if_pos hm, ← h]
    exact oned_smul ddv _ E
  · rename_i hm
    simp only [Option.some.injEq] at h
    rw [if_neg hm, h]

/-- hence, where the regenerated mask holds, the rescaled spectrum has exactly `hs² = expr²` -/
theorem genxrp_scale_by_hs_target (pi : ℚ) (atan2 : ℚ → ℚ → ℚ) (sqrt : ℚ → ℚ) (f d : Vec) (E E' : Mat) (ddv : ℚ)
    (hsLo hsHi tpLo tpHi dpmLo dpmHi : XrP.Bound) (expr : ℚ) (c s : Vec)
    (h2 : sqrt (hsE Consts.thr Consts.quarter true f (oned ddv E)) ^ 2 = hsE Consts.thr Consts.quarter true f (oned ddv E))
    (h0 : sqrt (hsE Consts.thr Consts.quarter true f (oned ddv E)) ≠ 0)
    (hm : XrP.scaleMask hsLo hsHi tpLo tpHi dpmLo dpmHi (4 * sqrt (hsE Consts.thr Consts.quarter true f (oned ddv E)))
          ((C02.fpModel true f (oned ddv E)).map fun x => 1 / x)
          ((dpmVec ddv s c E).map fun v => Stats.dirOfAtan pi (atan2 v.1 v.2)) = true)
    (h : Gen.xrScaleByHs pi atan2 sqrt f d E (df f) ddv hsLo hsHi tpLo tpHi dpmLo dpmHi expr c s = some E') :
    hsE Consts.thr Consts.quarter true f (oned ddv E') = expr ^ 2 / 16 := by
  rw [genxrp_scale_by_hs_oned pi atan2 sqrt f d E E' ddv hsLo hsHi tpLo tpHi dpmLo dpmHi expr c s h2 h0 h, hm]
  apply scale_by_hs
  intro hz
  apply h0
  have h3 : sqrt (hsE Consts.thr Consts.quarter true f (oned ddv E)) ^ 2 = 0 := by rw [h2]; exact hz
  exact (pow_eq_zero_iff (n := 2) (by norm_num)).mp h3

end WS.C10

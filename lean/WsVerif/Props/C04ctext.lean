import WsVerif.Gen.CText
/-!
# C04 — the C text the transliteration was validated against

`Model/Specpart.lean`, `Model/Neigh.lean` and `Model/Flood.lean` are a hand transliteration of `specpart.c`; the tie to the
real C is the stream comparison on exhaustively enumerated small grids and random large ones.  That comparison was made for
exactly this source text.  The translator (`harness/translate_c.py`) regenerates, on every run, a digest of the normalised
token stream (comments and white space removed) of every function of `specpart.c`; the theorem below pins them.  Any edit of
the C routine — also one that the quick enumeration would not notice, such as a changed tolerance that matters only for
spectra of very small magnitude, or a loop bound that matters only on rare plateau configurations — breaks this obligation;
the check then switches to its deepest search (larger exhaustive spaces, magnitude sweeps) for a failing input.
-/
namespace WS.C04

theorem specpart_c_text : Gen.ctext_specpart =
    [("<file scope>", "113a643e11711aa4"),
     ("partinit", "54188e1a74ac1891"),
     ("partition", "080d86c673f28906"),
     ("ptsort", "c0a724861a02f697"),
     ("ptnghb", "e3bb2e9a48fb3c1a"),
     ("int_minval", "eed54a7560dfd61c"),
     ("fifo_add", "5b44ab4d9cc786f9"),
     ("fifo_empty", "c1b75b554014f46d"),
     ("fifo_first", "d7657c58c5001f39"),
     ("pt_fld", "ef7f752b3a2de822")] ∧
    Gen.ctext_specpart_h = [("<file scope>", "ced05b336c3acfaa")] := by
  constructor <;> decide +kernel

end WS.C04

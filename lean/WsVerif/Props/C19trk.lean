import WsVerif.Props.C19
import WsVerif.Model.TrackNp
import WsVerif.Lemmas.TrkBridge
import WsVerif.Gen.TrackKernels
/-!
# C19, T-tier: the WHOLE tracking functions regenerated from `wavespectra/partition/tracking.py`

`harness/translate_trk.py` translates the complete bodies of `dfp_wsea`, `dfp_swell`, `match_consecutive_partitions`
and `np_track_partitions` into `Gen/TrackKernels.lean` on every run.  The theorems below identify each generated
definition with the hand-written model (`Model/Track.lean`, `Model/TrackNp.lean`) **for all inputs**: same arguments,
same result.  Every property theorem of `Props/C19.lean` is about that model, so with these bridges it is a theorem
about what the source says *now*; an edit of the source changes the generated text and a bridge stops compiling.

Conventions of the generated code: `Model/TrkRt.lean` (2-D arrays as lists of columns, NaN = `none`, `Int` ids).
-/
namespace WS.C19
open WS WS.Track WS.Trk WS.TrkBridge

/-! ## scalar thresholds -/

/-- `dfp_wsea`: the generated kernel is the model's formula (`pow` = the same oracle on both sides) -/
theorem gentrk_dfp_wsea_eq (pow : ℚ → ℚ → ℚ) (g wspd fp dt scaling : ℚ) :
    Gen.trkDfpWsea pow g wspd fp dt scaling = Track.dfpWsea pow g wspd fp dt scaling := by
  have h : ((-7746191359077253 : ℚ) / 18014398509481984) = -wseaExpT := by decide +kernel
  unfold Gen.trkDfpWsea Track.dfpWsea
  rw [h]
  rfl

/-- `dfp_swell` -/
theorem gentrk_dfp_swell_eq (pi g dt distance : ℚ) :
    Gen.trkDfpSwell pi g dt distance = Track.dfpSwell pi g dt distance := rfl

/-- literals of `dfp_wsea` (`scaling=1.0`, `15.8`, `0.57`, `-1 / 0.43`, `-0.43`) and of `dfp_swell` (`1e6`, `4`) -/
theorem gentrk_lits_thresholds :
    Gen.trkDfpWsea_lits = [seaScalingDefault, wseaCoef, wseaExpU, 1, wseaExpT, wseaExpT] ∧
    Gen.trkDfpWsea_scaling_default = seaScalingDefault ∧
    Gen.trkDfpSwell_lits = [swellDistanceDefault, 4] ∧
    Gen.trkDfpSwell_distance_default = swellDistanceDefault ∧
    Gen.trkDfpWsea_strs = [] ∧ Gen.trkDfpSwell_strs = [] := by decide +kernel

/-! ## `match_consecutive_partitions` -/

/-- the generated function is a fold of `TrkBridge.gStep` over `enumerate(fp[:, 1])` with the view `TrkBridge.pdGen`
    (both are verbatim restatements of generated text: this is `rfl`) -/
theorem gentrk_match_shape (fp dpm : List (List (Option ℚ))) (sea : Option ℚ) (swell ddSea ddSwell : ℚ) :
    Gen.trkMatch fp dpm sea swell ddSea ddSwell =
      (List.foldl (gStep (pdGen fp dpm sea swell ddSea ddSwell) (nrows dpm))
        (imulS (ionesLike (col fp 0)) (-999 : Int),
          List.filterMap (fun el : ℕ × Bool => if el.2 then some el.1 else none)
            (enum (List.map (fun b => !b) (List.map isnan (col fp 0)))))
        (enum (col fp 1))).1 := rfl

/-- a genuine distance is never the sentinel -/
theorem distOf_ne_sentinel (thr : Thr) (prev cur : Step) (c p : ℕ) (x : ℚ)
    (h : distOf thr prev cur c p = some x) : x ≠ 999 := by
  have := distEntry_lt_two thr p _ _ _ _ x h
  intro e
  rw [e] at this
  norm_num at this

/-- hypothesis of `distOf_ne_sentinel` is satisfiable (the 355° → 5° case of `Props/C19.lean`) -/
example : ∃ x, distOf exThr exS0 exS1 0 0 = some x := Option.isSome_iff_exists.1 (by decide +kernel)

/-- **`match_consecutive_partitions` regenerated = the model's matching function**, for every `(P, 2)` pair of
    `fp`, `dpm` (given as `[previous, current]`, NaN = `none`) and every threshold (the sea threshold may be NaN):
    the same `matches` vector (`-999` empty, `-888` unmatched, else the predecessor's index). -/
theorem gentrk_match_eq (fp dpm : List (List (Option ℚ))) (sea : Option ℚ) (swell ddSea ddSwell : ℚ)
    (hfp : (col fp 1).length = (col fp 0).length) (hdpm : nrows dpm = nrows fp) :
    Gen.trkMatch fp dpm sea swell ddSea ddSwell = Track.npMatch fp dpm sea swell ddSea ddSwell := by
  rw [gentrk_match_shape, avail_gen]
  have hinit : imulS (ionesLike (col fp 0)) (-999 : Int) = [] ++ List.replicate (col fp 1).length emptyMarker := by
    rw [hfp]
    simp [imulS, ionesLike, emptyMarker]
  rw [hinit]
  unfold enum
  rw [gLoop_spec (pdGen fp dpm sea swell ddSea ddSwell)
    (distOf ⟨sea, swell, ddSea, ddSwell⟩ ⟨fp.getD 0 [], dpm.getD 0 []⟩ ⟨fp.getD 1 [], dpm.getD 1 []⟩) (nrows dpm)
    (fun c p hp => pdGen_eq fp dpm sea swell ddSea ddSwell hdpm c p hp)
    (fun c p x h => distOf_ne_sentinel _ _ _ c p x h) (col fp 1) 0 [] _ rfl]
  rw [hdpm]
  unfold npMatch matchData matchConsecutive slotsOf
  simp [nrows, col]

/-- hypotheses of `gentrk_match_eq` are satisfiable; the generated kernel on the 355° → 5° case of `Props/C19.lean` -/
example : (col [[some (13 / 125 : ℚ), none], [some (1 / 10), some (1 / 5)]] 1).length =
      (col [[some (13 / 125 : ℚ), none], [some (1 / 10), some (1 / 5)]] 0).length ∧
    nrows [[some (355 : ℚ), none], [some 5, some 90]] = nrows [[some (13 / 125 : ℚ), none], [some (1 / 10), some (1 / 5)]] ∧
    Gen.trkMatch [[some (13 / 125), none], [some (1 / 10), some (1 / 5)]] [[some 355, none], [some 5, some 90]]
      (some (-1 / 100)) (1 / 200) 30 20 = [0, -888] := by decide +kernel

/-- **uniqueness clause on the regenerated function itself**: in the `matches` vector computed by the source's
    `match_consecutive_partitions`, no predecessor index occurs twice, and every index that occurs names a non-NaN
    slot of the previous step. -/
theorem gentrk_match_injective (fp dpm : List (List (Option ℚ))) (sea : Option ℚ) (swell ddSea ddSwell : ℚ)
    (hfp : (col fp 1).length = (col fp 0).length) (hdpm : nrows dpm = nrows fp) :
    ((Gen.trkMatch fp dpm sea swell ddSea ddSwell).filter fun z => decide (0 ≤ z)).Nodup ∧
    ∀ z ∈ Gen.trkMatch fp dpm sea swell ddSea ddSwell, 0 ≤ z →
      ∃ p : ℕ, z = (p : Int) ∧ ∃ v, (col fp 0)[p]? = some (some v) := by
  rw [gentrk_match_eq fp dpm sea swell ddSea ddSwell hfp hdpm]
  unfold npMatch matchData
  obtain ⟨h1, h2⟩ := match_injective
    (distOf ⟨sea, swell, ddSea, ddSwell⟩ ⟨fp.getD 0 [], dpm.getD 0 []⟩ ⟨fp.getD 1 [], dpm.getD 1 []⟩)
    (slotsOf ⟨fp.getD 0 [], dpm.getD 0 []⟩) (slotsOf ⟨fp.getD 1 [], dpm.getD 1 []⟩)
  constructor
  · rw [matchCode_filter_nonneg]
    exact h1.map_on (fun a _ b _ h => Int.ofNat.inj h)
  · intro z hz h0
    have : z ∈ (List.map matchCode _).filter fun z => decide (0 ≤ z) := List.mem_filter.2 ⟨hz, by simpa using h0⟩
    rw [matchCode_filter_nonneg] at this
    obtain ⟨p, hp, rfl⟩ := List.mem_map.1 this
    refine ⟨p, rfl, ?_⟩
    have := h2 p hp
    simp only [slotsOf, List.getElem?_map, Option.map_eq_some_iff] at this
    obtain ⟨a, ha, hs⟩ := this
    cases a with
    | none => simp at hs
    | some v => exact ⟨v, ha⟩

/-! ## `np_track_partitions` -/

/-- the generated function is: local matches of every step (calls of the generated `trkMatch` on two-column slices),
    stacked behind a `-999` column; then a fold of `TrkBridge.tStep1` over `enumerate(fp[:, 0])`; then a fold of
    `TrkBridge.tCol` over `range(1, times.size)` (verbatim restatements of generated text: this is `rfl`) -/
theorem gentrk_np_track_shape (pow : ℚ → ℚ → ℚ) (pi g : ℚ) (times : List ℚ) (fp dpm : List (List (Option ℚ)))
    (wspd : List (Option ℚ)) (ddSea ddSwell scaling distance : ℚ) :
    Gen.trkNpTrack pow pi g times fp dpm wspd ddSea ddSwell scaling distance =
      (let dt : ℚ := WS.getR (diff (List.take 2 times)) 0 / (1 : ℚ)
       let seaV : List (Option ℚ) :=
         List.zipWith (lift2 (fun w f => Gen.trkDfpWsea pow g w f dt scaling)) wspd (row fp 0)
       let swell : ℚ := Gen.trkDfpSwell pi g dt distance
       let ids0 : List (List Int) := hstack ([imulS (iones (nrows fp)) (-999 : Int)] ++
         List.map (fun it => Gen.trkMatch (cols fp (it - 1) (it + 1)) (cols dpm (it - 1) (it + 1)) (oat seaV (it - 1))
           swell ddSea ddSwell) (pyRange 1 times.length))
       List.foldl (tCol (nrows fp)) (List.foldl tStep1 (ids0, (0 : Int)) (enum (col fp 0))) (pyRange 1 times.length)) := rfl

theorem gentrk_dt_eq (times : List ℚ) : WS.getR (diff (List.take 2 times)) 0 / (1 : ℚ) = dtOf times := by
  match times with
  | [] => simp [diff, WS.getR, dtOf]
  | [a] => simp [diff, WS.getR, dtOf]
  | a :: b :: r => simp [diff, WS.getR, dtOf]

/-- **`np_track_partitions` regenerated = the model's tracker**: for every series of time stamps, every `(P, T)`
    pair `fp`, `dpm` (lists of `T` columns of the same height `P`, NaN = `none`), every wind-speed series and every
    parameter value, the generated function returns the same identifier columns (`-999` = empty) and the same count
    as `Track.npTrack`, i.e. as `Track.trackData` on the thresholds `dfp_wsea(wspd[t], fp[0, t])`, `dfp_swell(dt, distance)`
    — the function all property theorems of `Props/C19.lean` are about. -/
theorem gentrk_np_track_eq (pow : ℚ → ℚ → ℚ) (pi g : ℚ) (times : List ℚ) (fp dpm : List (List (Option ℚ)))
    (wspd : List (Option ℚ)) (ddSea ddSwell scaling distance : ℚ)
    (hfp : ∀ t, t < times.length → (fp.getD t []).length = nrows fp)
    (hdpm : ∀ t, t < times.length → (dpm.getD t []).length = nrows fp) :
    Gen.trkNpTrack pow pi g times fp dpm wspd ddSea ddSwell scaling distance =
      Track.npTrack pow pi g times fp dpm wspd ddSea ddSwell scaling distance := by
  rw [gentrk_np_track_shape]
  simp only [gentrk_dt_eq]
  -- the local matches of step `it`
  have hcol : ∀ it ∈ pyRange 1 times.length,
      Gen.trkMatch (cols fp (it - 1) (it + 1)) (cols dpm (it - 1) (it + 1))
        (oat (List.zipWith (lift2 (fun w f => Gen.trkDfpWsea pow g w f (dtOf times) scaling)) wspd (row fp 0)) (it - 1))
        (Gen.trkDfpSwell pi g (dtOf times) distance) ddSea ddSwell =
      (matchData (thrAt pow pi g times fp wspd ddSea ddSwell scaling distance (it - 1)) (stepAt fp dpm (it - 1))
        (stepAt fp dpm (it - 1 + 1))).map matchCode := by
    intro it hit
    unfold pyRange at hit
    obtain ⟨h1, h2⟩ := List.mem_range'_1.1 hit
    have hlt : it < times.length := by omega
    have hlt' : it - 1 < times.length := by omega
    obtain ⟨f0, f1⟩ := cols_pair fp it h1
    obtain ⟨d0, d1⟩ := cols_pair dpm it h1
    rw [gentrk_match_eq _ _ _ _ _ _ (by rw [f0, f1, hfp it hlt, hfp _ hlt'])
      (by unfold nrows; rw [← col, ← col, d0, f0, hdpm _ hlt', hfp _ hlt'])]
    unfold npMatch thrAt stepAt
    rw [← col, ← col, ← col, ← col, f0, f1, d0, d1, Nat.sub_add_cancel h1]
    congr 3
    have := oat_zipWith_lift2 (fun w f => Gen.trkDfpWsea pow g w f (dtOf times) scaling) wspd (row fp 0) (it - 1)
    rw [show (fun a b => lift2 (fun w f => Gen.trkDfpWsea pow g w f (dtOf times) scaling) a b) =
      lift2 (fun w f => Gen.trkDfpWsea pow g w f (dtOf times) scaling) from rfl] at this
    rw [this, show (fun w f => Gen.trkDfpWsea pow g w f (dtOf times) scaling) =
      fun w f => dfpWsea pow g w f (dtOf times) scaling from funext fun w => funext fun f => gentrk_dfp_wsea_eq ..,
      lift2_eq_seaThr, oat_row]
    rfl
  rw [List.map_congr_left hcol]
  -- the columns: a `-999` column, then the coded local matches
  have hP : nrows fp = (col fp 0).length := rfl
  have hinit : imulS (iones (nrows fp)) (-999 : Int) =
      List.map idCode ([] : List (Option ℕ)) ++ List.replicate (col fp 0).length emptyMarker := by
    simp [imulS, iones, emptyMarker, hP]
  unfold pyRange hstack
  have hshift := map_range'_pred (fun i =>
    (matchData (thrAt pow pi g times fp wspd ddSea ddSwell scaling distance i) (stepAt fp dpm i)
      (stepAt fp dpm (i + 1))).map matchCode) (times.length - 1) 0
  simp only [Nat.zero_add] at hshift
  have hfuse : List.map (fun i => (matchData (thrAt pow pi g times fp wspd ddSea ddSwell scaling distance i)
      (stepAt fp dpm i) (stepAt fp dpm (i + 1))).map matchCode) (List.range' 0 (times.length - 1)) =
      List.map (fun ms : List Match => ms.map matchCode) (List.map (fun i =>
        matchData (thrAt pow pi g times fp wspd ddSea ddSwell scaling distance i) (stepAt fp dpm i)
          (stepAt fp dpm (i + 1))) (List.range' 0 (times.length - 1))) := by
    rw [List.map_map]; rfl
  rw [hshift, hfuse, hinit, List.singleton_append]
  unfold enum
  rw [show (0 : Int) = ((0 : ℕ) : Int) from rfl, tLoop1_spec _ (col fp 0) 0 [] 0 rfl]
  -- the propagation
  have hms : ∀ ms ∈ (List.range' 0 (times.length - 1)).map (fun i =>
      matchData (thrAt pow pi g times fp wspd ddSea ddSwell scaling distance i) (stepAt fp dpm i) (stepAt fp dpm (i + 1))),
      ms.length = nrows fp ∧ ∀ p, Match.prev p ∈ ms → p < nrows fp := by
    intro ms hms
    obtain ⟨i, hi, rfl⟩ := List.mem_map.1 hms
    obtain ⟨_, h2⟩ := List.mem_range'_1.1 hi
    obtain ⟨e1, e2⟩ := matchData_shape (thrAt pow pi g times fp wspd ddSea ddSwell scaling distance i) (stepAt fp dpm i)
      (stepAt fp dpm (i + 1))
    refine ⟨by rw [e1]; exact hfp (i + 1) (by omega), fun p hp => ?_⟩
    have := e2 p hp
    rwa [show (stepAt fp dpm i).fp = fp.getD i [] from rfl, hfp i (by omega)] at this
  have hloop := tCol_loop (nrows fp) _ [] (firstStep ((col fp 0).map Option.isSome) 0).1
    (firstStep ((col fp 0).map Option.isSome) 0).2 (by rw [firstStep_length, List.length_map]; rfl) hms
  simp only [List.nil_append, List.length_nil, List.length_map, List.length_range', Nat.zero_add] at hloop ⊢
  rw [hloop]
  -- the model
  unfold npTrack
  rw [trackData_propAll, List.range_eq_range', localMatchesData_range']
  rfl

/-- hypotheses of `gentrk_np_track_eq` are satisfiable, and the generated tracker evaluates: the two-partition,
    three-step history of `Props/C19.lean` (system 0 kept, system 1 lost at step 1, a new system at step 2),
    identifiers `[[0, 1], [0, -999], [0, 2]]`, count 3 (here `pow := fun _ _ => 0`, so the sea threshold is `-fp[0, t]`) -/
example : (∀ t, t < [0, 3600, 7200].length →
      (([[some (13 / 125), some (1 / 5)], [some (1 / 10), none], [some (1 / 10), some (3 / 10)]] :
        List (List (Option ℚ))).getD t []).length =
        nrows ([[some (13 / 125), some (1 / 5)], [some (1 / 10), none], [some (1 / 10), some (3 / 10)]] :
          List (List (Option ℚ)))) ∧
    Gen.trkNpTrack (fun _ _ => 0) 3 10 [0, 3600, 7200]
      [[some (13 / 125), some (1 / 5)], [some (1 / 10), none], [some (1 / 10), some (3 / 10)]]
      [[some 355, some 90], [some 5, none], [some 5, some 200]] [some 10, some 10, some 10] 30 20 1 1000000 =
      ([[0, 1], [0, -999], [0, 2]], 3) := by
  constructor
  · intro t ht
    have : t = 0 ∨ t = 1 ∨ t = 2 := by simp at ht; omega
    rcases this with rfl | rfl | rfl <;> rfl
  · decide +kernel

/-- **uniqueness clause on the regenerated tracker itself**: in every column (time step) of the `part_ids` computed
    by the source's `np_track_partitions`, no identifier (`≥ 0`) occurs twice; and the count returned is the number of
    distinct identifiers: `k` occurs somewhere iff `0 ≤ k < part_id`. -/
theorem gentrk_np_track_unique (pow : ℚ → ℚ → ℚ) (pi g : ℚ) (times : List ℚ) (fp dpm : List (List (Option ℚ)))
    (wspd : List (Option ℚ)) (ddSea ddSwell scaling distance : ℚ)
    (hfp : ∀ t, t < times.length → (fp.getD t []).length = nrows fp)
    (hdpm : ∀ t, t < times.length → (dpm.getD t []).length = nrows fp) :
    (∀ c ∈ (Gen.trkNpTrack pow pi g times fp dpm wspd ddSea ddSwell scaling distance).1,
      (c.filter fun z => decide (0 ≤ z)).Nodup) ∧
    ∀ k : ℕ, (∃ c ∈ (Gen.trkNpTrack pow pi g times fp dpm wspd ddSea ddSwell scaling distance).1, (k : Int) ∈ c) ↔
      (k : Int) < (Gen.trkNpTrack pow pi g times fp dpm wspd ddSea ddSwell scaling distance).2 := by
  rw [gentrk_np_track_eq pow pi g times fp dpm wspd ddSea ddSwell scaling distance hfp hdpm]
  unfold npTrack trackData
  constructor
  · intro c hc
    obtain ⟨row, hrow, rfl⟩ := List.mem_map.1 hc
    rw [idCode_filter_nonneg]
    exact (ids_unique_per_step _ _ row hrow).map_on (fun a _ b _ h => Int.ofNat.inj h)
  · intro k
    rw [Int.ofNat_lt, ← ids_mem_iff_lt_count]
    constructor
    · rintro ⟨c, hc, hk⟩
      obtain ⟨row, hrow, rfl⟩ := List.mem_map.1 hc
      obtain ⟨x, hx, hxk⟩ := List.mem_map.1 hk
      refine ⟨row, hrow, ?_⟩
      cases x with
      | none => simp [idCode, emptyMarker] at hxk
      | some j =>
        have : j = k := by simpa [idCode] using hxk
        exact this ▸ hx
    · rintro ⟨row, hrow, hk⟩
      exact ⟨row.map idCode, List.mem_map.2 ⟨row, hrow, rfl⟩, List.mem_map.2 ⟨some k, hk, rfl⟩⟩

/-! ## literals, defaults and strings of `np_track_partitions` -/

/-- defaults `ddpm_sea_max=30`, `ddpm_swell_max=20`, `dfp_sea_scaling=1`, `dfp_swell_source_distance=1e6` -/
theorem gentrk_np_track_defaults :
    Gen.trkNpTrack_ddpm_sea_max_default = ddpmSeaDefault ∧ Gen.trkNpTrack_ddpm_swell_max_default = ddpmSwellDefault ∧
    Gen.trkNpTrack_dfp_sea_scaling_default = seaScalingDefault ∧
    Gen.trkNpTrack_dfp_swell_source_distance_default = swellDistanceDefault := by decide +kernel

/-- every numeric literal (defaults first, then source order: `times[:2]`, `[0]`, `timedelta64(1, "s")`, `fp[0, :]`,
    the `-999` column, the slice offsets, the counter start `0`, the increments `1`, the marker tests `-888`, `-999`),
    the time unit and the integer dtype; no broadcast assumption is used -/
theorem gentrk_lits_np_track :
    Gen.trkNpTrack_lits = [ddpmSeaDefault, ddpmSwellDefault, seaScalingDefault, swellDistanceDefault, 2, 0, 1, 0, 0, 1,
      ((-emptyMarker : Int) : ℚ), 1, 1, 1, 1, 1, 1, 1, 1, 0, 0, 0, 0, 1, 1, 0, ((-unmatchedMarker : Int) : ℚ), 1,
      ((-emptyMarker : Int) : ℚ), 1] ∧
    Gen.trkNpTrack_strs = ["s", "int16"] ∧ Gen.trkNpTrack_shape_assumptions = [] := by decide +kernel

/-! ## literals, markers, dtype strings and shape assumptions of `match_consecutive_partitions` -/

/-- every numeric literal of the function, in source order (index/shape literals included): the markers `-999`,
    `-888` (signs are part of the generated definition), the wrap constants `180`, `360`, the sentinel `999` (stored
    and tested) -/
theorem gentrk_lits_match :
    Gen.trkMatch_lits = [0, ((-emptyMarker : Int) : ℚ), 1, 1, 1, 0, 1, 0, 1, 1, 0, 0, halfTurn, fullTurn, halfTurn,
      1, 1, 1, 0, 1, 0, 1, 1, 0, 0, 0, 1, 0, 0, 1, farSentinel, 0, 1, farSentinel, 1, 0,
      ((-unmatchedMarker : Int) : ℚ), 0, 0, 0, 0] ∧
    Gen.trkMatch_strs = ["int16"] := by decide +kernel

/-- the broadcast-compatibility conditions the translator relied on (numpy raises when they fail); all of them follow
    from `fp`, `dpm` both having `P` rows -/
theorem gentrk_match_shape_assumptions :
    Gen.trkMatch_shape_assumptions =
      ["(List.length (Trk.col dpm 1)) = (Trk.nrows dpm)", "(Trk.nrows dpm) = (List.length (Trk.col dpm 0))",
       "(List.length (Trk.col fp 1)) = (Trk.nrows fp)", "(Trk.nrows fp) = (List.length (Trk.col fp 0))",
       "(Trk.nrows dpm) = (List.length ddpm_max)", "(Trk.nrows fp) = (List.length dfp_max)",
       "(Trk.nrows fp) = (List.length dfp_min)", "(List.length (Trk.col dpm 1)) = (List.length (Trk.col fp 1))",
       "(Trk.nrows dpm) = (Trk.nrows fp)",
       "(Trk.nrows fp) = (List.length (List.zipWith (fun a b => (Trk.omax a b)) dfp_max (List.map (fun a => (Trk.oabs a)) dfp_min)))"] := by
  decide +kernel

/-- the integer codes of the model are the markers of the source -/
theorem gentrk_match_codes : matchCode Match.empty = -999 ∧ matchCode Match.fresh = -888 ∧
    (∀ p : ℕ, matchCode (Match.prev p) = (p : Int)) ∧ idCode none = -999 ∧ (∀ k : ℕ, idCode (some k) = (k : Int)) :=
  ⟨rfl, rfl, fun _ => rfl, rfl, fun _ => rfl⟩

end WS.C19

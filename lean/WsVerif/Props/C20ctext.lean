import WsVerif.Gen.CText
/-!
# C20 — the C text (routine and Python wrapper) the memory-safety / termination arguments were validated against

See `Props/C04ctext.lean`.  The wrapper `specpart_wrap.c` (argument parsing, buffer sizes handed to `partition`, GIL held
throughout) is pinned here as well: the ASan/UBSan runs and the in-bounds theorems of `Props/C20.lean` speak about the routine
as called by this wrapper.
-/
namespace WS.C20

theorem specpart_c_text : Gen.ctext_specpart =
    [("<file scope>", "113a643e11711aa4"),
     ("partinit", "54188e1a74ac1891"),
     ("partition", "080d86c673f28906"),
     ("ptsort", "c0a724861a02f697"),
     ("ptnghb", "e3bb2e9a48fb3c1a"),
     ("int_minval", "eed54a7560dfd61c"),
     ("fifo_add", "5b44ab4d9cc786f9"),
     ("fifo_empty", "c1b75b554014f46d"),
     ("fifo_first", "d7657c58c5001f39"),
     ("pt_fld", "ef7f752b3a2de822")] := by decide +kernel

theorem specpart_wrap_c_text : Gen.ctext_specpart_wrap =
    [("<file scope>", "5f9ecf98d0bf8e71"),
     ("PyInit_specpart", "15106dc903bf736d"),
     ("specpart", "1e429983a49150b8")] := by decide +kernel

end WS.C20

import WsVerif.Gen.RgKernels
import WsVerif.Lemmas.RgBridge
import WsVerif.Props.C08
import WsVerif.Props.C01xr
import WsVerif.Model.Split
/-!
C08, T-tier: the definitions regenerated from `core.utils.regrid_spec` / `unique_indices` / `SpecArray._interp_freq`
(`Gen/RgKernels.lean`, by `harness/translate_rg.py`) equal the hand-written model `Model/Regrid.lean`, FOR ALL INPUTS.
-/
namespace WS.C08
open WS WS.Regrid WS.Rg

/-- NaN mask of one direction-interpolated entry: a value only inside the (extended) node range -/
def maskDir (l : Loc) (v : Rat) : Option Rat := if l.isSeg then some v else none

/-- `% 360`, `unique_indices`, `sortby("dir")` on a NaN-free spectrum: the labels are the model's sorted distinct
    labels `dirNodes`, the columns are re-indexed by the first occurrences; `sortby` is then the identity -/
theorem genrg_unique_sort_eq (f d : Vec) (e : Mat) :
    Rg.sortbyDir (Gen.rgUniqueIndices (Rg.assignDir (ofMat f d e) (Rg.modV (Rg.dirC (ofMat f d e)) 360))) =
      ofMat f ((dirNodes d).map (·.1)) (e.map fun r => ((dirNodes d).map (·.2)).map (getR r)) := by
  have hv : dirNodes d = dedupK (sortK ((Rg.modV d 360).zip (List.range (Rg.modV d 360).length))) := by
    simp [dirNodes, Rg.modV]
  have hsorted := (dedupK_sortK_spec ((Rg.modV d 360).zip (List.range (Rg.modV d 360).length))).1
  rw [← hv] at hsorted
  have hlab : ((dirNodes d).map (·.2)).map (getR (Rg.modV d 360)) = (dirNodes d).map (·.1) := by
    rw [hv]; exact nodes_labels _
  simp only [Gen.rgUniqueIndices, Rg.assignDir, Rg.dirC, Rg.npUniqueIndex, Rg.iselDirL, ofMat, ← hv, hlab, Rg.sortbyDir]
  rw [argsort_sorted _ hsorted, map_getR_range]
  simp only [List.map_map]
  congr 1
  apply List.map_congr_left
  intro r _
  simp only [Function.comp]
  have h := map_getO_range (((dirNodes d).map (·.2)).map (getO (r.map some)))
  simp only [List.length_map] at h ⊢
  simp only [List.map_map] at h
  rw [h]
  simp [getO_map_some, Function.comp_def]

theorem lin1_some (xs ys : Vec) (x : Rat) :
    lin1 none xs (ys.map some) x = maskDir (locate xs x) (applyLoc ys (locate xs x)) := by
  cases h : locate xs x <;> simp [lin1, maskDir, applyLoc, lerpO, getO_map_some, Loc.isSeg, h]

/-- the generated wrap decisions are the model's `wrapLo` / `wrapHi` (on the sorted distinct labels `min` is the first
    and `max` the last label) -/
theorem genrg_wrap_eq (dS td : Vec) (hs : dS.Pairwise (· < ·)) :
    (decide (Rg.amin td < Rg.amin dS) || decide (dS.length = 1)) = wrapLo dS td ∧
    (decide (Rg.amax td > Rg.amax dS) || decide (dS.length = 1)) = wrapHi dS td := by
  simp [wrapLo, wrapHi, Rg.amin, Rg.amax, minL_sorted dS hs, maxL_sorted dS hs]

example : ([10, 20] : Vec).Pairwise (· < ·) := by decide

/-- the direction block of `regrid_spec` on a NaN-free spectrum = the model's `dirStage`, NaN outside the node range -/
theorem genrg_dir_stage_eq (f d : Vec) (e : Mat) (td : Vec) :
    Gen.rgDirBlock (ofMat f d e) td =
      { freq := f, dir := td,
        e := (dirStage d e td).vals.map fun r => List.zipWith maskDir (dirStage d e td).locs r } := by
  have hsorted := (dedupK_sortK_spec ((d.map fun x => pmod x 360).zip (List.range d.length))).1
  have hw := genrg_wrap_eq ((dirNodes d).map (·.1)) td hsorted
  simp only [Gen.rgDirBlock]
  rw [genrg_unique_sort_eq]
  simp only [dirStage]
  generalize hE : (e.map fun r => ((dirNodes d).map (·.2)).map (getR r)) = E
  have hE' : e.map (fun r => List.map (applyLoc (dirYs (((dirNodes d).map (·.2)).map (getR r)) (wrapLo ((dirNodes d).map (·.1)) td) (wrapHi ((dirNodes d).map (·.1)) td)))
      (td.map (locate (dirXs ((dirNodes d).map (·.1)) (wrapLo ((dirNodes d).map (·.1)) td) (wrapHi ((dirNodes d).map (·.1)) td))))) =
      E.map (fun r => List.map (applyLoc (dirYs r (wrapLo ((dirNodes d).map (·.1)) td) (wrapHi ((dirNodes d).map (·.1)) td)))
      (td.map (locate (dirXs ((dirNodes d).map (·.1)) (wrapLo ((dirNodes d).map (·.1)) td) (wrapHi ((dirNodes d).map (·.1)) td))))) := by
    rw [← hE, List.map_map]; rfl
  rw [hE']
  generalize (dirNodes d).map (·.1) = dS at hw ⊢
  have hd : Rg.dirC (ofMat f dS E) = dS := rfl
  simp only [hd, hw.1, hw.2]
  cases wrapLo dS td <;> cases wrapHi dS td <;>
    simp [Rg.iselDir, Rg.assignDir, Rg.subV, Rg.addV, Rg.dirC, Rg.concatDir, Rg.concat2Dir, Rg.interpDir, ofMat,
      pick_neg_one, pick_zero, dirXs, dirYs, lin1_some, List.zipWith_map_left,
      List.zipWith_map_right]
  all_goals
    intro a _ x _
    rw [← lin1_some]
    congr 1 <;> simp [lastD, List.getLastD_eq_getLast?]

/-- the generated `fzero` decision is the model's `anchorLo` -/
theorem genrg_anchor_eq (f tf : Vec) :
    (decide (Rg.amin tf < Rg.amin f) || decide (f.length = 1)) = anchorLo f tf := by
  rfl

/-- frequency block, up to the call of `interp`: the zero row at `f = 0` is put IN FRONT exactly when the model's
    `anchorLo` says so, and the nodes handed to `interp(freq=…, assume_sorted=False, fill_value=0)` are the model's
    `pairs` of `freqStage`.  PARTIAL: the reading `Rg.interpFreq` (stable sort by frequency, `locate`, fill) is not
    proved equal to `freqStage` on the lifted (`Option`) rows here. -/
theorem genrg_freq_stage_partial (f d : Vec) (e : Mat) (tf : Vec) :
    Gen.rgFreqBlock (ofMat f d e) tf =
      Rg.interpFreq (ofMat ((if anchorLo f tf then [0] else []) ++ f) d
        ((if anchorLo f tf then [List.replicate (e.headD []).length 0] else []) ++ e)) tf 0 := by
  simp only [Gen.rgFreqBlock]
  have hf : Rg.freqC (ofMat f d e) = f := rfl
  rw [hf, genrg_anchor_eq]
  cases anchorLo f tf
  · simp
  · congr 1
    cases e with
    | nil => cases f <;> simp [ofMat, Rg.concatFreq, Rg.concat2Freq, Rg.setFreq, Rg.scaleDs, Rg.iselFreq, pick_zero]
    | cons r t =>
      cases f <;> simp [ofMat, Rg.concatFreq, Rg.concat2Freq, Rg.setFreq, Rg.scaleDs, Rg.iselFreq, pick_zero]
      all_goals (rw [← List.map_const']; simp [Function.comp_def])

/-- `maintain_m0`: the factor is `hs(dset)² / hs(dsout)²` (guarded float division), applied to every value -/
theorem genrg_m0_shape (sqrt : Rat → Rat) (a b : Rg.Ds) :
    Gen.rgM0Block sqrt a b = Rg.mulScale b (Rg.divG ((Gen.rgHs sqrt a) ^ 2) ((Gen.rgHs sqrt b) ^ 2)) := rfl

/-- the accessor `hs` used by the scale is the regenerated `Gen.xrHs` on the grid the spectrum lives on -/
theorem genrg_hs_shape (sqrt : Rat → Rat) (ds : Rg.Ds) :
    Gen.rgHs sqrt ds = Gen.xrHs sqrt ds.freq ds.dir ((Rg.fin? ds).getD []) (Gen.xrDf ds.freq) (Gen.xrDd ds.dir) true := rfl

/-- order of the blocks of `regrid_spec`: direction, then frequency, then the `maintain_m0` scale against the INPUT -/
theorem genrg_regrid_shape (sqrt : Rat → Rat) (ds : Rg.Ds) (tf td : Vec) (m0 : Bool) :
    Gen.rgRegrid sqrt ds (some tf) (some td) m0 =
      (if m0 then Gen.rgM0Block sqrt ds (Gen.rgFreqBlock (Gen.rgDirBlock ds td) tf)
       else Gen.rgFreqBlock (Gen.rgDirBlock ds td) tf) ∧
    Gen.rgRegrid sqrt ds none (some td) false = Gen.rgDirBlock ds td ∧
    Gen.rgRegrid sqrt ds (some tf) none false = Gen.rgFreqBlock ds tf ∧
    Gen.rgRegrid sqrt ds none none false = ds := ⟨rfl, rfl, rfl, rfl⟩

theorem zipWith_maskDir_seg : ∀ (locs : List Loc) (r : Vec), (∀ l ∈ locs, l.isSeg = true) → locs.length = r.length →
    List.zipWith maskDir locs r = r.map some := by
  intro locs
  induction locs with
  | nil => intro r _ h; cases r <;> simp_all
  | cons l t ih =>
    intro r h hl
    cases r with
    | nil => simp at hl
    | cons a r =>
      simp only [List.zipWith_cons_cons, List.map_cons]
      rw [ih r (fun l hl => h l (List.mem_cons_of_mem _ hl)) (by simpa using hl)]
      simp [maskDir, h l (by simp)]

example : (∀ l ∈ [Loc.seg 0 0], l.isSeg = true) ∧ [Loc.seg 0 0].length = ([1] : Vec).length := by decide

/-- HEADLINE (C08 "exact on nodes") on the GENERATED direction block: regridding a NaN-free spectrum with strictly
    increasing directions in `[0, 360)` onto its own directions returns it unchanged, no NaN -/
theorem genrg_dir_exact_on_nodes (f d : Vec) (e : Mat) (hs : d.Pairwise (· < ·)) (hr : ∀ x ∈ d, 0 ≤ x ∧ x < 360)
    (hn : 2 ≤ d.length) (hrect : Rect e d.length) :
    Gen.rgDirBlock (ofMat f d e) d = ofMat f d e := by
  rw [genrg_dir_stage_eq, dirStage_id d e hs hr hn hrect]
  simp only [ofMat]
  congr 1
  apply List.map_congr_left
  intro r hr'
  exact zipWith_maskDir_seg _ r (locate_mem_isSeg d hs hn) (by simp [hrect r hr'])

example : ([10, 20] : Vec).Pairwise (· < ·) ∧ (∀ x ∈ ([10, 20] : Vec), 0 ≤ x ∧ x < 360) ∧ 2 ≤ ([10, 20] : Vec).length ∧
    Rect [[1, 2]] ([10, 20] : Vec).length := by
  refine ⟨by decide, by decide, by decide, ?_⟩
  intro r hr; simp at hr; subst hr; rfl

/-- `_interp_freq`: range check (`ValueError`), `searchsorted`, the two weights and `/ df` = the model's
    `Split.interpFreq`, wherever the two neighbouring frequencies differ (the model reports the float division by zero
    separately) -/
theorem genrg_interp_freq_eq (f : Vec) (e : Mat) (x : Rat)
    (hdf : getR f (Split.searchsorted f x) - getR f (Split.searchsorted f x - 1) ≠ 0) :
    Gen.rgInterpFreq f e x = Split.interpFreq f e x := by
  have h1 : Rg.amin f = Split.vmin f := by cases f <;> simp [Rg.amin, minL, Split.vmin, minD]
  have h2 : Rg.amax f = Split.vmax f := by cases f <;> simp [Rg.amax, maxL, Split.vmax, maxD]
  have h3 : Rg.searchsorted f x = Split.searchsorted f x := rfl
  simp only [Gen.rgInterpFreq, Split.interpFreq, h1, h2, h3, if_neg hdf, Split.lerpRow]
  split
  · rfl
  · congr 1
    simp only [List.zipWith_map_left, List.zipWith_map_right, List.map_zipWith]

example : getR [1, 2, 4] (Split.searchsorted [1, 2, 4] 3) - getR [1, 2, 4] (Split.searchsorted [1, 2, 4] 3 - 1) ≠ 0 := by
  decide +kernel

/-- signatures, the `attrs` names, pure forwarding in `interp` / `interp_like`, and the statements of `regrid_spec`
    that are NOT translated (Dataset `keep/others` plumbing, list/tuple → array, name, attributes) -/
theorem genrg_pins :
    Gen.rgAttrs = [("DIRNAME", "dir"), ("FREQNAME", "freq")] ∧
    Gen.rgUniqueIndices_sig = [("ds", ""), ("dim", "'time'")] ∧
    Gen.rgRegrid_sig = [("dset", ""), ("freq", "None"), ("dir", "None"), ("maintain_m0", "True")] ∧
    Gen.rgInterpFreq_sig = [("self", ""), ("fint", "")] ∧
    Gen.rgInterp_sig = [("self", ""), ("freq", "None"), ("dir", "None"), ("maintain_m0", "True")] ∧
    Gen.rgInterp_src = ["return regrid_spec(self._obj, freq, dir, maintain_m0=maintain_m0)"] ∧
    Gen.rgInterpLike_sig = [("self", ""), ("other", ""), ("maintain_m0", "True")] ∧
    Gen.rgInterpLike_src = ["freq = getattr(other.spec, attrs.FREQNAME)", "dir = getattr(other.spec, attrs.DIRNAME)",
      "return self.interp(freq=freq, dir=dir, maintain_m0=maintain_m0)"] := by decide +kernel

theorem genrg_pins_plumbing :
    Gen.rgRegrid_plumbing = ["others = None", "if isinstance(dset, xr.Dataset):\n    keep = [v for v in dset.data_vars if not {attrs.FREQNAME, attrs.DIRNAME} & set(dset[v].dims)]\n    others = dset[keep]\n    dset = dset.drop_vars(keep)", "if isinstance(freq, (list, tuple)):\n    freq = np.array(freq)", "if isinstance(dir, (list, tuple)):\n    dir = np.array(dir)", "if others is not None:\n    dsout = dsout.assign(others.data_vars)", "if isinstance(dsout, xr.DataArray):\n    dsout.name = 'efth'", "set_spec_attributes(dsout)"] := by
  decide +kernel

end WS.C08

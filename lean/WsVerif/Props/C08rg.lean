import WsVerif.Gen.RgKernels
import WsVerif.Lemmas.RgBridge
import WsVerif.Props.C08
import WsVerif.Props.C01xr
import WsVerif.Model.Split
/-!
C08, T-tier: the definitions regenerated from `core.utils.regrid_spec` / `unique_indices` / `SpecArray._interp_freq`
(`Gen/RgKernels.lean`, by `harness/translate_rg.py`) equal the hand-written model `Model/Regrid.lean`, FOR ALL INPUTS.
-/
namespace WS.C08
open WS WS.Regrid WS.Rg

/-- NaN mask of one direction-interpolated entry: a value only inside the (extended) node range -/
def maskDir (l : Loc) (v : Rat) : Option Rat := if l.isSeg then some v else none

/-- `% 360`, `unique_indices`, `sortby("dir")` on a NaN-free spectrum: the labels are the model's sorted distinct
    labels `dirNodes`, the columns are re-indexed by the first occurrences; `sortby` is then the identity -/
theorem genrg_unique_sort_eq (f d : Vec) (e : Mat) :
    Rg.sortbyDir (Gen.rgUniqueIndices (Rg.assignDir (ofMat f d e) (Rg.modV (Rg.dirC (ofMat f d e)) 360))) =
      ofMat f ((dirNodes d).map (·.1)) (e.map fun r => ((dirNodes d).map (·.2)).map (getR r)) := by
  have hv : dirNodes d = dedupK (sortK ((Rg.modV d 360).zip (List.range (Rg.modV d 360).length))) := by
    simp [dirNodes, Rg.modV]
  have hsorted := (dedupK_sortK_spec ((Rg.modV d 360).zip (List.range (Rg.modV d 360).length))).1
  rw [← hv] at hsorted
  have hlab : ((dirNodes d).map (·.2)).map (getR (Rg.modV d 360)) = (dirNodes d).map (·.1) := by
    rw [hv]; exact nodes_labels _
  simp only [Gen.rgUniqueIndices, Rg.assignDir, Rg.dirC, Rg.npUniqueIndex, Rg.iselDirL, ofMat, ← hv, hlab, Rg.sortbyDir]
  rw [argsort_sorted _ hsorted, map_getR_range]
  simp only [List.map_map]
  congr 1
  apply List.map_congr_left
  intro r _
  simp only [Function.comp]
  have h := map_getO_range (((dirNodes d).map (·.2)).map (getO (r.map some)))
  simp only [List.length_map] at h ⊢
  simp only [List.map_map] at h
  rw [h]
  simp [getO_map_some, Function.comp_def]

theorem lin1_some (xs ys : Vec) (x : Rat) :
    lin1 none xs (ys.map some) x = maskDir (locate xs x) (applyLoc ys (locate xs x)) := by
  cases h : locate xs x <;> simp [lin1, maskDir, applyLoc, lerpO, getO_map_some, Loc.isSeg, h]

/-- the generated wrap decisions are the model's `wrapLo` / `wrapHi` (on the sorted distinct labels `min` is the first
    and `max` the last label) -/
theorem genrg_wrap_eq (dS td : Vec) (hs : dS.Pairwise (· < ·)) :
    (decide (Rg.amin td < Rg.amin dS) || decide (dS.length = 1)) = wrapLo dS td ∧
    (decide (Rg.amax td > Rg.amax dS) || decide (dS.length = 1)) = wrapHi dS td := by
  simp [wrapLo, wrapHi, Rg.amin, Rg.amax, minL_sorted dS hs, maxL_sorted dS hs]

example : ([10, 20] : Vec).Pairwise (· < ·) := by decide

/-- the direction block of `regrid_spec` on a NaN-free spectrum = the model's `dirStage`, NaN outside the node range -/
theorem genrg_dir_stage_eq (f d : Vec) (e : Mat) (td : Vec) :
    Gen.rgDirBlock (ofMat f d e) td =
      { freq := f, dir := td,
        e := (dirStage d e td).vals.map fun r => List.zipWith maskDir (dirStage d e td).locs r } := by
  have hsorted := (dedupK_sortK_spec ((d.map fun x => pmod x 360).zip (List.range d.length))).1
  have hw := genrg_wrap_eq ((dirNodes d).map (·.1)) td hsorted
  simp only [Gen.rgDirBlock]
  rw [genrg_unique_sort_eq]
  simp only [dirStage]
  generalize hE : (e.map fun r => ((dirNodes d).map (·.2)).map (getR r)) = E
  have hE' : e.map (fun r => List.map (applyLoc (dirYs (((dirNodes d).map (·.2)).map (getR r)) (wrapLo ((dirNodes d).map (·.1)) td) (wrapHi ((dirNodes d).map (·.1)) td)))
      (td.map (locate (dirXs ((dirNodes d).map (·.1)) (wrapLo ((dirNodes d).map (·.1)) td) (wrapHi ((dirNodes d).map (·.1)) td))))) =
      E.map (fun r => List.map (applyLoc (dirYs r (wrapLo ((dirNodes d).map (·.1)) td) (wrapHi ((dirNodes d).map (·.1)) td)))
      (td.map (locate (dirXs ((dirNodes d).map (·.1)) (wrapLo ((dirNodes d).map (·.1)) td) (wrapHi ((dirNodes d).map (·.1)) td))))) := by
    rw [← hE, List.map_map]; rfl
  rw [hE']
  generalize (dirNodes d).map (·.1) = dS at hw ⊢
  have hd : Rg.dirC (ofMat f dS E) = dS := rfl
  simp only [hd, hw.1, hw.2]
  cases wrapLo dS td <;> cases wrapHi dS td <;>
    simp [Rg.iselDir, Rg.assignDir, Rg.subV, Rg.addV, Rg.dirC, Rg.concatDir, Rg.concat2Dir, Rg.interpDir, ofMat,
      pick_neg_one, pick_zero, dirXs, dirYs, lin1_some, List.zipWith_map_left,
      List.zipWith_map_right]
  all_goals
    intro a _ x _
    rw [← lin1_some]
    congr 1 <;> simp [lastD, List.getLastD_eq_getLast?]

/-- the generated `fzero` decision is the model's `anchorLo` -/
theorem genrg_anchor_eq (f tf : Vec) :
    (decide (Rg.amin tf < Rg.amin f) || decide (f.length = 1)) = anchorLo f tf := by
  rfl

/-- frequency block, up to the call of `interp`: the zero row at `f = 0` is put IN FRONT exactly when the model's
    `anchorLo` says so, and the nodes handed to `interp(freq=…, assume_sorted=False, fill_value=0)` are the model's
    `pairs` of `freqStage`.  PARTIAL (kept as a stepping stone): the reading `Rg.interpFreq` is proved equal to `freqStage`
    on the lifted rows in `genrg_freq_stage_eq` / `genrg_freq_stage_masked_eq` below. -/
theorem genrg_freq_stage_partial (f d : Vec) (e : Mat) (tf : Vec) :
    Gen.rgFreqBlock (ofMat f d e) tf =
      Rg.interpFreq (ofMat ((if anchorLo f tf then [0] else []) ++ f) d
        ((if anchorLo f tf then [List.replicate (e.headD []).length 0] else []) ++ e)) tf 0 := by
  simp only [Gen.rgFreqBlock]
  have hf : Rg.freqC (ofMat f d e) = f := rfl
  rw [hf, genrg_anchor_eq]
  cases anchorLo f tf
  · simp
  · congr 1
    cases e with
    | nil => cases f <;> simp [ofMat, Rg.concatFreq, Rg.concat2Freq, Rg.setFreq, Rg.scaleDs, Rg.iselFreq, pick_zero]
    | cons r t =>
      cases f <;> simp [ofMat, Rg.concatFreq, Rg.concat2Freq, Rg.setFreq, Rg.scaleDs, Rg.iselFreq, pick_zero]
      all_goals (rw [← List.map_const']; simp [Function.comp_def])

/-- `maintain_m0`: the factor is `hs(dset)² / hs(dsout)²` (guarded float division), applied to every value -/
theorem genrg_m0_shape (sqrt : Rat → Rat) (a b : Rg.Ds) :
    Gen.rgM0Block sqrt a b = Rg.mulScale b (Rg.divG ((Gen.rgHs sqrt a) ^ 2) ((Gen.rgHs sqrt b) ^ 2)) := rfl

/-- the accessor `hs` used by the scale is the regenerated `Gen.xrHs` on the grid the spectrum lives on -/
theorem genrg_hs_shape (sqrt : Rat → Rat) (ds : Rg.Ds) :
    Gen.rgHs sqrt ds = Gen.xrHs sqrt ds.freq ds.dir ((Rg.fin? ds).getD []) (Gen.xrDf ds.freq) (Gen.xrDd ds.dir) true := rfl

/-- order of the blocks of `regrid_spec`: direction, then frequency, then the `maintain_m0` scale against the INPUT -/
theorem genrg_regrid_shape (sqrt : Rat → Rat) (ds : Rg.Ds) (tf td : Vec) (m0 : Bool) :
    Gen.rgRegrid sqrt ds (some tf) (some td) m0 =
      (if m0 then Gen.rgM0Block sqrt ds (Gen.rgFreqBlock (Gen.rgDirBlock ds td) tf)
       else Gen.rgFreqBlock (Gen.rgDirBlock ds td) tf) ∧
    Gen.rgRegrid sqrt ds none (some td) false = Gen.rgDirBlock ds td ∧
    Gen.rgRegrid sqrt ds (some tf) none false = Gen.rgFreqBlock ds tf ∧
    Gen.rgRegrid sqrt ds none none false = ds := ⟨rfl, rfl, rfl, rfl⟩

theorem zipWith_maskDir_seg : ∀ (locs : List Loc) (r : Vec), (∀ l ∈ locs, l.isSeg = true) → locs.length = r.length →
    List.zipWith maskDir locs r = r.map some := by
  intro locs
  induction locs with
  | nil => intro r _ h; cases r <;> simp_all
  | cons l t ih =>
    intro r h hl
    cases r with
    | nil => simp at hl
    | cons a r =>
      simp only [List.zipWith_cons_cons, List.map_cons]
      rw [ih r (fun l hl => h l (List.mem_cons_of_mem _ hl)) (by simpa using hl)]
      simp [maskDir, h l (by simp)]

example : (∀ l ∈ [Loc.seg 0 0], l.isSeg = true) ∧ [Loc.seg 0 0].length = ([1] : Vec).length := by decide

/-- HEADLINE (C08 "exact on nodes") on the GENERATED direction block: regridding a NaN-free spectrum with strictly
    increasing directions in `[0, 360)` onto its own directions returns it unchanged, no NaN -/
theorem genrg_dir_exact_on_nodes (f d : Vec) (e : Mat) (hs : d.Pairwise (· < ·)) (hr : ∀ x ∈ d, 0 ≤ x ∧ x < 360)
    (hn : 2 ≤ d.length) (hrect : Rect e d.length) :
    Gen.rgDirBlock (ofMat f d e) d = ofMat f d e := by
  rw [genrg_dir_stage_eq, dirStage_id d e hs hr hn hrect]
  simp only [ofMat]
  congr 1
  apply List.map_congr_left
  intro r hr'
  exact zipWith_maskDir_seg _ r (locate_mem_isSeg d hs hn) (by simp [hrect r hr'])

example : ([10, 20] : Vec).Pairwise (· < ·) ∧ (∀ x ∈ ([10, 20] : Vec), 0 ≤ x ∧ x < 360) ∧ 2 ≤ ([10, 20] : Vec).length ∧
    Rect [[1, 2]] ([10, 20] : Vec).length := by
  refine ⟨by decide, by decide, by decide, ?_⟩
  intro r hr; simp at hr; subst hr; rfl

/-- `_interp_freq`: range check (`ValueError`), `searchsorted`, the two weights and `/ df` = the model's
    `Split.interpFreq`, wherever the two neighbouring frequencies differ (the model reports the float division by zero
    separately) -/
theorem genrg_interp_freq_eq (f : Vec) (e : Mat) (x : Rat)
    (hdf : getR f (Split.searchsorted f x) - getR f (Split.searchsorted f x - 1) ≠ 0) :
    Gen.rgInterpFreq f e x = Split.interpFreq f e x := by
  have h1 : Rg.amin f = Split.vmin f := by cases f <;> simp [Rg.amin, minL, Split.vmin, minD]
  have h2 : Rg.amax f = Split.vmax f := by cases f <;> simp [Rg.amax, maxL, Split.vmax, maxD]
  have h3 : Rg.searchsorted f x = Split.searchsorted f x := rfl
  simp only [Gen.rgInterpFreq, Split.interpFreq, h1, h2, h3, if_neg hdf, Split.lerpRow]
  split
  · rfl
  · congr 1
    simp only [List.zipWith_map_left, List.zipWith_map_right, List.map_zipWith]

example : getR [1, 2, 4] (Split.searchsorted [1, 2, 4] 3) - getR [1, 2, 4] (Split.searchsorted [1, 2, 4] 3 - 1) ≠ 0 := by
  decide +kernel

/-- signatures, the `attrs` names, pure forwarding in `interp` / `interp_like`, and the statements of `regrid_spec`
    that are NOT translated (Dataset `keep/others` plumbing, list/tuple → array, name, attributes) -/
theorem genrg_pins :
    Gen.rgAttrs = [("DIRNAME", "dir"), ("FREQNAME", "freq")] ∧
    Gen.rgUniqueIndices_sig = [("ds", ""), ("dim", "'time'")] ∧
    Gen.rgRegrid_sig = [("dset", ""), ("freq", "None"), ("dir", "None"), ("maintain_m0", "True")] ∧
    Gen.rgInterpFreq_sig = [("self", ""), ("fint", "")] ∧
    Gen.rgInterp_sig = [("self", ""), ("freq", "None"), ("dir", "None"), ("maintain_m0", "True")] ∧
    Gen.rgInterp_src = ["return regrid_spec(self._obj, freq, dir, maintain_m0=maintain_m0)"] ∧
    Gen.rgInterpLike_sig = [("self", ""), ("other", ""), ("maintain_m0", "True")] ∧
    Gen.rgInterpLike_src = ["freq = getattr(other.spec, attrs.FREQNAME)", "dir = getattr(other.spec, attrs.DIRNAME)",
      "return self.interp(freq=freq, dir=dir, maintain_m0=maintain_m0)"] := by decide +kernel

theorem genrg_pins_plumbing :
    Gen.rgRegrid_plumbing = ["others = None", "if isinstance(dset, xr.Dataset):\n    keep = [v for v in dset.data_vars if not {attrs.FREQNAME, attrs.DIRNAME} & set(dset[v].dims)]\n    others = dset[keep]\n    dset = dset.drop_vars(keep)", "if isinstance(freq, (list, tuple)):\n    freq = np.array(freq)", "if isinstance(dir, (list, tuple)):\n    dir = np.array(dir)", "if others is not None:\n    dsout = dsout.assign(others.data_vars)", "if isinstance(dsout, xr.DataArray):\n    dsout.name = 'efth'", "set_spec_attributes(dsout)"] := by
  decide +kernel


/-! ## the frequency stage, the `maintain_m0` factor and the whole function against `Model/Regrid.lean` -/

/-- NaN mask of one column (a target direction outside the extended node range is NaN) -/
def maskCol (ok : Bool) (v : Rat) : Option Rat := if ok then some v else none

/-- NaN mask of a frequency-interpolated row of a NaN-free spectrum: NaN only on a degenerate segment -/
def maskRow (l : Loc) (r : Vec) : Rg.ORow := if l.isNan then r.map (fun _ => none) else r.map some

/-- the frequency block up to the call of `interp`, for ANY spectrum (NaN allowed): `0 * dsout.isel(freq=0)` relabelled
    `freq = 0` goes in front exactly when `anchorLo` -/
theorem genrg_freq_prefix (ds : Rg.Ds) (tf : Vec) :
    Gen.rgFreqBlock ds tf =
      Rg.interpFreq (if anchorLo ds.freq tf then
          { freq := 0 :: ds.freq, dir := ds.dir, e := (ds.e.headD []).map (fun v => v.map fun y => 0 * y) :: ds.e }
        else ds) tf 0 := by
  simp only [Gen.rgFreqBlock]
  have hf : Rg.freqC ds = ds.freq := rfl
  rw [hf, genrg_anchor_eq]
  cases anchorLo ds.freq tf
  · simp
  · simp [Rg.concatFreq, Rg.concat2Freq, Rg.setFreq, Rg.scaleDs, Rg.iselFreq, pick_zero]

theorem zipWith_lerpO_some (t : Rat) : ∀ a b : Vec,
    List.zipWith (fun x y => lerpO x y t) (a.map some) (b.map some) = (List.zipWith (fun x y => lerpT x y t) a b).map some := by
  intro a b
  simp [List.zipWith_map_left, List.zipWith_map_right, List.map_zipWith, lerpO]

theorem zipWith_lerpO_mask (t : Rat) (i : Nat) : ∀ (c : List Bool) (a b : Vec),
    List.zipWith (fun x y => lerpO x y t) (List.zipWith maskCol c a) (List.zipWith maskCol c b) =
      List.zipWith (maskEntry (.seg i t)) c (List.zipWith (fun x y => lerpT x y t) a b) := by
  intro c
  induction c with
  | nil => intro a b; simp
  | cons k c ih =>
    intro a b
    cases a with
    | nil => simp
    | cons x a =>
      cases b with
      | nil => simp
      | cons y b =>
        simp only [List.zipWith_cons_cons, ih]
        cases k <;> simp [maskCol, maskEntry, lerpO]

theorem zipWith_const_replicate {γ : Type} (g : Bool → Rat → γ) (k : γ) (hg : ∀ b, g b 0 = k) :
    ∀ (c : List Bool) (n : Nat), n ≤ c.length → List.zipWith g c (List.replicate n 0) = List.replicate n k := by
  intro c
  induction c with
  | nil => intro n h; simp at h; subst h; rfl
  | cons b c ih =>
    intro n h
    cases n with
    | zero => simp
    | succ n =>
      simp only [List.replicate_succ, List.zipWith_cons_cons, hg]
      rw [ih n (by simpa using h)]

theorem scale0_mask : ∀ (c : List Bool) (r : Vec),
    (List.zipWith maskCol c r).map (fun v => v.map fun y => 0 * y) = List.zipWith maskCol c (List.replicate r.length 0) := by
  intro c
  induction c with
  | nil => intro r; simp
  | cons b c ih =>
    intro r
    cases r with
    | nil => simp
    | cons x r =>
      simp only [List.zipWith_cons_cons, List.map_cons, ih, List.length_cons, List.replicate_succ]
      cases b <;> simp [maskCol]

/-- GOAL 1.  The generated frequency block on a NaN-free spectrum = the model's `freqStage` (zero row in front iff
    `anchorLo`, stable sort by frequency — the source frequencies may be unsorted and repeated, exactly as in the model —,
    node search `locate`, fill value `0` outside the node range), NaN only where `locate` reports a degenerate segment.
    No hypothesis. -/
theorem genrg_freq_stage_eq (f d : Vec) (e : Mat) (tf : Vec) :
    Gen.rgFreqBlock (ofMat f d e) tf =
      { freq := tf, dir := d, e := List.zipWith maskRow (freqStage f e tf).locs (freqStage f e tf).vals } := by
  rw [genrg_freq_prefix]
  simp only [freqStage, List.zipWith_map_right, List.zipWith_self]
  have hofe : (ofMat f d e).e = e.map (List.map some) := rfl
  have hoff : (ofMat f d e).freq = f := rfl
  have hofd : (ofMat f d e).dir = d := rfl
  rw [hoff]
  cases hlo : anchorLo f tf
  · simp only [Bool.false_eq_true, if_false, List.nil_append]
    have := interpFreq_lift (List.map some) maskRow (e.headD []).length f d e tf rfl
      (fun i t a b => by rw [zipWith_lerpO_some]; simp [maskRow, Loc.isNan])
      (by simp [maskRow, Loc.isNan]) (by simp [maskRow, Loc.isNan])
      (by cases e <;> simp)
    rw [show ofMat f d e = { freq := f, dir := d, e := e.map (List.map some) } from rfl, this]
    simp [List.map_map, Function.comp_def]
  · simp only [if_true, hofe, hofd, List.singleton_append]
    have hz : (((e.map (List.map some)).headD []).map (fun v => v.map fun y => 0 * y)) :: e.map (List.map some) =
        ((List.replicate (e.headD []).length (0 : Rat)) :: e).map (List.map some) := by
      cases e <;> simp [← List.map_const']
    rw [hz]
    have := interpFreq_lift (List.map some) maskRow (e.headD []).length (0 :: f) d
      (List.replicate (e.headD []).length (0 : Rat) :: e) tf rfl
      (fun i t a b => by rw [zipWith_lerpO_some]; simp [maskRow, Loc.isNan])
      (by simp [maskRow, Loc.isNan]) (by simp [maskRow, Loc.isNan])
      (by simp)
    rw [this]
    simp [List.map_map, Function.comp_def]

theorem genrg_freq_stage_masked_eq (f d : Vec) (e : Mat) (c : List Bool) (tf : Vec) (hrect : Rect e c.length) :
    Gen.rgFreqBlock { freq := f, dir := d, e := e.map (List.zipWith maskCol c) } tf =
      { freq := tf, dir := d,
        e := List.zipWith (fun row r => List.zipWith (maskEntry row) c r) (freqStage f e tf).locs (freqStage f e tf).vals } := by
  rw [genrg_freq_prefix]
  simp only [freqStage, List.zipWith_map_right, List.zipWith_self]
  have hnd : (e.headD []).length ≤ c.length := by
    cases e with
    | nil => simp
    | cons r t => simp [hrect r (by simp)]
  have hnd' : ((e.map (List.zipWith maskCol c)).headD []).length = (e.headD []).length := by
    cases e with
    | nil => simp
    | cons r t => simp [hrect r (by simp)]
  have hnan := (zipWith_const_replicate (maskEntry .nan) none (fun _ => rfl) c _ hnd).symm
  have hout := (zipWith_const_replicate (maskEntry .out) (some 0) (fun _ => rfl) c _ hnd).symm
  cases hlo : anchorLo f tf
  · simp only [Bool.false_eq_true, if_false, List.nil_append]
    rw [interpFreq_lift (List.zipWith maskCol c) (fun l r => List.zipWith (maskEntry l) c r) (e.headD []).length f d e tf
      (by simp) (fun i t a b => zipWith_lerpO_mask t i c a b) hnan hout hnd']
    simp [List.map_map, Function.comp_def]
  · simp only [if_true, List.singleton_append]
    have hz : (((e.map (List.zipWith maskCol c)).headD []).map (fun v => v.map fun y => 0 * y)) :: e.map (List.zipWith maskCol c) =
        ((List.replicate (e.headD []).length (0 : Rat)) :: e).map (List.zipWith maskCol c) := by
      cases e with
      | nil => simp
      | cons r t =>
        simp only [List.map_cons, List.headD_cons]
        rw [scale0_mask]
    rw [hz]
    rw [interpFreq_lift (List.zipWith maskCol c) (fun l r => List.zipWith (maskEntry l) c r) (e.headD []).length (0 :: f) d
      (List.replicate (e.headD []).length (0 : Rat) :: e) tf
      (by simp) (fun i t a b => zipWith_lerpO_mask t i c a b) hnan hout (by simp only [List.map_cons, List.headD_cons, List.length_zipWith, List.length_replicate]; omega)]
    simp [List.map_map, Function.comp_def]

/-- a generated spectrum as a model result -/
def toOut (ds : Rg.Ds) : Out := { freq := ds.freq, dir := some ds.dir, e := ds.e }

theorem zipWith_maskCol_true : ∀ (r : Vec) (n : Nat), r.length ≤ n →
    List.zipWith maskCol (List.replicate n true) r = r.map some := by
  intro r
  induction r with
  | nil => intro n _; simp
  | cons a r ih =>
    intro n h
    cases n with
    | zero => simp at h
    | succ n => simp only [List.replicate_succ, List.zipWith_cons_cons, List.map_cons, ih n (by simpa using h)]; rfl

theorem zipWith_const_rows {α β : Type} (G : Loc → α → β) (L : Loc) : ∀ (f : Vec) (rows : List α), rows.length ≤ f.length →
    List.zipWith G (f.map fun _ => L) rows = rows.map (G L) := by
  intro f
  induction f with
  | nil => intro rows h; cases rows <;> simp_all
  | cons a f ih =>
    intro rows h
    cases rows with
    | nil => simp
    | cons r rows => simp only [List.map_cons, List.zipWith_cons_cons, ih rows (by simpa using h)]

theorem maskEntry_seg_col (i : Nat) (t : Rat) : maskEntry (.seg i t) = maskCol := by
  funext c v; rfl

theorem ofMat_masked (f d : Vec) (e : Mat) (n : Nat) (hrect : Rect e n) :
    ofMat f d e = { freq := f, dir := d, e := e.map (List.zipWith maskCol (List.replicate n true)) } := by
  simp only [ofMat]
  congr 1
  apply List.map_congr_left
  intro r hr
  rw [zipWith_maskCol_true r n (by rw [hrect r hr])]

theorem headD_map_true (e : Mat) (n : Nat) (hrect : Rect e n) (hne : e ≠ []) :
    ((e.headD []).map fun _ => true) = List.replicate n true := by
  cases e with
  | nil => exact absurd rfl hne
  | cons r t => simp [← hrect r (by simp), ← List.map_const']

/-- GOAL 3 (without `maintain_m0`).  Whole-function equality: for a well-formed NaN-free 2-D spectrum (`e` has one row per
    frequency, every row one value per direction) the generated `regrid_spec` IS the model's `regrid`, for every
    combination of target frequencies / directions (given or `None`), NaN masks included. -/
theorem genrg_regrid_eq (sqrt : Rat → Rat) (thr q : Rat) (f d : Vec) (e : Mat) (tf td : Option Vec)
    (hl : e.length = f.length) (hrect : Rect e d.length) (hne : e ≠ []) :
    Regrid.regrid thr q f (some d) e tf td false = .ok (toOut (Gen.rgRegrid sqrt (ofMat f d e) tf td false)) := by
  have hdr : ∀ t, Rect (dirStage d e t).vals ((dirStage d e t).locs.map Loc.isSeg).length := by
    intro t r hr
    simp only [dirStage, List.mem_map] at hr
    obtain ⟨r0, _, rfl⟩ := hr
    simp [dirStage]
  have hmd : ∀ (locs : List Loc), List.zipWith maskDir locs = List.zipWith maskCol (locs.map Loc.isSeg) := by
    intro locs; funext r; rw [List.zipWith_map_left]; rfl
  cases tf with
  | none =>
    cases td with
    | none =>
      simp only [regrid, core, coreOk, dirPart, freqPart, finish, Gen.rgRegrid, toOut, Bool.false_eq_true, if_false]
      congr 2
      rw [zipWith_const_rows _ _ f e (by omega), headD_map_true e _ hrect hne, maskEntry_seg_col]
      simp only [ofMat]
      apply List.map_congr_left
      intro r hr
      rw [zipWith_maskCol_true r _ (by rw [hrect r hr])]
    | some t =>
      simp only [regrid, core, coreOk, dirPart, freqPart, finish, Gen.rgRegrid, toOut, Bool.false_eq_true, if_false,
        genrg_dir_stage_eq]
      congr 2
      rw [zipWith_const_rows _ _ f _ (by simp [dirStage]; omega), maskEntry_seg_col, hmd]
  | some tf =>
    cases td with
    | none =>
      simp only [regrid, core, coreOk, dirPart, freqPart, finish, Gen.rgRegrid, toOut, Bool.false_eq_true, if_false]
      rw [ofMat_masked f d e _ hrect, genrg_freq_stage_masked_eq f d e _ tf (by simpa using hrect),
        headD_map_true e _ hrect hne]
    | some t =>
      simp only [regrid, core, coreOk, dirPart, freqPart, finish, Gen.rgRegrid, toOut, Bool.false_eq_true, if_false,
        genrg_dir_stage_eq]
      rw [hmd, genrg_freq_stage_masked_eq f t _ _ tf (hdr t)]

theorem mapM_some_id {α : Type} : ∀ r : List α, List.mapM (m := Option) some r = some r := by
  intro r
  induction r with
  | nil => rfl
  | cons a r ih => simp [List.mapM_cons, ih]

theorem fin?_ofMat (f d : Vec) (e : Mat) : Rg.fin? (ofMat f d e) = some e := by
  simp only [Rg.fin?, ofMat]
  induction e with
  | nil => rfl
  | cons r t ih => simp [List.mapM_cons, mapM_some_id, ih]

/-- the accessor `hs` of the generated code on a NaN-free spectrum: `4·sqrt` of the model's radicand `hsOf` -/
theorem genrg_hs_eq (sqrt : Rat → Rat) (f d : Vec) (e : Mat) (hf : f ≠ []) :
    Gen.rgHs sqrt (ofMat f d e) = 4 * sqrt (hsOf Consts.thr Consts.quarter f (some d) e) := by
  simp only [Gen.rgHs, fin?_ofMat, Option.getD_some, Gen.xrHs, C01.genxr_hs_factor, hsOf, specS]
  have hc : Rg.freqC (ofMat f d e) = f := rfl
  have hd : Rg.dirC (ofMat f d e) = d := rfl
  rw [hc, hd, C01.genxr_hs_composed f d e _ hf]
  rfl

/-- GOAL 2.  The `maintain_m0` factor of the generated block, `hs(in)**2 / hs(out)**2` through the regenerated accessor
    (guarded float division), is the model's `scaleOf` of the two radicands, for NaN-free spectra with non-negative
    radicands and any `sqrt` that inverts squaring on non-negative numbers. -/
theorem genrg_m0_eq (sqrt : Rat → Rat) (f d : Vec) (e : Mat) (f' d' : Vec) (e' : Mat) (hf : f ≠ []) (hf' : f' ≠ [])
    (hs0 : sqrt (hsOf Consts.thr Consts.quarter f (some d) e) ^ 2 = hsOf Consts.thr Consts.quarter f (some d) e)
    (hs1 : sqrt (hsOf Consts.thr Consts.quarter f' (some d') e') ^ 2 = hsOf Consts.thr Consts.quarter f' (some d') e') :
    Rg.divG ((Gen.rgHs sqrt (ofMat f d e)) ^ 2) ((Gen.rgHs sqrt (ofMat f' d' e')) ^ 2) =
      scaleOf (hsOf Consts.thr Consts.quarter f (some d) e) (hsOf Consts.thr Consts.quarter f' (some d') e') true := by
  rw [genrg_hs_eq sqrt f d e hf, genrg_hs_eq sqrt f' d' e' hf']
  generalize hsOf Consts.thr Consts.quarter f (some d) e = a at hs0 ⊢
  generalize hsOf Consts.thr Consts.quarter f' (some d') e' = b at hs1 ⊢
  have h0 : 0 ≤ a := by rw [← hs0]; positivity
  have h1 : 0 ≤ b := by rw [← hs1]; positivity
  have ha : (4 * sqrt a) ^ 2 = 16 * a := by rw [mul_pow, hs0]; norm_num
  have hb : (4 * sqrt b) ^ 2 = 16 * b := by rw [mul_pow, hs1]; norm_num
  rw [ha, hb]
  simp only [Rg.divG, scaleOf, Bool.true_and, h0, decide_true]
  by_cases hb0 : b = 0
  · subst hb0; simp
  · have hpos : 0 < b := lt_of_le_of_ne h1 (Ne.symm hb0)
    simp only [hpos, decide_true, if_true]
    rw [if_neg (by positivity)]
    congr 1
    field_simp

theorem allOK_iff (c : Core) (h : c.allOK = true) : (∀ b ∈ c.colOK, b = true) ∧ (∀ l ∈ c.rowSt, l.isNan = false) := by
  unfold Core.allOK at h
  rw [Bool.and_eq_true, List.all_eq_true, List.all_eq_true] at h
  exact ⟨fun b hb => by simpa using h.1 b hb, fun l hl => by simpa using h.2 l hl⟩

theorem maskEntry_notnan (l : Loc) (h : l.isNan = false) (v : ℚ) : maskEntry l true v = some v := by
  cases l <;> simp_all [maskEntry, Loc.isNan]

/-- without `maintain_m0`, when nothing is masked the output is the numeric pipeline -/
theorem finish_false_allOK (c : Core) (s : Option ℚ) (hok : c.allOK = true)
    (h3 : c.vals.length ≤ c.rowSt.length) (h4 : ∀ r ∈ c.vals, r.length ≤ c.colOK.length) :
    finish c false s = c.vals.map (·.map some) := by
  obtain ⟨h2, h1⟩ := allOK_iff c hok
  unfold finish
  simp only [Bool.false_eq_true, if_false]
  apply List.ext_getElem
  · simp; omega
  · intro i hi1 hi2
    have hiv : i < c.vals.length := by simpa using hi2
    have hir : i < c.rowSt.length := by omega
    rw [List.getElem_zipWith, List.getElem_map]
    have hrow := h1 _ (List.getElem_mem hir)
    apply List.ext_getElem
    · have := h4 _ (List.getElem_mem hiv); simp; omega
    · intro j hj1 hj2
      have hjv : j < (c.vals[i]).length := by simpa using hj2
      have hjc : j < c.colOK.length := by have := h4 _ (List.getElem_mem hiv); omega
      rw [List.getElem_zipWith, List.getElem_map, h2 _ (List.getElem_mem hjc)]
      exact maskEntry_notnan _ hrow _

theorem getD_row_le (rows : Mat) (n i : Nat) (h : ∀ r ∈ rows, r.length ≤ n) : (rows.getD i []).length ≤ n := by
  by_cases hi : i < rows.length
  · rw [getD_of_lt rows i hi]; exact h _ (List.getElem_mem hi)
  · rw [getD_of_ge rows i (by omega)]; simp

theorem applyLocV_len_le (nd n : Nat) (rows : Mat) (l : Loc) (hnd : nd ≤ n) (h : ∀ r ∈ rows, r.length ≤ n) :
    (applyLocV nd rows l).length ≤ n := by
  cases l with
  | out => simpa [applyLocV] using hnd
  | nan => simpa [applyLocV] using hnd
  | seg i t =>
    simp only [applyLocV, List.length_zipWith]
    exact le_trans (Nat.min_le_left _ _) (getD_row_le rows n i h)

theorem freqStage_rows_le (f : Vec) (E : Mat) (tf : Vec) (n : Nat) (hE : ∀ r ∈ E, r.length ≤ n) :
    ∀ r ∈ (freqStage f E tf).vals, r.length ≤ n := by
  intro r hr
  simp only [freqStage, List.mem_map] at hr
  obtain ⟨l, _, rfl⟩ := hr
  have hnd : (E.headD []).length ≤ n := by
    cases E with
    | nil => simp
    | cons r t => exact hE r (by simp)
  apply applyLocV_len_le _ n _ _ hnd
  intro r hr
  obtain ⟨p, hp, rfl⟩ := List.mem_map.mp hr
  rw [mem_sortK] at hp
  rcases List.mem_append.mp hp with hp | hp
  · split at hp
    · simp at hp; subst hp; simpa using hnd
    · simp at hp
  · exact hE _ (List.of_mem_zip hp).2

theorem coreOk_shape (f d : Vec) (e : Mat) (tf td : Option Vec) (hl : e.length = f.length) (hrect : Rect e d.length)
    (hne : e ≠ []) :
    (coreOk f (some d) e tf td).vals.length ≤ (coreOk f (some d) e tf td).rowSt.length ∧
    (∀ r ∈ (coreOk f (some d) e tf td).vals, r.length ≤ (coreOk f (some d) e tf td).colOK.length) ∧
    ∃ D, (coreOk f (some d) e tf td).dir = some D := by
  have hdr : ∀ t, ∀ r ∈ (dirStage d e t).vals, r.length ≤ ((dirStage d e t).locs.map Loc.isSeg).length := by
    intro t r hr
    simp only [dirStage, List.mem_map] at hr
    obtain ⟨r0, _, rfl⟩ := hr
    simp [dirStage]
  have he : ∀ r ∈ e, r.length ≤ ((e.headD []).map fun _ => true).length := by
    intro r hr
    rw [headD_map_true e _ hrect hne]; simp [hrect r hr]
  cases tf with
  | none =>
    cases td with
    | none => exact ⟨by simp [coreOk, dirPart, freqPart, hl], he, _, rfl⟩
    | some t => exact ⟨by simp [coreOk, dirPart, freqPart, dirStage, hl], hdr t, _, rfl⟩
  | some tf =>
    cases td with
    | none =>
      exact ⟨by simp [coreOk, dirPart, freqPart, freqStage], freqStage_rows_le f e tf _ he, _, rfl⟩
    | some t =>
      exact ⟨by simp [coreOk, dirPart, freqPart, freqStage], freqStage_rows_le f _ tf _ (hdr t), _, rfl⟩

theorem mulScale_ofMat (f d : Vec) (e : Mat) (k : Option Rat) :
    Rg.mulScale (ofMat f d e) k =
      { freq := f, dir := d,
        e := match k with
          | some k => e.map fun r => r.map fun v => some (k * v)
          | none => e.map fun r => r.map fun _ => none } := by
  cases k <;> simp [Rg.mulScale, ofMat, mul_comm]

/-- GOAL 3 (with `maintain_m0`).  Whole-function equality when nothing is masked (`allOK`: every target direction inside
    the extended node range, no degenerate frequency segment), for any `sqrt` that inverts squaring on the two radicands. -/
theorem genrg_regrid_m0_eq (sqrt : Rat → Rat) (f d : Vec) (e : Mat) (tf td : Option Vec)
    (hl : e.length = f.length) (hrect : Rect e d.length) (hne : e ≠ [])
    (hok : (coreOk f (some d) e tf td).allOK = true) (hcf : (coreOk f (some d) e tf td).freq ≠ [])
    (hs0 : sqrt (hsOf Consts.thr Consts.quarter f (some d) e) ^ 2 = hsOf Consts.thr Consts.quarter f (some d) e)
    (hs1 : sqrt (hsOf Consts.thr Consts.quarter (coreOk f (some d) e tf td).freq (coreOk f (some d) e tf td).dir
        (coreOk f (some d) e tf td).vals) ^ 2 =
      hsOf Consts.thr Consts.quarter (coreOk f (some d) e tf td).freq (coreOk f (some d) e tf td).dir
        (coreOk f (some d) e tf td).vals) :
    Regrid.regrid Consts.thr Consts.quarter f (some d) e tf td true =
      .ok (toOut (Gen.rgRegrid sqrt (ofMat f d e) tf td true)) := by
  obtain ⟨hA, hB, D, hD⟩ := coreOk_shape f d e tf td hl hrect hne
  have hfalse := genrg_regrid_eq sqrt Consts.thr Consts.quarter f d e tf td hl hrect hne
  have hf : f ≠ [] := by intro h; subst h; exact hne (List.eq_nil_of_length_eq_zero (by simpa using hl))
  have hstep : Gen.rgRegrid sqrt (ofMat f d e) tf td true =
      Gen.rgM0Block sqrt (ofMat f d e) (Gen.rgRegrid sqrt (ofMat f d e) tf td false) := by
    cases tf <;> cases td <;> rfl
  have hds : Gen.rgRegrid sqrt (ofMat f d e) tf td false =
      ofMat (coreOk f (some d) e tf td).freq D (coreOk f (some d) e tf td).vals := by
    simp only [regrid, core] at hfalse
    rw [finish_false_allOK _ _ hok hA hB, hD] at hfalse
    injection hfalse with h
    generalize Gen.rgRegrid sqrt (ofMat f d e) tf td false = ds' at h ⊢
    cases ds'
    simp only [toOut, Out.mk.injEq, Option.some.injEq] at h
    simp only [ofMat, h.1, h.2.1, ← h.2.2]
  rw [hstep, hds, genrg_m0_shape, genrg_m0_eq sqrt f d e _ D _ hf hcf hs0 (by rw [← hD]; exact hs1), mulScale_ofMat]
  simp only [regrid, core, hok, finish, if_true, toOut, hD]
  generalize scaleOf _ _ true = k
  cases k <;> rfl

/-- GOAL 4a.  HEADLINE (C08 `zero_above_fmax`) on the GENERATED function: a requested frequency above every source
    frequency carries no energy in any direction (entries are `0` or NaN), for every well-formed NaN-free spectrum -/
theorem genrg_zero_above_fmax (sqrt : Rat → Rat) (f d : Vec) (e : Mat) (tf : Vec) (td : Option Vec)
    (hl : e.length = f.length) (hrect : Rect e d.length) (hne : e ≠ []) (i : Nat) (hi : i < tf.length)
    (hx : ∀ y ∈ f, y < getR tf i) (h0 : 0 < getR tf i) :
    ∀ x ∈ (Gen.rgRegrid sqrt (ofMat f d e) (some tf) td false).e.getD i [], ∀ w, x = some w → w = 0 :=
  zero_above_fmax 0 0 f (some d) e tf td false _ (genrg_regrid_eq sqrt 0 0 f d e (some tf) td hl hrect hne) i hi hx h0

/-- GOAL 4b.  HEADLINE (C08 `m0_exact`) on the GENERATED function: with `maintain_m0`, nothing masked and energy on the
    target grid, the generated result is NaN-free and its `hs` radicand on the OUTPUT grid equals the radicand of the
    source on the SOURCE grid -/
theorem genrg_m0_exact (sqrt : Rat → Rat) (f d : Vec) (e : Mat) (tf td : Option Vec)
    (hl : e.length = f.length) (hrect : Rect e d.length) (hne : e ≠ [])
    (hok : (coreOk f (some d) e tf td).allOK = true) (hcf : (coreOk f (some d) e tf td).freq ≠ [])
    (hs0 : sqrt (hsOf Consts.thr Consts.quarter f (some d) e) ^ 2 = hsOf Consts.thr Consts.quarter f (some d) e)
    (hs1 : sqrt (hsOf Consts.thr Consts.quarter (coreOk f (some d) e tf td).freq (coreOk f (some d) e tf td).dir
        (coreOk f (some d) e tf td).vals) ^ 2 =
      hsOf Consts.thr Consts.quarter (coreOk f (some d) e tf td).freq (coreOk f (some d) e tf td).dir
        (coreOk f (some d) e tf td).vals)
    (hout : 0 < hsOf Consts.thr Consts.quarter (coreOk f (some d) e tf td).freq (coreOk f (some d) e tf td).dir
        (coreOk f (some d) e tf td).vals) :
    ∃ vals : Mat, (Gen.rgRegrid sqrt (ofMat f d e) tf td true).e = vals.map (·.map some) ∧
      hsOf Consts.thr Consts.quarter (Gen.rgRegrid sqrt (ofMat f d e) tf td true).freq
        (some (Gen.rgRegrid sqrt (ofMat f d e) tf td true).dir) vals = hsOf Consts.thr Consts.quarter f (some d) e := by
  have hc : core f (some d) e tf td = .ok (coreOk f (some d) e tf td) := by cases td <;> rfl
  have hin : 0 ≤ hsOf Consts.thr Consts.quarter f (some d) e := by rw [← hs0]; positivity
  exact m0_exact Consts.thr Consts.quarter f (some d) e tf td _ _
    (genrg_regrid_m0_eq sqrt f d e tf td hl hrect hne hok hcf hs0 hs1) hc hok hin hout

/-! ### non-vacuity -/
def f1 : Vec := [1]
def d1 : Vec := [0]
def e1 : Mat := [[4 / 5]]

example : Rect [[1, 2]] [true, false].length := by intro r hr; simp at hr; subst hr; rfl
example : eE.length = fE.length ∧ Rect eE dE.length ∧ eE ≠ [] := by
  refine ⟨rfl, ?_, by decide⟩
  intro r hr; simp [eE] at hr; rcases hr with rfl | rfl <;> rfl
example : hsOf Consts.thr Consts.quarter f1 (some d1) e1 = 1 := by decide +kernel
example : e1.length = f1.length ∧ Rect e1 d1.length ∧ e1 ≠ [] ∧
    (coreOk f1 (some d1) e1 (some f1) (some d1)).allOK = true ∧ (coreOk f1 (some d1) e1 (some f1) (some d1)).freq ≠ [] ∧
    id (hsOf Consts.thr Consts.quarter f1 (some d1) e1) ^ 2 = hsOf Consts.thr Consts.quarter f1 (some d1) e1 ∧
    id (hsOf Consts.thr Consts.quarter (coreOk f1 (some d1) e1 (some f1) (some d1)).freq
        (coreOk f1 (some d1) e1 (some f1) (some d1)).dir (coreOk f1 (some d1) e1 (some f1) (some d1)).vals) ^ 2 =
      hsOf Consts.thr Consts.quarter (coreOk f1 (some d1) e1 (some f1) (some d1)).freq
        (coreOk f1 (some d1) e1 (some f1) (some d1)).dir (coreOk f1 (some d1) e1 (some f1) (some d1)).vals ∧
    0 < hsOf Consts.thr Consts.quarter (coreOk f1 (some d1) e1 (some f1) (some d1)).freq
        (coreOk f1 (some d1) e1 (some f1) (some d1)).dir (coreOk f1 (some d1) e1 (some f1) (some d1)).vals := by
  refine ⟨rfl, ?_, by decide, by decide +kernel, by decide +kernel, by decide +kernel, by decide +kernel, by decide +kernel⟩
  intro r hr; simp [e1] at hr; subst hr; rfl
example : 2 < tfE.length ∧ (∀ y ∈ fE, y < getR tfE 2) ∧ 0 < getR tfE 2 := by decide +kernel
/-- the generated function and the model agree on the worked example of `Props/C08.lean`, computed -/
example : regrid (333 / 1000) (1 / 4) fE (some dE) eE (some tfE) (some tdE) false =
    .ok (toOut (Gen.rgRegrid id (ofMat fE dE eE) (some tfE) (some tdE) false)) := by
  decide +kernel

example : ([1, 2] : Vec).length ≤ 2 ∧ (2 : Nat) ≤ [true, true, false].length ∧ ([[1, 2]] : Mat).length ≤ ([3] : Vec).length := by decide
example : Loc.isNan (.seg 0 0) = false ∧ Loc.isNan .out = false := ⟨rfl, rfl⟩
example : ∀ r ∈ ([[1, 2], [3]] : Mat), r.length ≤ 2 := by decide

end WS.C08

import WsVerif.Model.Neigh
import WsVerif.Model.Flood
import WsVerif.Model.Specpart
import WsVerif.Lemmas.Fld
/-!
# C20 (stretch half) — the flooding loops of `pt_fld` stay inside their buffers and terminate

Namespace `WS.C20fld`; helper lemmas (invariants, Hoare triples over `Std.Do`, the circular FIFO) are in
`Lemmas/Fld.lean` and `Lemmas/Fld/*.lean`.  `Model/Specpart.lean` transliterates `pt_fld` loop by loop
(`scan1a`/`step1a`, `nbr1b`/`step1b`, `nbr1c`/`flood1c`/`step1c`, `sweepPix`/`step2`, `levelStep`, `ptFld`); every array
access goes through `rd`/`wr`, which raise the `oob` flag (the `Bool` state of `M = StateM Bool`) when the index is
outside the array, and every `for(;;)` of the C runs on fuel, reporting exhaustion (`brk = false` ⇒ `fuelOut`).
All statements below are about **running** the model function from the flag `false`: `(f … false).2 = false` is
"no out-of-range access", the break flag `= true` is "the loop left through one of the C's `break`s, the fuel sufficed".

Static facts assumed by the loop theorems (all satisfied by what `partition` hands to `pt_fld`, see the examples and
`table_ok`): `NbOK n nb` — the neighbour table has `9n` slots, counts `0..8`, entries valid pixels;
`IndOK n ind` — `ind` lists each pixel `0..n-1` exactly once; buffers of size `n`; `2 ≤ n` (a non-constant spectrum has
at least two bins).

**Proved for all inputs**
* (b) FIFO discipline: `fifo_add_discipline`, `fifo_first_discipline`, `fifo_empty_test` — the circular buffer
  `(iq, iq_start, iq_end)` of `n` slots represents a list of at most `n` live entries (`QRep`); `fifo_add` on a
  non-full queue appends without touching live entries, `fifo_first` on a non-empty queue returns the oldest entry,
  `iq_start == iq_end` is the emptiness test as long as fewer than `n` entries are live; indices stay in `[0, n)`.
  In particular the uninitialised (`malloc`) content of `iq` is never read: every read is of a live entry.
* (a) `step1a_safe` (marking loop), `flood1c_safe`, `step1c_safe` (seeding / flooding), (c) `step1b_safe`
  (distance-ordered propagation; the fictitious pixel `-100` is never used as an index; occupancy `≤ n`),
  (d) `step2_safe` (five sweeps), (e) `levelStep_safe`, `ptFld_safe`: no out-of-range access, every `for(;;)`
  terminates within its fuel, the queue is empty between phases.
* `table_ok`: the table built by `ptnghb` satisfies `NbOK` for every grid; `ptsort_safe`: the executable counting
  sort makes no out-of-range access and returns a listing of the pixels (`IndOK`), for every level map in range;
  `ptsort_eq_spec`, `partition_ind_sorted`: it returns exactly `ptsortSpec` (sorted by level, stable).
* **`partition_memory_safe : G1Statement`** and **`partition_terminates : G2Statement`**: for every grid
  `nk, nth ≥ 1`, every `ihmax ≥ 1`, every integer spectrum of `nk·nth` values, every filling of the uninitialised
  queue buffer and with or without ghost trace, `partition` (copy-in, range, constant branch, levels, `ptsort`,
  `pt_fld`, copy-out) never raises the out-of-bounds flag and never reports fuel exhaustion.

* towards (G3): `valid_trace_labels` (on any valid trace the abstract `lab`/`K`/`snap` are the label effect `effRun` of
  the trace), `ptFld_trace_labels` (the label effect of the trace emitted by `pt_fld` is the concrete `imo`, the last
  seed number is `npart` — for all inputs), `ptFld_valid_trace_labels`, `partition_trace_labels`,
  `partition_valid_trace_labels` (hence validity alone implies that the abstract labels are the returned label map:
  the `labelsOk` half of `SP.verdict` needs no per-input check once the trace is valid).

* **`partition_trace_valid : G3Statement`**: the emitted ghost trace is accepted by `Flood.traceValid` on the grid's graph
  for all inputs (`partition_trace_run`: it is `Flood.Valid`); `ptFld_trace_valid` is the same for `pt_fld` on any graph
  and table related by `Ctx` (`Lemmas/Fld/Sim.lean`), `partition_ctx` provides that context; with
  `partition_valid_trace_labels` this gives `partition_abstract_labels` / `partition_abstract_final` (used by
  `Props/C04sound.lean`: `partition_sound`).  Proof: a simulation relation between the
  concrete arrays and the abstract state carried through all loops (`Lemmas/Fld/G1a`, `G1b`, `G1c`, `GTop`, `G2`, `GCtx`,
  `GValid`): 1a marks exactly the level's pixels (sortedness of `ind`) and queues those touching a lower level; 1b keeps
  the queue in geodesic-distance order (`D` processed, `A` current distance, fictitious pixel, `B` next distance), every
  dequeued pixel has a final labelled neighbour of smaller distance, and when the queue is empty no `MASK` pixel
  touches a labelled one (symmetry of the table); 1c floods each new seed with the queue as the abstract frontier; step 2
  reads the snapshot.
-/
namespace WS.C20fld
open WS.SP WS.Fld WS.Neigh

/-! ## the stretch goals, at full strength -/

/-- (G1) memory safety of the whole routine: for every grid, every level count, every integer spectrum of the grid's
    size and every initial content of the queue buffer, `partition` never raises the out-of-bounds flag.
    Proved: `partition_memory_safe`. -/
def G1Statement : Prop :=
  ∀ (nk nth ihmax : Nat), 1 ≤ nk → 1 ≤ nth → 1 ≤ ihmax → ∀ (spec : Array Int), spec.size = nk * nth →
    ∀ (iqFill : Int) (tr : Bool), (partition nk nth ihmax (table nk nth) spec iqFill tr).oob = false

/-- (G2) termination: the fuel of the three `for(;;)` loops always suffices.  Proved: `partition_terminates`. -/
def G2Statement : Prop :=
  ∀ (nk nth ihmax : Nat), 1 ≤ nk → 1 ≤ nth → 1 ≤ ihmax → ∀ (spec : Array Int), spec.size = nk * nth →
    ∀ (iqFill : Int) (tr : Bool), (partition nk nth ihmax (table nk nth) spec iqFill tr).fuelOut = false

/-- (G3) the ghost trace of the transliteration is always a valid trace of the abstract flooding machine on the
    grid's graph.  Proved: `partition_trace_valid` (it was checked per explored input by `harness/checks/c04.py`). -/
def G3Statement : Prop :=
  ∀ (nk nth ihmax : Nat), 1 ≤ nk → 1 ≤ nth → 1 ≤ ihmax → ∀ (spec : Array Int), spec.size = nk * nth →
    ∀ (iqFill : Int),
      let r := partition nk nth ihmax (table nk nth) spec iqFill true
      r.const = false → (Flood.traceValid (graphOf nk nth (rows nk nth) r.imi) r.trace).1 = true

/-! ## (b) FIFO discipline -/

/-- `fifo_add` on a queue with a free slot: the new element is appended, live entries are untouched, `iq_end` stays in
    `[0, n)` and the written slot is inside the buffer. -/
theorem fifo_add_discipline {n : Nat} {iq : Array Int} {qs qe : Int} {q : List Int} (h : QRep n iq qs qe q)
    (hfree : q.length < n) (v : Int) :
    (0 ≤ qe ∧ qe.toNat < iq.size) ∧ QRep n (iq.set! qe.toNat v) qs (fifoNextEnd n qe) (q ++ [v]) :=
  ⟨by have := h.qe_range; omega, h.add hfree v⟩

/-- `fifo_first` on a non-empty queue: the slot read is inside the buffer and holds the oldest live entry; the rest of
    the queue is what remains. -/
theorem fifo_first_discipline {n : Nat} {iq : Array Int} {qs qe v : Int} {q : List Int} (h : QRep n iq qs qe (v :: q)) :
    (0 ≤ qs ∧ qs.toNat < iq.size) ∧ iq[qs.toNat]! = v ∧ QRep n iq (fifoNextStart n qs) qe q :=
  ⟨h.qs_ok, h.pop.1, h.pop.2⟩

/-- `fifo_empty` (`iq_start == iq_end`) decides emptiness as long as fewer than `n` entries are live. -/
theorem fifo_empty_test {n : Nat} {iq : Array Int} {qs qe : Int} {q : List Int} (h : QRep n iq qs qe q)
    (hl : q.length < n) : qs = qe ↔ q = [] :=
  h.empty_iff hl

example : QRep 3 #[7, 8, 9] 2 1 [9, 7] :=
  ⟨rfl, by decide, by decide, by decide, by decide, by
    intro i hi
    have : i = 0 ∨ i = 1 := by simp at hi; omega
    rcases this with rfl | rfl <;> rfl⟩

/-! ## static facts -/

/-- the neighbour table of every grid satisfies the bounds the loops rely on -/
theorem table_ok (mk mth : Nat) : NbOK (mk * mth) (table mk mth) := WS.Fld.table_ok mk mth

/-! ## (a) step 1a and step 1c, (c) step 1b, (d) step 2, (e) composition -/

/-- 1a: from an empty queue and a cursor in range, the marking loop makes no out-of-range access, leaves through a
    `break` (fuel `n+1` suffices), and hands over a queue of distinct valid `MASK` pixels with one slot spare. -/
theorem step1a_safe {n : Nat} {nb imi ind : Array Int} (ih : Int) (tr : Bool) {imo imd iq : Array Int} {qs qe m : Int}
    (trace : Array Flood.Step)
    (hnb : NbOK n nb) (hind : IndOK n ind) (hi : imi.size = n) (hs : imo.size = n) (hd : imd.size = n)
    (hq : QRep n iq qs qe []) (hm0 : 0 ≤ m) (hm1 : m < n) :
    let r := step1a n nb imi ind ih tr imo imd iq qe m trace false
    r.2 = false ∧ r.1.2.2.2.2.2.2 = true ∧ Post1a n r.1.1 r.1.2.1 r.1.2.2.1 qs r.1.2.2.2.1 :=
  (triple_iff _ _ _).mp (step1a_spec ih tr trace hnb hind hi hs hd hq hm0 hm1) false rfl

/-- 1b: from the queue left by 1a, the propagation loop makes no out-of-range access (the fictitious pixel is never
    used as an index, the queue never holds more than `n` entries), leaves through its `break` within `4n+8`
    iterations, and leaves the queue empty. -/
theorem step1b_safe {n : Nat} {nb : Array Int} (tr : Bool) {imo imd iq : Array Int} {qs qe : Int}
    (trace : Array Flood.Step) (hnb : NbOK n nb) (h : Post1a n imo imd iq qs qe) :
    let r := step1b n nb tr imo imd iq qs qe trace false
    r.2 = false ∧ r.1.2.2.2.2.2.2 = true ∧ r.1.1.size = n ∧ r.1.2.1.size = n ∧
      QRep n r.1.2.2.1 r.1.2.2.2.1 r.1.2.2.2.2.1 [] :=
  (triple_iff _ _ _).mp (step1b_spec tr trace hnb h) false rfl

/-- 1c, inner `for(;;)`: flooding a new basin from a queue of distinct non-`MASK` pixels makes no out-of-range
    access, stops through the emptiness test within `n+2` iterations, and leaves the queue empty. -/
theorem flood1c_safe {n : Nat} {nb : Array Int} (tr : Bool) {icl : Int} {imo iq : Array Int} {qs qe : Int}
    (trace : Array Flood.Step) (q : List Int)
    (hnb : NbOK n nb) (hs : imo.size = n) (hicl : icl ≠ -2)
    (hq : QRep n iq qs qe q) (hc : QC n imo [] q) (hl : q.length + 1 ≤ n) :
    let r := flood1c n nb tr icl imo iq qs qe trace false
    r.2 = false ∧ r.1.2.2.2.2.2 = true ∧ r.1.1.size = n ∧ QRep n r.1.2.1 r.1.2.2.1 r.1.2.2.2.1 [] :=
  (triple_iff _ _ _).mp (flood1c_spec tr trace q hnb hs hicl hq hc hl) false rfl

/-- 1c: from an idle state (queue empty) the seeding loop makes no out-of-range access, neither it nor any of its
    floods runs out of fuel, and the state is idle again. -/
theorem step1c_safe {n : Nat} {nb imi ind : Array Int} (ih : Int) (tr : Bool) {imo imd iq : Array Int}
    {qs qe icl m : Int} (trace : Array Flood.Step)
    (hnb : NbOK n nb) (hind : IndOK n ind) (hi : imi.size = n) (hn : 2 ≤ n)
    (h : Idle n imo imd iq qs qe icl m) :
    let r := step1c n nb imi ind ih tr imo imd iq qs qe icl m trace false
    r.2 = false ∧ r.1.2.2.2.2.2.2.2.2 = false ∧
      Idle n r.1.1 r.1.2.1 r.1.2.2.1 r.1.2.2.2.1 r.1.2.2.2.2.1 r.1.2.2.2.2.2.1 r.1.2.2.2.2.2.2.1 :=
  (triple_iff _ _ _).mp (step1c_spec ih tr trace hnb hind hi hn h) false rfl

/-- 2: the five clean-up sweeps make no out-of-range access (bounded loops). -/
theorem step2_safe {n : Nat} {nb zp : Array Int} (zpmax : Int) (tr : Bool) {imo : Array Int}
    (trace : Array Flood.Step) (hnb : NbOK n nb) (hz : zp.size = n) (hs : imo.size = n) :
    let r := step2 n nb zp zpmax tr imo trace false
    r.2 = false ∧ r.1.1.size = n :=
  (triple_iff _ _ _).mp (step2_spec zpmax tr trace hnb hz hs) false rfl

/-- one level of step 1 (1a; 1b; 1c): idle state to idle state, no out-of-range access, no loop out of fuel. -/
theorem levelStep_safe {n : Nat} {nb imi ind : Array Int} (ihN : Nat) (tr : Bool) {imo imd iq : Array Int}
    {qs qe icl m : Int} (trace : Array Flood.Step)
    (hnb : NbOK n nb) (hind : IndOK n ind) (hi : imi.size = n) (hn : 2 ≤ n)
    (h : Idle n imo imd iq qs qe icl m) :
    let r := levelStep n nb imi ind ihN tr imo imd iq qs qe icl m trace false
    r.2 = false ∧ r.1.2.2.2.2.2.2.2.2 = false ∧
      Idle n r.1.1 r.1.2.1 r.1.2.2.1 r.1.2.2.2.1 r.1.2.2.2.2.1 r.1.2.2.2.2.2.1 r.1.2.2.2.2.2.2.1 :=
  (triple_iff _ _ _).mp (levelStep_spec ihN tr trace hnb hind hi hn h) false rfl

/-- **`pt_fld` as a whole**: for every number of levels, every filling of the uninitialised queue buffer and every
    level map `imi`, with a valid neighbour table and `ind` a listing of the pixels, `pt_fld` makes no out-of-range
    access and never runs out of fuel. -/
theorem ptFld_safe {n : Nat} {nb imi ind zp : Array Int} (ihmax : Nat) (iqFill : Int) (tr : Bool)
    (hnb : NbOK n nb) (hind : IndOK n ind) (hi : imi.size = n) (hz : zp.size = n) (hn : 2 ≤ n) :
    let r := ptFld n nb imi ind zp ihmax iqFill tr false
    r.2 = false ∧ r.1.fuelOut = false ∧ r.1.imo.size = n :=
  (triple_iff _ _ _).mp (ptFld_spec ihmax iqFill tr hnb hind hi hz hn) false rfl

/-- the executable counting sort `ptsort`: for levels in `[0, ihmax)` no out-of-range access (`numv[imi[i]]`,
    `iaddr[i+1]`, `iorder[i]`, `ind[iorder[i]]`) and the result lists every pixel exactly once -/
theorem ptsort_safe {ihmax n : Nat} {imi : Array Int} (hi : 1 ≤ ihmax) (hs : imi.size = n)
    (hl : ∀ i, i < n → 0 ≤ imi[i]! ∧ imi[i]! < ihmax) :
    let r := ptsort ihmax n imi false
    r.2 = false ∧ IndOK n r.1 :=
  have h := (triple_iff _ _ _).mp (ptsort_spec hi hs hl) false rfl
  ⟨h.1, h.2.1⟩

example : ∀ i, i < 2 → (0 : Int) ≤ (#[1, 0] : Array Int)[i]! ∧ (#[1, 0] : Array Int)[i]! < ((2 : Nat) : Int) := by
  intro i hi
  have : i = 0 ∨ i = 1 := by omega
  rcases this with rfl | rfl <;> decide

/-- the executable `ptsort` computes its specification `ptsortSpec` (pixels level by level, increasing pixel index
    inside a level; `C04.ptsort_perm`, `C04.ptsort_sorted` are about that list) — so far only compared per input
    (`Verdict.indOk`) -/
theorem ptsort_eq_spec {ihmax n : Nat} {imi : Array Int} (hi : 1 ≤ ihmax) (hs : imi.size = n)
    (hl : ∀ i, i < n → 0 ≤ imi[i]! ∧ imi[i]! < ihmax) :
    (ptsort ihmax n imi false).1.toList =
      (ptsortSpec ihmax n (fun p => (imi[p]!).toNat)).map (fun (x : Nat) => (x : Int)) :=
  ((triple_iff _ _ _).mp (ptsort_spec hi hs hl) false rfl).2.2

/-- in every non-constant run of `partition` the sorted address table `ind` is the specification list for the
    run's own level map — the first conjunct of `Verdict.indOk`, for all inputs -/
theorem partition_ind_sorted (nk nth ihmax : Nat) (hk : 1 ≤ nk) (ht : 1 ≤ nth) (hi : 1 ≤ ihmax) (spec : Array Int)
    (hs : spec.size = nk * nth) (iqFill : Int) (tr : Bool) :
    let r := partition nk nth ihmax (table nk nth) spec iqFill tr
    r.const = false →
      r.ind.toList = (ptsortSpec ihmax (nk * nth) (fun p => (r.imi[p]!).toNat)).map (fun (x : Nat) => (x : Int)) :=
  ((triple_iff _ _ _).mp (partitionM_spec nk nth ihmax spec iqFill tr hk ht hi hs) false rfl).2.2

/-- **(G1)** `partition` never reads or writes outside its buffers. -/
theorem partition_memory_safe : G1Statement := by
  intro nk nth ihmax hk ht hi spec hs iqFill tr
  exact ((triple_iff _ _ _).mp (partitionM_spec nk nth ihmax spec iqFill tr hk ht hi hs) false rfl).1

/-- **(G2)** `partition` never runs out of fuel: all `for(;;)` loops of `pt_fld` terminate within the model's bounds
    (`n+1`, `4n+8`, `n+1`, `n+2` iterations). -/
theorem partition_terminates : G2Statement := by
  intro nk nth ihmax hk ht hi spec hs iqFill tr
  exact ((triple_iff _ _ _).mp (partitionM_spec nk nth ihmax spec iqFill tr hk ht hi hs) false rfl).2.1

example : (partition 2 2 3 (table 2 2) #[0, 5, 2, 5]).oob = false :=
  partition_memory_safe 2 2 3 (by decide) (by decide) (by decide) _ rfl 0 false

/-! ## towards (G3): the ghost trace records every label write -/

/-- On **every valid trace** (any graph, any trace) the abstract machine's `lab`, `K`, `snap` are the *label effect*
    of the trace (`effRun`: the updates of `Flood.step` with the guards ignored). -/
theorem valid_trace_labels {g : Flood.Graph} {t : List Flood.Step} {s : Flood.St} (h : Flood.run g t = some s) :
    (s.lab, s.K, s.snap) = effRun g.n t :=
  run_eff h

/-- **The label effect of the trace emitted by `pt_fld` is the concrete label array**, for all inputs: `mark`,
    `inherit`, `conflict`, `seed`, `flood`, `sweep`/`resolve` are emitted exactly at the writes of `imo` (`imd` in
    step 2) with the written value, and the last `seed` number is `npart`. -/
theorem ptFld_trace_labels {n : Nat} {nb imi ind zp : Array Int} (ihmax : Nat) (iqFill : Int)
    (hnb : NbOK n nb) (hind : IndOK n ind) (hi : imi.size = n) (hz : zp.size = n) (hn : 2 ≤ n) :
    let r := (ptFld n nb imi ind zp ihmax iqFill true false).1
    (effRun n r.trace.toList).1 = r.imo.map labC ∧ (effRun n r.trace.toList).2.1 = r.npart.toNat ∧ 0 ≤ r.npart := by
  have h := ((triple_iff _ _ _).mp (ptFld_specT ihmax iqFill hnb hind hi hz hn) false rfl).2.1
  exact ⟨h.2.1, h.2.2, h.1⟩

/-- Consequence: **if** the emitted trace is valid on a graph with `n` vertices (what (G3) asserts for the grid
    graph), the abstract machine ends with exactly the concrete labels (`-1 ↦ init`, `-2 ↦ mask`, `0 ↦ wshed`,
    `k ↦ basin k`) and `K = npart` — the `labelsOk` comparison of `SP.verdict`, for all inputs. -/
theorem ptFld_valid_trace_labels {n : Nat} {nb imi ind zp : Array Int} (ihmax : Nat) (iqFill : Int)
    (hnb : NbOK n nb) (hind : IndOK n ind) (hi : imi.size = n) (hz : zp.size = n) (hn : 2 ≤ n)
    (g : Flood.Graph) (hg : g.n = n) (s : Flood.St)
    (hv : Flood.run g (ptFld n nb imi ind zp ihmax iqFill true false).1.trace.toList = some s) :
    let r := (ptFld n nb imi ind zp ihmax iqFill true false).1
    (∀ p, p < n → s.labOf p = labC r.imo[p]!) ∧ (s.K : Int) = r.npart := by
  intro r
  have h := ptFld_trace_labels ihmax iqFill hnb hind hi hz hn
  have he := valid_trace_labels hv
  rw [hg] at he
  have hsz := ((triple_iff _ _ _).mp (ptFld_specT ihmax iqFill hnb hind hi hz hn) false rfl).2.2
  have hl : s.lab = r.imo.map labC := by rw [← h.1]; exact congrArg (·.1) he
  have hk : s.K = r.npart.toNat := by rw [← h.2.1]; exact congrArg (·.2.1) he
  have hnp : 0 ≤ r.npart := h.2.2
  refine ⟨fun p hp => ?_, by rw [hk]; omega⟩
  unfold Flood.St.labOf
  rw [hl]
  exact getD_map _ _ (by rw [hsz]; exact hp)

/-- the same for `partition` as a whole and its returned (row-major) label map: for every input, the label effect of
    the emitted trace at pixel `ifreq + nk·iang` is the label returned for bin `[ifreq][iang]` -/
theorem partition_trace_labels (nk nth ihmax : Nat) (hk : 1 ≤ nk) (ht : 1 ≤ nth) (hi : 1 ≤ ihmax) (spec : Array Int)
    (hs : spec.size = nk * nth) (iqFill : Int) :
    let r := partition nk nth ihmax (table nk nth) spec iqFill true
    r.const = false → ∀ f t, f < nk → t < nth →
      (effRun (nk * nth) r.trace.toList).1.getD (f + nk * t) .init = labC r.labels[f * nth + t]! := by
  intro r hc f t hf ht'
  obtain ⟨imoF, hsz, he, hl⟩ :=
    ((triple_iff _ _ _).mp (partitionM_specT nk nth ihmax spec iqFill hk ht hi hs) false rfl).2 hc
  show (effRun (nk * nth) (partitionM nk nth ihmax (table nk nth) spec iqFill true false).1.trace.toList).1.getD _ _ = _
  rw [he, getD_map _ _ (by rw [hsz]; exact NeighL.lin_lt hf ht'), ← hl f t hf ht']
  rfl

/-- hence: **whenever the trace emitted by `partition` is valid** on a graph with `nk·nth` vertices, the abstract
    machine's final label of pixel `ifreq + nk·iang` is the returned label of bin `[ifreq][iang]` — the `labelsOk`
    comparison of `SP.verdict` holds for all inputs as soon as the trace is valid (all returned labels being `≥ 0`). -/
theorem partition_valid_trace_labels (nk nth ihmax : Nat) (hk : 1 ≤ nk) (ht : 1 ≤ nth) (hi : 1 ≤ ihmax)
    (spec : Array Int) (hs : spec.size = nk * nth) (iqFill : Int) (g : Flood.Graph) (hg : g.n = nk * nth) (s : Flood.St) :
    let r := partition nk nth ihmax (table nk nth) spec iqFill true
    r.const = false → Flood.run g r.trace.toList = some s →
      ∀ f t, f < nk → t < nth → s.labOf (f + nk * t) = labC r.labels[f * nth + t]! := by
  intro r hc hv f t hf ht'
  have he := valid_trace_labels hv
  rw [hg] at he
  have hl : s.lab = (effRun (nk * nth) r.trace.toList).1 := congrArg (·.1) he
  unfold Flood.St.labOf
  rw [hl]
  exact partition_trace_labels nk nth ihmax hk ht hi spec hs iqFill hc f t hf ht'

example : Flood.run ⟨0, fun _ => [], fun _ => 0⟩ [] = some (Flood.St.init 0) := rfl

/-! ## (G3): the ghost trace is always valid -/

/-- **`pt_fld` emits a valid trace** on every graph `g` that is what the routine was given: `Ctx n nb imi ind g` says that
    the rows of the neighbour table `nb` are the adjacency lists of `g` (symmetric), that the level map of `g` is `imi`,
    and that `ind` lists the pixels sorted by level.  Every guard of the abstract machine holds along the trace
    (`mark`; `inherit`, `conflict`, `finalize`; `endqueue`; `seed`, `flood`, `closed`; `endlevel`; `sweep`, `resolve`). -/
theorem ptFld_trace_valid {n : Nat} {nb imi ind zp : Array Int} {g : Flood.Graph} (C : Ctx n nb imi ind g) (ihmax : Nat)
    (iqFill : Int) (hz : zp.size = n) (hn : 2 ≤ n) (hl : ∀ p, p < n → g.level p < ihmax) :
    Flood.Valid g (ptFld n nb imi ind zp ihmax iqFill true false).1.trace.toList := by
  obtain ⟨s, hrun, -⟩ := ((triple_iff _ _ _).mp (ptFld_specG C ihmax iqFill hz hn hl) false rfl).2
  unfold Flood.Valid
  rw [hrun]; rfl

/-- what `partition` hands to `pt_fld` is such a context: the cylinder table and the graph built from the same rows, the
    discretised levels, the output of the counting sort -/
theorem partition_ctx (mk mth ihmax : Nat) {imi ind : Array Int} (hs : imi.size = mk * mth)
    (hl : ∀ i, i < mk * mth → 0 ≤ imi[i]! ∧ imi[i]! < ihmax) (hind : IndOK (mk * mth) ind)
    (he : ind.toList = (ptsortSpec ihmax (mk * mth) (fun p => (imi[p]!).toNat)).map (fun (x : Nat) => (x : Int))) :
    Ctx (mk * mth) (table mk mth) imi ind (graphOf mk mth (rows mk mth) imi) :=
  ctx_partition mk mth ihmax hs hl hind he

/-- the ghost trace of every non-constant run of `partition` runs through the abstract flooding machine on the grid's
    graph: `Flood.Valid` -/
theorem partition_trace_run (nk nth ihmax : Nat) (hk : 1 ≤ nk) (ht : 1 ≤ nth) (hi : 1 ≤ ihmax) (spec : Array Int)
    (hs : spec.size = nk * nth) (iqFill : Int) :
    let r := partition nk nth ihmax (table nk nth) spec iqFill true
    r.const = false → Flood.Valid (graphOf nk nth (rows nk nth) r.imi) r.trace.toList := by
  intro r hc
  obtain ⟨s, hrun, -⟩ := ((triple_iff _ _ _).mp (partitionM_specG nk nth ihmax spec iqFill hk ht hi hs) false rfl).2 hc
  show (Flood.run (graphOf nk nth (rows nk nth) (partitionM nk nth ihmax (table nk nth) spec iqFill true false).1.imi)
    (partitionM nk nth ihmax (table nk nth) spec iqFill true false).1.trace.toList).isSome = true
  rw [hrun]; rfl

/-- **(G3)** the ghost trace emitted by `partition` is accepted by the executable checker `Flood.traceValid` on the grid's
    graph, for every grid, every level count, every spectrum and every filling of the queue buffer. -/
theorem partition_trace_valid : G3Statement := by
  intro nk nth ihmax hk ht hi spec hs iqFill r hc
  obtain ⟨s, hrun, -⟩ := ((triple_iff _ _ _).mp (partitionM_specG nk nth ihmax spec iqFill hk ht hi hs) false rfl).2 hc
  exact traceValid_of_run hrun

/-- hence, for all inputs, the abstract machine ends on the returned label map (`labelsOk` of `SP.verdict`): replaying
    the emitted trace on the grid's graph succeeds and leaves at pixel `ifreq + nk·iang` the label returned for bin
    `[ifreq][iang]` -/
theorem partition_abstract_labels (nk nth ihmax : Nat) (hk : 1 ≤ nk) (ht : 1 ≤ nth) (hi : 1 ≤ ihmax)
    (spec : Array Int) (hs : spec.size = nk * nth) (iqFill : Int) :
    let r := partition nk nth ihmax (table nk nth) spec iqFill true
    r.const = false → ∃ s, Flood.run (graphOf nk nth (rows nk nth) r.imi) r.trace.toList = some s ∧
      ∀ f t, f < nk → t < nth → s.labOf (f + nk * t) = labC r.labels[f * nth + t]! := by
  intro r hc
  obtain ⟨s, hrun, -⟩ := ((triple_iff _ _ _).mp (partitionM_specG nk nth ihmax spec iqFill hk ht hi hs) false rfl).2 hc
  exact ⟨s, hrun, partition_valid_trace_labels nk nth ihmax hk ht hi spec hs iqFill _ rfl s hc hrun⟩

/-- the same with what `Flood.Complete` needs besides "no watershed pixel left": the replay ends idle or sweeping
    with every level processed -/
theorem partition_abstract_final (nk nth ihmax : Nat) (hk : 1 ≤ nk) (ht : 1 ≤ nth) (hi : 1 ≤ ihmax)
    (spec : Array Int) (hs : spec.size = nk * nth) (iqFill : Int) :
    let r := partition nk nth ihmax (table nk nth) spec iqFill true
    r.const = false → ∃ s, Flood.run (graphOf nk nth (rows nk nth) r.imi) r.trace.toList = some s ∧
      (s.phase = .idle ∨ s.phase = .sweeping) ∧
      (∀ p, p < nk * nth → (graphOf nk nth (rows nk nth) r.imi).level p < s.h) ∧
      ∀ f t, f < nk → t < nth → s.labOf (f + nk * t) = labC r.labels[f * nth + t]! := by
  intro r hc
  obtain ⟨s, hrun, hph, hh⟩ :=
    ((triple_iff _ _ _).mp (partitionM_specG nk nth ihmax spec iqFill hk ht hi hs) false rfl).2 hc
  exact ⟨s, hrun, hph, hh, partition_valid_trace_labels nk nth ihmax hk ht hi spec hs iqFill _ rfl s hc hrun⟩

example : (Flood.traceValid (graphOf 2 2 (rows 2 2) (partition 2 2 3 (table 2 2) #[0, 5, 2, 5] 0 true).imi)
    (partition 2 2 3 (table 2 2) #[0, 5, 2, 5] 0 true).trace).1 = true :=
  partition_trace_valid 2 2 3 (by decide) (by decide) (by decide) _ rfl 0 (by decide +kernel)

/-! ### the hypotheses are satisfiable -/

/-- `ind = [1, 0]` lists both pixels of a 1×2 grid -/
example : IndOK 2 #[1, 0] :=
  ⟨rfl, by intro k hk; have : k = 0 ∨ k = 1 := by omega
           rcases this with rfl | rfl <;> exact ⟨by decide, by decide⟩,
   by intro j k hj hk h
      have : j = 0 ∨ j = 1 := by omega
      have : k = 0 ∨ k = 1 := by omega
      rcases ‹j = 0 ∨ j = 1› with rfl | rfl <;> rcases ‹k = 0 ∨ k = 1› with rfl | rfl <;> simp_all⟩

example : NbOK (1 * 2) (table 1 2) := table_ok 1 2

/-- the context `Ctx` of `ptFld_trace_valid` / the hypotheses of `partition_ctx` are satisfiable: a 1×2 grid with levels
    `[1, 0]`, sorted listing `[1, 0]` -/
example : Ctx (1 * 2) (table 1 2) #[1, 0] #[1, 0] (graphOf 1 2 (rows 1 2) #[1, 0]) :=
  partition_ctx 1 2 2 rfl
    (by intro i hi; have : i = 0 ∨ i = 1 := by omega
        rcases this with rfl | rfl <;> decide)
    ⟨rfl, by intro k hk; have : k = 0 ∨ k = 1 := by omega
             rcases this with rfl | rfl <;> exact ⟨by decide, by decide⟩,
     by intro j k hj hk h
        have : j = 0 ∨ j = 1 := by omega
        have : k = 0 ∨ k = 1 := by omega
        rcases ‹j = 0 ∨ j = 1› with rfl | rfl <;> rcases ‹k = 0 ∨ k = 1› with rfl | rfl <;> simp_all⟩
    (by decide)

example : ∀ p, p < 1 * 2 → (graphOf 1 2 (rows 1 2) #[1, 0]).level p < 2 := by
  intro p hp; have : p = 0 ∨ p = 1 := by omega
  rcases this with rfl | rfl <;> decide

example : Idle 2 (Array.replicate 2 (-1)) (Array.replicate 2 0) (Array.replicate 2 5) 0 0 0 0 :=
  Idle.init (by decide) 5

example : Post1a 2 #[-1, -1] #[0, 0] #[5, 5] 0 0 :=
  ⟨rfl, rfl, [], QRep.empty rfl (by decide) (by decide), PixQ.nil _ _ _, by decide⟩

example : QC 2 #[3, -1] [] [0] :=
  ⟨by simp, by intro x hx; simp at hx; subst hx; exact ⟨by decide, by decide⟩,
   by intro x hx; simp at hx; subst hx; decide⟩

end WS.C20fld

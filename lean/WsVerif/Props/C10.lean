import WsVerif.Model.Stats
import WsVerif.Model.Peak
import WsVerif.Lemmas.Sums
import WsVerif.Lemmas.Moments
import WsVerif.Props.C01
import WsVerif.Props.C02
import Mathlib.Data.Rat.Floor
import Mathlib.Tactic.NormNum
/-!
# C10 — statistics obey energy scaling, rotation symmetry and physical bounds

Property theorems only, on the C01/C02 models (`Stats.*`, `Peak.*`).  Square roots and `atan2` are
outside the model (DESIGN §1.1): "heights scale by √k" is stated as "the radicand scales by k",
"directions shift by a" as "the moment vector is rotated by a".  Every statement holds for every
number of frequencies and directions.
-/
namespace WS.C10
open WS WS.Stats WS.Peak

/-- scaling a 2-D spectrum -/
def scaleM (k : ℚ) (e : Mat) : Mat := e.map (scaleV k)

/-! ## A. multiplying the spectrum by `k` -/

/-! ### quantities linear in the spectrum -/

/-- every frequency moment is linear in the spectrum -/
theorem momf_smul (n : Nat) (k : ℚ) (f S : Vec) : momf n f (scaleV k S) = k * momf n f S := by
  unfold momf scaleV
  exact sum_zipWith_map_right (· * ·) (k * ·) k (fun a b => by ring) _ S

theorem m0E_smul (k : ℚ) (f S : Vec) : m0E f (scaleV k S) = k * m0E f S := by
  unfold m0E; exact dot_scaleV_left k S (df f)

/-- the radicand of `hs`/`hrms` (tail included) is linear in the spectrum: heights scale by `√k` -/
theorem hsE_smul (thr q : ℚ) (tail : Bool) (k : ℚ) (f S : Vec) :
    hsE thr q tail f (scaleV k S) = k * hsE thr q tail f S := by
  unfold hsE
  rw [m0E_smul, lastD_scaleV]
  split <;> ring

/-- direction-integrated spectrum -/
theorem oned_smul (ddv k : ℚ) (e : Mat) : oned ddv (scaleM k e) = scaleV k (oned ddv e) := by
  unfold oned scaleM scaleV
  simp only [List.map_map]
  congr 1; funext r
  simp only [Function.comp, sum_map_const_mul]; ring

/-- per-frequency directional moments -/
theorem momdRow_smul (ddv k : ℚ) (t : Vec) (e : Mat) :
    momdRow ddv t (scaleM k e) = scaleV k (momdRow ddv t e) := by
  unfold momdRow scaleM
  simp only [List.map_map, scaleV]
  congr 1; funext r
  simp only [Function.comp]
  exact sum_zipWith_map_left (fun x y => ddv * x * y) (k * ·) k (fun a b => by ring) r t

/-- `dm`'s moment vector: both components are multiplied by `k` (so its direction is unchanged) -/
theorem dmVec_smul (ddv k : ℚ) (s c : Vec) (e : Mat) :
    dmVec ddv s c (scaleM k e) = (k * (dmVec ddv s c e).1, k * (dmVec ddv s c e).2) := by
  unfold dmVec
  simp only [momdRow_smul, sum_scaleV]

/-- `dspr`'s ingredients `(a, b, e)` are all multiplied by `k` -/
theorem dsprABE_smul (ddv k : ℚ) (s c f : Vec) (e : Mat) :
    dsprABE ddv s c f (scaleM k e) =
      (k * (dsprABE ddv s c f e).1, k * (dsprABE ddv s c f e).2.1, k * (dsprABE ddv s c f e).2.2) := by
  unfold dsprABE
  simp only [momdRow_smul, oned_smul, dot_scaleV_left]

/-- Stokes drift sums (`uss`, `uss_x`, `uss_y`) are linear in the spectrum -/
theorem ussSum_smul (ddv k : ℚ) (fk t f : Vec) (e : Mat) :
    ussSum ddv fk t f (scaleM k e) = k * ussSum ddv fk t f e := by
  unfold ussSum scaleM
  apply sum_zipWith_map_right
  intro p r
  exact sum_zipWith_map_left (fun x y => ddv * p.1 * y * x * p.2) (k * ·) k (fun a b => by ring) r t

/-- mean square slope is linear in the spectrum -/
theorem mss_smul (k : ℚ) (k2 f S : Vec) : mss k2 f (scaleV k S) = k * mss k2 f S := by
  unfold mss
  rw [zipWith_scaleV_right (· * ·) k (fun x y => by ring)]
  exact sum_zipWith_map_left (· * ·) (k * ·) k (fun a b => by ring) _ (df f)

/-- `to_energy` is linear in the spectrum -/
theorem toEnergy_smul (ddv k : ℚ) (f : Vec) (e : Mat) :
    toEnergy ddv f (scaleM k e) = scaleM k (toEnergy ddv f e) := by
  unfold toEnergy scaleM
  generalize df f = w
  induction e generalizing w with
  | nil => simp
  | cons r e ih =>
    cases w with
    | nil => simp
    | cons d w =>
      simp only [List.map_cons, List.zipWith_cons_cons, ih, scaleV, List.map_map]
      congr 2; funext x; simp only [Function.comp]; ring

/-- `alpha`'s tail-fit value is linear in the spectrum (an energy scale, not claimed scale-free);
    its window `alphaPos` depends on `fp` and the grid only -/
theorem alphaVal_smul (c0 k : ℚ) (pos : List Nat) (f S ex : Vec) :
    alphaVal c0 pos f (scaleV k S) ex = k * alphaVal c0 pos f S ex := by
  unfold alphaVal
  have : (pos.map fun i => getR (scaleV k S) i * getR f i ^ 5 * getR ex i) =
      (pos.map fun i => getR S i * getR f i ^ 5 * getR ex i).map (k * ·) := by
    rw [List.map_map]; congr 1; funext i; simp only [Function.comp, getR_scaleV]; ring
  rw [this, sum_map_const_mul]; ring

/-! ### scale-free quantities (`k ≠ 0`) -/

/-- mean period `tm01 = m0/m1` (NaN status included) -/
theorem tm01_smul_inv (k : ℚ) (hk : k ≠ 0) (f S : Vec) : tm01 f (scaleV k S) = tm01 f S := by
  unfold tm01; rw [momf_smul, momf_smul, divOpt_mul_left _ _ _ hk]

/-- `tm02² = m0/m2` -/
theorem tm02Sq_smul_inv (k : ℚ) (hk : k ≠ 0) (f S : Vec) : tm02Sq f (scaleV k S) = tm02Sq f S := by
  unfold tm02Sq; rw [momf_smul, momf_smul, divOpt_mul_left _ _ _ hk]

/-- radicand of `swe` -/
theorem sweSq_smul_inv (k : ℚ) (hk : k ≠ 0) (f S : Vec) : sweSq f (scaleV k S) = sweSq f S := by
  unfold sweSq
  rw [momf_smul, momf_smul, momf_smul]
  have e1 : (k * momf 2 f S) ^ 2 = k ^ 2 * momf 2 f S ^ 2 := by ring
  have e2 : k * momf 0 f S * (k * momf 4 f S) = k ^ 2 * (momf 0 f S * momf 4 f S) := by ring
  rw [e1, e2, divOpt_mul_left _ _ _ (pow_ne_zero 2 hk)]

/-- radicand of `sw` -/
theorem swSq_smul_inv (k : ℚ) (hk : k ≠ 0) (f S : Vec) : swSq f (scaleV k S) = swSq f S := by
  unfold swSq
  rw [momf_smul, momf_smul, momf_smul]
  have e1 : (k * momf 1 f S) ^ 2 = k ^ 2 * momf 1 f S ^ 2 := by ring
  have e2 : k * momf 0 f S * (k * momf 2 f S) = k ^ 2 * (momf 0 f S * momf 2 f S) := by ring
  rw [e1, e2, divOpt_mul_left _ _ _ (pow_ne_zero 2 hk)]

/-- Goda peakedness -/
theorem goda_smul_inv (k : ℚ) (hk : k ≠ 0) (f S : Vec) : goda f (scaleV k S) = goda f S := by
  unfold goda
  simp only [m0E_smul]
  have hnum : (List.zipWith (· * ·) (List.zipWith (fun s x => s ^ 2 * x) (scaleV k S) f) (df f)).sum =
      k ^ 2 * (List.zipWith (· * ·) (List.zipWith (fun s x => s ^ 2 * x) S f) (df f)).sum := by
    have : List.zipWith (fun s x => s ^ 2 * x) (scaleV k S) f =
        scaleV (k ^ 2) (List.zipWith (fun s x => s ^ 2 * x) S f) := by
      induction S generalizing f with
      | nil => simp [scaleV]
      | cons a S ih =>
        cases f with
        | nil => simp [scaleV]
        | cons b f =>
          have := ih f
          simp only [scaleV, List.map_cons, List.zipWith_cons_cons] at this ⊢
          rw [this]; congr 1; ring
    rw [this]
    exact sum_zipWith_map_left (· * ·) (k ^ 2 * ·) (k ^ 2) (fun a b => by ring) _ (df f)
  rw [hnum]
  have hk2 : k ^ 2 ≠ 0 := pow_ne_zero 2 hk
  by_cases h0 : m0E f S ^ 2 = 0
  · have : (k * m0E f S) ^ 2 = 0 := by rw [mul_pow, h0, mul_zero]
    simp [h0, this]
  · have : (k * m0E f S) ^ 2 ≠ 0 := by rw [mul_pow]; exact mul_ne_zero hk2 h0
    simp only [h0, this, if_false]
    congr 1
    rw [mul_pow]
    field_simp

/-- directional spread: the ratio `(a² + b²)/e²` that `dspr` is a function of is unchanged -/
theorem dsprSq_smul_inv (ddv k : ℚ) (hk : k ≠ 0) (s c f : Vec) (e : Mat) :
    ((dsprABE ddv s c f (scaleM k e)).1 ^ 2 + (dsprABE ddv s c f (scaleM k e)).2.1 ^ 2) /
        (dsprABE ddv s c f (scaleM k e)).2.2 ^ 2 =
      ((dsprABE ddv s c f e).1 ^ 2 + (dsprABE ddv s c f e).2.1 ^ 2) / (dsprABE ddv s c f e).2.2 ^ 2 := by
  rw [dsprABE_smul]
  simp only
  have e1 : ∀ a b : ℚ, (k * a) ^ 2 + (k * b) ^ 2 = k ^ 2 * (a ^ 2 + b ^ 2) := by intro a b; ring
  rw [e1, mul_pow, mul_div_mul_left _ _ (pow_ne_zero 2 hk)]

/-- `gw` as coded (`sqrt(m0h/tm02² − m0h²/tm01²)`) is of mixed degree in the spectrum -/
def GwScaleFree : Prop :=
  ∀ (thr q k : ℚ) (f S : Vec), 0 < k → gwSq thr q f (scaleV k S) = gwSq thr q f S

/-- … so it is *not* scale-free (observation recorded in DESIGN, not an alarm): doubling `[1,3,2]` -/
theorem gwSq_scale_free_fails : ¬ GwScaleFree := by
  intro h
  have := h (333/1000) (1/4) 2 [1/10, 1/5, 2/5] [1, 3, 2] (by norm_num)
  revert this
  decide +kernel

/-- the parabolic-fit peak frequency only depends on the ratios of the three densities -/
theorem tpsFp_smul_inv (k : ℚ) (hk : k ≠ 0) (f1 f2 f3 e1 e2 e3 : ℚ) :
    tpsFp f1 f2 f3 (k * e1) (k * e2) (k * e3) = tpsFp f1 f2 f3 e1 e2 e3 := by
  unfold tpsFp
  simp only
  have a : (k * e1 - k * e2) / (f1 - f2) = k * ((e1 - e2) / (f1 - f2)) := by rw [← mul_sub, mul_div_assoc]
  have b : (k * e1 - k * e3) / (f1 - f3) = k * ((e1 - e3) / (f1 - f3)) := by rw [← mul_sub, mul_div_assoc]
  rw [a, b]
  have c : (k * ((e1 - e3) / (f1 - f3)) - k * ((e1 - e2) / (f1 - f2))) / (f3 - f2) =
      k * (((e1 - e3) / (f1 - f3) - (e1 - e2) / (f1 - f2)) / (f3 - f2)) := by
    rw [← mul_sub, mul_div_assoc]
  rw [c, mul_div_mul_left _ _ hk]

/-! ### peak detection (`k > 0`) -/

theorem isPeak_smul (k : ℚ) (hk : 0 < k) (a : Vec) (i : Nat) : isPeak (scaleV k a) i = isPeak a i := by
  unfold isPeak
  simp only [getR_scaleV, scaleV_length, mul_lt_mul_iff_right₀ hk]

/-- masking non-peaks commutes with positive scaling -/
theorem masked_smul (k : ℚ) (hk : 0 < k) (a : Vec) : masked (scaleV k a) = scaleV k (masked a) := by
  unfold masked
  rw [scaleV_length]
  simp only [isPeak_smul k hk, getR_scaleV]
  simp only [scaleV, List.map_map]
  congr 1; funext i
  simp only [Function.comp]
  split <;> simp

/-- the detected peak bin is unchanged -/
theorem peakIdx_smul (k : ℚ) (hk : 0 < k) (a : Vec) : peakIdx (scaleV k a) = peakIdx a := by
  unfold peakIdx; rw [masked_smul k hk, argmaxFirst_scaleV k hk]

/-- smooth peak frequency (hence `tp` smooth) is unchanged -/
theorem fpSmooth_smul_inv (k : ℚ) (hk : 0 < k) (f S : Vec) : fpSmooth f (scaleV k S) = fpSmooth f S := by
  unfold fpSmooth
  simp only [peakIdx_smul k hk, getR_scaleV, tpsFp_smul_inv k (ne_of_gt hk)]

/-- discrete peak frequency is unchanged -/
theorem fpDiscrete_smul_inv (k : ℚ) (hk : 0 < k) (f S : Vec) :
    fpDiscrete f (scaleV k S) = fpDiscrete f S := by
  unfold fpDiscrete
  simp only [peakIdx_smul k hk]

theorem colSums_smul (m : Nat) (k : ℚ) (e : Mat) : colSums m (scaleM k e) = scaleV k (colSums m e) := by
  unfold colSums scaleM
  simp only [scaleV, List.map_map]
  congr 1; funext j
  simp only [Function.comp]
  rw [← sum_map_const_mul, List.map_map]
  congr 2; funext r
  exact getR_scaleV k r j

/-- peak direction index is unchanged -/
theorem dpIdx_smul (m : Nat) (k : ℚ) (hk : 0 < k) (e : Mat) : dpIdx m (scaleM k e) = dpIdx m e := by
  unfold dpIdx; rw [colSums_smul, argmaxFirst_scaleV k hk]

/-- `dpm`'s vector at the peak row is multiplied by `k` (direction unchanged, NaN status unchanged) -/
theorem dpmVec_smul (ddv k : ℚ) (hk : 0 < k) (s c : Vec) (e : Mat) :
    dpmVec ddv s c (scaleM k e) = (dpmVec ddv s c e).map fun p => (k * p.1, k * p.2) := by
  unfold dpmVec
  simp only [oned_smul, peakIdx_smul k hk, momdRow_smul, getR_scaleV]
  split <;> simp

/-- `dpspr`'s ingredients at the peak row are multiplied by `k` -/
theorem dpsprABE_smul (ddv k : ℚ) (hk : 0 < k) (s c f : Vec) (e : Mat) :
    dpsprABE ddv s c f (scaleM k e) =
      (dpsprABE ddv s c f e).map fun p => (k * p.1, k * p.2.1, k * p.2.2) := by
  unfold dpsprABE
  simp only [oned_smul, peakIdx_smul k hk, momdRow_smul, getR_scaleV]
  split
  · simp
  · simp only [Option.map_some, Option.some.injEq, Prod.mk.injEq]
    exact ⟨by ring, by ring, by ring⟩

/-- JONSWAP `gamma` before the polynomial is unchanged (its `hs²` input scales with the spectrum) -/
theorem gammaRaw_smul_inv (a b H fp k : ℚ) (hk : 0 < k) (S : Vec) :
    gammaRaw a b (k * H) fp (scaleV k S) = gammaRaw a b H fp S := by
  unfold gammaRaw
  simp only
  rw [maxD_scaleV_zero k (le_of_lt hk)]
  have e : a * (16 * (k * H)) * fp ^ 4 * (1 / fp ^ 5) * b = k * (a * (16 * H) * fp ^ 4 * (1 / fp ^ 5) * b) := by
    ring
  rw [e]
  have hk' : k ≠ 0 := ne_of_gt hk
  simp only [mul_eq_zero, hk', false_or]
  split
  · rfl
  · rw [mul_div_mul_left _ _ hk']

/-! ## D. `scale_by_hs` -/

/-- `scale_by_hs` for one spectrum: where the condition holds the spectrum is multiplied by
    `k = (t/hs)² = t²/(16·hsE)`, elsewhere it is kept -/
def scaleByHs (thr q : ℚ) (tail : Bool) (t : ℚ) (cond : Bool) (f S : Vec) : Vec :=
  if cond then scaleV (t ^ 2 / (16 * hsE thr q tail f S)) S else S

/-- where the condition holds the rescaled spectrum has exactly `hs² = t²` (radicand `t²/16`) -/
theorem scale_by_hs (thr q : ℚ) (tail : Bool) (t : ℚ) (f S : Vec) (hH : hsE thr q tail f S ≠ 0) :
    hsE thr q tail f (scaleByHs thr q tail t true f S) = t ^ 2 / 16 := by
  unfold scaleByHs
  simp only [if_true]
  rw [hsE_smul]
  field_simp

/-- … and every other spectrum is untouched -/
theorem scale_by_hs_else (thr q : ℚ) (tail : Bool) (t : ℚ) (f S : Vec) :
    scaleByHs thr q tail t false f S = S := by
  simp [scaleByHs]

/-! ## C. physical bounds

Standing hypotheses: a non-negative 1-D spectrum `S` on a strictly increasing frequency grid with a
positive first frequency, and positive variance `m0 > 0`.  (No length hypothesis is needed: every sum
in the model runs over the common prefix of its arguments.) -/

theorem weights_nonneg (f S : Vec) (hS : ∀ x ∈ S, 0 ≤ x) (hf : f.Pairwise (· < ·)) :
    ∀ v ∈ List.zipWith (· * ·) (df f) S, 0 ≤ v :=
  zipWith_mul_nonneg (df f) S (fun v hv => le_of_lt (C01.df_pos f hf v hv)) hS

/-- `m1² ≤ m0·m2` -/
theorem cauchy_m1 (f S : Vec) (hS : ∀ x ∈ S, 0 ≤ x) (hf : f.Pairwise (· < ·)) (h0 : 0 < momf 0 f S) :
    momf 1 f S ^ 2 ≤ momf 0 f S * momf 2 f S := by
  rw [momf_eq_wmom] at h0
  have := wmom_cauchy 1 _ f (weights_nonneg f S hS hf) h0
  simpa only [momf_eq_wmom] using this

/-- `m2² ≤ m0·m4` -/
theorem cauchy_m2 (f S : Vec) (hS : ∀ x ∈ S, 0 ≤ x) (hf : f.Pairwise (· < ·)) (h0 : 0 < momf 0 f S) :
    momf 2 f S ^ 2 ≤ momf 0 f S * momf 4 f S := by
  rw [momf_eq_wmom] at h0
  have := wmom_cauchy 2 _ f (weights_nonneg f S hS hf) h0
  simpa only [momf_eq_wmom] using this

/-- `f_min · m_n ≤ m_{n+1} ≤ f_max · m_n` -/
theorem momf_succ_bounds (n : Nat) (f S : Vec) (hS : ∀ x ∈ S, 0 ≤ x) (hf : f.Pairwise (· < ·))
    (hpos : 0 < f.headD 0) :
    f.headD 0 * momf n f S ≤ momf (n + 1) f S ∧ momf (n + 1) f S ≤ lastD f * momf n f S := by
  simp only [momf_eq_wmom]
  exact wmom_succ_bounds n _ _ (le_of_lt hpos) _ f (weights_nonneg f S hS hf) (pairwise_lt_bounds f hf)

/-- every moment of a spectrum with positive variance is positive -/
theorem momf_pos (n : Nat) (f S : Vec) (hS : ∀ x ∈ S, 0 ≤ x) (hf : f.Pairwise (· < ·))
    (hpos : 0 < f.headD 0) (h0 : 0 < momf 0 f S) : 0 < momf n f S := by
  induction n with
  | zero => exact h0
  | succ n ih =>
    have := (momf_succ_bounds n f S hS hf hpos).1
    have := mul_pos hpos ih
    linarith

/-- `1/f_max² ≤ Tm02² ≤ Tm01²` and `Tm01 ≤ 1/f_min`, on the moment ratios -/
theorem tm_order (f S : Vec) (hS : ∀ x ∈ S, 0 ≤ x) (hf : f.Pairwise (· < ·))
    (hpos : 0 < f.headD 0) (h0 : 0 < momf 0 f S) :
    momf 0 f S / momf 2 f S ≤ (momf 0 f S / momf 1 f S) ^ 2 ∧
    momf 0 f S / momf 1 f S ≤ 1 / f.headD 0 ∧
    1 / (lastD f) ^ 2 ≤ momf 0 f S / momf 2 f S := by
  have h1 := momf_pos 1 f S hS hf hpos h0
  have h2 := momf_pos 2 f S hS hf hpos h0
  have hc := cauchy_m1 f S hS hf h0
  obtain ⟨b1, b1'⟩ := momf_succ_bounds 0 f S hS hf hpos
  obtain ⟨_, b2'⟩ := momf_succ_bounds 1 f S hS hf hpos
  have hlast : 0 < lastD f := by
    by_contra hn
    have : lastD f * momf 0 f S ≤ 0 := mul_nonpos_of_nonpos_of_nonneg (not_lt.mp hn) (le_of_lt h0)
    linarith
  refine ⟨?_, ?_, ?_⟩
  · rw [div_pow, div_le_div_iff₀ h2 (pow_pos h1 2)]
    nlinarith [mul_le_mul_of_nonneg_left hc (le_of_lt h0)]
  · rw [div_le_div_iff₀ h1 hpos]; linarith
  · rw [div_le_div_iff₀ (pow_pos hlast 2) h2]
    have : lastD f * momf 1 f S ≤ lastD f * (lastD f * momf 0 f S) :=
      mul_le_mul_of_nonneg_left b1' (le_of_lt hlast)
    nlinarith

/-- the same on the model's outputs: both periods are defined (not NaN), positive and ordered -/
theorem tm_order_opt (f S : Vec) (hS : ∀ x ∈ S, 0 ≤ x) (hf : f.Pairwise (· < ·))
    (hpos : 0 < f.headD 0) (h0 : 0 < momf 0 f S) :
    ∃ t1 t2, tm01 f S = some t1 ∧ tm02Sq f S = some t2 ∧ 0 < t1 ∧ 0 < t2 ∧
      t2 ≤ t1 ^ 2 ∧ t1 ≤ 1 / f.headD 0 ∧ 1 / (lastD f) ^ 2 ≤ t2 := by
  have h1 := momf_pos 1 f S hS hf hpos h0
  have h2 := momf_pos 2 f S hS hf hpos h0
  obtain ⟨a, b, c⟩ := tm_order f S hS hf hpos h0
  refine ⟨momf 0 f S / momf 1 f S, momf 0 f S / momf 2 f S, ?_, ?_, div_pos h0 h1, div_pos h0 h2, a, b, c⟩
  · simp [tm01, divOpt, ne_of_gt h1]
  · simp [tm02Sq, divOpt, ne_of_gt h2]

/-- `swe² = 1 − m2²/(m0 m4)` is defined and lies in `[0, 1]` (so `swe` is real and `≤ 1`) -/
theorem sweSq_range (f S : Vec) (hS : ∀ x ∈ S, 0 ≤ x) (hf : f.Pairwise (· < ·))
    (hpos : 0 < f.headD 0) (h0 : 0 < momf 0 f S) :
    ∃ v, sweSq f S = some v ∧ 0 ≤ v ∧ v ≤ 1 := by
  have h4 := momf_pos 4 f S hS hf hpos h0
  have hd : 0 < momf 0 f S * momf 4 f S := mul_pos h0 h4
  have hc := cauchy_m2 f S hS hf h0
  refine ⟨1 - momf 2 f S ^ 2 / (momf 0 f S * momf 4 f S), ?_, ?_, ?_⟩
  · simp [sweSq, divOpt, ne_of_gt h0, ne_of_gt h4]
  · have : momf 2 f S ^ 2 / (momf 0 f S * momf 4 f S) ≤ 1 := (div_le_one hd).mpr hc
    linarith
  · have : 0 ≤ momf 2 f S ^ 2 / (momf 0 f S * momf 4 f S) := div_nonneg (sq_nonneg _) (le_of_lt hd)
    linarith

/-- `sw² = m0 m2/m1² − 1` is defined and non-negative (so `sw` is real) -/
theorem swSq_nonneg (f S : Vec) (hS : ∀ x ∈ S, 0 ≤ x) (hf : f.Pairwise (· < ·))
    (hpos : 0 < f.headD 0) (h0 : 0 < momf 0 f S) :
    ∃ v, swSq f S = some v ∧ 0 ≤ v := by
  have h1 := momf_pos 1 f S hS hf hpos h0
  have hd : 0 < momf 1 f S ^ 2 := pow_pos h1 2
  have hc := cauchy_m1 f S hS hf h0
  refine ⟨momf 0 f S * momf 2 f S / momf 1 f S ^ 2 - 1, ?_, ?_⟩
  · simp [swSq, divOpt, ne_of_gt h1]
  · have : 1 ≤ momf 0 f S * momf 2 f S / momf 1 f S ^ 2 := (one_le_div hd).mpr hc
    linarith

/-- directional spread: with unit vectors `(c_j, s_j)`, non-negative densities, `Δθ ≥ 0`, `Δf_i ≥ 0`
    the ingredients `(a, b, e)` of `dspr` satisfy `a² + b² ≤ e²`, `e ≥ 0` -/
theorem dspr_range (ddv : ℚ) (s c f : Vec) (e : Mat) (hdd : 0 ≤ ddv) (hlen : c.length = s.length)
    (hunit : ∀ p ∈ c.zip s, p.1 ^ 2 + p.2 ^ 2 = 1) (he : ∀ r ∈ e, ∀ x ∈ r, 0 ≤ x)
    (hdf : ∀ d ∈ df f, 0 ≤ d) :
    0 ≤ (dsprABE ddv s c f e).2.2 ∧
      (dsprABE ddv s c f e).1 ^ 2 + (dsprABE ddv s c f e).2.1 ^ 2 ≤ (dsprABE ddv s c f e).2.2 ^ 2 :=
  dot_inDisk ddv hdd c s hlen hunit e he (df f) hdf

/-- hence, for the value `r = √(a²+b²)` supplied by the square-root oracle, the radicand
    `2(1 − r/e)` of `dspr` lies in `[0, 2]`, i.e. `dspr ∈ [0, √2·180/π] = [0, 81.03°]` -/
theorem dsprSq_range (a b e r : ℚ) (he : 0 < e) (hab : a ^ 2 + b ^ 2 ≤ e ^ 2) (hr : 0 ≤ r)
    (hr2 : r ^ 2 = a ^ 2 + b ^ 2) : 0 ≤ 2 * (1 - r / e) ∧ 2 * (1 - r / e) ≤ 2 := by
  have hre : r ≤ e := le_of_sq_le_sq (by rw [hr2]; exact hab) (le_of_lt he)
  have h1 : r / e ≤ 1 := (div_le_one he).mpr hre
  have h2 : 0 ≤ r / e := div_nonneg hr (le_of_lt he)
  constructor <;> linarith

/-- Python's `%` with a positive modulus lands in `[0, m)` -/
theorem pmod_range (x m : ℚ) (hm : 0 < m) : 0 ≤ pmod x m ∧ pmod x m < m := by
  unfold pmod
  have h1 : ((x / m).floor : ℚ) ≤ x / m := Int.floor_le (x / m)
  have h2 : x / m < ((x / m).floor : ℚ) + 1 := Int.lt_floor_add_one (x / m)
  rw [le_div_iff₀ hm] at h1
  rw [div_lt_iff₀ hm] at h2
  constructor <;> nlinarith

/-- every direction statistic `(270 − x) % 360` lies in `[0, 360)` -/
theorem dir_range (x : ℚ) : 0 ≤ pmod x 360 ∧ pmod x 360 < 360 := pmod_range x 360 (by norm_num)

/-- the modulo is taken *after* the offset: shifting a reduced direction by `a` and reducing again is
    the same as reducing the shifted raw angle -/
theorem pmod_add_pmod (x a m : ℚ) (hm : 0 < m) : pmod (pmod x m + a) m = pmod (x + a) m := by
  unfold pmod
  have hm' : m ≠ 0 := ne_of_gt hm
  have e : (x - m * ((x / m).floor : ℚ) + a) / m = (x + a) / m - (((x / m).floor : ℤ) : ℚ) := by
    field_simp; ring
  have : ((x - m * ((x / m).floor : ℚ) + a) / m).floor = ((x + a) / m).floor - (x / m).floor := by
    rw [e]; exact Int.floor_sub_intCast ((x + a) / m) (x / m).floor
  rw [this]; push_cast; ring

/-- `dm`/`dpm`/`dp` after relabelling by `+a`: if the `atan2` angle of the moment vector moves from `θ`
    to `θ − a`, the reported direction moves from `d` to `(d + a) % 360` -/
theorem dir_shift (θ a : ℚ) : pmod (270 - (θ - a)) 360 = pmod (pmod (270 - θ) 360 + a) 360 := by
  rw [pmod_add_pmod _ _ _ (by norm_num)]; congr 1; ring

/-- the peak direction is one of the direction coordinates -/
theorem dp_mem_coords (m : Nat) (e : Mat) (hm : 0 < m) : dpIdx m e < m := (C02.dp_is_argmax m e hm).1

/-- the discrete peak frequency is one of the frequency coordinates of the grid -/
theorem fp_mem_coords (f S : Vec) (hlen : S.length = f.length) (hp : peakIdx S ≠ 0) :
    peakIdx S < f.length ∧ fpDiscrete f S = some (getR f (peakIdx S)) := by
  refine ⟨?_, (C02.fp_none_iff f S).2.2 hp⟩
  rcases C02.peakIdx_spec S with h | ⟨⟨_, h1, _⟩, _⟩
  · exact absurd h hp
  · omega

/-- the same bound for `dpspr`: its ingredients at the peak row -/
theorem dpspr_range (ddv : ℚ) (s c f : Vec) (e : Mat) (hdd : 0 ≤ ddv) (hlen : c.length = s.length)
    (hunit : ∀ p ∈ c.zip s, p.1 ^ 2 + p.2 ^ 2 = 1) (he : ∀ r ∈ e, ∀ x ∈ r, 0 ≤ x)
    (hdf : ∀ d ∈ df f, 0 ≤ d) (abe : ℚ × ℚ × ℚ) (h : dpsprABE ddv s c f e = some abe) :
    0 ≤ abe.2.2 ∧ abe.1 ^ 2 + abe.2.1 ^ 2 ≤ abe.2.2 ^ 2 := by
  unfold dpsprABE at h
  simp only at h
  split at h
  · cases h
  · simp only [Option.some.injEq] at h
    subst h
    simp only
    have hd := getR_nonneg_of_forall (df f) hdf (peakIdx (oned ddv e))
    have key : InDisk (getR (momdRow ddv s e) (peakIdx (oned ddv e)))
        (getR (momdRow ddv c e) (peakIdx (oned ddv e))) (getR (oned ddv e) (peakIdx (oned ddv e))) := by
      unfold momdRow oned
      rcases getR_map_mem_or_zero e (fun r => ddv * r.sum) (peakIdx (e.map fun r => ddv * r.sum)) with
        ⟨r, hr, _, hall⟩ | hall
      · rw [hall, hall, hall]
        exact row_inDisk ddv hdd r c s hlen hunit (he r hr)
      · rw [hall, hall, hall]; exact InDisk.zero (le_refl _)
    have := InDisk.smul _ hd key
    simp only [mul_comm (getR (df f) _)] at this
    exact this

/-! ## B. relabelling all directions by `+a`

`C, S'` stand for `cos a, sin a` (any rationals with `C² + S'² = 1`); the tables of the relabelled
dataset are `c' = c·C + s·S'`, `s' = s·C − c·S'`. Everything that does not take the tables as an argument
(`oned`, `hsE`, `momf`, `tm01`, `tm02Sq`, `sweSq`, `swSq`, `goda`, `peakIdx`, `fpSmooth`, `fpDiscrete`,
`dpIdx`, `gammaRaw`, `ussSum` with the all-ones table, `mss`) is unchanged by construction: its model is
a function of `(Δθ, f, E)` only.  `Δθ` itself: see `dd_shift_inv` / `dd_relabel_mod_fails` below. -/

def rotC (C S' : ℚ) (c s : Vec) : Vec := List.zipWith (fun cj sj => cj * C + sj * S') c s
def rotS (C S' : ℚ) (c s : Vec) : Vec := List.zipWith (fun cj sj => sj * C - cj * S') c s

theorem rowS_rot (ddv C S' : ℚ) (c s r : Vec) (hlen : c.length = s.length) :
    (List.zipWith (fun x y => ddv * x * y) r (rotS C S' c s)).sum =
      C * (List.zipWith (fun x y => ddv * x * y) r s).sum +
        (-S') * (List.zipWith (fun x y => ddv * x * y) r c).sum := by
  rw [← row_zipWith_lin ddv C (-S') r c s hlen]
  unfold rotS
  have : (fun cj sj : ℚ => sj * C - cj * S') = (fun cj sj => C * sj + -S' * cj) := by
    funext cj sj; ring
  rw [this]

theorem rowC_rot (ddv C S' : ℚ) (c s r : Vec) (hlen : c.length = s.length) :
    (List.zipWith (fun x y => ddv * x * y) r (rotC C S' c s)).sum =
      S' * (List.zipWith (fun x y => ddv * x * y) r s).sum +
        C * (List.zipWith (fun x y => ddv * x * y) r c).sum := by
  rw [← row_zipWith_lin ddv S' C r c s hlen]
  unfold rotC
  have : (fun cj sj : ℚ => cj * C + sj * S') = (fun cj sj => S' * sj + C * cj) := by
    funext cj sj; ring
  rw [this]

/-- **per-frequency moment vector rotates**: componentwise, at every frequency index `i`,
    `msin' = C·msin − S'·mcos`, `mcos' = C·mcos + S'·msin` -/
theorem momd_rot (ddv C S' : ℚ) (c s : Vec) (e : Mat) (hlen : c.length = s.length) (i : Nat) :
    getR (momdRow ddv (rotS C S' c s) e) i =
        C * getR (momdRow ddv s e) i - S' * getR (momdRow ddv c e) i ∧
    getR (momdRow ddv (rotC C S' c s) e) i =
        C * getR (momdRow ddv c e) i + S' * getR (momdRow ddv s e) i := by
  unfold momdRow
  constructor
  · rw [getR_map_lin e _ _ _ C (-S') (fun r => rowS_rot ddv C S' c s r hlen) i]; ring
  · rw [getR_map_lin e _ _ _ S' C (fun r => rowC_rot ddv C S' c s r hlen) i]; ring

/-- `dm`'s vector rotates the same way -/
theorem dmVec_rot (ddv C S' : ℚ) (c s : Vec) (e : Mat) (hlen : c.length = s.length) :
    dmVec ddv (rotS C S' c s) (rotC C S' c s) e =
      (C * (dmVec ddv s c e).1 - S' * (dmVec ddv s c e).2,
       C * (dmVec ddv s c e).2 + S' * (dmVec ddv s c e).1) := by
  unfold dmVec momdRow
  simp only [Prod.mk.injEq]
  constructor
  · rw [sum_map_lin e _ _ _ C (-S') (fun r => rowS_rot ddv C S' c s r hlen)]; ring
  · rw [sum_map_lin e _ _ _ S' C (fun r => rowC_rot ddv C S' c s r hlen)]; ring

/-- `dspr`'s ingredients: `(a, b)` rotates, `e` is unchanged -/
theorem dsprABE_rot (ddv C S' : ℚ) (c s f : Vec) (e : Mat) (hlen : c.length = s.length) :
    dsprABE ddv (rotS C S' c s) (rotC C S' c s) f e =
      (C * (dsprABE ddv s c f e).1 - S' * (dsprABE ddv s c f e).2.1,
       C * (dsprABE ddv s c f e).2.1 + S' * (dsprABE ddv s c f e).1,
       (dsprABE ddv s c f e).2.2) := by
  unfold dsprABE momdRow
  simp only [Prod.mk.injEq, and_true]
  constructor
  · rw [dot_map_lin e _ _ _ C (-S') (fun r => rowS_rot ddv C S' c s r hlen)]; ring
  · rw [dot_map_lin e _ _ _ S' C (fun r => rowC_rot ddv C S' c s r hlen)]; ring

/-- hence `a² + b²` and `e` — all that `dspr` depends on — are unchanged -/
theorem dsprSq_rot_inv (ddv C S' : ℚ) (c s f : Vec) (e : Mat) (hlen : c.length = s.length)
    (hrot : C ^ 2 + S' ^ 2 = 1) :
    (dsprABE ddv (rotS C S' c s) (rotC C S' c s) f e).1 ^ 2 +
        (dsprABE ddv (rotS C S' c s) (rotC C S' c s) f e).2.1 ^ 2 =
      (dsprABE ddv s c f e).1 ^ 2 + (dsprABE ddv s c f e).2.1 ^ 2 ∧
    (dsprABE ddv (rotS C S' c s) (rotC C S' c s) f e).2.2 = (dsprABE ddv s c f e).2.2 := by
  rw [dsprABE_rot ddv C S' c s f e hlen]
  refine ⟨?_, rfl⟩
  simp only
  have : ∀ a b : ℚ, (C * a - S' * b) ^ 2 + (C * b + S' * a) ^ 2 = (C ^ 2 + S' ^ 2) * (a ^ 2 + b ^ 2) := by
    intro a b; ring
  rw [this, hrot, one_mul]

/-- the length of `dm`'s vector is unchanged too -/
theorem dmVec_rot_norm (ddv C S' : ℚ) (c s : Vec) (e : Mat) (hlen : c.length = s.length)
    (hrot : C ^ 2 + S' ^ 2 = 1) :
    (dmVec ddv (rotS C S' c s) (rotC C S' c s) e).1 ^ 2 + (dmVec ddv (rotS C S' c s) (rotC C S' c s) e).2 ^ 2 =
      (dmVec ddv s c e).1 ^ 2 + (dmVec ddv s c e).2 ^ 2 := by
  rw [dmVec_rot ddv C S' c s e hlen]
  simp only
  have : ∀ a b : ℚ, (C * a - S' * b) ^ 2 + (C * b + S' * a) ^ 2 = (C ^ 2 + S' ^ 2) * (a ^ 2 + b ^ 2) := by
    intro a b; ring
  rw [this, hrot, one_mul]

/-- `dpm`: same peak row (it does not depend on the tables), rotated vector, same NaN status -/
theorem dpmVec_rot (ddv C S' : ℚ) (c s : Vec) (e : Mat) (hlen : c.length = s.length) :
    dpmVec ddv (rotS C S' c s) (rotC C S' c s) e =
      (dpmVec ddv s c e).map fun p => (C * p.1 - S' * p.2, C * p.2 + S' * p.1) := by
  unfold dpmVec
  simp only
  split
  · rfl
  · simp only [Option.map_some, (momd_rot ddv C S' c s e hlen _).1, (momd_rot ddv C S' c s e hlen _).2]

/-- `dpspr`: `(a, b)` at the peak row rotates, `e` unchanged -/
theorem dpsprABE_rot (ddv C S' : ℚ) (c s f : Vec) (e : Mat) (hlen : c.length = s.length) :
    dpsprABE ddv (rotS C S' c s) (rotC C S' c s) f e =
      (dpsprABE ddv s c f e).map fun p => (C * p.1 - S' * p.2.1, C * p.2.1 + S' * p.1, p.2.2) := by
  unfold dpsprABE
  simp only
  split
  · rfl
  · simp only [Option.map_some, (momd_rot ddv C S' c s e hlen _).1, (momd_rot ddv C S' c s e hlen _).2,
      Option.some.injEq, Prod.mk.injEq, and_true]
    exact ⟨by ring, by ring⟩

/-- a rotated vector is reported `a` further round the circle: two rotations compose by angle addition
    (the tables of `θ + a + b` are the tables of `θ + a` rotated by `b`) -/
theorem rot_compose (C1 S1 C2 S2 x y : ℚ) :
    (C2 * (C1 * x - S1 * y) - S2 * (C1 * y + S1 * x), C2 * (C1 * y + S1 * x) + S2 * (C1 * x - S1 * y)) =
      ((C1 * C2 - S1 * S2) * x - (S1 * C2 + C1 * S2) * y, (C1 * C2 - S1 * S2) * y + (S1 * C2 + C1 * S2) * x) := by
  simp only [Prod.mk.injEq]; constructor <;> ring

/-- `Δθ` under a pure shift of the coordinate values (no wrap): unchanged -/
theorem dd_shift_inv (a : ℚ) (dirs : Vec) : dd (some (dirs.map (· + a))) = dd (some dirs) := by
  match dirs with
  | [] => rfl
  | [_] => rfl
  | x :: y :: rest =>
    simp only [List.map_cons, dd]
    have : y + a - (x + a) = y - x := by ring
    rw [this]

/-- distance to the nearest multiple of 360 as coded by `min(dd, 360 − dd)`, `dd = |Δ|` -/
def wrapDist (D : ℚ) : ℚ := minR (absR D) (360 - absR D)

/-- `min(|Δ|, 360 − |Δ|)` does not see a 0/360 wrap between the first two directions -/
theorem wrapDist_wrap (D : ℚ) (n : ℤ) (h1 : absR D < 360) (h2 : absR (D + 360 * n) < 360) :
    wrapDist (D + 360 * n) = wrapDist D := by
  unfold wrapDist minR absR at *
  have hn : (-2 : ℤ) < n ∧ n < 2 := by
    constructor
    · by_contra hc
      have : (n : ℚ) ≤ -2 := by exact_mod_cast (not_lt.mp hc)
      split_ifs at h1 h2 <;> linarith
    · by_contra hc
      have : (2 : ℚ) ≤ n := by exact_mod_cast (not_lt.mp hc)
      split_ifs at h1 h2 <;> linarith
  obtain ⟨hn1, hn2⟩ := hn
  have : n = -1 ∨ n = 0 ∨ n = 1 := by omega
  rcases this with rfl | rfl | rfl
  · push_cast at *
    split_ifs at * <;> linarith
  · simp
  · push_cast at *
    split_ifs at * <;> linarith

/-- `Δθ` after relabelling by `(θ + a) % 360`: the first two stored directions become
    `x + a − 360·n0`, `y + a − 360·n1` (whatever multiples of 360 the `%` removes), and the repaired
    `dd = min(|Δ|, 360 − |Δ|)` is unchanged — also when 0/360 now falls between them -/
theorem dd_relabel_inv (x y a : ℚ) (n0 n1 : ℤ) (rest rest' : Vec)
    (h1 : absR (y - x) < 360) (h2 : absR ((y + a - 360 * n1) - (x + a - 360 * n0)) < 360) :
    dd (some ((x + a - 360 * n0) :: (y + a - 360 * n1) :: rest')) = dd (some (x :: y :: rest)) := by
  show wrapDist ((y + a - 360 * n1) - (x + a - 360 * n0)) = wrapDist (y - x)
  have e : (y + a - 360 * (n1 : ℚ)) - (x + a - 360 * n0) = (y - x) + 360 * ((n0 - n1 : ℤ) : ℚ) := by
    push_cast; ring
  rw [e] at h2 ⊢
  exact wrapDist_wrap (y - x) (n0 - n1) h1 h2

/-- the smooth peak period lies strictly inside the period range of the grid -/
theorem tp_in_range (f S : Vec) (hf : f.Pairwise (· < ·)) (hpos : 0 < f.headD 0)
    (hlen : S.length = f.length) (hp : peakIdx S ≠ 0) :
    ∃ fp, fpSmooth f S = some fp ∧ 1 / lastD f < 1 / fp ∧ 1 / fp < 1 / f.headD 0 := by
  have hb := pairwise_lt_bounds f hf
  rcases C02.peakIdx_spec S with h | ⟨⟨h0, h1, _, _⟩, _⟩
  · exact absurd h hp
  have hm1 := hb _ (getR_mem f (peakIdx S - 1) (by omega))
  have hp1 := hb _ (getR_mem f (peakIdx S + 1) (by omega))
  have hposm : 0 < getR f (peakIdx S - 1) := lt_of_lt_of_le hpos hm1.1
  have hposp : 0 < getR f (peakIdx S + 1) := lt_of_lt_of_le hpos hp1.1
  obtain ⟨fp, hfp, a, b⟩ := C02.tp_smooth_between f S (pairwise_getR_lt f hf) hposm hlen hp
  refine ⟨fp, hfp, ?_, ?_⟩
  · exact lt_of_le_of_lt (one_div_le_one_div_of_le hposp hp1.2) a
  · exact lt_of_lt_of_le b (one_div_le_one_div_of_le hpos hm1.1)

/-! ## non-vacuity: the hypotheses are satisfiable on concrete, non-trivial inputs -/

section Examples

/-- irregular grid (the last frequency is above the tail threshold 0.333) -/
private def fE : Vec := [1/10, 1/5, 2/5]
private def sE : Vec := [1, 3, 2]
/-- a 3×4 spectrum whose direction-integrated form peaks at the middle frequency -/
private def eE : Mat := [[1, 2, 0, 1], [0, 3, 1, 1], [2, 1, 1, 0]]
/-- exact rational points of the unit circle -/
private def cE : Vec := [1, 3/5, -4/5, 0]
private def sE' : Vec := [0, 4/5, 3/5, -1]

-- standing hypotheses of part C
example : (∀ x ∈ sE, 0 ≤ x) ∧ fE.Pairwise (· < ·) ∧ 0 < fE.headD 0 ∧ 0 < momf 0 fE sE ∧
    sE.length = fE.length := by decide +kernel
example : momf 1 fE sE ^ 2 ≤ momf 0 fE sE * momf 2 fE sE :=
  cauchy_m1 fE sE (by decide +kernel) (by decide +kernel) (by decide +kernel)
example : momf 2 fE sE ^ 2 ≤ momf 0 fE sE * momf 4 fE sE :=
  cauchy_m2 fE sE (by decide +kernel) (by decide +kernel) (by decide +kernel)
example := momf_succ_bounds 3 fE sE (by decide +kernel) (by decide +kernel) (by decide +kernel)
example := momf_pos 4 fE sE (by decide +kernel) (by decide +kernel) (by decide +kernel) (by decide +kernel)
example := tm_order fE sE (by decide +kernel) (by decide +kernel) (by decide +kernel) (by decide +kernel)
example := tm_order_opt fE sE (by decide +kernel) (by decide +kernel) (by decide +kernel) (by decide +kernel)
example := sweSq_range fE sE (by decide +kernel) (by decide +kernel) (by decide +kernel) (by decide +kernel)
example := swSq_nonneg fE sE (by decide +kernel) (by decide +kernel) (by decide +kernel) (by decide +kernel)
example := weights_nonneg fE sE (by decide +kernel) (by decide +kernel)
-- strict inequalities on this input: the bounds are not attained trivially
example : sweSq fE sE = some (7065/20843) ∧ swSq fE sE = some (225/1352) := by decide +kernel

-- directional spread
example : (0:ℚ) ≤ 90 ∧ cE.length = sE'.length ∧ (∀ p ∈ cE.zip sE', p.1 ^ 2 + p.2 ^ 2 = 1) ∧
    (∀ r ∈ eE, ∀ x ∈ r, 0 ≤ x) ∧ (∀ d ∈ df fE, 0 ≤ d) := by decide +kernel
example := dspr_range 90 sE' cE fE eE (by decide +kernel) (by decide +kernel) (by decide +kernel)
  (by decide +kernel) (by decide +kernel)
example : dpsprABE 90 sE' cE fE eE = some (27, 27/2, 135/2) := by decide +kernel
example := dpspr_range 90 sE' cE fE eE (by decide +kernel) (by decide +kernel) (by decide +kernel)
  (by decide +kernel) (by decide +kernel) (27, 27/2, 135/2) (by decide +kernel)
example : dsprABE 90 sE' cE fE eE = (288/5, 657/10, 351/2) := by decide +kernel
example := dsprSq_range 3 4 10 5 (by norm_num) (by norm_num) (by norm_num) (by norm_num)

-- modulo
example := pmod_range (-725/2) 360 (by norm_num)
example : pmod (-725/2) 360 = 715/2 := by decide +kernel
example := pmod_add_pmod (-725/2) 100 360 (by norm_num)
example := wrapDist_wrap (-10) 1 (by decide +kernel) (by decide +kernel)
example := dd_relabel_inv 0 10 355 0 1 [20] [15] (by decide +kernel) (by decide +kernel)

-- coordinates
example := dp_mem_coords 4 eE (by norm_num)
example : peakIdx sE ≠ 0 := by decide +kernel
example := fp_mem_coords fE sE (by decide +kernel) (by decide +kernel)
example := tp_in_range fE sE (by decide +kernel) (by decide +kernel) (by decide +kernel) (by decide +kernel)

-- scaling (k = 7/2) and the rescaling to a prescribed height (t = 3)
example := tm01_smul_inv (7/2) (by norm_num) fE sE
example := tm02Sq_smul_inv (7/2) (by norm_num) fE sE
example := sweSq_smul_inv (7/2) (by norm_num) fE sE
example := swSq_smul_inv (7/2) (by norm_num) fE sE
example := goda_smul_inv (7/2) (by norm_num) fE sE
example := dsprSq_smul_inv 90 (7/2) (by norm_num) sE' cE fE eE
example := tpsFp_smul_inv (7/2) (by norm_num) (1/10) (1/5) (2/5) 1 3 2
example := isPeak_smul (7/2) (by norm_num) sE 1
example := masked_smul (7/2) (by norm_num) sE
example := peakIdx_smul (7/2) (by norm_num) sE
example := fpSmooth_smul_inv (7/2) (by norm_num) fE sE
example := fpDiscrete_smul_inv (7/2) (by norm_num) fE sE
example := dpIdx_smul 4 (7/2) (by norm_num) eE
example := dpmVec_smul 90 (7/2) (by norm_num) sE' cE eE
example := dpsprABE_smul 90 (7/2) (by norm_num) sE' cE fE eE
example := gammaRaw_smul_inv (5/16) 1 2 (1/5) (7/2) (by norm_num) sE
example : tm01 fE (scaleV (7/2) sE) = some (95/26) ∧ tm01 fE sE = some (95/26) := by decide +kernel
example : hsE (333/1000) (1/4) true fE sE ≠ 0 := by decide +kernel
example := scale_by_hs (333/1000) (1/4) true 3 fE sE (by decide +kernel)
example : hsE (333/1000) (1/4) true fE (scaleByHs (333/1000) (1/4) true 3 true fE sE) = 9/16 := by
  decide +kernel

-- rotation by the angle with (cos, sin) = (3/5, 4/5)
example : ((3:ℚ)/5) ^ 2 + (4/5) ^ 2 = 1 ∧ cE.length = sE'.length := by decide +kernel
example := momd_rot 90 (3/5) (4/5) cE sE' eE (by decide +kernel) 1
example := dmVec_rot 90 (3/5) (4/5) cE sE' eE (by decide +kernel)
example := dsprABE_rot 90 (3/5) (4/5) cE sE' fE eE (by decide +kernel)
example := dsprSq_rot_inv 90 (3/5) (4/5) cE sE' fE eE (by decide +kernel) (by norm_num)
example := dmVec_rot_norm 90 (3/5) (4/5) cE sE' eE (by decide +kernel) (by norm_num)
example := dpmVec_rot 90 (3/5) (4/5) cE sE' eE (by decide +kernel)
example := dpsprABE_rot 90 (3/5) (4/5) cE sE' fE eE (by decide +kernel)
example := rowS_rot 90 (3/5) (4/5) cE sE' [1, 2, 0, 1] (by decide +kernel)
example := rowC_rot 90 (3/5) (4/5) cE sE' [1, 2, 0, 1] (by decide +kernel)

end Examples

end WS.C10

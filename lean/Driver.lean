import WsVerif.Model.Proto
import WsVerif.Ops.Stats
import WsVerif.Ops.Peak
import WsVerif.Ops.Track
import WsVerif.Ops.Select
import WsVerif.Ops.History
import WsVerif.Ops.Frame
import WsVerif.Ops.Specpart
import WsVerif.Ops.Native
import WsVerif.Ops.Split
import WsVerif.Ops.IO
import WsVerif.Ops.Instruments
import WsVerif.Ops.Construct
import WsVerif.Ops.Smooth
import WsVerif.Ops.Regrid
import WsVerif.Ops.Assembly
/-! Line-protocol driver: one request per line on stdin, one response per line on stdout.
    Each `WsVerif/Ops/*.lean` file contributes a list of named operations. -/
open WS WS.Proto

def allOps : List (String × P String) :=
  WS.Ops.Stats.ops ++ WS.Ops.Peak.ops ++ WS.Ops.Track.ops ++ WS.Ops.Select.ops ++ WS.Ops.History.ops ++ WS.Ops.Frame.ops ++ WS.Ops.Specpart.ops ++ WS.Ops.Native.ops ++ WS.Ops.Split.ops ++ WS.Ops.IO.ops ++ WS.Ops.Instruments.ops ++ WS.Ops.Construct.ops ++ WS.Ops.Smooth.ops ++ WS.Ops.Regrid.ops ++ WS.Ops.Assembly.ops

def dispatch (op : String) : P String :=
  match allOps.lookup op with
  | some p => p
  | none => if op == "ping" then pure "ok pong" else throw s!"unknown op {op}"

def handle (line : String) : String :=
  let toks := (line.splitOn " ").filter (· ≠ "")
  match toks with
  | [] => "err empty"
  | op :: rest =>
    match (dispatch op).run rest with
    | .ok (s, []) => s
    | .ok (_, extra) => s!"err trailing {extra.length}"
    | .error e => s!"err proto {e}"

partial def loop (h : IO.FS.Stream) (out : IO.FS.Stream) : IO Unit := do
  let line ← h.getLine
  if line.isEmpty then return ()
  out.putStrLn (handle (line.trimAscii.toString))
  loop h out

def main : IO Unit := do
  let i ← IO.getStdin
  let o ← IO.getStdout
  loop i o
  o.flush

import WsVerif.Model.Neigh
import WsVerif.Model.Flood
import WsVerif.Model.Specpart
/-! `enumsp nk nth a ihmax [check stride [iqfill]]`: enumerate every grid `nk × nth` over the alphabet `0..a-1`
in the order of `harness/cdrv/cenum.c` (cell `c` of the row-major grid = digit `c` of the code in base `a`),
print one label map per line (row-major `[ifreq][iang]`) on stdout.  With `check`, every `stride`-th grid is
also run with the ghost trace and the abstract machine's guards are evaluated; a summary goes to stderr:
`SUMMARY total checked invalid incomplete oob fuel indbad labelsbad firstbad`. Mathlib-free. -/
open WS

def main (args : List String) : IO UInt32 := do
  let nk := args[0]!.toNat!; let nth := args[1]!.toNat!; let a := args[2]!.toNat!; let ih := args[3]!.toNat!
  let check := args.length > 4 && args[4]! == "check"
  let stride := if args.length > 5 then args[5]!.toNat! else 1
  let fill : Int := if args.length > 6 then args[6]!.toInt! else 0
  let n := nk * nth
  let total := a ^ n
  let out ← IO.getStdout
  let nb := Neigh.table nk nth
  let rows := Neigh.rows nk nth
  let mut checked := 0; let mut invalid := 0; let mut incomplete := 0; let mut oob := 0; let mut fuel := 0
  let mut indbad := 0; let mut labbad := 0; let mut firstbad : Int := -1
  let mut buf : String := ""
  for code in [0:total] do
    let mut c := code
    let mut spec : Array Int := Array.mkEmpty n
    for _ in [0:n] do
      spec := spec.push (c % a : Nat); c := c / a
    let doCheck := check && code % stride == 0
    let r := SP.partition nk nth ih nb spec fill doCheck
    if r.oob then oob := oob + 1
    if r.fuelOut then fuel := fuel + 1
    let mut bad := r.oob || r.fuelOut
    if doCheck then
      checked := checked + 1
      let v := SP.verdict nk nth ih rows r
      if !v.valid then invalid := invalid + 1
      if v.valid && !v.complete then incomplete := incomplete + 1
      if !v.indOk then indbad := indbad + 1
      if v.valid && !v.labelsOk then labbad := labbad + 1
      bad := bad || !v.valid || !v.complete || !v.indOk || !v.labelsOk
    if bad && firstbad < 0 then firstbad := code
    let mut line := ""
    for i in [0:n] do
      line := if i == 0 then toString r.labels[i]! else line ++ " " ++ toString r.labels[i]!
    buf := buf ++ line ++ "\n"
    if buf.length > 60000 then
      out.putStr buf; buf := ""
  out.putStr buf
  out.flush
  IO.eprintln s!"SUMMARY {total} {checked} {invalid} {incomplete} {oob} {fuel} {indbad} {labbad} {firstbad}"
  return 0

"""T-tier, labelled-array grammar, part 3: the remaining derived statistics of `SpecArray` (wavespectra/specarray.py):
`uss_x`, `uss_y`, `uss`, `mss`, `rmse`, `celerity`, `wavelen`, `rotate` → Lean definitions for ONE spectrum, written to
`lean/WsVerif/Gen/XrKernels3.lean` (only if changed).

Called from `translate.generate()` after `generate_xr` (needs the signatures of `oned` / `to_energy` registered there).  Every
generated definition is identified with the hand-written model (`Model/Stats.lean` `ussSum` / `mss`, `Model/XrTwins3.lean`,
`Model/Regrid.lean`) by a theorem `genxr3_*` in `Props/C01xr3.lean`, for all inputs.

Re-uses the machinery of `translate_xr` (types, `Tr`, `Ctx`, signatures, oracle tables); additions to the grammar:

* an argument `depth=None` has type `Option Rat`; `if depth is None: A else: B` (exactly one variable assigned on both sides, the
  others are temporaries) is `match depth with | none => A | some depth => B`;
* `wavenuma(freq, depth)`, `celerity(freq=…, depth=…)`, `wavelen(freq=…, depth=…)`: the names must be imported from
  `wavespectra.core.utils`, the arguments are bound by the parameter NAMES read from `core/utils.py` and the call is the regenerated
  scalar kernel `WS.Gen.wavenuma / celerity / wavelen` (translate_np) mapped over the frequency vector;
* `x ** 2.0` (a float literal with a natural value) is `x ^ 2`; `v % c` on a vector; `(freq)`-vector `*` `(dir)`-vector is the OUTER
  product (a `(freq, dir)` matrix), `(freq)`-vector `*` matrix broadcasts per row;
* `s / v`, `v / w` with a COMPUTED vector divisor is element-wise; Lean's total division (`x / 0 = 0`) is emitted and the source text
  of every such division is listed in `<k>_divisions` (numpy gives `inf` there; the reading is exact for non-zero divisors);
* `.sum(dim=[attrs.FREQNAME, attrs.DIRNAME])` and `.sum(dim=self._spec_dims)` on a matrix (both dimensions; the source of
  `_spec_dims` is emitted as `xrSpecDims_src`); `other.spec.to_energy()` is `self.to_energy()` of a second matrix on the SAME
  coordinates (parameter `other`);
* `X.name = "literal"` is metadata, the literal is emitted as `<k>_name`;
* `rotate`: `self._obj.assign_coords({attrs.DIRNAME: V})` relabels the direction coordinate (the kernel's value is the pair
  coordinate vector / call), `regrid_spec(dsout, dir=self.dir)` is the application of the PARAMETER `regrid_spec` (the model of
  `core/utils.regrid_spec`) to arguments bound by the parameter names and DEFAULTS read from `core/utils.py`.

Anything else raises `Untranslatable` = the method is reported untranslatable (a comment in the generated file, the bridge fails).
"""
import ast

from . import translate_xr as X
from .translate import Untranslatable, body_stmts, find_func, rat, write_if_changed
from .translate_xr import B, D, F, LIT, M, NAT, OS, S, SKIP, V, LEAN_TY, _call_name, _dim, _is_self_attr

SPECARRAY = X.SPECARRAY
UTILS = X.UTILS
OPT = "OptS"
LEAN_TY[OPT] = "Option Rat"

# regenerated scalar kernels of core/utils.py (Gen/NpKernels.lean): lean name, python parameter names, type of the 2nd argument
UTIL_KERNELS = {
    "wavenuma": ("WS.Gen.wavenuma", ["freq", "water_depth"], S),
    "celerity": ("WS.Gen.celerity", ["freq", "depth"], OPT),
    "wavelen": ("WS.Gen.wavelen", ["freq", "depth"], OPT),
}


def q(x):
    return '"' + x.replace("\\", "\\\\").replace('"', '\\"').replace("\n", " ") + '"'


class Ctx3(X.Ctx):
    def __init__(self, py, lean, ptypes, tables=(), avail=X.BASE):
        super().__init__(py, lean, ptypes, tables, avail)
        if self.fn.decorator_list:
            raise Untranslatable(f"{py}: decorated")
        self.divisions = []
        self.front = ""        # extra leading parameters (rotate: the model of regrid_spec)

    def default_terms(self):
        out = {}
        rest = {}
        for a, t in self.ptypes.items():
            if t == OPT:
                dv = self.defaults.get(a)
                if dv is None:
                    continue
                if not (isinstance(dv, ast.Constant) and dv.value is None):
                    raise Untranslatable(f"{self.py}: default of {a}: {ast.unparse(dv)}")
                nm = f"{self.lean}_{a}_default"
                self.extra.append((nm, f"def {nm} : Option Rat := none"))
                out[a] = nm
            else:
                rest[a] = t
        saved = self.ptypes
        self.ptypes = rest
        try:
            out.update(super().default_terms())
        finally:
            self.ptypes = saved
        return out

    def all_params(self):
        return " ".join(x for x in (self.front, self.lead_params().strip(), self.base_params(), self.arg_params(),
                                    self.table_params()) if x)


def _both_dims(e, k):
    """`[attrs.FREQNAME, attrs.DIRNAME]` (either order) or `self._spec_dims`"""
    if isinstance(e, (ast.List, ast.Tuple)) and len(e.elts) == 2:
        return sorted(_dim(x) for x in e.elts) == ["dir", "freq"]
    if _is_self_attr(e, "_spec_dims"):
        if "xrSpecDims_src" not in [n for n, _ in k.extra]:
            k.extra.append(("xrSpecDims_src", X.source_fact("_spec_dims", "xrSpecDims_src")[0][1].rstrip("\n")))
        return True
    return False


class Tr3(X.Tr):
    def tr(self, e):
        if isinstance(e, ast.Name) and e.id in self.env and self.env[e.id].ty == OPT:
            raise Untranslatable(f"`{e.id}` (None or a number) used as a value outside `if {e.id} is None`")
        return super().tr(e)

    def arith(self, op, l, r, src=""):
        if op == "*" and l.ty == F and r.ty == D:
            return V(f"(List.map (fun a => List.map (fun b => a * b) {r.t}) {l.t})", M)
        if op == "/" and r.ty in (F, D) and not r.const:
            if l.ty in (S, LIT):
                self.k.divisions.append(src)
                return V(f"(List.map (fun t => {self.rat(l)} / t) {r.t})", r.ty)
            if l.ty == r.ty:
                self.k.divisions.append(src)
                return V(f"(List.zipWith (fun a b => a / b) {l.t} {r.t})", r.ty)
        return super().arith(op, l, r, src)

    def binop(self, e):
        if isinstance(e.op, ast.Pow):
            x = e.right
            if (isinstance(x, ast.Constant) and isinstance(x.value, float) and x.value >= 0 and x.value.is_integer()):
                return self.power(self.tr(e.left), int(x.value), ast.unparse(e))
        if isinstance(e.op, ast.Mod):
            l = self.tr(e.left)
            if l.ty in (F, D):
                r = self.tr(e.right)
                if r.ty not in (S, LIT) or not r.const:
                    raise Untranslatable("modulus of a vector by a computed value: " + ast.unparse(e)[:80])
                return V(f"(List.map (fun t => WS.pmod t {self.rat(r)}) {l.t})", l.ty)
        return super().binop(e)

    def util_call(self, e, fn):
        from .translate_native import _imports

        k = self.k
        lean, names, ty2 = UTIL_KERNELS[fn]
        if _imports(SPECARRAY).get(fn) != "wavespectra.core.utils":
            raise Untranslatable(f"{fn} is not imported from wavespectra.core.utils")
        ufn = find_func(UTILS, fn)
        unames = [a.arg for a in ufn.args.args]
        if unames != names or ufn.args.vararg or ufn.args.kwarg or ufn.args.kwonlyargs:
            raise Untranslatable(f"utils.{fn}: signature {unames} (expected {names})")
        given = {}
        if len(e.args) > 2:
            raise Untranslatable("call arity " + ast.unparse(e)[:80])
        for n, a in zip(names, e.args):
            given[n] = a
        for kwd in e.keywords:
            if kwd.arg not in names or kwd.arg in given:
                raise Untranslatable("call keyword " + ast.unparse(e)[:80])
            given[kwd.arg] = kwd.value
        if set(given) != set(names):
            raise Untranslatable(f"{fn}: both arguments must be given: " + ast.unparse(e)[:80])
        f = self.tr(given[names[0]])
        if f.ty != F:
            raise Untranslatable(f"{fn} of a value of type {f.ty}")
        a2 = given[names[1]]
        if not (isinstance(a2, ast.Name) and a2.id in self.env and self.env[a2.id].ty == ty2):
            raise Untranslatable(f"{fn}: second argument {ast.unparse(a2)} is not a {'number' if ty2 == S else 'None-or-number'} argument")
        k.lead("pi")
        k.lead("sqrt")
        return V(f"(List.map (fun t => {lean} pi sqrt t {self.env[a2.id].t}) {f.t})", F)

    def call(self, e):
        k = self.k
        fn = _call_name(e)
        if fn in UTIL_KERNELS:
            return self.util_call(e, fn)
        kw = {x.arg: x.value for x in e.keywords}
        if isinstance(e.func, ast.Attribute) and e.func.attr == "sum" and not e.args and set(kw) == {"dim"} \
                and not isinstance(kw["dim"], ast.Attribute):
            if not _both_dims(kw["dim"], k):
                raise Untranslatable("sum over " + ast.unparse(kw["dim"])[:60])
            v = self.tr(e.func.value)
            if v.ty != M:
                raise Untranslatable(f"sum over both dimensions of {v.ty}")
            return V(f"(List.sum (List.map List.sum {v.t}))", S)
        if isinstance(e.func, ast.Attribute) and e.func.attr == "sum" and not e.args and set(kw) == {"dim"} \
                and _is_self_attr(kw["dim"], "_spec_dims"):
            _both_dims(kw["dim"], k)
            v = self.tr(e.func.value)
            if v.ty != M:
                raise Untranslatable(f"sum over both dimensions of {v.ty}")
            return V(f"(List.sum (List.map List.sum {v.t}))", S)
        if fn == "other.spec.to_energy" and not e.args and not kw and "other" in self.env and self.env["other"].ty == M:
            sig = X._SIGS.get("to_energy")
            if sig is None or sig.params or sig.tables or sig.lead:
                raise Untranslatable("to_energy is not a translated method without arguments")
            args = [("other" if b == "obj" else b) for b in sig.base]
            return V("(" + " ".join([sig.lean_name] + args) + ")", sig.ret)
        return super().call(e)


class Block3:
    """straight-line bodies: assignments, metadata, `X.name = "…"`, the 1-D guard, `if depth is None`, `return`"""

    def __init__(self, k):
        self.k = k

    def value(self, v):
        if v.ty == LIT:
            return V(rat(v.t), S, True)
        if isinstance(v.ty, tuple) or v.ty == "RAW":
            raise Untranslatable("tuple / raw array bound to a name")
        return v

    def block(self, stmts, env, ind, finish=None):
        k = self.k
        env = dict(env)
        pad = " " * ind
        out = []
        stmts = list(stmts)
        for i, st in enumerate(stmts):
            tr = Tr3(k, env)
            if X._metadata(st):
                tgt = st.value.args[0].id if _call_name(st.value) == "set_spec_attributes" else st.value.func.value.value.id
                if tgt not in env:
                    raise Untranslatable("metadata call on an unknown name: " + ast.unparse(st)[:60])
                continue
            if (isinstance(st, ast.Assign) and len(st.targets) == 1 and isinstance(st.targets[0], ast.Attribute)
                    and st.targets[0].attr == "name" and isinstance(st.targets[0].value, ast.Name)
                    and st.targets[0].value.id in env and isinstance(st.value, ast.Constant) and isinstance(st.value.value, str)):
                k.extra.append((f"{k.lean}_name", f"def {k.lean}_name : String := {q(st.value.value)}"))
                continue
            if isinstance(st, ast.Assign):
                if len(st.targets) != 1 or not isinstance(st.targets[0], ast.Name):
                    raise Untranslatable("assignment target " + ast.unparse(st)[:80])
                v = self.value(tr.tr(st.value))
                nm = k.local(st.targets[0].id)
                out.append(f"{pad}let {nm} := {v.t}")
                env[st.targets[0].id] = V(nm, v.ty, v.const)
                continue
            if isinstance(st, ast.If):
                g, rest_test = X._dir_guard(st.test)
                if g == "none":
                    if not (len(st.body) == 1 and isinstance(st.body[0], ast.Raise)) or st.orelse:
                        raise Untranslatable("`self.dir is None` guard that does not just raise")
                    if "dir" not in k.avail:
                        raise Untranslatable("self.dir is not available")
                    k.guards.append((ast.unparse(st.test), ast.unparse(st.body[0])))
                    continue
                t = st.test
                if (isinstance(t, ast.Compare) and len(t.ops) == 1 and isinstance(t.ops[0], ast.Is) and isinstance(t.left, ast.Name)
                        and t.left.id in env and env[t.left.id].ty == OPT and isinstance(t.comparators[0], ast.Constant)
                        and t.comparators[0].value is None):
                    a, b = X._assigned(st.body), X._assigned(st.orelse)
                    live = [n for n in a if n in b]
                    if len(live) != 1 or not st.orelse or any(n in env for n in a + b if n not in live):
                        raise Untranslatable(f"`if {t.left.id} is None` assigning {a} / {b}")
                    n = live[0]
                    on = t.left.id
                    env_some = dict(env)
                    env_some[on] = V(env[on].t, S)
                    env_none = {x: y for x, y in env.items() if x != on}
                    thn, t1 = self.block(st.body, env_none, ind + 6, lambda env2, n=n: env2[n])
                    els, t2 = self.block(st.orelse, env_some, ind + 6, lambda env2, n=n: env2[n])
                    if t1 != t2:
                        raise Untranslatable(f"branches of different types {t1} / {t2}")
                    nm = k.local(n)
                    out.append(f"{pad}let {nm} :=\n{pad}  (match {env[on].t} with\n{pad}    | none =>\n{thn}\n"
                               f"{pad}    | some {env[on].t} =>\n{els})")
                    env[n] = V(nm, t1)
                    continue
                raise Untranslatable("if " + ast.unparse(st.test)[:80])
            if isinstance(st, ast.Return):
                if i != len(stmts) - 1 or st.value is None:
                    raise Untranslatable("return form")
                v = self.ret(st.value, env)
                out.append(pad + v.t)
                return "\n".join(out), v.ty
            raise Untranslatable("statement " + ast.unparse(st)[:80])
        if finish is None:
            raise Untranslatable("block without return")
        v = self.value(finish(env))
        out.append(pad + v.t)
        return "\n".join(out), v.ty

    def ret(self, e, env):
        return self.value(Tr3(self.k, env).tr(e))


def _emit(k, lean, ty, body, doc):
    out = [(n, t + "\n") for n, t in k.extra] + X._guards_def(k)
    if k.divisions:
        out.append((f"{lean}_divisions", f"/-- element-wise divisions by a computed vector (total division in Lean; numpy: inf at 0) -/\n"
                    f"def {lean}_divisions : List String := [{', '.join(q(s) for s in k.divisions)}]\n"))
    out.append((lean, X.define(k, lean, ty, body, doc)))
    return out


def method3(py, lean, ptypes, tables=()):
    k = Ctx3(py, lean, ptypes, tables)
    stmts = body_stmts(k.fn)
    k.default_terms()
    body, ty = Block3(k).block(stmts, k.env0(), 2)
    return _emit(k, lean, X.lean_ty(ty), body, f"`SpecArray.{py}`")


# ------------------------------------------------------------------------------------------------
# rotate
# ------------------------------------------------------------------------------------------------
REGRID_TY = ("(List Rat → List Rat → List (List Rat) → Option (List Rat) → Option (List Rat) → Bool → α)")


class BlockRot(Block3):
    """`dsout = self._obj.assign_coords({attrs.DIRNAME: V})` binds a relabelled spectrum; `return regrid_spec(dsout, dir=self.dir)`"""

    def __init__(self, k):
        super().__init__(k)
        self.relabelled = {}

    def block(self, stmts, env, ind, finish=None):
        stmts = list(stmts)
        pre = []
        pad = " " * ind
        env = dict(env)
        keep = []
        for st in stmts:
            if (isinstance(st, ast.Assign) and len(st.targets) == 1 and isinstance(st.targets[0], ast.Name)
                    and isinstance(st.value, ast.Call) and ast.unparse(st.value.func) == "self._obj.assign_coords"):
                if keep and not all(isinstance(s, ast.Assign) for s in keep):
                    raise Untranslatable("rotate: statement order")
                c = st.value
                if len(c.args) != 1 or c.keywords or not isinstance(c.args[0], ast.Dict) or len(c.args[0].keys) != 1 \
                        or _dim(c.args[0].keys[0]) != "dir":
                    raise Untranslatable("assign_coords form " + ast.unparse(c)[:80])
                # translate what precedes it first
                txt, _ = Block3.block(self, keep, env, ind, finish=lambda env2: self._capture(env2))
                pre += txt.split("\n")[:-1]
                env = self._env
                keep = []
                v = Tr3(self.k, env).tr(c.args[0].values[0])
                if v.ty != D:
                    raise Untranslatable(f"assign_coords of {v.ty}")
                nm = self.k.local(st.targets[0].id) + "_dir"
                pre.append(f"{pad}let {nm} := {v.t}")
                self.relabelled[st.targets[0].id] = nm
                continue
            keep.append(st)
        txt, ty = Block3.block(self, keep, env, ind, finish)
        return "\n".join(pre + [txt]), ty

    def _capture(self, env2):
        self._env = env2
        return V("()", S)

    def ret(self, e, env):
        k = self.k
        from .translate_native import _imports

        if not (isinstance(e, ast.Call) and _call_name(e) == "regrid_spec"):
            raise Untranslatable("rotate: return " + ast.unparse(e)[:80])
        if _imports(SPECARRAY).get("regrid_spec") != "wavespectra.core.utils":
            raise Untranslatable("regrid_spec is not imported from wavespectra.core.utils")
        ufn = find_func(UTILS, "regrid_spec")
        names = [a.arg for a in ufn.args.args]
        if names != ["dset", "freq", "dir", "maintain_m0"] or ufn.args.vararg or ufn.args.kwarg or ufn.args.kwonlyargs:
            raise Untranslatable(f"utils.regrid_spec: signature {names}")
        dfl = dict(zip(names[len(names) - len(ufn.args.defaults):], ufn.args.defaults))
        given = {}
        if len(e.args) > len(names):
            raise Untranslatable("call arity " + ast.unparse(e)[:80])
        for n, a in zip(names, e.args):
            given[n] = a
        for kwd in e.keywords:
            if kwd.arg not in names or kwd.arg in given:
                raise Untranslatable("call keyword " + ast.unparse(e)[:80])
            given[kwd.arg] = kwd.value
        ds = given.get("dset")
        if not (isinstance(ds, ast.Name) and ds.id in self.relabelled):
            raise Untranslatable("regrid_spec of something else than the relabelled spectrum")
        args = ["freq", self.relabelled[ds.id], "obj"]
        tr = Tr3(k, env)
        for n, want in (("freq", F), ("dir", D)):
            a = given.get(n, dfl.get(n))
            if a is None:
                raise Untranslatable("regrid_spec: missing " + n)
            if isinstance(a, ast.Constant) and a.value is None:
                args.append("none")
            else:
                v = tr.tr(a)
                if v.ty != want:
                    raise Untranslatable(f"regrid_spec: {n} of type {v.ty}")
                args.append(f"(some {v.t})")
        a = given.get("maintain_m0", dfl.get("maintain_m0"))
        if not (isinstance(a, ast.Constant) and isinstance(a.value, bool)):
            raise Untranslatable("regrid_spec: maintain_m0 " + (ast.unparse(a) if a is not None else "missing"))
        args.append("true" if a.value else "false")
        return V("regrid_spec " + " ".join(args), "ALPHA")


def xr_rotate():
    k = Ctx3("rotate", "xrRotate", {"angle": S})
    k.front = "{α : Type} (regrid_spec : " + REGRID_TY + ")"
    body, ty = BlockRot(k).block(body_stmts(k.fn), k.env0(), 2)
    if ty != "ALPHA":
        raise Untranslatable("rotate does not return regrid_spec(…)")
    doc = ("`SpecArray.rotate`; `regrid_spec src_freq src_dir values freq dir maintain_m0` = the model of `core/utils.regrid_spec` on a spectrum "
           "with coordinates `src_freq`, `src_dir`")
    return _emit(k, "xrRotate", "α", body, doc)


def _m3(py, lean, ptypes=None, **kw):
    def f():
        return method3(py, lean, ptypes or {}, **kw)
    f.__name__ = "xr3_" + py
    return f


xr_rotate.__name__ = "xr3_rotate"

XR3_KERNELS = [
    _m3("uss_x", "xrUssX", {"depth": OPT, "theta": S}, tables=("cp",)),
    _m3("uss_y", "xrUssY", {"depth": OPT, "theta": S}, tables=("sp",)),
    _m3("uss", "xrUss", {"depth": OPT}),
    _m3("mss", "xrMss", {"depth": OPT}),
    _m3("rmse", "xrRmse", {"other": M}),
    _m3("celerity", "xrCelerity", {"depth": OPT}),
    _m3("wavelen", "xrWavelen", {"depth": OPT}),
    xr_rotate,
]

HEADER = ("import WsVerif.Gen.Prelude\n"
          "import WsVerif.Gen.NpKernels\n"
          "import WsVerif.Gen.XrKernels\n"
          "/-! GENERATED by harness/translate_xr3.py from wavespectra/specarray.py (labelled-array grammar, part 3) — do not edit.\n"
          "    Bridged to the models in Props/C01xr3.lean (`genxr3_*`). -/\n"
          "set_option linter.unusedVariables false\n"
          "namespace WS.Gen\n")


def generate_xr3(gen_dir):
    status = {}
    text = HEADER
    seen = set()
    # shared constants already emitted by translate_xr (Gen/XrKernels.lean is imported by the generated file)
    first = gen_dir / "XrKernels.lean"
    if first.exists() and "\ndef xr_D2R " in first.read_text():
        seen.add("xr_D2R")
    for kf in XR3_KERNELS:
        try:
            defs = kf()
            for nm, src in defs:
                if nm in seen:
                    continue
                seen.add(nm)
                text += src + "\n"
                status["xr3_" + nm] = "ok"
        except Exception as e:  # Untranslatable, or a malformed tree: the tie is broken, the bridge will not build
            msg = f"{type(e).__name__}: {e}".replace("\n", " ")[:300]
            text += f"-- {kf.__name__}: untranslatable: {X._doc(msg)}\n\n"
            status[kf.__name__] = f"untranslatable: {msg}"
    text += "end WS.Gen\n"
    write_if_changed(gen_dir / "XrKernels3.lean", text)
    return status

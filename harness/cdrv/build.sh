#!/bin/bash
# Build the C drivers around $VERIF_REPO/wavespectra/partition/specpart/specpart.c (default /repo) into
# <verif>/.build/cdrv/: cdrv, cenum (gcc -O2) and cdrv_san, cenum_san (clang ASan+UBSan, no recovery).
# Rebuilt whenever specpart.c / specpart.h / the driver sources / the repository path change (content hash).
set -e
here="$(cd "$(dirname "$0")" && pwd)"
root="$(cd "$here/../.." && pwd)"
repo="${VERIF_REPO:-/repo}"
repo="$(cd "$repo" && pwd)"
srcdir="$repo/wavespectra/partition/specpart"
out="$root/.build/cdrv"
mkdir -p "$out"
tag="$( (echo "$srcdir"; cat "$srcdir/specpart.c" "$srcdir/specpart.h" "$here/cdrv.c" "$here/cenum.c" "$here/build.sh") | sha256sum | cut -c1-16)"
if [ -f "$out/stamp" ] && [ "$(cat "$out/stamp")" = "$tag" ] && [ -x "$out/cdrv" ] && [ -x "$out/cenum" ] \
   && [ -x "$out/cdrv_san" ] && [ -x "$out/cenum_san" ]; then
  exit 0
fi
rm -f "$out/stamp"
def="-DSPECPART_C=\"$srcdir/specpart.c\""
for p in cdrv cenum; do
  gcc -O2 -w -D_GNU_SOURCE "$def" -I"$srcdir" -o "$out/$p.tmp" "$here/$p.c" -lm
  mv "$out/$p.tmp" "$out/$p"
  clang -O1 -g -w -D_GNU_SOURCE -fsanitize=address,undefined -fno-sanitize-recover=all -fno-omit-frame-pointer \
    "$def" -I"$srcdir" -o "$out/${p}_san.tmp" "$here/$p.c" -lm
  mv "$out/${p}_san.tmp" "$out/${p}_san"
done
echo "$tag" > "$out/stamp"

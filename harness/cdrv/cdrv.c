/* Line-driven driver around the repository's specpart.c (included textually).
   requests (one per line on stdin):
     neigh mk mth                       -> per pixel: count then the entries in slot order (one line)
     part nk nth ihmax v1 ... v(nk*nth) -> label map, row-major [ifreq][iang] (values parsed as double, stored as float,
                                           grid given row-major spec[ifreq*nth+iang] exactly like the numpy array)
     minval n v1 ... vn                 -> int_minval of the list
   The static buffers persist between requests, as they do inside the Python process. */
#include SPECPART_C
#include <string.h>
int main(void) {
  size_t cap = 1 << 20;
  char *buf = malloc(cap);
  static char obuf[1 << 16];
  if (getenv("CENUM_LINEBUF")) setvbuf(stdout, NULL, _IOLBF, 0); else setvbuf(stdout, obuf, _IOFBF, sizeof obuf);
  for (;;) {
    ssize_t len = getline(&buf, &cap, stdin);
    if (len <= 0) break;
    char *s = buf;
    char *end;
    if (strncmp(s, "neigh ", 6) == 0) {
      s += 6;
      int a = strtol(s, &end, 10); s = end;
      int b = strtol(s, &end, 10); s = end;
      partinit(a, b);
      for (int n = 0; n < a * b; n++) {
        int c = neigh[8 + 9 * n];
        printf(n ? " %d" : "%d", c);
        for (int k = 0; k < c; k++) printf(" %d", neigh[k + 9 * n]);
      }
      printf("\n");
    } else if (strncmp(s, "part ", 5) == 0) {
      s += 5;
      int nk = strtol(s, &end, 10); s = end;
      int nth = strtol(s, &end, 10); s = end;
      int ih = strtol(s, &end, 10); s = end;
      int n = nk * nth;
      float *spec = malloc(n * sizeof(float));
      int *ipart = malloc(n * sizeof(int));
      for (int i = 0; i < n; i++) { spec[i] = (float)strtod(s, &end); s = end; ipart[i] = -77; }
      partition(spec, ipart, nk, nth, ih);
      for (int f = 0; f < nk; f++)
        for (int t = 0; t < nth; t++) printf((f || t) ? " %d" : "%d", ipart[f + nk * t]);
      printf("\n");
      free(spec); free(ipart);
    } else if (strncmp(s, "minval ", 7) == 0) {
      /* minval n v1 ... vn -> int_minval(data, n): the helper that decides whether another clean-up sweep is needed */
      s += 7;
      int n = strtol(s, &end, 10); s = end;
      int *d = malloc((n > 0 ? n : 1) * sizeof(int));
      for (int i = 0; i < n; i++) { d[i] = strtol(s, &end, 10); s = end; }
      printf("%d\n", int_minval(d, n));
      free(d);
    } else {
      printf("err\n");
    }
  }
  fflush(stdout);
  return 0;
}

/* Exhaustive enumerator around the repository's specpart.c (included textually so that the statics are visible).
   usage: cenum nk nth a ihmax     -- every grid nk x nth over the alphabet 0..a-1; cell c of the row-major grid
   is digit c of the code in base a (same order as lean/Enumsp.lean); one label map per line, row-major [ifreq][iang].
   The wrapper passes a Fortran-ordered (nk,nth) output array, so element [f,t] is ipart[f + nk*t]. */
#include SPECPART_C
#include <string.h>
int main(int argc, char **argv) {
  if (argc < 5) return 2;
  int nk = atoi(argv[1]), nth = atoi(argv[2]), a = atoi(argv[3]), ih = atoi(argv[4]);
  int n = nk * nth;
  long total = 1;
  for (int i = 0; i < n; i++) total *= a;
  float *spec = malloc(n * sizeof(float));
  int *ipart = malloc(n * sizeof(int));
  char *line = malloc(16 * n + 16);
  static char obuf[1 << 16];
  /* CENUM_LINEBUF=1: flush after every grid, so that after a sanitizer abort or a hang the number of lines
     printed is the code of the offending grid */
  if (getenv("CENUM_LINEBUF")) setvbuf(stdout, NULL, _IOLBF, 0); else setvbuf(stdout, obuf, _IOFBF, sizeof obuf);
  for (long code = 0; code < total; code++) {
    long c = code;
    for (int i = 0; i < n; i++) { spec[i] = (float)(c % a); c /= a; }
    for (int i = 0; i < n; i++) ipart[i] = -77;
    partition(spec, ipart, nk, nth, ih);
    char *p = line;
    for (int f = 0; f < nk; f++)
      for (int t = 0; t < nth; t++) {
        if (p != line) *p++ = ' ';
        p += sprintf(p, "%d", ipart[f + nk * t]);
      }
    *p++ = '\n'; *p = 0;
    fputs(line, stdout);
  }
  fflush(stdout);
  return 0;
}
